import GramModel.Lemmas.ArmsTie
import GramModel.Lemmas.Print
import GramModel.Lemmas.PrintDerives
import GramModel.Lemmas.PrintLex
import GramModel.Lemmas.ParsePrinted22
import GramModel.Lemmas.ParseComplete5

/-!
# C16 — printed terms read back as the same term (the printer side)

The model of the printer is `GramModel/Print.lean` (pure layer `printTm`/`groupP`/`annotP`/`headP`,
store layer `printS`/`groupS`/`annotS`/`headS`), tied to `impl Display for Variant`, `annotation` and
`group` of `term.rs` by the `print` correspondence suite.  The reading-back half of the property
(print, tokenize, parse, compare) is decided on the implementation by the oracle of that suite.

Here: *where* the printer puts parentheses, stated as equations of the model on every term former,
the partition used by `group` checked against the table regenerated from `term.rs`, and what the
printer reads off the de Bruijn indices.  Only statements (`C16_*_stmt`), their discharging
theorems and non-vacuity examples live here.
-/

/-- The hand-written bare / parenthesised partition of the model is the one of `term.rs::group`
(`Generated.printBare`, `Generated.printParen`, regenerated on every run): the list of formers is
complete, every variant other than `Unifier` (which `group` follows) is in exactly the list the model
says, the lists mention nothing else, and variant names are not confused. -/
def C16_atomic_table_stmt : Prop :=
  (∀ f : Former, f ∈ Former.all) ∧
  (∀ f ∈ Former.all, f ≠ .unifier →
    ((f.bare = true ↔ f.name ∈ Generated.printBare) ∧ (f.bare = false ↔ f.name ∈ Generated.printParen))) ∧
  (∀ s ∈ Generated.printBare ++ Generated.printParen, ∃ f ∈ Former.all, f ≠ .unifier ∧ f.name = s) ∧
  (Former.unifier.name ∉ Generated.printBare ++ Generated.printParen) ∧
  (∀ f ∈ Former.all, ∀ g ∈ Former.all, f.name = g.name → f = g) ∧
  (∀ t : Tm, atomic t = t.former.bare)
theorem C16_atomic_table : C16_atomic_table_stmt := by
  refine ⟨?_, by decide, by decide, by decide, by decide, fun _ => rfl⟩
  intro f; cases f <;> decide

/-- `group` parenthesises exactly the non-atomic terms — in the pure layer, and in the store layer
(the one compared with the implementation) for every hole-free term, whatever the store, given fuel
proportional to the size of the term. -/
def C16_group_parenthesises_stmt : Prop :=
  (∀ (nm : Name → List Char) (t : Tm),
    groupP nm t = if atomic t then printTm nm t else '(' :: printTm nm t ++ [')']) ∧
  (∀ (nm : Name → List Char) (σ : List (Option Tm)) (t : Tm) (f : Nat),
    t.holeFree = true → 2 * t.size + 1 ≤ f →
    groupS nm σ f t = some (if atomic t then printTm nm t else '(' :: printTm nm t ++ [')']))
theorem C16_group_parenthesises : C16_group_parenthesises_stmt := by
  constructor
  · intro nm t; simp [groupP, wrapGroup, parenC]
  · intro nm σ t f h hs
    rw [groupS_holeFree nm σ t f h hs]; simp [groupP, wrapGroup, parenC]

/-- The store layer and the pure layer print hole-free terms alike (whatever the store). -/
def C16_layers_agree_stmt : Prop :=
  ∀ (nm : Name → List Char) (σ : List (Option Tm)) (t : Tm) (f : Nat),
    t.holeFree = true → 2 * t.size ≤ f → printS nm σ f t = some (printTm nm t)
theorem C16_layers_agree : C16_layers_agree_stmt := fun nm σ t f h hs => printS_holeFree nm t f σ h hs

/-- A resolved cell is transparent to `Display`, `group` and `annotation`: they print its contents
(the shift of the occurrence plays no role in the text); an empty cell prints `_`, unparenthesised. -/
def C16_cells_followed_stmt : Prop :=
  ∀ (nm : Name → List Char) (σ : List (Option Tm)) (f id s : Nat),
    (∀ sub, σ[id]? = some (some sub) →
      printS nm σ (f+1) (.hole id s) = printS nm σ f sub ∧
      groupS nm σ (f+1) (.hole id s) = groupS nm σ f sub ∧
      annotS nm σ (f+1) (.hole id s) = annotS nm σ f sub) ∧
    ((∀ sub, σ[id]? ≠ some (some sub)) →
      printS nm σ (f+1) (.hole id s) = some ['_'] ∧
      groupS nm σ (f+2) (.hole id s) = some ['_'] ∧
      annotS nm σ (f+2) (.hole id s) = some ['_'])
theorem C16_cells_followed : C16_cells_followed_stmt := by
  intro nm σ f id s
  constructor
  · intro sub h
    simp [printS_hole, groupS_hole, annotS_hole, h]
  · intro h
    have hp : ∀ g, printS nm σ (g+1) (.hole id s) = some ['_'] := by
      intro g
      rw [printS_hole]
      cases hc : σ[id]? with
      | none => rfl
      | some c =>
        cases c with
        | none => rfl
        | some sub => exact absurd hc (h sub)
    refine ⟨hp f, ?_, ?_⟩
    · rw [groupS_hole]
      cases hc : σ[id]? with
      | none => exact hp f
      | some c =>
        cases c with
        | none => exact hp f
        | some sub => exact absurd hc (h sub)
    · rw [annotS_hole]
      cases hc : σ[id]? with
      | none => exact hp f
      | some c =>
        cases c with
        | none => exact hp f
        | some sub => exact absurd hc (h sub)

/-- The positions printed through `group`: both operands of every binary operator, the operand of
unary minus, the argument of an application, the function part of an application unless it is itself
an application, the annotation and the definition of every `let` definition. -/
def C16_operands_grouped_stmt : Prop :=
  ∀ (nm : Name → List Char),
    (∀ op a b, printTm nm (.bin op a b) = groupP nm a ++ ' ' :: opChars op ++ ' ' :: groupP nm b) ∧
    (∀ a, printTm nm (.neg a) = '-' :: groupP nm a) ∧
    (∀ f a, (∀ g x, f ≠ .app g x) → printTm nm (.app f a) = groupP nm f ++ ' ' :: groupP nm a) ∧
    (∀ g x a, printTm nm (.app (.app g x) a) = printTm nm (.app g x) ++ ' ' :: groupP nm a) ∧
    (∀ x a d r, printDefs nm (.cons x a d r) =
      nm x ++ " : ".toList ++ groupP nm a ++ " = ".toList ++ groupP nm d ++ "; ".toList ++ printDefs nm r) ∧
    (printDefs nm .nil = [])
theorem C16_operands_grouped : C16_operands_grouped_stmt := by
  intro nm
  refine ⟨?_, ?_, ?_, ?_, ?_, ?_⟩
  · intro op a b; simp [printTm, binText, groupP]
  · intro a; simp [printTm, negText, groupP]
  · intro f a hf
    cases f <;> first
      | exact absurd rfl (hf _ _)
      | simp [printTm, appText, groupP, wrapHead]
  · intro g x a; simp [printTm, appText, groupP, wrapHead]
  · intro x a d r; simp [printDefs, defText, groupP]
  · simp [printDefs]

/-- The positions printed *without* `group` are exactly the remaining ones: the body of a lambda and
the codomain of a function type; a binder annotation (through `annotation`, which parenthesises a
`let` and nothing else); the domain of an implicit non-dependent function type (inside the braces);
an application as the domain of `->` (anything else there goes through `group`); the three parts of
`if`; the body of a `let`; an application as the head of an application (previous statement).  Which
form a function type takes is decided by `freeAt cod 0` alone. -/
def C16_bare_positions_stmt : Prop :=
  ∀ (nm : Name → List Char),
    (∀ x d b, printTm nm (.lam x false d b) =
      '(' :: nm x ++ " : ".toList ++ annotP nm d ++ ") => ".toList ++ printTm nm b) ∧
    (∀ x d b, printTm nm (.lam x true d b) =
      '{' :: nm x ++ " : ".toList ++ annotP nm d ++ "} => ".toList ++ printTm nm b) ∧
    (∀ x d c, freeAt c 0 = true → printTm nm (.pi x false d c) =
      '(' :: nm x ++ " : ".toList ++ annotP nm d ++ ") -> ".toList ++ printTm nm c) ∧
    (∀ x d c, freeAt c 0 = true → printTm nm (.pi x true d c) =
      '{' :: nm x ++ " : ".toList ++ annotP nm d ++ "} -> ".toList ++ printTm nm c) ∧
    (∀ x d c, freeAt c 0 = false → printTm nm (.pi x true d c) =
      '{' :: printTm nm d ++ "} -> ".toList ++ printTm nm c) ∧
    (∀ x g a c, freeAt c 0 = false → printTm nm (.pi x false (.app g a) c) =
      printTm nm (.app g a) ++ " -> ".toList ++ printTm nm c) ∧
    (∀ x d c, freeAt c 0 = false → (∀ g a, d ≠ .app g a) → printTm nm (.pi x false d c) =
      groupP nm d ++ " -> ".toList ++ printTm nm c) ∧
    (∀ c a b, printTm nm (.ite c a b) =
      "if ".toList ++ printTm nm c ++ " then ".toList ++ printTm nm a ++ " else ".toList ++ printTm nm b) ∧
    (∀ ds b, printTm nm (.letg ds b) = printDefs nm ds ++ printTm nm b) ∧
    (∀ ds b, annotP nm (.letg ds b) = '(' :: printTm nm (.letg ds b) ++ [')']) ∧
    (∀ t, (∀ ds b, t ≠ .letg ds b) → annotP nm t = printTm nm t)
theorem C16_bare_positions : C16_bare_positions_stmt := by
  intro nm
  refine ⟨?_, ?_, ?_, ?_, ?_, ?_, ?_, ?_, ?_, ?_, ?_⟩
  · intro x d b; simp [printTm, lamText, annotP]
  · intro x d b; simp [printTm, lamText, annotP]
  · intro x d c h; simp [printTm, h, piDepText, annotP]
  · intro x d c h; simp [printTm, h, piDepText, annotP]
  · intro x d c h; simp [printTm, h, piImpText]
  · intro x g a c h; simp [printTm, h, arrowText, wrapHead]
  · intro x d c h hd
    cases d <;> first
      | exact absurd rfl (hd _ _)
      | simp [printTm, h, arrowText, wrapHead, groupP]
  · intro c a b; simp [printTm, iteText]
  · intro ds b; simp [printTm]
  · intro ds b; simp [annotP, wrapAnnot, parenC]
  · intro t ht
    cases t <;> first
      | exact absurd rfl (ht _ _)
      | simp [annotP, wrapAnnot]

/-- The printer reads the de Bruijn indices only through the dependent / non-dependent verdict of
the function types: two terms that differ only in their indices (and in the identity and shift of
their holes) and agree on that verdict at every function type print identically; in particular,
without function types, the indices play no role at all. -/
def C16_names_only_printed_stmt : Prop :=
  (∀ (nm : Name → List Char) (t u : Tm),
    eraseIdx t = eraseIdx u → sameDeps t u = true → printTm nm t = printTm nm u) ∧
  (∀ (nm : Name → List Char) (t u : Tm),
    noPi t = true → noPi u = true → eraseIdx t = eraseIdx u → printTm nm t = printTm nm u)
theorem C16_names_only_printed : C16_names_only_printed_stmt := by
  constructor
  · exact fun nm t u h hd => printTm_congr nm t u h hd
  · intro nm t u ht hu h
    rw [← printTm_eraseIdx nm t ht, ← printTm_eraseIdx nm u hu, h]

/-! ## Non-vacuity -/

section examples

/-- `0 ↦ _`, `1 ↦ f`, `2 ↦ g`, `3 ↦ x`, `4 ↦ y` -/
private def exNm : Name → List Char
  | 0 => ['_'] | 1 => ['f'] | 2 => ['g'] | 3 => ['x'] | 4 => ['y'] | _ => ['?']

private def lit (n : Int) : Tm := .lit n

-- `1 - (2 - 3)` keeps its parentheses; `(1 - 2) - 3` gets (redundant) ones
example : printTm exNm (.bin .diff (lit 1) (.bin .diff (lit 2) (lit 3))) = "1 - (2 - 3)".toList := by decide
example : printTm exNm (.bin .diff (.bin .diff (lit 1) (lit 2)) (lit 3)) = "(1 - 2) - 3".toList := by decide
-- `f (g x) y`: application chains are left-nested without parentheses, arguments are grouped
example : printTm exNm (.app (.app (.var 1 2) (.app (.var 2 1) (.var 3 0))) (.var 4 3)) = "f (g x) y".toList := by
  decide
example : printTm exNm (.app (.var 1 2) (.app (.var 2 1) (.var 3 0))) = "f (g x)".toList := by decide
-- negative literals and negation
example : printTm exNm (.neg (lit (-5))) = "--5".toList := by decide
example : printTm exNm (.neg (.neg (.var 3 0))) = "-(-x)".toList := by decide
-- dependent / non-dependent function types
example : printTm exNm (.pi 3 false .type (.var 3 0)) = "(x : type) -> x".toList := by decide
example : printTm exNm (.pi 3 false .type (.var 4 1)) = "type -> y".toList := by decide
example : printTm exNm (.pi 3 false (.app (.var 1 1) (.var 4 0)) .int) = "f y -> int".toList := by decide
example : printTm exNm (.pi 3 false (.pi 4 false .int .int) .int) = "(int -> int) -> int".toList := by decide
-- the known unreadable output: an implicit non-dependent function type
example : printTm exNm (.pi 3 true .int .int) = "{int} -> int".toList := by decide
-- a group as a binder annotation is parenthesised, as an operand too, as a body not
example : printTm exNm (.lam 3 false (.letg (.cons 4 (.hole 0 0) .int .nil) (.var 4 0)) (.var 3 0))
    = "(x : (y : _ = int; y)) => x".toList := by decide
example : printTm exNm (.lam 3 true .int (.letg (.cons 4 .int (lit 1) .nil) (.var 4 0)))
    = "{x : int} => y : int = 1; y".toList := by decide
example : printTm exNm (.ite .tt (.ite .ff (lit 1) (lit 2)) (.bin .sum (lit 3) (.ite .tt (lit 4) (lit 5))))
    = "if true then if false then 1 else 2 else 3 + (if true then 4 else 5)".toList := by decide
-- the store layer: a resolved cell prints its contents, an application behind a cell is *not*
-- recognised as an application by the head test (it is parenthesised)
example : printS exNm [some (.app (.var 1 0) (.var 3 1)), none] 50 (.app (.hole 0 0) (.hole 1 0))
    = some "(f x) _".toList := by decide
example : printS exNm [] 50 (.app (.app (.var 1 0) (.var 3 1)) (.hole 1 0)) = some "f x _".toList := by decide
-- the dependent test looks through a resolved cell and applies its shift: `x` (index 0 in the cell,
-- occurrence shifted by 0) is the bound variable, shifted by 1 it is not
example : printS exNm [some (.var 3 0)] 50 (.pi 3 false .int (.hole 0 0)) = some "(x : int) -> x".toList := by
  decide
example : printS exNm [some (.var 3 0)] 50 (.pi 3 false .int (.hole 0 1)) = some "int -> x".toList := by decide
-- indices are not printed
example : printTm exNm (.app (.var 1 7) (.var 3 9)) = printTm exNm (.app (.var 1 0) (.var 3 0)) := by decide
-- ... but they decide the form of a function type (so `noPi` cannot be dropped)
example : printTm exNm (.pi 3 false .int (.var 3 0)) ≠ printTm exNm (.pi 3 false .int (.var 3 1)) := by decide

end examples

/-! ## What is printed is a sentence of `grammar.y` (`Lemmas/PrintDerives.lean`)

`PrintDerives.printItems nm t` is the printed text as a list of lexemes, each with its token kind
(`TokKind`) and a flag "followed by one space", defined by the same case analysis as `printTm`;
`printKinds` are the kinds, `printToks` the kinds as terminals of `grammar.y`
(`Generated.grammarProductions`, regenerated from `/repo/grammar.y` on every run; derivability
`Derives` as in `Props/C07.lean`). -/

section sentence
open PrintDerives

/-- **Token-level reading of the printed text**: the text is the concatenation of the lexemes of
`printItems`, with a single space exactly after the lexemes flagged so (for terms and for the
definitions of a group), and the terminals are the kinds of these lexemes. -/
def C16_print_items_stmt : Prop :=
  (∀ (nm : Name → List Char) (t : Tm), printTm nm t = flatten (printItems nm t)) ∧
  (∀ (nm : Name → List Char) (ds : Defs), printDefs nm ds = flatten (printDefsItems nm ds)) ∧
  (∀ (nm : Name → List Char) (t : Tm), printToks nm t = (printKinds nm t).map kindTerminal) ∧
  (∀ k : TokKind, kindTerminal k ∈ Generated.grammarTerminals)
theorem C16_print_items : C16_print_items_stmt :=
  ⟨printTm_eq_flatten, printDefs_eq_flatten, printToks_eq_map, kindTerminal_mem⟩

/-- (First formulation, **refuted** below.)  Whatever the term, the printed token sequence is a
sentence of the start symbol of the grammar. -/
def C16_print_derives_unrestricted : Prop :=
  ∀ (nm : Name → List Char) (t : Tm), Derives Generated.grammarProductions "term" (printToks nm t)

/-- PENDING `C16_print_derives_unrestricted` is FALSE: the implicit non-dependent function type
`{int} -> int` (finding KF-print-implicit) is printed in a form `grammar.y` does not have. -/
theorem C16_print_derives_refuted : ¬ C16_print_derives_unrestricted :=
  fun h => implicit_arrow_not_derivable (fun _ => []) 0 "term" (h (fun _ => []) (.pi 0 true .int .int))

/-- **What the printer prints is a sentence of the published grammar**: for every term without an
implicit non-dependent function type (`{A} -> B`) and without a negative integer literal, the token
kinds of the printed text form a sentence of the start symbol `term` of `grammar.y`; moreover the
operand positions are filled the way the grammar wants them: what `group` prints is an `atom`, what
`annotation` prints a `jumbo_term`, the head of an application / the domain of `->` a `small_term`.
No hypothesis on names (an identifier token is an `IDENTIFIER` whatever its text), none on holes
(`_` is an identifier), none on the number of definitions of a group (an empty group prints as its
body). -/
def C16_print_derives_stmt : Prop :=
  ∀ (nm : Name → List Char) (t : Tm), noImplicitArrow t = true → noNegLit t = true →
    Derives Generated.grammarProductions "term" (printToks nm t) ∧
    Derives Generated.grammarProductions "atom" (groupToks nm t) ∧
    Derives Generated.grammarProductions "jumbo_term" (annotToks nm t) ∧
    Derives Generated.grammarProductions "small_term" (headToks nm t)
theorem C16_print_derives : C16_print_derives_stmt := fun nm t h1 h2 =>
  ⟨print_derives nm t h1 h2, group_derives nm t h1 h2, annot_derives nm t h1 h2,
   head_derives nm t h1 h2⟩

/-- **The first exclusion is necessary** (KF-print-implicit): in every sentence of every nonterminal
of `grammar.y` a `{` is followed by an identifier; the printed form of `{int} -> int` violates this,
as does every implicit non-dependent function type whose domain does not start with an identifier,
so no nonterminal derives it. -/
def C16_implicit_arrow_not_sentence_stmt : Prop :=
  (∀ (A : String) (w : List String), Derives Generated.grammarProductions A w → lcOk w = true) ∧
  (∀ (nm : Name → List Char) (x : Name) (A : String),
    ¬ Derives Generated.grammarProductions A (printToks nm (.pi x true .int .int))) ∧
  (∀ (nm : Name → List Char) (x : Name) (d c : Tm), freeAt c 0 = false →
    (∀ r, printToks nm d ≠ "IDENTIFIER" :: r) → ∀ A : String,
    ¬ Derives Generated.grammarProductions A (printToks nm (.pi x true d c)))
theorem C16_implicit_arrow_not_sentence : C16_implicit_arrow_not_sentence_stmt :=
  ⟨fun _ _ h => derives_lcOk h, implicit_arrow_not_derivable, fun nm x d c hf hd A h => by
    have h1 := derives_lcOk h
    rw [implicit_arrow_lcOk_false nm x d c hf hd] at h1
    exact absurd h1 (by decide)⟩

/-- **The second exclusion is a defect of the printer** (new finding KF-print-negative-literal):
`group` treats every integer literal as atomic, but a negative one is printed with a leading `-`
(two tokens).  The application of an atomic `f` to the literal `-(n+1)` and the difference
`f - (n+1)` are printed as the *same* token sequence (same kinds, same payloads; the texts `f -1` and
`f - 1` differ by one space), although they are different terms.  Negative literals do not occur in
parsed programs (`-1` is the negation of `1`) but the evaluator and the normalizer create them:
`gram run` on `((x : int) => (y : int -> int) => y x) (0 - 1)` prints `(y : int -> int) => y -1`. -/
def C16_negative_literal_ambiguous_stmt : Prop :=
  ∀ (nm : Name → List Char) (f : Tm) (n : Nat), atomic f = true →
    printKinds nm (.app f (.lit (.negSucc n))) = printKinds nm (.bin .diff f (.lit (.ofNat (n + 1))))
    ∧ Tm.app f (.lit (.negSucc n)) ≠ .bin .diff f (.lit (.ofNat (n + 1)))
theorem C16_negative_literal_ambiguous : C16_negative_literal_ambiguous_stmt :=
  fun nm f n hf => ⟨negative_literal_ambiguous nm f n hf, fun e => by cases e⟩

/-- … and the second exclusion is **necessary for derivability** as well: no sentence of `term`
starts with `MINUS INTEGER_LITERAL THIN_ARROW`, so a non-dependent function type whose domain is a
negative literal (`-1 -> B`) is not a sentence.  (`gram run` on the well-typed
`((x : int) => (q : int -> type) => (z : q x -> q x) => z) (0 - 1)` prints
`(q : int -> type) => (z : q -1 -> q -1) => z`, which `gram check` rejects with a syntax error.) -/
def C16_negative_literal_not_sentence_stmt : Prop :=
  (∀ r : List String, ¬ Derives Generated.grammarProductions "term"
    ("MINUS" :: "INTEGER_LITERAL" :: "THIN_ARROW" :: r)) ∧
  (∀ (nm : Name → List Char) (x : Name) (n : Nat) (c : Tm), freeAt c 0 = false →
    ¬ Derives Generated.grammarProductions "term" (printToks nm (.pi x false (.lit (.negSucc n)) c)))
theorem C16_negative_literal_not_sentence : C16_negative_literal_not_sentence_stmt :=
  ⟨minus_literal_arrow_not_derivable, negative_literal_domain_not_derivable⟩

/-! ### Non-vacuity -/

-- a lambda whose annotation is a group (parenthesised), the definition's annotation a hole
example : printItems exNm (.lam 3 false (.letg (.cons 4 (.hole 0 0) .int .nil) (.var 4 0)) (.var 3 0)) =
    [tk ['('] .leftParen, tkS ['x'] (.identifier ['x']), tkS [':'] .colon,
     tk ['('] .leftParen, tkS ['y'] (.identifier ['y']), tkS [':'] .colon, tkS ['_'] (.identifier ['_']),
     tkS ['='] .equals, tk ['i', 'n', 't'] .integer, tkS [';'] .terminatorSemicolon,
     tk ['y'] (.identifier ['y']), tk [')'] .rightParen,
     tkS [')'] .rightParen, tkS ['=', '>'] .thickArrow, tk ['x'] (.identifier ['x'])] := by decide
example : flatten (printItems exNm (.lam 3 false (.letg (.cons 4 (.hole 0 0) .int .nil) (.var 4 0)) (.var 3 0)))
    = "(x : (y : _ = int; y)) => x".toList := by decide
-- an application chain with a parenthesised argument: `f (g x) y`
example : printToks exNm (.app (.app (.var 1 2) (.app (.var 2 1) (.var 3 0))) (.var 4 3)) =
    ["IDENTIFIER", "LEFT_PAREN", "IDENTIFIER", "IDENTIFIER", "RIGHT_PAREN", "IDENTIFIER"] := by decide
example : (printItems exNm (.app (.app (.var 1 2) (.app (.var 2 1) (.var 3 0))) (.var 4 3))).map (·.2.2) =
    [true, false, true, false, true, false] := by decide
-- a dependent function type and an `if`: `(x : type) -> if true then x else int`
example : printToks exNm (.pi 3 false .type (.ite .tt (.var 3 0) .int)) =
    ["LEFT_PAREN", "IDENTIFIER", "COLON", "TYPE", "RIGHT_PAREN", "THIN_ARROW",
     "IF", "TRUE", "THEN", "IDENTIFIER", "ELSE", "INTEGER"] := by decide
example : flatten (printItems exNm (.pi 3 false .type (.ite .tt (.var 3 0) .int)))
    = "(x : type) -> if true then x else int".toList := by decide
-- the hypotheses of `C16_print_derives` hold of these terms
example : Derives Generated.grammarProductions "term"
    (printToks exNm (.lam 3 false (.letg (.cons 4 (.hole 0 0) .int .nil) (.var 4 0)) (.var 3 0))) :=
  (C16_print_derives exNm _ (by decide) (by decide)).1
example : Derives Generated.grammarProductions "term"
    ["IDENTIFIER", "LEFT_PAREN", "IDENTIFIER", "IDENTIFIER", "RIGHT_PAREN", "IDENTIFIER"] :=
  (C16_print_derives exNm (.app (.app (.var 1 2) (.app (.var 2 1) (.var 3 0))) (.var 4 3))
    (by decide) (by decide)).1
-- the excluded terms
example : noImplicitArrow (.pi 3 true .int .int) = false := by decide
example : noNegLit (.app (.var 1 0) (lit (-1))) = false := by decide
example : printToks exNm (.pi 3 true .int .int) =
    ["LEFT_CURLY", "INTEGER", "RIGHT_CURLY", "THIN_ARROW", "INTEGER"] := by decide
-- `f -1` and `f - 1`: one token sequence, two texts, two terms
example : printKinds exNm (.app (.var 1 0) (lit (-1))) = [.identifier ['f'], .minus, .integerLiteral 1] := by decide
example : printKinds exNm (.bin .diff (.var 1 0) (lit 1)) = [.identifier ['f'], .minus, .integerLiteral 1] := by decide
example : printTm exNm (.app (.var 1 0) (lit (-1))) = "f -1".toList := by decide
example : printTm exNm (.bin .diff (.var 1 0) (lit 1)) = "f - 1".toList := by decide
example : printToks exNm (.pi 3 false (lit (-1)) .int) = ["MINUS", "INTEGER_LITERAL", "THIN_ARROW", "INTEGER"] := by
  decide
example : printTm exNm (.pi 3 false (lit (-1)) .int) = "-1 -> int".toList := by decide
-- an empty group prints as its body
example : printTm exNm (.letg .nil (.var 3 0)) = "x".toList := by decide

end sentence

/-! ## The printed text is tokenized back to the lexemes it was printed from (`Lemmas/PrintLex.lean`)

The tokenizer half of the round trip.  The lexeme list `printItems nm t` is turned into a *rendering*
of `Lemmas/LexerRender.lean` (no leading gap, after every lexeme one space or nothing, no final
comment); every item is a lexeme of its kind (`IsLexeme`) and two adjacent lexemes that the printer
does not separate by a space never fuse (`SepOK`): the printer omits the space only after `(` / `{`,
before `)` / `}` / `;`, and between a `-` (negation, sign of a negative literal) and its operand, which
starts with `(`, `_`, a keyword, a digit, a `-` or a name — never with `>`.  The render/tokenize law of
C10 (`render_law`) then gives the token kinds.  **No input was found on which two printed tokens
fuse.**

`CharClass.PrintSane` is `Sane2` plus what the printer needs of the Unicode classifier, each clause
true of Rust's `char::is_alphabetic` / `is_alphanumeric`:
`kw_start` (`t i b f e` are alphabetic), `kw_cont` (`y p e n t o l r u a s f h` are alphanumeric),
`space_cont` (`' '` is not alphanumeric), `digit_start` (an ASCII digit is not alphabetic),
`closer_cont` (`)`, `}`, `;` are not alphanumeric). -/

section lexing
open PrintDerives PrintLex

/-- Decimal digit strings (what `BigInt`'s `Display` / `intChars` prints for a non-negative literal)
are read back by the tokenizer's digit loop as the same number: all characters are ASCII digits, the
string is not empty, and `digitsValue` inverts `Nat.toDigits 10`. -/
def C16_decimal_digits_stmt : Prop :=
  ∀ n : Nat, (∀ c ∈ Nat.toDigits 10 n, isDigit c = true) ∧ Nat.toDigits 10 n ≠ [] ∧
    digitsValue (Nat.toDigits 10 n) = n
theorem C16_decimal_digits : C16_decimal_digits_stmt :=
  fun n => ⟨toDigits_isDigit n, Nat.toDigits_ne_nil, digitsValue_toDigits n⟩

/-- The lexeme list of the printer is a rendering in the sense of the render/tokenize law: its text
is the printed text, every item is a lexeme of its kind, the gaps are single spaces, and no two
adjacent lexemes without a space between them fuse. -/
def C16_print_rendering_stmt : Prop :=
  ∀ (cc : CharClass), cc.PrintSane → ∀ (nm : Name → List Char) (t : Tm),
    (∀ x ∈ printedNames t, IsLexeme cc (nm x) (.identifier (nm x))) →
    Rendering cc [] ((printItems nm t).map toLex) none ∧
    renderText [] ((printItems nm t).map toLex) none = printTm nm t ∧
    weave (lexFlags ((printItems nm t).map toLex)) = printKinds nm t
theorem C16_print_rendering : C16_print_rendering_stmt := fun cc hs nm t hn =>
  ⟨print_rendering hs nm t hn, by rw [renderText_toLex, ← printTm_eq_flatten], weave_toLex _⟩

/-- **The printed text tokenizes to exactly the lexemes it was printed from.**  For every classifier
satisfying `PrintSane`, every name table that maps each *printed* name of `t` (`printedNames`: the
variables and the binders of lambdas, dependent function types and definitions) to the text of one
identifier token — it starts with an identifier-start character that is not a symbol character,
continues with identifier characters and is not a keyword, which is what the tokenizer guarantees
for every name that came out of parsing — and every term `t`: `tokenize` of the printed text succeeds
(no error, no panic) and the kinds of the tokens, payloads included (identifier texts, literal
values), are `printKinds nm t`.  The hypothesis `noNegLit t` is **not** needed for this half (a
negative literal `-5` is tokenized as `MINUS INTEGER_LITERAL`, which is what `printKinds` says; it is
the grammar / the parser that then reads `f -5` as a difference, `C16_negative_literal_ambiguous`). -/
def C16_print_tokenizes_stmt : Prop :=
  ∀ (cc : CharClass), cc.PrintSane → ∀ (nm : Name → List Char) (t : Tm),
    (∀ x ∈ printedNames t, IsLexeme cc (nm x) (.identifier (nm x))) →
    ∃ ts, tokenize cc (printTm nm t) = .ok ts ∧ ts.map (·.kind) = printKinds nm t
theorem C16_print_tokenizes : C16_print_tokenizes_stmt :=
  fun _ hs nm t hn => print_tokenizes hs nm t hn

/-- **The printed text is a sentence of the published grammar**: under the above and the two
exclusions of `C16_print_derives` (no implicit non-dependent function type, no negative literal),
the printed text tokenizes to a token sequence whose terminals derive from the start symbol `term`
of `grammar.y`. -/
def C16_printed_text_is_sentence_stmt : Prop :=
  ∀ (cc : CharClass), cc.PrintSane → ∀ (nm : Name → List Char) (t : Tm),
    (∀ x ∈ printedNames t, IsLexeme cc (nm x) (.identifier (nm x))) →
    noImplicitArrow t = true → noNegLit t = true →
    ∃ ts, tokenize cc (printTm nm t) = .ok ts ∧
      Derives Generated.grammarProductions "term" (ts.map (fun tk => kindTerminal tk.kind))
theorem C16_printed_text_is_sentence : C16_printed_text_is_sentence_stmt :=
  fun _ hs nm t hn h1 h2 => printed_text_is_sentence hs nm t hn h1 h2

/-! ### Non-vacuity -/

/-- ASCII classifier: letters `a`–`z`, digits, blank / line feed / tab -/
def C16_cc : CharClass :=
  { isAlpha := fun c => ('a' ≤ c ∧ c ≤ 'z')
    isAlnum := fun c => ('a' ≤ c ∧ c ≤ 'z') || ('0' ≤ c ∧ c ≤ '9')
    isWs := fun c => c == ' ' || c == '\n' || c == '\t'
    graphemeEnd := fun p => p + 1 }

theorem C16_cc_printSane : C16_cc.PrintSane :=
  { hash_plain := by decide, nl_plain := by decide, space_ws := by decide, tab_ws := by decide,
    hash_cont := by decide, nl_cont := by decide,
    kw_start := by decide, kw_cont := by decide, space_cont := by decide,
    digit_start := by
      intro c h
      simp only [isDigit, decide_eq_true_eq] at h
      simp only [C16_cc, decide_eq_false_iff_not, not_and]
      intro h1
      exact absurd (Char.le_trans h1 h.2) (by decide),
    closer_cont := by decide }

/-- `(x : (y : _ = int; y)) => x` -/
private def exLam : Tm := .lam 3 false (.letg (.cons 4 (.hole 0 0) .int .nil) (.var 4 0)) (.var 3 0)
/-- `f (g x) y` -/
private def exApp : Tm := .app (.app (.var 1 2) (.app (.var 2 1) (.var 3 0))) (.var 4 3)
/-- `(x : type) -> if true then x else int` -/
private def exPi : Tm := .pi 3 false .type (.ite .tt (.var 3 0) .int)
/-- `y : int = 12; ((-y) + 305) <= y` -/
private def exLet : Tm :=
  .letg (.cons 4 .int (lit 12) .nil) (.bin .le (.bin .sum (.neg (.var 4 0)) (lit 305)) (.var 4 0))
/-- `{x : type} -> (f x -> {g -7}) -> --7`: curly binder, an arrow with a parenthesised domain, an
implicit non-dependent arrow, negative literals directly after `{`, `-` and a space -/
private def exNeg : Tm :=
  .pi 3 true .type (.pi 0 false (.pi 0 false (.app (.var 1 1) (.var 3 0)) (.pi 0 true (.app (.var 2 2) (lit (-7))) (.neg (lit (-7)))))
    (.neg (lit (-7))))

example : printTm exNm exLam = "(x : (y : _ = int; y)) => x".toList := by decide
example : printTm exNm exApp = "f (g x) y".toList := by decide
example : printTm exNm exPi = "(x : type) -> if true then x else int".toList := by decide
example : printTm exNm exLet = "y : int = 12; ((-y) + 305) <= y".toList := by decide
example : printTm exNm exNeg = "{x : type} -> (f x -> {g -7} -> --7) -> --7".toList := by decide

-- the hypothesis on names, discharged by evaluation (via the Boolean lexeme check of C10)
private theorem exNames (t : Tm)
    (h : ∀ x ∈ printedNames t, isLexemeB C16_cc (exNm x) (.identifier (exNm x)) = true) :
    ∀ x ∈ printedNames t, IsLexeme C16_cc (exNm x) (.identifier (exNm x)) :=
  fun x hx => isLexemeB_sound (h x hx)
example : printedNames exLam = [3, 4, 4, 3] := by decide
example : printedNames exNeg = [3, 1, 3, 2] := by decide  -- the binders of the three arrows are not printed

-- both sides of `C16_print_tokenizes`, evaluated
private def kindsOfResult : LexResult → Option (List TokKind)
  | .ok ts => some (ts.map (·.kind))
  | _ => none
example : kindsOfResult (tokenize C16_cc (printTm exNm exLam)) = some (printKinds exNm exLam) := by decide
example : kindsOfResult (tokenize C16_cc (printTm exNm exApp)) = some (printKinds exNm exApp) := by decide
example : kindsOfResult (tokenize C16_cc (printTm exNm exPi)) = some (printKinds exNm exPi) := by decide
example : kindsOfResult (tokenize C16_cc (printTm exNm exLet)) = some (printKinds exNm exLet) := by decide
example : kindsOfResult (tokenize C16_cc (printTm exNm exNeg)) = some (printKinds exNm exNeg) := by
  decide +kernel
example : printKinds exNm exLet =
    [.identifier ['y'], .colon, .integer, .equals, .integerLiteral 12, .terminatorSemicolon,
     .leftParen, .leftParen, .minus, .identifier ['y'], .rightParen, .plus, .integerLiteral 305,
     .rightParen, .lessThanOrEqualTo, .identifier ['y']] := by decide

-- the theorems instantiated: all hypotheses hold together
example : ∃ ts, tokenize C16_cc (printTm exNm exLam) = .ok ts ∧ ts.map (·.kind) = printKinds exNm exLam :=
  C16_print_tokenizes C16_cc C16_cc_printSane exNm exLam (exNames _ (by decide))
example : ∃ ts, tokenize C16_cc (printTm exNm exNeg) = .ok ts ∧ ts.map (·.kind) = printKinds exNm exNeg :=
  C16_print_tokenizes C16_cc C16_cc_printSane exNm exNeg (exNames _ (by decide))
example : ∃ ts, tokenize C16_cc (printTm exNm exApp) = .ok ts ∧
    Derives Generated.grammarProductions "term" (ts.map (fun tk => kindTerminal tk.kind)) :=
  C16_printed_text_is_sentence C16_cc C16_cc_printSane exNm exApp (exNames _ (by decide))
    (by decide) (by decide)
example : ∃ ts, tokenize C16_cc (printTm exNm exPi) = .ok ts ∧
    Derives Generated.grammarProductions "term" (ts.map (fun tk => kindTerminal tk.kind)) :=
  C16_printed_text_is_sentence C16_cc C16_cc_printSane exNm exPi (exNames _ (by decide))
    (by decide) (by decide)
example : ∃ ts, tokenize C16_cc (printTm exNm exLet) = .ok ts ∧
    Derives Generated.grammarProductions "term" (ts.map (fun tk => kindTerminal tk.kind)) :=
  C16_printed_text_is_sentence C16_cc C16_cc_printSane exNm exLet (exNames _ (by decide))
    (by decide) (by decide)
example : Rendering C16_cc [] ((printItems exNm exLam).map toLex) none :=
  (C16_print_rendering C16_cc C16_cc_printSane exNm exLam (exNames _ (by decide))).1
example : (∀ c ∈ Nat.toDigits 10 305, isDigit c = true) ∧ digitsValue (Nat.toDigits 10 305) = 305 := by
  decide

-- the hypotheses are needed: a name that is a keyword, or not a word, is not read back as printed …
example : kindsOfResult (tokenize C16_cc (printTm (fun _ => ['i', 'f']) (.var 0 0))) ≠
    some (printKinds (fun _ => ['i', 'f']) (.var 0 0)) := by decide
example : kindsOfResult (tokenize C16_cc (printTm (fun _ => ['x', '>']) (.var 0 0))) ≠
    some (printKinds (fun _ => ['x', '>']) (.var 0 0)) := by decide
-- … and `closer_cont`: were `)` a word character, `(g x)` would end with the identifier `x)`
private def badCc : CharClass := { C16_cc with isAlnum := fun c => C16_cc.isAlnum c || c == ')' }
example : kindsOfResult (tokenize badCc (printTm exNm exApp)) ≠ some (printKinds exNm exApp) := by decide

end lexing

/-! ## The operator arms of `Display`, read off `term.rs` on every run -/

/-- Each of the nine binary arms of `impl Display for Variant` prints `group(left) OP group(right)` — single spaces, the
operator text the model prints for that operator (`opChars`), the operands in their own places, both through `group` — and
negation prints `-` directly followed by `group(operand)`: what `printTm` does for the one `bin` constructor
(C16_operands_grouped), row by row.  The remaining arms (binders, application, definitions, conditional, leaves) and the
helpers `annotation` and `group` are the texts the model was written from (CRC-32 of their comment-free text; `group`'s
partition is C16_atomic_table). -/
def C16_display_arms_tie_stmt : Prop :=
  printOpsOK = true ∧
  Generated.printOtherArms = [(.Unifier, 4229655252), (.Type, 2387717100), (.Variable, 1933842675), (.Lambda, 2740698178),
    (.Pi, 2852654696), (.Application, 3204400415), (.Let, 186757351), (.Integer, 819329630), (.IntegerLiteral, 3639700320),
    (.Boolean, 1061493985), (.True, 1974612929), (.False, 610317945), (.If, 3276004331)] ∧
  Generated.printAnnotationFn = 1193392906 ∧ Generated.printGroupFn = 2283885570
theorem C16_display_arms_tie : C16_display_arms_tie_stmt := by
  unfold C16_display_arms_tie_stmt; decide


/-! ## Reading back: the parser model on the printed token sequence (completeness of the packrat functions)

`PModel.frag` (Lemmas/ParsePrinted6.lean) is the fragment of the printable class without binders, arrows and
definitions: leaves, holes, applications, negation, the nine binary operators, conditionals — with the parentheses the
printer puts.  `PModel.srcOf I nm t` is the tree of the printed term as a *shape* (`PModel.shape` forgets source ranges
only): printed names (interned by `I`), parenthesised operands flagged `group`, application chains right-nested as the
packrat functions build them before re-association, every error list empty.  `PModel.kindP I` turns a tokenizer kind into a
parser kind. -/

/-- **The parse phase reads a printed term back** (fragment): on every token array whose kinds are the kinds the printer
model prints for `t` (any source ranges), the parse phase of the parser model succeeds, consumes every token, is confident,
records no error, and returns the tree of `t` — as a shape `srcOf I nm t`, and as a tree the parse tree of the whole token
array (`SegT`: every node carries the exact range of its token segment).  Since PEG alternatives are ordered this includes
that every alternative tried before the right one fails on the printed input. -/
def C16_parse_printed_fragment_stmt : Prop :=
  ∀ (toks : Array PModel.PTok) (I : List Char → Name) (nm : Name → List Char) (t : Tm),
    PModel.frag t = true →
    toks.toList.map (·.kind) = (PrintDerives.printKinds nm t).map (PModel.kindP I) →
    ∃ r st, PModel.runParser toks = some (r, st) ∧ r.next = toks.size ∧ r.confident = true ∧
      PModel.collectErrors r.term = [] ∧ PModel.shape r.term = PModel.srcOf I nm t ∧
      PModel.SegT toks .term 0 toks.size r.term
theorem C16_parse_printed_fragment : C16_parse_printed_fragment_stmt :=
  fun toks I nm t h1 h2 => PModel.parse_printed_frag toks I nm t h1 h2

/-- non-vacuity: `if f (g x) y then -(a + b) else c * 2` is in the fragment, and some token array has its printed kinds -/
example : ∃ (toks : Array PModel.PTok) (t : Tm), PModel.frag t = true ∧
    toks.toList.map (·.kind) = (PrintDerives.printKinds (fun n => [Char.ofNat (97 + n)]) t).map
      (PModel.kindP (fun _ => 1)) :=
  ⟨((PrintDerives.printKinds (fun n => [Char.ofNat (97 + n)])
      (.ite (.app (.app (.var 5 0) (.app (.var 6 0) (.var 7 0))) (.var 8 0))
        (.neg (.bin .sum (.var 0 0) (.var 1 0))) (.bin .prod (.var 2 0) (.lit 2)))).map
      (fun k => (⟨PModel.kindP (fun _ => 1) k, ⟨0, 0⟩⟩ : PModel.PTok))).toArray,
   .ite (.app (.app (.var 5 0) (.app (.var 6 0) (.var 7 0))) (.var 8 0))
     (.neg (.bin .sum (.var 0 0) (.var 1 0))) (.bin .prod (.var 2 0) (.lit 2)),
   by decide, by simp [Function.comp_def]⟩

/-- **The parse phase reads every printed term back**: the same for the whole printable class (no implicit
non-dependent function type, no negative literal — the class of `C16_print_derives`): binders `(x : A) => b`,
`{x : A} => b`, `(x : A) -> B`, `{x : A} -> B` (the annotation is the printed annotation, parenthesised and flagged `group`
when it is a definition group), arrows `A -> B` (anonymous binder = the placeholder; an application as domain stays bare),
definition groups (`x : A = d; …` — one nested `let` per definition, annotation and definition as printed operands).  The
alternatives tried before the right one fail on the printed input: e.g. on `(x : A) -> B` `parse_annotated_lambda` parses up
to `)` and fails at `->`; on a parenthesised definition group `(x : A = d; b)` both binder functions fail at `=`. -/
def C16_parse_printed_stmt : Prop :=
  ∀ (toks : Array PModel.PTok) (I : List Char → Name) (nm : Name → List Char) (t : Tm),
    PrintDerives.noImplicitArrow t = true → PrintDerives.noNegLit t = true →
    toks.toList.map (·.kind) = (PrintDerives.printKinds nm t).map (PModel.kindP I) →
    ∃ r st, PModel.runParser toks = some (r, st) ∧ r.next = toks.size ∧ r.confident = true ∧
      PModel.collectErrors r.term = [] ∧ PModel.shape r.term = PModel.srcOf I nm t ∧
      PModel.SegT toks .term 0 toks.size r.term
theorem C16_parse_printed : C16_parse_printed_stmt :=
  fun toks I nm t h1 h2 h3 => PModel.parse_printed toks I nm t h1 h2 h3

/-- non-vacuity: `if b : int = 5; b then (c : b) -> c d else {b : (b : int = 5; b)} => e -> b` is printable, and some
token array has its printed kinds -/
example : ∃ (toks : Array PModel.PTok) (t : Tm), PrintDerives.noImplicitArrow t = true ∧
    PrintDerives.noNegLit t = true ∧
    toks.toList.map (·.kind) = (PrintDerives.printKinds (fun n => [Char.ofNat (97 + n)]) t).map
      (PModel.kindP (fun _ => 1)) :=
  ⟨((PrintDerives.printKinds (fun n => [Char.ofNat (97 + n)])
      (.ite (.letg (.cons 1 .int (.lit 5) .nil) (.var 1 0))
        (.pi 2 false (.var 1 0) (.app (.var 2 0) (.var 3 0)))
        (.lam 1 true (.letg (.cons 1 .int (.lit 5) .nil) (.var 1 0))
          (.pi 0 false (.var 4 0) (.var 1 1))))).map
      (fun k => (⟨PModel.kindP (fun _ => 1) k, ⟨0, 0⟩⟩ : PModel.PTok))).toArray,
   .ite (.letg (.cons 1 .int (.lit 5) .nil) (.var 1 0))
        (.pi 2 false (.var 1 0) (.app (.var 2 0) (.var 3 0)))
        (.lam 1 true (.letg (.cons 1 .int (.lit 5) .nil) (.var 1 0))
          (.pi 0 false (.var 4 0) (.var 1 1))),
   by decide, by decide, by simp [Function.comp_def]⟩


/-! ## Reading back, after the parse phase: re-association

`PModel.IsChain s l`: `s` is the right-nested application chain (inner nodes not flagged `group`, any ranges, any error
lists) of the operands `l` — the form in which `parse_application` / `parse_small_term` return `x₀ x₁ … xₙ`.
`PModel.Ops l l'`: every operand is opaque to the applications pass (`RewriteMore.Opaque`) and the pass turns it into the
corresponding element of `l'`.  `PModel.chainRes none [y₀, …, yₙ]` is the left-nested `((y₀ y₁) …) yₙ`;
`RewriteMore.strip` forgets ranges, `group` flags and error lists. -/

/-- **Application chains get their shape back.**  (i) Every node other than an unparenthesised chain node of the family is
opaque to a re-association pass (with an accumulator the pass re-associates the subtree on its own, then applies the common
tail).  (ii) `reassociate_applications` turns the right-nested chain of opaque operands into the left-nested application of
the re-associated operands — started without accumulator, or inside a chain with accumulator `ac`: `((ac y₀) y₁) … yₙ`. -/
def C16_chain_left_nested_stmt : Prop :=
  (∀ (fam : PModel.Family) (r : PModel.SourceRange) (g : Bool) (v : PModel.SrcV) (es : List PModel.PErr),
    g = true ∨ PModel.inFam fam v = false → RewriteMore.Opaque fam (.mk r g v es)) ∧
  (∀ (s : PModel.Src) (l l' : List PModel.Src), PModel.IsChain s l → PModel.Ops l l' →
    (PModel.reassoc .applications none s).map RewriteMore.strip =
      some (PModel.chainRes none (l'.map RewriteMore.strip)) ∧
    ∀ ac, (PModel.reassoc .applications (some (ac, .app)) s).map RewriteMore.strip =
      some (PModel.chainRes (some (RewriteMore.strip ac)) (l'.map RewriteMore.strip)))
theorem C16_chain_left_nested : C16_chain_left_nested_stmt :=
  ⟨PModel.opaque_of, fun _ _ l' hc ho =>
    ⟨PModel.reassoc_chain hc l' ho none (Or.inl rfl),
     fun ac => PModel.reassoc_chain hc l' ho (some (ac, .app)) (Or.inr ⟨ac, rfl⟩)⟩⟩

/-- non-vacuity: the chain `f a` of two identifiers -/
example : ∃ (s : PModel.Src) (l l' : List PModel.Src), PModel.IsChain s l ∧ PModel.Ops l l' ∧ l.length = 2 :=
  ⟨.mk ⟨0, 3⟩ false (.app (.mk ⟨0, 1⟩ false (.var 1) []) (.mk ⟨2, 3⟩ false (.var 2) [])) [],
   [.mk ⟨0, 1⟩ false (.var 1) [], .mk ⟨2, 3⟩ false (.var 2) []],
   [.mk ⟨0, 1⟩ false (.var 1) [], .mk ⟨2, 3⟩ false (.var 2) []],
   .cons _ _ _ _ _ _ (.one _),
   .cons ⟨PModel.opaque_of _ _ _ _ _ (Or.inr rfl), by rw [PModel.reassoc]; rfl⟩
     (.cons ⟨PModel.opaque_of _ _ _ _ _ (Or.inr rfl), by rw [PModel.reassoc]; rfl⟩ .nil), rfl⟩

/-- **`f a b` gets its shape back**: for a printable application `t` (printed `h a₁ … aₙ`, head bare when it is itself an
application, every other operand through `group`), on any token array with the printed kinds the parse phase returns the
right-nested chain of at least two operand trees whose shapes are `atomsOf I nm t`; every operand is opaque to
`reassociate_applications`, which succeeds on it, and the pass returns the left-nested application of the re-associated
operands (up to ranges, `group` flags, error lists). -/
def C16_printed_application_left_nested_stmt : Prop :=
  ∀ (toks : Array PModel.PTok) (I : List Char → Name) (nm : Name → List Char) (t : Tm),
    PrintDerives.noImplicitArrow t = true → PrintDerives.noNegLit t = true → PrintDerives.isApp t = true →
    toks.toList.map (·.kind) = (PrintDerives.printKinds nm t).map (PModel.kindP I) →
    ∃ r st l l', PModel.runParser toks = some (r, st) ∧ PModel.IsChain r.term l ∧
      l.map PModel.shape = PModel.atomsOf I nm t ∧ PModel.Ops l l' ∧ 2 ≤ l.length ∧
      (PModel.reassociateApplications r.term).map RewriteMore.strip =
        some (PModel.chainRes none (l'.map RewriteMore.strip))
theorem C16_printed_application_left_nested : C16_printed_application_left_nested_stmt :=
  fun toks I nm t h1 h2 h3 h4 => PModel.reassoc_printed_app toks I nm t h1 h2 h3 h4

/-- non-vacuity: `f (g h) i` -/
example : ∃ (toks : Array PModel.PTok) (t : Tm), PrintDerives.noImplicitArrow t = true ∧
    PrintDerives.noNegLit t = true ∧ PrintDerives.isApp t = true ∧
    toks.toList.map (·.kind) = (PrintDerives.printKinds (fun n => [Char.ofNat (97 + n)]) t).map
      (PModel.kindP (fun _ => 1)) :=
  ⟨((PrintDerives.printKinds (fun n => [Char.ofNat (97 + n)])
      (.app (.app (.var 5 0) (.app (.var 6 0) (.var 7 0))) (.var 8 0))).map
      (fun k => (⟨PModel.kindP (fun _ => 1) k, ⟨0, 0⟩⟩ : PModel.PTok))).toArray,
   .app (.app (.var 5 0) (.app (.var 6 0) (.var 7 0))) (.var 8 0),
   by decide, by decide, by decide, by simp [Function.comp_def]⟩

/-- **The whole round trip** (theorem `C16_read_back`, at the end of this file).  `PModel.readBack` = parse phase, the
three re-association passes, `resolve_variables` in the scope `names` (outermost first), ranges forgotten; `PModel.scopedOK` =
hole-free, every variable carries the de Bruijn index of its name in the scope, binder names are not the placeholder and not
already in scope (gram's no-shadowing rule; the names of a definition group pairwise distinct), no empty definition group and
no definition group directly as body of a definition group (both are printed like their flattening); `PModel.canon` replaces
the name of every unused Π binder (it is not printed) by the placeholder.  The name table is invertible on the names used:
`I (nm x) = x`. -/
def C16_read_back_stmt : Prop :=
  ∀ (toks : Array PModel.PTok) (I : List Char → Name) (nm : Name → List Char) (names : List Name) (t : Tm),
    (∀ x, I (nm x) = x) → names.Nodup → (∀ x ∈ names, x ≠ PModel.placeholder) →
    PModel.scopedOK names.reverse t = true →
    PrintDerives.noImplicitArrow t = true → PrintDerives.noNegLit t = true →
    toks.toList.map (·.kind) = (PrintDerives.printKinds nm t).map (PModel.kindP I) →
    PModel.readBack toks names = some (PModel.canon t, [])


/-! ## Reading back: the re-association passes on the whole parsed tree (stages of `C16_read_back`)

`PModel.lsrc I nm t` is the surface tree of `t` itself (applications left-nested; no ranges, no `group` flags, no errors;
names `I (nm x)`, the placeholder for an unused Π binder, one nested `let` per definition). -/

/-- **Stage A, first pass**: on every surface tree whose shape is the expected tree of the printed `t` (`srcOf I nm t`: any
ranges) — in particular on what the parse phase returns for the printed tokens of a printable `t` —
`reassociate_applications` succeeds and returns the tree of `t` itself up to ranges, `group` flags and error lists: every
right-nested application chain, in every subterm, has become the left-nested application, nothing else has changed. -/
def C16_reassoc_applications_printed_stmt : Prop :=
  (∀ (I : List Char → Name) (nm : Name → List Char) (t : Tm) (s : PModel.Src),
    PModel.shape s = PModel.srcOf I nm t →
    ∃ s1, PModel.reassociateApplications s = some s1 ∧ RewriteMore.strip s1 = PModel.lsrc I nm t) ∧
  (∀ (toks : Array PModel.PTok) (I : List Char → Name) (nm : Name → List Char) (t : Tm),
    PrintDerives.noImplicitArrow t = true → PrintDerives.noNegLit t = true →
    toks.toList.map (·.kind) = (PrintDerives.printKinds nm t).map (PModel.kindP I) →
    ∃ r st s1, PModel.runParser toks = some (r, st) ∧ r.next = toks.size ∧ PModel.collectErrors r.term = [] ∧
      PModel.reassociateApplications r.term = some s1 ∧ RewriteMore.strip s1 = PModel.lsrc I nm t)
theorem C16_reassoc_applications_printed : C16_reassoc_applications_printed_stmt :=
  ⟨PModel.reassoc_apps_shape, PModel.reassoc_apps_printed⟩

/-- **Stage A, second and third pass (generic)**: on a fully parenthesised tree (`PModel.OK23`: no `ParseError` node; both
operands of every binary-operator node carry `group = true` or are not binary-operator nodes — what the printer's `group`
guarantees) a chain pass other than the applications pass succeeds, is the identity up to ranges, `group` flags and error
lists, returns a fully parenthesised tree again and does not clear the root's `group` flag. -/
def C16_chain_passes_identity_stmt : Prop :=
  ∀ (fam : PModel.Family), fam ≠ .applications → ∀ s : PModel.Src, PModel.OK23 s →
    ∃ s', PModel.reassoc fam none s = some s' ∧ RewriteMore.strip s' = RewriteMore.strip s ∧ PModel.OK23 s' ∧
      (s.group = true → s'.group = true)
theorem C16_chain_passes_identity : C16_chain_passes_identity_stmt := PModel.pass23

/-- non-vacuity: `a * (b * c)` with the right operand flagged is fully parenthesised -/
example : PModel.OK23 (.mk ⟨0, 9⟩ false (.bin .prod (.mk ⟨0, 1⟩ false (.var 1) [])
    (.mk ⟨4, 9⟩ true (.bin .prod (.mk ⟨5, 6⟩ false (.var 2) []) (.mk ⟨8, 9⟩ false (.var 3) [])) [])) []) := by
  simp [PModel.OK23, PModel.OK23V, PModel.At23, PModel.isBinV, PModel.Src.group, PModel.Src.variant]

/-- **Stage A, complete**: the three re-association passes on the parsed tree of a printed term succeed and return the
tree of the term itself (`PModel.lsrc I nm t`) up to ranges, `group` flags and error lists.  (The applications pass makes
every chain left-nested and returns a fully parenthesised tree in which binary-operator nodes have kept their `group` flag —
`PModel.a2`, `PModel.reassoc_chainS` —, then `C16_chain_passes_identity` twice.) -/
def C16_reassoc_printed_stmt : Prop :=
  ∀ (toks : Array PModel.PTok) (I : List Char → Name) (nm : Name → List Char) (t : Tm),
    PrintDerives.noImplicitArrow t = true → PrintDerives.noNegLit t = true →
    toks.toList.map (·.kind) = (PrintDerives.printKinds nm t).map (PModel.kindP I) →
    ∃ r st s3, PModel.runParser toks = some (r, st) ∧ RewriteMore.reassocAll r.term = some s3 ∧
      RewriteMore.strip s3 = PModel.lsrc I nm t

theorem C16_reassoc_printed : C16_reassoc_printed_stmt :=
  fun toks I nm t h1 h2 h3 => PModel.reassocAll_printed toks I nm t h1 h2 h3

/-- **Stage B** (theorem `C16_resolve_printed`, at the end of this file): name resolution of any tree that is the tree of
`t` up to ranges, flags and errors, in the scope `names`, returns `canon t` without error — definition groups included: the
names of the group are `letNames` of the nested `let`s, `Stack.bindAll` pushes them (last definition = index 0),
`toDBChain` walks the definitions. -/
def C16_resolve_printed_stmt : Prop :=
  ∀ (I : List Char → Name) (nm : Name → List Char) (names : List Name) (t : Tm) (s : PModel.Src),
    (∀ x, I (nm x) = x) → names.Nodup → (∀ x ∈ names, x ≠ PModel.placeholder) →
    PModel.scopedOK names.reverse t = true → RewriteMore.strip s = PModel.lsrc I nm t →
    ∃ rt st, PModel.resolve s (PModel.initialContext names).length
        { ctx := PModel.initialContext names, errors := [], nextHole := 0 } = some (rt, st) ∧
      rt.erase = PModel.canon t ∧ st.errors = []

/-- **Stage B for terms without definition group** (`PModel.noLet`): name resolution of any tree that is the tree of `t` up
to ranges, flags and errors, in the scope `names` (pairwise distinct, none the placeholder), returns `canon t` and reports no
error.  Via the specification `toDB` of Props/C08.lean (`PModel.toDB_lsrc`: on the stack of the scope the tree resolves to
`canon t`), `C08_resolve_complete_fixed`, and `PModel.initialContext_inv` (the initial name→depth map describes that stack). -/
def C16_resolve_printed_nolet_stmt : Prop :=
  ∀ (I : List Char → Name) (nm : Name → List Char) (names : List Name) (t : Tm) (s : PModel.Src),
    (∀ x, I (nm x) = x) → names.Nodup → (∀ x ∈ names, x ≠ PModel.placeholder) → PModel.noLet t = true →
    PModel.scopedOK names.reverse t = true → RewriteMore.strip s = PModel.lsrc I nm t →
    ∃ rt st, PModel.resolve s (PModel.initialContext names).length
        { ctx := PModel.initialContext names, errors := [], nextHole := 0 } = some (rt, st) ∧
      rt.erase = PModel.canon t ∧ st.errors = []
theorem C16_resolve_printed_nolet : C16_resolve_printed_nolet_stmt :=
  fun I nm names t s h1 h2 h3 h4 h5 h6 => PModel.resolve_printed_nolet I nm names t s h1 h2 h3 h4 h5 h6

/-- **Reading a printed term back** (terms without definition group): print, take any token array with the printed kinds,
run the parse phase, the three re-association passes and name resolution in the scope `names`: the result is `canon t` (`t`
up to the names of unused Π binders), and no error is reported. -/
def C16_read_back_nolet_stmt : Prop :=
  ∀ (toks : Array PModel.PTok) (I : List Char → Name) (nm : Name → List Char) (names : List Name) (t : Tm),
    (∀ x, I (nm x) = x) → names.Nodup → (∀ x ∈ names, x ≠ PModel.placeholder) → PModel.noLet t = true →
    PModel.scopedOK names.reverse t = true →
    PrintDerives.noImplicitArrow t = true → PrintDerives.noNegLit t = true →
    toks.toList.map (·.kind) = (PrintDerives.printKinds nm t).map (PModel.kindP I) →
    PModel.readBack toks names = some (PModel.canon t, [])
theorem C16_read_back_nolet : C16_read_back_nolet_stmt :=
  fun toks I nm names t h1 h2 h3 h4 h5 h6 h7 h8 =>
    PModel.read_back_nolet toks I nm names t h1 h2 h3 h4 h5 h6 h7 h8

/-- non-vacuity: `(b : int -> int) => d (b (b 1)) (b 2 + 1)` in the scope `[d]` (names = lengths of runs of `a`) -/
example : ∃ (toks : Array PModel.PTok) (I : List Char → Name) (nm : Name → List Char) (names : List Name) (t : Tm),
    (∀ x, I (nm x) = x) ∧ names.Nodup ∧ (∀ x ∈ names, x ≠ PModel.placeholder) ∧ PModel.noLet t = true ∧
    PModel.scopedOK names.reverse t = true ∧ PrintDerives.noImplicitArrow t = true ∧
    PrintDerives.noNegLit t = true ∧
    toks.toList.map (·.kind) = (PrintDerives.printKinds nm t).map (PModel.kindP I) :=
  ⟨((PrintDerives.printKinds (fun n => List.replicate n 'a')
      (.lam 1 false (.pi 2 false .int .int)
        (.app (.app (.var 3 1) (.app (.var 1 0) (.app (.var 1 0) (.lit 1))))
          (.bin .sum (.app (.var 1 0) (.lit 2)) (.lit 1))))).map
      (fun k => (⟨PModel.kindP List.length k, ⟨0, 0⟩⟩ : PModel.PTok))).toArray,
   List.length, fun n => List.replicate n 'a', [3],
   .lam 1 false (.pi 2 false .int .int)
        (.app (.app (.var 3 1) (.app (.var 1 0) (.app (.var 1 0) (.lit 1))))
          (.bin .sum (.app (.var 1 0) (.lit 2)) (.lit 1))),
   fun x => by simp, by decide, by decide, by decide, by decide, by decide, by decide,
   by simp [Function.comp_def]⟩


theorem C16_resolve_printed : C16_resolve_printed_stmt :=
  fun I nm names t s h1 h2 h3 h4 h5 => PModel.resolve_printed I nm names t s h1 h2 h3 h4 h5

theorem C16_read_back : C16_read_back_stmt :=
  fun toks I nm names t h1 h2 h3 h4 h5 h6 h7 => PModel.read_back toks I nm names t h1 h2 h3 h4 h5 h6 h7

/-- non-vacuity of `C16_read_back`: `b : int = 5; c : int = b; if c < b then (e : int) => d e c else d b` in the scope
`[d]` (names = lengths of runs of `a`) -/
example : ∃ (toks : Array PModel.PTok) (I : List Char → Name) (nm : Name → List Char) (names : List Name) (t : Tm),
    (∀ x, I (nm x) = x) ∧ names.Nodup ∧ (∀ x ∈ names, x ≠ PModel.placeholder) ∧
    PModel.scopedOK names.reverse t = true ∧ PrintDerives.noImplicitArrow t = true ∧
    PrintDerives.noNegLit t = true ∧
    toks.toList.map (·.kind) = (PrintDerives.printKinds nm t).map (PModel.kindP I) :=
  ⟨((PrintDerives.printKinds (fun n => List.replicate n 'a')
      (.letg (.cons 1 .int (.lit 5) (.cons 2 .int (.var 1 1) .nil))
        (.ite (.bin .lt (.var 2 0) (.var 1 1))
          (.lam 4 false .int (.app (.app (.var 3 3) (.var 4 0)) (.var 2 1)))
          (.app (.var 3 2) (.var 1 1))))).map
      (fun k => (⟨PModel.kindP List.length k, ⟨0, 0⟩⟩ : PModel.PTok))).toArray,
   List.length, fun n => List.replicate n 'a', [3],
   .letg (.cons 1 .int (.lit 5) (.cons 2 .int (.var 1 1) .nil))
        (.ite (.bin .lt (.var 2 0) (.var 1 1))
          (.lam 4 false .int (.app (.app (.var 3 3) (.var 4 0)) (.var 2 1)))
          (.app (.var 3 2) (.var 1 1))),
   fun x => by simp, by decide, by decide, by decide, by decide, by decide,
   by simp [Function.comp_def]⟩


/-! ## General completeness of the parser model w.r.t. the grammar (C07, the missing direction) — stage 1

(The statements live here and not in Props/C07.lean because the packrat-level lemmas they rest on are in
Lemmas/ParsePrinted*.lean, which import Props/C07.lean.)  `PModel.SegT toks A a b t` is the tree-carrying derivation relation
of `grammar.y` (one constructor per production); `PModel.simpleK` are the tokens of the operator sublanguage: leaf tokens,
parentheses, the nine binary operators (`-` also as negation). -/

/-- **Completeness on the operator sublanguage**: if every token is a leaf, a parenthesis or a binary operator, every
sentence of `term` of `grammar.y` is accepted by the parse phase, with exactly its parse tree (unique by `C07_unambiguous`),
every token consumed, no error recorded, confident.  By induction on the length of the segment and up the precedence tower:
for every tower nonterminal `A`, a *maximal* derivation `SegT toks A a b t` (the token at `b` not in the extension set
`Unamb.ext A` of `C07_extension_law`) makes `parse_A(tokens, a)` return `t` with `next = b`; at each ordered choice the
alternatives tried before the right one fail (`PModel.comp_atom` … `PModel.comp_term`). -/
def C16_parse_complete_operators_stmt : Prop :=
  ∀ (toks : Array PModel.PTok) (t : PModel.Src),
    (∀ i k, PModel.KAt toks i k → PModel.simpleK k = true) → PModel.SegT toks .term 0 toks.size t →
    ∃ r st, PModel.runParser toks = some (r, st) ∧ r.term = t ∧ r.next = toks.size ∧
      PModel.collectErrors r.term = [] ∧ r.confident = true
theorem C16_parse_complete_operators : C16_parse_complete_operators_stmt :=
  fun _ _ hS h => PModel.parse_complete_simple hS h

/-- non-vacuity: the one-token program `x` -/
example : ∃ (toks : Array PModel.PTok) (t : PModel.Src),
    (∀ i k, PModel.KAt toks i k → PModel.simpleK k = true) ∧ PModel.SegT toks .term 0 toks.size t :=
  ⟨#[⟨.identifier 1, ⟨0, 1⟩⟩], _,
   by
     intro i k ⟨hlt, hk⟩
     have : i = 0 := by simp at hlt; omega
     subst this
     simp at hk; subst hk; rfl,
   .unit (B := .jumboTerm) (by decide) (.unit (B := .giantTerm) (by decide) (.unit (B := .hugeTerm) (by decide)
     (.unit (B := .largeTerm) (by decide) (.unit (B := .mediumTerm) (by decide) (.unit (B := .smallTerm) (by decide)
       (.unit (B := .atom) (by decide) (.unit (B := .variable) (by decide)
         (.var (x := 1) ⟨by decide, rfl⟩))))))))⟩

/-- **Accepted iff sentence** (operator sublanguage): the parse phase consumes every token without recording an error
exactly when the token sequence is a sentence of `term`. -/
def C16_accepted_iff_sentence_operators_stmt : Prop :=
  ∀ (toks : Array PModel.PTok), (∀ i k, PModel.KAt toks i k → PModel.simpleK k = true) →
    ((∃ r st, PModel.runParser toks = some (r, st) ∧ r.next = toks.size ∧ PModel.collectErrors r.term = []) ↔
      ∃ t, PModel.SegT toks .term 0 toks.size t)
theorem C16_accepted_iff_sentence_operators : C16_accepted_iff_sentence_operators_stmt := by
  intro toks hS
  constructor
  · rintro ⟨r, st, hr, hn, hce⟩
    have := PModel.runParser_spans hr hce
    rw [hn] at this
    exact ⟨_, this⟩
  · rintro ⟨t, h⟩
    obtain ⟨r, st, hr, _, hn, hce, _⟩ := PModel.parse_complete_simple hS h
    exact ⟨r, st, hr, hn, hce⟩

/-- **General completeness of the parser model w.r.t. `grammar.y`** (the missing direction of C07): every sentence of
`term` — any token sequence with a derivation `SegT toks .term 0 toks.size t` — is accepted by the parse phase, which returns
exactly the parse tree `t` of the sentence (unique by `C07_unambiguous`), consumes every token, records no error and is
confident.  Induction on the length of the segment and up the precedence tower (`PModel.compG`): for a tower nonterminal `A`,
a maximal derivation (`the token after it is not in `Unamb.ext A`, `C07_extension_law`) is what `parse_A` returns; at each
ordered choice the alternatives tried before the right one fail on a sentence: by operator or first-token mismatch; on
`( x : J ) -> T` the λ-function parses `J` and fails at the arrow; at an atom `( x : A = d ; b )` both `(`-binder functions
fail at `=` (`PModel.nb_atoms`, with `jumbo_ident_next` of Lemmas/Unambiguous.lean); `parse_let` fails before a `jumbo_term`
because an identifier followed by `:` or `=` cannot start one (`jumbo_ident_next`); `a -> b` fails after a `giant_term`
because `parse_small_term` stops at its end or before an operator (`PModel.SmallInfo`).  The recovering functions
(`parse_let`, `parse_if`, `parse_group`) are never committed wrongly on a sentence. -/
def C16_parse_complete_stmt : Prop :=
  ∀ (toks : Array PModel.PTok) (t : PModel.Src), PModel.SegT toks .term 0 toks.size t →
    ∃ r st, PModel.runParser toks = some (r, st) ∧ r.term = t ∧ r.next = toks.size ∧
      PModel.collectErrors r.term = [] ∧ r.confident = true
theorem C16_parse_complete : C16_parse_complete_stmt := fun _ _ h => PModel.parse_complete h

/-- non-vacuity: the one-token program `x` (and see `C16_parse_printed`: every printed term is a sentence) -/
example : ∃ (toks : Array PModel.PTok) (t : PModel.Src), PModel.SegT toks .term 0 toks.size t :=
  ⟨#[⟨.identifier 1, ⟨0, 1⟩⟩], _,
   .unit (B := .jumboTerm) (by decide) (.unit (B := .giantTerm) (by decide) (.unit (B := .hugeTerm) (by decide)
     (.unit (B := .largeTerm) (by decide) (.unit (B := .mediumTerm) (by decide) (.unit (B := .smallTerm) (by decide)
       (.unit (B := .atom) (by decide) (.unit (B := .variable) (by decide)
         (.var (x := 1) ⟨by decide, rfl⟩))))))))⟩

/-- **Accepted iff sentence**: the parse phase consumes every token without recording an error exactly when the token
sequence is a sentence of `term` of `grammar.y`; the tree returned is then the parse tree of the sentence. -/
def C16_accepted_iff_sentence_stmt : Prop :=
  ∀ (toks : Array PModel.PTok),
    ((∃ r st, PModel.runParser toks = some (r, st) ∧ r.next = toks.size ∧ PModel.collectErrors r.term = []) ↔
      ∃ t, PModel.SegT toks .term 0 toks.size t) ∧
    (∀ r st t, PModel.runParser toks = some (r, st) → PModel.SegT toks .term 0 toks.size t → r.term = t)
theorem C16_accepted_iff_sentence : C16_accepted_iff_sentence_stmt := by
  intro toks
  refine ⟨⟨?_, ?_⟩, ?_⟩
  · rintro ⟨r, st, hr, hn, hce⟩
    have := PModel.runParser_spans hr hce
    rw [hn] at this
    exact ⟨_, this⟩
  · rintro ⟨t, h⟩
    obtain ⟨r, st, hr, _, hn, hce, _⟩ := PModel.parse_complete h
    exact ⟨r, st, hr, hn, hce⟩
  · intro r st t hr h
    obtain ⟨r', st', hr', ht, _⟩ := PModel.parse_complete h
    rw [hr] at hr'
    cases hr'
    exact ht
