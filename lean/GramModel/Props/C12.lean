import GramModel.Check
import GramModel.Props.C05
import GramModel.Lemmas.StoreMono
import GramModel.Lemmas.Whnf
import GramModel.Lemmas.Fuel

/-!
# C12 — unification succeeds only with a consistent, well-scoped solution
-/

/-- Filled cells never change and no cell disappears during unification. -/
def C12_store_monotone_stmt : Prop :=
  ∀ (fuel : Nat) (a b : Tm) (res : Bool) (s s' : St), unifyS fuel a b s = .ok res s' →
    storeExtends s.store s'.store
theorem C12_store_monotone : C12_store_monotone_stmt := by
  intro fuel a b res s s' h
  exact ((StoreMono.unifyS_le fuel a b).out _ _ _ h).1

/-- Weak-head normalisation never returns a group (the `panic!` arm of `unify` is unreachable). -/
def C12_whnf_never_let_stmt : Prop :=
  ∀ (fuel : Nat) (t r : Tm) (s s' : St), whnfS fuel t s = .ok r s' → ∀ ds b, r ≠ .letg ds b
theorem C12_whnf_never_let : C12_whnf_never_let_stmt := by
  intro fuel t r s s' h
  exact WhnfLemmas.whnfS_notLet' h

/-- Unification never reaches its `panic!("Encountered a let after conversion to weak head normal
form")` arm. -/
def C12_unify_no_let_panic_stmt : Prop :=
  ∀ (fuel : Nat) (a b : Tm) (s : St), unifyS fuel a b s ≠ .panic "unify.let_after_whnf"
theorem C12_unify_no_let_panic : C12_unify_no_let_panic_stmt := by
  intro fuel a b s
  exact (WhnfLemmas.unifyS_np fuel a b).out s

/-- A cell is only ever solved by a term in which it does not occur (the occurs check guards every
assignment): `solveS` assigns only when `occursS` answered `false`. -/
def C12_assign_guarded_stmt : Prop :=
  ∀ (f id shift : Nat) (other : Tm) (s s' : St), solveS f id shift other s = .ok (some true) s' →
    ∃ s1, occursS f id other s1 = .ok false s1
theorem C12_assign_guarded : C12_assign_guarded_stmt := by
  intro f id shift other s s' h
  obtain ⟨_, s1, _, h2⟩ := WhnfLemmas.solveS_true h
  exact ⟨s1, h2⟩

/-- The same, naming the state in which the occurs check ran: it is the state `s1` reached after the
guard `signed_shift(other, 0, -shift)` succeeded, and the occurs check leaves that state as it was. -/
def C12_assign_guarded_precise_stmt : Prop :=
  ∀ (f id shift : Nat) (other : Tm) (s s' : St), solveS f id shift other s = .ok (some true) s' →
    ∃ sol s1, sshiftS f 0 (-(shift : Int)) other s = .ok (some sol) s1 ∧
      occursS f id other s1 = .ok false s1
theorem C12_assign_guarded_precise : C12_assign_guarded_precise_stmt := by
  intro f id shift other s s' h
  exact WhnfLemmas.solveS_true h

/-! ## Non-vacuity / witnesses -/

-- the occurs check: `?0` against `?0 -> int` is refused, the cell stays empty
example :
    (match unifyS 20 (.hole 0 0) (.pi 0 false (.hole 0 0) .int) { store := [none] } with
     | .ok r s' => r == false && s'.store == [none]
     | _ => false) = true := by decide
-- scope escape: a hole written outside a binder cannot be solved by that binder's variable
example :
    (match unifyS 20 (.lam 1 false .int (.hole 0 1)) (.lam 1 false .int (.var 1 0)) { store := [none] } with
     | .ok r s' => r == false && s'.store == [none]
     | _ => false) = true := by decide
-- and is solved, shifted into its own scope, by an outer variable
example :
    (match unifyS 20 (.lam 1 false .int (.hole 0 1)) (.lam 1 false .int (.var 2 1))
        { store := [none], dctx := [none] } with
     | .ok r s' => r == true && s'.store == [some (.var 2 0)] && s'.dctx == [none]
     | _ => false) = true := by decide

/-! ## Scope of solutions -/

/-- A recorded solution mentions only variables in scope where its hole was written: a cell with
shift `k` is solved by `other` lowered by `k` binders, which exists only if no variable of `other`
among the `k` innermost ones is used — so every free variable of the solution, raised back by `k`, is
a free variable of `other` (hole-free `other`). -/
def C12_solution_scoped_stmt : Prop :=
  ∀ (other sol : Tm) (k : Nat), other.holeFree = true →
    sshift 0 (-(k : Int)) other = some sol →
    (∀ j, freeAt sol j = true → freeAt other (j + k) = true) ∧ (∀ j, j < k → freeAt other j = false) ∧
    ushift 0 k sol = other
theorem C12_solution_scoped : C12_solution_scoped_stmt :=
  fun other sol k hf h => FuelLemmas.solution_scoped other sol k hf h

/-- The inverse property alone holds for every term, holes included (a hole's shift is lowered like
an index and raised back). -/
def C12_shift_inverse_stmt : Prop :=
  ∀ (t r : Tm) (c k : Nat), sshift c (-(k : Int)) t = some r → ushift c k r = t
theorem C12_shift_inverse : C12_shift_inverse_stmt := FuelLemmas.ushift_of_sshift_neg
