import GramModel.Lemmas.ArmsTie
import GramModel.Check
import GramModel.Props.C05
import GramModel.Lemmas.StoreMono
import GramModel.Lemmas.Whnf
import GramModel.Lemmas.Fuel
import GramModel.Typing
import GramModel.Lemmas.UnifySound
import GramModel.Lemmas.ConvCoherence
import GramModel.Lemmas.UnifyAcyclic

/-!
# C12 — unification succeeds only with a consistent, well-scoped solution
-/

/-- Filled cells never change and no cell disappears during unification. -/
def C12_store_monotone_stmt : Prop :=
  ∀ (fuel : Nat) (a b : Tm) (res : Bool) (s s' : St), unifyS fuel a b s = .ok res s' →
    storeExtends s.store s'.store
theorem C12_store_monotone : C12_store_monotone_stmt := by
  intro fuel a b res s s' h
  exact ((StoreMono.unifyS_le fuel a b).out _ _ _ h).1

/-- Weak-head normalisation never returns a group (the `panic!` arm of `unify` is unreachable). -/
def C12_whnf_never_let_stmt : Prop :=
  ∀ (fuel : Nat) (t r : Tm) (s s' : St), whnfS fuel t s = .ok r s' → ∀ ds b, r ≠ .letg ds b
theorem C12_whnf_never_let : C12_whnf_never_let_stmt := by
  intro fuel t r s s' h
  exact WhnfLemmas.whnfS_notLet' h

/-- Unification never reaches its `panic!("Encountered a let after conversion to weak head normal
form")` arm. -/
def C12_unify_no_let_panic_stmt : Prop :=
  ∀ (fuel : Nat) (a b : Tm) (s : St), unifyS fuel a b s ≠ .panic "unify.let_after_whnf"
theorem C12_unify_no_let_panic : C12_unify_no_let_panic_stmt := by
  intro fuel a b s
  exact (WhnfLemmas.unifyS_np fuel a b).out s

/-- A cell is only ever solved by a term in which it does not occur (the occurs check guards every
assignment): `solveS` assigns only when `occursS` answered `false`. -/
def C12_assign_guarded_stmt : Prop :=
  ∀ (f id shift : Nat) (other : Tm) (s s' : St), solveS f id shift other s = .ok (some true) s' →
    ∃ s1, occursS f id other s1 = .ok false s1
theorem C12_assign_guarded : C12_assign_guarded_stmt := by
  intro f id shift other s s' h
  obtain ⟨_, s1, _, h2⟩ := WhnfLemmas.solveS_true h
  exact ⟨s1, h2⟩

/-- The same, naming the state in which the occurs check ran: it is the state `s1` reached after the
guard `signed_shift(other, 0, -shift)` succeeded, and the occurs check leaves that state as it was. -/
def C12_assign_guarded_precise_stmt : Prop :=
  ∀ (f id shift : Nat) (other : Tm) (s s' : St), solveS f id shift other s = .ok (some true) s' →
    ∃ sol s1, sshiftS f 0 (-(shift : Int)) other s = .ok (some sol) s1 ∧
      occursS f id other s1 = .ok false s1
theorem C12_assign_guarded_precise : C12_assign_guarded_precise_stmt := by
  intro f id shift other s s' h
  exact WhnfLemmas.solveS_true h

/-! ## Non-vacuity / witnesses -/

-- the occurs check: `?0` against `?0 -> int` is refused, the cell stays empty
example :
    (match unifyS 20 (.hole 0 0) (.pi 0 false (.hole 0 0) .int) { store := [none] } with
     | .ok r s' => r == false && s'.store == [none]
     | _ => false) = true := by decide
-- scope escape: a hole written outside a binder cannot be solved by that binder's variable
example :
    (match unifyS 20 (.lam 1 false .int (.hole 0 1)) (.lam 1 false .int (.var 1 0)) { store := [none] } with
     | .ok r s' => r == false && s'.store == [none]
     | _ => false) = true := by decide
-- and is solved, shifted into its own scope, by an outer variable
example :
    (match unifyS 20 (.lam 1 false .int (.hole 0 1)) (.lam 1 false .int (.var 2 1))
        { store := [none], dctx := [none] } with
     | .ok r s' => r == true && s'.store == [some (.var 2 0)] && s'.dctx == [none]
     | _ => false) = true := by decide

/-! ## Scope of solutions -/

/-- A recorded solution mentions only variables in scope where its hole was written: a cell with
shift `k` is solved by `other` lowered by `k` binders, which exists only if no variable of `other`
among the `k` innermost ones is used — so every free variable of the solution, raised back by `k`, is
a free variable of `other` (hole-free `other`). -/
def C12_solution_scoped_stmt : Prop :=
  ∀ (other sol : Tm) (k : Nat), other.holeFree = true →
    sshift 0 (-(k : Int)) other = some sol →
    (∀ j, freeAt sol j = true → freeAt other (j + k) = true) ∧ (∀ j, j < k → freeAt other j = false) ∧
    ushift 0 k sol = other
theorem C12_solution_scoped : C12_solution_scoped_stmt :=
  fun other sol k hf h => FuelLemmas.solution_scoped other sol k hf h

/-- The inverse property alone holds for every term, holes included (a hole's shift is lowered like
an index and raised back). -/
def C12_shift_inverse_stmt : Prop :=
  ∀ (t r : Tm) (c k : Nat), sshift c (-(k : Int)) t = some r → ushift c k r = t
theorem C12_shift_inverse : C12_shift_inverse_stmt := FuelLemmas.ushift_of_sshift_neg

/-! ## Soundness of unification w.r.t. conversion -/

/-- (First formulation, **refuted** below; kept, without the `_stmt` suffix, next to its refutation.)
**Filling the holes with the recorded solutions makes the two sides convertible.**  If the model of
`unify` answers `true`, then the two terms, zonked with the store afterwards, are judged convertible by the
independent conversion check (for some fuel), under the definitions context zonked the same way — whenever
the zonked terms are hole-free (every hole got solved) and zonking terminates (the store is acyclic). -/
def C12_unify_sound_unrestricted : Prop :=
  ∀ (f : Nat) (a b za zb : Tm) (s s' : St), unifyS f a b s = .ok true s' →
    (∀ e ∈ s.dctx, ∀ d o, e = some (d, o) → d.holeFree = true) →
    zonk f s'.store a = some za → zonk f s'.store b = some zb →
    za.holeFree = true → zb.holeFree = true →
    ∃ g, convX g s.dctx za zb = some true

/-- once `convX` has answered `false` it never answers `true` (fuel monotonicity) -/
theorem C12_convX_never_true {g0 : Nat} {Δ : DCtxX} {a b : Tm} (h : convX g0 Δ a b = some false) :
    ∀ g, convX g Δ a b ≠ some true := by
  intro g hg
  have h1 := FuelLemmas.convX_mono_le (Nat.le_max_left g g0) hg
  have h2 := FuelLemmas.convX_mono_le (Nat.le_max_right g g0) h
  rw [h1] at h2
  cases h2

/-- `C12_unify_sound_unrestricted` is FALSE of the model, and the counterexample is a **defect of the
Rust unifier** (a new face of finding KF-holecopy: the copy is made *inside* `unify`, by the β-step of
`normalize_weak_head`, not by the type checker's own `open`).

Witness: with one empty cell `?0` and one parameter `x` in scope, unify
`if x then ((_ : int) => ?0) 5 else ?0` with `if x then 1 else 2`.  The condition is neutral, so the
branches are unified pairwise.  First branch: weak-head normalising the β-redex calls
`open(?0, 0, 5)`, and `open` replaces the *unresolved* `?0` by a **fresh** cell `?1`, which is then
solved `?1 := 1`.  Second branch: the original `?0` is still empty and is solved `?0 := 2`.  `unify`
answers `true`; but with the store `[?0 := 2, ?1 := 1]` the left term reads
`if x then ((_ : int) => 2) 5 else 2`, whose first branch normalises to `2`, not `1`: the independent
check answers `false` (at every fuel ≥ 4, hence never `true`).

The same event in a gram source program (accepted by `gram check` with a hole-free, ill-typed
elaboration `f : F bool = (x : int) => x + 1 > 0`; `gram run` gets stuck on `(true + 1) > 0`):
```
const = (a : type) => ((b : type) => a) int
F = (t : type) => const t -> t
f : F _ = (x : int) => x + 1 > 0
f true
```
(unifying `int -> bool` with `F ?0 ⟶ const ?0 -> ?0`: the domain `const ?0 ⟶ ((b : type) => ?0) int`
copies `?0` and solves the copy by `int`; the codomain solves the original by `bool`). -/
theorem C12_unify_sound_refuted : ¬ C12_unify_sound_unrestricted := by
  intro h
  obtain ⟨g, hg⟩ := h 5
    (.ite (.var 0 0) (.app (.lam 1 false .int (.hole 0 1)) (.lit 5)) (.hole 0 0))
    (.ite (.var 0 0) (.lit 1) (.lit 2))
    (.ite (.var 0 0) (.app (.lam 1 false .int (.lit 2)) (.lit 5)) (.lit 2))
    (.ite (.var 0 0) (.lit 1) (.lit 2))
    { store := [none], dctx := [none] }
    { store := [some (.lit 2), some (.lit 1)], dctx := [none] }
    (by rfl) (by intro e he d o heq; simp at he; subst he; cases heq) (by rfl) (by rfl) (by rfl) (by rfl)
  exact C12_convX_never_true (g0 := 4) (by rfl) g hg

/-- A second, independent way in which the unrestricted statement fails (finding KF-holedepth), with **no
fresh cell** involved: a cell is solved by a term that contains a hole *below the cutoff* of
`signed_shift`.  Under two parameters, unify `(_ : int) => c ?0↑1 ((_ : int) => x₁)` with
`(_ : int) => c ((_ : int) => ?1) ((_ : int) => ?1)` (`?0` lives outside the outer binder, `?1` inside
the inner one; every cell occurs at one depth only).  `?0↑1` is unified with `(_ : int) => ?1`: the
solution must be lowered by one binder, `signed_shift(·, 0, -1)` reaches `?1` at cutoff 1 with shift
`0 < 1` and leaves it untouched, so `?0 := (_ : int) => ?1` is recorded although `?1` lives one binder
deeper than `?0`.  Then `?1 := x₁`.  Reading `?0↑1` back raises the solution by one: `(_ : int) => x₂`,
whereas the other side reads `(_ : int) => x₁`: the independent check answers `false`. -/
theorem C12_unify_holedepth_witness :
    ∃ (f : Nat) (a b za zb : Tm) (s s' : St), unifyS f a b s = .ok true s' ∧
      s'.store.length = s.store.length ∧ storeDeep s.store ∧
      zonk f s'.store a = some za ∧ zonk f s'.store b = some zb ∧
      za.holeFree = true ∧ zb.holeFree = true ∧ ∀ g, convX g s.dctx za zb ≠ some true :=
  ⟨10,
   .lam 1 false .int (.app (.app (.var 9 2) (.hole 0 1)) (.lam 2 false .int (.var 9 1))),
   .lam 1 false .int (.app (.app (.var 9 2) (.lam 2 false .int (.hole 1 0))) (.lam 2 false .int (.hole 1 0))),
   .lam 1 false .int (.app (.app (.var 9 2) (.lam 2 false .int (.var 9 2))) (.lam 2 false .int (.var 9 1))),
   .lam 1 false .int (.app (.app (.var 9 2) (.lam 2 false .int (.var 9 1))) (.lam 2 false .int (.var 9 1))),
   { store := [none, none], dctx := [none, none] },
   { store := [some (.lam 2 false .int (.hole 1 0)), some (.var 9 1)], dctx := [none, none] },
   by rfl, by rfl, (fun id sub h => by rcases id with _ | _ | id <;> simp at h), by rfl, by rfl, by rfl,
   by rfl, C12_convX_never_true (g0 := 8) (by rfl)⟩

/-- `D = (x : int) => x x` -/
def C12_dup : Tm := .lam 1 false .int (.app (.var 1 0) (.var 1 0))

theorem C12_whnfX_omega (Δ : DCtxX) : ∀ n, whnfX n Δ (.app C12_dup C12_dup) = none := by
  intro n
  induction n with
  | zero => rfl
  | succ n ih =>
    cases n with
    | zero => rfl
    | succ n =>
      have : whnfX (n+1+1) Δ (.app C12_dup C12_dup) = whnfX (n+1) Δ (.app C12_dup C12_dup) := by rfl
      rw [this]
      exact ih

/-- A third reason, which is **not** a defect of the unifier but of the conclusion as first stated: `unify`
compares `?0 D` with `?1 ((y => y) D)` structurally (`?0 := ?1`, arguments convertible) and only later
learns `?1 := D = (x => x x)`.  The zonked terms `D D` and `D ((y => y) D)` are convertible by the rules
(`Conv`), but the *algorithm* `convX` normalises `D D` first and diverges: it answers `none` at every
fuel.  No cell is allocated and no hole lies below a cutoff here, so the corrected statement must conclude
the declarative `Conv`, not `∃ g, convX g … = some true`. -/
theorem C12_unify_divergence_witness :
    ∃ (f : Nat) (a b za zb : Tm) (s s' : St), unifyS f a b s = .ok true s' ∧
      s'.store.length = s.store.length ∧ storeDeep s.store ∧ hdeep 0 a = true ∧ hdeep 0 b = true ∧
      zonk f s'.store a = some za ∧ zonk f s'.store b = some zb ∧
      za.holeFree = true ∧ zb.holeFree = true ∧ ∀ g, convX g s.dctx za zb = none := by
  refine ⟨9,
   .ite (.var 0 0) (.app (.hole 0 0) C12_dup) (.hole 0 0),
   .ite (.var 0 0) (.app (.hole 1 0) (.app (.lam 2 false .int (.var 2 0)) C12_dup)) C12_dup,
   .ite (.var 0 0) (.app C12_dup C12_dup) C12_dup,
   .ite (.var 0 0) (.app C12_dup (.app (.lam 2 false .int (.var 2 0)) C12_dup)) C12_dup,
   { store := [none, none], dctx := [none] },
   { store := [some (.hole 1 0), some C12_dup], dctx := [none] },
   by rfl, by rfl, (fun id sub h => by rcases id with _ | _ | id <;> simp at h), by rfl, by rfl, by rfl,
   by rfl, by rfl, by rfl, ?_⟩
  intro g
  rcases g with _ | _ | _ | g
  · rfl
  · rfl
  · rfl
  · have hw := C12_whnfX_omega [none] (g + 1)
    have e4 : convX (g+2) [none] (.app C12_dup C12_dup)
        (.app C12_dup (.app (.lam 2 false .int (.var 2 0)) C12_dup)) = none := by
      unfold convX
      rw [if_neg (by decide), hw]
    have e3 : convX (g+2) [none] (.var 0 0) (.var 0 0) = some true := by rfl
    have e1 : whnfX (g+2) [none] (.ite (.var 0 0) (.app C12_dup C12_dup) C12_dup) =
        some (.ite (.var 0 0) (.app C12_dup C12_dup) C12_dup) := by rfl
    have e2 : whnfX (g+2) [none]
          (.ite (.var 0 0) (.app C12_dup (.app (.lam 2 false .int (.var 2 0)) C12_dup)) C12_dup) =
        some (.ite (.var 0 0) (.app C12_dup (.app (.lam 2 false .int (.var 2 0)) C12_dup)) C12_dup) := by
      rfl
    unfold convX
    rw [if_neg (by decide), e1, e2]
    dsimp only
    rw [e3]
    dsimp only
    rw [e4]

/-- **Corrected statement.**  If the model of `unify` answers `true`, and

* **no cell was allocated during the call** (`s'.store.length = s.store.length`): in the model the only
  allocation below `unify` is `open` meeting an unresolved hole, so this says that no hole-copy event
  (KF-holecopy, hook H2 of the harness) happened — neither in a β-step nor in the unfolding of a group;
* **no hole lies below a cutoff** (`hdeep 0`, for the two terms and for every filled cell of the initial
  store): a hole under `j` binders of the term has shift `≥ j`, i.e. its cell lives outside those binders, so
  `signed_shift` never meets an unresolved hole whose shift is below the cutoff (KF-holedepth, hook H4) and
  its scope check is effective;
* the definitions context is hole-free,

then the two terms, zonked with the final store (at any fuel `fz` at which zonking answers), are
**convertible by the declarative rules** `Conv` of `Typing.lean`, whenever they are hole-free.

What was wrong with the first formulation: (1) `open` copies unresolved holes, the copy and the original
are solved independently (`C12_unify_sound_refuted`, a real defect); (2) a solution may capture a hole that
lives deeper than the solved cell, and is then read at the wrong depth (`C12_unify_holedepth_witness`, a
real defect); (3) the conclusion asked the *algorithm* `convX` to succeed, but `unify` may accept two terms
structurally whose normalisation diverges once the holes are filled (`C12_unify_divergence_witness`) —
convertibility has to be the relation `Conv`.  On hole-free terms a positive answer of `convX` implies
`Conv` (`TypingSound.convX_sound`), so the new conclusion is the old one weakened exactly as far as (3)
requires.  The two hypotheses are the weakest of their kind: each is necessary by the witnesses above
(each witness satisfies all the other hypotheses), and each is stated on what the run did / on the input,
not on the proof. -/
def C12_unify_sound_fixed_stmt : Prop :=
  ∀ (f fz : Nat) (a b za zb : Tm) (s s' : St), unifyS f a b s = .ok true s' →
    (∀ e ∈ s.dctx, ∀ d o, e = some (d, o) → d.holeFree = true) →
    s'.store.length = s.store.length →
    hdeep 0 a = true → hdeep 0 b = true → storeDeep s.store →
    zonk fz s'.store a = some za → zonk fz s'.store b = some zb →
    za.holeFree = true → zb.holeFree = true →
    Conv s.dctx za zb
theorem C12_unify_sound_fixed : C12_unify_sound_fixed_stmt :=
  fun _ _ _ _ _ _ _ _ h hD hlen ha hb hS hza hzb hfa hfb =>
    UnifySound.unifyS_sound_final h hS hD ha hb hlen hza hzb hfa hfb

/-- The same for any store that extends the final one without being longer (e.g. the store at the end of
type checking, if nothing was allocated in between), and the invariant is kept: the final store is again
deep. -/
def C12_unify_sound_fixed_ext_stmt : Prop :=
  ∀ (f : Nat) (a b : Tm) (s s' : St), unifyS f a b s = .ok true s' →
    (∀ e ∈ s.dctx, ∀ d o, e = some (d, o) → d.holeFree = true) →
    s'.store.length = s.store.length →
    hdeep 0 a = true → hdeep 0 b = true → storeDeep s.store →
    storeDeep s'.store ∧
    ∀ (σ : List (Option Tm)) (fz : Nat) (za zb : Tm), storeExtends s'.store σ → σ.length ≤ s.store.length →
      zonk fz σ a = some za → zonk fz σ b = some zb → za.holeFree = true → zb.holeFree = true →
      Conv s.dctx za zb
theorem C12_unify_sound_fixed_ext : C12_unify_sound_fixed_ext_stmt := by
  intro f a b s s' h hD hlen ha hb hS
  have := UnifySound.unifyS_sound f a b s s' h hS hD ha hb (Nat.le_of_eq hlen)
  exact ⟨this.1, fun σ fz za zb hL hl hza hzb hfa hfb =>
    this.2 σ hL hl za zb ⟨fz, hza⟩ ⟨fz, hzb⟩ hfa hfb⟩

/-! ### Non-vacuity of the corrected statement -/

-- a hole written outside a binder, solved under it by an outer variable (third witness above):
-- all hypotheses hold, the conclusion is `λ. x₁ ≡ λ. x₁`
example : Conv [none] (.lam 1 false .int (.var 2 1)) (.lam 1 false .int (.var 2 1)) :=
  C12_unify_sound_fixed 20 5 (.lam 1 false .int (.hole 0 1)) (.lam 1 false .int (.var 2 1)) _ _
    { store := [none], dctx := [none] } { store := [some (.var 2 0)], dctx := [none] }
    (by rfl) (by intro e he d o heq; simp at he; subst he; cases heq) (by rfl) (by rfl) (by rfl)
    (fun id sub h => by rcases id with _ | id <;> simp at h) (by rfl) (by rfl) (by rfl) (by rfl)

-- the divergence witness satisfies every hypothesis of the corrected statement: its zonked sides are
-- convertible by the rules although `convX` never answers
example : Conv [none] (.ite (.var 0 0) (.app C12_dup C12_dup) C12_dup)
    (.ite (.var 0 0) (.app C12_dup (.app (.lam 2 false .int (.var 2 0)) C12_dup)) C12_dup) :=
  C12_unify_sound_fixed 9 9
    (.ite (.var 0 0) (.app (.hole 0 0) C12_dup) (.hole 0 0))
    (.ite (.var 0 0) (.app (.hole 1 0) (.app (.lam 2 false .int (.var 2 0)) C12_dup)) C12_dup) _ _
    { store := [none, none], dctx := [none] } { store := [some (.hole 1 0), some C12_dup], dctx := [none] }
    (by rfl) (by intro e he d o heq; simp at he; subst he; cases heq) (by rfl) (by rfl) (by rfl)
    (fun id sub h => by rcases id with _ | _ | id <;> simp at h) (by rfl) (by rfl) (by rfl) (by rfl)

/-! ## Unifying a hole-free term with itself or with one of its reducts always succeeds

(`Lemmas/ConvCoherence.lean`: an evaluation step is a conversion; `Lemmas/CCUnify.lean`: on hole-free
terms with joinable erasures `unify` never answers `false`.) -/

/-- (First formulation, **refuted** below.)  No scoping assumption: for a hole-free term and any of
its reducts, `unify` — at any fuel, from any state with an empty definitions context — does not panic,
and a run that answers, answers `true` and leaves the state as it was. -/
def C12_unify_reduct_unrestricted : Prop :=
  ∀ (f : Nat) (t t' : Tm) (s : St), t.holeFree = true → s.dctx = [] → Steps t t' →
    (∀ site, unifyS f t t' s ≠ .panic site) ∧
    ∀ (r : Bool) (s' : St), unifyS f t t' s = .ok r s' → s' = s ∧ r = true

/-- False in its panic-freedom conjunct only, for the reason `C06_unify_layers_agree_refuted` records:
`normalize_weak_head` indexes the definitions context with a variable's de Bruijn index.  Witness: the
ill-scoped `if true then x₅ else 0` and its reduct `x₅` under the empty context.  (Not a defect of
gram: the resolver only produces well-scoped terms.) -/
theorem C12_unify_reduct_refuted : ¬ C12_unify_reduct_unrestricted := by
  intro h
  have hp : unifyS 5 (.ite .tt (.var 0 5) (.lit 0)) (.var 0 5) {} =
      .panic "normalize_weak_head.definitions_context[index]" := by rfl
  exact (h 5 _ _ {} rfl rfl (.head .iteT .refl)).1 _ hp

/-- Corrected statement.  For a hole-free term `t`, well scoped in the definitions context of the
state, and any reduct `t'` of `t` under evaluation (`t' = t` included): the model of gram's `unify`, with
any fuel, from any state whose definitions context is hole-free and well scoped (offsets in range, every
recorded definition well scoped where it was pushed — in particular the empty context), never panics,
and a run that answers, answers `true` and leaves the whole state — store, contexts, diagnostics — as
it was.  The answer part needs no scoping assumption. -/
def C12_unify_reduct_stmt : Prop :=
  ∀ (f : Nat) (t t' : Tm) (s : St), t.holeFree = true →
    (∀ e ∈ s.dctx, ∀ d o, e = some (d, o) → d.holeFree = true) →
    (∀ i d off, s.dctx[i]? = some (some (d, off)) →
      off ≤ i + 1 ∧ wellScoped (s.dctx.length - (i + 1 - off)) d = true) →
    Steps t t' →
    (wellScoped s.dctx.length t = true → ∀ site, unifyS f t t' s ≠ .panic site) ∧
    ∀ (r : Bool) (s' : St), unifyS f t t' s = .ok r s' → s' = s ∧ r = true
theorem C12_unify_reduct : C12_unify_reduct_stmt := by
  intro f t t' s ht hD hS hs
  exact ⟨fun hsc => ConvCoherence.unifyS_steps_no_panic f s ht hD hS hsc hs,
    fun r s' h => ConvCoherence.unifyS_steps ht hD (ConvCoherence.DSc.dwf hS) hs h⟩

/-- The closed form: a whole program, any state with an empty definitions context (whatever its store,
typing context and diagnostics). -/
def C12_unify_reduct_closed_stmt : Prop :=
  ∀ (f : Nat) (t t' : Tm) (s : St), t.holeFree = true → wellScoped 0 t = true → s.dctx = [] →
    Steps t t' →
    (∀ site, unifyS f t t' s ≠ .panic site) ∧
    ∀ (r : Bool) (s' : St), unifyS f t t' s = .ok r s' → s' = s ∧ r = true
theorem C12_unify_reduct_closed : C12_unify_reduct_closed_stmt := by
  intro f t t' s ht hsc hd hs
  have h := C12_unify_reduct f t t' s ht (by rw [hd]; intro e he; cases he)
    (by rw [hd]; intro i d off e; simp at e) hs
  exact ⟨h.1 (by rw [hd]; exact hsc), h.2⟩

/-- With itself, and with the term the fuelled evaluator reaches. -/
def C12_unify_self_eval_stmt : Prop :=
  ∀ (f n : Nat) (t : Tm) (s : St), t.holeFree = true → wellScoped 0 t = true → s.dctx = [] →
    (∀ site, unifyS f t t s ≠ .panic site ∧ unifyS f t (evalFuel n t) s ≠ .panic site) ∧
    (∀ (r : Bool) (s' : St), unifyS f t t s = .ok r s' → s' = s ∧ r = true) ∧
    (∀ (r : Bool) (s' : St), unifyS f t (evalFuel n t) s = .ok r s' → s' = s ∧ r = true)
theorem C12_unify_self_eval : C12_unify_self_eval_stmt := by
  intro f n t s ht hsc hd
  have h1 := C12_unify_reduct_closed f t t s ht hsc hd .refl
  have h2 := C12_unify_reduct_closed f t _ s ht hsc hd (evalFuel_steps n t)
  exact ⟨fun site => ⟨h1.1 site, h2.1 site⟩, h1.2, h2.2⟩

-- non-vacuity: a recursive program, its reduct after 7 steps (still containing the recursive group)
-- and its value; `unify` answers `true` on each pair, from a state with a non-trivial store, typing
-- context and error count, and leaves that state alone
def C12_fact3 : Tm :=
  .letg (.cons 0 (.pi 1 false .int .int)
          (.lam 2 false .int
            (.ite (.bin .eq (.var 2 0) (.lit 0)) (.lit 1)
              (.bin .prod (.var 2 0) (.app (.var 0 1) (.bin .diff (.var 2 0) (.lit 1))))))
          .nil)
        (.app (.var 0 0) (.lit 3))
example : C12_fact3.holeFree = true ∧ wellScoped 0 C12_fact3 = true ∧ evalFuel 200 C12_fact3 = .lit 6 := by
  decide
example : (match unifyS 60 C12_fact3 (evalFuel 7 C12_fact3) { store := [none], nerrs := 2 } with
    | .ok r s => r && s.store == [none] && s.nerrs == 2 && s.dctx.isEmpty | _ => false) = true := by decide
example : (match unifyS 60 C12_fact3 (evalFuel 200 C12_fact3) { store := [none], nerrs := 2 } with
    | .ok r s => r && s.store == [none] && s.nerrs == 2 | _ => false) = true := by decide
example : (match unifyS 60 C12_fact3 C12_fact3 {} with | .ok r _ => r | _ => false) = true := by decide

/-! ## The structural arms of `unify` relate like with like (table regenerated from `unifier.rs` on every run) -/

/-- Every structural arm of `unifier.rs::unify` (after weak head normalisation) matches the same variant on both
sides and unifies the i-th child with the i-th child, every child (λ: bodies only) — in particular each of the
nine alternatives of the shared arm for binary operators, which the model has as ONE constructor. -/
def C12_unify_pairs_tie_stmt : Prop := pairsOK Generated.unifyPairs = true
theorem C12_unify_pairs_tie : C12_unify_pairs_tie_stmt := by unfold C12_unify_pairs_tie_stmt; decide

/-! ## The occurs check keeps the hole store acyclic (`Lemmas/UnifyAcyclic.lean`)

`UnifyAcyclic.Edge σ i j`: cell `i` is solved and its solution mentions cell `j`; `Reaches σ`: transitive closure;
`ReachT σ t j`: `j` is mentioned by `t`, directly or through solved cells; `Acyclic σ`: no cell reaches itself;
`Guarded σ σ'`: `σ'` comes from `σ` by allocations of empty cells and *guarded assignments* `id := sol` (`id`
empty, every cell mentioned by `sol` empty and different from `id`).  No well-formedness of cell ids is needed:
an id beyond the end of the store reads as an empty cell, and writing to it does nothing. -/

/-- **`unify` keeps the store acyclic**, at every fuel, for all terms and states, whatever the answer: its run
is a sequence of allocations of empty cells (the hole copies of `open`, inside weak head normalisation) and
guarded assignments, and these preserve acyclicity. -/
def C12_unify_acyclic_stmt : Prop :=
  ∀ (f : Nat) (a b : Tm) (r : Bool) (s s' : St), unifyS f a b s = .ok r s' →
    UnifyAcyclic.Guarded s.store s'.store ∧
    (UnifyAcyclic.Acyclic s.store → UnifyAcyclic.Acyclic s'.store)
theorem C12_unify_acyclic : C12_unify_acyclic_stmt := by
  intro f a b r s s' h
  exact ⟨UnifyAcyclic.unifyS_guarded h, (UnifyAcyclic.unifyS_guarded h).acyclic⟩

/-- Weak head normalisation only appends empty cells, hence keeps the store acyclic; syntactic equality leaves
the whole state as it was. -/
def C12_whnf_syneq_acyclic_stmt : Prop :=
  (∀ (f : Nat) (t r : Tm) (s s' : St), whnfS f t s = .ok r s' →
    (∃ k, s'.store = s.store ++ List.replicate k none) ∧
    (UnifyAcyclic.Acyclic s.store → UnifyAcyclic.Acyclic s'.store)) ∧
  (∀ (f : Nat) (a b : Tm) (r : Bool) (s s' : St), synEqS f a b s = .ok r s' → s' = s)
theorem C12_whnf_syneq_acyclic : C12_whnf_syneq_acyclic_stmt :=
  ⟨fun f t _ _ _ h => ⟨((StoreMono.whnfS_pres f t).out _ _ _ h).1, (UnifyAcyclic.whnfS_guarded h).acyclic⟩,
   fun _ _ _ _ _ _ h => UnifyAcyclic.synEqS_state h⟩

/-- The whole type checker (which calls `unify`, allocates the holes of applications and opens codomains)
keeps the store acyclic. -/
def C12_infer_acyclic_stmt : Prop :=
  ∀ (f : Nat) (t : Tm) (r : Tm × Tm) (s s' : St), inferS f t s = .ok r s' →
    UnifyAcyclic.Guarded s.store s'.store ∧
    (UnifyAcyclic.Acyclic s.store → UnifyAcyclic.Acyclic s'.store)
theorem C12_infer_acyclic : C12_infer_acyclic_stmt := by
  intro f t r s s' h
  exact ⟨UnifyAcyclic.inferS_guarded h, (UnifyAcyclic.inferS_guarded h).acyclic⟩

/-- **The occurs check is exact.**  `collect_unifiers`, as used by `unify` (`occursS`), answers `true` iff the cell
is an empty cell mentioned by the term directly or through solved cells; and it does not change the state. -/
def C12_occurs_exact_stmt : Prop :=
  ∀ (f id : Nat) (t : Tm) (b : Bool) (s s' : St), occursS f id t s = .ok b s' →
    s' = s ∧ (b = true ↔ (UnifyAcyclic.ReachT s.store t id ∧ StoreMono.Empty s.store id))
theorem C12_occurs_exact : C12_occurs_exact_stmt := by
  intro f id t b s s' h
  exact ⟨WhnfLemmas.occursS_state h, (UnifyAcyclic.occursS_spec f).1 id t s b s' h⟩

/-- **Lowering cannot smuggle a cell past the occurs check.**  `signed_shift` expands solved cells; every cell
mentioned by its result is an *empty* cell reachable from its argument — exactly the cells the occurs check
(run on the un-lowered term) inspects. -/
def C12_lowering_holes_stmt : Prop :=
  ∀ (f c : Nat) (amt : Int) (t r : Tm) (s s' : St), sshiftS f c amt t s = .ok (some r) s' →
    s' = s ∧ ∀ j ∈ UnifyAcyclic.holesOf r, StoreMono.Empty s.store j ∧ UnifyAcyclic.ReachT s.store t j
theorem C12_lowering_holes : C12_lowering_holes_stmt := by
  intro f c amt t r s s' h
  exact ⟨UnifyAcyclic.sshiftS_state h, (UnifyAcyclic.sshiftS_holes f).1 c amt t s r s' h⟩

/-- **No hole is solved by a term containing itself.**  At the moment `solveS` assigns `id := sol` (`sol` = the
other side lowered by the hole's shift, in the store `s.store` before the assignment): every cell mentioned by
`sol` is empty, different from `id` and reachable from the other side; `id` is not reachable from `sol`; and if
`id` is empty (it always is where `unifyS` calls `solveS`) it is not reachable from the other side either. -/
def C12_assigned_not_self_stmt : Prop :=
  ∀ (f id shift : Nat) (other : Tm) (s s' : St), solveS f id shift other s = .ok (some true) s' →
    ∃ sol, sshiftS f 0 (-(shift : Int)) other s = .ok (some sol) s ∧
      s' = { s with store := s.store.set id (some sol) } ∧
      (∀ j ∈ UnifyAcyclic.holesOf sol,
        StoreMono.Empty s.store j ∧ j ≠ id ∧ UnifyAcyclic.ReachT s.store other j) ∧
      ¬ UnifyAcyclic.ReachT s.store sol id ∧
      (StoreMono.Empty s.store id → ¬ UnifyAcyclic.ReachT s.store other id)
theorem C12_assigned_not_self : C12_assigned_not_self_stmt := by
  intro f id shift other s s' h
  rcases UnifyAcyclic.solveS_cases h with ⟨e, _⟩ | ⟨e, _⟩ | ⟨_, sol, h1, h2, e⟩
  · cases e
  · cases e
  · have := UnifyAcyclic.solveS_assign h1 h2
    exact ⟨sol, h1, e, this.1, this.2.1, this.2.2⟩

/-- **The scoping clause at store level** (holes allowed in the other side and in the store): when `solveS`
assigns `id := sol` for a hole written with shift `k`, and no hole lies below a cutoff (`hdeep`, `storeDeep` —
necessary, `C12_unify_holedepth_witness`), then under any store `σ` extending the current one, whatever the
other side reads as (`zo`), `sol` reads as `zo` lowered by `k` binders: raising it back gives `zo`, and once
`zo` is hole-free every free variable of the reading of `sol`, raised by `k`, is a free variable of `zo`, none
of the `k` innermost variables being used. -/
def C12_solution_scoped_store_stmt : Prop :=
  ∀ (f id k : Nat) (other : Tm) (s s' : St), solveS f id k other s = .ok (some true) s' →
    storeDeep s.store → hdeep 0 other = true →
    ∃ sol, s'.store = s.store.set id (some sol) ∧
      ∀ σ, storeExtends s.store σ → ∀ zo, (∃ n, zonk n σ other = some zo) →
        ∃ zs, (∃ n, zonk n σ sol = some zs) ∧ sshift 0 (-(k : Int)) zo = some zs ∧ ushift 0 k zs = zo ∧
          (zo.holeFree = true →
            (∀ j, freeAt zs j = true → freeAt zo (j + k) = true) ∧ ∀ j, j < k → freeAt zo j = false)
theorem C12_solution_scoped_store : C12_solution_scoped_store_stmt :=
  fun _ _ _ _ _ _ h hS hd => UnifyAcyclic.solveS_scoped h hS hd

/-- **`zonk` terminates on an acyclic store**: every term can be zonked with some fuel. -/
def C12_zonk_terminates_stmt : Prop :=
  ∀ (σ : List (Option Tm)) (t : Tm), UnifyAcyclic.Acyclic σ → ∃ fuel z, zonk fuel σ t = some z
theorem C12_zonk_terminates : C12_zonk_terminates_stmt :=
  fun _ t h => UnifyAcyclic.zonk_terminates_of_acyclic h t

/-- Hence after any run of `unify` or of the type checker from an acyclic store (e.g. the empty store, or any
store of empty cells), every term can be zonked. -/
def C12_zonk_after_unify_stmt : Prop :=
  (∀ (f : Nat) (a b : Tm) (r : Bool) (s s' : St), UnifyAcyclic.Acyclic s.store →
    unifyS f a b s = .ok r s' → ∀ t, ∃ fuel z, zonk fuel s'.store t = some z) ∧
  (∀ (f : Nat) (t : Tm) (r : Tm × Tm) (s s' : St), UnifyAcyclic.Acyclic s.store →
    inferS f t s = .ok r s' → ∀ u, ∃ fuel z, zonk fuel s'.store u = some z) ∧
  (∀ n, UnifyAcyclic.Acyclic (List.replicate n (none : Option Tm)))
theorem C12_zonk_after_unify : C12_zonk_after_unify_stmt :=
  ⟨fun _ _ _ _ _ _ ha h t => UnifyAcyclic.zonk_terminates_of_acyclic ((UnifyAcyclic.unifyS_guarded h).acyclic ha) t,
   fun _ _ _ _ _ ha h t => UnifyAcyclic.zonk_terminates_of_acyclic ((UnifyAcyclic.inferS_guarded h).acyclic ha) t,
   fun n => (UnifyAcyclic.Terminating.replicate n).acyclic⟩

/-- `Acyclic` (no cell reaches itself) coincides with well-foundedness of the "mentions" relation (no infinite
chain of solved cells), and the executable checker `acyclicB` is sound for both. -/
def C12_acyclic_checker_stmt : Prop :=
  ∀ (σ : List (Option Tm)), (UnifyAcyclic.Acyclic σ ↔ UnifyAcyclic.Terminating σ) ∧
    (UnifyAcyclic.acyclicB σ = true → UnifyAcyclic.Acyclic σ)
theorem C12_acyclic_checker : C12_acyclic_checker_stmt :=
  fun _ => ⟨UnifyAcyclic.acyclic_iff_terminating, UnifyAcyclic.acyclicB_acyclic⟩

/-! ### Non-vacuity -/

-- a store with a solved chain `?0 := ?1`, `?1 := ?2 -> int` and two empty cells is acyclic; `?3` is solved
-- by `?0 -> bool`, recorded with the chain expanded; the store after is acyclic (by the theorem and by the checker)
example : UnifyAcyclic.Acyclic
    [some (.hole 1 0), some (.pi 0 false (.hole 2 0) .int), none,
     some (.pi 0 false (.pi 0 false (.hole 2 0) .int) .bool)] :=
  (C12_unify_acyclic 20 (.hole 3 0) (.pi 0 false (.hole 0 0) .bool) true { store := UnifyAcyclic.exStore }
    { store := [some (.hole 1 0), some (.pi 0 false (.hole 2 0) .int), none,
        some (.pi 0 false (.pi 0 false (.hole 2 0) .int) .bool)] } (by rfl)).2
    (UnifyAcyclic.acyclicB_acyclic (by decide))
example : UnifyAcyclic.acyclicB
    [some (.hole 1 0), some (.pi 0 false (.hole 2 0) .int), none,
     some (.pi 0 false (.pi 0 false (.hole 2 0) .int) .bool)] = true := by decide
-- the classic occurs-check configuration through the chain, `?2 = ?0 -> bool` i.e. `X = f X`:
-- the answer is `false` and the store is unchanged
example :
    (match unifyS 20 (.hole 2 0) (.pi 0 false (.hole 0 0) .bool) { store := UnifyAcyclic.exStore } with
     | .ok r s' => r == false && s'.store == UnifyAcyclic.exStore
     | _ => false) = true := by decide
-- an assignment, as `C12_assigned_not_self` describes it
example : solveS 10 3 0 (.pi 0 false (.hole 0 0) .bool) { store := UnifyAcyclic.exStore } =
    .ok (some true) { store := [some (.hole 1 0), some (.pi 0 false (.hole 2 0) .int), none,
      some (.pi 0 false (.pi 0 false (.hole 2 0) .int) .bool)] } := by rfl
-- weak head normalisation allocating a cell (the hole copy of `open` in a β-step)
example : (match whnfS 10 (.app (.lam 1 false .int (.hole 0 1)) (.lit 5)) { store := [none] } with
    | .ok r s' => r == .hole 1 0 && s'.store == [none, none] | _ => false) = true := by decide
-- the occurs check answers `true` through a chain, `false` for an unrelated empty cell
example : (match occursS 10 2 (.hole 0 0) { store := UnifyAcyclic.exStore } with
    | .ok b _ => b | _ => false) = true := by decide
example : (match occursS 10 3 (.hole 0 0) { store := UnifyAcyclic.exStore } with
    | .ok b _ => !b | _ => false) = true := by decide
-- lowering expands the chain
example : sshiftS 10 0 0 (.hole 0 0) { store := UnifyAcyclic.exStore } =
    .ok (some (.pi 0 false (.hole 2 0) .int)) { store := UnifyAcyclic.exStore } := by rfl
-- zonking on the acyclic store
example : zonk 5 UnifyAcyclic.exStore (.hole 0 0) = some (.pi 0 false (.hole 2 0) .int) := by rfl
-- a cyclic store is rejected by the checker, is not `Acyclic`, and `zonk` runs out of any fuel we try
example : UnifyAcyclic.acyclicB [some (.hole 1 0), some (.pi 0 false (.hole 0 0) .int)] = false := by decide
example : zonk 50 [some (.hole 1 0), some (.pi 0 false (.hole 0 0) .int)] (.hole 0 0) = none := by decide
