import GramModel.Lemmas.Listing

/-!
# C15 — diagnostics point at the offending source text (the excerpt renderer)

Statements about `Listing.listing`, the model of `listing` in `src/error.rs` (uncoloured mode), which
the harness compares with the Rust function on every generated text and range (suite `listing`).
Unicode whitespace is a parameter `ws`; every statement holds for every classification.

Vocabulary (defined in `Lemmas/Listing.lean`): `linesOf text` lists `(k, ls, l)` for every line of the
text — 0-based index, byte offset of its first character, contents — and `C15_line_table` says what
that means in terms of the text alone.  `shownLines text start stop` are the entries with
`ls < stop ∧ start < ls + len l + 1`.  `IsBoundary s n`: `n` is a character boundary of `s`.
`byteOfCol t j`: byte offset of the character in column `j` of `t`.
-/

open Listing

/-- The model always answers: a rendered excerpt or `panic` (there is no fuel to run out of). -/
def C15_total_stmt : Prop :=
  ∀ (ws : Char → Bool) (text : List Char) (start stop : Nat),
    (∃ out, listing ws text start stop = .ok out) ∨ listing ws text start stop = .panic
theorem C15_total : C15_total_stmt := by
  intro ws text start stop
  cases h : listing ws text start stop with
  | ok out => exact Or.inl ⟨out, rfl⟩
  | panic => exact Or.inr rfl

/-- `panic` is returned exactly when one of Rust's slice expressions `line[..s]`, `line[s..e]`,
`line[e..]` would panic for a recorded line: an offset that is not a character boundary of the
trimmed line, or `s > e`. -/
def C15_panic_exactly_stmt : Prop :=
  ∀ (ws : Char → Bool) (text : List Char) (start stop : Nat),
    listing ws text start stop = .panic ↔
      ∃ r ∈ rowsOf ws text start stop,
        ¬ (IsBoundary r.line r.secStart ∧ IsBoundary r.line r.secEnd ∧ r.secStart ≤ r.secEnd)
theorem C15_panic_exactly : C15_panic_exactly_stmt := listing_panic_iff

/-- What the line table means: the indices are `0, 1, …, (number of line feeds)`; entry `(k, ls, l)`
is a line-feed-free piece of the text that starts at byte `ls`, is preceded by exactly `k` line feeds,
and is delimited by line feeds or the ends of the text. -/
def C15_line_table_stmt : Prop :=
  ∀ (text : List Char),
    (linesOf text).map (·.1) = List.range (text.count '\n' + 1) ∧
    ∀ e ∈ linesOf text, '\n' ∉ e.2.2 ∧ ∃ pre post,
      text = pre ++ e.2.2 ++ post ∧ utf8Len pre = e.2.1 ∧ pre.count '\n' = e.1 ∧
      (pre = [] ∨ ∃ p, pre = p ++ ['\n']) ∧ (post = [] ∨ ∃ q, post = '\n' :: q)
theorem C15_line_table : C15_line_table_stmt := by
  intro text
  refine ⟨linesOf_index text, ?_⟩
  intro e he
  exact ⟨splitLines_no_nl text _ (lineTable_mem _ _ _ e he), linesOf_spec text e he⟩

/-- The line numbers shown are exactly the 1-based indices of the lines `[ls, le)` with
`ls < stop ∧ le + 1 > start`, in increasing order — for every range whatsoever. -/
def C15_lines_shown_stmt : Prop :=
  ∀ (ws : Char → Bool) (text : List Char) (start stop : Nat),
    (rowsOf ws text start stop).map (·.num) =
      ((linesOf text).filter
        (fun e => decide (e.2.1 < stop ∧ e.2.1 + utf8Len e.2.2 + 1 > start))).map (fun e => e.1 + 1) ∧
    List.Pairwise (· < ·) ((rowsOf ws text start stop).map (·.num))
theorem C15_lines_shown : C15_lines_shown_stmt := by
  intro ws text start stop
  have hfun : (fun e : Nat × Nat × List Char => decide (e.2.1 < stop ∧ e.2.1 + utf8Len e.2.2 + 1 > start))
      = touches start stop := by
    funext e; simp [touches]
  have h1 : (rowsOf ws text start stop).map (·.num) =
      ((linesOf text).filter (touches start stop)).map (fun e => e.1 + 1) := by
    rw [rowsOf_eq, List.map_map]; rfl
  refine ⟨by rw [hfun]; exact h1, ?_⟩
  rw [h1, List.pairwise_map]
  exact ((linesOf_pairwise text).filter _).imp (by intro a b h; omega)

/-- The number printed for the line with index `k` (the line preceded by `k` line feeds) is `k + 1` in
decimal, right-aligned in a gutter whose width is the same for all rows, followed by ` │ `. -/
def C15_line_numbers_stmt : Prop :=
  ∀ (ws : Char → Bool) (text : List Char) (start stop : Nat) (out : List Char),
    listing ws text start stop = .ok out →
    ∃ xs, out = joinNl xs ∧ xs.length = (shownLines text start stop).length ∧
      ∀ (j : Nat) (e : Nat × Nat × List Char), (shownLines text start stop)[j]? = some e →
        ∃ pad rest, xs[j]? = some (pad ++ Nat.toDigits 10 (e.1 + 1) ++ [' ', '│', ' '] ++ rest) ∧
          (∀ c ∈ pad, c = ' ') ∧
          pad.length + (Nat.toDigits 10 (e.1 + 1)).length = gutterWidth (rowsOf ws text start stop)
theorem C15_line_numbers : C15_line_numbers_stmt := by
  intro ws text start stop out h
  obtain ⟨xs, h1, h2, h3⟩ := listing_ok_spec ws text start stop out h
  refine ⟨xs, h1, h2, ?_⟩
  intro j e hj
  obtain ⟨pre, mid, post, _, _, _, e4, e5⟩ := h3 j e hj
  refine ⟨spaces (gutterWidth (rowsOf ws text start stop) - (Nat.toDigits 10 (e.1 + 1)).length),
    (mkRow ws start stop e).line ++ '\n' :: markerRow (gutterWidth (rowsOf ws text start stop))
      (decide (j + 1 = (shownLines text start stop).length)) (mkRow ws start stop e) pre mid, ?_, ?_, ?_⟩
  · rw [e4]; simp [gutter, decimal, mkRow]
  · intro c hc; simp [spaces] at hc; exact hc.2
  · simp only [gutter, decimal, mkRow, spaces, List.length_append, List.length_replicate,
      List.length_cons, List.length_nil] at e5
    simp only [spaces, List.length_replicate]
    omega

/-- Each shown row carries, right after the gutter (`gutter width + 3` characters), the source line
with its trailing whitespace removed, and then the line feed that starts the marker row.  "Trailing
whitespace removed": what is cut off is whitespace only, and what remains does not end in
whitespace. -/
def C15_line_text_stmt : Prop :=
  (∀ (ws : Char → Bool) (text : List Char) (start stop : Nat) (out : List Char),
    listing ws text start stop = .ok out →
    ∃ xs, out = joinNl xs ∧ xs.length = (shownLines text start stop).length ∧
      ∀ (j : Nat) (e : Nat × Nat × List Char), (shownLines text start stop)[j]? = some e →
        ∃ g m, xs[j]? = some (g ++ trimEnd ws e.2.2 ++ '\n' :: m) ∧
          g.length = gutterWidth (rowsOf ws text start stop) + 3) ∧
  (∀ (ws : Char → Bool) (l : List Char), ∃ suf, l = trimEnd ws l ++ suf ∧ (∀ c ∈ suf, ws c = true) ∧
    (∀ c, (trimEnd ws l).getLast? = some c → ws c = false))
theorem C15_line_text : C15_line_text_stmt := by
  refine ⟨?_, trimEnd_spec⟩
  intro ws text start stop out h
  obtain ⟨xs, h1, h2, h3⟩ := listing_ok_spec ws text start stop out h
  refine ⟨xs, h1, h2, ?_⟩
  intro j e hj
  obtain ⟨pre, mid, post, _, _, _, e4, e5⟩ := h3 j e hj
  exact ⟨_, _, e4, e5⟩

/-- On each shown line the marked character columns are those of the section `[s, e)`: the marker row
is aligned with the text (same `gutter width + 3` prefix length) and has `‾` in column `col` exactly
when the character in column `col` of the trimmed line starts at a byte in `[s, e)`.  The section: on
the first line (`start > ls`) it is the range clipped to the trimmed line; on continuation lines it
ends where the range (clipped) ends and starts at the first non-whitespace character (or is empty
when the line is blank). -/
def C15_marks_stmt : Prop :=
  (∀ (ws : Char → Bool) (text : List Char) (start stop : Nat) (out : List Char),
    listing ws text start stop = .ok out →
    ∃ xs, out = joinNl xs ∧ xs.length = (shownLines text start stop).length ∧
      ∀ (j : Nat) (e : Nat × Nat × List Char), (shownLines text start stop)[j]? = some e →
        ∃ g m, xs[j]? = some (g ++ trimEnd ws e.2.2 ++ '\n' :: m) ∧
          g.length = gutterWidth (rowsOf ws text start stop) + 3 ∧
          ∀ col, m[gutterWidth (rowsOf ws text start stop) + 3 + col]? = some '‾' ↔
            ((section_ ws start stop e.2.1 (trimEnd ws e.2.2)).1 ≤ byteOfCol (trimEnd ws e.2.2) col ∧
              byteOfCol (trimEnd ws e.2.2) col < (section_ ws start stop e.2.1 (trimEnd ws e.2.2)).2)) ∧
  (∀ (ws : Char → Bool) (start stop ls : Nat) (t : List Char),
    (start > ls → section_ ws start stop ls t =
      (min (start - ls) (utf8Len t), min (stop - ls) (utf8Len t))) ∧
    (start ≤ ls → (section_ ws start stop ls t).2 = min (stop - ls) (utf8Len t) ∧
      (∀ f, findNonWs ws t 0 = some f → (section_ ws start stop ls t).1 = f ∧
        ∃ a c b, t = a ++ c :: b ∧ utf8Len a = f ∧ ws c = false ∧ ∀ x ∈ a, ws x = true) ∧
      (findNonWs ws t 0 = none →
        (section_ ws start stop ls t).1 = (section_ ws start stop ls t).2 ∧ ∀ x ∈ t, ws x = true)))
theorem C15_marks : C15_marks_stmt := by
  constructor
  · intro ws text start stop out h
    obtain ⟨xs, h1, h2, h3⟩ := listing_ok_spec ws text start stop out h
    refine ⟨xs, h1, h2, ?_⟩
    intro j e hj
    obtain ⟨pre, mid, post, e1, e2, e3, e4, e5⟩ := h3 j e hj
    refine ⟨_, _, e4, e5, ?_⟩
    intro col
    rw [markerRow_mark _ _ _ pre mid e2 e3 col]
    have hl : trimEnd ws e.2.2 = pre ++ mid ++ post := e1
    have hs : (section_ ws start stop e.2.1 (trimEnd ws e.2.2)).1 = utf8Len pre := e2.symm
    have he : (section_ ws start stop e.2.1 (trimEnd ws e.2.2)).2 = utf8Len pre + utf8Len mid := e3.symm
    rw [hs, he, hl]
    exact cols_iff pre mid post col
  · intro ws start stop ls t
    constructor
    · intro hgt; simp [section_, hgt]
    · intro hle
      have hn : ¬ start > ls := by omega
      refine ⟨by simp [section_, hn], ?_, ?_⟩
      · intro f hf
        refine ⟨by simp [section_, hn, hf], ?_⟩
        obtain ⟨a, c, b, e1, e2, e3, e4⟩ := findNonWs_some hf
        exact ⟨a, c, b, e1, by omega, e3, e4⟩
      · intro hf
        exact ⟨by simp [section_, hn, hf], findNonWs_none hf⟩

/-- No panic: if `start ≤ stop`, both are character boundaries of the text, and on every continuation
line (a line beginning at or after `start` and before `stop`) the range reaches at least the first
non-whitespace character, the model never returns `panic`. -/
def C15_no_panic_stmt : Prop :=
  ∀ (ws : Char → Bool) (text : List Char) (start stop : Nat),
    start ≤ stop → IsBoundary text start → IsBoundary text stop →
    (∀ e ∈ linesOf text, start ≤ e.2.1 → e.2.1 < stop →
      ∀ f, findNonWs ws (trimEnd ws e.2.2) 0 = some f → e.2.1 + f ≤ stop) →
    listing ws text start stop ≠ .panic
theorem C15_no_panic : C15_no_panic_stmt := by
  intro ws text start stop hss hbs hbe hreach hp
  obtain ⟨r, hr, hn⟩ := (listing_panic_iff ws text start stop).mp hp
  rw [rowsOf_eq] at hr
  obtain ⟨e, he, rfl⟩ := List.mem_map.mp hr
  obtain ⟨he1, he2⟩ := List.mem_filter.mp he
  apply hn
  apply mkRow_sliceable ws text start stop hss hbs hbe e he1 he2
  intro hle f hf
  have hlt : e.2.1 < stop := by
    simp only [touches, Bool.and_eq_true, decide_eq_true_eq] at he2; exact he2.1
  exact hreach e he1 hle hlt f hf

/-- In particular the ranges diagnostics carry never make the model panic: a range that starts on a
character boundary and ends right after a non-whitespace character (the end of a token). -/
def C15_no_panic_token_end_stmt : Prop :=
  ∀ (ws : Char → Bool) (a b : List Char) (c : Char) (start : Nat),
    ws c = false → start ≤ utf8Len a + c.utf8Size → IsBoundary (a ++ c :: b) start →
    listing ws (a ++ c :: b) start (utf8Len a + c.utf8Size) ≠ .panic
theorem C15_no_panic_token_end : C15_no_panic_token_end_stmt := by
  intro ws a b c start hc hss hbs
  apply C15_no_panic ws (a ++ c :: b) start _ hss hbs
  · refine ⟨a ++ [c], b, by simp, ?_⟩
    rw [utf8Len_append]; simp [utf8Len]
  · intro e he _ hlt f hf
    exact reach_of_token_end ws _ _ a b c rfl rfl hc e he hlt f hf

/-! ## Non-vacuity: concrete excerpts, evaluated by the kernel -/

def C15_ws : Char → Bool := fun c => c == ' ' || c == '\n' || c == '\t' || c == '\r'

-- `é = 1; zz` with the range of `zz` (bytes 8..10): the mark sits under `zz` (columns 7, 8), although
-- `é` is two bytes long
example : listing C15_ws ['é',' ','=',' ','1',';',' ','z','z'] 8 10 =
    .ok ['1',' ','│',' ','é',' ','=',' ','1',';',' ','z','z','\n',
         ' ',' ',' ',' ',' ',' ',' ',' ',' ',' ',' ','‾','‾'] := by decide

-- a two-line range with indentation and a CRLF line ending: `f (a,⏎    b) c` from `(` to `)`
example : listing C15_ws ['f',' ','(','a',',','\r','\n',' ',' ',' ',' ','b',')',' ','c'] 2 13 =
    .ok ['1',' ','│',' ','f',' ','(','a',',','\n',
         ' ',' ','┊',' ',' ',' ','‾','‾','‾','\n',
         '2',' ','│',' ',' ',' ',' ',' ','b',')',' ','c','\n',
         ' ',' ',' ',' ',' ',' ',' ',' ','‾','‾'] := by decide

-- an empty range in the middle of a line: the line is shown, nothing is marked
example : listing C15_ws ['a','b'] 1 1 = .ok ['1',' ','│',' ','a','b','\n',' ',' ',' '] := by decide

-- an empty range at the very start of a line shows nothing at all
example : listing C15_ws ['a','\n','b'] 2 2 = .ok [] := by decide

-- a range that is not on a character boundary of its line panics, like the Rust slice
example : listing C15_ws ['é','a'] 1 3 = .panic := by decide

-- so does a range that covers only part of the indentation of a line it starts at column 0 of
example : listing C15_ws ['\t','\t','a'] 0 1 = .panic := by decide
