import GramModel.Lemmas.ArmsTie
import GramModel.Lemmas.Listing
import GramModel.Lemmas.ParserSpan

/-!
# C15 — diagnostics point at the offending source text (the excerpt renderer)

Statements about `Listing.listing`, the model of `listing` in `src/error.rs` (uncoloured mode), which
the harness compares with the Rust function on every generated text and range (suite `listing`).
Unicode whitespace is a parameter `ws`; every statement holds for every classification.

Vocabulary (defined in `Lemmas/Listing.lean`): `linesOf text` lists `(k, ls, l)` for every line of the
text — 0-based index, byte offset of its first character, contents — and `C15_line_table` says what
that means in terms of the text alone.  `shownLines text start stop` are the entries with
`ls < stop ∧ start < ls + len l + 1`.  `IsBoundary s n`: `n` is a character boundary of `s`.
`byteOfCol t j`: byte offset of the character in column `j` of `t`.
-/

open Listing

/-- The model always answers: a rendered excerpt or `panic` (there is no fuel to run out of). -/
def C15_total_stmt : Prop :=
  ∀ (ws : Char → Bool) (text : List Char) (start stop : Nat),
    (∃ out, listing ws text start stop = .ok out) ∨ listing ws text start stop = .panic
theorem C15_total : C15_total_stmt := by
  intro ws text start stop
  cases h : listing ws text start stop with
  | ok out => exact Or.inl ⟨out, rfl⟩
  | panic => exact Or.inr rfl

/-- `panic` is returned exactly when one of Rust's slice expressions `line[..s]`, `line[s..e]`,
`line[e..]` would panic for a recorded line: an offset that is not a character boundary of the
trimmed line, or `s > e`. -/
def C15_panic_exactly_stmt : Prop :=
  ∀ (ws : Char → Bool) (text : List Char) (start stop : Nat),
    listing ws text start stop = .panic ↔
      ∃ r ∈ rowsOf ws text start stop,
        ¬ (IsBoundary r.line r.secStart ∧ IsBoundary r.line r.secEnd ∧ r.secStart ≤ r.secEnd)
theorem C15_panic_exactly : C15_panic_exactly_stmt := listing_panic_iff

/-- What the line table means: the indices are `0, 1, …, (number of line feeds)`; entry `(k, ls, l)`
is a line-feed-free piece of the text that starts at byte `ls`, is preceded by exactly `k` line feeds,
and is delimited by line feeds or the ends of the text. -/
def C15_line_table_stmt : Prop :=
  ∀ (text : List Char),
    (linesOf text).map (·.1) = List.range (text.count '\n' + 1) ∧
    ∀ e ∈ linesOf text, '\n' ∉ e.2.2 ∧ ∃ pre post,
      text = pre ++ e.2.2 ++ post ∧ utf8Len pre = e.2.1 ∧ pre.count '\n' = e.1 ∧
      (pre = [] ∨ ∃ p, pre = p ++ ['\n']) ∧ (post = [] ∨ ∃ q, post = '\n' :: q)
theorem C15_line_table : C15_line_table_stmt := by
  intro text
  refine ⟨linesOf_index text, ?_⟩
  intro e he
  exact ⟨splitLines_no_nl text _ (lineTable_mem _ _ _ e he), linesOf_spec text e he⟩

/-- The line numbers shown are exactly the 1-based indices of the lines `[ls, le)` with
`ls < stop ∧ le + 1 > start`, in increasing order — for every range whatsoever. -/
def C15_lines_shown_stmt : Prop :=
  ∀ (ws : Char → Bool) (text : List Char) (start stop : Nat),
    (rowsOf ws text start stop).map (·.num) =
      ((linesOf text).filter
        (fun e => decide (e.2.1 < stop ∧ e.2.1 + utf8Len e.2.2 + 1 > start))).map (fun e => e.1 + 1) ∧
    List.Pairwise (· < ·) ((rowsOf ws text start stop).map (·.num))
theorem C15_lines_shown : C15_lines_shown_stmt := by
  intro ws text start stop
  have hfun : (fun e : Nat × Nat × List Char => decide (e.2.1 < stop ∧ e.2.1 + utf8Len e.2.2 + 1 > start))
      = touches start stop := by
    funext e; simp [touches]
  have h1 : (rowsOf ws text start stop).map (·.num) =
      ((linesOf text).filter (touches start stop)).map (fun e => e.1 + 1) := by
    rw [rowsOf_eq, List.map_map]; rfl
  refine ⟨by rw [hfun]; exact h1, ?_⟩
  rw [h1, List.pairwise_map]
  exact ((linesOf_pairwise text).filter _).imp (by intro a b h; omega)

/-- The number printed for the line with index `k` (the line preceded by `k` line feeds) is `k + 1` in
decimal, right-aligned in a gutter whose width is the same for all rows, followed by ` │ `. -/
def C15_line_numbers_stmt : Prop :=
  ∀ (ws : Char → Bool) (text : List Char) (start stop : Nat) (out : List Char),
    listing ws text start stop = .ok out →
    ∃ xs, out = joinNl xs ∧ xs.length = (shownLines text start stop).length ∧
      ∀ (j : Nat) (e : Nat × Nat × List Char), (shownLines text start stop)[j]? = some e →
        ∃ pad rest, xs[j]? = some (pad ++ Nat.toDigits 10 (e.1 + 1) ++ [' ', '│', ' '] ++ rest) ∧
          (∀ c ∈ pad, c = ' ') ∧
          pad.length + (Nat.toDigits 10 (e.1 + 1)).length = gutterWidth (rowsOf ws text start stop)
theorem C15_line_numbers : C15_line_numbers_stmt := by
  intro ws text start stop out h
  obtain ⟨xs, h1, h2, h3⟩ := listing_ok_spec ws text start stop out h
  refine ⟨xs, h1, h2, ?_⟩
  intro j e hj
  obtain ⟨pre, mid, post, _, _, _, e4, e5⟩ := h3 j e hj
  refine ⟨spaces (gutterWidth (rowsOf ws text start stop) - (Nat.toDigits 10 (e.1 + 1)).length),
    (mkRow ws start stop e).line ++ '\n' :: markerRow (gutterWidth (rowsOf ws text start stop))
      (decide (j + 1 = (shownLines text start stop).length)) (mkRow ws start stop e) pre mid, ?_, ?_, ?_⟩
  · rw [e4]; simp [gutter, decimal, mkRow]
  · intro c hc; simp [spaces] at hc; exact hc.2
  · simp only [gutter, decimal, mkRow, spaces, List.length_append, List.length_replicate,
      List.length_cons, List.length_nil] at e5
    simp only [spaces, List.length_replicate]
    omega

/-- Each shown row carries, right after the gutter (`gutter width + 3` characters), the source line
with its trailing whitespace removed, and then the line feed that starts the marker row.  "Trailing
whitespace removed": what is cut off is whitespace only, and what remains does not end in
whitespace. -/
def C15_line_text_stmt : Prop :=
  (∀ (ws : Char → Bool) (text : List Char) (start stop : Nat) (out : List Char),
    listing ws text start stop = .ok out →
    ∃ xs, out = joinNl xs ∧ xs.length = (shownLines text start stop).length ∧
      ∀ (j : Nat) (e : Nat × Nat × List Char), (shownLines text start stop)[j]? = some e →
        ∃ g m, xs[j]? = some (g ++ trimEnd ws e.2.2 ++ '\n' :: m) ∧
          g.length = gutterWidth (rowsOf ws text start stop) + 3) ∧
  (∀ (ws : Char → Bool) (l : List Char), ∃ suf, l = trimEnd ws l ++ suf ∧ (∀ c ∈ suf, ws c = true) ∧
    (∀ c, (trimEnd ws l).getLast? = some c → ws c = false))
theorem C15_line_text : C15_line_text_stmt := by
  refine ⟨?_, trimEnd_spec⟩
  intro ws text start stop out h
  obtain ⟨xs, h1, h2, h3⟩ := listing_ok_spec ws text start stop out h
  refine ⟨xs, h1, h2, ?_⟩
  intro j e hj
  obtain ⟨pre, mid, post, _, _, _, e4, e5⟩ := h3 j e hj
  exact ⟨_, _, e4, e5⟩

/-- On each shown line the marked character columns are those of the section `[s, e)`: the marker row
is aligned with the text (same `gutter width + 3` prefix length) and has `‾` in column `col` exactly
when the character in column `col` of the trimmed line starts at a byte in `[s, e)`.  The section: on
the first line (`start > ls`) it is the range clipped to the trimmed line; on continuation lines it
ends where the range (clipped) ends and starts at the first non-whitespace character (or is empty
when the line is blank). -/
def C15_marks_stmt : Prop :=
  (∀ (ws : Char → Bool) (text : List Char) (start stop : Nat) (out : List Char),
    listing ws text start stop = .ok out →
    ∃ xs, out = joinNl xs ∧ xs.length = (shownLines text start stop).length ∧
      ∀ (j : Nat) (e : Nat × Nat × List Char), (shownLines text start stop)[j]? = some e →
        ∃ g m, xs[j]? = some (g ++ trimEnd ws e.2.2 ++ '\n' :: m) ∧
          g.length = gutterWidth (rowsOf ws text start stop) + 3 ∧
          ∀ col, m[gutterWidth (rowsOf ws text start stop) + 3 + col]? = some '‾' ↔
            ((section_ ws start stop e.2.1 (trimEnd ws e.2.2)).1 ≤ byteOfCol (trimEnd ws e.2.2) col ∧
              byteOfCol (trimEnd ws e.2.2) col < (section_ ws start stop e.2.1 (trimEnd ws e.2.2)).2)) ∧
  (∀ (ws : Char → Bool) (start stop ls : Nat) (t : List Char),
    (start > ls → section_ ws start stop ls t =
      (min (start - ls) (utf8Len t), min (stop - ls) (utf8Len t))) ∧
    (start ≤ ls → (section_ ws start stop ls t).2 = min (stop - ls) (utf8Len t) ∧
      (∀ f, findNonWs ws t 0 = some f → (section_ ws start stop ls t).1 = f ∧
        ∃ a c b, t = a ++ c :: b ∧ utf8Len a = f ∧ ws c = false ∧ ∀ x ∈ a, ws x = true) ∧
      (findNonWs ws t 0 = none →
        (section_ ws start stop ls t).1 = (section_ ws start stop ls t).2 ∧ ∀ x ∈ t, ws x = true)))
theorem C15_marks : C15_marks_stmt := by
  constructor
  · intro ws text start stop out h
    obtain ⟨xs, h1, h2, h3⟩ := listing_ok_spec ws text start stop out h
    refine ⟨xs, h1, h2, ?_⟩
    intro j e hj
    obtain ⟨pre, mid, post, e1, e2, e3, e4, e5⟩ := h3 j e hj
    refine ⟨_, _, e4, e5, ?_⟩
    intro col
    rw [markerRow_mark _ _ _ pre mid e2 e3 col]
    have hl : trimEnd ws e.2.2 = pre ++ mid ++ post := e1
    have hs : (section_ ws start stop e.2.1 (trimEnd ws e.2.2)).1 = utf8Len pre := e2.symm
    have he : (section_ ws start stop e.2.1 (trimEnd ws e.2.2)).2 = utf8Len pre + utf8Len mid := e3.symm
    rw [hs, he, hl]
    exact cols_iff pre mid post col
  · intro ws start stop ls t
    constructor
    · intro hgt; simp [section_, hgt]
    · intro hle
      have hn : ¬ start > ls := by omega
      refine ⟨by simp [section_, hn], ?_, ?_⟩
      · intro f hf
        refine ⟨by simp [section_, hn, hf], ?_⟩
        obtain ⟨a, c, b, e1, e2, e3, e4⟩ := findNonWs_some hf
        exact ⟨a, c, b, e1, by omega, e3, e4⟩
      · intro hf
        exact ⟨by simp [section_, hn, hf], findNonWs_none hf⟩

/-- No panic: if `start ≤ stop`, both are character boundaries of the text, and on every continuation
line (a line beginning at or after `start` and before `stop`) the range reaches at least the first
non-whitespace character, the model never returns `panic`. -/
def C15_no_panic_stmt : Prop :=
  ∀ (ws : Char → Bool) (text : List Char) (start stop : Nat),
    start ≤ stop → IsBoundary text start → IsBoundary text stop →
    (∀ e ∈ linesOf text, start ≤ e.2.1 → e.2.1 < stop →
      ∀ f, findNonWs ws (trimEnd ws e.2.2) 0 = some f → e.2.1 + f ≤ stop) →
    listing ws text start stop ≠ .panic
theorem C15_no_panic : C15_no_panic_stmt := by
  intro ws text start stop hss hbs hbe hreach hp
  obtain ⟨r, hr, hn⟩ := (listing_panic_iff ws text start stop).mp hp
  rw [rowsOf_eq] at hr
  obtain ⟨e, he, rfl⟩ := List.mem_map.mp hr
  obtain ⟨he1, he2⟩ := List.mem_filter.mp he
  apply hn
  apply mkRow_sliceable ws text start stop hss hbs hbe e he1 he2
  intro hle f hf
  have hlt : e.2.1 < stop := by
    simp only [touches, Bool.and_eq_true, decide_eq_true_eq] at he2; exact he2.1
  exact hreach e he1 hle hlt f hf

/-- In particular the ranges diagnostics carry never make the model panic: a range that starts on a
character boundary and ends right after a non-whitespace character (the end of a token). -/
def C15_no_panic_token_end_stmt : Prop :=
  ∀ (ws : Char → Bool) (a b : List Char) (c : Char) (start : Nat),
    ws c = false → start ≤ utf8Len a + c.utf8Size → IsBoundary (a ++ c :: b) start →
    listing ws (a ++ c :: b) start (utf8Len a + c.utf8Size) ≠ .panic
theorem C15_no_panic_token_end : C15_no_panic_token_end_stmt := by
  intro ws a b c start hc hss hbs
  apply C15_no_panic ws (a ++ c :: b) start _ hss hbs
  · refine ⟨a ++ [c], b, by simp, ?_⟩
    rw [utf8Len_append]; simp [utf8Len]
  · intro e he _ hlt f hf
    exact reach_of_token_end ws _ _ a b c rfl rfl hc e he hlt f hf

/-! ## Non-vacuity: concrete excerpts, evaluated by the kernel -/

def C15_ws : Char → Bool := fun c => c == ' ' || c == '\n' || c == '\t' || c == '\r'

-- `é = 1; zz` with the range of `zz` (bytes 8..10): the mark sits under `zz` (columns 7, 8), although
-- `é` is two bytes long
example : listing C15_ws ['é',' ','=',' ','1',';',' ','z','z'] 8 10 =
    .ok ['1',' ','│',' ','é',' ','=',' ','1',';',' ','z','z','\n',
         ' ',' ',' ',' ',' ',' ',' ',' ',' ',' ',' ','‾','‾'] := by decide

-- a two-line range with indentation and a CRLF line ending: `f (a,⏎    b) c` from `(` to `)`
example : listing C15_ws ['f',' ','(','a',',','\r','\n',' ',' ',' ',' ','b',')',' ','c'] 2 13 =
    .ok ['1',' ','│',' ','f',' ','(','a',',','\n',
         ' ',' ','┊',' ',' ',' ','‾','‾','‾','\n',
         '2',' ','│',' ',' ',' ',' ',' ','b',')',' ','c','\n',
         ' ',' ',' ',' ',' ',' ',' ',' ','‾','‾'] := by decide

-- an empty range in the middle of a line: the line is shown, nothing is marked
example : listing C15_ws ['a','b'] 1 1 = .ok ['1',' ','│',' ','a','b','\n',' ',' ',' '] := by decide

-- an empty range at the very start of a line shows nothing at all
example : listing C15_ws ['a','\n','b'] 2 2 = .ok [] := by decide

-- a range that is not on a character boundary of its line panics, like the Rust slice
example : listing C15_ws ['é','a'] 1 3 = .panic := by decide

-- so does a range that covers only part of the indentation of a line it starts at column 0 of
example : listing C15_ws ['\t','\t','a'] 0 1 = .panic := by decide

/-! ## The parser side: every syntax node carries the byte range of its own tokens

Statements about the 36 packrat functions of `PModel` (`Parser.lean`, the model of `src/parser.rs`),
proved in `Lemmas/ParserSpan.lean`.  They concern the tree as the `parse_*` functions return it,
*before* the three re-association passes (which rebuild chain nodes; deviation recorded as
`KF-range-paren-chain`).

Vocabulary.  `PModel.rng toks a b = span(token_source_range(a), token_source_range(b - 1))`, for
`a < b ≤ toks.size` the range from the start of token `a` to the end of token `b - 1`
(`C15_rng_tokens`).  `PModel.SegT toks nt a b t`: `t` is the parse tree of the tokens `a … b-1` derived
from `nt` — one constructor per production of `grammar.y`, each stating that the node built is
`⟨rng toks a b, group := false, …, errors := []⟩` over the children's `SegT`, binder variables carrying
`token_source_range` of their identifier token (the anonymous binder of `a -> b`: the empty range at the
start of `a`), and for `( t )` the inner node itself with `group := true` and the range extended to the
parentheses.  `PModel.Spanned toks a b t` reads the same discipline off the tree alone (range of `t` is
`rng toks a b`; the children are `Spanned` on sub-segments `[a', b')`, `a ≤ a' < b' ≤ b`, one after the
other in field order; binders are identifier tokens of the segment).  `PModel.Nested t` is the byte-level
reading: every range non-empty, children inside the parent, siblings disjoint and in source order.
`PModel.CacheInvT toks st`: every entry of the memo table satisfies the statement being proved
(the empty table does: `C15_span_exact_from_empty`). -/

/-- `rng` with explicit indexing. -/
def C15_rng_tokens_stmt : Prop :=
  ∀ (toks : Array PModel.PTok) (a b : Nat) (h1 : a < b) (h2 : b ≤ toks.size),
    PModel.rng toks a b =
      ⟨(toks[a]'(by omega)).range.start, (toks[b - 1]'(by omega)).range.stop⟩
theorem C15_rng_tokens : C15_rng_tokens_stmt := fun _ _ _ h1 h2 => PModel.rng_eq h1 h2

/-- **Span exactness.**  Whatever the nonterminal, the start position, the fuel and the (invariant)
memo table: a result without recorded error is the parse tree of the segment `[start, r.next)`, and
the memo table left behind satisfies the invariant again. -/
def C15_span_exact_stmt : Prop :=
  ∀ (toks : Array PModel.PTok) (fuel : Nat) (nt : PModel.NT) (start : Nat) (r : PModel.PResult)
    (st st' : PModel.PState),
    PModel.CacheInvT toks st → PModel.parseNT toks fuel nt start st = some (r, st') →
    PModel.collectErrors r.term = [] →
    PModel.SegT toks nt start r.next r.term ∧ PModel.CacheInvT toks st'
theorem C15_span_exact : C15_span_exact_stmt :=
  fun _ _ _ _ _ _ _ hI h hce => PModel.parse_spans hI h hce

/-- The parse phase of `parse` (`parse_term` at 0 from the empty table). -/
def C15_span_exact_from_empty_stmt : Prop :=
  (∀ toks, PModel.CacheInvT toks PModel.PState.init) ∧
  ∀ (toks : Array PModel.PTok) (r : PModel.PResult) (st : PModel.PState),
    PModel.runParser toks = some (r, st) → PModel.collectErrors r.term = [] →
    PModel.SegT toks .term 0 r.next r.term
theorem C15_span_exact_from_empty : C15_span_exact_from_empty_stmt :=
  ⟨PModel.CacheInvT.init, fun _ _ _ h hce => PModel.runParser_spans h hce⟩

/-- A parse tree of a segment is a derivation of the segment (`Seg`, the relation of C07) and obeys
the range discipline `Spanned`: the node's range is that of its own segment, recursively. -/
def C15_tree_spanned_stmt : Prop :=
  ∀ (toks : Array PModel.PTok) (nt : PModel.NT) (a b : Nat) (t : PModel.Src),
    PModel.SegT toks nt a b t →
    PModel.Seg toks nt a b ∧ PModel.Spanned toks a b t ∧ a < b ∧ b ≤ toks.size ∧
      t.range = PModel.rng toks a b
theorem C15_tree_spanned : C15_tree_spanned_stmt :=
  fun _ _ _ _ _ h => ⟨h.toSeg, h.spanned, h.spanned.bounds.1, h.spanned.bounds.2, h.range⟩

/-- The root's range starts where the first token starts and ends where the last consumed token
ends. -/
def C15_root_range_stmt : Prop :=
  ∀ (toks : Array PModel.PTok) (fuel : Nat) (nt : PModel.NT) (start : Nat) (r : PModel.PResult)
    (st st' : PModel.PState),
    PModel.CacheInvT toks st → PModel.parseNT toks fuel nt start st = some (r, st') →
    PModel.collectErrors r.term = [] →
    ∃ (h1 : start < toks.size) (h2 : r.next - 1 < toks.size), start < r.next ∧ r.next ≤ toks.size ∧
      r.term.range.start = toks[start].range.start ∧
      r.term.range.stop = toks[r.next - 1].range.stop
theorem C15_root_range : C15_root_range_stmt :=
  fun _ _ _ _ _ _ _ hI h hce => PModel.parse_root_range hI h hce

/-- Every descendant's range lies within its parent's, is non-empty, and siblings are disjoint and
in source order: on the level of token positions always (`Spanned`), on the level of byte offsets
(`Nested`) as soon as the token ranges themselves are non-empty and ordered (which the tokenizer
guarantees, `C09_ordered_disjoint`). -/
def C15_ranges_nested_stmt : Prop :=
  ∀ (toks : Array PModel.PTok) (fuel : Nat) (nt : PModel.NT) (start : Nat) (r : PModel.PResult)
    (st st' : PModel.PState),
    PModel.CacheInvT toks st → PModel.parseNT toks fuel nt start st = some (r, st') →
    PModel.collectErrors r.term = [] →
    PModel.Spanned toks start r.next r.term ∧ (PModel.TokensOrdered toks → PModel.Nested r.term)
theorem C15_ranges_nested : C15_ranges_nested_stmt :=
  fun _ _ _ _ _ _ _ hI h hce => PModel.parse_ranges_nested hI h hce

/-- The memo table is transparent: what the cache-free functions `parsePure` (the same 36 bodies
without `cache_check!`) return is what the parse phase returns.  (Used to evaluate the parser inside
the kernel, where `Std.HashMap` does not reduce.) -/
def C15_memo_transparent_stmt : Prop :=
  ∀ (toks : Array PModel.PTok) (fuel : Nat) (st0 st0' : PModel.PState) (x : PModel.PResult),
    PModel.parsePure toks fuel .term 0 st0 = some (x, st0') →
    ∃ st, PModel.runParser toks = some (x, st)
theorem C15_memo_transparent : C15_memo_transparent_stmt :=
  fun _ _ _ _ _ h => PModel.runParser_eq_pure h

/-! ### Non-vacuity: concrete token arrays, evaluated by the kernel -/

/-- The tokens of `( f x ) + 1` (bytes: `(`0 `f`2 `x`4 `)`6 `+`8 `1`10). -/
def C15_exToks : Array PModel.PTok := #[
  ⟨.leftParen, ⟨0, 1⟩⟩, ⟨.identifier 1, ⟨2, 3⟩⟩, ⟨.identifier 2, ⟨4, 5⟩⟩, ⟨.rightParen, ⟨6, 7⟩⟩,
  ⟨.plus, ⟨8, 9⟩⟩, ⟨.integerLiteral 1, ⟨10, 11⟩⟩]

-- `( f x ) + 1`: no error, all 6 tokens consumed; in preorder: the sum `0..11`; its left operand, the
-- application `f x` with `group = true` and the range of the parentheses `0..7`; `f` `2..3`; `x` `4..5`
-- (the children keep their ranges); the literal `10..11`
example : ∃ r st, PModel.runParser C15_exToks = some (r, st) ∧
    (PModel.collectErrors r.term, r.next, r.term.nodes) =
      ([], 6, [(⟨0, 11⟩, false), (⟨0, 7⟩, true), (⟨2, 3⟩, false), (⟨4, 5⟩, false),
        (⟨10, 11⟩, false)]) :=
  PModel.runParser_eval C15_exToks 60
    (fun r => (PModel.collectErrors r.term, r.next, r.term.nodes)) _ (by decide +kernel)

-- the token ranges of the example are non-empty and ordered, so the byte-level conclusion applies too
example : PModel.TokensOrdered C15_exToks := PModel.tokensOrderedB_sound (by decide)

example : ∃ r st, PModel.runParser C15_exToks = some (r, st) ∧ PModel.Nested r.term := by
  obtain ⟨r, st, h, ho⟩ := PModel.runParser_eval C15_exToks 60
    (fun r => PModel.collectErrors r.term) [] (by decide +kernel)
  exact ⟨r, st, h, (PModel.parse_ranges_nested (PModel.CacheInvT.init _) h ho).2
    (PModel.tokensOrderedB_sound (by decide))⟩

/-- The tokens of `x : t = ( y => y ) ; a -> x` (one byte per token, one space between tokens). -/
def C15_exToks2 : Array PModel.PTok := #[
  ⟨.identifier 1, ⟨0, 1⟩⟩, ⟨.colon, ⟨2, 3⟩⟩, ⟨.identifier 2, ⟨4, 5⟩⟩, ⟨.equals, ⟨6, 7⟩⟩,
  ⟨.leftParen, ⟨8, 9⟩⟩, ⟨.identifier 3, ⟨10, 11⟩⟩, ⟨.thickArrow, ⟨12, 14⟩⟩, ⟨.identifier 3, ⟨15, 16⟩⟩,
  ⟨.rightParen, ⟨17, 18⟩⟩, ⟨.terminator .semicolon, ⟨19, 20⟩⟩, ⟨.identifier 4, ⟨21, 22⟩⟩,
  ⟨.thinArrow, ⟨23, 25⟩⟩, ⟨.identifier 1, ⟨26, 27⟩⟩]

-- the let `0..27`; annotation `t` `4..5`; the grouped lambda `8..18` with its body `y` `15..16`; the
-- arrow type `21..27` with `a` `21..22` and `x` `26..27`.  Binders: `x` `0..1` (its identifier token),
-- `y` `10..11` (inside the parentheses), and the anonymous binder of `a -> x`: empty, at the start of `a`
example : ∃ r st, PModel.runParser C15_exToks2 = some (r, st) ∧
    (PModel.collectErrors r.term, r.next, r.term.nodes, r.term.binders) =
      ([], 13, [(⟨0, 27⟩, false), (⟨4, 5⟩, false), (⟨8, 18⟩, true), (⟨15, 16⟩, false),
        (⟨21, 27⟩, false), (⟨21, 22⟩, false), (⟨26, 27⟩, false)],
       [⟨0, 1⟩, ⟨10, 11⟩, ⟨21, 21⟩]) :=
  PModel.runParser_eval C15_exToks2 80
    (fun r => (PModel.collectErrors r.term, r.next, r.term.nodes, r.term.binders)) _
    (by decide +kernel)

/-! ## Type diagnostics point at the subterm whose type did not fit (table regenerated from `type_checker.rs` on every run) -/

/-- Every diagnostic of `type_check_rec` is raised by a failed `unify(&x_type, …)` and carries the source range of that very
`x` — the domain / codomain of a function type, the applicand / argument of an application, the annotation / definition of
a definition, the operand of an operator, the condition of a conditional — with the single exception of the comparison
of the two branches of a conditional, reported at the whole conditional; and every arm reports exactly the sites it is
known to report, in order.  Together with span exactness (the range of a node is its text) this is "for type errors
the range is precisely the text of the offending subexpression" at every reporting site of the checker. -/
def C15_type_error_sites_stmt : Prop := errSitesOK Generated.checkErrSites = true
theorem C15_type_error_sites : C15_type_error_sites_stmt := by unfold C15_type_error_sites_stmt; decide
