import GramModel.Lemmas.ArmsTie
import GramModel.Lemmas.Listing
import GramModel.Lemmas.ParserSpan
import GramModel.Lemmas.ResolveRanges

/-!
# C15 — diagnostics point at the offending source text (the excerpt renderer)

Statements about `Listing.listing`, the model of `listing` in `src/error.rs` (uncoloured mode), which
the harness compares with the Rust function on every generated text and range (suite `listing`).
Unicode whitespace is a parameter `ws`; every statement holds for every classification.

Vocabulary (defined in `Lemmas/Listing.lean`): `linesOf text` lists `(k, ls, l)` for every line of the
text — 0-based index, byte offset of its first character, contents — and `C15_line_table` says what
that means in terms of the text alone.  `shownLines text start stop` are the entries with
`ls < stop ∧ start < ls + len l + 1`.  `IsBoundary s n`: `n` is a character boundary of `s`.
`byteOfCol t j`: byte offset of the character in column `j` of `t`.
-/

open Listing

/-- The model always answers: a rendered excerpt or `panic` (there is no fuel to run out of). -/
def C15_total_stmt : Prop :=
  ∀ (ws : Char → Bool) (text : List Char) (start stop : Nat),
    (∃ out, listing ws text start stop = .ok out) ∨ listing ws text start stop = .panic
theorem C15_total : C15_total_stmt := by
  intro ws text start stop
  cases h : listing ws text start stop with
  | ok out => exact Or.inl ⟨out, rfl⟩
  | panic => exact Or.inr rfl

/-- `panic` is returned exactly when one of Rust's slice expressions `line[..s]`, `line[s..e]`,
`line[e..]` would panic for a recorded line: an offset that is not a character boundary of the
trimmed line, or `s > e`. -/
def C15_panic_exactly_stmt : Prop :=
  ∀ (ws : Char → Bool) (text : List Char) (start stop : Nat),
    listing ws text start stop = .panic ↔
      ∃ r ∈ rowsOf ws text start stop,
        ¬ (IsBoundary r.line r.secStart ∧ IsBoundary r.line r.secEnd ∧ r.secStart ≤ r.secEnd)
theorem C15_panic_exactly : C15_panic_exactly_stmt := listing_panic_iff

/-- What the line table means: the indices are `0, 1, …, (number of line feeds)`; entry `(k, ls, l)`
is a line-feed-free piece of the text that starts at byte `ls`, is preceded by exactly `k` line feeds,
and is delimited by line feeds or the ends of the text. -/
def C15_line_table_stmt : Prop :=
  ∀ (text : List Char),
    (linesOf text).map (·.1) = List.range (text.count '\n' + 1) ∧
    ∀ e ∈ linesOf text, '\n' ∉ e.2.2 ∧ ∃ pre post,
      text = pre ++ e.2.2 ++ post ∧ utf8Len pre = e.2.1 ∧ pre.count '\n' = e.1 ∧
      (pre = [] ∨ ∃ p, pre = p ++ ['\n']) ∧ (post = [] ∨ ∃ q, post = '\n' :: q)
theorem C15_line_table : C15_line_table_stmt := by
  intro text
  refine ⟨linesOf_index text, ?_⟩
  intro e he
  exact ⟨splitLines_no_nl text _ (lineTable_mem _ _ _ e he), linesOf_spec text e he⟩

/-- The line numbers shown are exactly the 1-based indices of the lines `[ls, le)` with
`ls < stop ∧ le + 1 > start`, in increasing order — for every range whatsoever. -/
def C15_lines_shown_stmt : Prop :=
  ∀ (ws : Char → Bool) (text : List Char) (start stop : Nat),
    (rowsOf ws text start stop).map (·.num) =
      ((linesOf text).filter
        (fun e => decide (e.2.1 < stop ∧ e.2.1 + utf8Len e.2.2 + 1 > start))).map (fun e => e.1 + 1) ∧
    List.Pairwise (· < ·) ((rowsOf ws text start stop).map (·.num))
theorem C15_lines_shown : C15_lines_shown_stmt := by
  intro ws text start stop
  have hfun : (fun e : Nat × Nat × List Char => decide (e.2.1 < stop ∧ e.2.1 + utf8Len e.2.2 + 1 > start))
      = touches start stop := by
    funext e; simp [touches]
  have h1 : (rowsOf ws text start stop).map (·.num) =
      ((linesOf text).filter (touches start stop)).map (fun e => e.1 + 1) := by
    rw [rowsOf_eq, List.map_map]; rfl
  refine ⟨by rw [hfun]; exact h1, ?_⟩
  rw [h1, List.pairwise_map]
  exact ((linesOf_pairwise text).filter _).imp (by intro a b h; omega)

/-- The number printed for the line with index `k` (the line preceded by `k` line feeds) is `k + 1` in
decimal, right-aligned in a gutter whose width is the same for all rows, followed by ` │ `. -/
def C15_line_numbers_stmt : Prop :=
  ∀ (ws : Char → Bool) (text : List Char) (start stop : Nat) (out : List Char),
    listing ws text start stop = .ok out →
    ∃ xs, out = joinNl xs ∧ xs.length = (shownLines text start stop).length ∧
      ∀ (j : Nat) (e : Nat × Nat × List Char), (shownLines text start stop)[j]? = some e →
        ∃ pad rest, xs[j]? = some (pad ++ Nat.toDigits 10 (e.1 + 1) ++ [' ', '│', ' '] ++ rest) ∧
          (∀ c ∈ pad, c = ' ') ∧
          pad.length + (Nat.toDigits 10 (e.1 + 1)).length = gutterWidth (rowsOf ws text start stop)
theorem C15_line_numbers : C15_line_numbers_stmt := by
  intro ws text start stop out h
  obtain ⟨xs, h1, h2, h3⟩ := listing_ok_spec ws text start stop out h
  refine ⟨xs, h1, h2, ?_⟩
  intro j e hj
  obtain ⟨pre, mid, post, _, _, _, e4, e5⟩ := h3 j e hj
  refine ⟨spaces (gutterWidth (rowsOf ws text start stop) - (Nat.toDigits 10 (e.1 + 1)).length),
    (mkRow ws start stop e).line ++ '\n' :: markerRow (gutterWidth (rowsOf ws text start stop))
      (decide (j + 1 = (shownLines text start stop).length)) (mkRow ws start stop e) pre mid, ?_, ?_, ?_⟩
  · rw [e4]; simp [gutter, decimal, mkRow]
  · intro c hc; simp [spaces] at hc; exact hc.2
  · simp only [gutter, decimal, mkRow, spaces, List.length_append, List.length_replicate,
      List.length_cons, List.length_nil] at e5
    simp only [spaces, List.length_replicate]
    omega

/-- Each shown row carries, right after the gutter (`gutter width + 3` characters), the source line
with its trailing whitespace removed, and then the line feed that starts the marker row.  "Trailing
whitespace removed": what is cut off is whitespace only, and what remains does not end in
whitespace. -/
def C15_line_text_stmt : Prop :=
  (∀ (ws : Char → Bool) (text : List Char) (start stop : Nat) (out : List Char),
    listing ws text start stop = .ok out →
    ∃ xs, out = joinNl xs ∧ xs.length = (shownLines text start stop).length ∧
      ∀ (j : Nat) (e : Nat × Nat × List Char), (shownLines text start stop)[j]? = some e →
        ∃ g m, xs[j]? = some (g ++ trimEnd ws e.2.2 ++ '\n' :: m) ∧
          g.length = gutterWidth (rowsOf ws text start stop) + 3) ∧
  (∀ (ws : Char → Bool) (l : List Char), ∃ suf, l = trimEnd ws l ++ suf ∧ (∀ c ∈ suf, ws c = true) ∧
    (∀ c, (trimEnd ws l).getLast? = some c → ws c = false))
theorem C15_line_text : C15_line_text_stmt := by
  refine ⟨?_, trimEnd_spec⟩
  intro ws text start stop out h
  obtain ⟨xs, h1, h2, h3⟩ := listing_ok_spec ws text start stop out h
  refine ⟨xs, h1, h2, ?_⟩
  intro j e hj
  obtain ⟨pre, mid, post, _, _, _, e4, e5⟩ := h3 j e hj
  exact ⟨_, _, e4, e5⟩

/-- On each shown line the marked character columns are those of the section `[s, e)`: the marker row
is aligned with the text (same `gutter width + 3` prefix length) and has `‾` in column `col` exactly
when the character in column `col` of the trimmed line starts at a byte in `[s, e)`.  The section: on
the first line (`start > ls`) it is the range clipped to the trimmed line; on continuation lines it
ends where the range (clipped) ends and starts at the first non-whitespace character (or is empty
when the line is blank). -/
def C15_marks_stmt : Prop :=
  (∀ (ws : Char → Bool) (text : List Char) (start stop : Nat) (out : List Char),
    listing ws text start stop = .ok out →
    ∃ xs, out = joinNl xs ∧ xs.length = (shownLines text start stop).length ∧
      ∀ (j : Nat) (e : Nat × Nat × List Char), (shownLines text start stop)[j]? = some e →
        ∃ g m, xs[j]? = some (g ++ trimEnd ws e.2.2 ++ '\n' :: m) ∧
          g.length = gutterWidth (rowsOf ws text start stop) + 3 ∧
          ∀ col, m[gutterWidth (rowsOf ws text start stop) + 3 + col]? = some '‾' ↔
            ((section_ ws start stop e.2.1 (trimEnd ws e.2.2)).1 ≤ byteOfCol (trimEnd ws e.2.2) col ∧
              byteOfCol (trimEnd ws e.2.2) col < (section_ ws start stop e.2.1 (trimEnd ws e.2.2)).2)) ∧
  (∀ (ws : Char → Bool) (start stop ls : Nat) (t : List Char),
    (start > ls → section_ ws start stop ls t =
      (min (start - ls) (utf8Len t), min (stop - ls) (utf8Len t))) ∧
    (start ≤ ls → (section_ ws start stop ls t).2 = min (stop - ls) (utf8Len t) ∧
      (∀ f, findNonWs ws t 0 = some f → (section_ ws start stop ls t).1 = f ∧
        ∃ a c b, t = a ++ c :: b ∧ utf8Len a = f ∧ ws c = false ∧ ∀ x ∈ a, ws x = true) ∧
      (findNonWs ws t 0 = none →
        (section_ ws start stop ls t).1 = (section_ ws start stop ls t).2 ∧ ∀ x ∈ t, ws x = true)))
theorem C15_marks : C15_marks_stmt := by
  constructor
  · intro ws text start stop out h
    obtain ⟨xs, h1, h2, h3⟩ := listing_ok_spec ws text start stop out h
    refine ⟨xs, h1, h2, ?_⟩
    intro j e hj
    obtain ⟨pre, mid, post, e1, e2, e3, e4, e5⟩ := h3 j e hj
    refine ⟨_, _, e4, e5, ?_⟩
    intro col
    rw [markerRow_mark _ _ _ pre mid e2 e3 col]
    have hl : trimEnd ws e.2.2 = pre ++ mid ++ post := e1
    have hs : (section_ ws start stop e.2.1 (trimEnd ws e.2.2)).1 = utf8Len pre := e2.symm
    have he : (section_ ws start stop e.2.1 (trimEnd ws e.2.2)).2 = utf8Len pre + utf8Len mid := e3.symm
    rw [hs, he, hl]
    exact cols_iff pre mid post col
  · intro ws start stop ls t
    constructor
    · intro hgt; simp [section_, hgt]
    · intro hle
      have hn : ¬ start > ls := by omega
      refine ⟨by simp [section_, hn], ?_, ?_⟩
      · intro f hf
        refine ⟨by simp [section_, hn, hf], ?_⟩
        obtain ⟨a, c, b, e1, e2, e3, e4⟩ := findNonWs_some hf
        exact ⟨a, c, b, e1, by omega, e3, e4⟩
      · intro hf
        exact ⟨by simp [section_, hn, hf], findNonWs_none hf⟩

/-- No panic: if `start ≤ stop`, both are character boundaries of the text, and on every continuation
line (a line beginning at or after `start` and before `stop`) the range reaches at least the first
non-whitespace character, the model never returns `panic`. -/
def C15_no_panic_stmt : Prop :=
  ∀ (ws : Char → Bool) (text : List Char) (start stop : Nat),
    start ≤ stop → IsBoundary text start → IsBoundary text stop →
    (∀ e ∈ linesOf text, start ≤ e.2.1 → e.2.1 < stop →
      ∀ f, findNonWs ws (trimEnd ws e.2.2) 0 = some f → e.2.1 + f ≤ stop) →
    listing ws text start stop ≠ .panic
theorem C15_no_panic : C15_no_panic_stmt := by
  intro ws text start stop hss hbs hbe hreach hp
  obtain ⟨r, hr, hn⟩ := (listing_panic_iff ws text start stop).mp hp
  rw [rowsOf_eq] at hr
  obtain ⟨e, he, rfl⟩ := List.mem_map.mp hr
  obtain ⟨he1, he2⟩ := List.mem_filter.mp he
  apply hn
  apply mkRow_sliceable ws text start stop hss hbs hbe e he1 he2
  intro hle f hf
  have hlt : e.2.1 < stop := by
    simp only [touches, Bool.and_eq_true, decide_eq_true_eq] at he2; exact he2.1
  exact hreach e he1 hle hlt f hf

/-- In particular the ranges diagnostics carry never make the model panic: a range that starts on a
character boundary and ends right after a non-whitespace character (the end of a token). -/
def C15_no_panic_token_end_stmt : Prop :=
  ∀ (ws : Char → Bool) (a b : List Char) (c : Char) (start : Nat),
    ws c = false → start ≤ utf8Len a + c.utf8Size → IsBoundary (a ++ c :: b) start →
    listing ws (a ++ c :: b) start (utf8Len a + c.utf8Size) ≠ .panic
theorem C15_no_panic_token_end : C15_no_panic_token_end_stmt := by
  intro ws a b c start hc hss hbs
  apply C15_no_panic ws (a ++ c :: b) start _ hss hbs
  · refine ⟨a ++ [c], b, by simp, ?_⟩
    rw [utf8Len_append]; simp [utf8Len]
  · intro e he _ hlt f hf
    exact reach_of_token_end ws _ _ a b c rfl rfl hc e he hlt f hf

/-! ## Non-vacuity: concrete excerpts, evaluated by the kernel -/

def C15_ws : Char → Bool := fun c => c == ' ' || c == '\n' || c == '\t' || c == '\r'

-- `é = 1; zz` with the range of `zz` (bytes 8..10): the mark sits under `zz` (columns 7, 8), although
-- `é` is two bytes long
example : listing C15_ws ['é',' ','=',' ','1',';',' ','z','z'] 8 10 =
    .ok ['1',' ','│',' ','é',' ','=',' ','1',';',' ','z','z','\n',
         ' ',' ',' ',' ',' ',' ',' ',' ',' ',' ',' ','‾','‾'] := by decide

-- a two-line range with indentation and a CRLF line ending: `f (a,⏎    b) c` from `(` to `)`
example : listing C15_ws ['f',' ','(','a',',','\r','\n',' ',' ',' ',' ','b',')',' ','c'] 2 13 =
    .ok ['1',' ','│',' ','f',' ','(','a',',','\n',
         ' ',' ','┊',' ',' ',' ','‾','‾','‾','\n',
         '2',' ','│',' ',' ',' ',' ',' ','b',')',' ','c','\n',
         ' ',' ',' ',' ',' ',' ',' ',' ','‾','‾'] := by decide

-- an empty range in the middle of a line: the line is shown, nothing is marked
example : listing C15_ws ['a','b'] 1 1 = .ok ['1',' ','│',' ','a','b','\n',' ',' ',' '] := by decide

-- an empty range at the very start of a line shows nothing at all
example : listing C15_ws ['a','\n','b'] 2 2 = .ok [] := by decide

-- a range that is not on a character boundary of its line panics, like the Rust slice
example : listing C15_ws ['é','a'] 1 3 = .panic := by decide

-- so does a range that covers only part of the indentation of a line it starts at column 0 of
example : listing C15_ws ['\t','\t','a'] 0 1 = .panic := by decide

/-! ## The parser side: every syntax node carries the byte range of its own tokens

Statements about the 36 packrat functions of `PModel` (`Parser.lean`, the model of `src/parser.rs`),
proved in `Lemmas/ParserSpan.lean`.  They concern the tree as the `parse_*` functions return it,
*before* the three re-association passes (which rebuild chain nodes; deviation recorded as
`KF-range-paren-chain`).

Vocabulary.  `PModel.rng toks a b = span(token_source_range(a), token_source_range(b - 1))`, for
`a < b ≤ toks.size` the range from the start of token `a` to the end of token `b - 1`
(`C15_rng_tokens`).  `PModel.SegT toks nt a b t`: `t` is the parse tree of the tokens `a … b-1` derived
from `nt` — one constructor per production of `grammar.y`, each stating that the node built is
`⟨rng toks a b, group := false, …, errors := []⟩` over the children's `SegT`, binder variables carrying
`token_source_range` of their identifier token (the anonymous binder of `a -> b`: the empty range at the
start of `a`), and for `( t )` the inner node itself with `group := true` and the range extended to the
parentheses.  `PModel.Spanned toks a b t` reads the same discipline off the tree alone (range of `t` is
`rng toks a b`; the children are `Spanned` on sub-segments `[a', b')`, `a ≤ a' < b' ≤ b`, one after the
other in field order; binders are identifier tokens of the segment).  `PModel.Nested t` is the byte-level
reading: every range non-empty, children inside the parent, siblings disjoint and in source order.
`PModel.CacheInvT toks st`: every entry of the memo table satisfies the statement being proved
(the empty table does: `C15_span_exact_from_empty`). -/

/-- `rng` with explicit indexing. -/
def C15_rng_tokens_stmt : Prop :=
  ∀ (toks : Array PModel.PTok) (a b : Nat) (h1 : a < b) (h2 : b ≤ toks.size),
    PModel.rng toks a b =
      ⟨(toks[a]'(by omega)).range.start, (toks[b - 1]'(by omega)).range.stop⟩
theorem C15_rng_tokens : C15_rng_tokens_stmt := fun _ _ _ h1 h2 => PModel.rng_eq h1 h2

/-- **Span exactness.**  Whatever the nonterminal, the start position, the fuel and the (invariant)
memo table: a result without recorded error is the parse tree of the segment `[start, r.next)`, and
the memo table left behind satisfies the invariant again. -/
def C15_span_exact_stmt : Prop :=
  ∀ (toks : Array PModel.PTok) (fuel : Nat) (nt : PModel.NT) (start : Nat) (r : PModel.PResult)
    (st st' : PModel.PState),
    PModel.CacheInvT toks st → PModel.parseNT toks fuel nt start st = some (r, st') →
    PModel.collectErrors r.term = [] →
    PModel.SegT toks nt start r.next r.term ∧ PModel.CacheInvT toks st'
theorem C15_span_exact : C15_span_exact_stmt :=
  fun _ _ _ _ _ _ _ hI h hce => PModel.parse_spans hI h hce

/-- The parse phase of `parse` (`parse_term` at 0 from the empty table). -/
def C15_span_exact_from_empty_stmt : Prop :=
  (∀ toks, PModel.CacheInvT toks PModel.PState.init) ∧
  ∀ (toks : Array PModel.PTok) (r : PModel.PResult) (st : PModel.PState),
    PModel.runParser toks = some (r, st) → PModel.collectErrors r.term = [] →
    PModel.SegT toks .term 0 r.next r.term
theorem C15_span_exact_from_empty : C15_span_exact_from_empty_stmt :=
  ⟨PModel.CacheInvT.init, fun _ _ _ h hce => PModel.runParser_spans h hce⟩

/-- A parse tree of a segment is a derivation of the segment (`Seg`, the relation of C07) and obeys
the range discipline `Spanned`: the node's range is that of its own segment, recursively. -/
def C15_tree_spanned_stmt : Prop :=
  ∀ (toks : Array PModel.PTok) (nt : PModel.NT) (a b : Nat) (t : PModel.Src),
    PModel.SegT toks nt a b t →
    PModel.Seg toks nt a b ∧ PModel.Spanned toks a b t ∧ a < b ∧ b ≤ toks.size ∧
      t.range = PModel.rng toks a b
theorem C15_tree_spanned : C15_tree_spanned_stmt :=
  fun _ _ _ _ _ h => ⟨h.toSeg, h.spanned, h.spanned.bounds.1, h.spanned.bounds.2, h.range⟩

/-- The root's range starts where the first token starts and ends where the last consumed token
ends. -/
def C15_root_range_stmt : Prop :=
  ∀ (toks : Array PModel.PTok) (fuel : Nat) (nt : PModel.NT) (start : Nat) (r : PModel.PResult)
    (st st' : PModel.PState),
    PModel.CacheInvT toks st → PModel.parseNT toks fuel nt start st = some (r, st') →
    PModel.collectErrors r.term = [] →
    ∃ (h1 : start < toks.size) (h2 : r.next - 1 < toks.size), start < r.next ∧ r.next ≤ toks.size ∧
      r.term.range.start = toks[start].range.start ∧
      r.term.range.stop = toks[r.next - 1].range.stop
theorem C15_root_range : C15_root_range_stmt :=
  fun _ _ _ _ _ _ _ hI h hce => PModel.parse_root_range hI h hce

/-- Every descendant's range lies within its parent's, is non-empty, and siblings are disjoint and
in source order: on the level of token positions always (`Spanned`), on the level of byte offsets
(`Nested`) as soon as the token ranges themselves are non-empty and ordered (which the tokenizer
guarantees, `C09_ordered_disjoint`). -/
def C15_ranges_nested_stmt : Prop :=
  ∀ (toks : Array PModel.PTok) (fuel : Nat) (nt : PModel.NT) (start : Nat) (r : PModel.PResult)
    (st st' : PModel.PState),
    PModel.CacheInvT toks st → PModel.parseNT toks fuel nt start st = some (r, st') →
    PModel.collectErrors r.term = [] →
    PModel.Spanned toks start r.next r.term ∧ (PModel.TokensOrdered toks → PModel.Nested r.term)
theorem C15_ranges_nested : C15_ranges_nested_stmt :=
  fun _ _ _ _ _ _ _ hI h hce => PModel.parse_ranges_nested hI h hce

/-- The memo table is transparent: what the cache-free functions `parsePure` (the same 36 bodies
without `cache_check!`) return is what the parse phase returns.  (Used to evaluate the parser inside
the kernel, where `Std.HashMap` does not reduce.) -/
def C15_memo_transparent_stmt : Prop :=
  ∀ (toks : Array PModel.PTok) (fuel : Nat) (st0 st0' : PModel.PState) (x : PModel.PResult),
    PModel.parsePure toks fuel .term 0 st0 = some (x, st0') →
    ∃ st, PModel.runParser toks = some (x, st)
theorem C15_memo_transparent : C15_memo_transparent_stmt :=
  fun _ _ _ _ _ h => PModel.runParser_eq_pure h

/-! ### Non-vacuity: concrete token arrays, evaluated by the kernel -/

/-- The tokens of `( f x ) + 1` (bytes: `(`0 `f`2 `x`4 `)`6 `+`8 `1`10). -/
def C15_exToks : Array PModel.PTok := #[
  ⟨.leftParen, ⟨0, 1⟩⟩, ⟨.identifier 1, ⟨2, 3⟩⟩, ⟨.identifier 2, ⟨4, 5⟩⟩, ⟨.rightParen, ⟨6, 7⟩⟩,
  ⟨.plus, ⟨8, 9⟩⟩, ⟨.integerLiteral 1, ⟨10, 11⟩⟩]

-- `( f x ) + 1`: no error, all 6 tokens consumed; in preorder: the sum `0..11`; its left operand, the
-- application `f x` with `group = true` and the range of the parentheses `0..7`; `f` `2..3`; `x` `4..5`
-- (the children keep their ranges); the literal `10..11`
example : ∃ r st, PModel.runParser C15_exToks = some (r, st) ∧
    (PModel.collectErrors r.term, r.next, r.term.nodes) =
      ([], 6, [(⟨0, 11⟩, false), (⟨0, 7⟩, true), (⟨2, 3⟩, false), (⟨4, 5⟩, false),
        (⟨10, 11⟩, false)]) :=
  PModel.runParser_eval C15_exToks 60
    (fun r => (PModel.collectErrors r.term, r.next, r.term.nodes)) _ (by decide +kernel)

-- the token ranges of the example are non-empty and ordered, so the byte-level conclusion applies too
example : PModel.TokensOrdered C15_exToks := PModel.tokensOrderedB_sound (by decide)

example : ∃ r st, PModel.runParser C15_exToks = some (r, st) ∧ PModel.Nested r.term := by
  obtain ⟨r, st, h, ho⟩ := PModel.runParser_eval C15_exToks 60
    (fun r => PModel.collectErrors r.term) [] (by decide +kernel)
  exact ⟨r, st, h, (PModel.parse_ranges_nested (PModel.CacheInvT.init _) h ho).2
    (PModel.tokensOrderedB_sound (by decide))⟩

/-- The tokens of `x : t = ( y => y ) ; a -> x` (one byte per token, one space between tokens). -/
def C15_exToks2 : Array PModel.PTok := #[
  ⟨.identifier 1, ⟨0, 1⟩⟩, ⟨.colon, ⟨2, 3⟩⟩, ⟨.identifier 2, ⟨4, 5⟩⟩, ⟨.equals, ⟨6, 7⟩⟩,
  ⟨.leftParen, ⟨8, 9⟩⟩, ⟨.identifier 3, ⟨10, 11⟩⟩, ⟨.thickArrow, ⟨12, 14⟩⟩, ⟨.identifier 3, ⟨15, 16⟩⟩,
  ⟨.rightParen, ⟨17, 18⟩⟩, ⟨.terminator .semicolon, ⟨19, 20⟩⟩, ⟨.identifier 4, ⟨21, 22⟩⟩,
  ⟨.thinArrow, ⟨23, 25⟩⟩, ⟨.identifier 1, ⟨26, 27⟩⟩]

-- the let `0..27`; annotation `t` `4..5`; the grouped lambda `8..18` with its body `y` `15..16`; the
-- arrow type `21..27` with `a` `21..22` and `x` `26..27`.  Binders: `x` `0..1` (its identifier token),
-- `y` `10..11` (inside the parentheses), and the anonymous binder of `a -> x`: empty, at the start of `a`
example : ∃ r st, PModel.runParser C15_exToks2 = some (r, st) ∧
    (PModel.collectErrors r.term, r.next, r.term.nodes, r.term.binders) =
      ([], 13, [(⟨0, 27⟩, false), (⟨4, 5⟩, false), (⟨8, 18⟩, true), (⟨15, 16⟩, false),
        (⟨21, 27⟩, false), (⟨21, 22⟩, false), (⟨26, 27⟩, false)],
       [⟨0, 1⟩, ⟨10, 11⟩, ⟨21, 21⟩]) :=
  PModel.runParser_eval C15_exToks2 80
    (fun r => (PModel.collectErrors r.term, r.next, r.term.nodes, r.term.binders)) _
    (by decide +kernel)

/-! ## Type diagnostics point at the subterm whose type did not fit (table regenerated from `type_checker.rs` on every run) -/

/-- Every diagnostic of `type_check_rec` is raised by a failed `unify(&x_type, …)` and carries the source range of that very
`x` — the domain / codomain of a function type, the applicand / argument of an application, the annotation / definition of
a definition, the operand of an operator, the condition of a conditional — with the single exception of the comparison
of the two branches of a conditional, reported at the whole conditional; and every arm reports exactly the sites it is
known to report, in order.  Together with span exactness (the range of a node is its text) this is "for type errors
the range is precisely the text of the offending subexpression" at every reporting site of the checker. -/
def C15_type_error_sites_stmt : Prop := errSitesOK Generated.checkErrSites = true
theorem C15_type_error_sites : C15_type_error_sites_stmt := by unfold C15_type_error_sites_stmt; decide


/-! ## Scoping diagnostics: which range `resolve_variables` reports, when, and in which order

Statements about `PModel.resolve` / `PModel.resolveAux` (the model of `resolve_variables` in
`src/parser.rs`), proved in `Lemmas/ResolveRanges.lean`.

Vocabulary.  `PModel.events t chain` is the sequence of *scope events* of the resolver on `t` in the order
in which they happen: `Ev.var r x` (a variable node of range `r`), `Ev.bind v` (entry of a binder — λ, Π, or
a definition of a group; `v.range` is the range of the binder's identifier), `Ev.unbind x` (a scope guard
removes `x`).  For a group all `bind` events of the flattened group come first, then annotation and definition
of each member in source order, then the body, then the `unbind`s.  `PModel.runE evs B` interprets a sequence
from the set of bound names `B`: a `var` event reports `r` iff `x` is not the placeholder and not bound at
that point; a `bind` event reports `v.range` iff `v.name` is not the placeholder and bound at that point
(`C15_scope_error_classified`); nothing else reports.  Every report is a one-range listing `[r]`.
`PModel.varRanges t` / `PModel.binderRanges t`: the ranges of the non-placeholder variable nodes / binder
identifiers of `t`, by structural recursion.  `PModel.traversalRanges t`: the candidate ranges in event
order. -/

/-- **Exactness** (C08 at range level).  In any context and at any depth, `resolve` appends to the error list
exactly what the event interpretation reports on the tree, starting from the keys of the current context. -/
def C15_scope_errors_exact_stmt : Prop :=
  ∀ (t : PModel.Src) (depth : Nat) (st st' : PModel.RState) (r : PModel.RTm),
    PModel.resolve t depth st = some (r, st') →
    st'.errors = st.errors ++
      (PModel.runE (PModel.events t false) (PModel.Ctx.keys st.ctx)).map (fun r => [r])
theorem C15_scope_errors_exact : C15_scope_errors_exact_stmt :=
  fun _ _ _ _ _ h => PModel.resolve_errors_exact h

/-- What the interpretation reports: exactly the unbound variable occurrences (range of the variable node)
and the re-bound binders (range of the binder's identifier), placeholders never. -/
def C15_scope_error_classified_stmt : Prop :=
  ∀ (evs : List PModel.Ev) (B : PModel.Bound) (r : PModel.SourceRange),
    r ∈ PModel.runE evs B ↔
      (∃ pre post x, evs = pre ++ .var r x :: post ∧ x ≠ PModel.placeholder ∧
        PModel.runB pre B x = false) ∨
      (∃ pre post v, evs = pre ++ .bind v :: post ∧ v.name ≠ PModel.placeholder ∧
        PModel.runB pre B v.name = true ∧ r = v.range)
theorem C15_scope_error_classified : C15_scope_error_classified_stmt := PModel.mem_runE

/-- Every error recorded by the resolver on `t` (any context, any depth, any chain position) is a one-range
listing whose range is that of a variable node of `t` or the identifier range of a binder of `t`. -/
def C15_scope_error_ranges_stmt : Prop :=
  ∀ (t : PModel.Src) (chain : Option (Nat × Nat)) (depth : Nat) (st st' : PModel.RState)
    (res : PModel.RDefs × PModel.RTm),
    PModel.resolveAux t chain depth st = some (res, st') →
    ∃ new : List PModel.PErr, st'.errors = st.errors ++ new ∧
      ∀ e ∈ new, ∃ r, e = [r] ∧ (r ∈ PModel.varRanges t ∨ r ∈ PModel.binderRanges t)
theorem C15_scope_error_ranges : C15_scope_error_ranges_stmt := by
  intro t chain depth st st' res h
  obtain ⟨rs, h1, h2⟩ := PModel.resolveAux_errors_ranges h
  refine ⟨_, h1, fun e he => ?_⟩
  obtain ⟨r, hr, rfl⟩ := List.mem_map.1 he
  exact ⟨r, rfl, h2 r hr⟩

/-- The errors are recorded in traversal order: the new ranges form a sublist of `traversalRanges t`.
(This is *not* source order for a group: all the names of the group are registered before any annotation or
definition is resolved — see the example `a = u; a = v; w` below.) -/
def C15_scope_errors_in_traversal_order_stmt : Prop :=
  ∀ (t : PModel.Src) (depth : Nat) (st st' : PModel.RState) (r : PModel.RTm),
    PModel.resolve t depth st = some (r, st') →
    ∃ rs : List PModel.SourceRange, st'.errors = st.errors ++ rs.map (fun r => [r]) ∧
      rs.Sublist (PModel.traversalRanges t) ∧
      ∀ r ∈ rs, r ∈ PModel.varRanges t ∨ r ∈ PModel.binderRanges t
theorem C15_scope_errors_in_traversal_order : C15_scope_errors_in_traversal_order_stmt :=
  fun _ _ _ _ _ h => PModel.resolve_errors_sublist h

/-- The three re-association passes between parsing and resolution do not change the event sequence (they
re-bracket chains; events are a list). -/
def C15_reassoc_keeps_events_stmt : Prop :=
  ∀ (t t1 t2 t3 : PModel.Src), PModel.reassociateApplications t = some t1 →
    PModel.reassociateProductsAndQuotients t1 = some t2 →
    PModel.reassociateSumsAndDifferences t2 = some t3 →
    PModel.events t3 false = PModel.events t false
theorem C15_reassoc_keeps_events : C15_reassoc_keeps_events_stmt :=
  fun _ _ _ _ h1 h2 h3 => PModel.reassoc_passes_events h1 h2 h3

/-- The statement as first written: every scoping range of a parsed program is exactly the range of an
identifier token.  **False**: `parse_group` returns the inner node with the range of the parentheses, so for
a parenthesised variable `(y)` the "not in scope" diagnostic underlines `(y)`. -/
def C15_scope_error_is_identifier_unrestricted : Prop :=
  ∀ (toks : Array PModel.PTok) (nt : PModel.NT) (a b : Nat) (s s1 s2 s3 : PModel.Src) (depth : Nat)
    (st st' : PModel.RState) (r : PModel.RTm),
    PModel.SegT toks nt a b s → PModel.reassociateApplications s = some s1 →
    PModel.reassociateProductsAndQuotients s1 = some s2 →
    PModel.reassociateSumsAndDifferences s2 = some s3 →
    PModel.resolve s3 depth st = some (r, st') →
    ∃ new : List PModel.PErr, st'.errors = st.errors ++ new ∧
      ∀ e ∈ new, ∃ (i : Nat) (hi : i < toks.size) (x : Name), a ≤ i ∧ i < b ∧
        toks[i].kind = .identifier x ∧ e = [toks[i].range]

/-- The tokens of `(y)` (bytes: `(`0 `y`1 `)`2). -/
def C15_parenToks : Array PModel.PTok := #[
  ⟨.leftParen, ⟨0, 1⟩⟩, ⟨.identifier 1, ⟨1, 2⟩⟩, ⟨.rightParen, ⟨2, 3⟩⟩]

theorem C15_parenToks_no_0_3 :
    ∀ i : Fin C15_parenToks.size, C15_parenToks[i].range ≠ ⟨0, 3⟩ := by decide

theorem C15_scope_error_is_identifier_refuted : ¬ C15_scope_error_is_identifier_unrestricted := by
  intro H
  obtain ⟨r, st, hr, ho⟩ := PModel.runParser_eval C15_parenToks 40
    (fun r => (PModel.collectErrors r.term, r.next, PModel.scopeErrorsOf r.term []))
    ([], 3, some [[⟨0, 3⟩]]) (by decide +kernel)
  simp only [Prod.mk.injEq] at ho
  obtain ⟨hce, hn, hse⟩ := ho
  have hseg := PModel.runParser_spans hr hce
  rw [hn] at hseg
  obtain ⟨t1, t2, t3, res, st', h1, h2, h3, h4, h5⟩ := PModel.scopeErrorsOf_some hse
  obtain ⟨new, hnew, hall⟩ := H _ _ _ _ _ _ _ _ _ _ _ _ hseg h1 h2 h3 h4
  simp only [List.nil_append] at hnew
  rw [h5] at hnew; subst hnew
  obtain ⟨i, hi, x, _, _, _, he⟩ := hall _ (List.mem_singleton.2 rfl)
  exact C15_parenToks_no_0_3 ⟨i, hi⟩ (by simpa using he.symm)

/-- **Corrected statement.**  For a tree `s` that is the parse tree of the tokens `[a, b)`, re-associated and
then resolved (any context, any depth): every scoping error is a one-range listing, the ranges come in the
traversal order of `s`, and each range is `ScopeRange toks a b`: either the segment
`( … ( x ) … )` of an identifier token `x` of `[a, b)` wrapped in `k ≥ 0` pairs of parentheses (an unbound
variable: `k = 0` is the bare identifier token), or the identifier token of a binder of `[a, b)`
(a re-bound name). -/
def C15_scope_error_is_identifier_fixed_stmt : Prop :=
  ∀ (toks : Array PModel.PTok) (nt : PModel.NT) (a b : Nat) (s s1 s2 s3 : PModel.Src) (depth : Nat)
    (st st' : PModel.RState) (r : PModel.RTm),
    PModel.SegT toks nt a b s → PModel.reassociateApplications s = some s1 →
    PModel.reassociateProductsAndQuotients s1 = some s2 →
    PModel.reassociateSumsAndDifferences s2 = some s3 →
    PModel.resolve s3 depth st = some (r, st') →
    ∃ rs : List PModel.SourceRange, st'.errors = st.errors ++ rs.map (fun r => [r]) ∧
      rs.Sublist (PModel.traversalRanges s) ∧
      ∀ r ∈ rs,
        (∃ lo hi x k, a ≤ lo ∧ hi ≤ b ∧ hi = lo + 2 * k + 1 ∧
          PModel.KAt toks (lo + k) (.identifier x) ∧
          (∀ j, j < k → PModel.KAt toks (lo + j) .leftParen ∧ PModel.KAt toks (hi - 1 - j) .rightParen) ∧
          r = PModel.rng toks lo hi) ∨
        (∃ (i : Nat) (hi : i < toks.size) (x : Name), a ≤ i ∧ i < b ∧
          toks[i].kind = .identifier x ∧ r = toks[i].range)
theorem C15_scope_error_is_identifier_fixed : C15_scope_error_is_identifier_fixed_stmt := by
  intro toks nt a b s s1 s2 s3 depth st st' r hs h1 h2 h3 h
  obtain ⟨rs, e1, e2, e3⟩ := PModel.parsed_scope_errors hs h1 h2 h3 h
  refine ⟨rs, e1, e2, fun r hr => ?_⟩
  rcases e3 r hr with ⟨lo, hi, x, p1, p2, ⟨k, q1, q2, q3⟩, p4⟩ | ⟨i, x, p1, p2, ⟨hlt, hk⟩, rfl⟩
  · exact Or.inl ⟨lo, hi, x, k, p1, p2, q1, q2, q3, p4⟩
  · exact Or.inr ⟨i, hlt, x, p1, p2, hk, PModel.tokenRange_lt hlt⟩

/-- Where no identifier stands alone between parentheses (`( x )` does not occur in the token array), the
original statement holds: every scoping range is exactly the range of an identifier token of `[a, b)`. -/
def C15_scope_error_is_identifier_stmt : Prop :=
  ∀ (toks : Array PModel.PTok) (nt : PModel.NT) (a b : Nat) (s s1 s2 s3 : PModel.Src) (depth : Nat)
    (st st' : PModel.RState) (r : PModel.RTm),
    (∀ i x, PModel.KAt toks i .leftParen → PModel.KAt toks (i + 1) (.identifier x) →
      PModel.KAt toks (i + 2) .rightParen → False) →
    PModel.SegT toks nt a b s → PModel.reassociateApplications s = some s1 →
    PModel.reassociateProductsAndQuotients s1 = some s2 →
    PModel.reassociateSumsAndDifferences s2 = some s3 →
    PModel.resolve s3 depth st = some (r, st') →
    ∃ new : List PModel.PErr, st'.errors = st.errors ++ new ∧
      ∀ e ∈ new, ∃ (i : Nat) (hi : i < toks.size) (x : Name), a ≤ i ∧ i < b ∧
        toks[i].kind = .identifier x ∧ e = [toks[i].range]
theorem C15_scope_error_is_identifier : C15_scope_error_is_identifier_stmt := by
  intro toks nt a b s s1 s2 s3 depth st st' r hn hs h1 h2 h3 h
  obtain ⟨rs, e1, _, e3⟩ := PModel.parsed_scope_errors hs h1 h2 h3 h
  refine ⟨_, e1, fun e he => ?_⟩
  obtain ⟨r, hr, rfl⟩ := List.mem_map.1 he
  obtain ⟨i, hi, x, p1, p2, p3, p4⟩ := (e3 r hr).ident hn
  exact ⟨i, hi, x, p1, p2, p3, by rw [p4]⟩

/-! ### Non-vacuity: programs with scoping errors, evaluated by the kernel

Each example runs the parse phase (cache-free twin, `C15_memo_transparent`), checks that no syntax error was
recorded and all tokens were consumed, and then `scopeErrorsOf` = the three passes + `resolve` from the empty
context. -/

/-- The tokens of `x => y` (bytes: `x`0 `=>`2 `y`5). -/
def C15_scopeToks1 : Array PModel.PTok := #[
  ⟨.identifier 1, ⟨0, 1⟩⟩, ⟨.thickArrow, ⟨2, 4⟩⟩, ⟨.identifier 2, ⟨5, 6⟩⟩]

-- unbound `y`: one error, the range of the `y` token
example : ∃ r st, PModel.runParser C15_scopeToks1 = some (r, st) ∧
    (PModel.collectErrors r.term, r.next, PModel.scopeErrorsOf r.term []) =
      ([], 3, some [[⟨5, 6⟩]]) :=
  PModel.runParser_eval C15_scopeToks1 40
    (fun r => (PModel.collectErrors r.term, r.next, PModel.scopeErrorsOf r.term [])) _
    (by decide +kernel)

/-- The tokens of `(x : int) => (x : int) => x`
(bytes: `(`0 `x`1 `:`3 `int`5 `)`8 `=>`10 `(`13 `x`14 `:`16 `int`18 `)`21 `=>`23 `x`26). -/
def C15_scopeToks2 : Array PModel.PTok := #[
  ⟨.leftParen, ⟨0, 1⟩⟩, ⟨.identifier 1, ⟨1, 2⟩⟩, ⟨.colon, ⟨3, 4⟩⟩, ⟨.integer, ⟨5, 8⟩⟩,
  ⟨.rightParen, ⟨8, 9⟩⟩, ⟨.thickArrow, ⟨10, 12⟩⟩,
  ⟨.leftParen, ⟨13, 14⟩⟩, ⟨.identifier 1, ⟨14, 15⟩⟩, ⟨.colon, ⟨16, 17⟩⟩, ⟨.integer, ⟨18, 21⟩⟩,
  ⟨.rightParen, ⟨21, 22⟩⟩, ⟨.thickArrow, ⟨23, 25⟩⟩, ⟨.identifier 1, ⟨26, 27⟩⟩]

-- re-bound `x`: one error, the range of the second binder's identifier token
example : ∃ r st, PModel.runParser C15_scopeToks2 = some (r, st) ∧
    (PModel.collectErrors r.term, r.next, PModel.scopeErrorsOf r.term []) =
      ([], 13, some [[⟨14, 15⟩]]) :=
  PModel.runParser_eval C15_scopeToks2 80
    (fun r => (PModel.collectErrors r.term, r.next, PModel.scopeErrorsOf r.term [])) _
    (by decide +kernel)

/-- The tokens of `a = 1; a = 2; a` (bytes: `a`0 `=`2 `1`4 `;`5 `a`7 `=`9 `2`11 `;`12 `a`14). -/
def C15_scopeToks3 : Array PModel.PTok := #[
  ⟨.identifier 1, ⟨0, 1⟩⟩, ⟨.equals, ⟨2, 3⟩⟩, ⟨.integerLiteral 1, ⟨4, 5⟩⟩,
  ⟨.terminator .semicolon, ⟨5, 6⟩⟩,
  ⟨.identifier 1, ⟨7, 8⟩⟩, ⟨.equals, ⟨9, 10⟩⟩, ⟨.integerLiteral 2, ⟨11, 12⟩⟩,
  ⟨.terminator .semicolon, ⟨12, 13⟩⟩, ⟨.identifier 1, ⟨14, 15⟩⟩]

-- a group defining `a` twice: one error, the range of the second `a` on the left of `=`
example : ∃ r st, PModel.runParser C15_scopeToks3 = some (r, st) ∧
    (PModel.collectErrors r.term, r.next, PModel.scopeErrorsOf r.term []) =
      ([], 9, some [[⟨7, 8⟩]]) :=
  PModel.runParser_eval C15_scopeToks3 80
    (fun r => (PModel.collectErrors r.term, r.next, PModel.scopeErrorsOf r.term [])) _
    (by decide +kernel)

/-- The tokens of `a = u; a = v; w` (same layout, `u` `v` `w` unbound). -/
def C15_scopeToks4 : Array PModel.PTok := #[
  ⟨.identifier 1, ⟨0, 1⟩⟩, ⟨.equals, ⟨2, 3⟩⟩, ⟨.identifier 2, ⟨4, 5⟩⟩,
  ⟨.terminator .semicolon, ⟨5, 6⟩⟩,
  ⟨.identifier 1, ⟨7, 8⟩⟩, ⟨.equals, ⟨9, 10⟩⟩, ⟨.identifier 3, ⟨11, 12⟩⟩,
  ⟨.terminator .semicolon, ⟨12, 13⟩⟩, ⟨.identifier 4, ⟨14, 15⟩⟩]

-- traversal order is not source order: the duplicate name `a` (byte 7) is reported *before* the unbound `u`
-- (byte 4), because the names of a group are registered before its definitions are resolved
example : ∃ r st, PModel.runParser C15_scopeToks4 = some (r, st) ∧
    (PModel.collectErrors r.term, r.next, PModel.scopeErrorsOf r.term [],
      PModel.traversalRanges r.term) =
      ([], 9, some [[⟨7, 8⟩], [⟨4, 5⟩], [⟨11, 12⟩], [⟨14, 15⟩]],
        [⟨0, 1⟩, ⟨7, 8⟩, ⟨4, 5⟩, ⟨11, 12⟩, ⟨14, 15⟩]) :=
  PModel.runParser_eval C15_scopeToks4 80
    (fun r => (PModel.collectErrors r.term, r.next, PModel.scopeErrorsOf r.term [],
      PModel.traversalRanges r.term)) _
    (by decide +kernel)

/-- "The scoping errors of a program come in source order" — **false** for a group (example above). -/
def C15_scope_errors_in_source_order_unrestricted : Prop :=
  ∀ (toks : Array PModel.PTok) (r : PModel.PResult) (st : PModel.PState) (es : List PModel.PErr),
    PModel.runParser toks = some (r, st) → PModel.collectErrors r.term = [] →
    PModel.scopeErrorsOf r.term [] = some es →
    es.Pairwise (fun e1 e2 => ∀ r1 ∈ e1, ∀ r2 ∈ e2, r1.start ≤ r2.start)

theorem C15_scope_errors_in_source_order_refuted : ¬ C15_scope_errors_in_source_order_unrestricted := by
  intro H
  obtain ⟨r, st, hr, ho⟩ := PModel.runParser_eval C15_scopeToks4 80
    (fun r => (PModel.collectErrors r.term, PModel.scopeErrorsOf r.term []))
    ([], some [[⟨7, 8⟩], [⟨4, 5⟩], [⟨11, 12⟩], [⟨14, 15⟩]]) (by decide +kernel)
  simp only [Prod.mk.injEq] at ho
  have := H _ _ _ _ hr ho.1 ho.2
  revert this
  decide

-- the counterexample of `C15_scope_error_is_identifier_refuted`: `(y)` reports the range of the group `0..3`
example : ∃ r st, PModel.runParser C15_parenToks = some (r, st) ∧
    (PModel.collectErrors r.term, r.next, PModel.scopeErrorsOf r.term []) =
      ([], 3, some [[⟨0, 3⟩]]) :=
  PModel.runParser_eval C15_parenToks 40
    (fun r => (PModel.collectErrors r.term, r.next, PModel.scopeErrorsOf r.term [])) _
    (by decide +kernel)

theorem C15_scopeToks1_no_paren :
    ∀ i : Fin C15_scopeToks1.size, C15_scopeToks1[i].kind ≠ .leftParen := by decide

-- the hypothesis of `C15_scope_error_is_identifier` holds of the first example's tokens
example : ∀ i x, PModel.KAt C15_scopeToks1 i .leftParen → PModel.KAt C15_scopeToks1 (i + 1) (.identifier x) →
    PModel.KAt C15_scopeToks1 (i + 2) .rightParen → False := by
  intro i x ⟨h, hk⟩ _ _
  exact C15_scopeToks1_no_paren ⟨i, h⟩ hk
