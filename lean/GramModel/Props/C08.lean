import GramModel.Parser
import GramModel.Lemmas.Names

/-!
# C08 — every variable occurrence is bound to the right binder

`toDB` is the specification: resolution over a binder **stack** (innermost first; a `_` binder
occupies an anonymous slot).  The model `PModel.resolveAux` instead mirrors the Rust: a name→depth
map with `insert`/`remove` where the scope guards run, `depth - 1 - variable_depth`, `depth + i`,
`new_depth`.  Hole identities are irrelevant to binding; both sides are compared with hole ids
erased.
-/

open PModel

-- forget hole identities
mutual
def eraseHoleIds : Tm → Tm
  | .hole _ s => .hole 0 s
  | .lam x im d b => .lam x im (eraseHoleIds d) (eraseHoleIds b)
  | .pi x im d b => .pi x im (eraseHoleIds d) (eraseHoleIds b)
  | .app f a => .app (eraseHoleIds f) (eraseHoleIds a)
  | .letg ds b => .letg (eraseHoleIdsDefs ds) (eraseHoleIds b)
  | .neg a => .neg (eraseHoleIds a)
  | .bin op a b => .bin op (eraseHoleIds a) (eraseHoleIds b)
  | .ite c a b => .ite (eraseHoleIds c) (eraseHoleIds a) (eraseHoleIds b)
  | t => t
def eraseHoleIdsDefs : Defs → Defs
  | .nil => .nil
  | .cons x a d r => .cons x (eraseHoleIds a) (eraseHoleIds d) (eraseHoleIdsDefs r)
end

abbrev Stack := List (Option Name)

/-- the index of the innermost binder named `x` -/
def Stack.index (Γ : Stack) (x : Name) : Option Nat := Γ.findIdx? (· == some x)

/-- entering a binder named `x`: `_` adds an anonymous slot; a name already in scope is an error -/
def Stack.bind (Γ : Stack) (x : Name) : Option Stack :=
  if x = placeholder then some (none :: Γ)
  else if (Γ.index x).isSome then none else some (some x :: Γ)

/-- the names of a chain of nested lets (following the body chain), in source order -/
def letNames : Src → List Name
  | .mk _ _ (.let_ x _ _ body) _ => x.name :: letNames body
  | _ => []

/-- push the names of a group, in source order (so that the last definition is index 0) -/
def Stack.bindAll (Γ : Stack) : List Name → Option Stack
  | [] => some Γ
  | x :: xs => match Γ.bind x with
    | none => none
    | some Γ' => Stack.bindAll Γ' xs

-- The specification.  `toDBChain Γ n i t`: `t` is what follows definition `i - 1` of a group of `n`
-- definitions whose names are all already on the stack `Γ`.  (`toDBV` is `toDB` on the variant; the
-- split keeps the recursion structural over the mutual `Src`/`SrcV`/`OptSrc`.)
mutual
def toDB (Γ : Stack) (t : Src) : Option Tm :=
  match t with
  | .mk _ _ v _ => toDBV Γ v
def toDBV (Γ : Stack) (v : SrcV) : Option Tm :=
  match v with
  | .parseError => none
  | .type => some .type
  | .int => some .int
  | .bool => some .bool
  | .tt => some .tt
  | .ff => some .ff
  | .lit n => some (.lit n)
  | .var x =>
      if x = placeholder then some (.hole 0 0)
      else match Γ.index x with
        | some i => some (.var x i)
        | none => none
  | .lam x im dom body =>
      match toDBOpt Γ dom, Γ.bind x.name with
      | some d, some Γ' =>
        match toDB Γ' body with
        | some b => some (.lam x.name im d b)
        | none => none
      | _, _ => none
  | .pi x im dom cod =>
      match toDB Γ dom, Γ.bind x.name with
      | some d, some Γ' =>
        match toDB Γ' cod with
        | some c => some (.pi x.name im d c)
        | none => none
      | _, _ => none
  | .app f a =>
      match toDB Γ f, toDB Γ a with
      | some f', some a' => some (.app f' a')
      | _, _ => none
  | .let_ x ann defn body =>
      let names := x.name :: letNames body
      match Γ.bindAll names with
      | none => none
      | some Γ' =>
        match toDBAnn Γ' ann names.length 0, toDB Γ' defn, toDBChain Γ' names.length 1 body with
        | some a, some d, some (rest, b) => some (.letg (.cons x.name a d rest) b)
        | _, _, _ => none
  | .neg a => match toDB Γ a with | some a' => some (.neg a') | none => none
  | .bin op a b =>
      match toDB Γ a, toDB Γ b with
      | some a', some b' => some (.bin op a' b')
      | _, _ => none
  | .ite c a b =>
      match toDB Γ c, toDB Γ a, toDB Γ b with
      | some c', some a', some b' => some (.ite c' a' b')
      | _, _, _ => none
def toDBChain (Γ : Stack) (n i : Nat) (t : Src) : Option (Defs × Tm) :=
  match t with
  | .mk _ _ v _ => toDBChainV Γ n i v
def toDBChainV (Γ : Stack) (n i : Nat) (v : SrcV) : Option (Defs × Tm) :=
  match v with
  | .let_ x ann defn body =>
      match toDBAnn Γ ann n i, toDB Γ defn, toDBChain Γ n (i + 1) body with
      | some a, some d, some (rest, b) => some (.cons x.name a d rest, b)
      | _, _, _ => none
  | .parseError => none
  | .type => some (.nil, .type)
  | .int => some (.nil, .int)
  | .bool => some (.nil, .bool)
  | .tt => some (.nil, .tt)
  | .ff => some (.nil, .ff)
  | .lit k => some (.nil, .lit k)
  | .var x =>
      if x = placeholder then some (.nil, .hole 0 0)
      else match Γ.index x with
        | some j => some (.nil, .var x j)
        | none => none
  | .lam x im dom body =>
      match toDBOpt Γ dom, Γ.bind x.name with
      | some d, some Γ' =>
        match toDB Γ' body with
        | some b => some (.nil, .lam x.name im d b)
        | none => none
      | _, _ => none
  | .pi x im dom cod =>
      match toDB Γ dom, Γ.bind x.name with
      | some d, some Γ' =>
        match toDB Γ' cod with
        | some c => some (.nil, .pi x.name im d c)
        | none => none
      | _, _ => none
  | .app f a =>
      match toDB Γ f, toDB Γ a with
      | some f', some a' => some (.nil, .app f' a')
      | _, _ => none
  | .neg a => match toDB Γ a with | some a' => some (.nil, .neg a') | none => none
  | .bin op a b =>
      match toDB Γ a, toDB Γ b with
      | some a', some b' => some (.nil, .bin op a' b')
      | _, _ => none
  | .ite c a b =>
      match toDB Γ c, toDB Γ a, toDB Γ b with
      | some c', some a', some b' => some (.nil, .ite c' a' b')
      | _, _, _ => none
def toDBOpt (Γ : Stack) (o : OptSrc) : Option Tm :=
  match o with
  | .none => some (.hole 0 0)
  | .some t => toDB Γ t
-- an omitted annotation of definition `i` of `n` is a hole that lives outside the group
def toDBAnn (Γ : Stack) (o : OptSrc) (n i : Nat) : Option Tm :=
  match o with
  | .none => some (.hole 0 (n - i))
  | .some t => toDB Γ t
end

/-- the innermost body of a chain is resolved like any other term -/
def C08_chain_body_is_toDB_stmt : Prop :=
  ∀ (Γ : Stack) (n i : Nat) (v : SrcV), (∀ x a d b, v ≠ .let_ x a d b) →
    toDBChainV Γ n i v = (toDBV Γ v).map (fun t => (Defs.nil, t))
theorem C08_chain_body_is_toDB : C08_chain_body_is_toDB_stmt := by
  intro Γ n i v hv
  cases v <;> simp only [toDBChainV, toDBV, Option.map] <;> (try (exact absurd rfl (hv _ _ _ _)))
    <;> (repeat' split) <;> simp_all

/-- the name→depth map describes the stack: `x ↦ d` iff the binder at stack index `|Γ| - 1 - d`
is `x` and no inner binder has the same name -/
def CtxAgrees (c : Ctx) (Γ : Stack) : Prop :=
  ∀ x : Name, x ≠ placeholder → c.get x = (Γ.index x).map (fun i => Γ.length - 1 - i)

/-! ### Proof machinery: the stack, the invariant, the binder steps, and the main induction -/

theorem Stack.index_cons (a : Option Name) (Γ : Stack) (x : Name) :
    Stack.index (a :: Γ) x = if a = some x then some 0 else (Stack.index Γ x).map (· + 1) := by
  simp only [Stack.index, List.findIdx?_cons]
  by_cases h : a = some x <;> simp [h]

theorem Stack.index_lt : ∀ (Γ : Stack) (x : Name) (i : Nat), Stack.index Γ x = some i → i < Γ.length
  | [], x, i, h => by simp [Stack.index] at h
  | a :: Γ, x, i, h => by
      rw [Stack.index_cons] at h
      split at h
      · simp at h; subst h; simp
      · cases h' : Stack.index Γ x with
        | none => simp [h'] at h
        | some j =>
          simp [h'] at h; subst h
          have := Stack.index_lt Γ x j h'
          simp; omega

/-- the stack slot a binder named `x` occupies -/
def slot (x : Name) : Option Name := if x = placeholder then none else some x

theorem Stack.bind_eq (Γ : Stack) (x : Name) :
    Stack.bind Γ x = if x ≠ placeholder ∧ (Stack.index Γ x).isSome then none else some (slot x :: Γ) := by
  unfold Stack.bind slot
  by_cases h : x = placeholder
  · simp [h]
  · by_cases h2 : (Stack.index Γ x).isSome <;> simp [h, h2]

/-- `CtxAgrees`, plus (when `p` holds) the placeholder is not a key of the map. -/
def RInv (p : Prop) (c : Ctx) (Γ : Stack) : Prop :=
  CtxAgrees c Γ ∧ (p → c.get placeholder = none)

theorem RInv.anon {p : Prop} {c : Ctx} {Γ : Stack} (h : RInv p c Γ) : RInv p c (none :: Γ) := by
  refine ⟨?_, h.2⟩
  intro y hy
  rw [h.1 y hy, Stack.index_cons]
  cases hi : Stack.index Γ y with
  | none => simp
  | some i => simp; omega

theorem RInv.insert {p : Prop} {c : Ctx} {Γ : Stack} {x : Name} (h : RInv p c Γ)
    (hx : x ≠ placeholder) (hi : Stack.index Γ x = none) :
    RInv p (c.insert x Γ.length) (some x :: Γ) := by
  refine ⟨?_, ?_⟩
  · intro y hy
    rw [Ctx.get_insert, Stack.index_cons]
    by_cases hyx : y = x
    · subst hyx; simp
    · have : ¬ (some x = some y) := by simp; exact fun e => hyx e.symm
      rw [if_neg hyx, if_neg this, h.1 y hy]
      cases hi : Stack.index Γ y with
      | none => simp
      | some i => simp; omega
  · intro hp
    rw [Ctx.get_insert, if_neg (fun e => hx e.symm)]
    exact h.2 hp

theorem RInv.remove_slot {p : Prop} {c : Ctx} {Γ : Stack} {x : Name} (h : RInv p c (slot x :: Γ))
    (hi : x ≠ placeholder → Stack.index Γ x = none) : RInv p (c.remove x) Γ := by
  refine ⟨?_, ?_⟩
  · intro y hy
    rw [Ctx.get_remove]
    by_cases hyx : y = x
    · subst hyx; simp [hi hy]
    · rw [if_neg hyx, h.1 y hy, Stack.index_cons]
      have : ¬ (slot x = some y) := by
        unfold slot; split <;> simp; exact fun e => hyx e.symm
      rw [if_neg this]
      cases hi : Stack.index Γ y with
      | none => simp
      | some i => simp; omega
  · intro hp
    rw [Ctx.get_remove]; split
    · rfl
    · exact h.2 hp

theorem bindName_spec {p : Prop} {v : SrcVar} {d : Nat} {Γ : Stack} {st st' : RState} {u : Unit}
    (hinv : RInv p st.ctx Γ) (hd : d = Γ.length) (h : bindName v d st = some (u, st'))
    (he : st'.errors = st.errors) :
    Stack.bind Γ v.name = some (slot v.name :: Γ) ∧ RInv p st'.ctx (slot v.name :: Γ) ∧
      (v.name ≠ placeholder → Stack.index Γ v.name = none) := by
  unfold bindName at h
  by_cases hv : v.name = placeholder
  · simp [hv] at h
    subst h
    simp [Stack.bind_eq, hv, slot]
    exact hinv.anon
  · have hv' : (v.name != placeholder) = true := by simp [hv]
    simp only [hv', if_true, Option.some.injEq, Prod.mk.injEq] at h
    obtain ⟨_, rfl⟩ := h
    simp only at he
    have hck : st.ctx.containsKey v.name = false := by
      cases hc : st.ctx.containsKey v.name with
      | false => rfl
      | true => simp [hc] at he
    have hidx : Stack.index Γ v.name = none := by
      have := hinv.1 v.name hv
      rw [Ctx.containsKey_eq] at hck
      cases hi : Stack.index Γ v.name with
      | none => rfl
      | some i => rw [hi] at this; simp [this] at hck
    refine ⟨?_, ?_, fun _ => hidx⟩
    · simp [Stack.bind_eq, hidx]
    · subst hd
      have : slot v.name = some v.name := by simp [slot, hv]
      rw [this]
      exact hinv.insert hv hidx

def defNames (ds : List (SrcVar × OptSrc × Src)) : List Name := ds.map (·.1.name)

@[simp] theorem defNames_nil : defNames [] = [] := rfl
@[simp] theorem defNames_cons (v : SrcVar) (a : OptSrc) (d : Src) (rest : List (SrcVar × OptSrc × Src)) :
    defNames ((v, a, d) :: rest) = v.name :: defNames rest := rfl

theorem collectDefinitions_names : ∀ (t : Src), defNames (collectDefinitions t).1 = letNames t
  | .mk _ _ (.let_ v ann defn body) _ => by
      simp only [collectDefinitions, letNames, defNames, List.map_cons]
      have := collectDefinitions_names body
      simp only [defNames] at this
      rw [this]
  | .mk _ _ .parseError _ | .mk _ _ .type _ | .mk _ _ (.var _) _ | .mk _ _ (.lam ..) _
  | .mk _ _ (.pi ..) _ | .mk _ _ (.app ..) _ | .mk _ _ .int _ | .mk _ _ (.lit _) _
  | .mk _ _ (.neg _) _ | .mk _ _ (.bin ..) _ | .mk _ _ .bool _ | .mk _ _ .tt _ | .mk _ _ .ff _
  | .mk _ _ (.ite ..) _ => by simp [collectDefinitions, letNames, defNames]

theorem bindDefinitions_spec {p : Prop} (depth : Nat) :
    ∀ (ds : List (SrcVar × OptSrc × Src)) (i : Nat) (Γ : Stack) (st st' : RState) (u : Unit),
    RInv p st.ctx Γ → depth + i = Γ.length → bindDefinitions depth ds i st = some (u, st') →
    st'.errors = st.errors →
    ∃ Γ', Stack.bindAll Γ (defNames ds) = some Γ' ∧ RInv p st'.ctx Γ' ∧
      Γ'.length = Γ.length + ds.length
  | [], i, Γ, st, st', u, hinv, hd, h, he => by
      simp only [bindDefinitions, StateT_pure_some] at h
      rw [← h.2]
      exact ⟨Γ, by simp [defNames, Stack.bindAll], hinv, by simp⟩
  | (v, a, d) :: rest, i, Γ, st, st', u, hinv, hd, h, he => by
      simp only [bindDefinitions, StateT_bind_some] at h
      obtain ⟨u1, s1, h1, h2⟩ := h
      have hs := (bindName_mono h1).split (bindDefinitions_mono _ _ _ _ _ _ h2) he
      obtain ⟨hb, hinv1, _⟩ := bindName_spec hinv hd h1 hs.1
      obtain ⟨Γ', hb', hinv', hlen⟩ := bindDefinitions_spec depth rest (i + 1) (slot v.name :: Γ)
        s1 st' u hinv1 (by simp; omega) h2 hs.2
      refine ⟨Γ', ?_, hinv', ?_⟩
      · simp only [defNames, List.map_cons, Stack.bindAll, hb]
        exact hb'
      · rw [hlen]; simp; omega

theorem bindAll_index : ∀ (names : List Name) (Γ Γ' : Stack), Stack.bindAll Γ names = some Γ' →
    Γ'.length = Γ.length + names.length ∧
    ∀ y, y ≠ placeholder → (y ∈ names → Stack.index Γ y = none) ∧
      (y ∉ names → Stack.index Γ' y = (Stack.index Γ y).map (· + names.length))
  | [], Γ, Γ', h => by
      simp [Stack.bindAll] at h; subst h
      refine ⟨by simp, fun y _ => ⟨by simp, fun _ => ?_⟩⟩
      cases Stack.index Γ y <;> simp
  | x :: xs, Γ, Γ', h => by
      simp only [Stack.bindAll] at h
      have hbe := Stack.bind_eq Γ x
      by_cases hx : x ≠ placeholder ∧ (Stack.index Γ x).isSome
      · rw [if_pos hx] at hbe; rw [hbe] at h; simp at h
      · rw [if_neg hx] at hbe; rw [hbe] at h
        simp only at h
        obtain ⟨hlen, hidx⟩ := bindAll_index xs (slot x :: Γ) Γ' h
        refine ⟨by rw [hlen]; simp; omega, fun y hy => ⟨?_, ?_⟩⟩
        · intro hmem
          rcases List.mem_cons.mp hmem with rfl | hmem
          · cases hi : Stack.index Γ y with
            | none => rfl
            | some i => exact absurd ⟨hy, by simp [hi]⟩ hx
          · have := (hidx y hy).1 hmem
            rw [Stack.index_cons] at this
            split at this
            · simp at this
            · cases hi : Stack.index Γ y with
              | none => rfl
              | some i => simp [hi] at this
        · intro hmem
          have hyx : y ≠ x := fun e => hmem (by simp [e])
          have hmem' : y ∉ xs := fun e => hmem (by simp [e])
          rw [(hidx y hy).2 hmem', Stack.index_cons]
          have : ¬ (slot x = some y) := by
            unfold slot; split <;> simp; exact fun e => hyx e.symm
          rw [if_neg this]
          cases Stack.index Γ y with
          | none => simp
          | some i => simp; omega

theorem unbindDefinitions_get : ∀ (ds : List (SrcVar × OptSrc × Src)) (st st' : RState) (u : Unit),
    unbindDefinitions ds st = some (u, st') →
    st'.errors = st.errors ∧ st'.nextHole = st.nextHole ∧
    ∀ y, st'.ctx.get y = if y ∈ defNames ds ∧ y ≠ placeholder then none else st.ctx.get y
  | [], st, st', u, h => by
      simp only [unbindDefinitions, StateT_pure_some] at h
      rw [← h.2]; simp [defNames]
  | (v, _, _) :: rest, st, st', u, h => by
      simp only [unbindDefinitions] at h
      split at h
      · rename_i hv
        simp only [StateT_bind_some] at h
        obtain ⟨a, s1, h1, h2⟩ := h
        obtain ⟨e1, e2, e3⟩ := unbindDefinitions_get rest s1 st' u h2
        unfold unbindName at h1
        simp only [Option.some.injEq, Prod.mk.injEq] at h1
        obtain ⟨_, rfl⟩ := h1
        refine ⟨e1, e2, fun y => ?_⟩
        rw [e3 y]
        simp only [defNames_cons, List.mem_cons, Ctx.get_remove]
        have hv' : v.name ≠ placeholder := by simpa using hv
        by_cases hyv : y = v.name
        · subst hyv; simp [hv']
        · simp [hyv]
      · rename_i hv
        have hv' : v.name = placeholder := by simpa using hv
        obtain ⟨e1, e2, e3⟩ := unbindDefinitions_get rest st st' u h
        refine ⟨e1, e2, fun y => ?_⟩
        rw [e3 y]
        simp only [defNames_cons, List.mem_cons]
        by_cases hyv : y = v.name
        · subst hyv; simp [hv']
        · simp [hyv]

/-- the domain the specification gives a lambda: the resolved annotation, or a hole -/
def optDom (a : Option RTm) : Tm :=
  match a with
  | some d => eraseHoleIds d.erase
  | none => .hole 0 0

theorem RInv.restore {p : Prop} {c c' : Ctx} {Γ Γ' : Stack} {names : List Name}
    (h : RInv p c Γ') (hb : Stack.bindAll Γ names = some Γ')
    (hget : ∀ y, c'.get y = if y ∈ names ∧ y ≠ placeholder then none else c.get y) :
    RInv p c' Γ := by
  obtain ⟨hlen, hidx⟩ := bindAll_index names Γ Γ' hb
  refine ⟨?_, ?_⟩
  · intro y hy
    rw [hget y]
    by_cases hm : y ∈ names
    · simp [hm, hy, (hidx y hy).1 hm]
    · simp only [hm, false_and, if_false]
      rw [h.1 y hy, (hidx y hy).2 hm, hlen]
      cases Stack.index Γ y with
      | none => simp
      | some i => simp; omega
  · intro hp
    rw [hget]; simp; exact h.2 hp

def ResOK (Γ : Stack) (chain : Option (Nat × Nat)) (t : Src) (res : RDefs × RTm) : Prop :=
  match chain with
  | none => res.1 = .nil ∧ toDB Γ t = some (eraseHoleIds res.2.erase)
  | some (n, i) => toDBChain Γ n i t = some (eraseHoleIdsDefs res.1.erase, eraseHoleIds res.2.erase)

theorem ResOK.of_nonlet {Γ : Stack} {chain : Option (Nat × Nat)} {range : SourceRange} {g : Bool}
    {v : SrcV} {es : List PErr} {r : RTm} (hv : ∀ x a d b, v ≠ .let_ x a d b)
    (h : toDBV Γ v = some (eraseHoleIds r.erase)) : ResOK Γ chain (.mk range g v es) (.nil, r) := by
  cases chain with
  | none => exact ⟨rfl, by simp only [toDB]; exact h⟩
  | some c =>
    obtain ⟨n, i⟩ := c
    simp only [ResOK, toDBChain]
    rw [C08_chain_body_is_toDB Γ n i v hv, h]
    simp [RDefs.erase, eraseHoleIdsDefs]

mutual
theorem resolveAux_sound {p : Prop} : ∀ (t : Src) (chain : Option (Nat × Nat)) (depth : Nat)
    (Γ : Stack) (st : RState) (res : RDefs × RTm) (st' : RState),
    RInv p st.ctx Γ → depth = Γ.length → resolveAux t chain depth st = some (res, st') →
    st'.errors.length ≤ st.errors.length → RInv p st'.ctx Γ ∧ (p → ResOK Γ chain t res)
  | .mk range g .parseError es, chain, depth, Γ, st, res, st', hinv, hd, h, he => by
      unfold resolveAux at h; simp at h
  | .mk range g .type es, chain, depth, Γ, st, res, st', hinv, hd, h, he => by
      unfold resolveAux at h
      obtain ⟨rfl, rfl⟩ := pure_inv h
      exact ⟨hinv, fun _ => ResOK.of_nonlet (by simp) (by simp [toDBV, RTm.erase, eraseHoleIds])⟩
  | .mk range g .int es, chain, depth, Γ, st, res, st', hinv, hd, h, he => by
      unfold resolveAux at h
      obtain ⟨rfl, rfl⟩ := pure_inv h
      exact ⟨hinv, fun _ => ResOK.of_nonlet (by simp) (by simp [toDBV, RTm.erase, eraseHoleIds])⟩
  | .mk range g .bool es, chain, depth, Γ, st, res, st', hinv, hd, h, he => by
      unfold resolveAux at h
      obtain ⟨rfl, rfl⟩ := pure_inv h
      exact ⟨hinv, fun _ => ResOK.of_nonlet (by simp) (by simp [toDBV, RTm.erase, eraseHoleIds])⟩
  | .mk range g .tt es, chain, depth, Γ, st, res, st', hinv, hd, h, he => by
      unfold resolveAux at h
      obtain ⟨rfl, rfl⟩ := pure_inv h
      exact ⟨hinv, fun _ => ResOK.of_nonlet (by simp) (by simp [toDBV, RTm.erase, eraseHoleIds])⟩
  | .mk range g .ff es, chain, depth, Γ, st, res, st', hinv, hd, h, he => by
      unfold resolveAux at h
      obtain ⟨rfl, rfl⟩ := pure_inv h
      exact ⟨hinv, fun _ => ResOK.of_nonlet (by simp) (by simp [toDBV, RTm.erase, eraseHoleIds])⟩
  | .mk range g (.lit n) es, chain, depth, Γ, st, res, st', hinv, hd, h, he => by
      unfold resolveAux at h
      obtain ⟨rfl, rfl⟩ := pure_inv h
      exact ⟨hinv, fun _ => ResOK.of_nonlet (by simp) (by simp [toDBV, RTm.erase, eraseHoleIds])⟩
  | .mk range g (.var x) es, chain, depth, Γ, st, res, st', hinv, hd, h, he => by
      unfold resolveAux at h
      cases hg : st.ctx.get x with
      | some vd =>
        simp only [hg, Option.some.injEq, Prod.mk.injEq] at h
        obtain ⟨rfl, rfl⟩ := h
        refine ⟨hinv, fun hp => ResOK.of_nonlet (by simp) ?_⟩
        have hx : x ≠ placeholder := by
          intro e; rw [e, hinv.2 hp] at hg; simp at hg
        have := hinv.1 x hx
        rw [hg] at this
        cases hi : Stack.index Γ x with
        | none => simp [hi] at this
        | some i =>
          simp [hi] at this
          have hlt := Stack.index_lt Γ x i hi
          simp [toDBV, hx, hi, RTm.erase, eraseHoleIds]
          omega
      | none =>
        simp only [hg, Option.some.injEq, Prod.mk.injEq] at h
        obtain ⟨rfl, rfl⟩ := h
        simp only at he
        have hx : x = placeholder := by
          by_cases hx : x = placeholder
          · exact hx
          · exfalso; simp [hx] at he; omega
        refine ⟨hinv, fun hp => ResOK.of_nonlet (by simp) ?_⟩
        simp [toDBV, hx, RTm.erase, eraseHoleIds]
  | .mk range g (.lam x imp dom body) es, chain, depth, Γ, st, res, st', hinv, hd, h, he => by
      unfold resolveAux at h
      simp only [StateT_bind_some] at h
      obtain ⟨a, s1, h1, u, s2, h2, h3⟩ := h
      have l1 := (resolveOpt_mono _ _ _ _ _ h1).len
      have m2 := bindName_mono h2
      have l2 := m2.len
      have key : ∀ (d' : RTm) (s3 : RState), s3.ctx = s2.ctx → s3.errors = s2.errors →
          optDom a = eraseHoleIds d'.erase →
          (∃ p4 s4, resolveAux body none (depth + 1) s3 = some (p4, s4) ∧
            ∃ u' s5, unbindName x.name s4 = some (u', s5) ∧
              (pure (RDefs.nil, RTm.mk (some range) (RTmV.lam x.name imp d' p4.snd)) : ResolveM _) s5
                = some (res, st')) →
          RInv p st'.ctx Γ ∧ (p → ResOK Γ chain (.mk range g (.lam x imp dom body) es) res) := by
        intro d' s3 hc3 he3 hdom ⟨p4, s4, h4, u', s5, h5, h6⟩
        have he3' := congrArg List.length he3
        have l4 := (resolveAux_mono _ _ _ _ _ _ h4).len
        have e5 := unbindName_inv h5
        obtain ⟨rfl, rfl⟩ := pure_inv h6
        subst e5
        simp only at he
        obtain ⟨i1, r1⟩ := resolveOpt_sound dom depth Γ st a s1 hinv hd h1 (by omega)
        obtain ⟨hb, i2, hidx⟩ := bindName_spec i1 hd h2 (m2.eq_of_len (by omega))
        rw [← hc3] at i2
        obtain ⟨i4, r4⟩ := resolveAux_sound body none (depth + 1) (slot x.name :: Γ) s3 p4 s4 i2
          (by simp [hd]) h4 (by omega)
        refine ⟨i4.remove_slot hidx, fun hp => ResOK.of_nonlet (by simp) ?_⟩
        have hdom' := r1 hp
        rw [hdom] at hdom'
        simp [toDBV, hdom', hb, (r4 hp).2, RTm.erase, eraseHoleIds]
      cases a with
      | some d =>
        simp only [StateT_bind_some] at h3
        obtain ⟨d', s3, h3, rest⟩ := h3
        obtain ⟨rfl, rfl⟩ := pure_inv h3
        exact key d s2 rfl rfl rfl rest
      | none =>
        simp only [StateT_bind_some] at h3
        obtain ⟨d', s3, h3, rest⟩ := h3
        obtain ⟨rfl, rfl⟩ := freshHole_inv h3
        exact key (RTm.mk none (RTmV.hole s2.nextHole 0))
          { ctx := s2.ctx, errors := s2.errors, nextHole := s2.nextHole + 1 } rfl rfl
          (by simp [optDom, RTm.erase, eraseHoleIds]) rest
  | .mk range g (.pi x imp dom cod) es, chain, depth, Γ, st, res, st', hinv, hd, h, he => by
      unfold resolveAux at h
      simp only [StateT_bind_some] at h
      obtain ⟨p1, s1, h1, u, s2, h2, p3, s3, h3, u', s4, h4, h5⟩ := h
      have l1 := (resolveAux_mono _ _ _ _ _ _ h1).len
      have m2 := bindName_mono h2
      have l2 := m2.len
      have l3 := (resolveAux_mono _ _ _ _ _ _ h3).len
      have e4 := unbindName_inv h4
      obtain ⟨rfl, rfl⟩ := pure_inv h5
      subst e4
      simp only at he
      obtain ⟨i1, r1⟩ := resolveAux_sound dom none depth Γ st p1 s1 hinv hd h1 (by omega)
      obtain ⟨hb, i2, hidx⟩ := bindName_spec i1 hd h2 (m2.eq_of_len (by omega))
      obtain ⟨i3, r3⟩ := resolveAux_sound cod none (depth + 1) (slot x.name :: Γ) s2 p3 s3 i2
        (by simp [hd]) h3 (by omega)
      refine ⟨i3.remove_slot hidx, fun hp => ResOK.of_nonlet (by simp) ?_⟩
      simp [toDBV, (r1 hp).2, hb, (r3 hp).2, RTm.erase, eraseHoleIds]
  | .mk range g (.app f a) es, chain, depth, Γ, st, res, st', hinv, hd, h, he => by
      unfold resolveAux at h
      simp only [StateT_bind_some] at h
      obtain ⟨p1, s1, h1, p2, s2, h2, h3⟩ := h
      obtain ⟨rfl, rfl⟩ := pure_inv h3
      have l1 := (resolveAux_mono _ _ _ _ _ _ h1).len
      have l2 := (resolveAux_mono _ _ _ _ _ _ h2).len
      obtain ⟨i1, r1⟩ := resolveAux_sound f none depth Γ st p1 s1 hinv hd h1 (by omega)
      obtain ⟨i2, r2⟩ := resolveAux_sound a none depth Γ s1 p2 s2 i1 hd h2 (by omega)
      refine ⟨i2, fun hp => ResOK.of_nonlet (by simp) ?_⟩
      simp [toDBV, (r1 hp).2, (r2 hp).2, RTm.erase, eraseHoleIds]
  | .mk range g (.neg a) es, chain, depth, Γ, st, res, st', hinv, hd, h, he => by
      unfold resolveAux at h
      simp only [StateT_bind_some] at h
      obtain ⟨p1, s1, h1, h3⟩ := h
      obtain ⟨rfl, rfl⟩ := pure_inv h3
      obtain ⟨i1, r1⟩ := resolveAux_sound a none depth Γ st p1 s1 hinv hd h1 he
      refine ⟨i1, fun hp => ResOK.of_nonlet (by simp) ?_⟩
      simp [toDBV, (r1 hp).2, RTm.erase, eraseHoleIds]
  | .mk range g (.bin o a b) es, chain, depth, Γ, st, res, st', hinv, hd, h, he => by
      unfold resolveAux at h
      simp only [StateT_bind_some] at h
      obtain ⟨p1, s1, h1, p2, s2, h2, h3⟩ := h
      obtain ⟨rfl, rfl⟩ := pure_inv h3
      have l1 := (resolveAux_mono _ _ _ _ _ _ h1).len
      have l2 := (resolveAux_mono _ _ _ _ _ _ h2).len
      obtain ⟨i1, r1⟩ := resolveAux_sound a none depth Γ st p1 s1 hinv hd h1 (by omega)
      obtain ⟨i2, r2⟩ := resolveAux_sound b none depth Γ s1 p2 s2 i1 hd h2 (by omega)
      refine ⟨i2, fun hp => ResOK.of_nonlet (by simp) ?_⟩
      simp [toDBV, (r1 hp).2, (r2 hp).2, RTm.erase, eraseHoleIds]
  | .mk range g (.ite c a b) es, chain, depth, Γ, st, res, st', hinv, hd, h, he => by
      unfold resolveAux at h
      simp only [StateT_bind_some] at h
      obtain ⟨p0, s0, h0, p1, s1, h1, p2, s2, h2, h3⟩ := h
      obtain ⟨rfl, rfl⟩ := pure_inv h3
      have l0 := (resolveAux_mono _ _ _ _ _ _ h0).len
      have l1 := (resolveAux_mono _ _ _ _ _ _ h1).len
      have l2 := (resolveAux_mono _ _ _ _ _ _ h2).len
      obtain ⟨i0, r0⟩ := resolveAux_sound c none depth Γ st p0 s0 hinv hd h0 (by omega)
      obtain ⟨i1, r1⟩ := resolveAux_sound a none depth Γ s0 p1 s1 i0 hd h1 (by omega)
      obtain ⟨i2, r2⟩ := resolveAux_sound b none depth Γ s1 p2 s2 i1 hd h2 (by omega)
      refine ⟨i2, fun hp => ResOK.of_nonlet (by simp) ?_⟩
      simp [toDBV, (r0 hp).2, (r1 hp).2, (r2 hp).2, RTm.erase, eraseHoleIds]
  | .mk range g (.let_ x ann defn body) es, some (n, i), depth, Γ, st, res, st', hinv, hd, h, he => by
      unfold resolveAux at h
      simp only [StateT_bind_some] at h
      obtain ⟨p0, s0, h0, p1, s1, h1, p2, s2, h2, h3⟩ := h
      obtain ⟨rfl, rfl⟩ := pure_inv h3
      have l0 := (resolveAnnotation_mono _ _ _ _ _ _ _ h0).len
      have l1 := (resolveAux_mono _ _ _ _ _ _ h1).len
      have l2 := (resolveAux_mono _ _ _ _ _ _ h2).len
      obtain ⟨i0, r0⟩ := resolveAnnotation_sound ann n i depth Γ st p0 s0 hinv hd h0 (by omega)
      obtain ⟨i1, r1⟩ := resolveAux_sound defn none depth Γ s0 p1 s1 i0 hd h1 (by omega)
      obtain ⟨i2, r2⟩ := resolveAux_sound body (some (n, i + 1)) depth Γ s1 p2 s2 i1 hd h2 (by omega)
      refine ⟨i2, fun hp => ?_⟩
      have r2' := r2 hp
      simp only [ResOK] at r2' ⊢
      simp [toDBChain, toDBChainV, r0 hp, (r1 hp).2, r2', RDefs.erase, eraseHoleIdsDefs] at r2' ⊢
  | .mk range g (.let_ x ann defn body) es, none, depth, Γ, st, res, st', hinv, hd, h, he => by
      unfold resolveAux at h
      simp only [StateT_bind_some] at h
      obtain ⟨u, sb, hb, p0, s0, h0, p1, s1, h1, p2, s2, h2, u', s3, h3, h4⟩ := h
      obtain ⟨rfl, rfl⟩ := pure_inv h4
      have mb := bindDefinitions_mono _ _ _ _ _ _ hb
      have lb := mb.len
      have l0 := (resolveAnnotation_mono _ _ _ _ _ _ _ h0).len
      have l1 := (resolveAux_mono _ _ _ _ _ _ h1).len
      have l2 := (resolveAux_mono _ _ _ _ _ _ h2).len
      obtain ⟨e1, e2, e3⟩ := unbindDefinitions_get _ _ _ _ h3
      have e1' := congrArg List.length e1
      obtain ⟨Γ', hbA, ib, hlen⟩ := bindDefinitions_spec depth _ 0 Γ st sb u hinv (by omega) hb
        (mb.eq_of_len (by omega))
      have hd' : depth + ((x, ann, defn) :: (collectDefinitions body).1).length = Γ'.length := by
        rw [hlen, hd]
      obtain ⟨i0, r0⟩ := resolveAnnotation_sound ann _ 0 _ Γ' sb p0 s0 ib hd' h0 (by omega)
      obtain ⟨i1, r1⟩ := resolveAux_sound defn none _ Γ' s0 p1 s1 i0 hd' h1 (by omega)
      obtain ⟨i2, r2⟩ := resolveAux_sound body (some (_, 1)) _ Γ' s1 p2 s2 i1 hd' h2 (by omega)
      refine ⟨i2.restore hbA e3, fun hp => ⟨rfl, ?_⟩⟩
      have r2' := r2 hp
      simp only [ResOK] at r2'
      have hn : defNames ((x, ann, defn) :: (collectDefinitions body).1) = x.name :: letNames body := by
        rw [defNames_cons, collectDefinitions_names]
      have hl : ((x, ann, defn) :: (collectDefinitions body).1).length = (x.name :: letNames body).length := by
        rw [← hn, defNames, List.length_map]
      rw [hn] at hbA
      rw [hl] at r0 r2'
      simp only [toDB, toDBV, hbA, r0 hp, (r1 hp).2, r2']
      simp [RTm.erase, RDefs.erase, eraseHoleIds, eraseHoleIdsDefs]
theorem resolveOpt_sound {p : Prop} : ∀ (o : OptSrc) (depth : Nat) (Γ : Stack) (st : RState)
    (res : Option RTm) (st' : RState),
    RInv p st.ctx Γ → depth = Γ.length → resolveOpt o depth st = some (res, st') →
    st'.errors.length ≤ st.errors.length →
    RInv p st'.ctx Γ ∧ (p → toDBOpt Γ o = some (optDom res))
  | .none, depth, Γ, st, res, st', hinv, hd, h, he => by
      unfold resolveOpt at h
      obtain ⟨rfl, rfl⟩ := pure_inv h
      exact ⟨hinv, fun _ => by simp [toDBOpt, optDom]⟩
  | .some t, depth, Γ, st, res, st', hinv, hd, h, he => by
      unfold resolveOpt at h
      simp only [StateT_bind_some] at h
      obtain ⟨p1, s1, h1, h3⟩ := h
      obtain ⟨rfl, rfl⟩ := pure_inv h3
      obtain ⟨i1, r1⟩ := resolveAux_sound t none depth Γ st p1 s1 hinv hd h1 he
      exact ⟨i1, fun hp => by simp [toDBOpt, optDom, (r1 hp).2]⟩
theorem resolveAnnotation_sound {p : Prop} : ∀ (o : OptSrc) (n i newDepth : Nat) (Γ : Stack)
    (st : RState) (res : RTm) (st' : RState),
    RInv p st.ctx Γ → newDepth = Γ.length → resolveAnnotation o n i newDepth st = some (res, st') →
    st'.errors.length ≤ st.errors.length →
    RInv p st'.ctx Γ ∧ (p → toDBAnn Γ o n i = some (eraseHoleIds res.erase))
  | .none, n, i, depth, Γ, st, res, st', hinv, hd, h, he => by
      unfold resolveAnnotation at h
      obtain ⟨rfl, rfl⟩ := freshHole_inv h
      exact ⟨hinv, fun _ => by simp [toDBAnn, RTm.erase, eraseHoleIds]⟩
  | .some t, n, i, depth, Γ, st, res, st', hinv, hd, h, he => by
      unfold resolveAnnotation at h
      simp only [StateT_bind_some] at h
      obtain ⟨p1, s1, h1, h3⟩ := h
      obtain ⟨rfl, rfl⟩ := pure_inv h3
      obtain ⟨i1, r1⟩ := resolveAux_sound t none depth Γ st p1 s1 hinv hd h1 he
      exact ⟨i1, fun hp => by simp [toDBAnn, (r1 hp).2]⟩
end

/-- **Soundness of resolution.**  If the model resolver, started in a state that describes the
stack `Γ`, finishes without reporting any error, then its output is exactly what the stack
specification prescribes: every variable occurrence carries the index of the innermost binder of
that name in scope, `_` is a fresh hole with shift 0, omitted annotations are holes shifted out of
their group. -/
def C08_resolve_sound_unrestricted : Prop :=
  ∀ (t : Src) (Γ : Stack) (st st' : RState) (r : RTm),
    CtxAgrees st.ctx Γ → resolve t Γ.length st = some (r, st') → st'.errors = st.errors →
    toDB Γ t = some (eraseHoleIds r.erase)

/-- PENDING `C08_resolve_sound_unrestricted` is FALSE of the model as stated: `CtxAgrees` says nothing about
the placeholder `_`, so the map may contain the key `_` (the Rust `parse` would build such a map
from a `context` slice containing `"_"`); the resolver then turns an occurrence of `_` into a
variable, whereas the specification prescribes a hole. -/
theorem C08_resolve_sound_refuted : ¬ C08_resolve_sound_unrestricted := by
  intro h
  have h1 := h (.mk ⟨0, 0⟩ false (.var placeholder) []) []
    { ctx := [(placeholder, 0)], errors := [], nextHole := 0 }
    { ctx := [(placeholder, 0)], errors := [], nextHole := 0 }
    (.mk (some ⟨0, 0⟩) (.var placeholder 0))
    (by
      intro x hx
      have : (x == placeholder) = false := by simp [hx]
      simp [Ctx.get, Stack.index, List.lookup_cons, this])
    (by
      unfold resolve
      simp only [StateT_bind_some]
      refine ⟨(.nil, .mk (some ⟨0, 0⟩) (.var placeholder 0)), _, ?_, rfl⟩
      unfold resolveAux
      simp [Ctx.get])
    rfl
  simp [toDB, toDBV, RTm.erase, eraseHoleIds] at h1

/-- Corrected statement: additionally, the placeholder is not a key of the map (true of every
state the resolver itself produces from such a state, and of `initialContext` for a context without
`"_"`). -/
def C08_resolve_sound_fixed_stmt : Prop :=
  ∀ (t : Src) (Γ : Stack) (st st' : RState) (r : RTm),
    CtxAgrees st.ctx Γ → st.ctx.get placeholder = none →
    resolve t Γ.length st = some (r, st') → st'.errors = st.errors →
    toDB Γ t = some (eraseHoleIds r.erase)
theorem C08_resolve_sound_fixed : C08_resolve_sound_fixed_stmt := by
  intro t Γ st st' r hag hph h he
  unfold resolve at h
  simp only [StateT_bind_some] at h
  obtain ⟨p1, s1, h1, h2⟩ := h
  obtain ⟨rfl, rfl⟩ := pure_inv h2
  have := resolveAux_sound (p := True) t none Γ.length Γ st p1 s1 ⟨hag, fun _ => hph⟩ rfl h1
    (by rw [he]; exact Nat.le_refl _)
  exact (this.2 trivial).2

/-- The same induction also covers the walk along a chain of definitions (`toDBChain`). -/
def C08_resolve_chain_sound_stmt : Prop :=
  ∀ (t : Src) (n i : Nat) (Γ : Stack) (st st' : RState) (ds : RDefs) (r : RTm),
    CtxAgrees st.ctx Γ → st.ctx.get placeholder = none →
    resolveAux t (some (n, i)) Γ.length st = some ((ds, r), st') → st'.errors = st.errors →
    toDBChain Γ n i t = some (eraseHoleIdsDefs ds.erase, eraseHoleIds r.erase)
theorem C08_resolve_chain_sound : C08_resolve_chain_sound_stmt := by
  intro t n i Γ st st' ds r hag hph h he
  have := resolveAux_sound (p := True) t (some (n, i)) Γ.length Γ st (ds, r) st'
    ⟨hag, fun _ => hph⟩ rfl h (by rw [he]; exact Nat.le_refl _)
  exact this.2 trivial

/-- **Completeness.**  If the specification resolves the tree then the model reports no error. -/
def C08_resolve_complete_unrestricted : Prop :=
  ∀ (t : Src) (Γ : Stack) (st : RState) (u : Tm),
    CtxAgrees st.ctx Γ → toDB Γ t = some u →
    ∃ r st', resolve t Γ.length st = some (r, st') ∧ st'.errors = st.errors ∧ eraseHoleIds r.erase = u

/-! ### Completeness: inversion of the specification, and the induction -/

theorem toDBV_lam_inv {Γ : Stack} {x im dom body u} (h : toDBV Γ (.lam x im dom body) = some u) :
    ∃ d b, toDBOpt Γ dom = some d ∧ Stack.bind Γ x.name = some (slot x.name :: Γ) ∧
      toDB (slot x.name :: Γ) body = some b := by
  simp only [toDBV] at h
  split at h
  · rename_i d Γ' hd hb
    have hb' := hb
    rw [Stack.bind_eq] at hb'
    split at hb'
    · simp at hb'
    · simp only [Option.some.injEq] at hb'
      subst hb'
      split at h
      · rename_i b hbody; exact ⟨d, b, hd, hb, hbody⟩
      · simp at h
  · simp at h

theorem toDBV_pi_inv {Γ : Stack} {x im dom cod u} (h : toDBV Γ (.pi x im dom cod) = some u) :
    ∃ d b, toDB Γ dom = some d ∧ Stack.bind Γ x.name = some (slot x.name :: Γ) ∧
      toDB (slot x.name :: Γ) cod = some b := by
  simp only [toDBV] at h
  split at h
  · rename_i d Γ' hd hb
    have hb' := hb
    rw [Stack.bind_eq] at hb'
    split at hb'
    · simp at hb'
    · simp only [Option.some.injEq] at hb'
      subst hb'
      split at h
      · rename_i b hbody; exact ⟨d, b, hd, hb, hbody⟩
      · simp at h
  · simp at h

theorem toDBV_app_inv {Γ : Stack} {f a u} (h : toDBV Γ (.app f a) = some u) :
    ∃ f' a', toDB Γ f = some f' ∧ toDB Γ a = some a' := by
  simp only [toDBV] at h
  split at h
  · rename_i f' a' hf ha; exact ⟨f', a', hf, ha⟩
  · simp at h

theorem toDBV_bin_inv {Γ : Stack} {o a b u} (h : toDBV Γ (.bin o a b) = some u) :
    ∃ a' b', toDB Γ a = some a' ∧ toDB Γ b = some b' := by
  simp only [toDBV] at h
  split at h
  · rename_i f' a' hf ha; exact ⟨f', a', hf, ha⟩
  · simp at h

theorem toDBV_neg_inv {Γ : Stack} {a u} (h : toDBV Γ (.neg a) = some u) :
    ∃ a', toDB Γ a = some a' := by
  simp only [toDBV] at h
  split at h
  · rename_i a' ha; exact ⟨a', ha⟩
  · simp at h

theorem toDBV_ite_inv {Γ : Stack} {c a b u} (h : toDBV Γ (.ite c a b) = some u) :
    ∃ c' a' b', toDB Γ c = some c' ∧ toDB Γ a = some a' ∧ toDB Γ b = some b' := by
  simp only [toDBV] at h
  split at h
  · rename_i c' a' b' hc ha hb; exact ⟨c', a', b', hc, ha, hb⟩
  · simp at h

theorem toDBV_let_inv {Γ : Stack} {x ann defn body u} (h : toDBV Γ (.let_ x ann defn body) = some u) :
    ∃ Γ' a d rb, Stack.bindAll Γ (x.name :: letNames body) = some Γ' ∧
      toDBAnn Γ' ann (x.name :: letNames body).length 0 = some a ∧ toDB Γ' defn = some d ∧
      toDBChain Γ' (x.name :: letNames body).length 1 body = some rb := by
  simp only [toDBV] at h
  split at h
  · simp at h
  · rename_i Γ' hb
    split at h
    · rename_i a d rest b ha hd hc; exact ⟨Γ', a, d, _, hb, ha, hd, hc⟩
    · simp at h

theorem toDBChainV_let_inv {Γ : Stack} {n i x ann defn body u}
    (h : toDBChainV Γ n i (.let_ x ann defn body) = some u) :
    ∃ a d rb, toDBAnn Γ ann n i = some a ∧ toDB Γ defn = some d ∧
      toDBChain Γ n (i + 1) body = some rb := by
  simp only [toDBChainV] at h
  split at h
  · rename_i a d rest b ha hd hc; exact ⟨a, d, _, ha, hd, hc⟩
  · simp at h

def SpecOK (Γ : Stack) (chain : Option (Nat × Nat)) (t : Src) : Prop :=
  match chain with
  | none => ∃ u, toDB Γ t = some u
  | some (n, i) => ∃ u, toDBChain Γ n i t = some u

theorem SpecOK.nonlet {Γ : Stack} {chain : Option (Nat × Nat)} {range : SourceRange} {g : Bool}
    {v : SrcV} {es : List PErr} (hv : ∀ x a d b, v ≠ .let_ x a d b)
    (h : SpecOK Γ chain (.mk range g v es)) : ∃ u, toDBV Γ v = some u := by
  cases chain with
  | none => exact h
  | some c =>
    obtain ⟨n, i⟩ := c
    obtain ⟨u, hu⟩ := h
    simp only [toDBChain] at hu
    rw [C08_chain_body_is_toDB Γ n i v hv] at hu
    cases ht : toDBV Γ v with
    | none => simp [ht] at hu
    | some w => exact ⟨w, rfl⟩

theorem bindName_complete {v : SrcVar} {d : Nat} {Γ Γ' : Stack} {st : RState}
    (hinv : RInv True st.ctx Γ) (hb : Stack.bind Γ v.name = some Γ') :
    ∃ st', bindName v d st = some ((), st') ∧ st'.errors = st.errors := by
  unfold bindName
  by_cases hv : v.name = placeholder
  · simp [hv]
  · have hv' : (v.name != placeholder) = true := by simp [hv]
    rw [Stack.bind_eq] at hb
    split at hb
    · simp at hb
    · rename_i hn
      have hidx : Stack.index Γ v.name = none := by
        cases hi : Stack.index Γ v.name with
        | none => rfl
        | some i => exact absurd ⟨hv, by simp [hi]⟩ hn
      have hck : st.ctx.containsKey v.name = false := by
        rw [Ctx.containsKey_eq, hinv.1 v.name hv, hidx]; rfl
      simp [hv', hck]

theorem bindDefinitions_complete (depth : Nat) :
    ∀ (ds : List (SrcVar × OptSrc × Src)) (i : Nat) (Γ Γ' : Stack) (st : RState),
    RInv True st.ctx Γ → depth + i = Γ.length → Stack.bindAll Γ (defNames ds) = some Γ' →
    ∃ st', bindDefinitions depth ds i st = some ((), st') ∧ st'.errors = st.errors
  | [], i, Γ, Γ', st, hinv, hd, hb => ⟨st, rfl, rfl⟩
  | (v, a, d) :: rest, i, Γ, Γ', st, hinv, hd, hb => by
      simp only [defNames_cons, Stack.bindAll] at hb
      cases hb1 : Stack.bind Γ v.name with
      | none => simp [hb1] at hb
      | some Γ1 =>
        simp only [hb1] at hb
        obtain ⟨s1, h1, e1⟩ := bindName_complete (d := depth + i) hinv hb1
        obtain ⟨hbs, i1, _⟩ := bindName_spec hinv hd h1 e1
        rw [hb1] at hbs
        simp only [Option.some.injEq] at hbs
        subst hbs
        obtain ⟨s2, h2, e2⟩ := bindDefinitions_complete depth rest (i + 1) _ Γ' s1 i1
          (by simp; omega) hb
        refine ⟨s2, ?_, e2.trans e1⟩
        simp only [bindDefinitions, StateT_bind_some]
        exact ⟨(), s1, h1, h2⟩

theorem unbindDefinitions_total : ∀ (ds : List (SrcVar × OptSrc × Src)) (st : RState),
    ∃ st', unbindDefinitions ds st = some ((), st')
  | [], st => ⟨st, rfl⟩
  | (v, _, _) :: rest, st => by
      simp only [unbindDefinitions]
      split
      · obtain ⟨s2, h2⟩ := unbindDefinitions_total rest { st with ctx := st.ctx.remove v.name }
        refine ⟨s2, ?_⟩
        simp only [StateT_bind_some]
        exact ⟨(), _, rfl, h2⟩
      · exact unbindDefinitions_total rest st

theorem le_of_errors_eq {a b : RState} (h : b.errors = a.errors) :
    b.errors.length ≤ a.errors.length := by rw [h]; exact Nat.le_refl _

mutual
theorem resolveAux_complete : ∀ (t : Src) (chain : Option (Nat × Nat)) (depth : Nat)
    (Γ : Stack) (st : RState),
    RInv True st.ctx Γ → depth = Γ.length → SpecOK Γ chain t →
    ∃ res st', resolveAux t chain depth st = some (res, st') ∧ st'.errors = st.errors
  | .mk range g .parseError es, chain, depth, Γ, st, hinv, hd, hs => by
      obtain ⟨u, hu⟩ := hs.nonlet (by simp)
      simp [toDBV] at hu
  | .mk range g .type es, chain, depth, Γ, st, hinv, hd, hs => by
      unfold resolveAux; exact ⟨_, _, rfl, rfl⟩
  | .mk range g .int es, chain, depth, Γ, st, hinv, hd, hs => by
      unfold resolveAux; exact ⟨_, _, rfl, rfl⟩
  | .mk range g .bool es, chain, depth, Γ, st, hinv, hd, hs => by
      unfold resolveAux; exact ⟨_, _, rfl, rfl⟩
  | .mk range g .tt es, chain, depth, Γ, st, hinv, hd, hs => by
      unfold resolveAux; exact ⟨_, _, rfl, rfl⟩
  | .mk range g .ff es, chain, depth, Γ, st, hinv, hd, hs => by
      unfold resolveAux; exact ⟨_, _, rfl, rfl⟩
  | .mk range g (.lit n) es, chain, depth, Γ, st, hinv, hd, hs => by
      unfold resolveAux; exact ⟨_, _, rfl, rfl⟩
  | .mk range g (.var x) es, chain, depth, Γ, st, hinv, hd, hs => by
      obtain ⟨u, hu⟩ := hs.nonlet (by simp)
      unfold resolveAux
      dsimp only
      by_cases hx : x = placeholder
      · subst hx
        rw [show st.ctx.get placeholder = none from hinv.2 trivial]
        refine ⟨_, _, rfl, ?_⟩
        simp
      · simp only [toDBV, hx, if_false] at hu
        cases hi : Stack.index Γ x with
        | none => simp [hi] at hu
        | some i =>
          have := hinv.1 x hx
          rw [hi] at this
          rw [this]
          exact ⟨_, _, rfl, rfl⟩
  | .mk range g (.lam x imp dom body) es, chain, depth, Γ, st, hinv, hd, hs => by
      obtain ⟨u, hu⟩ := hs.nonlet (by simp)
      obtain ⟨d, b, hdom, hb, hbody⟩ := toDBV_lam_inv hu
      obtain ⟨a, s1, h1, e1⟩ := resolveOpt_complete dom depth Γ st hinv hd ⟨d, hdom⟩
      have i1 := (resolveOpt_sound dom depth Γ st a s1 hinv hd h1 (le_of_errors_eq e1)).1
      obtain ⟨s2, h2, e2⟩ := bindName_complete (d := depth) i1 hb
      obtain ⟨_, i2, hidx⟩ := bindName_spec i1 hd h2 e2
      have key : ∀ (d' : RTm) (s3 : RState), s3.ctx = s2.ctx → s3.errors = s2.errors →
          ∃ res st', (∃ p4 s4, resolveAux body none (depth + 1) s3 = some (p4, s4) ∧
            ∃ u' s5, unbindName x.name s4 = some (u', s5) ∧
              (pure (RDefs.nil, RTm.mk (some range) (RTmV.lam x.name imp d' p4.snd)) : ResolveM _) s5
                = some (res, st')) ∧ st'.errors = st.errors := by
        intro d' s3 hc3 he3
        rw [← hc3] at i2
        obtain ⟨p4, s4, h4, e4⟩ := resolveAux_complete body none (depth + 1) (slot x.name :: Γ) s3 i2
          (by simp [hd]) ⟨b, hbody⟩
        refine ⟨_, _, ⟨p4, s4, h4, (), _, rfl, rfl⟩, ?_⟩
        simp only [e4, he3, e2, e1]
      unfold resolveAux
      simp only [StateT_bind_some]
      cases a with
      | some d0 =>
        obtain ⟨res, st', h5, e5⟩ := key d0 s2 rfl rfl
        exact ⟨res, st', ⟨_, s1, h1, (), s2, h2, by
          simp only [StateT_bind_some]; exact ⟨d0, s2, rfl, h5⟩⟩, e5⟩
      | none =>
        obtain ⟨res, st', h5, e5⟩ := key (RTm.mk none (RTmV.hole s2.nextHole 0))
          { ctx := s2.ctx, errors := s2.errors, nextHole := s2.nextHole + 1 } rfl rfl
        exact ⟨res, st', ⟨_, s1, h1, (), s2, h2, by
          simp only [StateT_bind_some]; exact ⟨_, _, rfl, h5⟩⟩, e5⟩
  | .mk range g (.pi x imp dom cod) es, chain, depth, Γ, st, hinv, hd, hs => by
      obtain ⟨u, hu⟩ := hs.nonlet (by simp)
      obtain ⟨d, b, hdom, hb, hcod⟩ := toDBV_pi_inv hu
      obtain ⟨p1, s1, h1, e1⟩ := resolveAux_complete dom none depth Γ st hinv hd ⟨d, hdom⟩
      have i1 := (resolveAux_sound dom none depth Γ st p1 s1 hinv hd h1 (le_of_errors_eq e1)).1
      obtain ⟨s2, h2, e2⟩ := bindName_complete (d := depth) i1 hb
      obtain ⟨_, i2, hidx⟩ := bindName_spec i1 hd h2 e2
      obtain ⟨p3, s3, h3, e3⟩ := resolveAux_complete cod none (depth + 1) (slot x.name :: Γ) s2 i2
        (by simp [hd]) ⟨b, hcod⟩
      unfold resolveAux
      simp only [StateT_bind_some]
      refine ⟨_, _, ⟨p1, s1, h1, (), s2, h2, p3, s3, h3, (), _, rfl, rfl⟩, ?_⟩
      simp only [e3, e2, e1]
  | .mk range g (.app f a) es, chain, depth, Γ, st, hinv, hd, hs => by
      obtain ⟨u, hu⟩ := hs.nonlet (by simp)
      obtain ⟨f', a', hf, ha⟩ := toDBV_app_inv hu
      obtain ⟨p1, s1, h1, e1⟩ := resolveAux_complete f none depth Γ st hinv hd ⟨f', hf⟩
      have i1 := (resolveAux_sound f none depth Γ st p1 s1 hinv hd h1 (le_of_errors_eq e1)).1
      obtain ⟨p2, s2, h2, e2⟩ := resolveAux_complete a none depth Γ s1 i1 hd ⟨a', ha⟩
      unfold resolveAux
      simp only [StateT_bind_some]
      exact ⟨_, _, ⟨p1, s1, h1, p2, s2, h2, rfl⟩, e2.trans e1⟩
  | .mk range g (.neg a) es, chain, depth, Γ, st, hinv, hd, hs => by
      obtain ⟨u, hu⟩ := hs.nonlet (by simp)
      obtain ⟨a', ha⟩ := toDBV_neg_inv hu
      obtain ⟨p1, s1, h1, e1⟩ := resolveAux_complete a none depth Γ st hinv hd ⟨a', ha⟩
      unfold resolveAux
      simp only [StateT_bind_some]
      exact ⟨_, _, ⟨p1, s1, h1, rfl⟩, e1⟩
  | .mk range g (.bin o a b) es, chain, depth, Γ, st, hinv, hd, hs => by
      obtain ⟨u, hu⟩ := hs.nonlet (by simp)
      obtain ⟨a', b', ha, hb⟩ := toDBV_bin_inv hu
      obtain ⟨p1, s1, h1, e1⟩ := resolveAux_complete a none depth Γ st hinv hd ⟨a', ha⟩
      have i1 := (resolveAux_sound a none depth Γ st p1 s1 hinv hd h1 (le_of_errors_eq e1)).1
      obtain ⟨p2, s2, h2, e2⟩ := resolveAux_complete b none depth Γ s1 i1 hd ⟨b', hb⟩
      unfold resolveAux
      simp only [StateT_bind_some]
      exact ⟨_, _, ⟨p1, s1, h1, p2, s2, h2, rfl⟩, e2.trans e1⟩
  | .mk range g (.ite c a b) es, chain, depth, Γ, st, hinv, hd, hs => by
      obtain ⟨u, hu⟩ := hs.nonlet (by simp)
      obtain ⟨c', a', b', hc, ha, hb⟩ := toDBV_ite_inv hu
      obtain ⟨p0, s0, h0, e0⟩ := resolveAux_complete c none depth Γ st hinv hd ⟨c', hc⟩
      have i0 := (resolveAux_sound c none depth Γ st p0 s0 hinv hd h0 (le_of_errors_eq e0)).1
      obtain ⟨p1, s1, h1, e1⟩ := resolveAux_complete a none depth Γ s0 i0 hd ⟨a', ha⟩
      have i1 := (resolveAux_sound a none depth Γ s0 p1 s1 i0 hd h1 (le_of_errors_eq e1)).1
      obtain ⟨p2, s2, h2, e2⟩ := resolveAux_complete b none depth Γ s1 i1 hd ⟨b', hb⟩
      unfold resolveAux
      simp only [StateT_bind_some]
      exact ⟨_, _, ⟨p0, s0, h0, p1, s1, h1, p2, s2, h2, rfl⟩, e2.trans (e1.trans e0)⟩
  | .mk range g (.let_ x ann defn body) es, some (n, i), depth, Γ, st, hinv, hd, hs => by
      obtain ⟨u, hu⟩ := hs
      simp only [toDBChain] at hu
      obtain ⟨a, d, rb, ha, hdf, hc⟩ := toDBChainV_let_inv hu
      obtain ⟨p0, s0, h0, e0⟩ := resolveAnnotation_complete ann n i depth Γ st hinv hd ⟨a, ha⟩
      have i0 := (resolveAnnotation_sound ann n i depth Γ st p0 s0 hinv hd h0 (le_of_errors_eq e0)).1
      obtain ⟨p1, s1, h1, e1⟩ := resolveAux_complete defn none depth Γ s0 i0 hd ⟨d, hdf⟩
      have i1 := (resolveAux_sound defn none depth Γ s0 p1 s1 i0 hd h1 (le_of_errors_eq e1)).1
      obtain ⟨p2, s2, h2, e2⟩ := resolveAux_complete body (some (n, i + 1)) depth Γ s1 i1 hd ⟨rb, hc⟩
      unfold resolveAux
      simp only [StateT_bind_some]
      exact ⟨_, _, ⟨p0, s0, h0, p1, s1, h1, p2, s2, h2, rfl⟩, e2.trans (e1.trans e0)⟩
  | .mk range g (.let_ x ann defn body) es, none, depth, Γ, st, hinv, hd, hs => by
      obtain ⟨u, hu⟩ := hs
      simp only [toDB] at hu
      obtain ⟨Γ', a, d, rb, hbA, ha, hdf, hc⟩ := toDBV_let_inv hu
      have hn : defNames ((x, ann, defn) :: (collectDefinitions body).1) = x.name :: letNames body := by
        rw [defNames_cons, collectDefinitions_names]
      have hl : ((x, ann, defn) :: (collectDefinitions body).1).length = (x.name :: letNames body).length := by
        rw [← hn, defNames, List.length_map]
      rw [← hn] at hbA
      rw [← hl] at ha hc
      obtain ⟨sb, hb, eb⟩ := bindDefinitions_complete depth _ 0 Γ Γ' st hinv (by omega) hbA
      obtain ⟨Γ'', hbA', ib, hlen⟩ := bindDefinitions_spec depth _ 0 Γ st sb () hinv (by omega) hb eb
      rw [hbA] at hbA'
      simp only [Option.some.injEq] at hbA'
      subst hbA'
      have hd' : depth + ((x, ann, defn) :: (collectDefinitions body).1).length = Γ'.length := by
        rw [hlen, hd]
      obtain ⟨p0, s0, h0, e0⟩ := resolveAnnotation_complete ann _ 0 _ Γ' sb ib hd' ⟨a, ha⟩
      have i0 := (resolveAnnotation_sound ann _ 0 _ Γ' sb p0 s0 ib hd' h0 (le_of_errors_eq e0)).1
      obtain ⟨p1, s1, h1, e1⟩ := resolveAux_complete defn none _ Γ' s0 i0 hd' ⟨d, hdf⟩
      have i1 := (resolveAux_sound defn none _ Γ' s0 p1 s1 i0 hd' h1 (le_of_errors_eq e1)).1
      obtain ⟨p2, s2, h2, e2⟩ := resolveAux_complete body (some (_, 1)) _ Γ' s1 i1 hd' ⟨rb, hc⟩
      obtain ⟨s3, h3⟩ := unbindDefinitions_total ((x, ann, defn) :: (collectDefinitions body).1) s2
      obtain ⟨e3, _, _⟩ := unbindDefinitions_get _ _ _ _ h3
      unfold resolveAux
      simp only [StateT_bind_some]
      exact ⟨_, _, ⟨(), sb, hb, p0, s0, h0, p1, s1, h1, p2, s2, h2, (), s3, h3, rfl⟩,
        e3.trans (e2.trans (e1.trans (e0.trans eb)))⟩
theorem resolveOpt_complete : ∀ (o : OptSrc) (depth : Nat) (Γ : Stack) (st : RState),
    RInv True st.ctx Γ → depth = Γ.length → (∃ u, toDBOpt Γ o = some u) →
    ∃ res st', resolveOpt o depth st = some (res, st') ∧ st'.errors = st.errors
  | .none, depth, Γ, st, hinv, hd, hs => by
      unfold resolveOpt; exact ⟨_, _, rfl, rfl⟩
  | .some t, depth, Γ, st, hinv, hd, hs => by
      obtain ⟨u, hu⟩ := hs
      simp only [toDBOpt] at hu
      obtain ⟨p1, s1, h1, e1⟩ := resolveAux_complete t none depth Γ st hinv hd ⟨u, hu⟩
      unfold resolveOpt
      simp only [StateT_bind_some]
      exact ⟨_, _, ⟨p1, s1, h1, rfl⟩, e1⟩
theorem resolveAnnotation_complete : ∀ (o : OptSrc) (n i newDepth : Nat) (Γ : Stack) (st : RState),
    RInv True st.ctx Γ → newDepth = Γ.length → (∃ u, toDBAnn Γ o n i = some u) →
    ∃ res st', resolveAnnotation o n i newDepth st = some (res, st') ∧ st'.errors = st.errors
  | .none, n, i, depth, Γ, st, hinv, hd, hs => by
      unfold resolveAnnotation; exact ⟨_, _, rfl, rfl⟩
  | .some t, n, i, depth, Γ, st, hinv, hd, hs => by
      obtain ⟨u, hu⟩ := hs
      simp only [toDBAnn] at hu
      obtain ⟨p1, s1, h1, e1⟩ := resolveAux_complete t none depth Γ st hinv hd ⟨u, hu⟩
      unfold resolveAnnotation
      simp only [StateT_bind_some]
      exact ⟨_, _, ⟨p1, s1, h1, rfl⟩, e1⟩
end

/-- PENDING `C08_resolve_complete_unrestricted` is FALSE of the model as stated, for the same reason as
`C08_resolve_sound_unrestricted`: with the key `_` in the map an occurrence of `_` resolves to a variable,
not to the hole the specification prescribes. -/
theorem C08_resolve_complete_refuted : ¬ C08_resolve_complete_unrestricted := by
  intro h
  obtain ⟨r, st', h1, _, h3⟩ := h (.mk ⟨0, 0⟩ false (.var placeholder) []) []
    { ctx := [(placeholder, 0)], errors := [], nextHole := 0 } (.hole 0 0)
    (by
      intro x hx
      have : (x == placeholder) = false := by simp [hx]
      simp [Ctx.get, Stack.index, List.lookup_cons, this])
    (by simp [toDB, toDBV])
  unfold resolve at h1
  simp only [StateT_bind_some] at h1
  obtain ⟨p1, s1, h1, h2⟩ := h1
  obtain ⟨rfl, rfl⟩ := pure_inv h2
  unfold resolveAux at h1
  simp [Ctx.get] at h1
  obtain ⟨rfl, rfl⟩ := h1
  simp [RTm.erase, eraseHoleIds] at h3

/-- Corrected statement (the placeholder is not a key of the map). -/
def C08_resolve_complete_fixed_stmt : Prop :=
  ∀ (t : Src) (Γ : Stack) (st : RState) (u : Tm),
    CtxAgrees st.ctx Γ → st.ctx.get placeholder = none → toDB Γ t = some u →
    ∃ r st', resolve t Γ.length st = some (r, st') ∧ st'.errors = st.errors ∧ eraseHoleIds r.erase = u
theorem C08_resolve_complete_fixed : C08_resolve_complete_fixed_stmt := by
  intro t Γ st u hag hph hu
  have hinv : RInv True st.ctx Γ := ⟨hag, fun _ => hph⟩
  obtain ⟨res, st', h, e⟩ := resolveAux_complete t none Γ.length Γ st hinv rfl ⟨u, hu⟩
  have hs := (resolveAux_sound t none Γ.length Γ st res st' hinv rfl h (le_of_errors_eq e)).2 trivial
  refine ⟨res.2, st', ?_, e, ?_⟩
  · unfold resolve
    simp only [StateT_bind_some]
    exact ⟨res, st', h, rfl⟩
  · have := hs.2
    rw [hu] at this
    exact (Option.some.inj this).symm

/-- On success the name→depth map is left as it was found (sibling scopes can re-use a name). -/
def C08_context_restored_stmt : Prop :=
  ∀ (t : Src) (Γ : Stack) (st st' : RState) (r : RTm),
    CtxAgrees st.ctx Γ → resolve t Γ.length st = some (r, st') → st'.errors = st.errors →
    CtxAgrees st'.ctx Γ
theorem C08_context_restored : C08_context_restored_stmt := by
  intro t Γ st st' r hag h he
  unfold resolve at h
  simp only [StateT_bind_some] at h
  obtain ⟨p1, s1, h1, h2⟩ := h
  obtain ⟨rfl, rfl⟩ := pure_inv h2
  have := resolveAux_sound (p := False) t none Γ.length Γ st p1 s1 ⟨hag, fun hf => hf.elim⟩ rfl h1
    (by rw [he]; exact Nat.le_refl _)
  exact this.1.1

/-- Every `_` and every omitted annotation yields its own cell: holes are allocated with strictly
increasing identifiers, never reused. -/
def C08_holes_fresh_stmt : Prop :=
  ∀ (t : Src) (depth : Nat) (st st' : RState) (r : RTm),
    resolve t depth st = some (r, st') → st.nextHole ≤ st'.nextHole
theorem C08_holes_fresh : C08_holes_fresh_stmt := by
  intro t depth st st' r h
  exact (resolve_mono h).hole

/-! ## Non-vacuity -/

private def v (x : Name) : Src := .mk ⟨0, 0⟩ false (.var x) []
-- `x => (y => x y) x` resolves to indices 1, 0, 0
example :
    toDB [] (.mk ⟨0, 0⟩ false (.lam ⟨⟨0, 0⟩, 1⟩ false .none
      (.mk ⟨0, 0⟩ false (.app (.mk ⟨0, 0⟩ false (.lam ⟨⟨0, 0⟩, 2⟩ false .none
        (.mk ⟨0, 0⟩ false (.app (v 1) (v 2)) [])) []) (v 1)) [])) [])
    = some (.lam 1 false (.hole 0 0) (.app (.lam 2 false (.hole 0 0) (.app (.var 1 1) (.var 2 0))) (.var 1 0))) := by
  decide
-- shadowing is an error of the specification
example : toDB [some 1] (.mk ⟨0, 0⟩ false (.lam ⟨⟨0, 0⟩, 1⟩ false .none (v 1)) []) = none := by decide
