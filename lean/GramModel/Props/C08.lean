import GramModel.Parser
import GramModel.Lemmas.Names

/-!
# C08 — every variable occurrence is bound to the right binder

`toDB` is the specification: resolution over a binder **stack** (innermost first; a `_` binder
occupies an anonymous slot).  The model `PModel.resolveAux` instead mirrors the Rust: a name→depth
map with `insert`/`remove` where the scope guards run, `depth - 1 - variable_depth`, `depth + i`,
`new_depth`.  Hole identities are irrelevant to binding; both sides are compared with hole ids
erased.
-/

open PModel

-- forget hole identities
mutual
def eraseHoleIds : Tm → Tm
  | .hole _ s => .hole 0 s
  | .lam x im d b => .lam x im (eraseHoleIds d) (eraseHoleIds b)
  | .pi x im d b => .pi x im (eraseHoleIds d) (eraseHoleIds b)
  | .app f a => .app (eraseHoleIds f) (eraseHoleIds a)
  | .letg ds b => .letg (eraseHoleIdsDefs ds) (eraseHoleIds b)
  | .neg a => .neg (eraseHoleIds a)
  | .bin op a b => .bin op (eraseHoleIds a) (eraseHoleIds b)
  | .ite c a b => .ite (eraseHoleIds c) (eraseHoleIds a) (eraseHoleIds b)
  | t => t
def eraseHoleIdsDefs : Defs → Defs
  | .nil => .nil
  | .cons x a d r => .cons x (eraseHoleIds a) (eraseHoleIds d) (eraseHoleIdsDefs r)
end

abbrev Stack := List (Option Name)

/-- the index of the innermost binder named `x` -/
def Stack.index (Γ : Stack) (x : Name) : Option Nat := Γ.findIdx? (· == some x)

/-- entering a binder named `x`: `_` adds an anonymous slot; a name already in scope is an error -/
def Stack.bind (Γ : Stack) (x : Name) : Option Stack :=
  if x = placeholder then some (none :: Γ)
  else if (Γ.index x).isSome then none else some (some x :: Γ)

/-- the names of a chain of nested lets (following the body chain), in source order -/
def letNames : Src → List Name
  | .mk _ _ (.let_ x _ _ body) _ => x.name :: letNames body
  | _ => []

/-- push the names of a group, in source order (so that the last definition is index 0) -/
def Stack.bindAll (Γ : Stack) : List Name → Option Stack
  | [] => some Γ
  | x :: xs => match Γ.bind x with
    | none => none
    | some Γ' => Stack.bindAll Γ' xs

-- The specification.  `toDBChain Γ n i t`: `t` is what follows definition `i - 1` of a group of `n`
-- definitions whose names are all already on the stack `Γ`.  (`toDBV` is `toDB` on the variant; the
-- split keeps the recursion structural over the mutual `Src`/`SrcV`/`OptSrc`.)
mutual
def toDB (Γ : Stack) (t : Src) : Option Tm :=
  match t with
  | .mk _ _ v _ => toDBV Γ v
def toDBV (Γ : Stack) (v : SrcV) : Option Tm :=
  match v with
  | .parseError => none
  | .type => some .type
  | .int => some .int
  | .bool => some .bool
  | .tt => some .tt
  | .ff => some .ff
  | .lit n => some (.lit n)
  | .var x =>
      if x = placeholder then some (.hole 0 0)
      else match Γ.index x with
        | some i => some (.var x i)
        | none => none
  | .lam x im dom body =>
      match toDBOpt Γ dom, Γ.bind x.name with
      | some d, some Γ' =>
        match toDB Γ' body with
        | some b => some (.lam x.name im d b)
        | none => none
      | _, _ => none
  | .pi x im dom cod =>
      match toDB Γ dom, Γ.bind x.name with
      | some d, some Γ' =>
        match toDB Γ' cod with
        | some c => some (.pi x.name im d c)
        | none => none
      | _, _ => none
  | .app f a =>
      match toDB Γ f, toDB Γ a with
      | some f', some a' => some (.app f' a')
      | _, _ => none
  | .let_ x ann defn body =>
      let names := x.name :: letNames body
      match Γ.bindAll names with
      | none => none
      | some Γ' =>
        match toDBAnn Γ' ann names.length 0, toDB Γ' defn, toDBChain Γ' names.length 1 body with
        | some a, some d, some (rest, b) => some (.letg (.cons x.name a d rest) b)
        | _, _, _ => none
  | .neg a => match toDB Γ a with | some a' => some (.neg a') | none => none
  | .bin op a b =>
      match toDB Γ a, toDB Γ b with
      | some a', some b' => some (.bin op a' b')
      | _, _ => none
  | .ite c a b =>
      match toDB Γ c, toDB Γ a, toDB Γ b with
      | some c', some a', some b' => some (.ite c' a' b')
      | _, _, _ => none
def toDBChain (Γ : Stack) (n i : Nat) (t : Src) : Option (Defs × Tm) :=
  match t with
  | .mk _ _ v _ => toDBChainV Γ n i v
def toDBChainV (Γ : Stack) (n i : Nat) (v : SrcV) : Option (Defs × Tm) :=
  match v with
  | .let_ x ann defn body =>
      match toDBAnn Γ ann n i, toDB Γ defn, toDBChain Γ n (i + 1) body with
      | some a, some d, some (rest, b) => some (.cons x.name a d rest, b)
      | _, _, _ => none
  | .parseError => none
  | .type => some (.nil, .type)
  | .int => some (.nil, .int)
  | .bool => some (.nil, .bool)
  | .tt => some (.nil, .tt)
  | .ff => some (.nil, .ff)
  | .lit k => some (.nil, .lit k)
  | .var x =>
      if x = placeholder then some (.nil, .hole 0 0)
      else match Γ.index x with
        | some j => some (.nil, .var x j)
        | none => none
  | .lam x im dom body =>
      match toDBOpt Γ dom, Γ.bind x.name with
      | some d, some Γ' =>
        match toDB Γ' body with
        | some b => some (.nil, .lam x.name im d b)
        | none => none
      | _, _ => none
  | .pi x im dom cod =>
      match toDB Γ dom, Γ.bind x.name with
      | some d, some Γ' =>
        match toDB Γ' cod with
        | some c => some (.nil, .pi x.name im d c)
        | none => none
      | _, _ => none
  | .app f a =>
      match toDB Γ f, toDB Γ a with
      | some f', some a' => some (.nil, .app f' a')
      | _, _ => none
  | .neg a => match toDB Γ a with | some a' => some (.nil, .neg a') | none => none
  | .bin op a b =>
      match toDB Γ a, toDB Γ b with
      | some a', some b' => some (.nil, .bin op a' b')
      | _, _ => none
  | .ite c a b =>
      match toDB Γ c, toDB Γ a, toDB Γ b with
      | some c', some a', some b' => some (.nil, .ite c' a' b')
      | _, _, _ => none
def toDBOpt (Γ : Stack) (o : OptSrc) : Option Tm :=
  match o with
  | .none => some (.hole 0 0)
  | .some t => toDB Γ t
-- an omitted annotation of definition `i` of `n` is a hole that lives outside the group
def toDBAnn (Γ : Stack) (o : OptSrc) (n i : Nat) : Option Tm :=
  match o with
  | .none => some (.hole 0 (n - i))
  | .some t => toDB Γ t
end

/-- the innermost body of a chain is resolved like any other term -/
def C08_chain_body_is_toDB_stmt : Prop :=
  ∀ (Γ : Stack) (n i : Nat) (v : SrcV), (∀ x a d b, v ≠ .let_ x a d b) →
    toDBChainV Γ n i v = (toDBV Γ v).map (fun t => (Defs.nil, t))
theorem C08_chain_body_is_toDB : C08_chain_body_is_toDB_stmt := by
  intro Γ n i v hv
  cases v <;> simp only [toDBChainV, toDBV, Option.map] <;> (try (exact absurd rfl (hv _ _ _ _)))
    <;> (repeat' split) <;> simp_all

/-- the name→depth map describes the stack: `x ↦ d` iff the binder at stack index `|Γ| - 1 - d`
is `x` and no inner binder has the same name -/
def CtxAgrees (c : Ctx) (Γ : Stack) : Prop :=
  ∀ x : Name, x ≠ placeholder → c.get x = (Γ.index x).map (fun i => Γ.length - 1 - i)

/-! ### Proof machinery: the stack, the invariant, the binder steps, and the main induction -/

theorem Stack.index_cons (a : Option Name) (Γ : Stack) (x : Name) :
    Stack.index (a :: Γ) x = if a = some x then some 0 else (Stack.index Γ x).map (· + 1) := by
  simp only [Stack.index, List.findIdx?_cons]
  by_cases h : a = some x <;> simp [h]

theorem Stack.index_lt : ∀ (Γ : Stack) (x : Name) (i : Nat), Stack.index Γ x = some i → i < Γ.length
  | [], x, i, h => by simp [Stack.index] at h
  | a :: Γ, x, i, h => by
      rw [Stack.index_cons] at h
      split at h
      · simp at h; subst h; simp
      · cases h' : Stack.index Γ x with
        | none => simp [h'] at h
        | some j =>
          simp [h'] at h; subst h
          have := Stack.index_lt Γ x j h'
          simp; omega

/-- the stack slot a binder named `x` occupies -/
def slot (x : Name) : Option Name := if x = placeholder then none else some x

theorem Stack.bind_eq (Γ : Stack) (x : Name) :
    Stack.bind Γ x = if x ≠ placeholder ∧ (Stack.index Γ x).isSome then none else some (slot x :: Γ) := by
  unfold Stack.bind slot
  by_cases h : x = placeholder
  · simp [h]
  · by_cases h2 : (Stack.index Γ x).isSome <;> simp [h, h2]

/-- `CtxAgrees`, plus (when `p` holds) the placeholder is not a key of the map. -/
def RInv (p : Prop) (c : Ctx) (Γ : Stack) : Prop :=
  CtxAgrees c Γ ∧ (p → c.get placeholder = none)

theorem RInv.anon {p : Prop} {c : Ctx} {Γ : Stack} (h : RInv p c Γ) : RInv p c (none :: Γ) := by
  refine ⟨?_, h.2⟩
  intro y hy
  rw [h.1 y hy, Stack.index_cons]
  cases hi : Stack.index Γ y with
  | none => simp
  | some i => simp; omega

theorem RInv.insert {p : Prop} {c : Ctx} {Γ : Stack} {x : Name} (h : RInv p c Γ)
    (hx : x ≠ placeholder) (hi : Stack.index Γ x = none) :
    RInv p (c.insert x Γ.length) (some x :: Γ) := by
  refine ⟨?_, ?_⟩
  · intro y hy
    rw [Ctx.get_insert, Stack.index_cons]
    by_cases hyx : y = x
    · subst hyx; simp
    · have : ¬ (some x = some y) := by simp; exact fun e => hyx e.symm
      rw [if_neg hyx, if_neg this, h.1 y hy]
      cases hi : Stack.index Γ y with
      | none => simp
      | some i => simp; omega
  · intro hp
    rw [Ctx.get_insert, if_neg (fun e => hx e.symm)]
    exact h.2 hp

theorem RInv.remove_slot {p : Prop} {c : Ctx} {Γ : Stack} {x : Name} (h : RInv p c (slot x :: Γ))
    (hi : x ≠ placeholder → Stack.index Γ x = none) : RInv p (c.remove x) Γ := by
  refine ⟨?_, ?_⟩
  · intro y hy
    rw [Ctx.get_remove]
    by_cases hyx : y = x
    · subst hyx; simp [hi hy]
    · rw [if_neg hyx, h.1 y hy, Stack.index_cons]
      have : ¬ (slot x = some y) := by
        unfold slot; split <;> simp; exact fun e => hyx e.symm
      rw [if_neg this]
      cases hi : Stack.index Γ y with
      | none => simp
      | some i => simp; omega
  · intro hp
    rw [Ctx.get_remove]; split
    · rfl
    · exact h.2 hp

theorem bindName_spec {p : Prop} {v : SrcVar} {d : Nat} {Γ : Stack} {st st' : RState} {u : Unit}
    (hinv : RInv p st.ctx Γ) (hd : d = Γ.length) (h : bindName v d st = some (u, st'))
    (he : st'.errors = st.errors) :
    Stack.bind Γ v.name = some (slot v.name :: Γ) ∧ RInv p st'.ctx (slot v.name :: Γ) ∧
      (v.name ≠ placeholder → Stack.index Γ v.name = none) := by
  unfold bindName at h
  by_cases hv : v.name = placeholder
  · simp [hv] at h
    subst h
    simp [Stack.bind_eq, hv, slot]
    exact hinv.anon
  · have hv' : (v.name != placeholder) = true := by simp [hv]
    simp only [hv', if_true, Option.some.injEq, Prod.mk.injEq] at h
    obtain ⟨_, rfl⟩ := h
    simp only at he
    have hck : st.ctx.containsKey v.name = false := by
      cases hc : st.ctx.containsKey v.name with
      | false => rfl
      | true => simp [hc] at he
    have hidx : Stack.index Γ v.name = none := by
      have := hinv.1 v.name hv
      rw [Ctx.containsKey_eq] at hck
      cases hi : Stack.index Γ v.name with
      | none => rfl
      | some i => rw [hi] at this; simp [this] at hck
    refine ⟨?_, ?_, fun _ => hidx⟩
    · simp [Stack.bind_eq, hidx]
    · subst hd
      have : slot v.name = some v.name := by simp [slot, hv]
      rw [this]
      exact hinv.insert hv hidx

def defNames (ds : List (SrcVar × OptSrc × Src)) : List Name := ds.map (·.1.name)

@[simp] theorem defNames_nil : defNames [] = [] := rfl
@[simp] theorem defNames_cons (v : SrcVar) (a : OptSrc) (d : Src) (rest : List (SrcVar × OptSrc × Src)) :
    defNames ((v, a, d) :: rest) = v.name :: defNames rest := rfl

theorem collectDefinitions_names : ∀ (t : Src), defNames (collectDefinitions t).1 = letNames t
  | .mk _ _ (.let_ v ann defn body) _ => by
      simp only [collectDefinitions, letNames, defNames, List.map_cons]
      have := collectDefinitions_names body
      simp only [defNames] at this
      rw [this]
  | .mk _ _ .parseError _ | .mk _ _ .type _ | .mk _ _ (.var _) _ | .mk _ _ (.lam ..) _
  | .mk _ _ (.pi ..) _ | .mk _ _ (.app ..) _ | .mk _ _ .int _ | .mk _ _ (.lit _) _
  | .mk _ _ (.neg _) _ | .mk _ _ (.bin ..) _ | .mk _ _ .bool _ | .mk _ _ .tt _ | .mk _ _ .ff _
  | .mk _ _ (.ite ..) _ => by simp [collectDefinitions, letNames, defNames]

theorem bindDefinitions_spec {p : Prop} (depth : Nat) :
    ∀ (ds : List (SrcVar × OptSrc × Src)) (i : Nat) (Γ : Stack) (st st' : RState) (u : Unit),
    RInv p st.ctx Γ → depth + i = Γ.length → bindDefinitions depth ds i st = some (u, st') →
    st'.errors = st.errors →
    ∃ Γ', Stack.bindAll Γ (defNames ds) = some Γ' ∧ RInv p st'.ctx Γ' ∧
      Γ'.length = Γ.length + ds.length
  | [], i, Γ, st, st', u, hinv, hd, h, he => by
      simp only [bindDefinitions, StateT_pure_some] at h
      rw [← h.2]
      exact ⟨Γ, by simp [defNames, Stack.bindAll], hinv, by simp⟩
  | (v, a, d) :: rest, i, Γ, st, st', u, hinv, hd, h, he => by
      simp only [bindDefinitions, StateT_bind_some] at h
      obtain ⟨u1, s1, h1, h2⟩ := h
      have hs := (bindName_mono h1).split (bindDefinitions_mono _ _ _ _ _ _ h2) he
      obtain ⟨hb, hinv1, _⟩ := bindName_spec hinv hd h1 hs.1
      obtain ⟨Γ', hb', hinv', hlen⟩ := bindDefinitions_spec depth rest (i + 1) (slot v.name :: Γ)
        s1 st' u hinv1 (by simp; omega) h2 hs.2
      refine ⟨Γ', ?_, hinv', ?_⟩
      · simp only [defNames, List.map_cons, Stack.bindAll, hb]
        exact hb'
      · rw [hlen]; simp; omega

theorem bindAll_index : ∀ (names : List Name) (Γ Γ' : Stack), Stack.bindAll Γ names = some Γ' →
    Γ'.length = Γ.length + names.length ∧
    ∀ y, y ≠ placeholder → (y ∈ names → Stack.index Γ y = none) ∧
      (y ∉ names → Stack.index Γ' y = (Stack.index Γ y).map (· + names.length))
  | [], Γ, Γ', h => by
      simp [Stack.bindAll] at h; subst h
      refine ⟨by simp, fun y _ => ⟨by simp, fun _ => ?_⟩⟩
      cases Stack.index Γ y <;> simp
  | x :: xs, Γ, Γ', h => by
      simp only [Stack.bindAll] at h
      have hbe := Stack.bind_eq Γ x
      by_cases hx : x ≠ placeholder ∧ (Stack.index Γ x).isSome
      · rw [if_pos hx] at hbe; rw [hbe] at h; simp at h
      · rw [if_neg hx] at hbe; rw [hbe] at h
        simp only at h
        obtain ⟨hlen, hidx⟩ := bindAll_index xs (slot x :: Γ) Γ' h
        refine ⟨by rw [hlen]; simp; omega, fun y hy => ⟨?_, ?_⟩⟩
        · intro hmem
          rcases List.mem_cons.mp hmem with rfl | hmem
          · cases hi : Stack.index Γ y with
            | none => rfl
            | some i => exact absurd ⟨hy, by simp [hi]⟩ hx
          · have := (hidx y hy).1 hmem
            rw [Stack.index_cons] at this
            split at this
            · simp at this
            · cases hi : Stack.index Γ y with
              | none => rfl
              | some i => simp [hi] at this
        · intro hmem
          have hyx : y ≠ x := fun e => hmem (by simp [e])
          have hmem' : y ∉ xs := fun e => hmem (by simp [e])
          rw [(hidx y hy).2 hmem', Stack.index_cons]
          have : ¬ (slot x = some y) := by
            unfold slot; split <;> simp; exact fun e => hyx e.symm
          rw [if_neg this]
          cases Stack.index Γ y with
          | none => simp
          | some i => simp; omega

theorem unbindDefinitions_get : ∀ (ds : List (SrcVar × OptSrc × Src)) (st st' : RState) (u : Unit),
    unbindDefinitions ds st = some (u, st') →
    st'.errors = st.errors ∧ st'.nextHole = st.nextHole ∧
    ∀ y, st'.ctx.get y = if y ∈ defNames ds ∧ y ≠ placeholder then none else st.ctx.get y
  | [], st, st', u, h => by
      simp only [unbindDefinitions, StateT_pure_some] at h
      rw [← h.2]; simp [defNames]
  | (v, _, _) :: rest, st, st', u, h => by
      simp only [unbindDefinitions] at h
      split at h
      · rename_i hv
        simp only [StateT_bind_some] at h
        obtain ⟨a, s1, h1, h2⟩ := h
        obtain ⟨e1, e2, e3⟩ := unbindDefinitions_get rest s1 st' u h2
        unfold unbindName at h1
        simp only [Option.some.injEq, Prod.mk.injEq] at h1
        obtain ⟨_, rfl⟩ := h1
        refine ⟨e1, e2, fun y => ?_⟩
        rw [e3 y]
        simp only [defNames_cons, List.mem_cons, Ctx.get_remove]
        have hv' : v.name ≠ placeholder := by simpa using hv
        by_cases hyv : y = v.name
        · subst hyv; simp [hv']
        · simp [hyv]
      · rename_i hv
        have hv' : v.name = placeholder := by simpa using hv
        obtain ⟨e1, e2, e3⟩ := unbindDefinitions_get rest st st' u h
        refine ⟨e1, e2, fun y => ?_⟩
        rw [e3 y]
        simp only [defNames_cons, List.mem_cons]
        by_cases hyv : y = v.name
        · subst hyv; simp [hv']
        · simp [hyv]

/-- the domain the specification gives a lambda: the resolved annotation, or a hole -/
def optDom (a : Option RTm) : Tm :=
  match a with
  | some d => eraseHoleIds d.erase
  | none => .hole 0 0

theorem RInv.restore {p : Prop} {c c' : Ctx} {Γ Γ' : Stack} {names : List Name}
    (h : RInv p c Γ') (hb : Stack.bindAll Γ names = some Γ')
    (hget : ∀ y, c'.get y = if y ∈ names ∧ y ≠ placeholder then none else c.get y) :
    RInv p c' Γ := by
  obtain ⟨hlen, hidx⟩ := bindAll_index names Γ Γ' hb
  refine ⟨?_, ?_⟩
  · intro y hy
    rw [hget y]
    by_cases hm : y ∈ names
    · simp [hm, hy, (hidx y hy).1 hm]
    · simp only [hm, false_and, if_false]
      rw [h.1 y hy, (hidx y hy).2 hm, hlen]
      cases Stack.index Γ y with
      | none => simp
      | some i => simp; omega
  · intro hp
    rw [hget]; simp; exact h.2 hp

def ResOK (Γ : Stack) (chain : Option (Nat × Nat)) (t : Src) (res : RDefs × RTm) : Prop :=
  match chain with
  | none => res.1 = .nil ∧ toDB Γ t = some (eraseHoleIds res.2.erase)
  | some (n, i) => toDBChain Γ n i t = some (eraseHoleIdsDefs res.1.erase, eraseHoleIds res.2.erase)

theorem ResOK.of_nonlet {Γ : Stack} {chain : Option (Nat × Nat)} {range : SourceRange} {g : Bool}
    {v : SrcV} {es : List PErr} {r : RTm} (hv : ∀ x a d b, v ≠ .let_ x a d b)
    (h : toDBV Γ v = some (eraseHoleIds r.erase)) : ResOK Γ chain (.mk range g v es) (.nil, r) := by
  cases chain with
  | none => exact ⟨rfl, by simp only [toDB]; exact h⟩
  | some c =>
    obtain ⟨n, i⟩ := c
    simp only [ResOK, toDBChain]
    rw [C08_chain_body_is_toDB Γ n i v hv, h]
    simp [RDefs.erase, eraseHoleIdsDefs]

mutual
theorem resolveAux_sound {p : Prop} : ∀ (t : Src) (chain : Option (Nat × Nat)) (depth : Nat)
    (Γ : Stack) (st : RState) (res : RDefs × RTm) (st' : RState),
    RInv p st.ctx Γ → depth = Γ.length → resolveAux t chain depth st = some (res, st') →
    st'.errors.length ≤ st.errors.length → RInv p st'.ctx Γ ∧ (p → ResOK Γ chain t res)
  | .mk range g .parseError es, chain, depth, Γ, st, res, st', hinv, hd, h, he => by
      unfold resolveAux at h; simp at h
  | .mk range g .type es, chain, depth, Γ, st, res, st', hinv, hd, h, he => by
      unfold resolveAux at h
      obtain ⟨rfl, rfl⟩ := pure_inv h
      exact ⟨hinv, fun _ => ResOK.of_nonlet (by simp) (by simp [toDBV, RTm.erase, eraseHoleIds])⟩
  | .mk range g .int es, chain, depth, Γ, st, res, st', hinv, hd, h, he => by
      unfold resolveAux at h
      obtain ⟨rfl, rfl⟩ := pure_inv h
      exact ⟨hinv, fun _ => ResOK.of_nonlet (by simp) (by simp [toDBV, RTm.erase, eraseHoleIds])⟩
  | .mk range g .bool es, chain, depth, Γ, st, res, st', hinv, hd, h, he => by
      unfold resolveAux at h
      obtain ⟨rfl, rfl⟩ := pure_inv h
      exact ⟨hinv, fun _ => ResOK.of_nonlet (by simp) (by simp [toDBV, RTm.erase, eraseHoleIds])⟩
  | .mk range g .tt es, chain, depth, Γ, st, res, st', hinv, hd, h, he => by
      unfold resolveAux at h
      obtain ⟨rfl, rfl⟩ := pure_inv h
      exact ⟨hinv, fun _ => ResOK.of_nonlet (by simp) (by simp [toDBV, RTm.erase, eraseHoleIds])⟩
  | .mk range g .ff es, chain, depth, Γ, st, res, st', hinv, hd, h, he => by
      unfold resolveAux at h
      obtain ⟨rfl, rfl⟩ := pure_inv h
      exact ⟨hinv, fun _ => ResOK.of_nonlet (by simp) (by simp [toDBV, RTm.erase, eraseHoleIds])⟩
  | .mk range g (.lit n) es, chain, depth, Γ, st, res, st', hinv, hd, h, he => by
      unfold resolveAux at h
      obtain ⟨rfl, rfl⟩ := pure_inv h
      exact ⟨hinv, fun _ => ResOK.of_nonlet (by simp) (by simp [toDBV, RTm.erase, eraseHoleIds])⟩
  | .mk range g (.var x) es, chain, depth, Γ, st, res, st', hinv, hd, h, he => by
      unfold resolveAux at h
      cases hg : st.ctx.get x with
      | some vd =>
        simp only [hg, Option.some.injEq, Prod.mk.injEq] at h
        obtain ⟨rfl, rfl⟩ := h
        refine ⟨hinv, fun hp => ResOK.of_nonlet (by simp) ?_⟩
        have hx : x ≠ placeholder := by
          intro e; rw [e, hinv.2 hp] at hg; simp at hg
        have := hinv.1 x hx
        rw [hg] at this
        cases hi : Stack.index Γ x with
        | none => simp [hi] at this
        | some i =>
          simp [hi] at this
          have hlt := Stack.index_lt Γ x i hi
          simp [toDBV, hx, hi, RTm.erase, eraseHoleIds]
          omega
      | none =>
        simp only [hg, Option.some.injEq, Prod.mk.injEq] at h
        obtain ⟨rfl, rfl⟩ := h
        simp only at he
        have hx : x = placeholder := by
          by_cases hx : x = placeholder
          · exact hx
          · exfalso; simp [hx] at he; omega
        refine ⟨hinv, fun hp => ResOK.of_nonlet (by simp) ?_⟩
        simp [toDBV, hx, RTm.erase, eraseHoleIds]
  | .mk range g (.lam x imp dom body) es, chain, depth, Γ, st, res, st', hinv, hd, h, he => by
      unfold resolveAux at h
      simp only [StateT_bind_some] at h
      obtain ⟨a, s1, h1, u, s2, h2, h3⟩ := h
      have l1 := (resolveOpt_mono _ _ _ _ _ h1).len
      have m2 := bindName_mono h2
      have l2 := m2.len
      have key : ∀ (d' : RTm) (s3 : RState), s3.ctx = s2.ctx → s3.errors = s2.errors →
          optDom a = eraseHoleIds d'.erase →
          (∃ p4 s4, resolveAux body none (depth + 1) s3 = some (p4, s4) ∧
            ∃ u' s5, unbindName x.name s4 = some (u', s5) ∧
              (pure (RDefs.nil, RTm.mk (some range) (RTmV.lam x.name imp d' p4.snd)) : ResolveM _) s5
                = some (res, st')) →
          RInv p st'.ctx Γ ∧ (p → ResOK Γ chain (.mk range g (.lam x imp dom body) es) res) := by
        intro d' s3 hc3 he3 hdom ⟨p4, s4, h4, u', s5, h5, h6⟩
        have he3' := congrArg List.length he3
        have l4 := (resolveAux_mono _ _ _ _ _ _ h4).len
        have e5 := unbindName_inv h5
        obtain ⟨rfl, rfl⟩ := pure_inv h6
        subst e5
        simp only at he
        obtain ⟨i1, r1⟩ := resolveOpt_sound dom depth Γ st a s1 hinv hd h1 (by omega)
        obtain ⟨hb, i2, hidx⟩ := bindName_spec i1 hd h2 (m2.eq_of_len (by omega))
        rw [← hc3] at i2
        obtain ⟨i4, r4⟩ := resolveAux_sound body none (depth + 1) (slot x.name :: Γ) s3 p4 s4 i2
          (by simp [hd]) h4 (by omega)
        refine ⟨i4.remove_slot hidx, fun hp => ResOK.of_nonlet (by simp) ?_⟩
        have hdom' := r1 hp
        rw [hdom] at hdom'
        simp [toDBV, hdom', hb, (r4 hp).2, RTm.erase, eraseHoleIds]
      cases a with
      | some d =>
        simp only [StateT_bind_some] at h3
        obtain ⟨d', s3, h3, rest⟩ := h3
        obtain ⟨rfl, rfl⟩ := pure_inv h3
        exact key d s2 rfl rfl rfl rest
      | none =>
        simp only [StateT_bind_some] at h3
        obtain ⟨d', s3, h3, rest⟩ := h3
        obtain ⟨rfl, rfl⟩ := freshHole_inv h3
        exact key (RTm.mk none (RTmV.hole s2.nextHole 0))
          { ctx := s2.ctx, errors := s2.errors, nextHole := s2.nextHole + 1 } rfl rfl
          (by simp [optDom, RTm.erase, eraseHoleIds]) rest
  | .mk range g (.pi x imp dom cod) es, chain, depth, Γ, st, res, st', hinv, hd, h, he => by
      unfold resolveAux at h
      simp only [StateT_bind_some] at h
      obtain ⟨p1, s1, h1, u, s2, h2, p3, s3, h3, u', s4, h4, h5⟩ := h
      have l1 := (resolveAux_mono _ _ _ _ _ _ h1).len
      have m2 := bindName_mono h2
      have l2 := m2.len
      have l3 := (resolveAux_mono _ _ _ _ _ _ h3).len
      have e4 := unbindName_inv h4
      obtain ⟨rfl, rfl⟩ := pure_inv h5
      subst e4
      simp only at he
      obtain ⟨i1, r1⟩ := resolveAux_sound dom none depth Γ st p1 s1 hinv hd h1 (by omega)
      obtain ⟨hb, i2, hidx⟩ := bindName_spec i1 hd h2 (m2.eq_of_len (by omega))
      obtain ⟨i3, r3⟩ := resolveAux_sound cod none (depth + 1) (slot x.name :: Γ) s2 p3 s3 i2
        (by simp [hd]) h3 (by omega)
      refine ⟨i3.remove_slot hidx, fun hp => ResOK.of_nonlet (by simp) ?_⟩
      simp [toDBV, (r1 hp).2, hb, (r3 hp).2, RTm.erase, eraseHoleIds]
  | .mk range g (.app f a) es, chain, depth, Γ, st, res, st', hinv, hd, h, he => by
      unfold resolveAux at h
      simp only [StateT_bind_some] at h
      obtain ⟨p1, s1, h1, p2, s2, h2, h3⟩ := h
      obtain ⟨rfl, rfl⟩ := pure_inv h3
      have l1 := (resolveAux_mono _ _ _ _ _ _ h1).len
      have l2 := (resolveAux_mono _ _ _ _ _ _ h2).len
      obtain ⟨i1, r1⟩ := resolveAux_sound f none depth Γ st p1 s1 hinv hd h1 (by omega)
      obtain ⟨i2, r2⟩ := resolveAux_sound a none depth Γ s1 p2 s2 i1 hd h2 (by omega)
      refine ⟨i2, fun hp => ResOK.of_nonlet (by simp) ?_⟩
      simp [toDBV, (r1 hp).2, (r2 hp).2, RTm.erase, eraseHoleIds]
  | .mk range g (.neg a) es, chain, depth, Γ, st, res, st', hinv, hd, h, he => by
      unfold resolveAux at h
      simp only [StateT_bind_some] at h
      obtain ⟨p1, s1, h1, h3⟩ := h
      obtain ⟨rfl, rfl⟩ := pure_inv h3
      obtain ⟨i1, r1⟩ := resolveAux_sound a none depth Γ st p1 s1 hinv hd h1 he
      refine ⟨i1, fun hp => ResOK.of_nonlet (by simp) ?_⟩
      simp [toDBV, (r1 hp).2, RTm.erase, eraseHoleIds]
  | .mk range g (.bin o a b) es, chain, depth, Γ, st, res, st', hinv, hd, h, he => by
      unfold resolveAux at h
      simp only [StateT_bind_some] at h
      obtain ⟨p1, s1, h1, p2, s2, h2, h3⟩ := h
      obtain ⟨rfl, rfl⟩ := pure_inv h3
      have l1 := (resolveAux_mono _ _ _ _ _ _ h1).len
      have l2 := (resolveAux_mono _ _ _ _ _ _ h2).len
      obtain ⟨i1, r1⟩ := resolveAux_sound a none depth Γ st p1 s1 hinv hd h1 (by omega)
      obtain ⟨i2, r2⟩ := resolveAux_sound b none depth Γ s1 p2 s2 i1 hd h2 (by omega)
      refine ⟨i2, fun hp => ResOK.of_nonlet (by simp) ?_⟩
      simp [toDBV, (r1 hp).2, (r2 hp).2, RTm.erase, eraseHoleIds]
  | .mk range g (.ite c a b) es, chain, depth, Γ, st, res, st', hinv, hd, h, he => by
      unfold resolveAux at h
      simp only [StateT_bind_some] at h
      obtain ⟨p0, s0, h0, p1, s1, h1, p2, s2, h2, h3⟩ := h
      obtain ⟨rfl, rfl⟩ := pure_inv h3
      have l0 := (resolveAux_mono _ _ _ _ _ _ h0).len
      have l1 := (resolveAux_mono _ _ _ _ _ _ h1).len
      have l2 := (resolveAux_mono _ _ _ _ _ _ h2).len
      obtain ⟨i0, r0⟩ := resolveAux_sound c none depth Γ st p0 s0 hinv hd h0 (by omega)
      obtain ⟨i1, r1⟩ := resolveAux_sound a none depth Γ s0 p1 s1 i0 hd h1 (by omega)
      obtain ⟨i2, r2⟩ := resolveAux_sound b none depth Γ s1 p2 s2 i1 hd h2 (by omega)
      refine ⟨i2, fun hp => ResOK.of_nonlet (by simp) ?_⟩
      simp [toDBV, (r0 hp).2, (r1 hp).2, (r2 hp).2, RTm.erase, eraseHoleIds]
  | .mk range g (.let_ x ann defn body) es, some (n, i), depth, Γ, st, res, st', hinv, hd, h, he => by
      unfold resolveAux at h
      simp only [StateT_bind_some] at h
      obtain ⟨p0, s0, h0, p1, s1, h1, p2, s2, h2, h3⟩ := h
      obtain ⟨rfl, rfl⟩ := pure_inv h3
      have l0 := (resolveAnnotation_mono _ _ _ _ _ _ _ h0).len
      have l1 := (resolveAux_mono _ _ _ _ _ _ h1).len
      have l2 := (resolveAux_mono _ _ _ _ _ _ h2).len
      obtain ⟨i0, r0⟩ := resolveAnnotation_sound ann n i depth Γ st p0 s0 hinv hd h0 (by omega)
      obtain ⟨i1, r1⟩ := resolveAux_sound defn none depth Γ s0 p1 s1 i0 hd h1 (by omega)
      obtain ⟨i2, r2⟩ := resolveAux_sound body (some (n, i + 1)) depth Γ s1 p2 s2 i1 hd h2 (by omega)
      refine ⟨i2, fun hp => ?_⟩
      have r2' := r2 hp
      simp only [ResOK] at r2' ⊢
      simp [toDBChain, toDBChainV, r0 hp, (r1 hp).2, r2', RDefs.erase, eraseHoleIdsDefs] at r2' ⊢
  | .mk range g (.let_ x ann defn body) es, none, depth, Γ, st, res, st', hinv, hd, h, he => by
      unfold resolveAux at h
      simp only [StateT_bind_some] at h
      obtain ⟨u, sb, hb, p0, s0, h0, p1, s1, h1, p2, s2, h2, u', s3, h3, h4⟩ := h
      obtain ⟨rfl, rfl⟩ := pure_inv h4
      have mb := bindDefinitions_mono _ _ _ _ _ _ hb
      have lb := mb.len
      have l0 := (resolveAnnotation_mono _ _ _ _ _ _ _ h0).len
      have l1 := (resolveAux_mono _ _ _ _ _ _ h1).len
      have l2 := (resolveAux_mono _ _ _ _ _ _ h2).len
      obtain ⟨e1, e2, e3⟩ := unbindDefinitions_get _ _ _ _ h3
      have e1' := congrArg List.length e1
      obtain ⟨Γ', hbA, ib, hlen⟩ := bindDefinitions_spec depth _ 0 Γ st sb u hinv (by omega) hb
        (mb.eq_of_len (by omega))
      have hd' : depth + ((x, ann, defn) :: (collectDefinitions body).1).length = Γ'.length := by
        rw [hlen, hd]
      obtain ⟨i0, r0⟩ := resolveAnnotation_sound ann _ 0 _ Γ' sb p0 s0 ib hd' h0 (by omega)
      obtain ⟨i1, r1⟩ := resolveAux_sound defn none _ Γ' s0 p1 s1 i0 hd' h1 (by omega)
      obtain ⟨i2, r2⟩ := resolveAux_sound body (some (_, 1)) _ Γ' s1 p2 s2 i1 hd' h2 (by omega)
      refine ⟨i2.restore hbA e3, fun hp => ⟨rfl, ?_⟩⟩
      have r2' := r2 hp
      simp only [ResOK] at r2'
      have hn : defNames ((x, ann, defn) :: (collectDefinitions body).1) = x.name :: letNames body := by
        rw [defNames_cons, collectDefinitions_names]
      have hl : ((x, ann, defn) :: (collectDefinitions body).1).length = (x.name :: letNames body).length := by
        rw [← hn, defNames, List.length_map]
      rw [hn] at hbA
      rw [hl] at r0 r2'
      simp only [toDB, toDBV, hbA, r0 hp, (r1 hp).2, r2']
      simp [RTm.erase, RDefs.erase, eraseHoleIds, eraseHoleIdsDefs]
theorem resolveOpt_sound {p : Prop} : ∀ (o : OptSrc) (depth : Nat) (Γ : Stack) (st : RState)
    (res : Option RTm) (st' : RState),
    RInv p st.ctx Γ → depth = Γ.length → resolveOpt o depth st = some (res, st') →
    st'.errors.length ≤ st.errors.length →
    RInv p st'.ctx Γ ∧ (p → toDBOpt Γ o = some (optDom res))
  | .none, depth, Γ, st, res, st', hinv, hd, h, he => by
      unfold resolveOpt at h
      obtain ⟨rfl, rfl⟩ := pure_inv h
      exact ⟨hinv, fun _ => by simp [toDBOpt, optDom]⟩
  | .some t, depth, Γ, st, res, st', hinv, hd, h, he => by
      unfold resolveOpt at h
      simp only [StateT_bind_some] at h
      obtain ⟨p1, s1, h1, h3⟩ := h
      obtain ⟨rfl, rfl⟩ := pure_inv h3
      obtain ⟨i1, r1⟩ := resolveAux_sound t none depth Γ st p1 s1 hinv hd h1 he
      exact ⟨i1, fun hp => by simp [toDBOpt, optDom, (r1 hp).2]⟩
theorem resolveAnnotation_sound {p : Prop} : ∀ (o : OptSrc) (n i newDepth : Nat) (Γ : Stack)
    (st : RState) (res : RTm) (st' : RState),
    RInv p st.ctx Γ → newDepth = Γ.length → resolveAnnotation o n i newDepth st = some (res, st') →
    st'.errors.length ≤ st.errors.length →
    RInv p st'.ctx Γ ∧ (p → toDBAnn Γ o n i = some (eraseHoleIds res.erase))
  | .none, n, i, depth, Γ, st, res, st', hinv, hd, h, he => by
      unfold resolveAnnotation at h
      obtain ⟨rfl, rfl⟩ := freshHole_inv h
      exact ⟨hinv, fun _ => by simp [toDBAnn, RTm.erase, eraseHoleIds]⟩
  | .some t, n, i, depth, Γ, st, res, st', hinv, hd, h, he => by
      unfold resolveAnnotation at h
      simp only [StateT_bind_some] at h
      obtain ⟨p1, s1, h1, h3⟩ := h
      obtain ⟨rfl, rfl⟩ := pure_inv h3
      obtain ⟨i1, r1⟩ := resolveAux_sound t none depth Γ st p1 s1 hinv hd h1 he
      exact ⟨i1, fun hp => by simp [toDBAnn, (r1 hp).2]⟩
end

/-- **Soundness of resolution.**  If the model resolver, started in a state that describes the
stack `Γ`, finishes without reporting any error, then its output is exactly what the stack
specification prescribes: every variable occurrence carries the index of the innermost binder of
that name in scope, `_` is a fresh hole with shift 0, omitted annotations are holes shifted out of
their group. -/
def C08_resolve_sound_unrestricted : Prop :=
  ∀ (t : Src) (Γ : Stack) (st st' : RState) (r : RTm),
    CtxAgrees st.ctx Γ → resolve t Γ.length st = some (r, st') → st'.errors = st.errors →
    toDB Γ t = some (eraseHoleIds r.erase)

/-- PENDING `C08_resolve_sound_unrestricted` is FALSE of the model as stated: `CtxAgrees` says nothing about
the placeholder `_`, so the map may contain the key `_` (the Rust `parse` would build such a map
from a `context` slice containing `"_"`); the resolver then turns an occurrence of `_` into a
variable, whereas the specification prescribes a hole. -/
theorem C08_resolve_sound_refuted : ¬ C08_resolve_sound_unrestricted := by
  intro h
  have h1 := h (.mk ⟨0, 0⟩ false (.var placeholder) []) []
    { ctx := [(placeholder, 0)], errors := [], nextHole := 0 }
    { ctx := [(placeholder, 0)], errors := [], nextHole := 0 }
    (.mk (some ⟨0, 0⟩) (.var placeholder 0))
    (by
      intro x hx
      have : (x == placeholder) = false := by simp [hx]
      simp [Ctx.get, Stack.index, List.lookup_cons, this])
    (by
      unfold resolve
      simp only [StateT_bind_some]
      refine ⟨(.nil, .mk (some ⟨0, 0⟩) (.var placeholder 0)), _, ?_, rfl⟩
      unfold resolveAux
      simp [Ctx.get])
    rfl
  simp [toDB, toDBV, RTm.erase, eraseHoleIds] at h1

/-- Corrected statement: additionally, the placeholder is not a key of the map (true of every
state the resolver itself produces from such a state, and of `initialContext` for a context without
`"_"`). -/
def C08_resolve_sound_fixed_stmt : Prop :=
  ∀ (t : Src) (Γ : Stack) (st st' : RState) (r : RTm),
    CtxAgrees st.ctx Γ → st.ctx.get placeholder = none →
    resolve t Γ.length st = some (r, st') → st'.errors = st.errors →
    toDB Γ t = some (eraseHoleIds r.erase)
theorem C08_resolve_sound_fixed : C08_resolve_sound_fixed_stmt := by
  intro t Γ st st' r hag hph h he
  unfold resolve at h
  simp only [StateT_bind_some] at h
  obtain ⟨p1, s1, h1, h2⟩ := h
  obtain ⟨rfl, rfl⟩ := pure_inv h2
  have := resolveAux_sound (p := True) t none Γ.length Γ st p1 s1 ⟨hag, fun _ => hph⟩ rfl h1
    (by rw [he]; exact Nat.le_refl _)
  exact (this.2 trivial).2

/-- The same induction also covers the walk along a chain of definitions (`toDBChain`). -/
def C08_resolve_chain_sound_stmt : Prop :=
  ∀ (t : Src) (n i : Nat) (Γ : Stack) (st st' : RState) (ds : RDefs) (r : RTm),
    CtxAgrees st.ctx Γ → st.ctx.get placeholder = none →
    resolveAux t (some (n, i)) Γ.length st = some ((ds, r), st') → st'.errors = st.errors →
    toDBChain Γ n i t = some (eraseHoleIdsDefs ds.erase, eraseHoleIds r.erase)
theorem C08_resolve_chain_sound : C08_resolve_chain_sound_stmt := by
  intro t n i Γ st st' ds r hag hph h he
  have := resolveAux_sound (p := True) t (some (n, i)) Γ.length Γ st (ds, r) st'
    ⟨hag, fun _ => hph⟩ rfl h (by rw [he]; exact Nat.le_refl _)
  exact this.2 trivial

/-- **Completeness.**  If the specification resolves the tree then the model reports no error. -/
def C08_resolve_complete_unrestricted : Prop :=
  ∀ (t : Src) (Γ : Stack) (st : RState) (u : Tm),
    CtxAgrees st.ctx Γ → toDB Γ t = some u →
    ∃ r st', resolve t Γ.length st = some (r, st') ∧ st'.errors = st.errors ∧ eraseHoleIds r.erase = u

/-! ### Completeness: inversion of the specification, and the induction -/

theorem toDBV_lam_inv {Γ : Stack} {x im dom body u} (h : toDBV Γ (.lam x im dom body) = some u) :
    ∃ d b, toDBOpt Γ dom = some d ∧ Stack.bind Γ x.name = some (slot x.name :: Γ) ∧
      toDB (slot x.name :: Γ) body = some b := by
  simp only [toDBV] at h
  split at h
  · rename_i d Γ' hd hb
    have hb' := hb
    rw [Stack.bind_eq] at hb'
    split at hb'
    · simp at hb'
    · simp only [Option.some.injEq] at hb'
      subst hb'
      split at h
      · rename_i b hbody; exact ⟨d, b, hd, hb, hbody⟩
      · simp at h
  · simp at h

theorem toDBV_pi_inv {Γ : Stack} {x im dom cod u} (h : toDBV Γ (.pi x im dom cod) = some u) :
    ∃ d b, toDB Γ dom = some d ∧ Stack.bind Γ x.name = some (slot x.name :: Γ) ∧
      toDB (slot x.name :: Γ) cod = some b := by
  simp only [toDBV] at h
  split at h
  · rename_i d Γ' hd hb
    have hb' := hb
    rw [Stack.bind_eq] at hb'
    split at hb'
    · simp at hb'
    · simp only [Option.some.injEq] at hb'
      subst hb'
      split at h
      · rename_i b hbody; exact ⟨d, b, hd, hb, hbody⟩
      · simp at h
  · simp at h

theorem toDBV_app_inv {Γ : Stack} {f a u} (h : toDBV Γ (.app f a) = some u) :
    ∃ f' a', toDB Γ f = some f' ∧ toDB Γ a = some a' := by
  simp only [toDBV] at h
  split at h
  · rename_i f' a' hf ha; exact ⟨f', a', hf, ha⟩
  · simp at h

theorem toDBV_bin_inv {Γ : Stack} {o a b u} (h : toDBV Γ (.bin o a b) = some u) :
    ∃ a' b', toDB Γ a = some a' ∧ toDB Γ b = some b' := by
  simp only [toDBV] at h
  split at h
  · rename_i f' a' hf ha; exact ⟨f', a', hf, ha⟩
  · simp at h

theorem toDBV_neg_inv {Γ : Stack} {a u} (h : toDBV Γ (.neg a) = some u) :
    ∃ a', toDB Γ a = some a' := by
  simp only [toDBV] at h
  split at h
  · rename_i a' ha; exact ⟨a', ha⟩
  · simp at h

theorem toDBV_ite_inv {Γ : Stack} {c a b u} (h : toDBV Γ (.ite c a b) = some u) :
    ∃ c' a' b', toDB Γ c = some c' ∧ toDB Γ a = some a' ∧ toDB Γ b = some b' := by
  simp only [toDBV] at h
  split at h
  · rename_i c' a' b' hc ha hb; exact ⟨c', a', b', hc, ha, hb⟩
  · simp at h

theorem toDBV_let_inv {Γ : Stack} {x ann defn body u} (h : toDBV Γ (.let_ x ann defn body) = some u) :
    ∃ Γ' a d rb, Stack.bindAll Γ (x.name :: letNames body) = some Γ' ∧
      toDBAnn Γ' ann (x.name :: letNames body).length 0 = some a ∧ toDB Γ' defn = some d ∧
      toDBChain Γ' (x.name :: letNames body).length 1 body = some rb := by
  simp only [toDBV] at h
  split at h
  · simp at h
  · rename_i Γ' hb
    split at h
    · rename_i a d rest b ha hd hc; exact ⟨Γ', a, d, _, hb, ha, hd, hc⟩
    · simp at h

theorem toDBChainV_let_inv {Γ : Stack} {n i x ann defn body u}
    (h : toDBChainV Γ n i (.let_ x ann defn body) = some u) :
    ∃ a d rb, toDBAnn Γ ann n i = some a ∧ toDB Γ defn = some d ∧
      toDBChain Γ n (i + 1) body = some rb := by
  simp only [toDBChainV] at h
  split at h
  · rename_i a d rest b ha hd hc; exact ⟨a, d, _, ha, hd, hc⟩
  · simp at h

def SpecOK (Γ : Stack) (chain : Option (Nat × Nat)) (t : Src) : Prop :=
  match chain with
  | none => ∃ u, toDB Γ t = some u
  | some (n, i) => ∃ u, toDBChain Γ n i t = some u

theorem SpecOK.nonlet {Γ : Stack} {chain : Option (Nat × Nat)} {range : SourceRange} {g : Bool}
    {v : SrcV} {es : List PErr} (hv : ∀ x a d b, v ≠ .let_ x a d b)
    (h : SpecOK Γ chain (.mk range g v es)) : ∃ u, toDBV Γ v = some u := by
  cases chain with
  | none => exact h
  | some c =>
    obtain ⟨n, i⟩ := c
    obtain ⟨u, hu⟩ := h
    simp only [toDBChain] at hu
    rw [C08_chain_body_is_toDB Γ n i v hv] at hu
    cases ht : toDBV Γ v with
    | none => simp [ht] at hu
    | some w => exact ⟨w, rfl⟩

theorem bindName_complete {v : SrcVar} {d : Nat} {Γ Γ' : Stack} {st : RState}
    (hinv : RInv True st.ctx Γ) (hb : Stack.bind Γ v.name = some Γ') :
    ∃ st', bindName v d st = some ((), st') ∧ st'.errors = st.errors := by
  unfold bindName
  by_cases hv : v.name = placeholder
  · simp [hv]
  · have hv' : (v.name != placeholder) = true := by simp [hv]
    rw [Stack.bind_eq] at hb
    split at hb
    · simp at hb
    · rename_i hn
      have hidx : Stack.index Γ v.name = none := by
        cases hi : Stack.index Γ v.name with
        | none => rfl
        | some i => exact absurd ⟨hv, by simp [hi]⟩ hn
      have hck : st.ctx.containsKey v.name = false := by
        rw [Ctx.containsKey_eq, hinv.1 v.name hv, hidx]; rfl
      simp [hv', hck]

theorem bindDefinitions_complete (depth : Nat) :
    ∀ (ds : List (SrcVar × OptSrc × Src)) (i : Nat) (Γ Γ' : Stack) (st : RState),
    RInv True st.ctx Γ → depth + i = Γ.length → Stack.bindAll Γ (defNames ds) = some Γ' →
    ∃ st', bindDefinitions depth ds i st = some ((), st') ∧ st'.errors = st.errors
  | [], i, Γ, Γ', st, hinv, hd, hb => ⟨st, rfl, rfl⟩
  | (v, a, d) :: rest, i, Γ, Γ', st, hinv, hd, hb => by
      simp only [defNames_cons, Stack.bindAll] at hb
      cases hb1 : Stack.bind Γ v.name with
      | none => simp [hb1] at hb
      | some Γ1 =>
        simp only [hb1] at hb
        obtain ⟨s1, h1, e1⟩ := bindName_complete (d := depth + i) hinv hb1
        obtain ⟨hbs, i1, _⟩ := bindName_spec hinv hd h1 e1
        rw [hb1] at hbs
        simp only [Option.some.injEq] at hbs
        subst hbs
        obtain ⟨s2, h2, e2⟩ := bindDefinitions_complete depth rest (i + 1) _ Γ' s1 i1
          (by simp; omega) hb
        refine ⟨s2, ?_, e2.trans e1⟩
        simp only [bindDefinitions, StateT_bind_some]
        exact ⟨(), s1, h1, h2⟩

theorem unbindDefinitions_total : ∀ (ds : List (SrcVar × OptSrc × Src)) (st : RState),
    ∃ st', unbindDefinitions ds st = some ((), st')
  | [], st => ⟨st, rfl⟩
  | (v, _, _) :: rest, st => by
      simp only [unbindDefinitions]
      split
      · obtain ⟨s2, h2⟩ := unbindDefinitions_total rest { st with ctx := st.ctx.remove v.name }
        refine ⟨s2, ?_⟩
        simp only [StateT_bind_some]
        exact ⟨(), _, rfl, h2⟩
      · exact unbindDefinitions_total rest st

theorem le_of_errors_eq {a b : RState} (h : b.errors = a.errors) :
    b.errors.length ≤ a.errors.length := by rw [h]; exact Nat.le_refl _

mutual
theorem resolveAux_complete : ∀ (t : Src) (chain : Option (Nat × Nat)) (depth : Nat)
    (Γ : Stack) (st : RState),
    RInv True st.ctx Γ → depth = Γ.length → SpecOK Γ chain t →
    ∃ res st', resolveAux t chain depth st = some (res, st') ∧ st'.errors = st.errors
  | .mk range g .parseError es, chain, depth, Γ, st, hinv, hd, hs => by
      obtain ⟨u, hu⟩ := hs.nonlet (by simp)
      simp [toDBV] at hu
  | .mk range g .type es, chain, depth, Γ, st, hinv, hd, hs => by
      unfold resolveAux; exact ⟨_, _, rfl, rfl⟩
  | .mk range g .int es, chain, depth, Γ, st, hinv, hd, hs => by
      unfold resolveAux; exact ⟨_, _, rfl, rfl⟩
  | .mk range g .bool es, chain, depth, Γ, st, hinv, hd, hs => by
      unfold resolveAux; exact ⟨_, _, rfl, rfl⟩
  | .mk range g .tt es, chain, depth, Γ, st, hinv, hd, hs => by
      unfold resolveAux; exact ⟨_, _, rfl, rfl⟩
  | .mk range g .ff es, chain, depth, Γ, st, hinv, hd, hs => by
      unfold resolveAux; exact ⟨_, _, rfl, rfl⟩
  | .mk range g (.lit n) es, chain, depth, Γ, st, hinv, hd, hs => by
      unfold resolveAux; exact ⟨_, _, rfl, rfl⟩
  | .mk range g (.var x) es, chain, depth, Γ, st, hinv, hd, hs => by
      obtain ⟨u, hu⟩ := hs.nonlet (by simp)
      unfold resolveAux
      dsimp only
      by_cases hx : x = placeholder
      · subst hx
        rw [show st.ctx.get placeholder = none from hinv.2 trivial]
        refine ⟨_, _, rfl, ?_⟩
        simp
      · simp only [toDBV, hx, if_false] at hu
        cases hi : Stack.index Γ x with
        | none => simp [hi] at hu
        | some i =>
          have := hinv.1 x hx
          rw [hi] at this
          rw [this]
          exact ⟨_, _, rfl, rfl⟩
  | .mk range g (.lam x imp dom body) es, chain, depth, Γ, st, hinv, hd, hs => by
      obtain ⟨u, hu⟩ := hs.nonlet (by simp)
      obtain ⟨d, b, hdom, hb, hbody⟩ := toDBV_lam_inv hu
      obtain ⟨a, s1, h1, e1⟩ := resolveOpt_complete dom depth Γ st hinv hd ⟨d, hdom⟩
      have i1 := (resolveOpt_sound dom depth Γ st a s1 hinv hd h1 (le_of_errors_eq e1)).1
      obtain ⟨s2, h2, e2⟩ := bindName_complete (d := depth) i1 hb
      obtain ⟨_, i2, hidx⟩ := bindName_spec i1 hd h2 e2
      have key : ∀ (d' : RTm) (s3 : RState), s3.ctx = s2.ctx → s3.errors = s2.errors →
          ∃ res st', (∃ p4 s4, resolveAux body none (depth + 1) s3 = some (p4, s4) ∧
            ∃ u' s5, unbindName x.name s4 = some (u', s5) ∧
              (pure (RDefs.nil, RTm.mk (some range) (RTmV.lam x.name imp d' p4.snd)) : ResolveM _) s5
                = some (res, st')) ∧ st'.errors = st.errors := by
        intro d' s3 hc3 he3
        rw [← hc3] at i2
        obtain ⟨p4, s4, h4, e4⟩ := resolveAux_complete body none (depth + 1) (slot x.name :: Γ) s3 i2
          (by simp [hd]) ⟨b, hbody⟩
        refine ⟨_, _, ⟨p4, s4, h4, (), _, rfl, rfl⟩, ?_⟩
        simp only [e4, he3, e2, e1]
      unfold resolveAux
      simp only [StateT_bind_some]
      cases a with
      | some d0 =>
        obtain ⟨res, st', h5, e5⟩ := key d0 s2 rfl rfl
        exact ⟨res, st', ⟨_, s1, h1, (), s2, h2, by
          simp only [StateT_bind_some]; exact ⟨d0, s2, rfl, h5⟩⟩, e5⟩
      | none =>
        obtain ⟨res, st', h5, e5⟩ := key (RTm.mk none (RTmV.hole s2.nextHole 0))
          { ctx := s2.ctx, errors := s2.errors, nextHole := s2.nextHole + 1 } rfl rfl
        exact ⟨res, st', ⟨_, s1, h1, (), s2, h2, by
          simp only [StateT_bind_some]; exact ⟨_, _, rfl, h5⟩⟩, e5⟩
  | .mk range g (.pi x imp dom cod) es, chain, depth, Γ, st, hinv, hd, hs => by
      obtain ⟨u, hu⟩ := hs.nonlet (by simp)
      obtain ⟨d, b, hdom, hb, hcod⟩ := toDBV_pi_inv hu
      obtain ⟨p1, s1, h1, e1⟩ := resolveAux_complete dom none depth Γ st hinv hd ⟨d, hdom⟩
      have i1 := (resolveAux_sound dom none depth Γ st p1 s1 hinv hd h1 (le_of_errors_eq e1)).1
      obtain ⟨s2, h2, e2⟩ := bindName_complete (d := depth) i1 hb
      obtain ⟨_, i2, hidx⟩ := bindName_spec i1 hd h2 e2
      obtain ⟨p3, s3, h3, e3⟩ := resolveAux_complete cod none (depth + 1) (slot x.name :: Γ) s2 i2
        (by simp [hd]) ⟨b, hcod⟩
      unfold resolveAux
      simp only [StateT_bind_some]
      refine ⟨_, _, ⟨p1, s1, h1, (), s2, h2, p3, s3, h3, (), _, rfl, rfl⟩, ?_⟩
      simp only [e3, e2, e1]
  | .mk range g (.app f a) es, chain, depth, Γ, st, hinv, hd, hs => by
      obtain ⟨u, hu⟩ := hs.nonlet (by simp)
      obtain ⟨f', a', hf, ha⟩ := toDBV_app_inv hu
      obtain ⟨p1, s1, h1, e1⟩ := resolveAux_complete f none depth Γ st hinv hd ⟨f', hf⟩
      have i1 := (resolveAux_sound f none depth Γ st p1 s1 hinv hd h1 (le_of_errors_eq e1)).1
      obtain ⟨p2, s2, h2, e2⟩ := resolveAux_complete a none depth Γ s1 i1 hd ⟨a', ha⟩
      unfold resolveAux
      simp only [StateT_bind_some]
      exact ⟨_, _, ⟨p1, s1, h1, p2, s2, h2, rfl⟩, e2.trans e1⟩
  | .mk range g (.neg a) es, chain, depth, Γ, st, hinv, hd, hs => by
      obtain ⟨u, hu⟩ := hs.nonlet (by simp)
      obtain ⟨a', ha⟩ := toDBV_neg_inv hu
      obtain ⟨p1, s1, h1, e1⟩ := resolveAux_complete a none depth Γ st hinv hd ⟨a', ha⟩
      unfold resolveAux
      simp only [StateT_bind_some]
      exact ⟨_, _, ⟨p1, s1, h1, rfl⟩, e1⟩
  | .mk range g (.bin o a b) es, chain, depth, Γ, st, hinv, hd, hs => by
      obtain ⟨u, hu⟩ := hs.nonlet (by simp)
      obtain ⟨a', b', ha, hb⟩ := toDBV_bin_inv hu
      obtain ⟨p1, s1, h1, e1⟩ := resolveAux_complete a none depth Γ st hinv hd ⟨a', ha⟩
      have i1 := (resolveAux_sound a none depth Γ st p1 s1 hinv hd h1 (le_of_errors_eq e1)).1
      obtain ⟨p2, s2, h2, e2⟩ := resolveAux_complete b none depth Γ s1 i1 hd ⟨b', hb⟩
      unfold resolveAux
      simp only [StateT_bind_some]
      exact ⟨_, _, ⟨p1, s1, h1, p2, s2, h2, rfl⟩, e2.trans e1⟩
  | .mk range g (.ite c a b) es, chain, depth, Γ, st, hinv, hd, hs => by
      obtain ⟨u, hu⟩ := hs.nonlet (by simp)
      obtain ⟨c', a', b', hc, ha, hb⟩ := toDBV_ite_inv hu
      obtain ⟨p0, s0, h0, e0⟩ := resolveAux_complete c none depth Γ st hinv hd ⟨c', hc⟩
      have i0 := (resolveAux_sound c none depth Γ st p0 s0 hinv hd h0 (le_of_errors_eq e0)).1
      obtain ⟨p1, s1, h1, e1⟩ := resolveAux_complete a none depth Γ s0 i0 hd ⟨a', ha⟩
      have i1 := (resolveAux_sound a none depth Γ s0 p1 s1 i0 hd h1 (le_of_errors_eq e1)).1
      obtain ⟨p2, s2, h2, e2⟩ := resolveAux_complete b none depth Γ s1 i1 hd ⟨b', hb⟩
      unfold resolveAux
      simp only [StateT_bind_some]
      exact ⟨_, _, ⟨p0, s0, h0, p1, s1, h1, p2, s2, h2, rfl⟩, e2.trans (e1.trans e0)⟩
  | .mk range g (.let_ x ann defn body) es, some (n, i), depth, Γ, st, hinv, hd, hs => by
      obtain ⟨u, hu⟩ := hs
      simp only [toDBChain] at hu
      obtain ⟨a, d, rb, ha, hdf, hc⟩ := toDBChainV_let_inv hu
      obtain ⟨p0, s0, h0, e0⟩ := resolveAnnotation_complete ann n i depth Γ st hinv hd ⟨a, ha⟩
      have i0 := (resolveAnnotation_sound ann n i depth Γ st p0 s0 hinv hd h0 (le_of_errors_eq e0)).1
      obtain ⟨p1, s1, h1, e1⟩ := resolveAux_complete defn none depth Γ s0 i0 hd ⟨d, hdf⟩
      have i1 := (resolveAux_sound defn none depth Γ s0 p1 s1 i0 hd h1 (le_of_errors_eq e1)).1
      obtain ⟨p2, s2, h2, e2⟩ := resolveAux_complete body (some (n, i + 1)) depth Γ s1 i1 hd ⟨rb, hc⟩
      unfold resolveAux
      simp only [StateT_bind_some]
      exact ⟨_, _, ⟨p0, s0, h0, p1, s1, h1, p2, s2, h2, rfl⟩, e2.trans (e1.trans e0)⟩
  | .mk range g (.let_ x ann defn body) es, none, depth, Γ, st, hinv, hd, hs => by
      obtain ⟨u, hu⟩ := hs
      simp only [toDB] at hu
      obtain ⟨Γ', a, d, rb, hbA, ha, hdf, hc⟩ := toDBV_let_inv hu
      have hn : defNames ((x, ann, defn) :: (collectDefinitions body).1) = x.name :: letNames body := by
        rw [defNames_cons, collectDefinitions_names]
      have hl : ((x, ann, defn) :: (collectDefinitions body).1).length = (x.name :: letNames body).length := by
        rw [← hn, defNames, List.length_map]
      rw [← hn] at hbA
      rw [← hl] at ha hc
      obtain ⟨sb, hb, eb⟩ := bindDefinitions_complete depth _ 0 Γ Γ' st hinv (by omega) hbA
      obtain ⟨Γ'', hbA', ib, hlen⟩ := bindDefinitions_spec depth _ 0 Γ st sb () hinv (by omega) hb eb
      rw [hbA] at hbA'
      simp only [Option.some.injEq] at hbA'
      subst hbA'
      have hd' : depth + ((x, ann, defn) :: (collectDefinitions body).1).length = Γ'.length := by
        rw [hlen, hd]
      obtain ⟨p0, s0, h0, e0⟩ := resolveAnnotation_complete ann _ 0 _ Γ' sb ib hd' ⟨a, ha⟩
      have i0 := (resolveAnnotation_sound ann _ 0 _ Γ' sb p0 s0 ib hd' h0 (le_of_errors_eq e0)).1
      obtain ⟨p1, s1, h1, e1⟩ := resolveAux_complete defn none _ Γ' s0 i0 hd' ⟨d, hdf⟩
      have i1 := (resolveAux_sound defn none _ Γ' s0 p1 s1 i0 hd' h1 (le_of_errors_eq e1)).1
      obtain ⟨p2, s2, h2, e2⟩ := resolveAux_complete body (some (_, 1)) _ Γ' s1 i1 hd' ⟨rb, hc⟩
      obtain ⟨s3, h3⟩ := unbindDefinitions_total ((x, ann, defn) :: (collectDefinitions body).1) s2
      obtain ⟨e3, _, _⟩ := unbindDefinitions_get _ _ _ _ h3
      unfold resolveAux
      simp only [StateT_bind_some]
      exact ⟨_, _, ⟨(), sb, hb, p0, s0, h0, p1, s1, h1, p2, s2, h2, (), s3, h3, rfl⟩,
        e3.trans (e2.trans (e1.trans (e0.trans eb)))⟩
theorem resolveOpt_complete : ∀ (o : OptSrc) (depth : Nat) (Γ : Stack) (st : RState),
    RInv True st.ctx Γ → depth = Γ.length → (∃ u, toDBOpt Γ o = some u) →
    ∃ res st', resolveOpt o depth st = some (res, st') ∧ st'.errors = st.errors
  | .none, depth, Γ, st, hinv, hd, hs => by
      unfold resolveOpt; exact ⟨_, _, rfl, rfl⟩
  | .some t, depth, Γ, st, hinv, hd, hs => by
      obtain ⟨u, hu⟩ := hs
      simp only [toDBOpt] at hu
      obtain ⟨p1, s1, h1, e1⟩ := resolveAux_complete t none depth Γ st hinv hd ⟨u, hu⟩
      unfold resolveOpt
      simp only [StateT_bind_some]
      exact ⟨_, _, ⟨p1, s1, h1, rfl⟩, e1⟩
theorem resolveAnnotation_complete : ∀ (o : OptSrc) (n i newDepth : Nat) (Γ : Stack) (st : RState),
    RInv True st.ctx Γ → newDepth = Γ.length → (∃ u, toDBAnn Γ o n i = some u) →
    ∃ res st', resolveAnnotation o n i newDepth st = some (res, st') ∧ st'.errors = st.errors
  | .none, n, i, depth, Γ, st, hinv, hd, hs => by
      unfold resolveAnnotation; exact ⟨_, _, rfl, rfl⟩
  | .some t, n, i, depth, Γ, st, hinv, hd, hs => by
      obtain ⟨u, hu⟩ := hs
      simp only [toDBAnn] at hu
      obtain ⟨p1, s1, h1, e1⟩ := resolveAux_complete t none depth Γ st hinv hd ⟨u, hu⟩
      unfold resolveAnnotation
      simp only [StateT_bind_some]
      exact ⟨_, _, ⟨p1, s1, h1, rfl⟩, e1⟩
end

/-- PENDING `C08_resolve_complete_unrestricted` is FALSE of the model as stated, for the same reason as
`C08_resolve_sound_unrestricted`: with the key `_` in the map an occurrence of `_` resolves to a variable,
not to the hole the specification prescribes. -/
theorem C08_resolve_complete_refuted : ¬ C08_resolve_complete_unrestricted := by
  intro h
  obtain ⟨r, st', h1, _, h3⟩ := h (.mk ⟨0, 0⟩ false (.var placeholder) []) []
    { ctx := [(placeholder, 0)], errors := [], nextHole := 0 } (.hole 0 0)
    (by
      intro x hx
      have : (x == placeholder) = false := by simp [hx]
      simp [Ctx.get, Stack.index, List.lookup_cons, this])
    (by simp [toDB, toDBV])
  unfold resolve at h1
  simp only [StateT_bind_some] at h1
  obtain ⟨p1, s1, h1, h2⟩ := h1
  obtain ⟨rfl, rfl⟩ := pure_inv h2
  unfold resolveAux at h1
  simp [Ctx.get] at h1
  obtain ⟨rfl, rfl⟩ := h1
  simp [RTm.erase, eraseHoleIds] at h3

/-- Corrected statement (the placeholder is not a key of the map). -/
def C08_resolve_complete_fixed_stmt : Prop :=
  ∀ (t : Src) (Γ : Stack) (st : RState) (u : Tm),
    CtxAgrees st.ctx Γ → st.ctx.get placeholder = none → toDB Γ t = some u →
    ∃ r st', resolve t Γ.length st = some (r, st') ∧ st'.errors = st.errors ∧ eraseHoleIds r.erase = u
theorem C08_resolve_complete_fixed : C08_resolve_complete_fixed_stmt := by
  intro t Γ st u hag hph hu
  have hinv : RInv True st.ctx Γ := ⟨hag, fun _ => hph⟩
  obtain ⟨res, st', h, e⟩ := resolveAux_complete t none Γ.length Γ st hinv rfl ⟨u, hu⟩
  have hs := (resolveAux_sound t none Γ.length Γ st res st' hinv rfl h (le_of_errors_eq e)).2 trivial
  refine ⟨res.2, st', ?_, e, ?_⟩
  · unfold resolve
    simp only [StateT_bind_some]
    exact ⟨res, st', h, rfl⟩
  · have := hs.2
    rw [hu] at this
    exact (Option.some.inj this).symm

/-- On success the name→depth map is left as it was found (sibling scopes can re-use a name). -/
def C08_context_restored_stmt : Prop :=
  ∀ (t : Src) (Γ : Stack) (st st' : RState) (r : RTm),
    CtxAgrees st.ctx Γ → resolve t Γ.length st = some (r, st') → st'.errors = st.errors →
    CtxAgrees st'.ctx Γ
theorem C08_context_restored : C08_context_restored_stmt := by
  intro t Γ st st' r hag h he
  unfold resolve at h
  simp only [StateT_bind_some] at h
  obtain ⟨p1, s1, h1, h2⟩ := h
  obtain ⟨rfl, rfl⟩ := pure_inv h2
  have := resolveAux_sound (p := False) t none Γ.length Γ st p1 s1 ⟨hag, fun hf => hf.elim⟩ rfl h1
    (by rw [he]; exact Nat.le_refl _)
  exact this.1.1

/-- Every `_` and every omitted annotation yields its own cell: holes are allocated with strictly
increasing identifiers, never reused. -/
def C08_holes_fresh_stmt : Prop :=
  ∀ (t : Src) (depth : Nat) (st st' : RState) (r : RTm),
    resolve t depth st = some (r, st') → st.nextHole ≤ st'.nextHole
theorem C08_holes_fresh : C08_holes_fresh_stmt := by
  intro t depth st st' r h
  exact (resolve_mono h).hole

/-! ## Non-vacuity -/

private def v (x : Name) : Src := .mk ⟨0, 0⟩ false (.var x) []
-- `x => (y => x y) x` resolves to indices 1, 0, 0
example :
    toDB [] (.mk ⟨0, 0⟩ false (.lam ⟨⟨0, 0⟩, 1⟩ false .none
      (.mk ⟨0, 0⟩ false (.app (.mk ⟨0, 0⟩ false (.lam ⟨⟨0, 0⟩, 2⟩ false .none
        (.mk ⟨0, 0⟩ false (.app (v 1) (v 2)) [])) []) (v 1)) [])) [])
    = some (.lam 1 false (.hole 0 0) (.app (.lam 2 false (.hole 0 0) (.app (.var 1 1) (.var 2 0))) (.var 1 0))) := by
  decide
-- shadowing is an error of the specification
example : toDB [some 1] (.mk ⟨0, 0⟩ false (.lam ⟨⟨0, 0⟩, 1⟩ false .none (v 1)) []) = none := by decide

/-! ## Round trip: name resolution loses no binding information -/

/-- In a λ-annotation position a written `_` and an omitted annotation denote the same thing (a
fresh hole living at the λ): the normal form is "omitted". -/
def normLamAnn : OptSrc → OptSrc
  | .some (.mk r g (.var x) es) => if x = placeholder then .none else .some (.mk r g (.var x) es)
  | o => o

-- Erase layout: source ranges, the "was parenthesised" flag, syntax-error listings.  With `k = true`
-- additionally normalise λ-annotations with `normLamAnn`.
mutual
def layoutB (k : Bool) : Src → Src
  | .mk _ _ v _ => .mk ⟨0, 0⟩ false (layoutVB k v) []
def layoutVB (k : Bool) : SrcV → SrcV
  | .lam x im dom b =>
      .lam ⟨⟨0, 0⟩, x.name⟩ im (if k then normLamAnn (layoutOptB k dom) else layoutOptB k dom) (layoutB k b)
  | .pi x im d c => .pi ⟨⟨0, 0⟩, x.name⟩ im (layoutB k d) (layoutB k c)
  | .app f a => .app (layoutB k f) (layoutB k a)
  | .let_ x ann d b => .let_ ⟨⟨0, 0⟩, x.name⟩ (layoutOptB k ann) (layoutB k d) (layoutB k b)
  | .neg a => .neg (layoutB k a)
  | .bin op a b => .bin op (layoutB k a) (layoutB k b)
  | .ite c a b => .ite (layoutB k c) (layoutB k a) (layoutB k b)
  | .parseError => .parseError
  | .type => .type
  | .var x => .var x
  | .int => .int
  | .lit n => .lit n
  | .bool => .bool
  | .tt => .tt
  | .ff => .ff
def layoutOptB (k : Bool) : OptSrc → OptSrc
  | .none => .none
  | .some t => .some (layoutB k t)
end

/-- layout erasure only -/
abbrev eraseLayout : Src → Src := layoutB false
/-- layout erasure, and `(x : _) => b` identified with `x => b` -/
abbrev stripLayout : Src → Src := layoutB true

def Tm.isHole0 : Tm → Bool
  | .hole _ 0 => true
  | _ => false
def Tm.isHoleS : Tm → Bool
  | .hole _ (_ + 1) => true
  | _ => false
def Defs.binderNames : Defs → List Name
  | .nil => []
  | .cons x _ _ r => x :: r.binderNames

def bareSrc (v : SrcV) : Src := .mk ⟨0, 0⟩ false v []
def bareVar (x : Name) : SrcVar := ⟨⟨0, 0⟩, x⟩

/-- the stack after entering a group with these names (source order; the last one is index 0) -/
def Stack.pushAll (Γ : Stack) (names : List Name) : Stack := (names.map slot).reverse ++ Γ

-- Read a resolved tree back: every index through the binder stack to the NAME bound there (the name
-- annotation carried by `Tm.var` is ignored), holes to `_`, omitted annotations to omitted
-- annotations.  Layout is filled with dummies.
mutual
def fromDB (Γ : Stack) : Tm → Option Src
  | .hole _ s => if s = 0 then some (bareSrc (.var placeholder)) else none
  | .type => some (bareSrc .type)
  | .int => some (bareSrc .int)
  | .bool => some (bareSrc .bool)
  | .tt => some (bareSrc .tt)
  | .ff => some (bareSrc .ff)
  | .lit n => some (bareSrc (.lit n))
  | .var _ i =>
      match Γ[i]? with
      | some (some y) => some (bareSrc (.var y))
      | _ => none
  | .lam x im d b =>
      match (if d.isHole0 then some OptSrc.none else (fromDB Γ d).map OptSrc.some),
            fromDB (slot x :: Γ) b with
      | some d', some b' => some (bareSrc (.lam (bareVar x) im d' b'))
      | _, _ => none
  | .pi x im d c =>
      match fromDB Γ d, fromDB (slot x :: Γ) c with
      | some d', some c' => some (bareSrc (.pi (bareVar x) im d' c'))
      | _, _ => none
  | .app f a =>
      match fromDB Γ f, fromDB Γ a with
      | some f', some a' => some (bareSrc (.app f' a'))
      | _, _ => none
  | .letg ds b =>
      match fromDB (Γ.pushAll ds.binderNames) b with
      | some b' => fromDBDefs (Γ.pushAll ds.binderNames) ds b'
      | none => none
  | .neg a => match fromDB Γ a with | some a' => some (bareSrc (.neg a')) | none => none
  | .bin op a b =>
      match fromDB Γ a, fromDB Γ b with
      | some a', some b' => some (bareSrc (.bin op a' b'))
      | _, _ => none
  | .ite c a b =>
      match fromDB Γ c, fromDB Γ a, fromDB Γ b with
      | some c', some a', some b' => some (bareSrc (.ite c' a' b'))
      | _, _, _ => none
def fromDBDefs (Γ : Stack) : Defs → Src → Option Src
  | .nil, body => some body
  | .cons x a d r, body =>
      match (if a.isHoleS then some OptSrc.none else (fromDB Γ a).map OptSrc.some),
            fromDB Γ d, fromDBDefs Γ r body with
      | some a', some d', some r' => some (bareSrc (.let_ (bareVar x) a' d' r'))
      | _, _, _ => none
end

theorem Stack.index_get : ∀ (Γ : Stack) (x : Name) (i : Nat), Stack.index Γ x = some i →
    Γ[i]? = some (some x)
  | [], x, i, h => by simp [Stack.index] at h
  | a :: Γ, x, i, h => by
      rw [Stack.index_cons] at h
      split at h
      · rename_i ha; simp at h; subst h; simp [ha]
      · cases h' : Stack.index Γ x with
        | none => simp [h'] at h
        | some j =>
          simp [h'] at h; subst h
          simpa using Stack.index_get Γ x j h'

theorem Stack.bindAll_eq : ∀ (names : List Name) (Γ Γ' : Stack), Stack.bindAll Γ names = some Γ' →
    Γ' = Γ.pushAll names
  | [], Γ, Γ', h => by simp [Stack.bindAll] at h; simp [Stack.pushAll, h]
  | x :: xs, Γ, Γ', h => by
      simp only [Stack.bindAll] at h
      rw [Stack.bind_eq] at h
      by_cases hx : x ≠ placeholder ∧ (Stack.index Γ x).isSome
      · rw [if_pos hx] at h; simp at h
      · rw [if_neg hx] at h
        have := Stack.bindAll_eq xs _ _ h
        simp [this, Stack.pushAll]

/-- the specification produces a hole only for `_`, and then the hole has shift 0 -/
theorem toDB_hole {Γ : Stack} {r g v es id sh} (h : toDB Γ (.mk r g v es) = some (.hole id sh)) :
    sh = 0 ∧ v = .var placeholder := by
  simp only [toDB] at h
  cases v <;> simp only [toDBV] at h <;> (repeat' split at h) <;> (try (simp at h))
  rename_i hx
  obtain ⟨_, rfl⟩ := h
  exact ⟨rfl, by rw [hx]⟩

theorem letNames_nonlet {r g v es} (hv : ∀ x a d b, v ≠ .let_ x a d b) :
    letNames (.mk r g v es) = [] := by
  cases v <;> simp [letNames] <;> exact absurd rfl (hv _ _ _ _)

/-- what the round trip says of a chain -/
def ChainRT (s : Src) : Prop :=
  ∀ (Γ : Stack) (n i : Nat) (rest : Defs) (b : Tm),
    i + (letNames s).length = n → toDBChain Γ n i s = some (rest, b) →
    rest.binderNames = letNames s ∧ ∃ b', fromDB Γ b = some b' ∧ fromDBDefs Γ rest b' = some (stripLayout s)

theorem rt_of_chain (s : Src) (hc : ChainRT s) :
    ∀ (Γ : Stack) (t : Tm), toDB Γ s = some t → fromDB Γ t = some (stripLayout s) := by
  intro Γ t h
  obtain ⟨r, g, v, es⟩ := s
  by_cases hv : ∃ x a d b, v = .let_ x a d b
  · obtain ⟨x, ann, defn, body, rfl⟩ := hv
    simp only [toDB] at h
    obtain ⟨Γ', a, d, rb, hb, ha, hd, hch⟩ := toDBV_let_inv h
    obtain ⟨rest, b⟩ := rb
    simp only [toDBV, hb, ha, hd, hch, Option.some.injEq] at h
    subst h
    have hch' : toDBChain Γ' (x.name :: letNames body).length 0 (.mk r g (.let_ x ann defn body) es)
        = some (.cons x.name a d rest, b) := by
      simp only [toDBChain, toDBChainV, ha, hd, Nat.zero_add, hch]
    obtain ⟨hn, b', hb1, hb2⟩ := hc Γ' _ 0 _ _ (by simp [letNames]) hch'
    have hΓ := Stack.bindAll_eq _ _ _ hb
    simp only [letNames] at hn
    simp only [fromDB, hn, ← hΓ, hb1, hb2]
  · have hv' : ∀ x a d b, v ≠ .let_ x a d b := fun x a d b e => hv ⟨x, a, d, b, e⟩
    have hch : toDBChain Γ 0 0 (.mk r g v es) = some (.nil, t) := by
      simp only [toDBChain, C08_chain_body_is_toDB Γ 0 0 v hv']
      simp only [toDB] at h
      simp [h]
    obtain ⟨_, b', hb1, hb2⟩ := hc Γ 0 0 _ _ (by simp [letNames_nonlet hv']) hch
    simp only [fromDBDefs, Option.some.injEq] at hb2
    rw [hb1, hb2]

theorem normLamAnn_some_strip {r g v es} (hv : v ≠ .var placeholder) :
    normLamAnn (.some (stripLayout (.mk r g v es))) = .some (stripLayout (.mk r g v es)) := by
  cases v <;> simp only [stripLayout, layoutB, layoutVB, normLamAnn]
  rename_i x
  have : x ≠ placeholder := fun e => hv (by rw [e])
  simp [this]

mutual
theorem chainRT : ∀ (s : Src), ChainRT s
  | .mk r g .parseError es => by
      intro Γ n i rest b hn h; simp [toDBChain, toDBChainV] at h
  | .mk r g .type es | .mk r g .int es | .mk r g .bool es | .mk r g .tt es | .mk r g .ff es
  | .mk r g (.lit _) es => by
      intro Γ n i rest b hn h
      simp only [toDBChain, toDBChainV, Option.some.injEq, Prod.mk.injEq] at h
      obtain ⟨rfl, rfl⟩ := h
      simp [Defs.binderNames, letNames, fromDB, fromDBDefs, stripLayout, layoutB, layoutVB, bareSrc]
  | .mk r g (.var x) es => by
      intro Γ n i rest b hn h
      simp only [toDBChain, toDBChainV] at h
      split at h
      · rename_i hx
        simp only [Option.some.injEq, Prod.mk.injEq] at h
        obtain ⟨rfl, rfl⟩ := h
        simp [Defs.binderNames, letNames, fromDB, fromDBDefs, stripLayout, layoutB, layoutVB, bareSrc, hx]
      · split at h
        · rename_i j hj
          simp only [Option.some.injEq, Prod.mk.injEq] at h
          obtain ⟨rfl, rfl⟩ := h
          simp [Defs.binderNames, letNames, fromDB, fromDBDefs, stripLayout, layoutB, layoutVB, bareSrc,
            Stack.index_get _ _ _ hj]
        · simp at h
  | .mk r g (.lam x im dom body) es => by
      intro Γ n i rest b hn h
      simp only [toDBChain, toDBChainV] at h
      split at h
      · rename_i d Γ' hd hb
        rw [Stack.bind_eq] at hb
        split at hb
        · simp at hb
        · simp only [Option.some.injEq] at hb
          subst hb
          split at h
          · rename_i b' hbody
            simp only [Option.some.injEq, Prod.mk.injEq] at h
            obtain ⟨rfl, rfl⟩ := h
            have h1 := optRT dom Γ d hd
            have h2 := rt_of_chain body (chainRT body) _ _ hbody
            simp [Defs.binderNames, letNames, fromDB, fromDBDefs, stripLayout, layoutB, layoutVB, bareSrc, bareVar, h1, h2]
          · simp at h
      · simp at h
  | .mk r g (.pi x im dom cod) es => by
      intro Γ n i rest b hn h
      simp only [toDBChain, toDBChainV] at h
      split at h
      · rename_i d Γ' hd hb
        rw [Stack.bind_eq] at hb
        split at hb
        · simp at hb
        · simp only [Option.some.injEq] at hb
          subst hb
          split at h
          · rename_i b' hbody
            simp only [Option.some.injEq, Prod.mk.injEq] at h
            obtain ⟨rfl, rfl⟩ := h
            have h1 := rt_of_chain dom (chainRT dom) _ _ hd
            have h2 := rt_of_chain cod (chainRT cod) _ _ hbody
            simp [Defs.binderNames, letNames, fromDB, fromDBDefs, stripLayout, layoutB, layoutVB, bareSrc, bareVar, h1, h2]
          · simp at h
      · simp at h
  | .mk r g (.app f a) es => by
      intro Γ n i rest b hn h
      simp only [toDBChain, toDBChainV] at h
      split at h
      · rename_i f' a' hf ha
        simp only [Option.some.injEq, Prod.mk.injEq] at h
        obtain ⟨rfl, rfl⟩ := h
        have h1 := rt_of_chain f (chainRT f) _ _ hf
        have h2 := rt_of_chain a (chainRT a) _ _ ha
        simp [Defs.binderNames, letNames, fromDB, fromDBDefs, stripLayout, layoutB, layoutVB, bareSrc, h1, h2]
      · simp at h
  | .mk r g (.neg a) es => by
      intro Γ n i rest b hn h
      simp only [toDBChain, toDBChainV] at h
      split at h
      · rename_i a' ha
        simp only [Option.some.injEq, Prod.mk.injEq] at h
        obtain ⟨rfl, rfl⟩ := h
        have h1 := rt_of_chain a (chainRT a) _ _ ha
        simp [Defs.binderNames, letNames, fromDB, fromDBDefs, stripLayout, layoutB, layoutVB, bareSrc, h1]
      · simp at h
  | .mk r g (.bin op a c) es => by
      intro Γ n i rest b hn h
      simp only [toDBChain, toDBChainV] at h
      split at h
      · rename_i a' c' ha hc
        simp only [Option.some.injEq, Prod.mk.injEq] at h
        obtain ⟨rfl, rfl⟩ := h
        have h1 := rt_of_chain a (chainRT a) _ _ ha
        have h2 := rt_of_chain c (chainRT c) _ _ hc
        simp [Defs.binderNames, letNames, fromDB, fromDBDefs, stripLayout, layoutB, layoutVB, bareSrc, h1, h2]
      · simp at h
  | .mk r g (.ite c a e) es => by
      intro Γ n i rest b hn h
      simp only [toDBChain, toDBChainV] at h
      split at h
      · rename_i c' a' e' hc ha he
        simp only [Option.some.injEq, Prod.mk.injEq] at h
        obtain ⟨rfl, rfl⟩ := h
        have h0 := rt_of_chain c (chainRT c) _ _ hc
        have h1 := rt_of_chain a (chainRT a) _ _ ha
        have h2 := rt_of_chain e (chainRT e) _ _ he
        simp [Defs.binderNames, letNames, fromDB, fromDBDefs, stripLayout, layoutB, layoutVB, bareSrc, h0, h1, h2]
      · simp at h
  | .mk r g (.let_ x ann defn body) es => by
      intro Γ n i rest b hn h
      simp only [toDBChain] at h
      obtain ⟨a, d, rb, ha, hd, hc⟩ := toDBChainV_let_inv h
      obtain ⟨rest', b'⟩ := rb
      simp only [toDBChainV, ha, hd, hc, Option.some.injEq, Prod.mk.injEq] at h
      obtain ⟨rfl, rfl⟩ := h
      simp only [letNames, List.length_cons] at hn
      obtain ⟨hnames, b'', hb1, hb2⟩ := chainRT body Γ n (i + 1) rest' b' (by omega) hc
      have h0 := annRT ann Γ n i a (by omega) ha
      have h1 := rt_of_chain defn (chainRT defn) _ _ hd
      refine ⟨by simp [Defs.binderNames, letNames, hnames], b'', hb1, ?_⟩
      simp [fromDBDefs, stripLayout, layoutB, layoutVB, bareSrc, bareVar, h0, h1, hb2]
theorem optRT : ∀ (o : OptSrc) (Γ : Stack) (t : Tm), toDBOpt Γ o = some t →
    (if t.isHole0 then some OptSrc.none else (fromDB Γ t).map OptSrc.some)
      = some (normLamAnn (layoutOptB true o))
  | .none, Γ, t, h => by
      simp only [toDBOpt, Option.some.injEq] at h
      subst h
      simp [Tm.isHole0, layoutOptB, normLamAnn]
  | .some (.mk r g v es), Γ, t, h => by
      simp only [toDBOpt] at h
      have h1 := rt_of_chain _ (chainRT (.mk r g v es)) _ _ h
      by_cases hv : v = .var placeholder
      · subst hv
        simp [toDB, toDBV] at h
        subst h
        simp [Tm.isHole0, layoutOptB, layoutB, layoutVB, normLamAnn]
      · have : t.isHole0 = false := by
          cases t <;> try (simp [Tm.isHole0])
          exact absurd (toDB_hole h).2 hv
        simp only [this, h1, layoutOptB]
        rw [normLamAnn_some_strip hv]
        simp
theorem annRT : ∀ (o : OptSrc) (Γ : Stack) (n i : Nat) (t : Tm), i < n → toDBAnn Γ o n i = some t →
    (if t.isHoleS then some OptSrc.none else (fromDB Γ t).map OptSrc.some)
      = some (layoutOptB true o)
  | .none, Γ, n, i, t, hi, h => by
      simp only [toDBAnn, Option.some.injEq] at h
      subst h
      obtain ⟨k, hk⟩ : ∃ k, n - i = k + 1 := ⟨n - i - 1, by omega⟩
      simp [Tm.isHoleS, layoutOptB, hk]
  | .some (.mk r g v es), Γ, n, i, t, hi, h => by
      simp only [toDBAnn] at h
      have h1 := rt_of_chain _ (chainRT (.mk r g v es)) _ _ h
      have : t.isHoleS = false := by
        cases t <;> try (simp [Tm.isHoleS])
        have := (toDB_hole h).1
        subst this
        rfl
      simp [this, h1, layoutOptB]
end

/-- ROUND TRIP.  Reading the indices of the resolved tree back through the binder stack gives the
source program back, up to layout (ranges, redundant parentheses — in particular the parentheses in
`x = 1; (y = 2; y)`, which gram flattens into the group `x = 1; y = 2; y` —, error listings) and up to
writing a λ-annotation as `_` instead of omitting it. -/
def C08_roundtrip_stmt : Prop :=
  ∀ (Γ : Stack) (s : Src) (t : Tm), toDB Γ s = some t → fromDB Γ t = some (stripLayout s)
theorem C08_roundtrip : C08_roundtrip_stmt :=
  fun Γ s t h => rt_of_chain s (chainRT s) Γ t h

/-- Two programs with the same resolved tree are the same program (up to `stripLayout`): the indices
determine the binding structure completely. -/
def C08_toDB_injective_stmt : Prop :=
  ∀ (Γ : Stack) (s₁ s₂ : Src) (t : Tm), toDB Γ s₁ = some t → toDB Γ s₂ = some t → stripLayout s₁ = stripLayout s₂
theorem C08_toDB_injective : C08_toDB_injective_stmt := by
  intro Γ s₁ s₂ t h₁ h₂
  have e₁ := C08_roundtrip Γ s₁ t h₁
  have e₂ := C08_roundtrip Γ s₂ t h₂
  rw [e₁] at e₂
  exact Option.some.inj e₂

private def sv (x : Name) : Src := .mk ⟨0, 0⟩ false (.var x) []
private def sl (x : Name) (b : Src) : Src := .mk ⟨0, 0⟩ false (.lam ⟨⟨0, 0⟩, x⟩ false .none b) []
private def sla (x : Name) (a b : Src) : Src := .mk ⟨0, 0⟩ false (.lam ⟨⟨0, 0⟩, x⟩ false (.some a) b) []
private def sa (f a : Src) : Src := .mk ⟨0, 0⟩ false (.app f a) []

/-- With layout erasure ALONE the two statements are false: `x => x` and `(x : _) => x` resolve to the
same tree (in gram too: both annotations become a fresh hole of the λ). -/
def C08_toDB_injective_unrestricted : Prop :=
  ∀ (Γ : Stack) (s₁ s₂ : Src) (t : Tm), toDB Γ s₁ = some t → toDB Γ s₂ = some t →
    eraseLayout s₁ = eraseLayout s₂
theorem C08_toDB_injective_refuted : ¬ C08_toDB_injective_unrestricted := by
  intro h
  have := h [] (sl 1 (sv 1)) (sla 1 (sv 0) (sv 1)) (.lam 1 false (.hole 0 0) (.var 1 0))
    (by decide) (by decide)
  simp [eraseLayout, layoutB, layoutVB, layoutOptB, sl, sla] at this
def C08_roundtrip_unrestricted : Prop :=
  ∀ (Γ : Stack) (s : Src) (t : Tm), toDB Γ s = some t → fromDB Γ t = some (eraseLayout s)
theorem C08_roundtrip_refuted : ¬ C08_roundtrip_unrestricted := by
  intro h
  have := h [] (sla 1 (sv 0) (sv 1)) (.lam 1 false (.hole 0 0) (.var 1 0)) (by decide)
  simp [eraseLayout, layoutB, layoutVB, layoutOptB, sla, fromDB, Tm.isHole0, bareSrc, bareVar, slot, placeholder] at this

/-! ## The scope clauses, in the property's words -/

theorem Stack.index_append : ∀ (Δ Γ : Stack) (x : Name), some x ∉ Δ →
    Stack.index (Δ ++ Γ) x = (Stack.index Γ x).map (· + Δ.length)
  | [], Γ, x, _ => by cases h : Stack.index Γ x <;> simp [h]
  | a :: Δ, Γ, x, h => by
      have ha : ¬ a = some x := fun e => h (by simp [e])
      have hΔ : some x ∉ Δ := fun e => h (by simp [e])
      rw [List.cons_append, Stack.index_cons, if_neg ha, Stack.index_append Δ Γ x hΔ]
      cases Stack.index Γ x <;> simp
      omega

theorem toDB_var_some {Γ : Stack} {x : Name} {i : Nat} (r g es) (hx : x ≠ placeholder)
    (h : Stack.index Γ x = some i) : toDB Γ (.mk r g (.var x) es) = some (.var x i) := by
  simp [toDB, toDBV, hx, h]

/-- PARAMETER SCOPE.  A λ's annotation is resolved OUTSIDE the parameter (in `Γ`), its body with the
parameter pushed (`slot x :: Γ`: the name, or an anonymous slot for `_`); likewise a Π's domain and
codomain; re-binding a name in scope is rejected.  An occurrence of the parameter gets as index the
number of binders crossed since. -/
def C08_param_scope_stmt : Prop :=
  (∀ (Γ : Stack) (r : SourceRange) (g : Bool) (es : List PErr) (x : SrcVar) (im : Bool) (A : OptSrc)
      (b : Src),
    toDB Γ (.mk r g (.lam x im A b) es) =
      if x.name ≠ placeholder ∧ (Γ.index x.name).isSome then none
      else match toDBOpt Γ A, toDB (slot x.name :: Γ) b with
        | some d, some b' => some (.lam x.name im d b')
        | _, _ => none) ∧
  (∀ (Γ : Stack) (r : SourceRange) (g : Bool) (es : List PErr) (x : SrcVar) (im : Bool) (A B : Src),
    toDB Γ (.mk r g (.pi x im A B) es) =
      if x.name ≠ placeholder ∧ (Γ.index x.name).isSome then none
      else match toDB Γ A, toDB (slot x.name :: Γ) B with
        | some d, some c => some (.pi x.name im d c)
        | _, _ => none) ∧
  (∀ (Γ Δ : Stack) (x : Name) (r : SourceRange) (g : Bool) (es : List PErr),
    x ≠ placeholder → some x ∉ Δ →
    toDB (Δ ++ slot x :: Γ) (.mk r g (.var x) es) = some (.var x Δ.length))
theorem C08_param_scope : C08_param_scope_stmt := by
  refine ⟨?_, ?_, ?_⟩
  · intro Γ r g es x im A b
    simp only [toDB, toDBV, Stack.bind_eq]
    by_cases h : x.name ≠ placeholder ∧ (Γ.index x.name).isSome
    · rw [if_pos h, if_pos h]; cases toDBOpt Γ A <;> rfl
    · rw [if_neg h, if_neg h]
      cases hA : toDBOpt Γ A <;> cases hB : toDB (slot x.name :: Γ) b <;> simp [hB]
  · intro Γ r g es x im A B
    simp only [toDB, toDBV, Stack.bind_eq]
    by_cases h : x.name ≠ placeholder ∧ (Γ.index x.name).isSome
    · rw [if_pos h, if_pos h]; cases toDB Γ A <;> rfl
    · rw [if_neg h, if_neg h]
      cases hA : toDB Γ A <;> cases hB : toDB (slot x.name :: Γ) B <;> simp [hB]
  · intro Γ Δ x r g es hx hΔ
    apply toDB_var_some r g es hx
    rw [Stack.index_append Δ _ x hΔ, Stack.index_cons]
    simp [slot, hx]

/-- the definitions of a group, resolved one after the other in one and the same stack -/
def toDBDefs (Γ : Stack) (n : Nat) : Nat → List (SrcVar × OptSrc × Src) → Option Defs
  | _, [] => some .nil
  | i, (v, a, d) :: rest =>
    match toDBAnn Γ a n i, toDB Γ d, toDBDefs Γ n (i + 1) rest with
    | some a', some d', some r => some (.cons v.name a' d' r)
    | _, _, _ => none

theorem toDBChain_eq_defs : ∀ (t : Src) (Γ : Stack) (n i : Nat),
    toDBChain Γ n i t =
      match toDBDefs Γ n i (collectDefinitions t).1, toDB Γ (collectDefinitions t).2 with
      | some r, some b => some (r, b)
      | _, _ => none
  | .mk _ _ (.let_ v ann defn body) _, Γ, n, i => by
      simp only [toDBChain, toDBChainV, collectDefinitions, toDBDefs]
      rw [toDBChain_eq_defs body Γ n (i + 1)]
      cases toDBAnn Γ ann n i <;> cases toDB Γ defn <;>
        cases toDBDefs Γ n (i + 1) (collectDefinitions body).1 <;>
        cases toDB Γ (collectDefinitions body).2 <;> rfl
  | .mk r g .parseError es, Γ, n, i | .mk r g .type es, Γ, n, i | .mk r g (.var _) es, Γ, n, i
  | .mk r g (.lam ..) es, Γ, n, i | .mk r g (.pi ..) es, Γ, n, i | .mk r g (.app ..) es, Γ, n, i
  | .mk r g .int es, Γ, n, i | .mk r g (.lit _) es, Γ, n, i | .mk r g (.neg _) es, Γ, n, i
  | .mk r g (.bin ..) es, Γ, n, i | .mk r g .bool es, Γ, n, i | .mk r g .tt es, Γ, n, i
  | .mk r g .ff es, Γ, n, i | .mk r g (.ite ..) es, Γ, n, i => by
      simp only [toDBChain, collectDefinitions, toDBDefs, toDB]
      rw [C08_chain_body_is_toDB Γ n i _ (by simp)]
      cases toDBV Γ _ <;> rfl

theorem Stack.bindAll_nth : ∀ (names : List Name) (Γ Γ' : Stack) (i : Nat) (x : Name),
    Stack.bindAll Γ names = some Γ' → names[i]? = some x → x ≠ placeholder →
    Stack.index Γ' x = some (names.length - 1 - i)
  | [], _, _, _, _, _, h, _ => by simp at h
  | y :: ys, Γ, Γ', i, x, hb, hi, hx => by
      simp only [Stack.bindAll, Stack.bind_eq] at hb
      by_cases hy : y ≠ placeholder ∧ (Stack.index Γ y).isSome
      · rw [if_pos hy] at hb; simp at hb
      · rw [if_neg hy] at hb
        simp only at hb
        cases i with
        | zero =>
          simp at hi; subst hi
          have h0 : Stack.index (slot y :: Γ) y = some 0 := by
            rw [Stack.index_cons]; simp [slot, hx]
          have hmem : y ∉ ys := fun hm => by
            have := ((bindAll_index ys _ _ hb).2 y hx).1 hm
            rw [h0] at this; simp at this
          rw [((bindAll_index ys _ _ hb).2 y hx).2 hmem, h0]
          simp
        | succ j =>
          simp at hi
          have := Stack.bindAll_nth ys _ _ j x hb hi hx
          rw [this]
          have : j < ys.length := by
            rcases List.getElem?_eq_some_iff.mp hi with ⟨h, _⟩; exact h
          simp; omega

/-- GROUP SCOPE.  All `n` names of a group are pushed first (`Stack.bindAll`, source order, so that
the last definition is index 0; re-binding is rejected); then EVERY annotation, EVERY definition and
the body are resolved in that one stack.  An occurrence, anywhere below, of the `i`-th name with `k`
further binders crossed gets index `k + (n - 1 - i)`. -/
def C08_group_scope_stmt : Prop :=
  (∀ (Γ : Stack) (s : Src) (r : SourceRange) (g : Bool) (es : List PErr) (x : SrcVar) (ann : OptSrc)
      (defn body : Src), s = .mk r g (.let_ x ann defn body) es →
    toDB Γ s =
      match Γ.bindAll (defNames (collectDefinitions s).1) with
      | none => none
      | some Γ' =>
        match toDBDefs Γ' (collectDefinitions s).1.length 0 (collectDefinitions s).1,
              toDB Γ' (collectDefinitions s).2 with
        | some ds, some b => some (.letg ds b)
        | _, _ => none) ∧
  (∀ (Γ Γ' : Stack) (names : List Name), Γ.bindAll names = some Γ' →
    Γ' = (names.map slot).reverse ++ Γ) ∧
  (∀ (Γ Γ' Δ : Stack) (names : List Name) (i : Nat) (x : Name) (r : SourceRange) (g : Bool)
      (es : List PErr),
    Γ.bindAll names = some Γ' → names[i]? = some x → x ≠ placeholder → some x ∉ Δ →
    toDB (Δ ++ Γ') (.mk r g (.var x) es) = some (.var x (Δ.length + (names.length - 1 - i))))
theorem C08_group_scope : C08_group_scope_stmt := by
  refine ⟨?_, ?_, ?_⟩
  · intro Γ s r g es x ann defn body hs
    subst hs
    have hn : defNames (collectDefinitions (.mk r g (.let_ x ann defn body) es)).1
        = x.name :: letNames body := by
      rw [collectDefinitions_names]; rfl
    have hl : (collectDefinitions (.mk r g (.let_ x ann defn body) es)).1.length
        = (x.name :: letNames body).length := by
      rw [← hn, defNames, List.length_map]
    rw [hn, hl]
    simp only [toDB, toDBV]
    cases Stack.bindAll Γ (x.name :: letNames body) with
    | none => rfl
    | some Γ' =>
      simp only [collectDefinitions, toDBDefs]
      rw [toDBChain_eq_defs body Γ' _ 1]
      cases toDBAnn Γ' ann (x.name :: letNames body).length 0 <;> cases toDB Γ' defn <;>
        cases toDBDefs Γ' (x.name :: letNames body).length (0 + 1) (collectDefinitions body).1 <;>
        cases toDB Γ' (collectDefinitions body).2 <;> rfl
  · intro Γ Γ' names h
    exact Stack.bindAll_eq names Γ Γ' h
  · intro Γ Γ' Δ names i x r g es hb hi hx hΔ
    apply toDB_var_some r g es hx
    rw [Stack.index_append Δ _ x hΔ, Stack.bindAll_nth names Γ Γ' i x hb hi hx]
    simp; omega

/-- PLACEHOLDER.  `_` as a binder never fails and pushes an anonymous slot, which every lookup skips:
an occurrence resolves only to a slot carrying its own name.  `_` as an expression is a hole in every
context, and in the model each occurrence allocates its own cell (`nextHole` is bumped). -/
def C08_placeholder_stmt : Prop :=
  (∀ Γ : Stack, Γ.bind placeholder = some (none :: Γ)) ∧
  (∀ (Γ : Stack) (x : Name), Stack.index (none :: Γ) x = (Stack.index Γ x).map (· + 1)) ∧
  (∀ (Γ : Stack) (r : SourceRange) (g : Bool) (es : List PErr) (x : Name) (t : Tm),
    toDB Γ (.mk r g (.var x) es) = some t →
      (x = placeholder ∧ t = .hole 0 0) ∨
      (x ≠ placeholder ∧ ∃ i, t = .var x i ∧ Γ[i]? = some (some x))) ∧
  (∀ (Γ : Stack) (r : SourceRange) (g : Bool) (es : List PErr),
    toDB Γ (.mk r g (.var placeholder) es) = some (.hole 0 0)) ∧
  (∀ (r : SourceRange) (g : Bool) (es : List PErr) (depth : Nat) (st : RState),
    st.ctx.get placeholder = none →
    resolve (.mk r g (.var placeholder) es) depth st
      = some (.mk (some r) (.hole st.nextHole 0), { st with nextHole := st.nextHole + 1 }))
theorem C08_placeholder : C08_placeholder_stmt := by
  refine ⟨?_, ?_, ?_, ?_, ?_⟩
  · intro Γ; simp [Stack.bind]
  · intro Γ x; rw [Stack.index_cons]; simp
  · intro Γ r g es x t h
    simp only [toDB, toDBV] at h
    by_cases hx : x = placeholder
    · simp [hx] at h; exact .inl ⟨hx, h.symm⟩
    · rw [if_neg hx] at h
      cases hi : Stack.index Γ x with
      | none => simp [hi] at h
      | some i =>
        simp [hi] at h
        exact .inr ⟨hx, i, h.symm, Stack.index_get Γ x i hi⟩
  · intro Γ r g es; simp [toDB, toDBV]
  · intro r g es depth st h
    simp [resolve, resolveAux, h, bind, StateT.bind, pure, StateT.pure]

/-! ### Rejection -/

mutual
/-- `IllScoped Γ s`: somewhere in `s` a name (≠ `_`) occurs that is not bound at that point, or a binder
re-binds a name bound at that point (or `s` contains a syntax-error node, which the specification
does not resolve). -/
inductive IllScoped : Stack → Src → Prop
  | parseError {Γ r g es} : IllScoped Γ (.mk r g .parseError es)
  | unbound {Γ r g es x} : x ≠ placeholder → Stack.index Γ x = none → IllScoped Γ (.mk r g (.var x) es)
  | lamAnn {Γ r g es x im A b} : IllScoped Γ A → IllScoped Γ (.mk r g (.lam x im (.some A) b) es)
  | lamRebind {Γ r g es x im A b} : x.name ≠ placeholder → (Stack.index Γ x.name).isSome →
      IllScoped Γ (.mk r g (.lam x im A b) es)
  | lamBody {Γ r g es x im A b} : IllScoped (slot x.name :: Γ) b → IllScoped Γ (.mk r g (.lam x im A b) es)
  | piDom {Γ r g es x im A B} : IllScoped Γ A → IllScoped Γ (.mk r g (.pi x im A B) es)
  | piRebind {Γ r g es x im A B} : x.name ≠ placeholder → (Stack.index Γ x.name).isSome →
      IllScoped Γ (.mk r g (.pi x im A B) es)
  | piCod {Γ r g es x im A B} : IllScoped (slot x.name :: Γ) B → IllScoped Γ (.mk r g (.pi x im A B) es)
  | appL {Γ r g es f a} : IllScoped Γ f → IllScoped Γ (.mk r g (.app f a) es)
  | appR {Γ r g es f a} : IllScoped Γ a → IllScoped Γ (.mk r g (.app f a) es)
  | neg {Γ r g es a} : IllScoped Γ a → IllScoped Γ (.mk r g (.neg a) es)
  | binL {Γ r g es op a b} : IllScoped Γ a → IllScoped Γ (.mk r g (.bin op a b) es)
  | binR {Γ r g es op a b} : IllScoped Γ b → IllScoped Γ (.mk r g (.bin op a b) es)
  | iteC {Γ r g es c a b} : IllScoped Γ c → IllScoped Γ (.mk r g (.ite c a b) es)
  | iteT {Γ r g es c a b} : IllScoped Γ a → IllScoped Γ (.mk r g (.ite c a b) es)
  | iteE {Γ r g es c a b} : IllScoped Γ b → IllScoped Γ (.mk r g (.ite c a b) es)
  /-- some name of the group is already in scope (outside, or earlier in the group) -/
  | letRebind {Γ r g es x ann d body} : Stack.bindAll Γ (x.name :: letNames body) = none →
      IllScoped Γ (.mk r g (.let_ x ann d body) es)
  /-- with all names of the group pushed, an annotation, a definition or the body is ill-scoped -/
  | letIn {Γ Γ' r g es x ann d body} : Stack.bindAll Γ (x.name :: letNames body) = some Γ' →
      IllScopedChain Γ' (.mk r g (.let_ x ann d body) es) → IllScoped Γ (.mk r g (.let_ x ann d body) es)
/-- in the stack of the group: some annotation, some definition, or the innermost body -/
inductive IllScopedChain : Stack → Src → Prop
  | ann {Γ r g es x A d body} : IllScoped Γ A → IllScopedChain Γ (.mk r g (.let_ x (.some A) d body) es)
  | defn {Γ r g es x ann d body} : IllScoped Γ d → IllScopedChain Γ (.mk r g (.let_ x ann d body) es)
  | rest {Γ r g es x ann d body} : IllScopedChain Γ body →
      IllScopedChain Γ (.mk r g (.let_ x ann d body) es)
  | body {Γ r g es v} : (∀ x a d b, v ≠ .let_ x a d b) → IllScoped Γ (.mk r g v es) →
      IllScopedChain Γ (.mk r g v es)
end

theorem illChain_nonlet {Γ r g v es} (hv : ∀ x a d b, v ≠ .let_ x a d b) :
    IllScopedChain Γ (.mk r g v es) ↔ IllScoped Γ (.mk r g v es) := by
  constructor
  · intro h
    cases h with
    | ann _ => exact absurd rfl (hv _ _ _ _)
    | defn _ => exact absurd rfl (hv _ _ _ _)
    | rest _ => exact absurd rfl (hv _ _ _ _)
    | body _ h => exact h
  · exact fun h => .body hv h

/-- `IllScoped` for an optional annotation -/
def IllScopedOpt (Γ : Stack) : OptSrc → Prop
  | .none => False
  | .some A => IllScoped Γ A

theorem ill_lam_iff {Γ r g es x im A b} : IllScoped Γ (.mk r g (.lam x im A b) es) ↔
    IllScopedOpt Γ A ∨ (x.name ≠ placeholder ∧ (Stack.index Γ x.name).isSome) ∨
      IllScoped (slot x.name :: Γ) b := by
  constructor
  · intro h
    cases h with
    | lamAnn h => exact .inl h
    | lamRebind h1 h2 => exact .inr (.inl ⟨h1, h2⟩)
    | lamBody h => exact .inr (.inr h)
  · rintro (h | ⟨h1, h2⟩ | h)
    · cases A with
      | none => exact h.elim
      | some A => exact .lamAnn h
    · exact .lamRebind h1 h2
    · exact .lamBody h

theorem ill_pi_iff {Γ r g es x im A B} : IllScoped Γ (.mk r g (.pi x im A B) es) ↔
    IllScoped Γ A ∨ (x.name ≠ placeholder ∧ (Stack.index Γ x.name).isSome) ∨
      IllScoped (slot x.name :: Γ) B := by
  constructor
  · intro h
    cases h with
    | piDom h => exact .inl h
    | piRebind h1 h2 => exact .inr (.inl ⟨h1, h2⟩)
    | piCod h => exact .inr (.inr h)
  · rintro (h | ⟨h1, h2⟩ | h)
    · exact .piDom h
    · exact .piRebind h1 h2
    · exact .piCod h

theorem ill_app_iff {Γ r g es f a} : IllScoped Γ (.mk r g (.app f a) es) ↔
    IllScoped Γ f ∨ IllScoped Γ a := by
  constructor
  · intro h
    cases h with
    | appL h => exact .inl h
    | appR h => exact .inr h
  · rintro (h | h)
    · exact .appL h
    · exact .appR h

theorem ill_neg_iff {Γ r g es a} : IllScoped Γ (.mk r g (.neg a) es) ↔ IllScoped Γ a := by
  constructor
  · intro h; cases h with | neg h => exact h
  · exact fun h => .neg h

theorem ill_bin_iff {Γ r g es op a b} : IllScoped Γ (.mk r g (.bin op a b) es) ↔
    IllScoped Γ a ∨ IllScoped Γ b := by
  constructor
  · intro h
    cases h with
    | binL h => exact .inl h
    | binR h => exact .inr h
  · rintro (h | h)
    · exact .binL h
    · exact .binR h

theorem ill_ite_iff {Γ r g es c a b} : IllScoped Γ (.mk r g (.ite c a b) es) ↔
    IllScoped Γ c ∨ IllScoped Γ a ∨ IllScoped Γ b := by
  constructor
  · intro h
    cases h with
    | iteC h => exact .inl h
    | iteT h => exact .inr (.inl h)
    | iteE h => exact .inr (.inr h)
  · rintro (h | h | h)
    · exact .iteC h
    · exact .iteT h
    · exact .iteE h

theorem ill_var_iff {Γ r g es x} : IllScoped Γ (.mk r g (.var x) es) ↔
    x ≠ placeholder ∧ Stack.index Γ x = none := by
  constructor
  · intro h; cases h with | unbound h1 h2 => exact ⟨h1, h2⟩
  · exact fun h => .unbound h.1 h.2

theorem ill_let_iff {Γ r g es x ann d body} : IllScoped Γ (.mk r g (.let_ x ann d body) es) ↔
    Stack.bindAll Γ (x.name :: letNames body) = none ∨
    ∃ Γ', Stack.bindAll Γ (x.name :: letNames body) = some Γ' ∧
      IllScopedChain Γ' (.mk r g (.let_ x ann d body) es) := by
  constructor
  · intro h
    cases h with
    | letRebind h => exact .inl h
    | letIn h1 h2 => exact .inr ⟨_, h1, h2⟩
  · rintro (h | ⟨Γ', h1, h2⟩)
    · exact .letRebind h
    · exact .letIn h1 h2

theorem illChain_let_iff {Γ r g es x ann d body} :
    IllScopedChain Γ (.mk r g (.let_ x ann d body) es) ↔
      IllScopedOpt Γ ann ∨ IllScoped Γ d ∨ IllScopedChain Γ body := by
  constructor
  · intro h
    cases h with
    | ann h => exact .inl h
    | defn h => exact .inr (.inl h)
    | rest h => exact .inr (.inr h)
    | body hv _ => exact absurd rfl (hv _ _ _ _)
  · rintro (h | h | h)
    · cases ann with
      | none => exact h.elim
      | some A => exact .ann h
    · exact .defn h
    · exact .rest h

/-- what rejection says of a chain -/
def ChainIll (s : Src) : Prop :=
  ∀ (Γ : Stack) (n i : Nat), toDBChain Γ n i s = none ↔ IllScopedChain Γ s

theorem ill_of_chain (s : Src) (hc : ChainIll s) : ∀ Γ : Stack, toDB Γ s = none ↔ IllScoped Γ s := by
  intro Γ
  obtain ⟨r, g, v, es⟩ := s
  by_cases hv : ∃ x a d b, v = .let_ x a d b
  · obtain ⟨x, ann, defn, body, rfl⟩ := hv
    rw [ill_let_iff]
    simp only [toDB, toDBV]
    cases hb : Stack.bindAll Γ (x.name :: letNames body) with
    | none => simp
    | some Γ' =>
      have := hc Γ' (x.name :: letNames body).length 0
      simp only [toDBChain, toDBChainV, Nat.zero_add] at this
      simp only [reduceCtorEq, Option.some.injEq, exists_eq_left', false_or]
      rw [← this]
      cases toDBAnn Γ' ann (x.name :: letNames body).length 0 <;> cases toDB Γ' defn <;>
        cases toDBChain Γ' (x.name :: letNames body).length 1 body <;> simp
  · have hv' : ∀ x a d b, v ≠ .let_ x a d b := fun x a d b e => hv ⟨x, a, d, b, e⟩
    have := hc Γ 0 0
    rw [illChain_nonlet hv'] at this
    rw [← this]
    simp only [toDB, toDBChain, C08_chain_body_is_toDB Γ 0 0 v hv']
    cases toDBV Γ v <;> simp

mutual
theorem chainIll : ∀ (s : Src), ChainIll s
  | .mk r g .parseError es => by
      intro Γ n i
      rw [illChain_nonlet (by simp)]
      simp only [toDBChain, toDBChainV, true_iff]
      exact .parseError
  | .mk r g .type es | .mk r g .int es | .mk r g .bool es | .mk r g .tt es | .mk r g .ff es
  | .mk r g (.lit _) es => by
      intro Γ n i
      rw [illChain_nonlet (by simp)]
      simp only [toDBChain, toDBChainV, reduceCtorEq, false_iff]
      intro h; cases h
  | .mk r g (.var x) es => by
      intro Γ n i
      rw [illChain_nonlet (by simp), ill_var_iff]
      simp only [toDBChain, toDBChainV]
      by_cases hx : x = placeholder
      · simp [hx]
      · cases Stack.index Γ x <;> simp [hx]
  | .mk r g (.lam x im dom body) es => by
      intro Γ n i
      have q1 := optIll dom Γ
      have q2 := ill_of_chain body (chainIll body) (slot x.name :: Γ)
      rw [illChain_nonlet (by simp), ill_lam_iff, ← q1, ← q2]
      simp only [toDBChain, toDBChainV, Stack.bind_eq]
      by_cases h : x.name ≠ placeholder ∧ (Stack.index Γ x.name).isSome
      · rw [if_pos h]; cases toDBOpt Γ dom <;> simp [h]
      · rw [if_neg h]
        cases toDBOpt Γ dom <;> cases hB : toDB (slot x.name :: Γ) body <;> simp [h, hB]
  | .mk r g (.pi x im dom cod) es => by
      intro Γ n i
      have q1 := ill_of_chain dom (chainIll dom) Γ
      have q2 := ill_of_chain cod (chainIll cod) (slot x.name :: Γ)
      rw [illChain_nonlet (by simp), ill_pi_iff, ← q1, ← q2]
      simp only [toDBChain, toDBChainV, Stack.bind_eq]
      by_cases h : x.name ≠ placeholder ∧ (Stack.index Γ x.name).isSome
      · rw [if_pos h]; cases toDB Γ dom <;> simp [h]
      · rw [if_neg h]
        cases toDB Γ dom <;> cases hB : toDB (slot x.name :: Γ) cod <;> simp [h, hB]
  | .mk r g (.app f a) es => by
      intro Γ n i
      have q1 := ill_of_chain f (chainIll f) Γ
      have q2 := ill_of_chain a (chainIll a) Γ
      rw [illChain_nonlet (by simp), ill_app_iff, ← q1, ← q2]
      simp only [toDBChain, toDBChainV]
      cases toDB Γ f <;> cases toDB Γ a <;> simp
  | .mk r g (.neg a) es => by
      intro Γ n i
      have q1 := ill_of_chain a (chainIll a) Γ
      rw [illChain_nonlet (by simp), ill_neg_iff, ← q1]
      simp only [toDBChain, toDBChainV]
      cases toDB Γ a <;> simp
  | .mk r g (.bin op a b) es => by
      intro Γ n i
      have q1 := ill_of_chain a (chainIll a) Γ
      have q2 := ill_of_chain b (chainIll b) Γ
      rw [illChain_nonlet (by simp), ill_bin_iff, ← q1, ← q2]
      simp only [toDBChain, toDBChainV]
      cases toDB Γ a <;> cases toDB Γ b <;> simp
  | .mk r g (.ite c a b) es => by
      intro Γ n i
      have q0 := ill_of_chain c (chainIll c) Γ
      have q1 := ill_of_chain a (chainIll a) Γ
      have q2 := ill_of_chain b (chainIll b) Γ
      rw [illChain_nonlet (by simp), ill_ite_iff, ← q0, ← q1, ← q2]
      simp only [toDBChain, toDBChainV]
      cases toDB Γ c <;> cases toDB Γ a <;> cases toDB Γ b <;> simp
  | .mk r g (.let_ x ann defn body) es => by
      intro Γ n i
      have q0 := annIll ann Γ n i
      have q1 := ill_of_chain defn (chainIll defn) Γ
      have q2 := chainIll body Γ n (i + 1)
      rw [illChain_let_iff, ← q0, ← q1, ← q2]
      simp only [toDBChain, toDBChainV]
      cases toDBAnn Γ ann n i <;> cases toDB Γ defn <;> cases toDBChain Γ n (i + 1) body <;> simp
theorem optIll : ∀ (o : OptSrc) (Γ : Stack), toDBOpt Γ o = none ↔ IllScopedOpt Γ o
  | .none, Γ => by simp [toDBOpt, IllScopedOpt]
  | .some (.mk r g v es), Γ => by
      simp only [toDBOpt, IllScopedOpt]
      exact ill_of_chain _ (chainIll (.mk r g v es)) Γ
theorem annIll : ∀ (o : OptSrc) (Γ : Stack) (n i : Nat), toDBAnn Γ o n i = none ↔ IllScopedOpt Γ o
  | .none, Γ, n, i => by simp [toDBAnn, IllScopedOpt]
  | .some (.mk r g v es), Γ, n, i => by
      simp only [toDBAnn, IllScopedOpt]
      exact ill_of_chain _ (chainIll (.mk r g v es)) Γ
end

/-- REJECTION.  The specification fails exactly on the ill-scoped programs. -/
def C08_rejects_stmt : Prop :=
  ∀ (Γ : Stack) (s : Src), toDB Γ s = none ↔ IllScoped Γ s
theorem C08_rejects : C08_rejects_stmt :=
  fun Γ s => ill_of_chain s (chainIll s) Γ

theorem Stack.index_isSome : ∀ (Γ : Stack) (x : Name), (Stack.index Γ x).isSome = true ↔ some x ∈ Γ
  | [], x => by simp [Stack.index]
  | a :: Γ, x => by
      rw [Stack.index_cons]
      by_cases h : a = some x
      · simp [h]
      · have := Stack.index_isSome Γ x
        have h' : ¬ some x = a := fun e => h e.symm
        rw [if_neg h]; simp [Option.isSome_map, this, h']

/-- "Re-binds a name that is already in scope", spelled out: pushing the names of a group fails
exactly when some name other than `_` is bound outside the group or occurs earlier in the group. -/
def C08_rebind_stmt : Prop :=
  ∀ (names : List Name) (Γ : Stack), Γ.bindAll names = none ↔
    ∃ pre x post, names = pre ++ x :: post ∧ x ≠ placeholder ∧ (some x ∈ Γ ∨ x ∈ pre)
theorem Stack.bindAll_none_iff : C08_rebind_stmt
  | [], Γ => by simp [Stack.bindAll]
  | y :: ys, Γ => by
      simp only [Stack.bindAll, Stack.bind_eq]
      by_cases hy : y ≠ placeholder ∧ (Stack.index Γ y).isSome
      · rw [if_pos hy]
        simp only [true_iff]
        exact ⟨[], y, ys, rfl, hy.1, .inl ((Stack.index_isSome Γ y).mp hy.2)⟩
      · rw [if_neg hy]
        simp only
        rw [Stack.bindAll_none_iff ys (slot y :: Γ)]
        constructor
        · rintro ⟨pre, x, post, rfl, hx, h⟩
          refine ⟨y :: pre, x, post, rfl, hx, ?_⟩
          rcases h with h | h
          · rcases List.mem_cons.mp h with h | h
            · right
              unfold slot at h
              split at h
              · simp at h
              · simp at h; simp [h]
            · exact .inl h
          · right; simp [h]
        · rintro ⟨pre, x, post, he, hx, h⟩
          cases pre with
          | nil =>
            simp at he
            obtain ⟨rfl, rfl⟩ := he
            rcases h with h | h
            · exact absurd ⟨hx, (Stack.index_isSome Γ y).mpr h⟩ hy
            · simp at h
          | cons z pre =>
            simp at he
            obtain ⟨rfl, rfl⟩ := he
            refine ⟨pre, x, post, rfl, hx, ?_⟩
            rcases h with h | h
            · exact .inl (List.mem_cons_of_mem _ h)
            · rcases List.mem_cons.mp h with h | h
              · subst h; left; simp [slot, hx]
              · exact .inr h
theorem C08_rebind : C08_rebind_stmt := Stack.bindAll_none_iff

/-! ## Non-vacuity of the round trip, the scope clauses and rejection -/

private def slet (x : Name) (ann : OptSrc) (d b : Src) : Src :=
  .mk ⟨0, 0⟩ false (.let_ ⟨⟨0, 0⟩, x⟩ ann d b) []
private def slit (n : Int) : Src := .mk ⟨0, 0⟩ false (.lit n) []

-- `x => y => x y`: indices (1, 0); read back to the source
example : toDB [] (sl 1 (sl 2 (sa (sv 1) (sv 2))))
    = some (.lam 1 false (.hole 0 0) (.lam 2 false (.hole 0 0) (.app (.var 1 1) (.var 2 0)))) := by decide
example : fromDB [] (.lam 1 false (.hole 0 0) (.lam 2 false (.hole 0 0) (.app (.var 1 1) (.var 2 0))))
    = some (sl 1 (sl 2 (sa (sv 1) (sv 2)))) := by rfl
-- the names carried by `Tm.var` play no role in reading back: only the indices do
example : fromDB [] (.lam 1 false (.hole 0 0) (.lam 2 false (.hole 0 0) (.app (.var 7 1) (.var 7 0))))
    = some (sl 1 (sl 2 (sa (sv 1) (sv 2)))) := by rfl
-- `x : y = y; y = x; x y`: a group of two with cross references and an annotation mentioning the
-- later definition; the omitted annotation of `y` is a hole living outside the group
example : toDB [] (slet 1 (.some (sv 2)) (sv 2) (slet 2 .none (sv 1) (sa (sv 1) (sv 2))))
    = some (.letg (.cons 1 (.var 2 0) (.var 2 0) (.cons 2 (.hole 0 1) (.var 1 1) .nil))
        (.app (.var 1 1) (.var 2 0))) := by decide
example : fromDB [] (.letg (.cons 1 (.var 2 0) (.var 2 0) (.cons 2 (.hole 0 1) (.var 1 1) .nil))
        (.app (.var 1 1) (.var 2 0)))
    = some (slet 1 (.some (sv 2)) (sv 2) (slet 2 .none (sv 1) (sa (sv 1) (sv 2)))) := by rfl
-- sibling scopes may re-use a name: `(x => x) (x => x)`
example : toDB [] (sa (sl 1 (sv 1)) (sl 1 (sv 1)))
    = some (.app (.lam 1 false (.hole 0 0) (.var 1 0)) (.lam 1 false (.hole 0 0) (.var 1 0))) := by decide
example : fromDB [] (.app (.lam 1 false (.hole 0 0) (.var 1 0)) (.lam 1 false (.hole 0 0) (.var 1 0)))
    = some (sa (sl 1 (sv 1)) (sl 1 (sv 1))) := by rfl
-- `_ => x => _`: the anonymous slot is skipped (`x` under one more binder is still index 0), `_` is a hole
example : toDB [] (sl 0 (sl 1 (sa (sv 1) (sv 0))))
    = some (.lam 0 false (.hole 0 0) (.lam 1 false (.hole 0 0) (.app (.var 1 0) (.hole 0 0)))) := by decide
example : fromDB [] (.lam 0 false (.hole 0 0) (.lam 1 false (.hole 0 0) (.app (.var 1 0) (.hole 0 0))))
    = some (sl 0 (sl 1 (sa (sv 1) (sv 0)))) := by rfl
-- `x = 1; (y = 2; y)` and `x = 1; y = 2; y` are one and the same group for gram, and for `stripLayout`
example : toDB [] (slet 1 .none (slit 1) (.mk ⟨4, 9⟩ true (.let_ ⟨⟨0, 0⟩, 2⟩ .none (slit 2) (sv 2)) []))
    = toDB [] (slet 1 .none (slit 1) (slet 2 .none (slit 2) (sv 2))) := by decide
example : stripLayout (slet 1 .none (slit 1) (.mk ⟨4, 9⟩ true (.let_ ⟨⟨0, 0⟩, 2⟩ .none (slit 2) (sv 2)) []))
    = stripLayout (slet 1 .none (slit 1) (slet 2 .none (slit 2) (sv 2))) := by rfl
-- the i-th name of a group of 3, one further binder crossed: index 1 + (3 - 1 - 0)
example : toDB ([some 9] ++ [some 3, some 2, some 1]) (sv 1) = some (.var 1 (1 + (3 - 1 - 0))) := by decide
example : Stack.bindAll [] [1, 2, 3] = some [some 3, some 2, some 1] := by decide
-- rejection: an unbound name, a shadowing parameter, a name defined twice in a group
example : IllScoped [] (sv 5) := .unbound (by decide) (by decide)
example : IllScoped [] (sl 1 (sl 1 (sv 1))) := .lamBody (.lamRebind (by decide) (by decide))
example : IllScoped [] (slet 1 .none (slit 1) (slet 1 .none (slit 2) (sv 1))) := .letRebind (by decide)
example : IllScoped [] (slet 1 .none (sv 7) (sv 1)) :=
  .letIn (Γ' := [some 1]) (by decide) (.defn (.unbound (by decide) (by decide)))
example : toDB [] (slet 1 .none (sv 7) (sv 1)) = none := by decide
example : ¬ IllScoped [] (sa (sl 1 (sv 1)) (sl 1 (sv 1))) := by
  rw [← C08_rejects]; decide


/-! ### Reading back and resolving again -/

theorem toDBOpt_normLamAnn (Γ : Stack) : ∀ o : OptSrc, toDBOpt Γ (normLamAnn o) = toDBOpt Γ o
  | .none => rfl
  | .some (.mk r g v es) => by
      cases v <;> simp only [normLamAnn]
      rename_i x
      by_cases hx : x = placeholder
      · simp [hx, toDBOpt, toDB, toDBV]
      · simp [hx]

theorem toDB_let_chain (Γ : Stack) (r g es x ann d body) :
    toDB Γ (.mk r g (.let_ x ann d body) es) =
      match Γ.bindAll (x.name :: letNames body) with
      | none => none
      | some Γ' => (toDBChain Γ' (x.name :: letNames body).length 0
          (.mk r g (.let_ x ann d body) es)).map (fun p => Tm.letg p.1 p.2) := by
  simp only [toDB, toDBV, toDBChain, toDBChainV, Nat.zero_add]
  cases Stack.bindAll Γ (x.name :: letNames body) with
  | none => rfl
  | some Γ' =>
    simp only
    cases toDBAnn Γ' ann (x.name :: letNames body).length 0 <;> cases toDB Γ' d <;>
      rcases toDBChain Γ' (x.name :: letNames body).length 1 body with _ | ⟨rest, b⟩ <;> rfl

theorem toDB_nonlet_chain (Γ : Stack) {r g v es} (hv : ∀ x a d b, v ≠ .let_ x a d b) :
    toDB Γ (.mk r g v es) = (toDBChain Γ 0 0 (.mk r g v es)).map (·.2) := by
  simp only [toDB, toDBChain, C08_chain_body_is_toDB Γ 0 0 v hv]
  cases toDBV Γ v <;> rfl

def ChainStrip (s : Src) : Prop :=
  letNames (layoutB true s) = letNames s ∧
    ∀ (Γ : Stack) (n i : Nat), toDBChain Γ n i (layoutB true s) = toDBChain Γ n i s

theorem strip_of_chain (s : Src) (hc : ChainStrip s) :
    ∀ Γ : Stack, toDB Γ (layoutB true s) = toDB Γ s := by
  intro Γ
  obtain ⟨r, g, v, es⟩ := s
  obtain ⟨h1, h2⟩ := hc
  by_cases hv : ∃ x a d b, v = .let_ x a d b
  · obtain ⟨x, ann, defn, body, rfl⟩ := hv
    simp only [layoutB, layoutVB] at h1 h2 ⊢
    rw [toDB_let_chain, toDB_let_chain]
    simp only [letNames] at h1
    have h1' : letNames (layoutB true body) = letNames body := (List.cons.inj h1).2
    rw [h1']
    cases Stack.bindAll Γ (x.name :: letNames body) with
    | none => rfl
    | some Γ' => simp only; rw [h2]
  · have hv' : ∀ x a d b, v ≠ .let_ x a d b := fun x a d b e => hv ⟨x, a, d, b, e⟩
    have hv'' : ∀ x a d b, layoutVB true v ≠ .let_ x a d b := by
      cases v <;> simp [layoutVB]
      exact absurd rfl (hv' _ _ _ _)
    simp only [layoutB] at h2 ⊢
    rw [toDB_nonlet_chain Γ hv', toDB_nonlet_chain Γ hv'', h2]

mutual
theorem chainStrip : ∀ (s : Src), ChainStrip s
  | .mk r g .parseError es | .mk r g .type es | .mk r g .int es | .mk r g .bool es
  | .mk r g .tt es | .mk r g .ff es | .mk r g (.lit _) es | .mk r g (.var _) es =>
      ⟨by simp [layoutB, layoutVB, letNames], fun Γ n i => by
        simp only [layoutB, layoutVB, toDBChain]⟩
  | .mk r g (.lam x im dom body) es =>
      ⟨by simp [layoutB, layoutVB, letNames], fun Γ n i => by
        simp only [layoutB, layoutVB, toDBChain, toDBChainV, if_true, toDBOpt_normLamAnn]
        rw [optStrip dom Γ]
        cases toDBOpt Γ dom <;> cases hb : Stack.bind Γ x.name <;> simp only
        rw [strip_of_chain body (chainStrip body)]⟩
  | .mk r g (.pi x im dom cod) es =>
      ⟨by simp [layoutB, layoutVB, letNames], fun Γ n i => by
        simp only [layoutB, layoutVB, toDBChain, toDBChainV]
        rw [strip_of_chain dom (chainStrip dom)]
        cases toDB Γ dom <;> cases hb : Stack.bind Γ x.name <;> simp only
        rw [strip_of_chain cod (chainStrip cod)]⟩
  | .mk r g (.app f a) es =>
      ⟨by simp [layoutB, layoutVB, letNames], fun Γ n i => by
        simp only [layoutB, layoutVB, toDBChain, toDBChainV]
        rw [strip_of_chain f (chainStrip f), strip_of_chain a (chainStrip a)]⟩
  | .mk r g (.neg a) es =>
      ⟨by simp [layoutB, layoutVB, letNames], fun Γ n i => by
        simp only [layoutB, layoutVB, toDBChain, toDBChainV]
        rw [strip_of_chain a (chainStrip a)]⟩
  | .mk r g (.bin op a b) es =>
      ⟨by simp [layoutB, layoutVB, letNames], fun Γ n i => by
        simp only [layoutB, layoutVB, toDBChain, toDBChainV]
        rw [strip_of_chain a (chainStrip a), strip_of_chain b (chainStrip b)]⟩
  | .mk r g (.ite c a b) es =>
      ⟨by simp [layoutB, layoutVB, letNames], fun Γ n i => by
        simp only [layoutB, layoutVB, toDBChain, toDBChainV]
        rw [strip_of_chain c (chainStrip c), strip_of_chain a (chainStrip a),
          strip_of_chain b (chainStrip b)]⟩
  | .mk r g (.let_ x ann defn body) es =>
      ⟨by simp [layoutB, layoutVB, letNames, (chainStrip body).1], fun Γ n i => by
        simp only [layoutB, layoutVB, toDBChain, toDBChainV]
        rw [annStrip ann Γ n i, strip_of_chain defn (chainStrip defn), (chainStrip body).2]⟩
theorem optStrip : ∀ (o : OptSrc) (Γ : Stack), toDBOpt Γ (layoutOptB true o) = toDBOpt Γ o
  | .none, Γ => rfl
  | .some (.mk r g v es), Γ => by
      simp only [layoutOptB, toDBOpt]
      exact strip_of_chain _ (chainStrip (.mk r g v es)) Γ
theorem annStrip : ∀ (o : OptSrc) (Γ : Stack) (n i : Nat),
    toDBAnn Γ (layoutOptB true o) n i = toDBAnn Γ o n i
  | .none, Γ, n, i => rfl
  | .some (.mk r g v es), Γ, n, i => by
      simp only [layoutOptB, toDBAnn]
      exact strip_of_chain _ (chainStrip (.mk r g v es)) Γ
end

/-- Layout plays no role in resolution: a program and its `stripLayout` resolve alike. -/
def C08_toDB_stripLayout_stmt : Prop :=
  ∀ (Γ : Stack) (s : Src), toDB Γ (stripLayout s) = toDB Γ s
theorem C08_toDB_stripLayout : C08_toDB_stripLayout_stmt :=
  fun Γ s => strip_of_chain s (chainStrip s) Γ

/-- `fromDB` is a right inverse of `toDB` on its image: what is read back resolves to the very tree
it was read from. -/
def C08_readback_resolves_stmt : Prop :=
  ∀ (Γ : Stack) (s : Src) (t : Tm), toDB Γ s = some t →
    ∃ s', fromDB Γ t = some s' ∧ toDB Γ s' = some t
theorem C08_readback_resolves : C08_readback_resolves_stmt := by
  intro Γ s t h
  exact ⟨stripLayout s, C08_roundtrip Γ s t h, by rw [C08_toDB_stripLayout, h]⟩

example : ∃ s', fromDB [] (.lam 1 false (.hole 0 0) (.var 1 0)) = some s' ∧
    toDB [] s' = some (.lam 1 false (.hole 0 0) (.var 1 0)) :=
  C08_readback_resolves [] (.mk ⟨3, 4⟩ true (.lam ⟨⟨0, 0⟩, 1⟩ false .none
    (.mk ⟨0, 0⟩ false (.var 1) [])) []) _ (by decide)

