import GramModel.Check
import GramModel.Lemmas.StoreCtx
import GramModel.Lemmas.StoreMono

/-!
# C05 — fully annotated well-typed programs are accepted; elaboration only fills holes
-/

/-- The elaborated term is *literally* the input tree: the checker rebuilds every node from its
elaborated children in source order and never replaces a hole node — only cell contents change.
This is "nothing rewritten, reordered, duplicated or dropped". -/
def C05_elab_identity_stmt : Prop :=
  ∀ (fuel : Nat) (t e ty : Tm) (s s' : St), inferS fuel t s = .ok (e, ty) s' → e = t
theorem C05_elab_identity : C05_elab_identity_stmt := by
  intro fuel t e ty s s' h
  exact inferS_elab_id h

/-- Cells only ever go from empty to filled, and no cell disappears: the store after checking
extends the store before. -/
def storeExtends (a b : List (Option Tm)) : Prop :=
  a.length ≤ b.length ∧ ∀ (id : Nat) (t : Tm), a[id]? = some (some t) → b[id]? = some (some t)

def C05_store_monotone_stmt : Prop :=
  ∀ (fuel : Nat) (t e ty : Tm) (s s' : St), inferS fuel t s = .ok (e, ty) s' →
    storeExtends s.store s'.store
theorem C05_store_monotone : C05_store_monotone_stmt := by
  intro fuel t e ty s s' h
  exact ((StoreMono.inferS_le fuel t).out _ _ _ h).1

/-- Diagnostics are only ever added (there is no early return that drops one). -/
def C05_errors_monotone_stmt : Prop :=
  ∀ (fuel : Nat) (t e ty : Tm) (s s' : St), inferS fuel t s = .ok (e, ty) s' → s.nerrs ≤ s'.nerrs
theorem C05_errors_monotone : C05_errors_monotone_stmt := by
  intro fuel t e ty s s' h
  exact ((StoreMono.inferS_le fuel t).out _ _ _ h).2

/-! ## The repaired group rule (D7), on the witness that overflowed the stack before the fix -/

-- `(y : t = 4; t = u; u = int; y) + 1`: accepted, type `int`
def C05_w_cutoff : Tm :=
  .bin .sum (.letg (.cons 1 (.var 2 1) (.lit 4) (.cons 2 (.hole 0 2) (.var 3 0) (.cons 3 (.hole 1 1) .int .nil))) (.var 1 2)) (.lit 1)
def C05_cutoff_witness_stmt : Prop :=
  (match inferS 60 C05_w_cutoff { store := [none, none] } with
   | .ok (e, ty) s => s.nerrs == 0 && e == C05_w_cutoff && ty == .int
   | _ => false) = true
theorem C05_cutoff_witness : C05_cutoff_witness_stmt := by unfold C05_cutoff_witness_stmt; decide
