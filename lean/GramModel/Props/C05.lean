import GramModel.Check
import GramModel.Lemmas.StoreCtx
import GramModel.Lemmas.StoreMono
import GramModel.Oracle
import GramModel.Typing
import GramModel.Lemmas.CheckComplete

/-!
# C05 — fully annotated well-typed programs are accepted; elaboration only fills holes
-/

/-- The elaborated term is *literally* the input tree: the checker rebuilds every node from its
elaborated children in source order and never replaces a hole node — only cell contents change.
This is "nothing rewritten, reordered, duplicated or dropped". -/
def C05_elab_identity_stmt : Prop :=
  ∀ (fuel : Nat) (t e ty : Tm) (s s' : St), inferS fuel t s = .ok (e, ty) s' → e = t
theorem C05_elab_identity : C05_elab_identity_stmt := by
  intro fuel t e ty s s' h
  exact inferS_elab_id h

/-- Cells only ever go from empty to filled, and no cell disappears: the store after checking
extends the store before. -/
def storeExtends (a b : List (Option Tm)) : Prop :=
  a.length ≤ b.length ∧ ∀ (id : Nat) (t : Tm), a[id]? = some (some t) → b[id]? = some (some t)

def C05_store_monotone_stmt : Prop :=
  ∀ (fuel : Nat) (t e ty : Tm) (s s' : St), inferS fuel t s = .ok (e, ty) s' →
    storeExtends s.store s'.store
theorem C05_store_monotone : C05_store_monotone_stmt := by
  intro fuel t e ty s s' h
  exact ((StoreMono.inferS_le fuel t).out _ _ _ h).1

/-- Diagnostics are only ever added (there is no early return that drops one). -/
def C05_errors_monotone_stmt : Prop :=
  ∀ (fuel : Nat) (t e ty : Tm) (s s' : St), inferS fuel t s = .ok (e, ty) s' → s.nerrs ≤ s'.nerrs
theorem C05_errors_monotone : C05_errors_monotone_stmt := by
  intro fuel t e ty s s' h
  exact ((StoreMono.inferS_le fuel t).out _ _ _ h).2

/-! ## The repaired group rule (D7), on the witness that overflowed the stack before the fix -/

-- `(y : t = 4; t = u; u = int; y) + 1`: accepted, type `int`
def C05_w_cutoff : Tm :=
  .bin .sum (.letg (.cons 1 (.var 2 1) (.lit 4) (.cons 2 (.hole 0 2) (.var 3 0) (.cons 3 (.hole 1 1) .int .nil))) (.var 1 2)) (.lit 1)
def C05_cutoff_witness_stmt : Prop :=
  (match inferS 60 C05_w_cutoff { store := [none, none] } with
   | .ok (e, ty) s => s.nerrs == 0 && e == C05_w_cutoff && ty == .int
   | _ => false) = true
theorem C05_cutoff_witness : C05_cutoff_witness_stmt := by unfold C05_cutoff_witness_stmt; decide

/-! ## Completeness on fully annotated programs, relative to the independent checker -/

/-- **C05 for the model, as first stated — FALSE** (see `C05_checker_complete_holefree_refuted`).
If the independent checker accepts a closed, hole-free (fully annotated)
program — so that, by `C03_infer_sound`, the program is well typed under the declarative rules — then,
given enough fuel, the model of gram's checker accepts it too: no diagnostic, the elaboration is the
program itself, and the reported type, zonked, is hole-free and convertible with the type the independent
checker computed.  (The hypothesis is an *algorithmic* acceptance on purpose: for a calculus with
`type : type` and general recursion no checker accepts every declaratively well-typed program.)

What is wrong: (1) *divergence* — gram's application rule unifies `Π (_ : ?dom). ?cod` with the type of
the function, and `unify` weak-head normalises the **domain** before it solves `?dom`; the independent
checker (and the declarative rules) never normalise the domain, they compare it with the argument's type,
and two syntactically equal types are equal without normalising.  So a function whose parameter type has
no weak head normal form is accepted by the rules but sends gram into an endless unfolding
(`C05_loop_witness`; on the real binary: stack overflow).  (2) *implicit parameters* — the application
rule builds an **explicit** `Π`, so a function with an implicit parameter can never be applied
(`C05_implicit_witness`), whereas the rules do not look at the flag. -/
def C05_checker_complete_holefree_unrestricted : Prop :=
  ∀ (g : Nat) (t T : Tm), t.holeFree = true → wellScoped 0 t = true → inferX g [] [] t = .ok T →
    ∃ f, ∀ f', f ≤ f' → ∃ (ty zty : Tm) (s : St),
      inferS f' t {} = .ok (t, ty) s ∧ s.nerrs = 0 ∧ zonk f' s.store ty = some zty ∧
      zty.holeFree = true ∧ Conv [] zty T

/-- `T : (int -> type) = (n : int) => T n`
    `(f : T 0 -> int) => (y : T 0) => f y` -/
def C05_w_loop : Tm :=
  .letg (.cons 1 (.pi 0 false .int .type) (.lam 2 false .int (.app (.var 1 1) (.var 2 0))) .nil)
    (.lam 3 false (.pi 0 false (.app (.var 1 0) (.lit 0)) .int)
      (.lam 4 false (.app (.var 1 1) (.lit 0)) (.app (.var 3 1) (.var 4 0))))

/-- The witness is hole-free, closed, without implicit binders, accepted by the independent checker
(with type `ds; (f : T 0 -> int) -> (y : T 0) -> int`), and the model of gram's checker runs out of
fuel on it **at every fuel**: `gram check` does not terminate (real binary: "thread has overflowed
its stack", exit 134). -/
def C05_loop_witness_stmt : Prop :=
  C05_w_loop.holeFree = true ∧ wellScoped 0 C05_w_loop = true ∧ CCPar.explicitT C05_w_loop = true ∧
  (∃ T, inferX 11 [] [] C05_w_loop = .ok T) ∧ ∀ f, inferS f C05_w_loop {} = .fuel
theorem C05_loop_witness : C05_loop_witness_stmt :=
  ⟨by decide, by decide, by decide, CheckDiverge.wLoop_oracle, CheckDiverge.wLoop_fuel⟩

theorem C05_checker_complete_holefree_refuted : ¬ C05_checker_complete_holefree_unrestricted := by
  intro h
  obtain ⟨T, hT⟩ := CheckDiverge.wLoop_oracle
  obtain ⟨f, hf⟩ := h 11 CheckDiverge.wLoop T CheckDiverge.wLoop_holeFree CheckDiverge.wLoop_scoped hT
  obtain ⟨ty, zty, s, h1, _⟩ := hf f (Nat.le_refl _)
  exact CheckDiverge.wLoop_never_ok f _ _ h1

/-! ### never a wrong rejection -/

/-- "Whatever the fuel, the run either runs out of fuel or accepts" — **FALSE** without a restriction
on implicit binders (`C05_checker_no_wrong_rejection_refuted`). -/
def C05_checker_no_wrong_rejection_unrestricted : Prop :=
  ∀ (g : Nat) (t T : Tm), t.holeFree = true → wellScoped 0 t = true → inferX g [] [] t = .ok T →
    ∀ f, inferS f t {} = .fuel ∨ ∃ (ty : Tm) (s : St), inferS f t {} = .ok (t, ty) s ∧ s.nerrs = 0

/-- `({a : type} => a) int` : accepted by the independent checker (type `type`), rejected by gram
("This has type `{type} -> type` when a function was expected"): gram's application rule unifies the
function's type with an *explicit* `Π`, and there is no other way to apply a function, so a function with
an implicit parameter can never be applied. -/
def C05_w_implicit : Tm := .app (.lam 1 true .type (.var 1 0)) .int
def C05_implicit_witness_stmt : Prop :=
  C05_w_implicit.holeFree = true ∧ wellScoped 0 C05_w_implicit = true ∧
  inferX 3 [] [] C05_w_implicit = .ok .type ∧
  (match inferS 5 C05_w_implicit {} with
   | .ok _ s => s.nerrs == 1
   | _ => false) = true
theorem C05_implicit_witness : C05_implicit_witness_stmt :=
  ⟨CheckComplete.wImplicit_props.1, CheckComplete.wImplicit_props.2.1,
    CheckComplete.wImplicit_props.2.2, CheckComplete.wImplicit_rejected⟩

theorem C05_checker_no_wrong_rejection_refuted : ¬ C05_checker_no_wrong_rejection_unrestricted := by
  intro h
  have w := C05_implicit_witness
  rcases h 3 C05_w_implicit .type w.1 w.2.1 w.2.2.1 5 with e | ⟨ty, s, e, hn⟩
  · have := w.2.2.2
    rw [e] at this
    cases this
  · have := w.2.2.2
    rw [e] at this
    simp only [beq_iff_eq] at this
    omega

/-- **C05 for the model: never a wrong rejection, only possibly divergence.**  If the independent
checker accepts a closed, hole-free program without implicit binders (`CCPar.explicitT`: every `λ` and
`Π` of the program is explicit), then at *every* fuel the model of gram's checker either runs out of
fuel or accepts: it returns the program itself, reports no diagnostic, and the reported type is
hole-free (so it is its own zonked form) and convertible with the type the independent checker
computed.  In particular no `unify` call made while checking such a program ever answers `false`, and
there is no panic.

The proof (`Lemmas/CCPar.lean`, `CCJoin.lean`, `CCUnify.lean`, `CCGroup.lean`, `CheckComplete.lean`)
goes through confluence of the conversion relation of `Typing.lean` (parallel reduction with complete
developments, on erasures), stability of weak head normal forms under reduction, and a transfer of
joinability from the body of a group to the closed group type. -/
def C05_checker_no_wrong_rejection_stmt : Prop :=
  ∀ (g : Nat) (t T : Tm), t.holeFree = true → wellScoped 0 t = true → CCPar.explicitT t = true →
    inferX g [] [] t = .ok T →
    ∀ f, inferS f t {} = .fuel ∨ ∃ (ty : Tm) (s : St), inferS f t {} = .ok (t, ty) s ∧ s.nerrs = 0 ∧
      ty.holeFree = true ∧ zonk (ty.size + 1) s.store ty = some ty ∧ Conv [] ty T
theorem C05_checker_no_wrong_rejection : C05_checker_no_wrong_rejection_stmt := by
  intro g t T ht hw hx hX f
  exact CheckComplete.checker_fuel_or_accept ht hw hx hX f

/-- **The corrected completeness statement.**  With the two extra hypotheses that are both necessary
(`C05_loop_witness`: termination; `C05_implicit_witness`: no implicit binders) — the program has no
implicit binder and gram's checker terminates on it (answers at some fuel) — a program accepted by the
independent checker is accepted by the model of gram's checker: no diagnostic, the elaboration is the
program itself, the zonked type is hole-free and convertible with the independent checker's. -/
def C05_checker_complete_holefree_fixed_stmt : Prop :=
  ∀ (g : Nat) (t T : Tm), t.holeFree = true → wellScoped 0 t = true → CCPar.explicitT t = true →
    inferX g [] [] t = .ok T → (∃ f, inferS f t {} ≠ .fuel) →
    ∃ (f n : Nat) (ty zty : Tm) (s : St),
      inferS f t {} = .ok (t, ty) s ∧ s.nerrs = 0 ∧ zonk n s.store ty = some zty ∧
      zty.holeFree = true ∧ Conv [] zty T
theorem C05_checker_complete_holefree_fixed : C05_checker_complete_holefree_fixed_stmt := by
  intro g t T ht hw hx hX ⟨f, hf⟩
  rcases CheckComplete.checker_fuel_or_accept ht hw hx hX f with e | ⟨ty, s, e, hn, hty, hz, c⟩
  · exact (hf e).elim
  · exact ⟨f, ty.size + 1, ty, ty, s, e, hn, hz, hty, c⟩

/-- Inversion form, without the scoping hypothesis: any answer the checker gives on such a program
is an acceptance. -/
def C05_checker_answer_is_acceptance_stmt : Prop :=
  ∀ (f g : Nat) (t T e ty : Tm) (s : St), t.holeFree = true → CCPar.explicitT t = true →
    inferX g [] [] t = .ok T → inferS f t {} = .ok (e, ty) s →
    e = t ∧ s.nerrs = 0 ∧ ty.holeFree = true ∧ Conv [] ty T
theorem C05_checker_answer_is_acceptance : C05_checker_answer_is_acceptance_stmt := by
  intro f g t T e ty s ht hx hX h
  exact CheckComplete.checker_no_wrong_rejection ht hx hX h
