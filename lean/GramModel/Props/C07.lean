import GramModel.Lemmas.ParserStepsTie
import GramModel.Parser
import GramModel.Generated.Grammar
import GramModel.Lemmas.Parser
import GramModel.Lemmas.ParserSound
import GramModel.Lemmas.Unambiguous

/-!
# C07 — the parser accepts exactly `grammar.y` and builds the tree it specifies

PARTIAL.  Unambiguity of `grammar.y` is proved in the last section (`C07_unambiguous`: at most one
parse tree per segment and nonterminal).  Completeness w.r.t. the grammar is not proved; it (and,
independently, unambiguity) is watched by enumeration (suite `parser`: an Earley recogniser over the grammar read from
`/repo/grammar.y` must agree with the implementation on every accepted token sequence and find
exactly one derivation; suite `programs`: the tree built for every generated sentence equals the
generator's derivation).  Proved here: facts about the model parser `PModel` (which reproduces the
implementation on all ~10⁵ quick / 1.7·10⁶ thorough `parse` ops): every token is consumed, and the
re-association passes turn right-nested chains into left-nested ones while treating a
parenthesised operand as opaque.
-/

open PModel

/-- A successful parse consumed every token and its tree contains no error. -/
def C07_all_consumed_stmt : Prop :=
  ∀ (toks : Array PTok) (ctx : List Name) (t : RTm), parseModel toks ctx = .ok t →
    ∃ r st, runParser toks = some (r, st) ∧ r.next = toks.size ∧ collectErrors r.term = []
theorem C07_all_consumed : C07_all_consumed_stmt := by
  intro toks ctx t h
  unfold parseModel at h
  cases hr : runParser toks with
  | none => simp [hr] at h
  | some p =>
    obtain ⟨r, st⟩ := p
    simp only [hr] at h
    exact ⟨r, st, rfl, finishParse_ok h⟩

/-- an operand that is not a chain of the family being re-associated and that the pass leaves
alone (an atom: keyword, variable or literal) -/
def isAtom (t : Src) : Bool :=
  match t.variant with
  | .type | .var _ | .int | .lit _ | .bool | .tt | .ff => true
  | _ => false

/-- the right-nested chain `a₀ ⊕₁ (a₁ ⊕₂ (… aₙ))` the packrat functions produce (ungrouped) -/
def rightNested (r : SourceRange) (a0 : Src) : List (BinOp × Src) → Src
  | [] => a0
  | (op, a1) :: rest => .mk r false (.bin op a0 (rightNested r a1 rest)) []

/-- the left-nested chain `((a₀ ⊕₁ a₁) ⊕₂ …) ⊕ₙ aₙ` with the spans and `group` flags the passes give -/
def leftNested (a0 : Src) : List (BinOp × Src) → Src
  | [] => a0
  | (op, a1) :: rest => leftNested (.mk (span a0.range a1.range) true (.bin op a0 a1) []) rest

/-! ### The chain lemmas (generic in the family) -/

theorem reassoc_atom (fam : Family) (acc : Option (Src × Link)) (t : Src) (h : isAtom t = true) :
    reassoc fam acc t = some (reassocTail acc t) := by
  obtain ⟨r, g, v, e⟩ := t
  cases v <;> simp [isAtom, Src.variant] at h <;> rw [reassoc]

/-- With an accumulator pending, a right-nested chain of atoms is folded to the left, whatever the
`group` flags of the atoms. -/
theorem reassoc_chain_acc (fam : Family) (r : SourceRange) :
    ∀ (rest : List (BinOp × Src)) (acc : Src) (op : BinOp) (a1 : Src),
    isAtom a1 = true → (∀ p ∈ rest, isAtom p.2 = true ∧ fam.owns p.1) →
    reassoc fam (some (acc, Link.op op)) (rightNested r a1 rest)
      = some (leftNested (.mk (span acc.range a1.range) true (.bin op acc a1) []) rest)
  | [], acc, op, a1, h1, _ => by
      simp [rightNested, leftNested, reassoc_atom fam _ a1 h1, reassocTail, Link.build]
  | (op2, a2) :: rest', acc, op, a1, h1, hrest => by
      have h2 : isAtom a2 = true ∧ fam.owns op2 := hrest (op2, a2) (by simp)
      have hrest' : ∀ p ∈ rest', isAtom p.2 = true ∧ fam.owns p.1 :=
        fun p hp => hrest p (by simp [hp])
      have ho := h2.2
      unfold PModel.Family.owns at ho
      simp only [rightNested, leftNested]
      rw [reassoc]
      simp only [ho, if_true, Bool.and_false, Bool.false_eq_true, if_false]
      have ih := reassoc_chain_acc fam r rest'
        (.mk (span acc.range a1.range) true (.bin op acc a1) []) op2 a2 h2.1 hrest'
      rw [reassoc_atom fam _ a1 h1, reassoc_atom fam _ a1 h1]
      simp only [reassocTail, Link.build]
      split
      · rename_i hg
        cases rest' with
        | nil =>
          simp only [rightNested, leftNested, reassoc_atom fam _ a2 h2.1, reassocTail]
          simp [span, Src.range]
        | cons x rest'' => simp [rightNested, Src.group] at hg
      · exact ih

/-- From the top (no accumulator): left-nested, provided that a chain of just two operands does
not have a grouped right operand. -/
theorem reassoc_chain_top (fam : Family) (r : SourceRange) (a0 : Src) (op : BinOp) (a1 : Src)
    (rest : List (BinOp × Src)) (h0 : isAtom a0 = true)
    (hrest : ∀ p ∈ (op, a1) :: rest, isAtom p.2 = true ∧ fam.owns p.1)
    (hg : rest = [] → a1.group = false) :
    reassoc fam none (rightNested r a0 ((op, a1) :: rest)) = some (leftNested a0 ((op, a1) :: rest)) := by
  have h1 : isAtom a1 = true ∧ fam.owns op := hrest (op, a1) (by simp)
  have hrest' : ∀ p ∈ rest, isAtom p.2 = true ∧ fam.owns p.1 := fun p hp => hrest p (by simp [hp])
  have ho := h1.2
  unfold PModel.Family.owns at ho
  simp only [rightNested, leftNested]
  rw [reassoc]
  simp only [ho, if_true, Bool.and_false, Bool.false_eq_true, if_false]
  have hng : (rightNested r a1 rest).group = false := by
    cases rest with
    | nil => simpa [rightNested] using hg rfl
    | cons x rest' => simp [rightNested, Src.group]
  rw [reassoc_atom fam _ a0 h0]
  simp only [hng, Bool.false_eq_true, if_false, reassocTail]
  exact reassoc_chain_acc fam r rest a0 op a1 h1.1 hrest'

/-- The exception: a chain of two operands whose right operand is grouped (`a + (b)`) keeps its
node exactly as parsed — range `r` and `group = false` instead of `span a0.range a1.range` and
`group = true`. -/
theorem reassoc_pair_grouped (fam : Family) (r : SourceRange) (a0 : Src) (op : BinOp) (a1 : Src)
    (h0 : isAtom a0 = true) (h1 : isAtom a1 = true) (ho : fam.owns op) (hg : a1.group = true) :
    reassoc fam none (rightNested r a0 [(op, a1)]) = some (.mk r false (.bin op a0 a1) []) := by
  unfold PModel.Family.owns at ho
  simp only [rightNested]
  rw [reassoc]
  simp only [ho, if_true, Bool.and_false, Bool.false_eq_true, if_false, hg,
    reassoc_atom fam _ a0 h0, reassoc_atom fam _ a1 h1, reassocTail]


/-- (First formulation, **refuted** below: false when a two-operand chain has a grouped right operand;
kept, without the `_stmt` suffix, next to its refutation.)  **Left association of `+` / `-` chains**: a right-nested chain of atoms of any length, with any
mixture of `+` and `-`, is rebuilt left-nested by `reassociate_sums_and_differences`, operators
and operands in the same order.  (`a - b - c` means `(a - b) - c`.) -/
def C07_sums_left_assoc_unrestricted : Prop :=
  ∀ (r : SourceRange) (a0 : Src) (rest : List (BinOp × Src)),
    isAtom a0 = true → (∀ p ∈ rest, isAtom p.2 = true ∧ (p.1 = .sum ∨ p.1 = .diff)) →
    rest ≠ [] →
    reassociateSumsAndDifferences (rightNested r a0 rest) = some (leftNested a0 rest)

/-- PENDING `C07_sums_left_assoc_unrestricted` is FALSE of the model as stated: `isAtom` does not constrain
the `group` flag, and for a chain of exactly two operands whose right operand is grouped
(`1 + (2)`) the pass takes the `term2.group` arm with no accumulator and rebuilds the node with
its parsed range `r` and `group = false`, whereas `leftNested` prescribes
`span a0.range a1.range` and `group = true`. -/
theorem C07_sums_left_assoc_refuted : ¬ C07_sums_left_assoc_unrestricted := by
  intro h
  have h1 := h ⟨0, 7⟩ (.mk ⟨0, 1⟩ false (.lit 1) []) [(.sum, .mk ⟨4, 7⟩ true (.lit 2) [])]
    rfl (by simp [isAtom, Src.variant]) (by simp)
  unfold reassociateSumsAndDifferences at h1
  rw [reassoc_pair_grouped _ _ _ _ _ rfl rfl (Or.inr ⟨rfl, Or.inl rfl⟩) rfl] at h1
  simp [leftNested] at h1

/-- Corrected statement: the same, except that a chain of exactly two operands must not have a
grouped right operand (longer chains may contain grouped atoms anywhere). -/
def C07_sums_left_assoc_fixed_stmt : Prop :=
  ∀ (r : SourceRange) (a0 : Src) (rest : List (BinOp × Src)),
    isAtom a0 = true → (∀ p ∈ rest, isAtom p.2 = true ∧ (p.1 = .sum ∨ p.1 = .diff)) →
    rest ≠ [] → (∀ op a1, rest = [(op, a1)] → a1.group = false) →
    reassociateSumsAndDifferences (rightNested r a0 rest) = some (leftNested a0 rest)
theorem C07_sums_left_assoc_fixed : C07_sums_left_assoc_fixed_stmt := by
  intro r a0 rest h0 hrest hne hg
  cases rest with
  | nil => exact absurd rfl hne
  | cons p rest' =>
    obtain ⟨op, a1⟩ := p
    exact reassoc_chain_top .sumsAndDifferences r a0 op a1 rest' h0
      (fun p hp => ⟨(hrest p hp).1, Or.inr ⟨rfl, (hrest p hp).2⟩⟩)
      (fun e => hg op a1 (by rw [e]))

/-- The excluded case, exactly: `a0 ⊕ (a1)` keeps the node as parsed. -/
def C07_pair_grouped_stmt : Prop :=
  ∀ (r : SourceRange) (a0 a1 : Src) (op : BinOp), isAtom a0 = true → isAtom a1 = true →
    a1.group = true →
    ((op = .sum ∨ op = .diff) →
      reassociateSumsAndDifferences (rightNested r a0 [(op, a1)]) = some (.mk r false (.bin op a0 a1) [])) ∧
    ((op = .prod ∨ op = .quot) →
      reassociateProductsAndQuotients (rightNested r a0 [(op, a1)]) = some (.mk r false (.bin op a0 a1) []))
theorem C07_pair_grouped : C07_pair_grouped_stmt := by
  intro r a0 a1 op h0 h1 hg
  exact ⟨fun ho => reassoc_pair_grouped _ r a0 op a1 h0 h1 (Or.inr ⟨rfl, ho⟩) hg,
         fun ho => reassoc_pair_grouped _ r a0 op a1 h0 h1 (Or.inl ⟨rfl, ho⟩) hg⟩

/-- the same for `*` / `/` -/
def C07_products_left_assoc_unrestricted : Prop :=
  ∀ (r : SourceRange) (a0 : Src) (rest : List (BinOp × Src)),
    isAtom a0 = true → (∀ p ∈ rest, isAtom p.2 = true ∧ (p.1 = .prod ∨ p.1 = .quot)) →
    rest ≠ [] →
    reassociateProductsAndQuotients (rightNested r a0 rest) = some (leftNested a0 rest)

/-- PENDING `C07_products_left_assoc_unrestricted` is FALSE for the same reason (`2 * (3)`). -/
theorem C07_products_left_assoc_refuted : ¬ C07_products_left_assoc_unrestricted := by
  intro h
  have h1 := h ⟨0, 7⟩ (.mk ⟨0, 1⟩ false (.lit 2) []) [(.prod, .mk ⟨4, 7⟩ true (.lit 3) [])]
    rfl (by simp [isAtom, Src.variant]) (by simp)
  unfold reassociateProductsAndQuotients at h1
  rw [reassoc_pair_grouped _ _ _ _ _ rfl rfl (Or.inl ⟨rfl, Or.inl rfl⟩) rfl] at h1
  simp [leftNested] at h1

def C07_products_left_assoc_fixed_stmt : Prop :=
  ∀ (r : SourceRange) (a0 : Src) (rest : List (BinOp × Src)),
    isAtom a0 = true → (∀ p ∈ rest, isAtom p.2 = true ∧ (p.1 = .prod ∨ p.1 = .quot)) →
    rest ≠ [] → (∀ op a1, rest = [(op, a1)] → a1.group = false) →
    reassociateProductsAndQuotients (rightNested r a0 rest) = some (leftNested a0 rest)
theorem C07_products_left_assoc_fixed : C07_products_left_assoc_fixed_stmt := by
  intro r a0 rest h0 hrest hne hg
  cases rest with
  | nil => exact absurd rfl hne
  | cons p rest' =>
    obtain ⟨op, a1⟩ := p
    exact reassoc_chain_top .productsAndQuotients r a0 op a1 rest' h0
      (fun p hp => ⟨(hrest p hp).1, Or.inl ⟨rfl, (hrest p hp).2⟩⟩)
      (fun e => hg op a1 (by rw [e]))

/-- **Explicit parentheses are honoured**: a parenthesised (grouped) chain met while an
accumulator is pending is an opaque operand — it is re-associated on its own and then attached,
never merged with its surroundings (the repaired defect D8). -/
def C07_group_opaque_stmt : Prop :=
  ∀ (fam : Family) (acc : Src × Link) (r : SourceRange) (op : BinOp) (a b : Src) (es : List PErr),
    (match fam with
     | .sumsAndDifferences => op = .sum ∨ op = .diff
     | .productsAndQuotients => op = .prod ∨ op = .quot
     | .applications => False) →
    reassoc fam (some acc) (.mk r true (.bin op a b) es) =
      (reassoc fam none (.mk r true (.bin op a b) es)).map (reassocTail (some acc))
theorem C07_group_opaque : C07_group_opaque_stmt := by
  intro fam acc r op a b es hfam
  obtain ⟨ac, l⟩ := acc
  have hc : (fam = .productsAndQuotients ∧ (op = .prod ∨ op = .quot))
          ∨ (fam = .sumsAndDifferences ∧ (op = .sum ∨ op = .diff)) := by
    cases fam <;> simp_all
  rw [reassoc, reassoc]
  simp only [hc, if_true, Option.isSome, Bool.and_self]
  simp only [Bool.false_and, Bool.false_eq_true, if_false]
  generalize (if b.group = true then _ else _ : Option Src) = X
  cases X <;> rfl

/-- The passes act on disjoint families: re-associating sums leaves a product node's own shape
alone (it only descends into it), and conversely. -/
def C07_families_disjoint_stmt : Prop :=
  ∀ (r : SourceRange) (g : Bool) (a b a' b' : Src) (es : List PErr),
    reassoc .sumsAndDifferences none a = some a' → reassoc .sumsAndDifferences none b = some b' →
    reassoc .sumsAndDifferences none (.mk r g (.bin .prod a b) es) = some (.mk r g (.bin .prod a' b') [])
theorem C07_families_disjoint : C07_families_disjoint_stmt := by
  intro r g a b a' b' es ha hb
  rw [reassoc]
  simp [ha, hb, reassocTail]

/-! ## Non-vacuity -/

private def atom (n : Int) (s e : Nat) : Src := .mk ⟨s, e⟩ false (.lit n) []
-- `10 - 5 - 3` as parsed (right-nested) becomes `(10 - 5) - 3`
example :
    reassociateSumsAndDifferences (rightNested ⟨0, 10⟩ (atom 10 0 2) [(.diff, atom 5 5 6), (.diff, atom 3 9 10)])
      = some (leftNested (atom 10 0 2) [(.diff, atom 5 5 6), (.diff, atom 3 9 10)]) := by rfl

/-! ## Soundness w.r.t. the published grammar (T2)

`Generated.grammarProductions` is regenerated from `/repo/grammar.y` on every run. -/

/-- the grammar terminal a token kind stands for (`token.rs` ↔ `grammar.y`) -/
def terminalOf : PKind → String
  | .asterisk => "ASTERISK" | .boolean => "BOOLEAN" | .colon => "COLON" | .doubleEquals => "DOUBLE_EQUALS"
  | .else_ => "ELSE" | .equals => "EQUALS" | .false_ => "FALSE" | .greaterThan => "GREATER_THAN"
  | .greaterThanOrEqualTo => "GREATER_THAN_OR_EQUAL" | .identifier _ => "IDENTIFIER" | .if_ => "IF"
  | .integer => "INTEGER" | .integerLiteral _ => "INTEGER_LITERAL" | .leftCurly => "LEFT_CURLY"
  | .leftParen => "LEFT_PAREN" | .lessThan => "LESS_THAN" | .lessThanOrEqualTo => "LESS_THAN_OR_EQUAL"
  | .minus => "MINUS" | .plus => "PLUS" | .rightCurly => "RIGHT_CURLY" | .rightParen => "RIGHT_PAREN"
  | .slash => "SLASH" | .terminator _ => "TERMINATOR" | .then_ => "THEN" | .thickArrow => "THICK_ARROW"
  | .thinArrow => "THIN_ARROW" | .true_ => "TRUE" | .type_ => "TYPE"

/-- the grammar nonterminal a packrat function parses -/
def nonterminalOf : NT → String
  | .term => "term" | .type => "type" | .variable => "variable" | .lambda => "lambda"
  | .lambdaImplicit => "lambda_implicit" | .annotatedLambda => "annotated_lambda"
  | .annotatedLambdaImplicit => "annotated_lambda_implicit" | .pi => "pi" | .piImplicit => "pi_implicit"
  | .nonDependentPi => "non_dependent_pi" | .application => "application" | .let_ => "let"
  | .integer => "integer" | .integerLiteral => "integer_literal" | .negation => "negation" | .sum => "sum"
  | .difference => "difference" | .product => "product" | .quotient => "quotient" | .lessThan => "less_than"
  | .lessThanOrEqualTo => "less_than_or_equal_to" | .equalTo => "equal_to" | .greaterThan => "greater_than"
  | .greaterThanOrEqualTo => "greater_than_or_equal_to" | .boolean => "boolean" | .true_ => "true"
  | .false_ => "false" | .if_ => "if" | .group => "group" | .atom => "atom" | .smallTerm => "small_term"
  | .mediumTerm => "medium_term" | .largeTerm => "large_term" | .hugeTerm => "huge_term"
  | .giantTerm => "giant_term" | .jumboTerm => "jumbo_term"

mutual
/-- `Derives G A w`: the nonterminal `A` derives the terminal string `w` in the grammar `G` -/
inductive Derives (G : List (String × List String)) : String → List String → Prop
  | prod {A rhs w} : (A, rhs) ∈ G → DerivesSeq G rhs w → Derives G A w
/-- a sequence of symbols derives the concatenation of what its members derive -/
inductive DerivesSeq (G : List (String × List String)) : List String → List String → Prop
  | nil : DerivesSeq G [] []
  | term {a rest w} : a ∈ Generated.grammarTerminals → DerivesSeq G rest w → DerivesSeq G (a :: rest) (a :: w)
  | nonterm {A rest w1 w2} : Derives G A w1 → DerivesSeq G rest w2 → DerivesSeq G (A :: rest) (w1 ++ w2)
end

/-- the terminal string of the tokens from `a` (inclusive) to `b` (exclusive) -/
def terminalsBetween (toks : Array PTok) (a b : Nat) : List String :=
  ((toks.toList.drop a).take (b - a)).map (fun t => terminalOf t.kind)

/-! ### From parse-shaped derivations (`PModel.Seg`, `Lemmas/ParserSound.lean`) to `Derives` -/

theorem terminalsBetween_append (toks : Array PTok) {a b c : Nat} (h1 : a ≤ b) (h2 : b ≤ c) :
    terminalsBetween toks a c = terminalsBetween toks a b ++ terminalsBetween toks b c := by
  unfold terminalsBetween
  rw [← List.map_append]
  congr 1
  have e : c - a = (b - a) + (c - b) := by omega
  rw [e, List.take_add, List.drop_drop]
  congr 3
  omega

theorem terminalsBetween_self (toks : Array PTok) (a : Nat) : terminalsBetween toks a a = [] := by
  simp [terminalsBetween]

theorem terminalsBetween_one {toks : Array PTok} {a : Nat} {k : PKind} (h : KAt toks a k) :
    terminalsBetween toks a (a + 1) = [terminalOf k] := by
  obtain ⟨hlt, hk⟩ := h
  unfold terminalsBetween
  have e : a + 1 - a = 1 := by omega
  have hl : a < toks.toList.length := by simpa using hlt
  rw [e, List.drop_eq_getElem_cons hl]
  simp [hk]

theorem terminalsBetween_all (toks : Array PTok) :
    terminalsBetween toks 0 toks.size = toks.toList.map (fun t => terminalOf t.kind) := by
  unfold terminalsBetween
  rw [List.drop_zero, Nat.sub_zero, List.take_of_length_le (by simp)]

theorem terminalOf_mem (k : PKind) : terminalOf k ∈ Generated.grammarTerminals := by
  cases k <;> simp [terminalOf, Generated.grammarTerminals]

/-- a token, then the rest of the right-hand side -/
theorem DerivesSeq.tokAt {G : List (String × List String)} {toks : Array PTok} {a c : Nat} {k : PKind}
    {rest : List String} (hk : KAt toks a k) (hac : a + 1 ≤ c)
    (h : DerivesSeq G rest (terminalsBetween toks (a + 1) c)) :
    DerivesSeq G (terminalOf k :: rest) (terminalsBetween toks a c) := by
  rw [terminalsBetween_append toks (Nat.le_succ a) hac, terminalsBetween_one hk]
  exact DerivesSeq.term (terminalOf_mem k) h

/-- a nonterminal, then the rest of the right-hand side -/
theorem DerivesSeq.ntAt {G : List (String × List String)} {toks : Array PTok} {a b c : Nat} {A : String}
    {rest : List String} (hab : a ≤ b) (hbc : b ≤ c) (h1 : Derives G A (terminalsBetween toks a b))
    (h2 : DerivesSeq G rest (terminalsBetween toks b c)) :
    DerivesSeq G (A :: rest) (terminalsBetween toks a c) := by
  rw [terminalsBetween_append toks hab hbc]
  exact DerivesSeq.nonterm h1 h2

theorem DerivesSeq.nilAt {G : List (String × List String)} {toks : Array PTok} {a : Nat} :
    DerivesSeq G [] (terminalsBetween toks a a) := by
  rw [terminalsBetween_self]; exact DerivesSeq.nil

theorem unitProds_mem : ∀ p ∈ unitProds,
    (nonterminalOf p.1, [nonterminalOf p.2]) ∈ Generated.grammarProductions := by
  decide

theorem leafProds_mem : ∀ p ∈ leafProds,
    (nonterminalOf p.1, [terminalOf p.2]) ∈ Generated.grammarProductions := by
  decide

theorem binProds_mem : ∀ p ∈ binProds,
    (nonterminalOf p.1, [nonterminalOf p.2.1, terminalOf p.2.2.1, nonterminalOf p.2.2.2])
      ∈ Generated.grammarProductions := by
  decide

theorem binderProds_mem : ∀ p ∈ binderProds, ∀ x : Name,
    (nonterminalOf p.1, [terminalOf p.2.1, terminalOf (.identifier x), terminalOf .colon,
      nonterminalOf .jumboTerm, terminalOf p.2.2.1, terminalOf p.2.2.2, nonterminalOf .term])
      ∈ Generated.grammarProductions := by
  intro p hp x
  revert p
  dsimp only [terminalOf]
  decide

/-- **Every parse-shaped derivation is a derivation of `grammar.y`.** -/
theorem PModel.Seg.derives {toks : Array PTok} {nt : NT} {a b : Nat} (h : Seg toks nt a b) :
    a ≤ b ∧ Derives Generated.grammarProductions (nonterminalOf nt) (terminalsBetween toks a b) := by
  induction h with
  | unit hm _ ih =>
    exact ⟨ih.1, Derives.prod (unitProds_mem _ hm) (.ntAt ih.1 (Nat.le_refl _) ih.2 .nilAt)⟩
  | leaf hm hk =>
    exact ⟨Nat.le_succ _, Derives.prod (leafProds_mem _ hm) (.tokAt hk (Nat.le_refl _) .nilAt)⟩
  | @var x a hk =>
    have hm : (nonterminalOf .variable, [terminalOf (.identifier x)]) ∈ Generated.grammarProductions := by
      dsimp only [terminalOf]; decide
    exact ⟨Nat.le_succ _, Derives.prod hm (.tokAt hk (Nat.le_refl _) .nilAt)⟩
  | @lit n a hk =>
    have hm : (nonterminalOf .integerLiteral, [terminalOf (.integerLiteral n)])
        ∈ Generated.grammarProductions := by dsimp only [terminalOf]; decide
    exact ⟨Nat.le_succ _, Derives.prod hm (.tokAt hk (Nat.le_refl _) .nilAt)⟩
  | @lambda x a b h1 h2 _ ih =>
    have hm : (nonterminalOf .lambda, [terminalOf (.identifier x), terminalOf .thickArrow,
        nonterminalOf .term]) ∈ Generated.grammarProductions := by dsimp only [terminalOf]; decide
    have := ih.1
    exact ⟨by omega, Derives.prod hm (.tokAt h1 (by omega) (.tokAt h2 (by omega)
      (.ntAt ih.1 (Nat.le_refl _) ih.2 .nilAt)))⟩
  | @lambdaImplicit x a b h1 h2 h3 h4 _ ih =>
    have hm : (nonterminalOf .lambdaImplicit, [terminalOf .leftCurly, terminalOf (.identifier x),
        terminalOf .rightCurly, terminalOf .thickArrow, nonterminalOf .term])
        ∈ Generated.grammarProductions := by dsimp only [terminalOf]; decide
    have := ih.1
    exact ⟨by omega, Derives.prod hm (.tokAt h1 (by omega) (.tokAt h2 (by omega) (.tokAt h3 (by omega)
      (.tokAt h4 (by omega) (.ntAt ih.1 (Nat.le_refl _) ih.2 .nilAt)))))⟩
  | @binder A o c ar x a b d hm h1 h2 h3 _ h4 h5 _ ih1 ih2 =>
    have := ih1.1
    have := ih2.1
    exact ⟨by omega, Derives.prod (binderProds_mem _ hm x) (.tokAt h1 (by omega) (.tokAt h2 (by omega)
      (.tokAt h3 (by omega) (.ntAt ih1.1 (by omega) ih1.2 (.tokAt h4 (by omega) (.tokAt h5 (by omega)
      (.ntAt ih2.1 (Nat.le_refl _) ih2.2 .nilAt)))))))⟩
  | nonDependentPi _ h1 _ ih1 ih2 =>
    have hm : (nonterminalOf .nonDependentPi, [nonterminalOf .smallTerm, terminalOf .thinArrow,
        nonterminalOf .term]) ∈ Generated.grammarProductions := by dsimp only [terminalOf]; decide
    have := ih1.1
    have := ih2.1
    exact ⟨by omega, Derives.prod hm (.ntAt ih1.1 (by omega) ih1.2 (.tokAt h1 (by omega)
      (.ntAt ih2.1 (Nat.le_refl _) ih2.2 .nilAt)))⟩
  | application _ _ ih1 ih2 =>
    have hm : (nonterminalOf .application, [nonterminalOf .atom, nonterminalOf .smallTerm])
        ∈ Generated.grammarProductions := by decide
    have := ih1.1
    have := ih2.1
    exact ⟨by omega, Derives.prod hm (.ntAt ih1.1 ih2.1 ih1.2
      (.ntAt ih2.1 (Nat.le_refl _) ih2.2 .nilAt))⟩
  | @letPlain x t a b c h1 h2 _ h3 _ ih1 ih2 =>
    have hm : (nonterminalOf .let_, [terminalOf (.identifier x), "let_annotation", terminalOf .equals,
        nonterminalOf .term, terminalOf (.terminator t), nonterminalOf .term])
        ∈ Generated.grammarProductions := by dsimp only [terminalOf]; decide
    have hann : Derives Generated.grammarProductions "let_annotation"
        (terminalsBetween toks (a + 1) (a + 1)) :=
      Derives.prod (rhs := []) (by decide) .nilAt
    have := ih1.1
    have := ih2.1
    exact ⟨by omega, Derives.prod hm (.tokAt h1 (by omega) (.ntAt (Nat.le_refl _) (by omega) hann
      (.tokAt h2 (by omega) (.ntAt ih1.1 (by omega) ih1.2 (.tokAt h3 (by omega)
      (.ntAt ih2.1 (Nat.le_refl _) ih2.2 .nilAt))))))⟩
  | @letAnn x t a b c d h1 h2 _ h3 _ h4 _ ih1 ih2 ih3 =>
    have hm : (nonterminalOf .let_, [terminalOf (.identifier x), "let_annotation", terminalOf .equals,
        nonterminalOf .term, terminalOf (.terminator t), nonterminalOf .term])
        ∈ Generated.grammarProductions := by dsimp only [terminalOf]; decide
    have := ih1.1
    have := ih2.1
    have := ih3.1
    have hann : Derives Generated.grammarProductions "let_annotation"
        (terminalsBetween toks (a + 1) b) :=
      Derives.prod (rhs := [terminalOf .colon, nonterminalOf .smallTerm]) (by decide)
        (.tokAt h2 (by omega) (.ntAt ih1.1 (Nat.le_refl _) ih1.2 .nilAt))
    exact ⟨by omega, Derives.prod hm (.tokAt h1 (by omega) (.ntAt (by omega) (by omega) hann
      (.tokAt h3 (by omega) (.ntAt ih2.1 (by omega) ih2.2 (.tokAt h4 (by omega)
      (.ntAt ih3.1 (Nat.le_refl _) ih3.2 .nilAt))))))⟩
  | negation h1 _ ih =>
    have hm : (nonterminalOf .negation, [terminalOf .minus, nonterminalOf .largeTerm])
        ∈ Generated.grammarProductions := by dsimp only [terminalOf]; decide
    have := ih.1
    exact ⟨by omega, Derives.prod hm (.tokAt h1 (by omega) (.ntAt ih.1 (Nat.le_refl _) ih.2 .nilAt))⟩
  | bin hm _ h1 _ ih1 ih2 =>
    have := ih1.1
    have := ih2.1
    exact ⟨by omega, Derives.prod (binProds_mem _ hm) (.ntAt ih1.1 (by omega) ih1.2
      (.tokAt h1 (by omega) (.ntAt ih2.1 (Nat.le_refl _) ih2.2 .nilAt)))⟩
  | ite h1 _ h2 _ h3 _ ih1 ih2 ih3 =>
    have hm : (nonterminalOf .if_, [terminalOf .if_, nonterminalOf .term, terminalOf .then_,
        nonterminalOf .term, terminalOf .else_, nonterminalOf .term])
        ∈ Generated.grammarProductions := by dsimp only [terminalOf]; decide
    have := ih1.1
    have := ih2.1
    have := ih3.1
    exact ⟨by omega, Derives.prod hm (.tokAt h1 (by omega) (.ntAt ih1.1 (by omega) ih1.2
      (.tokAt h2 (by omega) (.ntAt ih2.1 (by omega) ih2.2 (.tokAt h3 (by omega)
      (.ntAt ih3.1 (Nat.le_refl _) ih3.2 .nilAt))))))⟩
  | group h1 _ h2 ih =>
    have hm : (nonterminalOf .group, [terminalOf .leftParen, nonterminalOf .term,
        terminalOf .rightParen]) ∈ Generated.grammarProductions := by dsimp only [terminalOf]; decide
    have := ih.1
    exact ⟨by omega, Derives.prod hm (.tokAt h1 (by omega) (.ntAt ih.1 (by omega) ih.2
      (.tokAt h2 (Nat.le_refl _) .nilAt)))⟩

/-- **Soundness of the parser w.r.t. `grammar.y`**: whenever a packrat function returns a tree
without any recorded error, the tokens it consumed are a sentence of its nonterminal in the
published grammar. -/
def C07_parse_sound_stmt : Prop :=
  ∀ (toks : Array PTok) (nt : NT) (r : PResult) (st : PState),
    parseNT toks (parseFuel toks) nt 0 PState.init = some (r, st) →
    collectErrors r.term = [] →
    Derives Generated.grammarProductions (nonterminalOf nt) (terminalsBetween toks 0 r.next)
theorem C07_parse_sound : C07_parse_sound_stmt := by
  intro toks nt r st h hce
  exact ((parseNT_sound h).2 hce).derives.2

/-- **Accepted ⇒ sentence**: every token sequence the parser accepts is a sentence of `grammar.y`. -/
def C07_accepted_is_sentence_stmt : Prop :=
  ∀ (toks : Array PTok) (ctx : List Name) (t : RTm), parseModel toks ctx = .ok t →
    Derives Generated.grammarProductions "term" (toks.toList.map (fun t => terminalOf t.kind))
theorem C07_accepted_is_sentence : C07_accepted_is_sentence_stmt := by
  intro toks ctx t h
  obtain ⟨r, st, hr, hn, hce⟩ := C07_all_consumed toks ctx t h
  have hd := ((parseNT_sound (show parseNT toks (parseFuel toks) .term 0 PState.init = some (r, st)
    from hr)).2 hce).derives.2
  rw [hn, terminalsBetween_all] at hd
  exact hd

/-! ## The parser model's bodies are the steps `parser.rs` contains (regenerated on every run) -/

/-- For the 8 choice functions (`parse_term`, `parse_atom`, `parse_small_term` … `parse_jumbo_term`), the 9 binary-operator
functions and the 5 keyword leaves — 22 of the 36 packrat functions — the body the model runs for that nonterminal IS the
interpretation of the row read off `parser.rs` by `extract/arms.py`: the alternatives in their order (`try_return!`), resp.
`try_eval!(left operand)`, `consume_token_0!(operator)`, right operand, node; resp. token and leaf.  A reordered or added
alternative, an operand parsed at another precedence level, another operator token or another node built changes the row and
this theorem stops checking. -/
def C07_parser_steps_regular_stmt : Prop :=
  ∀ (toks : Array PModel.PTok) (rec : PModel.NT → Nat → PModel.ParseM PModel.PResult) (start : Nat),
    ∀ fn ∈ PModel.regularFns, ∃ nt, PModel.ntOfFn fn = some nt ∧
      PModel.interpRow toks rec (PModel.stepsOf fn) start = some (PModel.parseBody toks rec nt start)
theorem C07_parser_steps_regular : C07_parser_steps_regular_stmt := PModel.regular_bodies

/-- For 11 more functions — `parse_variable`, `parse_integer_literal`, `parse_lambda`, `parse_lambda_implicit`, the four annotated binders,
`parse_non_dependent_pi`, `parse_application`, `parse_negation` — the model body is the interpretation of the extracted row by a generic
combinator of that shape (`binderG`, `lambdaG`, `lambdaImplicitG`, `arrowG`, `applicationG`, `negationG`): every token kind consumed, every
nonterminal called (through `try_eval!` or plainly), the node built and its `implicit` flag come from the row.  Together with
`C07_parser_steps_regular`: 33 of the 36 packrat functions. -/
def C07_parser_steps_regular2_stmt : Prop :=
  ∀ (toks : Array PModel.PTok) (rec : PModel.NT → Nat → PModel.ParseM PModel.PResult) (start : Nat),
    ∀ fn ∈ PModel.regularFns2, ∃ nt, PModel.ntOfFn fn = some nt ∧
      PModel.interpRow2 toks rec (PModel.stepsOf fn) start = some (PModel.parseBody toks rec nt start)
theorem C07_parser_steps_regular2 : C07_parser_steps_regular2_stmt := PModel.regular_bodies2

/-- The rows of the remaining 3 functions — `parse_let`, `parse_if`, `parse_group`, the ones with error-recovery scans — are the rows the
model was written from, the 36 rows are the 36 functions, each once, in the order of the `Nonterminal` enum, and the three lists
partition them. -/
def C07_parser_steps_irregular_stmt : Prop :=
  (∀ r ∈ PModel.irregularRows, PModel.stepsOf r.1 = r.2) ∧
  Generated.parserSteps.length = 36 ∧
  (∀ r ∈ Generated.parserSteps, (PModel.ntOfFn r.1).isSome) ∧
  (Generated.parserSteps.map (fun r => (PModel.ntOfFn r.1).map PModel.NT.idx)) = (List.range 36).map some ∧
  (PModel.regularFns ++ PModel.regularFns2 ++ PModel.irregularRows.map (·.1)).length = 36 ∧
  (∀ r ∈ Generated.parserSteps, r.1 ∈ PModel.regularFns ++ PModel.regularFns2 ++ PModel.irregularRows.map (·.1))
theorem C07_parser_steps_irregular : C07_parser_steps_irregular_stmt := by
  unfold C07_parser_steps_irregular_stmt; decide

/-! ## Unambiguity of `grammar.y` (the last clause of the property)

In the form available here: `PModel.SegT toks nt a b t` is the tree-carrying version of the
parse-shaped derivation relation `Seg` (one constructor per production of `grammar.y`, mapped into
`Derives Generated.grammarProductions` above); `t` records the derivation (the production used at
every node, its segment, its children).  Proof in `Lemmas/Unambiguous.lean`, by the *extension law*
(`C07_extension_law`) for the eight nonterminals of the precedence tower. -/

/-- The grammar assigns at most one parse tree to any segment of any token sequence, from any
nonterminal. -/
def C07_unambiguous_stmt : Prop :=
  ∀ (toks : Array PTok) (nt : NT) (a b : Nat) (t₁ t₂ : Src),
    SegT toks nt a b t₁ → SegT toks nt a b t₂ → t₁ = t₂
theorem C07_unambiguous : C07_unambiguous_stmt :=
  fun _ _ _ _ _ _ h1 h2 => PModel.unambiguous h1 h2

/-- The extension law: of two segments with the same start derived from the same tower nonterminal
the shorter one is followed by a token of the nonterminal's extension set `Unamb.ext` (never `)`,
`}`, `then`, `else`, a terminator; for `atom` the set is empty, for `small_term` it is the first
tokens of atoms, each level adds its own operators).  This is what makes every split point of every
sequence production unique. -/
def C07_extension_law_stmt : Prop :=
  ∀ (toks : Array PTok) (nt : NT) (a b b' : Nat) (t t' : Src), nt ∈ Unamb.tower →
    SegT toks nt a b t → SegT toks nt a b' t' → b < b' →
    ∃ k, KAt toks b k ∧ Unamb.ext nt k = true
theorem C07_extension_law : C07_extension_law_stmt :=
  fun _ _ _ _ _ _ _ hA h1 h2 hlt => PModel.ext_law hA h1 h2 hlt

/-- Atoms are prefix-free. -/
def C07_atom_end_unique_stmt : Prop :=
  ∀ (toks : Array PTok) (a b b' : Nat), Seg toks .atom a b → Seg toks .atom a b' → b = b'
theorem C07_atom_end_unique : C07_atom_end_unique_stmt :=
  fun _ _ _ _ h1 h2 => PModel.atom_end_unique h1 h2

/-- The tree the parser builds for an accepted input (before re-association) is THE parse tree of
the whole token sequence. -/
def C07_accepted_unique_tree_stmt : Prop :=
  ∀ (toks : Array PTok) (ctx : List Name) (t : RTm), parseModel toks ctx = .ok t →
    ∃ r st, runParser toks = some (r, st) ∧ SegT toks .term 0 toks.size r.term ∧
      ∀ t', SegT toks .term 0 toks.size t' → t' = r.term
theorem C07_accepted_unique_tree : C07_accepted_unique_tree_stmt := by
  intro toks ctx t h
  obtain ⟨r, st, hr, hn, hce⟩ := C07_all_consumed toks ctx t h
  have hs := runParser_spans hr hce
  rw [hn] at hs
  exact ⟨r, st, hr, hs, fun t' ht' => PModel.unambiguous ht' hs⟩

