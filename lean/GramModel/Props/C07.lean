import GramModel.Parser
import GramModel.Lemmas.Parser

/-!
# C07 — the parser accepts exactly `grammar.y` and builds the tree it specifies

PARTIAL.  Completeness w.r.t. the grammar and unambiguity of `grammar.y` are not proved; they are
watched by enumeration (suite `parser`: an Earley recogniser over the grammar read from
`/repo/grammar.y` must agree with the implementation on every accepted token sequence and find
exactly one derivation; suite `programs`: the tree built for every generated sentence equals the
generator's derivation).  Proved here: facts about the model parser `PModel` (which reproduces the
implementation on all ~10⁵ quick / 1.7·10⁶ thorough `parse` ops): every token is consumed, and the
re-association passes turn right-nested chains into left-nested ones while treating a
parenthesised operand as opaque.
-/

open PModel

/-- A successful parse consumed every token and its tree contains no error. -/
def C07_all_consumed_stmt : Prop :=
  ∀ (toks : Array PTok) (ctx : List Name) (t : RTm), parseModel toks ctx = .ok t →
    ∃ r st, runParser toks = some (r, st) ∧ r.next = toks.size ∧ collectErrors r.term = []
theorem C07_all_consumed : C07_all_consumed_stmt := by
  intro toks ctx t h
  unfold parseModel at h
  cases hr : runParser toks with
  | none => simp [hr] at h
  | some p =>
    obtain ⟨r, st⟩ := p
    simp only [hr] at h
    exact ⟨r, st, rfl, finishParse_ok h⟩

/-- an operand that is not a chain of the family being re-associated and that the pass leaves
alone (an atom: keyword, variable or literal) -/
def isAtom (t : Src) : Bool :=
  match t.variant with
  | .type | .var _ | .int | .lit _ | .bool | .tt | .ff => true
  | _ => false

/-- the right-nested chain `a₀ ⊕₁ (a₁ ⊕₂ (… aₙ))` the packrat functions produce (ungrouped) -/
def rightNested (r : SourceRange) (a0 : Src) : List (BinOp × Src) → Src
  | [] => a0
  | (op, a1) :: rest => .mk r false (.bin op a0 (rightNested r a1 rest)) []

/-- the left-nested chain `((a₀ ⊕₁ a₁) ⊕₂ …) ⊕ₙ aₙ` with the spans and `group` flags the passes give -/
def leftNested (a0 : Src) : List (BinOp × Src) → Src
  | [] => a0
  | (op, a1) :: rest => leftNested (.mk (span a0.range a1.range) true (.bin op a0 a1) []) rest

/-! ### The chain lemmas (generic in the family) -/

theorem reassoc_atom (fam : Family) (acc : Option (Src × Link)) (t : Src) (h : isAtom t = true) :
    reassoc fam acc t = some (reassocTail acc t) := by
  obtain ⟨r, g, v, e⟩ := t
  cases v <;> simp [isAtom, Src.variant] at h <;> rw [reassoc]

/-- With an accumulator pending, a right-nested chain of atoms is folded to the left, whatever the
`group` flags of the atoms. -/
theorem reassoc_chain_acc (fam : Family) (r : SourceRange) :
    ∀ (rest : List (BinOp × Src)) (acc : Src) (op : BinOp) (a1 : Src),
    isAtom a1 = true → (∀ p ∈ rest, isAtom p.2 = true ∧ fam.owns p.1) →
    reassoc fam (some (acc, Link.op op)) (rightNested r a1 rest)
      = some (leftNested (.mk (span acc.range a1.range) true (.bin op acc a1) []) rest)
  | [], acc, op, a1, h1, _ => by
      simp [rightNested, leftNested, reassoc_atom fam _ a1 h1, reassocTail, Link.build]
  | (op2, a2) :: rest', acc, op, a1, h1, hrest => by
      have h2 : isAtom a2 = true ∧ fam.owns op2 := hrest (op2, a2) (by simp)
      have hrest' : ∀ p ∈ rest', isAtom p.2 = true ∧ fam.owns p.1 :=
        fun p hp => hrest p (by simp [hp])
      have ho := h2.2
      unfold PModel.Family.owns at ho
      simp only [rightNested, leftNested]
      rw [reassoc]
      simp only [ho, if_true, Bool.and_false, Bool.false_eq_true, if_false]
      have ih := reassoc_chain_acc fam r rest'
        (.mk (span acc.range a1.range) true (.bin op acc a1) []) op2 a2 h2.1 hrest'
      rw [reassoc_atom fam _ a1 h1, reassoc_atom fam _ a1 h1]
      simp only [reassocTail, Link.build]
      split
      · rename_i hg
        cases rest' with
        | nil =>
          simp only [rightNested, leftNested, reassoc_atom fam _ a2 h2.1, reassocTail]
          simp [span, Src.range]
        | cons x rest'' => simp [rightNested, Src.group] at hg
      · exact ih

/-- From the top (no accumulator): left-nested, provided that a chain of just two operands does
not have a grouped right operand. -/
theorem reassoc_chain_top (fam : Family) (r : SourceRange) (a0 : Src) (op : BinOp) (a1 : Src)
    (rest : List (BinOp × Src)) (h0 : isAtom a0 = true)
    (hrest : ∀ p ∈ (op, a1) :: rest, isAtom p.2 = true ∧ fam.owns p.1)
    (hg : rest = [] → a1.group = false) :
    reassoc fam none (rightNested r a0 ((op, a1) :: rest)) = some (leftNested a0 ((op, a1) :: rest)) := by
  have h1 : isAtom a1 = true ∧ fam.owns op := hrest (op, a1) (by simp)
  have hrest' : ∀ p ∈ rest, isAtom p.2 = true ∧ fam.owns p.1 := fun p hp => hrest p (by simp [hp])
  have ho := h1.2
  unfold PModel.Family.owns at ho
  simp only [rightNested, leftNested]
  rw [reassoc]
  simp only [ho, if_true, Bool.and_false, Bool.false_eq_true, if_false]
  have hng : (rightNested r a1 rest).group = false := by
    cases rest with
    | nil => simpa [rightNested] using hg rfl
    | cons x rest' => simp [rightNested, Src.group]
  rw [reassoc_atom fam _ a0 h0]
  simp only [hng, Bool.false_eq_true, if_false, reassocTail]
  exact reassoc_chain_acc fam r rest a0 op a1 h1.1 hrest'

/-- The exception: a chain of two operands whose right operand is grouped (`a + (b)`) keeps its
node exactly as parsed — range `r` and `group = false` instead of `span a0.range a1.range` and
`group = true`. -/
theorem reassoc_pair_grouped (fam : Family) (r : SourceRange) (a0 : Src) (op : BinOp) (a1 : Src)
    (h0 : isAtom a0 = true) (h1 : isAtom a1 = true) (ho : fam.owns op) (hg : a1.group = true) :
    reassoc fam none (rightNested r a0 [(op, a1)]) = some (.mk r false (.bin op a0 a1) []) := by
  unfold PModel.Family.owns at ho
  simp only [rightNested]
  rw [reassoc]
  simp only [ho, if_true, Bool.and_false, Bool.false_eq_true, if_false, hg,
    reassoc_atom fam _ a0 h0, reassoc_atom fam _ a1 h1, reassocTail]


/-- (First formulation, **refuted** below: false when a two-operand chain has a grouped right operand;
kept, without the `_stmt` suffix, next to its refutation.)  **Left association of `+` / `-` chains**: a right-nested chain of atoms of any length, with any
mixture of `+` and `-`, is rebuilt left-nested by `reassociate_sums_and_differences`, operators
and operands in the same order.  (`a - b - c` means `(a - b) - c`.) -/
def C07_sums_left_assoc_unrestricted : Prop :=
  ∀ (r : SourceRange) (a0 : Src) (rest : List (BinOp × Src)),
    isAtom a0 = true → (∀ p ∈ rest, isAtom p.2 = true ∧ (p.1 = .sum ∨ p.1 = .diff)) →
    rest ≠ [] →
    reassociateSumsAndDifferences (rightNested r a0 rest) = some (leftNested a0 rest)

/-- PENDING `C07_sums_left_assoc_unrestricted` is FALSE of the model as stated: `isAtom` does not constrain
the `group` flag, and for a chain of exactly two operands whose right operand is grouped
(`1 + (2)`) the pass takes the `term2.group` arm with no accumulator and rebuilds the node with
its parsed range `r` and `group = false`, whereas `leftNested` prescribes
`span a0.range a1.range` and `group = true`. -/
theorem C07_sums_left_assoc_refuted : ¬ C07_sums_left_assoc_unrestricted := by
  intro h
  have h1 := h ⟨0, 7⟩ (.mk ⟨0, 1⟩ false (.lit 1) []) [(.sum, .mk ⟨4, 7⟩ true (.lit 2) [])]
    rfl (by simp [isAtom, Src.variant]) (by simp)
  unfold reassociateSumsAndDifferences at h1
  rw [reassoc_pair_grouped _ _ _ _ _ rfl rfl (Or.inr ⟨rfl, Or.inl rfl⟩) rfl] at h1
  simp [leftNested] at h1

/-- Corrected statement: the same, except that a chain of exactly two operands must not have a
grouped right operand (longer chains may contain grouped atoms anywhere). -/
def C07_sums_left_assoc_fixed_stmt : Prop :=
  ∀ (r : SourceRange) (a0 : Src) (rest : List (BinOp × Src)),
    isAtom a0 = true → (∀ p ∈ rest, isAtom p.2 = true ∧ (p.1 = .sum ∨ p.1 = .diff)) →
    rest ≠ [] → (∀ op a1, rest = [(op, a1)] → a1.group = false) →
    reassociateSumsAndDifferences (rightNested r a0 rest) = some (leftNested a0 rest)
theorem C07_sums_left_assoc_fixed : C07_sums_left_assoc_fixed_stmt := by
  intro r a0 rest h0 hrest hne hg
  cases rest with
  | nil => exact absurd rfl hne
  | cons p rest' =>
    obtain ⟨op, a1⟩ := p
    exact reassoc_chain_top .sumsAndDifferences r a0 op a1 rest' h0
      (fun p hp => ⟨(hrest p hp).1, Or.inr ⟨rfl, (hrest p hp).2⟩⟩)
      (fun e => hg op a1 (by rw [e]))

/-- The excluded case, exactly: `a0 ⊕ (a1)` keeps the node as parsed. -/
def C07_pair_grouped_stmt : Prop :=
  ∀ (r : SourceRange) (a0 a1 : Src) (op : BinOp), isAtom a0 = true → isAtom a1 = true →
    a1.group = true →
    ((op = .sum ∨ op = .diff) →
      reassociateSumsAndDifferences (rightNested r a0 [(op, a1)]) = some (.mk r false (.bin op a0 a1) [])) ∧
    ((op = .prod ∨ op = .quot) →
      reassociateProductsAndQuotients (rightNested r a0 [(op, a1)]) = some (.mk r false (.bin op a0 a1) []))
theorem C07_pair_grouped : C07_pair_grouped_stmt := by
  intro r a0 a1 op h0 h1 hg
  exact ⟨fun ho => reassoc_pair_grouped _ r a0 op a1 h0 h1 (Or.inr ⟨rfl, ho⟩) hg,
         fun ho => reassoc_pair_grouped _ r a0 op a1 h0 h1 (Or.inl ⟨rfl, ho⟩) hg⟩

/-- the same for `*` / `/` -/
def C07_products_left_assoc_unrestricted : Prop :=
  ∀ (r : SourceRange) (a0 : Src) (rest : List (BinOp × Src)),
    isAtom a0 = true → (∀ p ∈ rest, isAtom p.2 = true ∧ (p.1 = .prod ∨ p.1 = .quot)) →
    rest ≠ [] →
    reassociateProductsAndQuotients (rightNested r a0 rest) = some (leftNested a0 rest)

/-- PENDING `C07_products_left_assoc_unrestricted` is FALSE for the same reason (`2 * (3)`). -/
theorem C07_products_left_assoc_refuted : ¬ C07_products_left_assoc_unrestricted := by
  intro h
  have h1 := h ⟨0, 7⟩ (.mk ⟨0, 1⟩ false (.lit 2) []) [(.prod, .mk ⟨4, 7⟩ true (.lit 3) [])]
    rfl (by simp [isAtom, Src.variant]) (by simp)
  unfold reassociateProductsAndQuotients at h1
  rw [reassoc_pair_grouped _ _ _ _ _ rfl rfl (Or.inl ⟨rfl, Or.inl rfl⟩) rfl] at h1
  simp [leftNested] at h1

def C07_products_left_assoc_fixed_stmt : Prop :=
  ∀ (r : SourceRange) (a0 : Src) (rest : List (BinOp × Src)),
    isAtom a0 = true → (∀ p ∈ rest, isAtom p.2 = true ∧ (p.1 = .prod ∨ p.1 = .quot)) →
    rest ≠ [] → (∀ op a1, rest = [(op, a1)] → a1.group = false) →
    reassociateProductsAndQuotients (rightNested r a0 rest) = some (leftNested a0 rest)
theorem C07_products_left_assoc_fixed : C07_products_left_assoc_fixed_stmt := by
  intro r a0 rest h0 hrest hne hg
  cases rest with
  | nil => exact absurd rfl hne
  | cons p rest' =>
    obtain ⟨op, a1⟩ := p
    exact reassoc_chain_top .productsAndQuotients r a0 op a1 rest' h0
      (fun p hp => ⟨(hrest p hp).1, Or.inl ⟨rfl, (hrest p hp).2⟩⟩)
      (fun e => hg op a1 (by rw [e]))

/-- **Explicit parentheses are honoured**: a parenthesised (grouped) chain met while an
accumulator is pending is an opaque operand — it is re-associated on its own and then attached,
never merged with its surroundings (the repaired defect D8). -/
def C07_group_opaque_stmt : Prop :=
  ∀ (fam : Family) (acc : Src × Link) (r : SourceRange) (op : BinOp) (a b : Src) (es : List PErr),
    (match fam with
     | .sumsAndDifferences => op = .sum ∨ op = .diff
     | .productsAndQuotients => op = .prod ∨ op = .quot
     | .applications => False) →
    reassoc fam (some acc) (.mk r true (.bin op a b) es) =
      (reassoc fam none (.mk r true (.bin op a b) es)).map (reassocTail (some acc))
theorem C07_group_opaque : C07_group_opaque_stmt := by
  intro fam acc r op a b es hfam
  obtain ⟨ac, l⟩ := acc
  have hc : (fam = .productsAndQuotients ∧ (op = .prod ∨ op = .quot))
          ∨ (fam = .sumsAndDifferences ∧ (op = .sum ∨ op = .diff)) := by
    cases fam <;> simp_all
  rw [reassoc, reassoc]
  simp only [hc, if_true, Option.isSome, Bool.and_self]
  simp only [Bool.false_and, Bool.false_eq_true, if_false]
  generalize (if b.group = true then _ else _ : Option Src) = X
  cases X <;> rfl

/-- The passes act on disjoint families: re-associating sums leaves a product node's own shape
alone (it only descends into it), and conversely. -/
def C07_families_disjoint_stmt : Prop :=
  ∀ (r : SourceRange) (g : Bool) (a b a' b' : Src) (es : List PErr),
    reassoc .sumsAndDifferences none a = some a' → reassoc .sumsAndDifferences none b = some b' →
    reassoc .sumsAndDifferences none (.mk r g (.bin .prod a b) es) = some (.mk r g (.bin .prod a' b') [])
theorem C07_families_disjoint : C07_families_disjoint_stmt := by
  intro r g a b a' b' es ha hb
  rw [reassoc]
  simp [ha, hb, reassocTail]

/-! ## Non-vacuity -/

private def atom (n : Int) (s e : Nat) : Src := .mk ⟨s, e⟩ false (.lit n) []
-- `10 - 5 - 3` as parsed (right-nested) becomes `(10 - 5) - 3`
example :
    reassociateSumsAndDifferences (rightNested ⟨0, 10⟩ (atom 10 0 2) [(.diff, atom 5 5 6), (.diff, atom 3 9 10)])
      = some (leftNested (atom 10 0 2) [(.diff, atom 5 5 6), (.diff, atom 3 9 10)]) := by rfl
