import GramModel.Lemmas.TokenizerTie
import GramModel.Lemmas.Lexer
import GramModel.Lemmas.LexerGaps

/-!
# C09 — tokens partition the source text exactly

All statements hold for every text and **every** Unicode classifier / grapheme oracle `cc`
(the real one is supplied by the harness per input).
-/

/-- Tokenizing returns tokens or a list of unexpected symbols — the panic arm ("two consecutive
line break terminators") is unreachable. -/
def C09_total_stmt : Prop := ∀ (cc : CharClass) (text : List Char), ∀ r, tokenize cc text = r →
  (∃ ts, r = .ok ts) ∨ (∃ es, r = .err es)
theorem C09_total : C09_total_stmt := by
  intro cc text r hr
  subst hr
  unfold tokenize
  dsimp only
  rw [scan_panic]
  split
  · rename_i h; cases h
  · split
    · exact Or.inr ⟨_, rfl⟩
    · obtain ⟨ts, hts⟩ := filterToks_isSome _
        (noTwoLB_reverse _ (scan_noTwoLB cc text.length 0 text { toks := [], errs := [] } trivial))
      rw [hts]
      exact Or.inl ⟨_, rfl⟩

/-- A failure lists at least one unexpected symbol. -/
def C09_err_nonempty_stmt : Prop :=
  ∀ (cc : CharClass) (text : List Char) (es : List (Nat × Nat)), tokenize cc text = .err es → es ≠ []
theorem C09_err_nonempty : C09_err_nonempty_stmt := by
  intro cc text es h
  unfold tokenize at h
  simp only at h
  split at h
  · cases h
  · split at h
    · rename_i h2
      injection h with h
      subst h
      intro h3
      simp_all
    · split at h <;> cases h

/-- Tokens come in source order, with disjoint non-empty byte ranges inside the text. -/
def C09_ordered_disjoint_stmt : Prop :=
  ∀ (cc : CharClass) (text : List Char) (ts : List Tok), tokenize cc text = .ok ts →
    orderedIn ts 0 (bytesOf text)
theorem C09_ordered_disjoint : C09_ordered_disjoint_stmt := by
  intro cc text ts h
  have hf := tokenize_ok h
  have hc := scan_chain cc text.length 0 text { toks := [], errs := [] } trivial
  have ho := chain_orderedIn _ [] _ (0 + bytesOf text) hc (Nat.le_refl _)
  rw [List.append_nil, Nat.zero_add] at ho
  exact orderedIn_sublist (filterToks_sublist _ _ hf) ho

/-- A word is a keyword token iff its text *equals* the keyword (whole words only); otherwise it is
an identifier carrying exactly its text. -/
def C09_keyword_iff_stmt : Prop :=
  ∀ (w : List Char),
    (∀ k, (k, w) ∈ Generated.keywords → wordKind w = k) ∧
    ((∀ k, (k, w) ∉ Generated.keywords) → wordKind w = .identifier w)
theorem C09_keyword_iff : C09_keyword_iff_stmt := by
  intro w
  constructor
  · intro k hk
    simp only [Generated.keywords, List.mem_cons, List.not_mem_nil, or_false, Prod.mk.injEq] at hk
    rcases hk with ⟨rfl, rfl⟩ | ⟨rfl, rfl⟩ | ⟨rfl, rfl⟩ | ⟨rfl, rfl⟩ | ⟨rfl, rfl⟩ | ⟨rfl, rfl⟩ |
      ⟨rfl, rfl⟩ | ⟨rfl, rfl⟩ <;> rfl
  · intro h
    unfold wordKind
    have : Generated.keywords.find? (fun p => p.2 == w) = none := by
      rw [List.find?_eq_none]
      intro p hp hpw
      have := eq_of_beq hpw
      subst this
      exact h p.1 hp
    rw [this]

/-- The keyword table (regenerated from `token.rs` / `tokenizer.rs`) is a function: no word is two
keywords and no keyword kind has two spellings; and every keyword kind is one that carries no
payload. -/
def C09_keyword_table_stmt : Prop :=
  (Generated.keywords.map (·.2)).Nodup ∧ (Generated.keywords.map (·.1)).Nodup ∧
  ∀ p ∈ Generated.keywords, p.2 ≠ [] ∧ p.1.tag ≠ 9 ∧ p.1.tag ≠ 12
theorem C09_keyword_table : C09_keyword_table_stmt := by unfold C09_keyword_table_stmt; decide

/-- An integer literal keeps its exact decimal value whatever its length (positional value, in
unbounded `Nat`). -/
def C09_literal_value_stmt : Prop :=
  ∀ (ds : List Char) (d : Char), digitsValue (ds ++ [d]) = digitsValue ds * 10 + (d.toNat - 48)
theorem C09_literal_value : C09_literal_value_stmt := by
  intro ds d
  simp [digitsValue, List.foldl_append]

/-! ## Lexeme slices -/

/-- Each token's range contains exactly the token's own text (T2). -/
def C09_lexeme_slice_stmt : Prop :=
  ∀ (cc : CharClass) (text : List Char) (ts : List Tok), tokenize cc text = .ok ts →
    ∀ t ∈ ts, ∃ pre lex post, text = pre ++ lex ++ post ∧ bytesOf pre = t.start ∧
      bytesOf lex = t.stop - t.start ∧
      (match t.kind with
       | .identifier w => lex = w
       | .integerLiteral n => digitsValue lex = n ∧ ∀ c ∈ lex, isDigit c = true
       | .terminatorLineBreak => lex = ['\n']
       | _ => True)
theorem C09_lexeme_slice : C09_lexeme_slice_stmt := by
  intro cc text ts h t ht
  have hf := tokenize_ok h
  have hm : t ∈ (scan cc text.length 0 text { toks := [], errs := [] }).toks :=
    List.mem_reverse.1 ((filterToks_sublist _ _ hf).subset ht)
  obtain ⟨pre, lex, post, h1, h2, h3, h4⟩ :=
    scan_slice cc text text.length 0 text { toks := [], errs := [] } ⟨[], rfl, rfl⟩
      (by intro t ht; cases ht) t hm
  refine ⟨pre, lex, post, h1, h2, h3, ?_⟩
  unfold lexOK at h4
  split <;> simp_all

/-! ## Non-vacuity -/

def C09_cc : CharClass :=
  { isAlpha := fun c => ('a' ≤ c ∧ c ≤ 'z') || c == 'é'
    isAlnum := fun c => ('a' ≤ c ∧ c ≤ 'z') || ('0' ≤ c ∧ c ≤ '9') || c == 'é'
    isWs := fun c => c == ' ' || c == '\n'
    graphemeEnd := fun p => p + 1 }
-- `if é1 = 007 # c` newline `x`: a keyword, a two-byte identifier character, a literal with leading zeros
example : tokenize C09_cc ['i','f',' ','é','1',' ','=',' ','0','0','7',' ','#',' ','c','\n','x'] =
    .ok [⟨.if_, 0, 2⟩, ⟨.identifier ['é', '1'], 3, 6⟩, ⟨.equals, 7, 8⟩, ⟨.integerLiteral 7, 9, 12⟩,
         ⟨.terminatorLineBreak, 16, 17⟩, ⟨.identifier ['x'], 17, 18⟩] := by decide
example : tokenize C09_cc ['a',' ','$'] = .err [(2, 3)] := by decide

/-! ## Maximal munch, blank gaps, exact errors (T2) -/

/-- byte offset of the `i`-th character of a text -/
def offsetOf (text : List Char) (i : Nat) : Nat := bytesOf (text.take i)

/-- is the `i`-th character inside a comment, i.e. after a `#` on the same line (the `#` itself
included, the terminating line feed excluded)? -/
def inComment (text : List Char) (i : Nat) : Bool :=
  let before := (text.take (i + 1)).reverse        -- the character itself first, then backwards
  let line := before.takeWhile (· != '\n')
  text[i]? != some '\n' && line.contains '#'

/-- **Maximal munch**: the character right after an identifier or keyword is not a word character,
and the character right after a number is not a digit. -/
def C09_maximal_munch_stmt : Prop :=
  ∀ (cc : CharClass) (text : List Char) (ts : List Tok), tokenize cc text = .ok ts →
    ∀ t ∈ ts, ∀ (pre post : List Char) (c : Char), text = pre ++ c :: post → bytesOf pre = t.stop →
      (match t.kind with
       | .identifier _ | .boolean | .else_ | .false_ | .if_ | .integer | .then_ | .true_ | .type_ =>
           identCont cc c = false
       | .integerLiteral _ => isDigit c = false
       | _ => True)
theorem C09_maximal_munch : C09_maximal_munch_stmt := by
  intro cc text ts h t ht pre post c htext hpre
  have hf := tokenize_ok h
  have hm : t ∈ (scan0 cc text).toks :=
    List.mem_reverse.1 ((filterToks_sublist _ _ hf).subset ht)
  obtain ⟨p, lex, rest, h1, h2, h3⟩ := scan_shape cc text t hm
  have hsplit : (p ++ lex) ++ rest = pre ++ c :: post := by rw [← h1, htext]
  obtain ⟨_, hrest⟩ := bytes_prefix_unique _ _ _ _ hsplit (by rw [h2, hpre])
  rcases h3 with ⟨_, hw, hn⟩ | ⟨c0, w, _, _, _, hnext, hk⟩ | ⟨_, hnext, hk⟩
  · cases hkind : t.kind <;> simp_all [wordish]
  · have hc := hnext c post hrest
    rcases wordKind_cases lex with e | ⟨q, hq, e⟩
    · rw [hk, e]; exact hc
    · rw [hk, e]
      simp only [Generated.keywords, List.mem_cons, List.not_mem_nil, or_false] at hq
      rcases hq with rfl | rfl | rfl | rfl | rfl | rfl | rfl | rfl <;> exact hc
  · rw [hk]; exact hnext c post hrest

/-- **Only whitespace and comments between tokens**: a character that lies in no token's range is
whitespace, a line feed, or inside a comment. -/
def C09_gaps_blank_stmt : Prop :=
  ∀ (cc : CharClass) (text : List Char) (ts : List Tok), tokenize cc text = .ok ts →
    ∀ (i : Nat) (c : Char), text[i]? = some c →
      (∀ t ∈ ts, ¬ (t.start ≤ offsetOf text i ∧ offsetOf text i < t.stop)) →
      cc.isWs c = true ∨ c = '\n' ∨ inComment text i = true
theorem C09_gaps_blank : C09_gaps_blank_stmt := by
  intro cc text ts h i c hic hno
  obtain ⟨he, hf⟩ := tokenize_ok' h
  rcases scan_cov cc text he i c hic with ⟨t, ht, h1, h2, h3⟩ | h | h | h
  · rcases filterToks_dropped _ _ hf t (List.mem_reverse.2 ht) with hin | hlb
    · exact absurd ⟨h1, h2⟩ (hno t hin)
    · exact Or.inr (Or.inl (h3 hlb))
  · exact Or.inl h
  · exact Or.inr (Or.inl h)
  · exact Or.inr (Or.inr h)

/-- **No token inside a comment**: a comment really runs to the end of its line. -/
def C09_no_token_in_comment_unrestricted : Prop :=
  ∀ (cc : CharClass) (text : List Char) (ts : List Tok), tokenize cc text = .ok ts →
    ∀ (i : Nat), inComment text i = true → ∀ t ∈ ts, ¬ (t.start ≤ offsetOf text i ∧ offsetOf text i < t.stop)

/-- `C09_no_token_in_comment_unrestricted` is FALSE as stated (PENDING, not claimed): it quantifies over
every classifier, including ones that make `#` a word character.  With `isAlphabetic '#'` the text
`#` is one identifier token, yet position 0 counts as "inside a comment". -/
def C09_cc_hashAlpha : CharClass :=
  { isAlpha := fun c => ('a' ≤ c ∧ c ≤ 'z') || c == '#'
    isAlnum := fun c => ('a' ≤ c ∧ c ≤ 'z') || ('0' ≤ c ∧ c ≤ '9')
    isWs := fun c => c == ' '
    graphemeEnd := fun p => p + 1 }
theorem C09_no_token_in_comment_refuted : ¬ C09_no_token_in_comment_unrestricted := by
  intro h
  exact h C09_cc_hashAlpha ['#'] [⟨.identifier ['#'], 0, 1⟩] (by decide) 0 (by decide) _
    (List.mem_singleton.2 rfl) (by decide)

/-- `cc.Sane` alone is not enough either: it says nothing about `identCont cc '#'`.  With
`isAlphanumeric '#'` (and a sane classifier otherwise) `a#b` is one identifier token. -/
def C09_cc_hashCont : CharClass :=
  { isAlpha := fun c => ('a' ≤ c ∧ c ≤ 'z')
    isAlnum := fun c => ('a' ≤ c ∧ c ≤ 'z') || ('0' ≤ c ∧ c ≤ '9') || c == '#'
    isWs := fun c => c == ' ' || c == '\t'
    graphemeEnd := fun p => p + 1 }
theorem C09_no_token_in_comment_sane_refuted :
    ¬ (∀ (cc : CharClass) (text : List Char) (ts : List Tok), cc.Sane → tokenize cc text = .ok ts →
      ∀ (i : Nat), inComment text i = true →
        ∀ t ∈ ts, ¬ (t.start ≤ offsetOf text i ∧ offsetOf text i < t.stop)) := by
  intro h
  exact h C09_cc_hashCont ['a', '#', 'b'] [⟨.identifier ['a', '#', 'b'], 0, 3⟩]
    (by constructor <;> decide) (by decide) 2 (by decide) _ (List.mem_singleton.2 rfl) (by decide)

/-- **No token inside a comment** (corrected): for a classifier under which `#` is neither a word
character (start or continuation) nor whitespace, a comment really runs to the end of its line. -/
def C09_no_token_in_comment_fixed_stmt : Prop :=
  ∀ (cc : CharClass) (text : List Char) (ts : List Tok), cc.Sane → identCont cc '#' = false →
    tokenize cc text = .ok ts →
    ∀ (i : Nat), inComment text i = true → ∀ t ∈ ts, ¬ (t.start ≤ offsetOf text i ∧ offsetOf text i < t.stop)
theorem C09_no_token_in_comment_fixed : C09_no_token_in_comment_fixed_stmt := by
  intro cc text ts hs hcont h i hi t ht
  have hf := tokenize_ok h
  have hm : t ∈ (scan0 cc text).toks :=
    List.mem_reverse.1 ((filterToks_sublist _ _ hf).subset ht)
  exact scan_no_token_in_comment cc ⟨hs.hash_plain.1, hs.hash_plain.2, hcont⟩ text t hm i hi

/-- **Every unexpected symbol is reported, and nothing else**: on failure the reported ranges
start, in order, exactly at the characters that are outside comments and belong to no token class
(not a symbol character, not a word character, not a digit, not whitespace, not `#`). -/
def unexpectedAt (cc : CharClass) (text : List Char) (i : Nat) : Bool :=
  match text[i]? with
  | none => false
  | some c =>
      !inComment text i && !(symbolChars.contains c) && !(identStart cc c) && !(isDigit c)
        && !(cc.isWs c) && c != '#'

def C09_errors_exact_stmt : Prop :=
  ∀ (cc : CharClass) (text : List Char) (es : List (Nat × Nat)), cc.Sane →
    (∀ c, identCont cc c = true → identStart cc c = true ∨ isDigit c = true) →
    tokenize cc text = .err es →
    es.map (·.1) = ((List.range text.length).filter (unexpectedAt cc text)).map (offsetOf text)
theorem C09_errors_exact : C09_errors_exact_stmt := by
  intro cc text es hs hcont h
  have hp : HashPlain cc := ⟨hs.hash_plain.1, hs.hash_plain.2, by
    cases hc : identCont cc '#' with
    | false => rfl
    | true =>
      rcases hcont _ hc with h | h
      · rw [hs.hash_plain.1] at h; cases h
      · exact absurd h (by decide)⟩
  rw [tokenize_err h]
  exact scan_errors cc hp hcont text

/-! ## The symbol arms of the scanner are the ones `tokenizer.rs` contains (regenerated on every run) -/

/-- Every symbol arm of the first pass of `tokenize` — read off `tokenizer.rs` by `extract/arms.py`: first character, the
second character if the arm peeks and consumes one, byte length, token kind — is a step of the model scanner, for every
classifier, position, state and rest of the text (the one-character token when no two-character arm applies). -/
def C09_symbol_arms_tie_stmt : Prop := ∀ r ∈ Generated.symbolArms, armHolds r
theorem C09_symbol_arms_tie : C09_symbol_arms_tie_stmt := symbolArms_hold

/-- The extracted arms are exactly the 18 entries of the symbol table over which the render/tokenize law is proved, and
every token is as long as its text (all symbols are ASCII). -/
def C09_symbol_table_tie_stmt : Prop :=
  (∀ x, x ∈ armLexemes ↔ x ∈ symTable) ∧ armLexemes.length = symTable.length ∧
  (∀ r ∈ Generated.symbolArms, r.2.2.1 = 1 + (match r.2.1 with | some _ => 1 | none => 0))
theorem C09_symbol_table_tie : C09_symbol_table_tie_stmt := armLexemes_symTable

/-- The order in which the scanner tries its arms is the one the model's `if`-chain follows: symbols (the line feed among
them), identifier start (`is_alphabetic` or `_`), digit, whitespace, `#`, unexpected symbol. -/
def C09_scan_arm_order_stmt : Prop := Generated.scanArmOrder = scanArmOrderExpected
theorem C09_scan_arm_order : C09_scan_arm_order_stmt := by unfold C09_scan_arm_order_stmt; decide

/-- The inner loops of the scanner, read off `tokenizer.rs` on every run: an identifier continues over `is_alphanumeric() || '_'`
(the model's `identCont`), a number over ASCII digits only (`isDigit`), and an integer literal's value is the arbitrary-precision
decimal value of exactly the scanned bytes (`digitsValue`; no machine-word fast path). -/
def C09_scan_loops_tie_stmt : Prop :=
  Generated.scanLoops = scanLoopsExpected ∧ Generated.literalValue = literalValueExpected
theorem C09_scan_loops_tie : C09_scan_loops_tie_stmt := by unfold C09_scan_loops_tie_stmt; decide +kernel
