import GramModel.Lemmas.Lexer

/-!
# C09 — tokens partition the source text exactly

All statements hold for every text and **every** Unicode classifier / grapheme oracle `cc`
(the real one is supplied by the harness per input).
-/

/-- Tokenizing returns tokens or a list of unexpected symbols — the panic arm ("two consecutive
line break terminators") is unreachable. -/
def C09_total_stmt : Prop := ∀ (cc : CharClass) (text : List Char), ∀ r, tokenize cc text = r →
  (∃ ts, r = .ok ts) ∨ (∃ es, r = .err es)
theorem C09_total : C09_total_stmt := by
  intro cc text r hr
  subst hr
  unfold tokenize
  dsimp only
  rw [scan_panic]
  split
  · rename_i h; cases h
  · split
    · exact Or.inr ⟨_, rfl⟩
    · obtain ⟨ts, hts⟩ := filterToks_isSome _
        (noTwoLB_reverse _ (scan_noTwoLB cc text.length 0 text { toks := [], errs := [] } trivial))
      rw [hts]
      exact Or.inl ⟨_, rfl⟩

/-- A failure lists at least one unexpected symbol. -/
def C09_err_nonempty_stmt : Prop :=
  ∀ (cc : CharClass) (text : List Char) (es : List (Nat × Nat)), tokenize cc text = .err es → es ≠ []
theorem C09_err_nonempty : C09_err_nonempty_stmt := by
  intro cc text es h
  unfold tokenize at h
  simp only at h
  split at h
  · cases h
  · split at h
    · rename_i h2
      injection h with h
      subst h
      intro h3
      simp_all
    · split at h <;> cases h

/-- Tokens come in source order, with disjoint non-empty byte ranges inside the text. -/
def C09_ordered_disjoint_stmt : Prop :=
  ∀ (cc : CharClass) (text : List Char) (ts : List Tok), tokenize cc text = .ok ts →
    orderedIn ts 0 (bytesOf text)
theorem C09_ordered_disjoint : C09_ordered_disjoint_stmt := by
  intro cc text ts h
  have hf := tokenize_ok h
  have hc := scan_chain cc text.length 0 text { toks := [], errs := [] } trivial
  have ho := chain_orderedIn _ [] _ (0 + bytesOf text) hc (Nat.le_refl _)
  rw [List.append_nil, Nat.zero_add] at ho
  exact orderedIn_sublist (filterToks_sublist _ _ hf) ho

/-- A word is a keyword token iff its text *equals* the keyword (whole words only); otherwise it is
an identifier carrying exactly its text. -/
def C09_keyword_iff_stmt : Prop :=
  ∀ (w : List Char),
    (∀ k, (k, w) ∈ Generated.keywords → wordKind w = k) ∧
    ((∀ k, (k, w) ∉ Generated.keywords) → wordKind w = .identifier w)
theorem C09_keyword_iff : C09_keyword_iff_stmt := by
  intro w
  constructor
  · intro k hk
    simp only [Generated.keywords, List.mem_cons, List.not_mem_nil, or_false, Prod.mk.injEq] at hk
    rcases hk with ⟨rfl, rfl⟩ | ⟨rfl, rfl⟩ | ⟨rfl, rfl⟩ | ⟨rfl, rfl⟩ | ⟨rfl, rfl⟩ | ⟨rfl, rfl⟩ |
      ⟨rfl, rfl⟩ | ⟨rfl, rfl⟩ <;> rfl
  · intro h
    unfold wordKind
    have : Generated.keywords.find? (fun p => p.2 == w) = none := by
      rw [List.find?_eq_none]
      intro p hp hpw
      have := eq_of_beq hpw
      subst this
      exact h p.1 hp
    rw [this]

/-- The keyword table (regenerated from `token.rs` / `tokenizer.rs`) is a function: no word is two
keywords and no keyword kind has two spellings; and every keyword kind is one that carries no
payload. -/
def C09_keyword_table_stmt : Prop :=
  (Generated.keywords.map (·.2)).Nodup ∧ (Generated.keywords.map (·.1)).Nodup ∧
  ∀ p ∈ Generated.keywords, p.2 ≠ [] ∧ p.1.tag ≠ 9 ∧ p.1.tag ≠ 12
theorem C09_keyword_table : C09_keyword_table_stmt := by unfold C09_keyword_table_stmt; decide

/-- An integer literal keeps its exact decimal value whatever its length (positional value, in
unbounded `Nat`). -/
def C09_literal_value_stmt : Prop :=
  ∀ (ds : List Char) (d : Char), digitsValue (ds ++ [d]) = digitsValue ds * 10 + (d.toNat - 48)
theorem C09_literal_value : C09_literal_value_stmt := by
  intro ds d
  simp [digitsValue, List.foldl_append]

/-! ## Lexeme slices -/

/-- Each token's range contains exactly the token's own text (T2). -/
def C09_lexeme_slice_stmt : Prop :=
  ∀ (cc : CharClass) (text : List Char) (ts : List Tok), tokenize cc text = .ok ts →
    ∀ t ∈ ts, ∃ pre lex post, text = pre ++ lex ++ post ∧ bytesOf pre = t.start ∧
      bytesOf lex = t.stop - t.start ∧
      (match t.kind with
       | .identifier w => lex = w
       | .integerLiteral n => digitsValue lex = n ∧ ∀ c ∈ lex, isDigit c = true
       | .terminatorLineBreak => lex = ['\n']
       | _ => True)
theorem C09_lexeme_slice : C09_lexeme_slice_stmt := by
  intro cc text ts h t ht
  have hf := tokenize_ok h
  have hm : t ∈ (scan cc text.length 0 text { toks := [], errs := [] }).toks :=
    List.mem_reverse.1 ((filterToks_sublist _ _ hf).subset ht)
  obtain ⟨pre, lex, post, h1, h2, h3, h4⟩ :=
    scan_slice cc text text.length 0 text { toks := [], errs := [] } ⟨[], rfl, rfl⟩
      (by intro t ht; cases ht) t hm
  refine ⟨pre, lex, post, h1, h2, h3, ?_⟩
  unfold lexOK at h4
  split <;> simp_all

/-! ## Non-vacuity -/

def C09_cc : CharClass :=
  { isAlpha := fun c => ('a' ≤ c ∧ c ≤ 'z') || c == 'é'
    isAlnum := fun c => ('a' ≤ c ∧ c ≤ 'z') || ('0' ≤ c ∧ c ≤ '9') || c == 'é'
    isWs := fun c => c == ' ' || c == '\n'
    graphemeEnd := fun p => p + 1 }
-- `if é1 = 007 # c` newline `x`: a keyword, a two-byte identifier character, a literal with leading zeros
example : tokenize C09_cc ['i','f',' ','é','1',' ','=',' ','0','0','7',' ','#',' ','c','\n','x'] =
    .ok [⟨.if_, 0, 2⟩, ⟨.identifier ['é', '1'], 3, 6⟩, ⟨.equals, 7, 8⟩, ⟨.integerLiteral 7, 9, 12⟩,
         ⟨.terminatorLineBreak, 16, 17⟩, ⟨.identifier ['x'], 17, 18⟩] := by decide
example : tokenize C09_cc ['a',' ','$'] = .err [(2, 3)] := by decide
