import GramModel.Lemmas.EvalTracesPin
import GramModel.Lemmas.ArmsTie
import GramModel.Lemmas.Eval
import GramModel.Lemmas.DeBruijn
import GramModel.Lemmas.BigStep

/-!
# C02 — running a program yields the value the call-by-value semantics prescribes

The specification is the relation `Step` (`StepRel.lean`); the evaluator model `step`/`evalFuel` is
what the correspondence harness compares, term by term and step by step, with
`evaluator.rs::step`.
-/

/-- The model evaluator only takes steps the semantics allows. -/
def C02_step_sound_stmt : Prop := ∀ (t t' : Tm), step t = some t' → Step t t'
theorem C02_step_sound : C02_step_sound_stmt := step_sound

/-- ... and takes every step the semantics allows. -/
def C02_step_complete_stmt : Prop := ∀ (t t' : Tm), Step t t' → step t = some t'
theorem C02_step_complete : C02_step_complete_stmt := fun _ _ h => step_complete h

/-- The semantics is deterministic: evaluation order is fixed (function before argument, left
operand before right, definitions in order, only the chosen branch). -/
def C02_deterministic_stmt : Prop := ∀ (t a b : Tm), Step t a → Step t b → a = b
theorem C02_deterministic : C02_deterministic_stmt := fun _ _ _ h1 h2 => Step_deterministic h1 h2

/-- Values do not reduce. -/
def C02_value_irreducible_stmt : Prop :=
  ∀ (v t' : Tm), isValue v = true → ¬ Step v t'
theorem C02_value_irreducible : C02_value_irreducible_stmt := by
  intro v t' hv hs
  have := step_not_value hs
  rw [hv] at this; contradiction

/-- Whatever the fuelled evaluator returns is reachable by the semantics. -/
def C02_eval_reaches_stmt : Prop := ∀ (n : Nat) (t : Tm), Steps t (evalFuel n t)
theorem C02_eval_reaches : C02_eval_reaches_stmt := evalFuel_steps

/-- If the semantics takes `t` to an irreducible `v` (a value, or a stuck term), the evaluator
returns exactly `v` for every sufficiently large fuel: the result is the one the semantics
prescribes, and it does not depend on the fuel. -/
def C02_eval_finds_stmt : Prop :=
  ∀ (t v : Tm), Steps t v → step v = none → ∃ n, ∀ m, n ≤ m → evalFuel m t = v
theorem C02_eval_finds : C02_eval_finds_stmt := fun _ _ h hv => Steps_evalFuel h hv

/-- Integer arithmetic is exact at any magnitude (`Int` is unbounded; tied to `BigInt` by the
correspondence on operands far beyond 64 bits). -/
def C02_arith_exact_stmt : Prop :=
  ∀ (a b : Int), delta .sum a b = some (.lit (a + b)) ∧ delta .diff a b = some (.lit (a - b)) ∧
    delta .prod a b = some (.lit (a * b))
theorem C02_arith_exact : C02_arith_exact_stmt := by intro a b; simp [delta]

/-- Division truncates toward zero: `a = b*q + r` with `|r| < |b|` and `r` zero or of the sign of
`a`; division by zero has no result (the only stuck arithmetic redex on literals). -/
def C02_quot_trunc_stmt : Prop :=
  ∀ (a b : Int), (b = 0 → delta .quot a b = none) ∧
    (b ≠ 0 → ∃ q r : Int, delta .quot a b = some (.lit q) ∧ a = b * q + r ∧
      r.natAbs < b.natAbs ∧ (0 ≤ a → 0 ≤ r) ∧ (a ≤ 0 → r ≤ 0))
theorem C02_quot_trunc : C02_quot_trunc_stmt := by
  intro a b
  refine ⟨fun h => by simp [delta, h], fun h => ⟨a.tdiv b, a.tmod b, by simp [delta, h], ?_, ?_, ?_, ?_⟩⟩
  · exact (Int.mul_tdiv_add_tmod a b).symm
  · rw [Int.natAbs_tmod]; apply Nat.mod_lt; omega
  · intro ha; exact Int.tmod_nonneg b ha
  · intro ha
    have h1 : 0 ≤ (-a).tmod b := Int.tmod_nonneg b (by omega)
    rw [Int.neg_tmod] at h1
    omega

/-- Comparisons behave as written, including on equal operands. -/
def C02_cmp_spec_stmt : Prop :=
  ∀ (a b : Int),
    (delta .lt a b = some .tt ↔ a < b) ∧ (delta .lt a b = some .ff ↔ ¬ a < b) ∧
    (delta .le a b = some .tt ↔ a ≤ b) ∧ (delta .le a b = some .ff ↔ ¬ a ≤ b) ∧
    (delta .eq a b = some .tt ↔ a = b) ∧ (delta .eq a b = some .ff ↔ ¬ a = b) ∧
    (delta .gt a b = some .tt ↔ a > b) ∧ (delta .gt a b = some .ff ↔ ¬ a > b) ∧
    (delta .ge a b = some .tt ↔ a ≥ b) ∧ (delta .ge a b = some .ff ↔ ¬ a ≥ b)
theorem C02_cmp_spec : C02_cmp_spec_stmt := by
  intro a b
  simp only [delta]
  refine ⟨?_, ?_, ?_, ?_, ?_, ?_, ?_, ?_, ?_, ?_⟩ <;> (split <;> simp_all)

/-- Only the chosen branch of a conditional is evaluated: once the condition has evaluated to
`true` the conditional *is* the `then` branch (the `else` branch is discarded unevaluated), and
dually. -/
def C02_ite_chooses_stmt : Prop :=
  ∀ (c a b : Tm), (Steps c .tt → Steps (.ite c a b) a) ∧ (Steps c .ff → Steps (.ite c a b) b)
theorem C02_ite_chooses : C02_ite_chooses_stmt := by
  intro c a b
  have lift : ∀ {c c' : Tm}, Steps c c' → Steps (.ite c a b) (.ite c' a b) := by
    intro c c' h
    induction h with
    | refl => exact Steps.refl
    | head h _ ih => exact Steps.head (Step.iteC h) ih
  exact ⟨fun h => Steps_trans (lift h) (Steps.head Step.iteT Steps.refl),
         fun h => Steps_trans (lift h) (Steps.head Step.iteF Steps.refl)⟩

/-- Arguments are evaluated before calls: the function part first, then the argument, then β. -/
def C02_app_order_stmt : Prop :=
  ∀ (f f' a a' : Tm), Steps f f' → isValue f' = true → Steps a a' → isValue a' = true →
    Steps (.app f a) (.app f' a')
theorem C02_app_order : C02_app_order_stmt := by
  intro f f' a a' hf hv ha _
  have l2 : Steps (.app f' a) (.app f' a') := by
    induction ha with
    | refl => exact Steps.refl
    | head h _ ih => exact Steps.head (Step.appR hv h) (ih ‹_›)
  have l1 : Steps (.app f a) (.app f' a) := by
    clear l2
    induction hf with
    | refl => exact Steps.refl
    | head h _ ih => exact Steps.head (Step.appL h) (ih hv)
  exact Steps_trans l1 l2

/-! ## Pending (T2) -/

/-- Fixed-point law: in a group whose first definition is a value, the group variable reduces to
that definition with the variable again bound to the group. -/
def C02_let_fix_unfold_stmt : Prop :=
  ∀ (x : Name) (ann d : Tm), isValue d = true →
    Steps (.letg (.cons x ann d .nil) (.var x 0)) (unfoldDef x ann d 0)
theorem C02_let_fix_unfold : C02_let_fix_unfold_stmt := by
  intro x ann d hv
  have h1 := @Step.letU x ann d .nil (.var x 0) hv
  have e : openT (.var x 0) 0 (unfoldDef x ann d 0) 0 = unfoldDef x ann d 0 := by
    simp [openT, ushift_zero]
  simp only [Defs.len_nil, openDefs, e] at h1
  exact Steps.head h1 (Steps.head Step.letNil Steps.refl)

/-! ## Non-vacuity -/

-- factorial 5 through a recursive group evaluates, in the kernel, to 120
def C02_fact : Tm :=
  .letg (.cons 0 (.pi 1 false .int .int)
          (.lam 2 false .int
            (.ite (.bin .eq (.var 2 0) (.lit 0)) (.lit 1)
              (.bin .prod (.var 2 0) (.app (.var 0 1) (.bin .diff (.var 2 0) (.lit 1))))))
          .nil)
        (.app (.var 0 0) (.lit 5))
example : evalFuel 200 C02_fact = .lit 120 := by decide
example : Steps C02_fact (.lit 120) := by
  have h : evalFuel 200 C02_fact = .lit 120 := by decide
  exact h ▸ evalFuel_steps 200 C02_fact
-- truncation toward zero on a negative dividend
example : delta .quot (-7) 2 = some (.lit (-3)) := by decide

/-! ## More of the big-step reading (T2) -/

/-- The result of the fuelled evaluator does not depend on the fuel once it has stopped. -/
def C02_eval_fuel_stable_stmt : Prop :=
  ∀ (n m : Nat) (t : Tm), step (evalFuel n t) = none → n ≤ m → evalFuel m t = evalFuel n t
theorem C02_eval_fuel_stable : C02_eval_fuel_stable_stmt := by
  intro n
  induction n with
  | zero =>
    intro m t h _
    simp only [evalFuel] at h ⊢
    cases m <;> simp [evalFuel, h]
  | succ n ih =>
    intro m t h hm
    cases m with
    | zero => omega
    | succ m =>
      simp only [evalFuel] at h ⊢
      cases hs : step t with
      | none => rfl
      | some t' =>
        simp only [hs] at h ⊢
        exact ih m t' h (by omega)

/-- Left operand first, then the right one, then the δ-rule. -/
def C02_bin_order_stmt : Prop :=
  ∀ (op : BinOp) (a b : Tm) (x y : Int) (r : Tm), Steps a (.lit x) → Steps b (.lit y) →
    delta op x y = some r → Steps (.bin op a b) r
theorem C02_bin_order : C02_bin_order_stmt := by
  intro op a b x y r ha hb hd
  have l1 : ∀ {a a' : Tm}, Steps a a' → Steps (.bin op a b) (.bin op a' b) := by
    intro a a' h
    induction h with
    | refl => exact Steps.refl
    | head h _ ih => exact Steps.head (Step.binL h) ih
  have l2 : ∀ {b b' : Tm}, Steps b b' → Steps (.bin op (.lit x) b) (.bin op (.lit x) b') := by
    intro b b' h
    induction h with
    | refl => exact Steps.refl
    | head h _ ih => exact Steps.head (Step.binR rfl h) ih
  exact Steps_trans (l1 ha) (Steps_trans (l2 hb) (Steps.head (Step.delta hd) Steps.refl))

/-- Definitions of a group are evaluated in order: the first definition is evaluated to a value
before anything else happens to the group. -/
def C02_let_first_stmt : Prop :=
  ∀ (x : Name) (ann d d' : Tm) (rest : Defs) (body : Tm), Steps d d' →
    Steps (.letg (.cons x ann d rest) body) (.letg (.cons x ann d' rest) body)
theorem C02_let_first : C02_let_first_stmt := by
  intro x ann d d' rest body h
  induction h with
  | refl => exact Steps.refl
  | head h _ ih => exact Steps.head (Step.letD h) ih

/-! ## The primitive rules are the ones `evaluator.rs` contains, operator by operator (regenerated on every run) -/

/-- For each of the nine binary operators, the primitive that the corresponding arm of `evaluator.rs::step`
applies to two integer literals (read off the source by `extract/arms.py`: operator, operand order, which boolean
the `if` yields, `checked_div`) computes exactly the model's `delta` — for all operands. -/
def C02_step_prims_tie_stmt : Prop :=
  ∀ (op : BinOp) (a b : Int),
    (primOf Generated.stepPrims op.toV).bind (fun p => p.sem a b) = delta op a b
theorem C02_step_prims_tie : C02_step_prims_tie_stmt := stepPrims_delta

/-- Every binary arm of `evaluator.rs::step` has the one shape the model implements for all nine operators: the
left operand steps first and must then be a value, then the right operand steps and must then be a value; the
two congruence nodes keep the operator and the places of the operands. -/
def C02_step_shape_tie_stmt : Prop := stepShapeOK = true
theorem C02_step_shape_tie : C02_step_shape_tie_stmt := by unfold C02_step_shape_tie_stmt; decide

/-! ## Natural semantics: the value `gram run` must produce, stated as the language definition would

`Big t v` (`t ⇓ v`, `Lemmas/BigStep.lean`) has one rule per construct: values evaluate to themselves;
`f a`: `f ⇓ λx. b`, `a ⇓ v`, `b[x := v] ⇓ r`; `a op b`: `a ⇓ x`, `b ⇓ y`, `r` the primitive on `x`, `y`;
`-a`; `if c then a else b`: `c ⇓ true`, `a ⇓ r` (the other branch is absent from the premises) and
dually; a group: the first definition `⇓ v`, the recursive unfolding of `v` is substituted into the rest
(`letShrink`, the very term `step` produces), and the shrunken group `⇓ r`; the empty group is its body.
It is equivalent to the small-step semantics, to the evaluator model, and to the fuelled big-step
interpreter `bigEval`, the Lean counterpart of the independent reference interpreter of the harness. -/

/-- The group rule of `⇓` substitutes exactly what the evaluator model substitutes. -/
def C02_big_group_rule_is_step_stmt : Prop :=
  ∀ (x : Name) (ann v : Tm) (rest : Defs) (b : Tm), isValue v = true →
    step (.letg (.cons x ann v rest) b) = some (letShrink x ann v rest b)
theorem C02_big_group_rule_is_step : C02_big_group_rule_is_step_stmt := letShrink_is_step

/-- The rules of `⇓` determine it construct by construct (inversion): this is the relation read as a
definition of the language.  Variables and holes have no value. -/
def C02_big_rules_stmt : Prop :=
  (∀ (t v : Tm), isValue t = true → (Big t v ↔ v = t)) ∧
  (∀ (f a r : Tm), Big (.app f a) r ↔
      ∃ x im d b v, Big f (.lam x im d b) ∧ Big a v ∧ Big (openT b 0 v 0) r) ∧
  (∀ (a r : Tm), Big (.neg a) r ↔ ∃ n, Big a (.lit n) ∧ r = .lit (-n)) ∧
  (∀ (op : BinOp) (a b r : Tm), Big (.bin op a b) r ↔
      ∃ x y, Big a (.lit x) ∧ Big b (.lit y) ∧ delta op x y = some r) ∧
  (∀ (c a b r : Tm), Big (.ite c a b) r ↔ (Big c .tt ∧ Big a r) ∨ (Big c .ff ∧ Big b r)) ∧
  (∀ (b r : Tm), Big (.letg .nil b) r ↔ Big b r) ∧
  (∀ (x : Name) (ann d : Tm) (rest : Defs) (b r : Tm), Big (.letg (.cons x ann d rest) b) r ↔
      ∃ v, Big d v ∧ Big (letShrink x ann v rest b) r) ∧
  (∀ (x : Name) (i : Nat) (v : Tm), ¬ Big (.var x i) v) ∧
  (∀ (id s : Nat) (v : Tm), ¬ Big (.hole id s) v)
theorem C02_big_rules : C02_big_rules_stmt :=
  ⟨fun _ _ hv => Big_val_iff hv, fun _ _ _ => Big_app_iff, fun _ _ => Big_neg_iff,
   fun _ _ _ _ => Big_bin_iff, fun _ _ _ _ => Big_ite_iff, fun _ _ => Big_letNil_iff,
   fun _ _ _ _ _ _ => Big_letCons_iff, fun _ _ _ => Big_var_none, fun _ _ _ => Big_hole_none⟩

/-- Soundness: whatever the natural semantics derives, the small-step semantics reaches, and it is a
value. -/
def C02_big_sound_stmt : Prop := ∀ (t v : Tm), Big t v → Steps t v ∧ isValue v = true
theorem C02_big_sound : C02_big_sound_stmt := fun _ _ h => Big_sound h

/-- One small step backwards preserves the big-step value. -/
def C02_big_expansion_stmt : Prop := ∀ (t t' v : Tm), Step t t' → Big t' v → Big t v
theorem C02_big_expansion : C02_big_expansion_stmt := fun _ _ _ hs h => Step_Big hs h

/-- Completeness: every terminating small-step run is a derivation of the natural semantics. -/
def C02_big_complete_stmt : Prop := ∀ (t v : Tm), Steps t v → isValue v = true → Big t v
theorem C02_big_complete : C02_big_complete_stmt := fun _ _ h hv => Big_complete h hv

/-- `t ⇓ v` iff the evaluator model stops at the value `v`. -/
def C02_big_iff_eval_stmt : Prop :=
  ∀ (t v : Tm), Big t v ↔ ∃ n, evalFuel n t = v ∧ isValue v = true
theorem C02_big_iff_eval : C02_big_iff_eval_stmt := fun _ _ => Big_iff_eval

/-- A program has at most one value. -/
def C02_big_deterministic_stmt : Prop := ∀ (t v w : Tm), Big t v → Big t w → v = w
theorem C02_big_deterministic : C02_big_deterministic_stmt := fun _ _ _ h1 h2 => Big_deterministic h1 h2

/-- The fuelled big-step interpreter only returns what the natural semantics derives ... -/
def C02_bigEval_sound_stmt : Prop := ∀ (n : Nat) (t v : Tm), bigEval n t = some v → Big t v
theorem C02_bigEval_sound : C02_bigEval_sound_stmt := bigEval_sound

/-- ... and finds every derivation, for every fuel from some point on. -/
def C02_bigEval_complete_stmt : Prop :=
  ∀ (t v : Tm), Big t v → ∃ n, ∀ m, n ≤ m → bigEval m t = some v
theorem C02_bigEval_complete : C02_bigEval_complete_stmt := fun _ _ h => bigEval_complete_ge h

/-- More fuel never changes an answer of the interpreter. -/
def C02_bigEval_mono_stmt : Prop :=
  ∀ (n m : Nat) (t v : Tm), bigEval n t = some v → n ≤ m → bigEval m t = some v
theorem C02_bigEval_mono : C02_bigEval_mono_stmt := fun _ _ _ _ h hm => bigEval_mono h hm

/-- The two interpreters agree: the big-step one answers `v` (for some fuel) iff the small-step
evaluator model stops at the value `v` (for some fuel). -/
def C02_bigEval_iff_evalFuel_stmt : Prop :=
  ∀ (t v : Tm), (∃ n, bigEval n t = some v) ↔ ∃ n, evalFuel n t = v ∧ isValue v = true
theorem C02_bigEval_iff_evalFuel : C02_bigEval_iff_evalFuel_stmt := fun _ _ => bigEval_iff_evalFuel

/-- A program has a big-step value iff the evaluator model reaches a value: stuck and divergent
programs have none. -/
def C02_big_value_iff_stmt : Prop :=
  ∀ (t : Tm), (∃ v, Big t v) ↔ (∃ n, isValue (evalFuel n t) = true)
theorem C02_big_value_iff : C02_big_value_iff_stmt := fun _ => Big_exists_iff

/-- A stuck term (not a value, no step) has no value, and the interpreter answers `none` on it whatever
the fuel. -/
def C02_big_stuck_stmt : Prop :=
  ∀ (t : Tm), step t = none → isValue t = false → (¬ ∃ v, Big t v) ∧ ∀ n, bigEval n t = none
theorem C02_big_stuck : C02_big_stuck_stmt :=
  fun _ hs hv => ⟨Big_stuck hs hv, bigEval_none_of_no_value (Big_stuck hs hv)⟩

/-! ### Non-vacuity: kernel-checked runs of both interpreters -/

/-- `fact = λn. if n == 0 then 1 else n * fact (n - 1); fact 3` -/
def C02_fact3 : Tm :=
  .letg (.cons 0 (.pi 1 false .int .int)
          (.lam 2 false .int
            (.ite (.bin .eq (.var 2 0) (.lit 0)) (.lit 1)
              (.bin .prod (.var 2 0) (.app (.var 0 1) (.bin .diff (.var 2 0) (.lit 1))))))
          .nil)
        (.app (.var 0 0) (.lit 3))
example : bigEval 20 C02_fact3 = some (.lit 6) := by decide
example : evalFuel 100 C02_fact3 = .lit 6 := by decide
example : Big C02_fact3 (.lit 6) := bigEval_sound 20 _ _ (by decide)

/-- `if false then 1 / 0 else 5`: only the chosen branch is evaluated. -/
def C02_skip_div0 : Tm := .ite .ff (.bin .quot (.lit 1) (.lit 0)) (.lit 5)
example : bigEval 2 C02_skip_div0 = some (.lit 5) := by decide
example : evalFuel 5 C02_skip_div0 = .lit 5 := by decide
example : Big C02_skip_div0 (.lit 5) := Big.iteF (Big.val rfl) (Big.val rfl)

/-- `even = λn. if n == 0 then true else odd (n - 1); odd = λn. if n == 0 then false else even (n - 1); even 4`
(inside a group of two, `even` is index 1 and `odd` index 0; one more under the `λ`). -/
def C02_even_odd (k : Int) : Tm :=
  .letg (.cons 0 (.pi 2 false .int .bool)
          (.lam 2 false .int
            (.ite (.bin .eq (.var 2 0) (.lit 0)) .tt
              (.app (.var 1 1) (.bin .diff (.var 2 0) (.lit 1)))))
        (.cons 1 (.pi 2 false .int .bool)
          (.lam 2 false .int
            (.ite (.bin .eq (.var 2 0) (.lit 0)) .ff
              (.app (.var 0 2) (.bin .diff (.var 2 0) (.lit 1)))))
        .nil))
        (.app (.var 0 1) (.lit k))
example : bigEval 30 (C02_even_odd 4) = some .tt := by decide
example : bigEval 30 (C02_even_odd 3) = some .ff := by decide
example : evalFuel 200 (C02_even_odd 4) = .tt := by decide
example : evalFuel 200 (C02_even_odd 3) = .ff := by decide
example : Big (C02_even_odd 4) .tt := bigEval_sound 30 _ _ (by decide)

/-- `1 / 0` has no value: both interpreters say so for the fuels tried, and it is proved for all. -/
def C02_div0 : Tm := .bin .quot (.lit 1) (.lit 0)
example : bigEval 0 C02_div0 = none ∧ bigEval 1 C02_div0 = none ∧ bigEval 2 C02_div0 = none ∧
    bigEval 50 C02_div0 = none := by decide
example : evalFuel 50 C02_div0 = C02_div0 ∧ isValue C02_div0 = false := by decide
theorem C02_div0_no_value : ¬ ∃ v, Big C02_div0 v := Big_stuck (by decide) (by decide)
theorem C02_div0_bigEval_none : ∀ n, bigEval n C02_div0 = none :=
  bigEval_none_of_no_value C02_div0_no_value
-- a strict language would get stuck on the program above that skips the division
example : (∃ v, Big C02_skip_div0 v) ∧ ¬ ∃ v, Big C02_div0 v :=
  ⟨⟨_, Big.iteF (Big.val rfl) (Big.val rfl)⟩, C02_div0_no_value⟩

-- instances of the hypotheses of the statements above
example : isValue (.lam 2 false .int (.var 2 0)) = true := rfl                       -- group rule, `rules`
example : Step C02_skip_div0 (.lit 5) ∧ Big (.lit 5) (.lit 5) := ⟨Step.iteF, Big.val rfl⟩  -- expansion
example : Steps C02_skip_div0 (.lit 5) ∧ isValue (.lit 5) = true :=                    -- completeness
  ⟨Steps.head Step.iteF Steps.refl, rfl⟩
example : bigEval 2 C02_skip_div0 = some (.lit 5) ∧ 2 ≤ 7 := by decide               -- monotonicity
example : step C02_div0 = none ∧ isValue C02_div0 = false := by decide               -- stuck

/-- `evaluator.rs::step`: in every arm other than the nine binary operators (C02_step_shape_tie covers those) the calls that matter — sub-step of the function, value test, sub-step of the argument, value test, β by `open(body, 0, argument, 0)`; for a group the step and value test of the FIRST definition and the unfolding built with `index` and `index + 1`; negation and conditional stepping their first component only; a solved hole read through `unsigned_shift(.., 0, shift)` — are, in order, the ones the model `step` performs (regenerated from the source on every run). -/
def C02_step_traces_tie_stmt : Prop :=
  tracesOf "step" Generated.evalTraces = tracesOf "step" expectedEvalTraces
theorem C02_step_traces_tie : C02_step_traces_tie_stmt := by unfold C02_step_traces_tie_stmt; decide +kernel
