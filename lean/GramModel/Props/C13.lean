import GramModel.Generated.Sites
import GramModel.Lemmas.SortDedup

/-!
# C13 — output is a deterministic function of the input

A Lean function is deterministic by construction, so the content is put in deliberately: an
iteration over a hash container is modelled as iteration in an order chosen by an **arbitrary
permutation** `π` of the container's elements, and the theorem is invariance under `π`.  The list
of iteration sites is regenerated from the sources on every run.
-/

def natLe (a b : Nat) : Bool := decide (a ≤ b)

/-- the order in which `check_definition` visits the free variables of a definition: whatever order
the hash set yields (`π`), the elements are collected and sorted first -/
def visitOrder (π : List Nat → List Nat) (elems : List Nat) : List Nat := (π elems).mergeSort natLe

/-- Sorting makes the visiting order independent of the hash order: any two iteration orders of
the same set give the same sequence of visits (hence the same diagnostics in the same order). -/
def C13_visit_order_invariant_stmt : Prop :=
  ∀ (π₁ π₂ : List Nat → List Nat) (elems : List Nat),
    (π₁ elems).Perm elems → (π₂ elems).Perm elems → visitOrder π₁ elems = visitOrder π₂ elems
theorem C13_visit_order_invariant : C13_visit_order_invariant_stmt := by
  intro π₁ π₂ elems h1 h2
  unfold visitOrder
  have tr : ∀ (a b c : Nat), natLe a b = true → natLe b c = true → natLe a c = true := by
    intro a b c; simp [natLe]; omega
  have tot : ∀ (a b : Nat), (natLe a b || natLe b a) = true := by
    intro a b; simp [natLe]; omega
  apply List.Perm.eq_of_pairwise (le := fun a b => natLe a b = true)
  · intro a b _ _ hab hba; simp [natLe] at hab hba; omega
  · exact List.pairwise_mergeSort tr tot _
  · exact List.pairwise_mergeSort tr tot _
  · exact ((List.mergeSort_perm _ _).trans (h1.trans h2.symm)).trans (List.mergeSort_perm _ _).symm

/-- Every iteration over a hash container in the (non-test) sources is one whose result is sorted
before use — i.e. a `π`-site covered by the theorem above.  A new `for … in hash_set`, errors
collected into a `HashMap`, or a removed sort makes this fail. -/
def C13_hash_iteration_sites_covered_stmt : Prop :=
  ∀ site ∈ Generated.hashIterSites, site.2.2.2 = true
theorem C13_hash_iteration_sites_covered : C13_hash_iteration_sites_covered_stmt := by
  unfold C13_hash_iteration_sites_covered_stmt; decide

/-- … and there is exactly the one known site (`check_definition`'s free-variable set). -/
def C13_known_sites_stmt : Prop :=
  Generated.hashIterSites.map (fun s => (s.1, s.2.1, s.2.2.1)) = [("parser.rs", "check_definition", "variables")]
theorem C13_known_sites : C13_known_sites_stmt := by unfold C13_known_sites_stmt; decide

/-! ## Non-vacuity: two different hash orders of {3,1,2}, one visiting order -/
example : visitOrder (fun _ => [3, 1, 2]) [1, 2, 3] = visitOrder (fun _ => [2, 3, 1]) [1, 2, 3] :=
  C13_visit_order_invariant _ _ _ (by decide) (by decide)
/-- without the sort (the pinned tree, defect D11) the order did depend on the hash order -/
example : (fun (_ : List Nat) => [3, 1, 2]) [1, 2, 3] ≠ (fun (_ : List Nat) => [2, 3, 1]) [1, 2, 3] := by decide

/-! ## The site in the parser model, and the other sources of run-to-run variation -/

/-- In the parser model (the one compared with `parse()` on every `parse` op) the loop of `check_definition` runs
over `sortDedup` of the free variables: whatever order — and multiplicity — the hash set yields its elements in,
the loop visits the same variables in the same order, so the same diagnostics come out in the same order. -/
def C13_model_site_set_function_stmt : Prop :=
  ∀ (defs : Array (Name × PModel.RTm × PModel.RTm)) (start : Nat)
    (rec : Nat → PModel.CheckSt → Option PModel.CheckSt) (xs ys : List Nat) (st : PModel.CheckSt),
    (∀ x, x ∈ xs ↔ x ∈ ys) →
    PModel.checkVariables defs start rec (PModel.sortDedup xs) st =
      PModel.checkVariables defs start rec (PModel.sortDedup ys) st
theorem C13_model_site_set_function : C13_model_site_set_function_stmt := by
  intro defs start rec xs ys st h
  rw [PModel.sortDedup_set xs ys h]

/-- Every use, in non-test code, of an API whose result can differ between two runs on the same file — clocks,
random numbers, threads, environment, process id, pointer formatting / casts / hashing, directory listing, hasher
state, parallel iterators, shared mutable state — regenerated from the sources on every run.  There are exactly two,
and neither reaches the output: `main` runs everything in ONE thread that it joins at once (a big stack, no
concurrency), and `HashableRc` hashes the address of a cell for the occurs-check set of `collect_unifiers`, which
is only ever asked `contains`/`insert` (an iteration over it would appear in `Generated.hashIterSites` and break
`C13_hash_iteration_sites_covered`).  A diagnostic that prints an address, a timing line, a `for` over an
address-keyed set, a second thread … changes this table. -/
def C13_nondeterminism_sources_stmt : Prop :=
  Generated.nondetSources = [("main.rs", "main", "thread"), ("unifier.rs", "hash", "pointer-hash")]
theorem C13_nondeterminism_sources : C13_nondeterminism_sources_stmt := by
  unfold C13_nondeterminism_sources_stmt; decide

-- non-vacuity: two hash orders (one with a repeated element) of the set {0, 2, 5}
example : PModel.sortDedup [5, 0, 2, 5] = PModel.sortDedup [2, 5, 0] := by decide
