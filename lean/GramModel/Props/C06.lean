import GramModel.Check
import GramModel.Oracle
import GramModel.Lemmas.Oracle
import GramModel.Lemmas.Whnf

/-!
# C06 — definitional equality used by the checker agrees with evaluation

`sameX` is the pure reading of `syntactically_equal` (structural equality up to names and
parameter annotations); `convX` is normalise-and-compare.  The agreement of the checker's own
`unify`/`normalize_weak_head` with the evaluator on closed ground programs is decided per program
by the `programs` suite (normalizer vs. evaluator, `unify(t,t)`, `unify(t, reduct)`, symmetry).
-/

/-- Syntactic equality is an equivalence relation. -/
def C06_same_refl_stmt : Prop := ∀ (t : Tm), sameX t t = true
theorem C06_same_refl : C06_same_refl_stmt := OracleLemmas.sameX_refl
def C06_same_symm_stmt : Prop := ∀ (a b : Tm), sameX a b = sameX b a
theorem C06_same_symm : C06_same_symm_stmt := OracleLemmas.sameX_symm
def C06_same_trans_stmt : Prop := ∀ (a b c : Tm), sameX a b = true → sameX b c = true → sameX a c = true
theorem C06_same_trans : C06_same_trans_stmt := fun _ _ _ h1 h2 => OracleLemmas.sameX_trans h1 h2

/-- Every term is judged equal to itself, with any fuel ≥ 1, in any context — even a term that has
no normal form. -/
def C06_conv_refl_stmt : Prop := ∀ (f : Nat) (Δ : DCtxX) (t : Tm), convX (f+1) Δ t t = some true
theorem C06_conv_refl : C06_conv_refl_stmt := by
  intro f Δ t
  unfold convX
  simp [OracleLemmas.sameX_refl]

/-- The checker's normalizer and the evaluator contract the same redexes with the same δ-rule:
on two literals both use `delta` (exact arithmetic, truncating division, undefined on zero). -/
def C06_delta_shared_stmt : Prop :=
  ∀ (f : Nat) (op : BinOp) (x y : Int) (s : St),
    (whnfS (f+2) (.bin op (.lit x) (.lit y)) s =
      .ok (match delta op x y with | some r => r | none => .bin op (.lit x) (.lit y)) s) ∧
    step (.bin op (.lit x) (.lit y)) = delta op x y
theorem C06_delta_shared : C06_delta_shared_stmt := by
  intro f op x y s
  constructor
  · have hl : ∀ n, whnfS (f+1) (.lit n) = pure (.lit n) := by intro n; unfold whnfS; rfl
    have hb : ∀ (a : Tm) (g : Tm → M Tm), (pure a >>= g) = g a := fun _ _ => rfl
    unfold whnfS
    simp only [hl, hb]
    cases delta op x y <;> rfl
  · simp [step, isValue]

/-- Values are fixed points of weak-head normalisation (hole-free values). -/
def C06_whnf_value_stmt : Prop :=
  ∀ (f : Nat) (v : Tm) (s : St), isValue v = true → whnfS (f+1) v s = .ok v s
theorem C06_whnf_value : C06_whnf_value_stmt := by
  intro f v s hv
  cases v <;> simp [isValue] at hv <;> (unfold whnfS; rfl)

/-- The model of `syntactically_equal` (store layer) coincides with `sameX` on hole-free terms,
given enough fuel. -/
def C06_synEq_pure_stmt : Prop :=
  ∀ (a b : Tm) (s : St), a.holeFree = true → b.holeFree = true →
    ∃ n, ∀ f, n ≤ f → synEqS f a b s = .ok (sameX a b) s
theorem C06_synEq_pure : C06_synEq_pure_stmt := by
  intro a b s ha hb
  refine ⟨a.size + 1, fun f hf => ?_⟩
  rw [OracleLemmas.synEqS_pure a b f ha hb hf]
  rfl

/-- Unifying a hole-free term with itself succeeds (through the syntactic shortcut), leaving the
state untouched. -/
def C06_unify_refl_stmt : Prop :=
  ∀ (t : Tm) (s : St), t.holeFree = true → ∃ n, ∀ f, n ≤ f → unifyS f t t s = .ok true s
theorem C06_unify_refl : C06_unify_refl_stmt := by
  intro t s ht
  refine ⟨t.size + 2, fun f hf => ?_⟩
  rw [OracleLemmas.unifyS_refl_holeFree t f ht hf]
  rfl

/-! ## The two normalizers agree -/

/-- The store-layer normalizer (the model of `normalize_weak_head`, used by gram's checker) and the
independent checker's normalizer compute the same weak head normal form on hole-free terms under the
same definitions context, whenever both answer. -/
def C06_whnf_layers_agree_stmt : Prop :=
  ∀ (f g : Nat) (t r r' : Tm) (s s' : St), t.holeFree = true → s.store = [] →
    (∀ e ∈ s.dctx, ∀ d o, e = some (d, o) → d.holeFree = true) →
    whnfS f t s = .ok r s' → whnfX g s.dctx t = some r' → r = r'
theorem C06_whnf_layers_agree : C06_whnf_layers_agree_stmt := by
  intro f g t r r' s s' ht _ hD h hx
  exact (WhnfLemmas.whnf_agree f t s r s' ht hD h).2.2 g r' hx

/-- The same without the assumption on the store (a hole-free term never reads it), and with the two
facts the induction carries along: the run of the store-layer normalizer leaves the whole state
(store, contexts, diagnostics) as it was, and its result is again hole-free. -/
def C06_whnf_layers_agree_strong_stmt : Prop :=
  ∀ (f : Nat) (t r : Tm) (s s' : St), t.holeFree = true →
    (∀ e ∈ s.dctx, ∀ d o, e = some (d, o) → d.holeFree = true) →
    whnfS f t s = .ok r s' →
    s' = s ∧ r.holeFree = true ∧ ∀ (g : Nat) (r' : Tm), whnfX g s.dctx t = some r' → r = r'
theorem C06_whnf_layers_agree_strong : C06_whnf_layers_agree_strong_stmt := by
  intro f t r s s' ht hD h
  exact WhnfLemmas.whnf_agree f t s r s' ht hD h

-- non-vacuity: both normalizers answer, with the same term, on a group with a recursive unfolding,
-- a β-redex, arithmetic and a conditional, under a context with a definition
example :
    (match whnfS 30 (.letg (.cons 1 .int (.lit 2) .nil)
                (.ite (.bin .lt (.var 1 0) (.var 2 1)) (.app (.lam 3 false .int (.neg (.var 3 0))) (.var 1 0)) .tt))
              { dctx := [some (.lit 5, 1)] },
           whnfX 30 [some (.lit 5, 1)] (.letg (.cons 1 .int (.lit 2) .nil)
                (.ite (.bin .lt (.var 1 0) (.var 2 1)) (.app (.lam 3 false .int (.neg (.var 3 0))) (.var 1 0)) .tt)) with
     | .ok r _, some r' => r == r' && r == .lit (-2)
     | _, _ => false) = true := by decide
