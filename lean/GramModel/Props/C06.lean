import GramModel.Lemmas.EvalTracesPin
import GramModel.Lemmas.ArmsTie
import GramModel.Check
import GramModel.Oracle
import GramModel.Lemmas.Oracle
import GramModel.Lemmas.Whnf
import GramModel.Lemmas.Fuel
import GramModel.Lemmas.UnifyAgree
import GramModel.Lemmas.ConvCoherence
import GramModel.Lemmas.SoundRun

/-!
# C06 — definitional equality used by the checker agrees with evaluation

`sameX` is the pure reading of `syntactically_equal` (structural equality up to names and
parameter annotations); `convX` is normalise-and-compare.  The agreement of the checker's own
`unify`/`normalize_weak_head` with the evaluator on closed ground programs is decided per program
by the `programs` suite (normalizer vs. evaluator, `unify(t,t)`, `unify(t, reduct)`, symmetry).
-/

/-- Syntactic equality is an equivalence relation. -/
def C06_same_refl_stmt : Prop := ∀ (t : Tm), sameX t t = true
theorem C06_same_refl : C06_same_refl_stmt := OracleLemmas.sameX_refl
def C06_same_symm_stmt : Prop := ∀ (a b : Tm), sameX a b = sameX b a
theorem C06_same_symm : C06_same_symm_stmt := OracleLemmas.sameX_symm
def C06_same_trans_stmt : Prop := ∀ (a b c : Tm), sameX a b = true → sameX b c = true → sameX a c = true
theorem C06_same_trans : C06_same_trans_stmt := fun _ _ _ h1 h2 => OracleLemmas.sameX_trans h1 h2

/-- Every term is judged equal to itself, with any fuel ≥ 1, in any context — even a term that has
no normal form. -/
def C06_conv_refl_stmt : Prop := ∀ (f : Nat) (Δ : DCtxX) (t : Tm), convX (f+1) Δ t t = some true
theorem C06_conv_refl : C06_conv_refl_stmt := by
  intro f Δ t
  unfold convX
  simp [OracleLemmas.sameX_refl]

/-- The checker's normalizer and the evaluator contract the same redexes with the same δ-rule:
on two literals both use `delta` (exact arithmetic, truncating division, undefined on zero). -/
def C06_delta_shared_stmt : Prop :=
  ∀ (f : Nat) (op : BinOp) (x y : Int) (s : St),
    (whnfS (f+2) (.bin op (.lit x) (.lit y)) s =
      .ok (match delta op x y with | some r => r | none => .bin op (.lit x) (.lit y)) s) ∧
    step (.bin op (.lit x) (.lit y)) = delta op x y
theorem C06_delta_shared : C06_delta_shared_stmt := by
  intro f op x y s
  constructor
  · have hl : ∀ n, whnfS (f+1) (.lit n) = pure (.lit n) := by intro n; unfold whnfS; rfl
    have hb : ∀ (a : Tm) (g : Tm → M Tm), (pure a >>= g) = g a := fun _ _ => rfl
    unfold whnfS
    simp only [hl, hb]
    cases delta op x y <;> rfl
  · simp [step, isValue]

/-- Values are fixed points of weak-head normalisation (hole-free values). -/
def C06_whnf_value_stmt : Prop :=
  ∀ (f : Nat) (v : Tm) (s : St), isValue v = true → whnfS (f+1) v s = .ok v s
theorem C06_whnf_value : C06_whnf_value_stmt := by
  intro f v s hv
  cases v <;> simp [isValue] at hv <;> (unfold whnfS; rfl)

/-- The model of `syntactically_equal` (store layer) coincides with `sameX` on hole-free terms,
given enough fuel. -/
def C06_synEq_pure_stmt : Prop :=
  ∀ (a b : Tm) (s : St), a.holeFree = true → b.holeFree = true →
    ∃ n, ∀ f, n ≤ f → synEqS f a b s = .ok (sameX a b) s
theorem C06_synEq_pure : C06_synEq_pure_stmt := by
  intro a b s ha hb
  refine ⟨a.size + 1, fun f hf => ?_⟩
  rw [OracleLemmas.synEqS_pure a b f ha hb hf]
  rfl

/-- Unifying a hole-free term with itself succeeds (through the syntactic shortcut), leaving the
state untouched. -/
def C06_unify_refl_stmt : Prop :=
  ∀ (t : Tm) (s : St), t.holeFree = true → ∃ n, ∀ f, n ≤ f → unifyS f t t s = .ok true s
theorem C06_unify_refl : C06_unify_refl_stmt := by
  intro t s ht
  refine ⟨t.size + 2, fun f hf => ?_⟩
  rw [OracleLemmas.unifyS_refl_holeFree t f ht hf]
  rfl

/-! ## The two normalizers agree -/

/-- The store-layer normalizer (the model of `normalize_weak_head`, used by gram's checker) and the
independent checker's normalizer compute the same weak head normal form on hole-free terms under the
same definitions context, whenever both answer. -/
def C06_whnf_layers_agree_stmt : Prop :=
  ∀ (f g : Nat) (t r r' : Tm) (s s' : St), t.holeFree = true → s.store = [] →
    (∀ e ∈ s.dctx, ∀ d o, e = some (d, o) → d.holeFree = true) →
    whnfS f t s = .ok r s' → whnfX g s.dctx t = some r' → r = r'
theorem C06_whnf_layers_agree : C06_whnf_layers_agree_stmt := by
  intro f g t r r' s s' ht _ hD h hx
  exact (WhnfLemmas.whnf_agree f t s r s' ht hD h).2.2 g r' hx

/-- The same without the assumption on the store (a hole-free term never reads it), and with the two
facts the induction carries along: the run of the store-layer normalizer leaves the whole state
(store, contexts, diagnostics) as it was, and its result is again hole-free. -/
def C06_whnf_layers_agree_strong_stmt : Prop :=
  ∀ (f : Nat) (t r : Tm) (s s' : St), t.holeFree = true →
    (∀ e ∈ s.dctx, ∀ d o, e = some (d, o) → d.holeFree = true) →
    whnfS f t s = .ok r s' →
    s' = s ∧ r.holeFree = true ∧ ∀ (g : Nat) (r' : Tm), whnfX g s.dctx t = some r' → r = r'
theorem C06_whnf_layers_agree_strong : C06_whnf_layers_agree_strong_stmt := by
  intro f t r s s' ht hD h
  exact WhnfLemmas.whnf_agree f t s r s' ht hD h

-- non-vacuity: both normalizers answer, with the same term, on a group with a recursive unfolding,
-- a β-redex, arithmetic and a conditional, under a context with a definition
example :
    (match whnfS 30 (.letg (.cons 1 .int (.lit 2) .nil)
                (.ite (.bin .lt (.var 1 0) (.var 2 1)) (.app (.lam 3 false .int (.neg (.var 3 0))) (.var 1 0)) .tt))
              { dctx := [some (.lit 5, 1)] },
           whnfX 30 [some (.lit 5, 1)] (.letg (.cons 1 .int (.lit 2) .nil)
                (.ite (.bin .lt (.var 1 0) (.var 2 1)) (.app (.lam 3 false .int (.neg (.var 3 0))) (.var 1 0)) .tt)) with
     | .ok r _, some r' => r == r' && r == .lit (-2)
     | _, _ => false) = true := by decide

/-! ## Symmetry -/

/-- On hole-free terms the conversion judgement is symmetric (at every fuel, in every context). -/
def C06_conv_symm_stmt : Prop :=
  ∀ (f : Nat) (Δ : DCtxX) (a b : Tm), a.holeFree = true → b.holeFree = true →
    (∀ e ∈ Δ, ∀ d o, e = some (d, o) → d.holeFree = true) →
    convX f Δ a b = convX f Δ b a
theorem C06_conv_symm : C06_conv_symm_stmt :=
  fun f Δ a b _ _ _ => FuelLemmas.convX_symm f Δ a b

/-- Symmetry needs none of the hole-freeness assumptions: the only arms of `convX` that look at one
side alone are the two hole arms, and they are symmetric as a pair. -/
def C06_conv_symm_general_stmt : Prop :=
  ∀ (f : Nat) (Δ : DCtxX) (a b : Tm), convX f Δ a b = convX f Δ b a
theorem C06_conv_symm_general : C06_conv_symm_general_stmt := FuelLemmas.convX_symm

/-! ## The two conversion checks agree -/

/-- (First formulation, **refuted** below; kept, without the `_stmt` suffix, next to its refutation.)
gram's own conversion check (the model of `unify`) and the independent checker's `convX` give the
same verdict on hole-free terms under the same (hole-free) definitions context, whenever both answer;
and on such terms `unify` leaves the whole state as it was (it solves nothing, pushes and pops in
pairs) and never panics.  With `C06_conv_symm`, `C06_conv_refl` and the fuel-monotonicity of `convX`
this transfers symmetry and reflexivity to gram's own judgement on hole-free terms. -/
def C06_unify_layers_agree_unrestricted : Prop :=
  ∀ (f : Nat) (a b : Tm) (s : St), a.holeFree = true → b.holeFree = true →
    (∀ e ∈ s.dctx, ∀ d o, e = some (d, o) → d.holeFree = true) →
    (∀ site, unifyS f a b s ≠ .panic site) ∧
    ∀ (r : Bool) (s' : St), unifyS f a b s = .ok r s' →
      s' = s ∧ ∀ (g : Nat) (r' : Bool), convX g s.dctx a b = some r' → r = r'

/-- `C06_unify_layers_agree_unrestricted` is FALSE of the model as stated, in its first conjunct only:
nothing in the hypotheses says that the two terms are *well scoped* in the definitions context.
`unify` weak-head normalises both sides, and `normalize_weak_head` indexes the definitions context
with the variable's de Bruijn index (`definitions_context[index]`), which panics for an index that is
out of range.  Witness: the two distinct variables `x₀` and `x₁` under the empty context — the
syntactic shortcut answers "different", then normalising `x₀` panics at
`normalize_weak_head.definitions_context[index]`.  (Not a defect of the Rust code: the parser's
resolver and the checker's context discipline only ever hand well-scoped terms to `unify`; the
statement simply forgot the assumption.) -/
theorem C06_unify_layers_agree_refuted : ¬ C06_unify_layers_agree_unrestricted := by
  intro h
  have hp : unifyS 3 (.var 0 0) (.var 0 1) {} =
      .panic "normalize_weak_head.definitions_context[index]" := by rfl
  exact (h 3 (.var 0 0) (.var 0 1) {} rfl rfl (fun e he => by cases he)).1 _ hp

/-- Corrected statement, agreement part — **no scoping assumption at all**: on hole-free terms under a
hole-free definitions context, the only panics `unify` can reach are the two context lookups of
`normalize_weak_head` (an index outside the definitions context, or an entry whose offset exceeds
`index + 1`): never `unsigned_shift(..).unwrap()`, never the `let`-after-normalisation arm; a run
that answers leaves the whole state (store, both contexts, diagnostics) exactly as it was, and its
verdict is the verdict of the independent `convX` at every fuel at which `convX` answers. -/
def C06_unify_layers_agree_fixed_stmt : Prop :=
  ∀ (f : Nat) (a b : Tm) (s : St), a.holeFree = true → b.holeFree = true →
    (∀ e ∈ s.dctx, ∀ d o, e = some (d, o) → d.holeFree = true) →
    (∀ site, unifyS f a b s = .panic site →
      site = "normalize_weak_head.definitions_context[index]" ∨
      site = "normalize_weak_head.index+1-offset") ∧
    ∀ (r : Bool) (s' : St), unifyS f a b s = .ok r s' →
      s' = s ∧ ∀ (g : Nat) (r' : Bool), convX g s.dctx a b = some r' → r = r'
theorem C06_unify_layers_agree_fixed : C06_unify_layers_agree_fixed_stmt :=
  fun f a b s ha hb hD => UnifyAgree.unify_agree f a b s ha hb hD

/-- Corrected statement, panic-freedom part (the dropped first conjunct, with the assumption it
needs): if moreover both terms are well scoped in the definitions context, and every definition
recorded in the context has its offset in range (`off ≤ index + 1`) and is itself well scoped in the
part of the context it was pushed over (the context minus the `index + 1 - off` entries pushed after
its group — exactly what `type_check`'s group rule establishes and `pushD none` preserves), then
`unify` does not panic at any site. -/
def C06_unify_no_panic_stmt : Prop :=
  ∀ (f : Nat) (a b : Tm) (s : St), a.holeFree = true → b.holeFree = true →
    (∀ e ∈ s.dctx, ∀ d o, e = some (d, o) → d.holeFree = true) →
    wellScoped s.dctx.length a = true → wellScoped s.dctx.length b = true →
    (∀ i d off, s.dctx[i]? = some (some (d, off)) →
      off ≤ i + 1 ∧ wellScoped (s.dctx.length - (i + 1 - off)) d = true) →
    ∀ site, unifyS f a b s ≠ .panic site
theorem C06_unify_no_panic : C06_unify_no_panic_stmt :=
  fun f a b s ha hb hD hsa hsb hS => UnifyAgree.unify_no_panic f a b s ha hb hD hsa hsb hS

/-- The same for the normalizer alone, with the fact the induction carries: the weak head normal
form of a well-scoped hole-free term is well scoped. -/
def C06_whnf_no_panic_stmt : Prop :=
  ∀ (f : Nat) (t : Tm) (s : St), t.holeFree = true →
    (∀ e ∈ s.dctx, ∀ d o, e = some (d, o) → d.holeFree = true) →
    wellScoped s.dctx.length t = true →
    (∀ i d off, s.dctx[i]? = some (some (d, off)) →
      off ≤ i + 1 ∧ wellScoped (s.dctx.length - (i + 1 - off)) d = true) →
    (∀ site, whnfS f t s ≠ .panic site) ∧
    ∀ r s', whnfS f t s = .ok r s' → wellScoped s.dctx.length r = true
theorem C06_whnf_no_panic : C06_whnf_no_panic_stmt :=
  fun f t s ht hD hst hS => UnifyAgree.whnf_no_panic f t s ht hD hst hS

-- non-vacuity: both checks answer, with the same verdict, on two different convertible functions
-- (β-redex and arithmetic under a binder, a definition from the context), and on two inconvertible ones;
-- the context satisfies the scoping assumption of `C06_unify_no_panic`
example :
    (match unifyS 40 (.lam 1 false .int (.bin .sum (.var 1 0) (.var 2 1)))
              (.lam 3 false .int (.app (.lam 4 false .int (.bin .sum (.var 4 0) (.lit 5))) (.var 3 0)))
              { dctx := [some (.lit 5, 1)], tctx := [(.int, 1)], nerrs := 7 },
           convX 40 [some (.lit 5, 1)] (.lam 1 false .int (.bin .sum (.var 1 0) (.var 2 1)))
              (.lam 3 false .int (.app (.lam 4 false .int (.bin .sum (.var 4 0) (.lit 5))) (.var 3 0))) with
     | .ok r s', some r' => r == r' && r == true && s'.dctx == [some (.lit 5, 1)] && s'.nerrs == 7
     | _, _ => false) = true := by decide
example :
    (match unifyS 40 (.lam 1 false .int (.bin .sum (.lit 3) (.var 2 1)))
              (.lam 3 false .int (.app (.lam 4 false .int (.bin .sum (.lit 2) (.lit 5))) (.var 3 0)))
              { dctx := [some (.lit 5, 1)] },
           convX 40 [some (.lit 5, 1)] (.lam 1 false .int (.bin .sum (.lit 3) (.var 2 1)))
              (.lam 3 false .int (.app (.lam 4 false .int (.bin .sum (.lit 2) (.lit 5))) (.var 3 0))) with
     | .ok r s', some r' => r == r' && r == false && s'.dctx == [some (.lit 5, 1)]
     | _, _ => false) = true := by decide

/-- Consequence: on hole-free terms gram's own judgement is symmetric whenever it answers both ways
and the independent check answers at all. -/
def C06_unify_symm_stmt : Prop :=
  ∀ (f f' g : Nat) (a b : Tm) (s s1 s2 : St) (r1 r2 r' : Bool), a.holeFree = true → b.holeFree = true →
    (∀ e ∈ s.dctx, ∀ d o, e = some (d, o) → d.holeFree = true) →
    unifyS f a b s = .ok r1 s1 → unifyS f' b a s = .ok r2 s2 → convX g s.dctx a b = some r' → r1 = r2
theorem C06_unify_symm : C06_unify_symm_stmt := by
  intro f f' g a b s s1 s2 r1 r2 r' ha hb hD h1 h2 hx
  have e1 := ((C06_unify_layers_agree_fixed f a b s ha hb hD).2 r1 s1 h1).2 g r' hx
  have hx' : convX g s.dctx b a = some r' := by rw [FuelLemmas.convX_symm]; exact hx
  have e2 := ((C06_unify_layers_agree_fixed f' b a s hb ha hD).2 r2 s2 h2).2 g r' hx'
  exact e1.trans e2.symm

/-! ## Evaluation, normalisation and the conversion check cohere (`Lemmas/ConvCoherence.lean`)

All of this is derived from confluence of the declarative conversion (`Lemmas/CCPar.lean` …
`CCJoin.lean`): convertible terms have joinable erasures, and joinable weak head normal forms have the
same head. -/

/-- A step of the call-by-value evaluator is a conversion of the declarative rules — in *every*
definitions context, with no assumption on the term: the evaluator never consults the context, its
group rule is literally the `letStep` head reduction, and its congruence rule for the first definition
of a group is the group congruence of `Conv`. -/
def C06_step_conv_stmt : Prop := ∀ (Δ : DCtxX) (t t' : Tm), Step t t' → Conv Δ t t'
theorem C06_step_conv : C06_step_conv_stmt := fun Δ _ _ h => ConvCoherence.step_conv h Δ

def C06_steps_conv_stmt : Prop := ∀ (Δ : DCtxX) (t t' : Tm), Steps t t' → Conv Δ t t'
theorem C06_steps_conv : C06_steps_conv_stmt := fun Δ _ _ h => ConvCoherence.steps_conv h Δ

/-- Evaluation keeps terms well scoped (and hole-free: `Canonical.Step_holeFree`). -/
def C06_step_scoped_stmt : Prop :=
  ∀ (n : Nat) (t t' : Tm), Step t t' → wellScoped n t = true → wellScoped n t' = true
theorem C06_step_scoped : C06_step_scoped_stmt := fun n _ _ h => ConvCoherence.Step_wellScoped h n

/-- **Normalising the way the checker does yields the literal that running yields.**  For every
hole-free term (closed or not, accepted or not), under any hole-free definitions context whose offsets
are in range: if running it (any number of steps) ends in an integer literal, `true` or `false`, then
the independent checker's weak head normalizer — at *any* fuel at which it answers — returns exactly
that literal. -/
def C06_eval_whnf_agree_stmt : Prop :=
  ∀ (n f : Nat) (Δ : DCtxX) (t w : Tm), t.holeFree = true →
    (∀ e ∈ Δ, ∀ d o, e = some (d, o) → d.holeFree = true) →
    (∀ p d off, Δ[p]? = some (some (d, off)) → off ≤ p + 1) →
    whnfX f Δ t = some w →
    (∀ k, evalFuel n t = .lit k → w = .lit k) ∧
    (evalFuel n t = .tt → w = .tt) ∧ (evalFuel n t = .ff → w = .ff)
theorem C06_eval_whnf_agree : C06_eval_whnf_agree_stmt := by
  intro n f Δ t w ht hD hW hw
  have hs := evalFuel_steps n t
  refine ⟨fun k e => ?_, fun e => ?_, fun e => ?_⟩ <;> rw [e] at hs
  · exact ConvCoherence.whnfX_steps_ground hD hW ht hs (.inl ⟨k, rfl⟩) hw
  · exact ConvCoherence.whnfX_steps_ground hD hW ht hs (.inr (.inl rfl)) hw
  · exact ConvCoherence.whnfX_steps_ground hD hW ht hs (.inr (.inr rfl)) hw

/-- The closed form (the empty definitions context of a whole program). -/
def C06_eval_whnf_agree_closed_stmt : Prop :=
  ∀ (n f : Nat) (t w : Tm), t.holeFree = true → whnfX f [] t = some w →
    (∀ k, evalFuel n t = .lit k → w = .lit k) ∧
    (evalFuel n t = .tt → w = .tt) ∧ (evalFuel n t = .ff → w = .ff)
theorem C06_eval_whnf_agree_closed : C06_eval_whnf_agree_closed_stmt :=
  fun n f t w ht hw => C06_eval_whnf_agree n f [] t w ht (fun _ he => by cases he)
    (fun p d off e => by simp at e) hw

/-- The same for the model of gram's own `normalize_weak_head` (store layer): a run that answers
returns the literal the evaluator finds, and leaves the whole state as it was. -/
def C06_eval_whnfS_agree_stmt : Prop :=
  ∀ (n f : Nat) (t w : Tm) (s s' : St), t.holeFree = true →
    (∀ e ∈ s.dctx, ∀ d o, e = some (d, o) → d.holeFree = true) →
    (∀ p d off, s.dctx[p]? = some (some (d, off)) → off ≤ p + 1) →
    whnfS f t s = .ok w s' →
    s' = s ∧ (∀ k, evalFuel n t = .lit k → w = .lit k) ∧
    (evalFuel n t = .tt → w = .tt) ∧ (evalFuel n t = .ff → w = .ff)
theorem C06_eval_whnfS_agree : C06_eval_whnfS_agree_stmt := by
  intro n f t w s s' ht hD hW hw
  have hs := evalFuel_steps n t
  have hst : s' = s := (CCPar.whnfS_ok_all ht hD hw).1
  refine ⟨hst, fun k e => ?_, fun e => ?_, fun e => ?_⟩ <;> rw [e] at hs
  · exact (ConvCoherence.whnfS_steps_ground hD hW ht hs (.inl ⟨k, rfl⟩) hw).2
  · exact (ConvCoherence.whnfS_steps_ground hD hW ht hs (.inr (.inl rfl)) hw).2
  · exact (ConvCoherence.whnfS_steps_ground hD hW ht hs (.inr (.inr rfl)) hw).2

/-- Conversely: if the evaluator ends in a *value* and the normalizer answers a literal, the value is
that literal. -/
def C06_whnf_eval_agree_stmt : Prop :=
  ∀ (n f : Nat) (Δ : DCtxX) (t w : Tm), t.holeFree = true →
    (∀ p d off, Δ[p]? = some (some (d, off)) → off ≤ p + 1) →
    isValue (evalFuel n t) = true → whnfX f Δ t = some w →
    ((∃ k, w = .lit k) ∨ w = .tt ∨ w = .ff) → evalFuel n t = w
theorem C06_whnf_eval_agree : C06_whnf_eval_agree_stmt :=
  fun n f _ t _ ht hW hv hw hg =>
    ConvCoherence.steps_value_whnfX_ground (f := f) hW ht (evalFuel_steps n t) hv hg hw

/-- (The converse needs "ends in a value": the normalizer is call-by-name at the head, the evaluator
call-by-value, so the normalizer may discard an argument on which the evaluator gets stuck:
`((x : int) => 3) (1 / 0)` normalises to `3` and is stuck, on the division, under evaluation.) -/
def C06_whnf_eval_agree_unrestricted : Prop :=
  ∀ (n f : Nat) (t w : Tm), t.holeFree = true → step (evalFuel n t) = none → whnfX f [] t = some w →
    ((∃ k, w = .lit k) ∨ w = .tt ∨ w = .ff) → evalFuel n t = w
theorem C06_whnf_eval_agree_refuted : ¬ C06_whnf_eval_agree_unrestricted := by
  intro h
  have := h 5 5 (.app (.lam 1 false .int (.lit 3)) (.bin .quot (.lit 1) (.lit 0))) (.lit 3) rfl
    (by decide) (by decide) (.inl ⟨3, rfl⟩)
  revert this
  decide

/-- **Every term is judged equal to any term it reduces to.**  For a hole-free term and any of its
reducts under evaluation, the independent conversion check — at any fuel, under any hole-free
definitions context whose offsets are in range — answers `true` whenever it answers.  (With
`C06_conv_refl`: and to itself.) -/
def C06_conv_reduct_stmt : Prop :=
  ∀ (f : Nat) (Δ : DCtxX) (t t' : Tm) (r : Bool), t.holeFree = true →
    (∀ e ∈ Δ, ∀ d o, e = some (d, o) → d.holeFree = true) →
    (∀ p d off, Δ[p]? = some (some (d, off)) → off ≤ p + 1) →
    Steps t t' → convX f Δ t t' = some r → r = true
theorem C06_conv_reduct : C06_conv_reduct_stmt := by
  intro f Δ t t' r ht hD hW hs h
  cases r with
  | true => rfl
  | false =>
    exact (ConvCoherence.convX_of_conv ht (ConvCoherence.Steps_holeFree hs ht) hD hW
      (ConvCoherence.steps_conv hs Δ) h).elim

/-- In particular for the term the fuelled evaluator reaches. -/
def C06_conv_eval_stmt : Prop :=
  ∀ (n f : Nat) (t : Tm) (r : Bool), t.holeFree = true →
    convX f [] t (evalFuel n t) = some r → r = true
theorem C06_conv_eval : C06_conv_eval_stmt :=
  fun n f t r ht h => C06_conv_reduct f [] t _ r ht (fun _ he => by cases he)
    (fun p d off e => by simp at e) (evalFuel_steps n t) h

/-- **Completeness of the conversion check up to fuel**: on hole-free terms, convertible terms are
never judged different. -/
def C06_conv_complete_stmt : Prop :=
  ∀ (f : Nat) (Δ : DCtxX) (a b : Tm), a.holeFree = true → b.holeFree = true →
    (∀ e ∈ Δ, ∀ d o, e = some (d, o) → d.holeFree = true) →
    (∀ p d off, Δ[p]? = some (some (d, off)) → off ≤ p + 1) →
    Conv Δ a b → convX f Δ a b ≠ some false
theorem C06_conv_complete : C06_conv_complete_stmt :=
  fun _ _ _ _ ha hb hD hW hc => ConvCoherence.convX_of_conv ha hb hD hW hc

/-- **The judgement coincides with convertibility** whenever it answers (terms may have no normal
form, so "whenever it answers" cannot be dropped: see `C12_whnfX_omega`): on hole-free terms an answer
`true` is a `Conv` derivation (`C03_conv_sound`) and an answer `false` a refutation of `Conv`. -/
def C06_conv_decides_stmt : Prop :=
  ∀ (f : Nat) (Δ : DCtxX) (a b : Tm) (r : Bool), a.holeFree = true → b.holeFree = true →
    (∀ e ∈ Δ, ∀ d o, e = some (d, o) → d.holeFree = true) →
    (∀ p d off, Δ[p]? = some (some (d, off)) → off ≤ p + 1) →
    convX f Δ a b = some r → (r = true ↔ Conv Δ a b)
theorem C06_conv_decides : C06_conv_decides_stmt :=
  fun _ _ _ _ _ ha hb hD hW h => ConvCoherence.convX_decides ha hb hD hW h

/-- … and convertibility of closed hole-free terms is **equality of normal forms up to names and
parameter annotations** in the only form that makes sense without normalisation: the erasures (names,
parameter annotations and annotations of definitions forgotten) have a common reduct under parallel
reduction; by confluence (`Pars.confluence`) a normal form, if there is one, is that common reduct. -/
def C06_conv_iff_join_stmt : Prop :=
  ∀ (a b : Tm), a.holeFree = true → b.holeFree = true →
    (Conv [] a b ↔ ∃ c, CCPar.Pars [] 0 (CCSubst.er a) c ∧ CCPar.Pars [] 0 (CCSubst.er b) c)
theorem C06_conv_iff_join : C06_conv_iff_join_stmt :=
  fun _ _ ha hb => ConvCoherence.conv_iff_join_closed ha hb

/-- Consequence: besides being reflexive (`C06_conv_refl`) and symmetric (`C06_conv_symm`), the
judgement is transitive on hole-free terms — whenever the third check answers, at whatever fuels. -/
def C06_conv_trans_stmt : Prop :=
  ∀ (f g h : Nat) (Δ : DCtxX) (a b c : Tm) (r : Bool), a.holeFree = true → b.holeFree = true →
    c.holeFree = true →
    (∀ e ∈ Δ, ∀ d o, e = some (d, o) → d.holeFree = true) →
    (∀ p d off, Δ[p]? = some (some (d, off)) → off ≤ p + 1) →
    convX f Δ a b = some true → convX g Δ b c = some true → convX h Δ a c = some r → r = true
theorem C06_conv_trans : C06_conv_trans_stmt := by
  intro f g h Δ a b c r ha hb hc hD hW h1 h2 h3
  exact (ConvCoherence.convX_decides ha hc hD hW h3).2
    (.trans (TypingSound.convX_sound f Δ a b ha hb hD h1) (TypingSound.convX_sound g Δ b c hb hc hD h2))

/-! ### Non-vacuity: one program through the evaluator, both normalizers and both conversion checks -/

/-- `fact = (n : int) => if n == 0 then 1 else n * fact (n - 1); fact 3` -/
def C06_fact3 : Tm :=
  .letg (.cons 0 (.pi 1 false .int .int)
          (.lam 2 false .int
            (.ite (.bin .eq (.var 2 0) (.lit 0)) (.lit 1)
              (.bin .prod (.var 2 0) (.app (.var 0 1) (.bin .diff (.var 2 0) (.lit 1))))))
          .nil)
        (.app (.var 0 0) (.lit 3))

example : C06_fact3.holeFree = true ∧ wellScoped 0 C06_fact3 = true := by decide
-- the evaluator, the independent normalizer and the model of gram's normalizer find the same literal
example : evalFuel 200 C06_fact3 = .lit 6 := by decide
example : whnfX 60 [] C06_fact3 = some (.lit 6) := by decide
example : (match whnfS 60 C06_fact3 {} with | .ok w s => w == .lit 6 && s.store.isEmpty | _ => false) = true := by
  decide
-- hence an instance of `C06_eval_whnf_agree_closed` with all hypotheses true
example : (Tm.lit 6) = .lit 6 :=
  (C06_eval_whnf_agree_closed 200 60 C06_fact3 (.lit 6) (by decide) (by decide)).1 6 (by decide)
-- the term is judged equal to its value, and to the reduct after 7 steps (a partially evaluated term
-- that still contains the recursive group), by both checks
example : convX 60 [] C06_fact3 (.lit 6) = some true := by decide
example : (evalFuel 7 C06_fact3 != evalFuel 200 C06_fact3) = true := by decide
example : convX 60 [] C06_fact3 (evalFuel 7 C06_fact3) = some true := by decide
example : (match unifyS 60 C06_fact3 (evalFuel 7 C06_fact3) {} with
    | .ok r s => r && s.store.isEmpty | _ => false) = true := by decide
-- and different from a wrong value: `false` answers exist (`C06_conv_decides` is not vacuous on `false`)
example : convX 60 [] C06_fact3 (.lit 7) = some false := by decide
-- the demo programs of `Lemmas/SoundRun.lean`
example : evalFuel 40 SoundRun.iteProg = .lit 7 ∧ whnfX 40 [] SoundRun.iteProg = some (.lit 7) := by
  decide
example : evalFuel 40 SoundRun.idProg = .lit 3 ∧ whnfX 40 [] SoundRun.idProg = some (.lit 3) := by
  decide

/-! ## Normalizer and evaluator contain the same primitive rules; structural equality relates like with like
(tables regenerated from `normalizer.rs` / `equality.rs` on every run by `extract/arms.py`) -/

/-- For each of the nine binary operators, the primitive that the corresponding arm of
`normalizer.rs::normalize_weak_head` applies to two integer literals computes exactly the model's `delta` — the
same function `C02_step_prims_tie` proves for `evaluator.rs::step`: the checker computes what the evaluator
computes, operator by operator, for all operands. -/
def C06_whnf_prims_tie_stmt : Prop :=
  ∀ (op : BinOp) (a b : Int),
    (primOf Generated.whnfPrims op.toV).bind (fun p => p.sem a b) = delta op a b ∧
    (primOf Generated.whnfPrims op.toV).bind (fun p => p.sem a b) =
      (primOf Generated.stepPrims op.toV).bind (fun p => p.sem a b)
theorem C06_whnf_prims_tie : C06_whnf_prims_tie_stmt := by
  intro op a b; exact ⟨whnfPrims_delta op a b, by rw [whnfPrims_delta, stepPrims_delta]⟩

/-- Every structural arm of `equality.rs::syntactically_equal` compares the same variant on both sides, the i-th
child with the i-th child, every child (λ: bodies only), joined by `&&` only. -/
def C06_syneq_pairs_tie_stmt : Prop := pairsOK Generated.synEqPairs = true
theorem C06_syneq_pairs_tie : C06_syneq_pairs_tie_stmt := by unfold C06_syneq_pairs_tie_stmt; decide

/-- `normalizer.rs::normalize_weak_head`: in every arm other than the nine binary operators (C06_whnf_prims_tie covers those) the calls that matter — a variable's definition shifted by `index + 1 - offset` and normalised, the function of an application normalised and β by `open(body, 0, argument, 0)` WITHOUT a value test on the argument (normal order), every member of a group unfolded with `i_index` / `i_index + 1`, a solved hole read through `unsigned_shift(.., 0, shift)` — are, in order, the ones the model `whnfS` performs (regenerated from the source on every run). -/
def C06_whnf_traces_tie_stmt : Prop :=
  tracesOf "normalize_weak_head" Generated.evalTraces = tracesOf "normalize_weak_head" expectedEvalTraces
theorem C06_whnf_traces_tie : C06_whnf_traces_tie_stmt := by unfold C06_whnf_traces_tie_stmt; decide +kernel
