import GramModel.Check
import GramModel.Oracle
import GramModel.Lemmas.Oracle

/-!
# C06 — definitional equality used by the checker agrees with evaluation

`sameX` is the pure reading of `syntactically_equal` (structural equality up to names and
parameter annotations); `convX` is normalise-and-compare.  The agreement of the checker's own
`unify`/`normalize_weak_head` with the evaluator on closed ground programs is decided per program
by the `programs` suite (normalizer vs. evaluator, `unify(t,t)`, `unify(t, reduct)`, symmetry).
-/

/-- Syntactic equality is an equivalence relation. -/
def C06_same_refl_stmt : Prop := ∀ (t : Tm), sameX t t = true
theorem C06_same_refl : C06_same_refl_stmt := OracleLemmas.sameX_refl
def C06_same_symm_stmt : Prop := ∀ (a b : Tm), sameX a b = sameX b a
theorem C06_same_symm : C06_same_symm_stmt := OracleLemmas.sameX_symm
def C06_same_trans_stmt : Prop := ∀ (a b c : Tm), sameX a b = true → sameX b c = true → sameX a c = true
theorem C06_same_trans : C06_same_trans_stmt := fun _ _ _ h1 h2 => OracleLemmas.sameX_trans h1 h2

/-- Every term is judged equal to itself, with any fuel ≥ 1, in any context — even a term that has
no normal form. -/
def C06_conv_refl_stmt : Prop := ∀ (f : Nat) (Δ : DCtxX) (t : Tm), convX (f+1) Δ t t = some true
theorem C06_conv_refl : C06_conv_refl_stmt := by
  intro f Δ t
  unfold convX
  simp [OracleLemmas.sameX_refl]

/-- The checker's normalizer and the evaluator contract the same redexes with the same δ-rule:
on two literals both use `delta` (exact arithmetic, truncating division, undefined on zero). -/
def C06_delta_shared_stmt : Prop :=
  ∀ (f : Nat) (op : BinOp) (x y : Int) (s : St),
    (whnfS (f+2) (.bin op (.lit x) (.lit y)) s =
      .ok (match delta op x y with | some r => r | none => .bin op (.lit x) (.lit y)) s) ∧
    step (.bin op (.lit x) (.lit y)) = delta op x y
theorem C06_delta_shared : C06_delta_shared_stmt := by
  intro f op x y s
  constructor
  · have hl : ∀ n, whnfS (f+1) (.lit n) = pure (.lit n) := by intro n; unfold whnfS; rfl
    have hb : ∀ (a : Tm) (g : Tm → M Tm), (pure a >>= g) = g a := fun _ _ => rfl
    unfold whnfS
    simp only [hl, hb]
    cases delta op x y <;> rfl
  · simp [step, isValue]

/-- Values are fixed points of weak-head normalisation (hole-free values). -/
def C06_whnf_value_stmt : Prop :=
  ∀ (f : Nat) (v : Tm) (s : St), isValue v = true → whnfS (f+1) v s = .ok v s
theorem C06_whnf_value : C06_whnf_value_stmt := by
  intro f v s hv
  cases v <;> simp [isValue] at hv <;> (unfold whnfS; rfl)

/-- The model of `syntactically_equal` (store layer) coincides with `sameX` on hole-free terms,
given enough fuel. -/
def C06_synEq_pure_stmt : Prop :=
  ∀ (a b : Tm) (s : St), a.holeFree = true → b.holeFree = true →
    ∃ n, ∀ f, n ≤ f → synEqS f a b s = .ok (sameX a b) s
theorem C06_synEq_pure : C06_synEq_pure_stmt := by
  intro a b s ha hb
  refine ⟨a.size + 1, fun f hf => ?_⟩
  rw [OracleLemmas.synEqS_pure a b f ha hb hf]
  rfl

/-- Unifying a hole-free term with itself succeeds (through the syntactic shortcut), leaving the
state untouched. -/
def C06_unify_refl_stmt : Prop :=
  ∀ (t : Tm) (s : St), t.holeFree = true → ∃ n, ∀ f, n ≤ f → unifyS f t t s = .ok true s
theorem C06_unify_refl : C06_unify_refl_stmt := by
  intro t s ht
  refine ⟨t.size + 2, fun f hf => ?_⟩
  rw [OracleLemmas.unifyS_refl_holeFree t f ht hf]
  rfl
