import GramModel.Oracle
import GramModel.Lemmas.Eval
import GramModel.Lemmas.Oracle
import GramModel.Typing
import GramModel.StepRel

/-!
# C04 — a program's value inhabits the type reported for the program

Decided per program by the suites (the independent checker types the value and compares with the
reported type).  Proved here: the type the independent checker assigns to a *value* is determined
by the value's shape — which is what turns "`v : T` and `T` is `int`" into "`v` is a literal".
-/

/-- The type of a value is syntactically determined: literals have type `int`, `true`/`false`
have type `bool`, type formers have type `type`, and a function has a function type. -/
def C04_value_type_shape_stmt : Prop :=
  ∀ (f : Nat) (Γ : TCtxX) (Δ : DCtxX) (v T : Tm), isValue v = true → inferX f Γ Δ v = .ok T →
    (match v with
     | .lit _ => T = .int
     | .tt | .ff => T = .bool
     | .type | .int | .bool | .pi .. => T = .type
     | .lam x im d _ => ∃ cod, T = .pi x im d cod
     | _ => False)
theorem C04_value_type_shape : C04_value_type_shape_stmt := by
  intro f Γ Δ v T hv h
  cases f with
  | zero => simp [inferX] at h
  | succ f =>
    cases v <;> simp [isValue] at hv <;> unfold inferX at h
    case type => cases h; rfl
    case int => cases h; rfl
    case bool => cases h; rfl
    case tt => cases h; rfl
    case ff => cases h; rfl
    case lit => cases h; rfl
    case lam x im d b =>
      simp only at h
      repeat (split at h <;> try (cases h; done))
      cases h
      exact ⟨_, rfl⟩
    case pi x im d b =>
      simp only at h
      repeat (split at h <;> try (cases h; done))
      cases h
      rfl

/-- Values are normal: they do not step and weak-head normalisation leaves them alone. -/
def C04_value_normal_stmt : Prop :=
  ∀ (f : Nat) (Δ : DCtxX) (v : Tm), isValue v = true → step v = none ∧ whnfX (f+1) Δ v = some v
theorem C04_value_normal : C04_value_normal_stmt := by
  intro f Δ v hv
  refine ⟨value_step_none v hv, ?_⟩
  cases v <;> simp [isValue] at hv <;> simp [whnfX]

/-- Canonical forms (for the closed base types): a value whose type is `int` is a literal, a value
whose type is `bool` is `true` or `false`, a value whose type is a function type is a function. -/
def C04_canonical_forms_stmt : Prop :=
  ∀ (f : Nat) (Γ : TCtxX) (Δ : DCtxX) (v T : Tm), isValue v = true → inferX f Γ Δ v = .ok T →
    (T = .int → ∃ n, v = .lit n) ∧ (T = .bool → v = .tt ∨ v = .ff) ∧
    (∀ x im d c, T = .pi x im d c → ∃ y jm e b, v = .lam y jm e b)
theorem C04_canonical_forms : C04_canonical_forms_stmt := by
  intro f Γ Δ v T hv h
  have hs := C04_value_type_shape f Γ Δ v T hv h
  cases v <;> simp [isValue] at hv <;> simp only at hs
  case lam y jm e b =>
    obtain ⟨cod, rfl⟩ := hs
    exact ⟨nofun, nofun, fun _ _ _ _ _ => ⟨_, _, _, _, rfl⟩⟩
  all_goals
    subst hs
    first
      | exact ⟨fun _ => ⟨_, rfl⟩, nofun, nofun⟩
      | exact ⟨nofun, fun _ => Or.inl rfl, nofun⟩
      | exact ⟨nofun, fun _ => Or.inr rfl, nofun⟩
      | exact ⟨nofun, nofun, nofun⟩

/-! ## Subject reduction and canonical forms for the declarative rules -/

/-- **Subject reduction.**  Evaluation preserves types: if a hole-free term has type `T` under the
declarative rules (`Typing.lean`) in hole-free contexts whose offsets are in range, and it takes one step of
the call-by-value semantics, the result has type `T` too.  (Stated for arbitrary contexts because the
evaluator steps inside the definitions of a group, i.e. under the group's binders.) -/
def C04_preservation_stmt : Prop :=
  ∀ (Γ : TCtxX) (Δ : DCtxX) (t t' T : Tm), t.holeFree = true →
    (∀ p ∈ Γ, p.1.holeFree = true) → (∀ p ∈ Δ, ∀ d o, p = some (d, o) → d.holeFree = true) →
    (∀ i ty off, Γ[i]? = some (ty, off) → off ≤ i + 1) →
    (∀ i d off, Δ[i]? = some (some (d, off)) → off ≤ i + 1) →
    HasType Γ Δ t T → Step t t' → HasType Γ Δ t' T

/-- **Canonical forms under the declarative rules**: a closed value whose type is convertible with `int` is
an integer literal, with `bool` is `true` or `false`, with a function type is a function, with `type` is a
type former.  (This is where consistency of conversion — `int`, `bool`, `type` and function types are
pairwise inconvertible — is needed.) -/
def C04_canonical_forms_declarative_stmt : Prop :=
  ∀ (v T : Tm), isValue v = true → v.holeFree = true → HasType [] [] v T →
    (Conv [] T .int → ∃ n, v = .lit n) ∧
    (Conv [] T .bool → v = .tt ∨ v = .ff) ∧
    (∀ x im d c, Conv [] T (.pi x im d c) → ∃ y jm e b, v = .lam y jm e b) ∧
    (Conv [] T .type → v = .type ∨ v = .int ∨ v = .bool ∨ ∃ x im d c, v = .pi x im d c)
