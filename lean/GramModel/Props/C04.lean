import GramModel.Oracle
import GramModel.Lemmas.Eval
import GramModel.Lemmas.Oracle
import GramModel.Typing
import GramModel.StepRel
import GramModel.Lemmas.Canonical
import GramModel.Lemmas.PreservationMain
import GramModel.Lemmas.PreservationRefute
import GramModel.Lemmas.SoundRun

/-!
# C04 — a program's value inhabits the type reported for the program

Decided per program by the suites (the independent checker types the value and compares with the
reported type).  Proved here: the type the independent checker assigns to a *value* is determined
by the value's shape — which is what turns "`v : T` and `T` is `int`" into "`v` is a literal".
-/

/-- The type of a value is syntactically determined: literals have type `int`, `true`/`false`
have type `bool`, type formers have type `type`, and a function has a function type. -/
def C04_value_type_shape_stmt : Prop :=
  ∀ (f : Nat) (Γ : TCtxX) (Δ : DCtxX) (v T : Tm), isValue v = true → inferX f Γ Δ v = .ok T →
    (match v with
     | .lit _ => T = .int
     | .tt | .ff => T = .bool
     | .type | .int | .bool | .pi .. => T = .type
     | .lam x im d _ => ∃ cod, T = .pi x im d cod
     | _ => False)
theorem C04_value_type_shape : C04_value_type_shape_stmt := by
  intro f Γ Δ v T hv h
  cases f with
  | zero => simp [inferX] at h
  | succ f =>
    cases v <;> simp [isValue] at hv <;> unfold inferX at h
    case type => cases h; rfl
    case int => cases h; rfl
    case bool => cases h; rfl
    case tt => cases h; rfl
    case ff => cases h; rfl
    case lit => cases h; rfl
    case lam x im d b =>
      simp only at h
      repeat (split at h <;> try (cases h; done))
      cases h
      exact ⟨_, rfl⟩
    case pi x im d b =>
      simp only at h
      repeat (split at h <;> try (cases h; done))
      cases h
      rfl

/-- Values are normal: they do not step and weak-head normalisation leaves them alone. -/
def C04_value_normal_stmt : Prop :=
  ∀ (f : Nat) (Δ : DCtxX) (v : Tm), isValue v = true → step v = none ∧ whnfX (f+1) Δ v = some v
theorem C04_value_normal : C04_value_normal_stmt := by
  intro f Δ v hv
  refine ⟨value_step_none v hv, ?_⟩
  cases v <;> simp [isValue] at hv <;> simp [whnfX]

/-- Canonical forms (for the closed base types): a value whose type is `int` is a literal, a value
whose type is `bool` is `true` or `false`, a value whose type is a function type is a function. -/
def C04_canonical_forms_stmt : Prop :=
  ∀ (f : Nat) (Γ : TCtxX) (Δ : DCtxX) (v T : Tm), isValue v = true → inferX f Γ Δ v = .ok T →
    (T = .int → ∃ n, v = .lit n) ∧ (T = .bool → v = .tt ∨ v = .ff) ∧
    (∀ x im d c, T = .pi x im d c → ∃ y jm e b, v = .lam y jm e b)
theorem C04_canonical_forms : C04_canonical_forms_stmt := by
  intro f Γ Δ v T hv h
  have hs := C04_value_type_shape f Γ Δ v T hv h
  cases v <;> simp [isValue] at hv <;> simp only at hs
  case lam y jm e b =>
    obtain ⟨cod, rfl⟩ := hs
    exact ⟨nofun, nofun, fun _ _ _ _ _ => ⟨_, _, _, _, rfl⟩⟩
  all_goals
    subst hs
    first
      | exact ⟨fun _ => ⟨_, rfl⟩, nofun, nofun⟩
      | exact ⟨nofun, fun _ => Or.inl rfl, nofun⟩
      | exact ⟨nofun, fun _ => Or.inr rfl, nofun⟩
      | exact ⟨nofun, nofun, nofun⟩

/-! ## Subject reduction and canonical forms for the declarative rules -/

/-- **Subject reduction.**  Evaluation preserves types: if a hole-free term has type `T` under the
declarative rules (`Typing.lean`) in hole-free contexts whose offsets are in range, and it takes one step of
the call-by-value semantics, the result has type `T` too.  (Stated for arbitrary contexts because the
evaluator steps inside the definitions of a group, i.e. under the group's binders.)

**FALSE** as stated (renamed from `C04_preservation_stmt`; refuted below, corrected in
`C04_preservation_fixed_stmt`). -/
def C04_preservation_unrestricted : Prop :=
  ∀ (Γ : TCtxX) (Δ : DCtxX) (t t' T : Tm), t.holeFree = true →
    (∀ p ∈ Γ, p.1.holeFree = true) → (∀ p ∈ Δ, ∀ d o, p = some (d, o) → d.holeFree = true) →
    (∀ i ty off, Γ[i]? = some (ty, off) → off ≤ i + 1) →
    (∀ i d off, Δ[i]? = some (some (d, off)) → off ≤ i + 1) →
    HasType Γ Δ t T → Step t t' → HasType Γ Δ t' T

/-- Subject reduction fails, already for closed terms in the empty contexts.  Witness
(`Lemmas/PreservationRefute.lean`): the hole-free program

    x : type = (w : x) -> if y w then int else bool;
    y : (x -> bool) = z => true;
    0

(`Pres.Refute.t0`) has type `x : …; y : …; int` (the oracle accepts it), and takes one step — `x`'s
definition is a `Π`, hence a value, so the group unfolds it — to `Pres.Refute.t1`, which has no type at
all (`Pres.Refute.t1_untypable`): `y`'s new annotation `U -> bool`, `U = (w : L) -> …`,
`L = (x = (w : x) -> if y w then int else bool; x)`, contains the group `L`, whose definition applies
`y : U -> bool` to `w : x` under the *new* binder `x`; the variable `x` (unfolding to `(w : x) -> …`) and
`U` are not convertible: by confluence they would have a common reduct, but every reduct of `x` is a
tower of `Π`s over the variable and every reduct of `U` a tower of `Π`s over a group. -/
theorem C04_preservation_refuted : ¬ C04_preservation_unrestricted := fun h =>
  Pres.Refute.t1_untypable _
    (h [] [] Pres.Refute.t0 Pres.Refute.t1 Pres.Refute.T0 Pres.Refute.t0_hf (fun _ hp => by cases hp)
      (fun _ hp => by cases hp) (fun _ _ _ e => by simp at e) (fun _ _ _ e => by simp at e)
      Pres.Refute.t0_typed Pres.Refute.t0_step)

/-- **Subject reduction, corrected.**  `Pres.StepOK Γ Δ t t'` (`Lemmas/PreservationMain.lean`) is `Step t t'`
with the contexts of the redex threaded through (a step inside the first definition of a group happens
under the group's context `pushGroupX ds 0 (Γ, Δ)`), where the rule that unfolds the first definition
`x : ann = d` of a group carries one side condition: the recursive unfolding `let x = d; x` that
`unfoldDef` substitutes (`Pres.selfLet x ann d rest.len`) is well typed in the context of the remaining
group.  Under that condition every step preserves every hole-free type.

What was wrong with `C04_preservation_unrestricted`: `unfoldDef` re-binds `x` in front of the *remaining* group,
whose annotations and definitions have `x` already replaced by the unfolding `U`.  If the type of a later
definition `y` mentions `x`, and `d` uses `y`, then typing `d` under the new binder needs the new
(transparent) variable `x` and `U` to be convertible; they are two fixed points of the same functional
and in general never meet (witness: `x : type = (w : x) -> if y w then int else bool;
y : (x -> bool) = z => true; 0`, which steps to a term that is not typable).  The side condition is
vacuous for group-free terms (`C04_preservation_nolet`) and is what a run of the oracle on `let x = d; x`
establishes.  The type is required to be hole-free because conversion is not stable under weakening in
the presence of holes (`open_ushift_high` fails on holes); without that hypothesis the conclusion holds
for `T` with its holes replaced by `type` (`Pres.preservation_dh`). -/
def C04_preservation_fixed_stmt : Prop :=
  ∀ (Γ : TCtxX) (Δ : DCtxX) (t t' T : Tm), t.holeFree = true → T.holeFree = true →
    (∀ p ∈ Γ, p.1.holeFree = true) → (∀ p ∈ Δ, ∀ d o, p = some (d, o) → d.holeFree = true) →
    (∀ i ty off, Γ[i]? = some (ty, off) → off ≤ i + 1) →
    (∀ i d off, Δ[i]? = some (some (d, off)) → off ≤ i + 1) →
    HasType Γ Δ t T → Pres.StepOK Γ Δ t t' → HasType Γ Δ t' T
theorem C04_preservation_fixed : C04_preservation_fixed_stmt :=
  fun _ _ _ _ _ ht hTy hΓ hΔ hO hW h hs => Pres.preservation ht hTy hΓ hΔ hO hW h hs

/-- `Pres.StepOK` is `Step` with extra premises, and on group-free terms it is all of `Step`. -/
def C04_stepOK_step_stmt : Prop :=
  (∀ (Γ : TCtxX) (Δ : DCtxX) (t t' : Tm), Pres.StepOK Γ Δ t t' → Step t t') ∧
  (∀ (Γ : TCtxX) (Δ : DCtxX) (t t' : Tm), CheckSound.noLet t = true → Step t t' → Pres.StepOK Γ Δ t t')
theorem C04_stepOK_step : C04_stepOK_step_stmt :=
  ⟨fun _ _ _ _ h => h.step, fun Γ Δ _ _ hn h => Pres.stepOK_of_noLet h hn Γ Δ⟩

/-- **Subject reduction for the group-free fragment**: every step of a term without definition groups
preserves every hole-free type (in any hole-free contexts whose offsets are in range). -/
def C04_preservation_nolet_stmt : Prop :=
  ∀ (Γ : TCtxX) (Δ : DCtxX) (t t' T : Tm), t.holeFree = true → T.holeFree = true →
    CheckSound.noLet t = true →
    (∀ p ∈ Γ, p.1.holeFree = true) → (∀ p ∈ Δ, ∀ d o, p = some (d, o) → d.holeFree = true) →
    (∀ i ty off, Γ[i]? = some (ty, off) → off ≤ i + 1) →
    (∀ i d off, Δ[i]? = some (some (d, off)) → off ≤ i + 1) →
    HasType Γ Δ t T → Step t t' → HasType Γ Δ t' T
theorem C04_preservation_nolet : C04_preservation_nolet_stmt :=
  fun Γ Δ _ _ _ ht hTy hn hΓ hΔ hO hW h hs =>
    Pres.preservation ht hTy hΓ hΔ hO hW h (Pres.stepOK_of_noLet hs hn Γ Δ)

/-- **Canonical forms under the declarative rules**: a closed value whose type is convertible with `int` is
an integer literal, with `bool` is `true` or `false`, with a function type is a function, with `type` is a
type former.  (This is where consistency of conversion — `int`, `bool`, `type` and function types are
pairwise inconvertible — is needed.) -/
def C04_canonical_forms_declarative_stmt : Prop :=
  ∀ (v T : Tm), isValue v = true → v.holeFree = true → HasType [] [] v T →
    (Conv [] T .int → ∃ n, v = .lit n) ∧
    (Conv [] T .bool → v = .tt ∨ v = .ff) ∧
    (∀ x im d c, Conv [] T (.pi x im d c) → ∃ y jm e b, v = .lam y jm e b) ∧
    (Conv [] T .type → v = .type ∨ v = .int ∨ v = .bool ∨ ∃ x im d c, v = .pi x im d c)
theorem C04_canonical_forms_declarative : C04_canonical_forms_declarative_stmt :=
  fun _ _ hv _ ht =>
    ⟨fun hc => Canonical.canonical_int Canonical.DWF_nil hv ht hc,
     fun hc => Canonical.canonical_bool Canonical.DWF_nil hv ht hc,
     fun _ _ _ _ hc => Canonical.canonical_pi Canonical.DWF_nil hv ht hc,
     fun hc => Canonical.canonical_type Canonical.DWF_nil hv ht hc⟩

/-- **C04 on the group-free fragment.**  If the model of gram's checker accepts a closed hole-free group-free
program with (zonked) type `zty`, and running it `n` steps reaches a value `v`, then `v` has type `zty` under the
declarative rules — hence (canonical forms) a program of type `int` yields an integer literal, of type `bool` a
boolean, of a function type a function, of type `type` a type. -/
def C04_value_inhabits_type_nolet_stmt : Prop :=
  ∀ (fuel n : Nat) (t e ty zty : Tm) (s : St), t.holeFree = true → wellScoped 0 t = true →
    CheckSound.noLet t = true → inferS fuel t {} = .ok (e, ty) s → s.nerrs = 0 →
    zonk fuel s.store ty = some zty → isValue (evalFuel n t) = true →
    HasType [] [] (evalFuel n t) zty ∧
    (Conv [] zty .int → ∃ k, evalFuel n t = .lit k) ∧
    (Conv [] zty .bool → evalFuel n t = .tt ∨ evalFuel n t = .ff)
theorem C04_value_inhabits_type_nolet : C04_value_inhabits_type_nolet_stmt :=
  fun fuel n t e ty zty s ht _ hnl h hn hz hv =>
    SoundRun.value_inhabits_type_nolet fuel n t e ty zty s ht hnl h hn hz hv

/-- The hypotheses of `C04_value_inhabits_type_nolet` are satisfiable on a non-trivial program (checked by the
kernel): `((a : type) => (x : a) => x) int 3` is hole-free, closed, group-free, accepted without diagnostics with
zonked type `int` (fuel 40), and 5 steps of evaluation reach a value — the literal `3`, as the theorem predicts
for type `int`. -/
example : ∃ (fuel n : Nat) (t e ty zty : Tm) (s : St), t.holeFree = true ∧ wellScoped 0 t = true ∧
    CheckSound.noLet t = true ∧ inferS fuel t {} = .ok (e, ty) s ∧ s.nerrs = 0 ∧
    zonk fuel s.store ty = some zty ∧ isValue (evalFuel n t) = true ∧
    t = .app (.app (.lam 1 false .type (.lam 2 false (.var 1 0) (.var 2 0))) .int) (.lit 3) ∧
    zty = .int ∧ evalFuel n t = .lit 3 :=
  let ⟨e, ty, s, h1, h2, h3, h4, h5, h6, h7, h8⟩ := SoundRun.demoOK_spec SoundRun.idProg_ok
  ⟨40, 5, SoundRun.idProg, e, ty, .int, s, h1, h2, h3, h4, h5, h6, h7, rfl, rfl, h8⟩

/-- The theorem instantiated on a program with a higher-order function, a conditional, arithmetic and a
comparison, `((f : int -> int) => (b : bool) => if b then f (2 * 3) else 0 - 1) ((y : int) => y + 1) (1 < 2)`:
its value after 10 steps has type `int` and is an integer literal. -/
example : HasType [] [] (evalFuel 10 SoundRun.iteProg) .int ∧ ∃ k, evalFuel 10 SoundRun.iteProg = .lit k :=
  let ⟨e, ty, s, h1, h2, h3, h4, h5, h6, h7, _⟩ := SoundRun.demoOK_spec SoundRun.iteProg_ok
  let r := C04_value_inhabits_type_nolet 40 10 SoundRun.iteProg e ty .int s h1 h2 h3 h4 h5 h6 h7
  ⟨r.1, r.2.1 (.refl _ _)⟩
