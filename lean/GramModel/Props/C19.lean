import GramModel.Lemmas.Eval
import GramModel.Lemmas.DeBruijn
import GramModel.Check

/-!
# C19 — meaning-preserving rewrites change neither acceptance nor result

The main instrument for this property is the search on the implementation (suite `programs`: every
rewrite kind applied at random sites of every generated program, outcome compared through the real
pipeline).  Proved here: the evaluation-level facts the rewrites rest on, and that binder *names*
never influence any semantic function (so consistent renaming cannot change a result).
-/

-- forget every binder / variable name
mutual
def eraseNames : Tm → Tm
  | .var _ i => .var 0 i
  | .lam _ im d b => .lam 0 im (eraseNames d) (eraseNames b)
  | .pi _ im d b => .pi 0 im (eraseNames d) (eraseNames b)
  | .app f a => .app (eraseNames f) (eraseNames a)
  | .letg ds b => .letg (eraseNamesDefs ds) (eraseNames b)
  | .neg a => .neg (eraseNames a)
  | .bin op a b => .bin op (eraseNames a) (eraseNames b)
  | .ite c a b => .ite (eraseNames c) (eraseNames a) (eraseNames b)
  | t => t
def eraseNamesDefs : Defs → Defs
  | .nil => .nil
  | .cons _ a d r => .cons 0 (eraseNames a) (eraseNames d) (eraseNamesDefs r)
end

/-- `if true then e else e'` evaluates to `e` in one step, `e'` is discarded unevaluated. -/
def C19_if_true_stmt : Prop := ∀ (e e' : Tm), Step (.ite .tt e e') e
theorem C19_if_true : C19_if_true_stmt := fun _ _ => Step.iteT

/-- An immediately applied annotated identity function returns its (value) argument unchanged. -/
def C19_identity_wrap_stmt : Prop :=
  ∀ (x : Name) (im : Bool) (A v : Tm), isValue v = true → Step (.app (.lam x im A (.var x 0)) v) v
theorem C19_identity_wrap : C19_identity_wrap_stmt := by
  intro x im A v hv
  have h := @Step.beta x im A (.var x 0) v hv
  simpa [openT, ushift_zero] using h

/-- An unused value definition is dropped: a group of one value definition whose variable does not
occur in the body evaluates to the body (lowered out of the group). -/
def C19_unused_definition_stmt : Prop :=
  ∀ (x : Name) (ann d b : Tm), isValue d = true →
    Steps (.letg (.cons x ann d .nil) (ushift 0 1 b)) b
theorem C19_unused_definition : C19_unused_definition_stmt := by
  intro x ann d b hv
  have h1 := @Step.letU x ann d .nil (ushift 0 1 b) hv
  simp only [Defs.len_nil, openDefs, open_ushift_cancel] at h1
  exact Steps.head h1 (Steps.head Step.letNil Steps.refl)

/-- Naming a (value) subexpression: `x = v; x` evaluates to the unfolding of `v`, which for a `v`
that does not mention `x` is `v` itself. -/
def C19_name_subexpression_stmt : Prop :=
  ∀ (x : Name) (ann v : Tm), isValue v = true →
    Steps (.letg (.cons x ann (ushift 0 1 v) .nil) (.var x 0)) v
theorem C19_name_subexpression : C19_name_subexpression_stmt := by
  intro x ann v hv
  have hv' : isValue (ushift 0 1 v) = true := by
    cases v <;> simp [isValue, ushift] at hv ⊢
  have h1 := @Step.letU x ann (ushift 0 1 v) .nil (.var x 0) hv'
  simp only [Defs.len_nil, openDefs, openT, unfoldDef, open_ushift_cancel, if_true, ushift_zero] at h1
  exact Steps.head h1 (Steps.head Step.letNil Steps.refl)

/-! ### `eraseNames` commutes with every semantic function (helper lemmas) -/

theorem eraseNamesDefs_len : ∀ (ds : Defs), (eraseNamesDefs ds).len = ds.len
  | .nil => by simp [eraseNamesDefs]
  | .cons _ _ _ r => by simp [eraseNamesDefs, eraseNamesDefs_len r]

mutual
theorem eraseNames_sshift : ∀ (t : Tm) (c : Nat) (amt : Int),
    sshift c amt (eraseNames t) = (sshift c amt t).map eraseNames
  | .var x i, c, amt => by
      simp only [eraseNames, sshift]
      split <;> (try split) <;> simp [eraseNames]
  | .hole id s, c, amt => by
      simp only [eraseNames, sshift]
      split <;> (try split) <;> simp [eraseNames]
  | .lam x im d b, c, amt => by
      simp only [eraseNames, sshift, eraseNames_sshift d c amt, eraseNames_sshift b (c+1) amt]
      cases sshift c amt d <;> simp
      cases sshift (c+1) amt b <;> simp [eraseNames]
  | .pi x im d b, c, amt => by
      simp only [eraseNames, sshift, eraseNames_sshift d c amt, eraseNames_sshift b (c+1) amt]
      cases sshift c amt d <;> simp
      cases sshift (c+1) amt b <;> simp [eraseNames]
  | .app f a, c, amt => by
      simp only [eraseNames, sshift, eraseNames_sshift f c amt, eraseNames_sshift a c amt]
      cases sshift c amt f <;> simp
      cases sshift c amt a <;> simp [eraseNames]
  | .letg ds b, c, amt => by
      simp only [eraseNames, sshift, eraseNamesDefs_len, eraseNamesDefs_sshift ds (c + ds.len) amt,
        eraseNames_sshift b (c + ds.len) amt]
      cases sshiftDefs (c + ds.len) amt ds <;> simp
      cases sshift (c + ds.len) amt b <;> simp [eraseNames]
  | .neg a, c, amt => by
      simp only [eraseNames, sshift, eraseNames_sshift a c amt]
      cases sshift c amt a <;> simp [eraseNames]
  | .bin op a b, c, amt => by
      simp only [eraseNames, sshift, eraseNames_sshift a c amt, eraseNames_sshift b c amt]
      cases sshift c amt a <;> simp
      cases sshift c amt b <;> simp [eraseNames]
  | .ite a b d, c, amt => by
      simp only [eraseNames, sshift, eraseNames_sshift a c amt, eraseNames_sshift b c amt,
        eraseNames_sshift d c amt]
      cases sshift c amt a <;> simp
      cases sshift c amt b <;> simp
      cases sshift c amt d <;> simp [eraseNames]
  | .type, c, amt | .int, c, amt | .bool, c, amt | .tt, c, amt | .ff, c, amt | .lit _, c, amt => by
      simp [sshift, eraseNames]
theorem eraseNamesDefs_sshift : ∀ (ds : Defs) (c : Nat) (amt : Int),
    sshiftDefs c amt (eraseNamesDefs ds) = (sshiftDefs c amt ds).map eraseNamesDefs
  | .nil, c, amt => by simp [sshiftDefs, eraseNamesDefs]
  | .cons x a d r, c, amt => by
      simp only [eraseNamesDefs, sshiftDefs, eraseNames_sshift a c amt, eraseNames_sshift d c amt,
        eraseNamesDefs_sshift r c amt]
      cases sshift c amt a <;> simp
      cases sshift c amt d <;> simp
      cases sshiftDefs c amt r <;> simp [eraseNamesDefs]
end

mutual
theorem eraseNames_ushift : ∀ (t : Tm) (c a : Nat),
    ushift c a (eraseNames t) = eraseNames (ushift c a t)
  | .var x i, c, a => by simp only [eraseNames, ushift]; split <;> simp [eraseNames]
  | .hole id s, c, a => by simp only [eraseNames, ushift]; split <;> simp [eraseNames]
  | .lam x im d b, c, a => by
      simp [eraseNames, ushift, eraseNames_ushift d c a, eraseNames_ushift b (c+1) a]
  | .pi x im d b, c, a => by
      simp [eraseNames, ushift, eraseNames_ushift d c a, eraseNames_ushift b (c+1) a]
  | .app f g, c, a => by simp [eraseNames, ushift, eraseNames_ushift f c a, eraseNames_ushift g c a]
  | .letg ds b, c, a => by
      simp [eraseNames, ushift, eraseNamesDefs_len, eraseNamesDefs_ushift ds (c + ds.len) a,
        eraseNames_ushift b (c + ds.len) a]
  | .neg t, c, a => by simp [eraseNames, ushift, eraseNames_ushift t c a]
  | .bin op t u, c, a => by
      simp [eraseNames, ushift, eraseNames_ushift t c a, eraseNames_ushift u c a]
  | .ite t u v, c, a => by
      simp [eraseNames, ushift, eraseNames_ushift t c a, eraseNames_ushift u c a,
        eraseNames_ushift v c a]
  | .type, c, a | .int, c, a | .bool, c, a | .tt, c, a | .ff, c, a | .lit _, c, a => by
      simp [ushift, eraseNames]
theorem eraseNamesDefs_ushift : ∀ (ds : Defs) (c a : Nat),
    ushiftDefs c a (eraseNamesDefs ds) = eraseNamesDefs (ushiftDefs c a ds)
  | .nil, c, a => by simp [ushiftDefs, eraseNamesDefs]
  | .cons x t u r, c, a => by
      simp [ushiftDefs, eraseNamesDefs, eraseNames_ushift t c a, eraseNames_ushift u c a,
        eraseNamesDefs_ushift r c a]
end

mutual
theorem eraseNames_openT : ∀ (t u : Tm) (i s : Nat),
    openT (eraseNames t) i (eraseNames u) s = eraseNames (openT t i u s)
  | .var x j, u, i, s => by
      simp only [eraseNames, openT]
      split <;> (try split) <;> simp [eraseNames, eraseNames_ushift]
  | .hole id k, u, i, s => by
      simp only [eraseNames, openT]; split <;> simp [eraseNames]
  | .lam x im d b, u, i, s => by
      simp [eraseNames, openT, eraseNames_openT d u i s, eraseNames_openT b u (i+1) (s+1)]
  | .pi x im d b, u, i, s => by
      simp [eraseNames, openT, eraseNames_openT d u i s, eraseNames_openT b u (i+1) (s+1)]
  | .app f a, u, i, s => by
      simp [eraseNames, openT, eraseNames_openT f u i s, eraseNames_openT a u i s]
  | .letg ds b, u, i, s => by
      simp [eraseNames, openT, eraseNamesDefs_len,
        eraseNamesDefs_openDefs ds u (i + ds.len) (s + ds.len),
        eraseNames_openT b u (i + ds.len) (s + ds.len)]
  | .neg a, u, i, s => by simp [eraseNames, openT, eraseNames_openT a u i s]
  | .bin op a b, u, i, s => by
      simp [eraseNames, openT, eraseNames_openT a u i s, eraseNames_openT b u i s]
  | .ite a b c, u, i, s => by
      simp [eraseNames, openT, eraseNames_openT a u i s, eraseNames_openT b u i s,
        eraseNames_openT c u i s]
  | .type, u, i, s | .int, u, i, s | .bool, u, i, s | .tt, u, i, s | .ff, u, i, s
  | .lit _, u, i, s => by simp [openT, eraseNames]
theorem eraseNamesDefs_openDefs : ∀ (ds : Defs) (u : Tm) (i s : Nat),
    openDefs (eraseNamesDefs ds) i (eraseNames u) s = eraseNamesDefs (openDefs ds i u s)
  | .nil, u, i, s => by simp [openDefs, eraseNamesDefs]
  | .cons x a d r, u, i, s => by
      simp [openDefs, eraseNamesDefs, eraseNames_openT a u i s, eraseNames_openT d u i s,
        eraseNamesDefs_openDefs r u i s]
end

theorem eraseNames_isValue (t : Tm) : isValue (eraseNames t) = isValue t := by
  cases t <;> simp [eraseNames, isValue]

theorem eraseNames_unfoldDef (x : Name) (ann d : Tm) (index : Nat) :
    unfoldDef 0 (eraseNames ann) (eraseNames d) index = eraseNames (unfoldDef x ann d index) := by
  have hs : eraseNames (Tm.var x 0) = Tm.var 0 0 := by simp [eraseNames]
  simp only [unfoldDef, ← eraseNames_openT, eraseNames, eraseNamesDefs, ← eraseNames_ushift]

theorem eraseNames_delta (op : BinOp) (a b : Int) :
    (delta op a b).map eraseNames = delta op a b := by
  cases op <;> simp [delta, eraseNames] <;> split <;> simp [eraseNames]

theorem eraseNames_step : ∀ (t : Tm), step (eraseNames t) = (step t).map eraseNames
  | .app f a => by
      have ihf := eraseNames_step f
      have iha := eraseNames_step a
      simp only [eraseNames, step, ihf, iha, eraseNames_isValue]
      cases step f <;> simp [eraseNames]
      cases isValue f <;> simp
      cases step a <;> simp [eraseNames]
      cases isValue a <;> simp
      cases f <;> simp [eraseNames, eraseNames_openT]
  | .letg .nil body => by simp [eraseNames, eraseNamesDefs, step]
  | .letg (.cons x ann d rest) body => by
      have ihd := eraseNames_step d
      simp only [eraseNames, eraseNamesDefs, step, ihd, eraseNames_isValue, eraseNamesDefs_len]
      cases step d <;> simp [eraseNames, eraseNamesDefs]
      cases isValue d <;> simp
      rw [eraseNames_unfoldDef x ann d rest.len, eraseNames_openT, eraseNamesDefs_openDefs]
      simp only [eraseNames]
  | .neg a => by
      have iha := eraseNames_step a
      simp only [eraseNames, step, iha, eraseNames_isValue]
      cases step a <;> simp [eraseNames]
      cases isValue a <;> simp
      cases a <;> simp [eraseNames]
  | .bin op a b => by
      have iha := eraseNames_step a
      have ihb := eraseNames_step b
      simp only [eraseNames, step, iha, ihb, eraseNames_isValue]
      cases step a <;> simp [eraseNames]
      cases isValue a <;> simp
      cases step b <;> simp [eraseNames]
      cases isValue b <;> simp
      cases a <;> cases b <;> simp [eraseNames, eraseNames_delta]
  | .ite c t e => by
      have ihc := eraseNames_step c
      simp only [eraseNames, step, ihc, eraseNames_isValue]
      cases step c <;> simp [eraseNames]
      cases isValue c <;> simp
      cases c <;> simp [eraseNames]
  | .hole .. | .type | .int | .bool | .tt | .ff | .lit _ | .var .. | .lam .. | .pi .. => by
      simp [eraseNames, step]

theorem eraseNames_evalFuel : ∀ (n : Nat) (t : Tm),
    evalFuel n (eraseNames t) = eraseNames (evalFuel n t)
  | 0, t => by simp [evalFuel]
  | n+1, t => by
      simp only [evalFuel, eraseNames_step]
      cases step t <;> simp [eraseNames_evalFuel n]

/-- Names never influence shifting, opening, values or evaluation: every semantic function commutes
with forgetting names.  (Two programs that differ by a consistent renaming of bound variables have
the same de Bruijn term up to names, hence the same behaviour.) -/
def C19_names_irrelevant_shift_stmt : Prop :=
  ∀ (t : Tm) (c : Nat) (amt : Int), sshift c amt (eraseNames t) = (sshift c amt t).map eraseNames
theorem C19_names_irrelevant_shift : C19_names_irrelevant_shift_stmt := eraseNames_sshift
def C19_names_irrelevant_open_stmt : Prop :=
  ∀ (t u : Tm) (i s : Nat), openT (eraseNames t) i (eraseNames u) s = eraseNames (openT t i u s)
theorem C19_names_irrelevant_open : C19_names_irrelevant_open_stmt := eraseNames_openT
def C19_names_irrelevant_step_stmt : Prop :=
  ∀ (t : Tm), step (eraseNames t) = (step t).map eraseNames
theorem C19_names_irrelevant_step : C19_names_irrelevant_step_stmt := eraseNames_step
def C19_names_irrelevant_eval_stmt : Prop :=
  ∀ (n : Nat) (t : Tm), evalFuel n (eraseNames t) = eraseNames (evalFuel n t)
theorem C19_names_irrelevant_eval : C19_names_irrelevant_eval_stmt := eraseNames_evalFuel
