import GramModel.Lemmas.Eval
import GramModel.Lemmas.DeBruijn
import GramModel.Check
import GramModel.Oracle
import GramModel.Typing
import GramModel.Lemmas.RewriteTyping
import GramModel.Lemmas.RewriteMore
import GramModel.Lemmas.ResolveRename
import GramModel.Lemmas.ResolveLayout
import GramModel.Lemmas.ParenTokens

/-!
# C19 — meaning-preserving rewrites change neither acceptance nor result

The main instrument for this property is the search on the implementation (suite `programs`: every
rewrite kind applied at random sites of every generated program, outcome compared through the real
pipeline).  Proved here: the evaluation-level facts the rewrites rest on, and that binder *names*
never influence any semantic function (so consistent renaming cannot change a result).
-/

-- forget every binder / variable name
mutual
def eraseNames : Tm → Tm
  | .var _ i => .var 0 i
  | .lam _ im d b => .lam 0 im (eraseNames d) (eraseNames b)
  | .pi _ im d b => .pi 0 im (eraseNames d) (eraseNames b)
  | .app f a => .app (eraseNames f) (eraseNames a)
  | .letg ds b => .letg (eraseNamesDefs ds) (eraseNames b)
  | .neg a => .neg (eraseNames a)
  | .bin op a b => .bin op (eraseNames a) (eraseNames b)
  | .ite c a b => .ite (eraseNames c) (eraseNames a) (eraseNames b)
  | t => t
def eraseNamesDefs : Defs → Defs
  | .nil => .nil
  | .cons _ a d r => .cons 0 (eraseNames a) (eraseNames d) (eraseNamesDefs r)
end

/-- `if true then e else e'` evaluates to `e` in one step, `e'` is discarded unevaluated. -/
def C19_if_true_stmt : Prop := ∀ (e e' : Tm), Step (.ite .tt e e') e
theorem C19_if_true : C19_if_true_stmt := fun _ _ => Step.iteT

/-- An immediately applied annotated identity function returns its (value) argument unchanged. -/
def C19_identity_wrap_stmt : Prop :=
  ∀ (x : Name) (im : Bool) (A v : Tm), isValue v = true → Step (.app (.lam x im A (.var x 0)) v) v
theorem C19_identity_wrap : C19_identity_wrap_stmt := by
  intro x im A v hv
  have h := @Step.beta x im A (.var x 0) v hv
  simpa [openT, ushift_zero] using h

/-- An unused value definition is dropped: a group of one value definition whose variable does not
occur in the body evaluates to the body (lowered out of the group). -/
def C19_unused_definition_stmt : Prop :=
  ∀ (x : Name) (ann d b : Tm), isValue d = true →
    Steps (.letg (.cons x ann d .nil) (ushift 0 1 b)) b
theorem C19_unused_definition : C19_unused_definition_stmt := by
  intro x ann d b hv
  have h1 := @Step.letU x ann d .nil (ushift 0 1 b) hv
  simp only [Defs.len_nil, openDefs, open_ushift_cancel] at h1
  exact Steps.head h1 (Steps.head Step.letNil Steps.refl)

/-- Naming a (value) subexpression: `x = v; x` evaluates to the unfolding of `v`, which for a `v`
that does not mention `x` is `v` itself. -/
def C19_name_subexpression_stmt : Prop :=
  ∀ (x : Name) (ann v : Tm), isValue v = true →
    Steps (.letg (.cons x ann (ushift 0 1 v) .nil) (.var x 0)) v
theorem C19_name_subexpression : C19_name_subexpression_stmt := by
  intro x ann v hv
  have hv' : isValue (ushift 0 1 v) = true := by
    cases v <;> simp [isValue, ushift] at hv ⊢
  have h1 := @Step.letU x ann (ushift 0 1 v) .nil (.var x 0) hv'
  simp only [Defs.len_nil, openDefs, openT, unfoldDef, open_ushift_cancel, if_true, ushift_zero] at h1
  exact Steps.head h1 (Steps.head Step.letNil Steps.refl)

/-! ### `eraseNames` commutes with every semantic function (helper lemmas) -/

theorem eraseNamesDefs_len : ∀ (ds : Defs), (eraseNamesDefs ds).len = ds.len
  | .nil => by simp [eraseNamesDefs]
  | .cons _ _ _ r => by simp [eraseNamesDefs, eraseNamesDefs_len r]

mutual
theorem eraseNames_sshift : ∀ (t : Tm) (c : Nat) (amt : Int),
    sshift c amt (eraseNames t) = (sshift c amt t).map eraseNames
  | .var x i, c, amt => by
      simp only [eraseNames, sshift]
      split <;> (try split) <;> simp [eraseNames]
  | .hole id s, c, amt => by
      simp only [eraseNames, sshift]
      split <;> (try split) <;> simp [eraseNames]
  | .lam x im d b, c, amt => by
      simp only [eraseNames, sshift, eraseNames_sshift d c amt, eraseNames_sshift b (c+1) amt]
      cases sshift c amt d <;> simp
      cases sshift (c+1) amt b <;> simp [eraseNames]
  | .pi x im d b, c, amt => by
      simp only [eraseNames, sshift, eraseNames_sshift d c amt, eraseNames_sshift b (c+1) amt]
      cases sshift c amt d <;> simp
      cases sshift (c+1) amt b <;> simp [eraseNames]
  | .app f a, c, amt => by
      simp only [eraseNames, sshift, eraseNames_sshift f c amt, eraseNames_sshift a c amt]
      cases sshift c amt f <;> simp
      cases sshift c amt a <;> simp [eraseNames]
  | .letg ds b, c, amt => by
      simp only [eraseNames, sshift, eraseNamesDefs_len, eraseNamesDefs_sshift ds (c + ds.len) amt,
        eraseNames_sshift b (c + ds.len) amt]
      cases sshiftDefs (c + ds.len) amt ds <;> simp
      cases sshift (c + ds.len) amt b <;> simp [eraseNames]
  | .neg a, c, amt => by
      simp only [eraseNames, sshift, eraseNames_sshift a c amt]
      cases sshift c amt a <;> simp [eraseNames]
  | .bin op a b, c, amt => by
      simp only [eraseNames, sshift, eraseNames_sshift a c amt, eraseNames_sshift b c amt]
      cases sshift c amt a <;> simp
      cases sshift c amt b <;> simp [eraseNames]
  | .ite a b d, c, amt => by
      simp only [eraseNames, sshift, eraseNames_sshift a c amt, eraseNames_sshift b c amt,
        eraseNames_sshift d c amt]
      cases sshift c amt a <;> simp
      cases sshift c amt b <;> simp
      cases sshift c amt d <;> simp [eraseNames]
  | .type, c, amt | .int, c, amt | .bool, c, amt | .tt, c, amt | .ff, c, amt | .lit _, c, amt => by
      simp [sshift, eraseNames]
theorem eraseNamesDefs_sshift : ∀ (ds : Defs) (c : Nat) (amt : Int),
    sshiftDefs c amt (eraseNamesDefs ds) = (sshiftDefs c amt ds).map eraseNamesDefs
  | .nil, c, amt => by simp [sshiftDefs, eraseNamesDefs]
  | .cons x a d r, c, amt => by
      simp only [eraseNamesDefs, sshiftDefs, eraseNames_sshift a c amt, eraseNames_sshift d c amt,
        eraseNamesDefs_sshift r c amt]
      cases sshift c amt a <;> simp
      cases sshift c amt d <;> simp
      cases sshiftDefs c amt r <;> simp [eraseNamesDefs]
end

mutual
theorem eraseNames_ushift : ∀ (t : Tm) (c a : Nat),
    ushift c a (eraseNames t) = eraseNames (ushift c a t)
  | .var x i, c, a => by simp only [eraseNames, ushift]; split <;> simp [eraseNames]
  | .hole id s, c, a => by simp only [eraseNames, ushift]; split <;> simp [eraseNames]
  | .lam x im d b, c, a => by
      simp [eraseNames, ushift, eraseNames_ushift d c a, eraseNames_ushift b (c+1) a]
  | .pi x im d b, c, a => by
      simp [eraseNames, ushift, eraseNames_ushift d c a, eraseNames_ushift b (c+1) a]
  | .app f g, c, a => by simp [eraseNames, ushift, eraseNames_ushift f c a, eraseNames_ushift g c a]
  | .letg ds b, c, a => by
      simp [eraseNames, ushift, eraseNamesDefs_len, eraseNamesDefs_ushift ds (c + ds.len) a,
        eraseNames_ushift b (c + ds.len) a]
  | .neg t, c, a => by simp [eraseNames, ushift, eraseNames_ushift t c a]
  | .bin op t u, c, a => by
      simp [eraseNames, ushift, eraseNames_ushift t c a, eraseNames_ushift u c a]
  | .ite t u v, c, a => by
      simp [eraseNames, ushift, eraseNames_ushift t c a, eraseNames_ushift u c a,
        eraseNames_ushift v c a]
  | .type, c, a | .int, c, a | .bool, c, a | .tt, c, a | .ff, c, a | .lit _, c, a => by
      simp [ushift, eraseNames]
theorem eraseNamesDefs_ushift : ∀ (ds : Defs) (c a : Nat),
    ushiftDefs c a (eraseNamesDefs ds) = eraseNamesDefs (ushiftDefs c a ds)
  | .nil, c, a => by simp [ushiftDefs, eraseNamesDefs]
  | .cons x t u r, c, a => by
      simp [ushiftDefs, eraseNamesDefs, eraseNames_ushift t c a, eraseNames_ushift u c a,
        eraseNamesDefs_ushift r c a]
end

mutual
theorem eraseNames_openT : ∀ (t u : Tm) (i s : Nat),
    openT (eraseNames t) i (eraseNames u) s = eraseNames (openT t i u s)
  | .var x j, u, i, s => by
      simp only [eraseNames, openT]
      split <;> (try split) <;> simp [eraseNames, eraseNames_ushift]
  | .hole id k, u, i, s => by
      simp only [eraseNames, openT]; split <;> simp [eraseNames]
  | .lam x im d b, u, i, s => by
      simp [eraseNames, openT, eraseNames_openT d u i s, eraseNames_openT b u (i+1) (s+1)]
  | .pi x im d b, u, i, s => by
      simp [eraseNames, openT, eraseNames_openT d u i s, eraseNames_openT b u (i+1) (s+1)]
  | .app f a, u, i, s => by
      simp [eraseNames, openT, eraseNames_openT f u i s, eraseNames_openT a u i s]
  | .letg ds b, u, i, s => by
      simp [eraseNames, openT, eraseNamesDefs_len,
        eraseNamesDefs_openDefs ds u (i + ds.len) (s + ds.len),
        eraseNames_openT b u (i + ds.len) (s + ds.len)]
  | .neg a, u, i, s => by simp [eraseNames, openT, eraseNames_openT a u i s]
  | .bin op a b, u, i, s => by
      simp [eraseNames, openT, eraseNames_openT a u i s, eraseNames_openT b u i s]
  | .ite a b c, u, i, s => by
      simp [eraseNames, openT, eraseNames_openT a u i s, eraseNames_openT b u i s,
        eraseNames_openT c u i s]
  | .type, u, i, s | .int, u, i, s | .bool, u, i, s | .tt, u, i, s | .ff, u, i, s
  | .lit _, u, i, s => by simp [openT, eraseNames]
theorem eraseNamesDefs_openDefs : ∀ (ds : Defs) (u : Tm) (i s : Nat),
    openDefs (eraseNamesDefs ds) i (eraseNames u) s = eraseNamesDefs (openDefs ds i u s)
  | .nil, u, i, s => by simp [openDefs, eraseNamesDefs]
  | .cons x a d r, u, i, s => by
      simp [openDefs, eraseNamesDefs, eraseNames_openT a u i s, eraseNames_openT d u i s,
        eraseNamesDefs_openDefs r u i s]
end

theorem eraseNames_isValue (t : Tm) : isValue (eraseNames t) = isValue t := by
  cases t <;> simp [eraseNames, isValue]

theorem eraseNames_unfoldDef (x : Name) (ann d : Tm) (index : Nat) :
    unfoldDef 0 (eraseNames ann) (eraseNames d) index = eraseNames (unfoldDef x ann d index) := by
  have hs : eraseNames (Tm.var x 0) = Tm.var 0 0 := by simp [eraseNames]
  simp only [unfoldDef, ← eraseNames_openT, eraseNames, eraseNamesDefs, ← eraseNames_ushift]

theorem eraseNames_delta (op : BinOp) (a b : Int) :
    (delta op a b).map eraseNames = delta op a b := by
  cases op <;> simp [delta, eraseNames] <;> split <;> simp [eraseNames]

theorem eraseNames_step : ∀ (t : Tm), step (eraseNames t) = (step t).map eraseNames
  | .app f a => by
      have ihf := eraseNames_step f
      have iha := eraseNames_step a
      simp only [eraseNames, step, ihf, iha, eraseNames_isValue]
      cases step f <;> simp [eraseNames]
      cases isValue f <;> simp
      cases step a <;> simp [eraseNames]
      cases isValue a <;> simp
      cases f <;> simp [eraseNames, eraseNames_openT]
  | .letg .nil body => by simp [eraseNames, eraseNamesDefs, step]
  | .letg (.cons x ann d rest) body => by
      have ihd := eraseNames_step d
      simp only [eraseNames, eraseNamesDefs, step, ihd, eraseNames_isValue, eraseNamesDefs_len]
      cases step d <;> simp [eraseNames, eraseNamesDefs]
      cases isValue d <;> simp
      rw [eraseNames_unfoldDef x ann d rest.len, eraseNames_openT, eraseNamesDefs_openDefs]
      simp only [eraseNames]
  | .neg a => by
      have iha := eraseNames_step a
      simp only [eraseNames, step, iha, eraseNames_isValue]
      cases step a <;> simp [eraseNames]
      cases isValue a <;> simp
      cases a <;> simp [eraseNames]
  | .bin op a b => by
      have iha := eraseNames_step a
      have ihb := eraseNames_step b
      simp only [eraseNames, step, iha, ihb, eraseNames_isValue]
      cases step a <;> simp [eraseNames]
      cases isValue a <;> simp
      cases step b <;> simp [eraseNames]
      cases isValue b <;> simp
      cases a <;> cases b <;> simp [eraseNames, eraseNames_delta]
  | .ite c t e => by
      have ihc := eraseNames_step c
      simp only [eraseNames, step, ihc, eraseNames_isValue]
      cases step c <;> simp [eraseNames]
      cases isValue c <;> simp
      cases c <;> simp [eraseNames]
  | .hole .. | .type | .int | .bool | .tt | .ff | .lit _ | .var .. | .lam .. | .pi .. => by
      simp [eraseNames, step]

theorem eraseNames_evalFuel : ∀ (n : Nat) (t : Tm),
    evalFuel n (eraseNames t) = eraseNames (evalFuel n t)
  | 0, t => by simp [evalFuel]
  | n+1, t => by
      simp only [evalFuel, eraseNames_step]
      cases step t <;> simp [eraseNames_evalFuel n]

/-- Names never influence shifting, opening, values or evaluation: every semantic function commutes
with forgetting names.  (Two programs that differ by a consistent renaming of bound variables have
the same de Bruijn term up to names, hence the same behaviour.) -/
def C19_names_irrelevant_shift_stmt : Prop :=
  ∀ (t : Tm) (c : Nat) (amt : Int), sshift c amt (eraseNames t) = (sshift c amt t).map eraseNames
theorem C19_names_irrelevant_shift : C19_names_irrelevant_shift_stmt := eraseNames_sshift
def C19_names_irrelevant_open_stmt : Prop :=
  ∀ (t u : Tm) (i s : Nat), openT (eraseNames t) i (eraseNames u) s = eraseNames (openT t i u s)
theorem C19_names_irrelevant_open : C19_names_irrelevant_open_stmt := eraseNames_openT
def C19_names_irrelevant_step_stmt : Prop :=
  ∀ (t : Tm), step (eraseNames t) = (step t).map eraseNames
theorem C19_names_irrelevant_step : C19_names_irrelevant_step_stmt := eraseNames_step
def C19_names_irrelevant_eval_stmt : Prop :=
  ∀ (n : Nat) (t : Tm), evalFuel n (eraseNames t) = eraseNames (evalFuel n t)
theorem C19_names_irrelevant_eval : C19_names_irrelevant_eval_stmt := eraseNames_evalFuel

/-! ### `eraseNames` commutes with the independent checker (helper lemmas for `C19_typing_names`) -/

section NamesOracle
open FuelLemmas OracleLemmas RewriteTyping

mutual
theorem eraseX_eraseNames : ∀ (t : Tm), eraseX (eraseNames t) = eraseX t
  | .var _ _ | .hole _ _ | .type | .int | .bool | .tt | .ff | .lit _ => by simp [eraseNames, eraseX]
  | .lam _ _ d b => by simp [eraseNames, eraseX, eraseX_eraseNames b]
  | .pi _ _ d b => by simp [eraseNames, eraseX, eraseX_eraseNames d, eraseX_eraseNames b]
  | .app f a => by simp [eraseNames, eraseX, eraseX_eraseNames f, eraseX_eraseNames a]
  | .letg ds b => by simp [eraseNames, eraseX, eraseDefsX_eraseNames ds, eraseX_eraseNames b]
  | .neg a => by simp [eraseNames, eraseX, eraseX_eraseNames a]
  | .bin _ a b => by simp [eraseNames, eraseX, eraseX_eraseNames a, eraseX_eraseNames b]
  | .ite c a b => by
      simp [eraseNames, eraseX, eraseX_eraseNames c, eraseX_eraseNames a, eraseX_eraseNames b]
theorem eraseDefsX_eraseNames : ∀ (ds : Defs), eraseDefsX (eraseNamesDefs ds) = eraseDefsX ds
  | .nil => by simp [eraseNamesDefs, eraseDefsX]
  | .cons _ a d r => by
      simp [eraseNamesDefs, eraseDefsX, eraseX_eraseNames d, eraseDefsX_eraseNames r]
end

theorem sameX_eraseNames (a b : Tm) : sameX (eraseNames a) (eraseNames b) = sameX a b := by
  rw [Bool.eq_iff_iff, sameX_iff, sameX_iff, eraseX_eraseNames, eraseX_eraseNames]

theorem eraseNames_letAllX : ∀ (f : Nat) (ds : Defs) (b : Tm),
    letAllX f (eraseNamesDefs ds) (eraseNames b) = (letAllX f ds b).map eraseNames
  | 0, _, _ => by simp [letAllX]
  | f+1, .nil, b => by simp [letAllX, eraseNamesDefs]
  | f+1, .cons x a d r, b => by
      simp only [letAllX, eraseNamesDefs, letStepX, eraseNamesDefs_len]
      rw [eraseNames_unfoldDef x a d r.len, eraseNames_openT, eraseNamesDefs_openDefs]
      exact eraseNames_letAllX f _ _

/-- forget the names in a definitions context / a typing context -/
def eraseNamesD (Δ : DCtxX) : DCtxX := Δ.map (Option.map (fun p => (eraseNames p.1, p.2)))
def eraseNamesG (Γ : TCtxX) : TCtxX := Γ.map (fun p => (eraseNames p.1, p.2))

theorem eraseNamesD_cons (e : Option (Tm × Nat)) (Δ : DCtxX) :
    eraseNamesD (e :: Δ) = e.map (fun p => (eraseNames p.1, p.2)) :: eraseNamesD Δ := rfl

theorem eraseNames_whnfX : ∀ (f : Nat) (Δ : DCtxX) (t : Tm),
    whnfX f (eraseNamesD Δ) (eraseNames t) = (whnfX f Δ t).map eraseNames := by
  intro f
  induction f with
  | zero => intro Δ t; simp [whnfX]
  | succ f ih =>
    intro Δ t
    cases t
    case var x i =>
      simp only [eraseNames]
      unfold whnfX
      simp only [eraseNamesD, List.getElem?_map]
      cases hd : Δ[i]? with
      | none => simp
      | some e =>
        cases e with
        | none => simp [eraseNames]
        | some p =>
          obtain ⟨d, off⟩ := p
          simp only [Option.map_some]
          split
          · simp
          · rw [eraseNames_ushift]; exact ih Δ _
    case app g a =>
      simp only [eraseNames]
      unfold whnfX
      simp only [ih Δ g]
      cases whnfX f Δ g with
      | none => simp
      | some g' =>
        cases g' <;> simp only [Option.map_some, eraseNames]
        case lam x im d body => rw [eraseNames_openT]; exact ih Δ _
    case letg ds b =>
      simp only [eraseNames]
      unfold whnfX
      simp only [eraseNames_letAllX]
      cases letAllX (f+1) ds b with
      | none => simp
      | some b' => simp only [Option.map_some]; exact ih Δ _
    case neg a =>
      simp only [eraseNames]
      unfold whnfX
      simp only [ih Δ a]
      cases whnfX f Δ a with
      | none => simp
      | some a' => cases a' <;> simp only [Option.map_some, eraseNames]
    case bin op a b =>
      simp only [eraseNames]
      unfold whnfX
      simp only [ih Δ a, ih Δ b]
      cases whnfX f Δ a with
      | none => simp
      | some a' =>
        cases whnfX f Δ b with
        | none => cases a' <;> simp [eraseNames]
        | some b' =>
          cases a' <;> cases b' <;> simp only [Option.map_some, eraseNames]
          case lit.lit x y =>
            have := eraseNames_delta op x y
            cases hd : delta op x y with
            | none => simp [eraseNames]
            | some r => rw [hd] at this; simp at this; simp [this]
    case ite c a b =>
      simp only [eraseNames]
      unfold whnfX
      simp only [ih Δ c]
      cases whnfX f Δ c with
      | none => simp
      | some c' =>
        cases c' <;> simp only [Option.map_some, eraseNames]
        case tt => exact ih Δ _
        case ff => exact ih Δ _
    all_goals (unfold whnfX; simp [eraseNames])

theorem eraseNames_convX : ∀ (f : Nat) (Δ : DCtxX) (a b : Tm),
    convX f (eraseNamesD Δ) (eraseNames a) (eraseNames b) = convX f Δ a b := by
  intro f
  induction f with
  | zero => intro Δ a b; simp [convX]
  | succ f ih =>
    intro Δ a b
    unfold convX
    rw [sameX_eraseNames, eraseNames_whnfX, eraseNames_whnfX]
    split
    · rfl
    · cases whnfX f Δ a with
      | none => simp
      | some wa =>
        cases whnfX f Δ b with
        | none => simp
        | some wb =>
          have hn : ∀ Δ : DCtxX, (none :: eraseNamesD Δ) = eraseNamesD (none :: Δ) := fun _ => rfl
          cases wa <;> cases wb <;> simp only [Option.map_some, eraseNames, hn, ih]

theorem eraseNames_isTypeX (f : Nat) (Δ : DCtxX) (ty : Tm) :
    isTypeX f (eraseNamesD Δ) (eraseNames ty) = isTypeX f Δ ty := by
  have h := eraseNames_convX f Δ ty .type
  simp only [eraseNames] at h
  unfold isTypeX; rw [h]

theorem eraseNames_expectX (f : Nat) (Δ : DCtxX) (a b : Tm) (e : XErr) :
    expectX f (eraseNamesD Δ) (eraseNames a) (eraseNames b) e = expectX f Δ a b e := by
  unfold expectX; rw [eraseNames_convX]

theorem eraseNamesG_cons (d : Tm) (o : Nat) (Γ : TCtxX) :
    (eraseNames d, o) :: eraseNamesG Γ = eraseNamesG ((d, o) :: Γ) := rfl
theorem eraseNamesD_none (Δ : DCtxX) : none :: eraseNamesD Δ = eraseNamesD (none :: Δ) := rfl
theorem eraseNamesD_some (d : Tm) (o : Nat) (Δ : DCtxX) :
    some (eraseNames d, o) :: eraseNamesD Δ = eraseNamesD (some (d, o) :: Δ) := rfl

theorem eraseNames_pushGroupX_go : ∀ (ds : Defs) (k : Nat) (Γ : TCtxX) (Δ : DCtxX),
    pushGroupX.go (eraseNamesDefs ds) k (eraseNamesG Γ, eraseNamesD Δ) =
      (eraseNamesG (pushGroupX.go ds k (Γ, Δ)).1, eraseNamesD (pushGroupX.go ds k (Γ, Δ)).2)
  | .nil, k, Γ, Δ => by simp [pushGroupX.go, eraseNamesDefs]
  | .cons x a d r, k, Γ, Δ => by
      simp only [pushGroupX.go, eraseNamesDefs, eraseNamesG_cons, eraseNamesD_some]
      exact eraseNames_pushGroupX_go r (k-1) _ _

theorem eraseNames_pushGroupX (ds : Defs) (n : Nat) (Γ : TCtxX) (Δ : DCtxX) :
    pushGroupX (eraseNamesDefs ds) n (eraseNamesG Γ, eraseNamesD Δ) =
      (eraseNamesG (pushGroupX ds n (Γ, Δ)).1, eraseNamesD (pushGroupX ds n (Γ, Δ)).2) := by
  unfold pushGroupX
  rw [eraseNamesDefs_len]
  exact eraseNames_pushGroupX_go ds _ Γ Δ

theorem eraseNames_inferX_aux : ∀ (f : Nat),
    (∀ (Γ : TCtxX) (Δ : DCtxX) (t : Tm),
      inferX f (eraseNamesG Γ) (eraseNamesD Δ) (eraseNames t) = (inferX f Γ Δ t).map eraseNames) ∧
    (∀ (Γ : TCtxX) (Δ : DCtxX) (ds : Defs),
      inferDefsX f (eraseNamesG Γ) (eraseNamesD Δ) (eraseNamesDefs ds) = inferDefsX f Γ Δ ds) := by
  intro f
  induction f with
  | zero =>
    exact ⟨fun _ _ _ => by simp [inferX, Except.map], fun _ _ _ => by simp [inferDefsX]⟩
  | succ f ih =>
    obtain ⟨ih1, ih2⟩ := ih
    constructor
    · intro Γ Δ t
      cases t
      case var x i =>
        simp only [eraseNames]
        unfold inferX
        simp only [eraseNamesG, List.getElem?_map]
        cases Γ[i]? with
        | none => simp [Except.map]
        | some p =>
          obtain ⟨ty, off⟩ := p
          simp only [Option.map_some]
          split <;> simp [Except.map, eraseNames_ushift]
      case lam x im d b =>
        simp only [eraseNames]
        unfold inferX
        simp only [ih1, eraseNamesG_cons, eraseNamesD_none]
        cases inferX f Γ Δ d with
        | error e => rfl
        | ok dty =>
          simp only [Except.map, eraseNames_isTypeX]
          cases isTypeX f Δ dty with
          | error e => rfl
          | ok _ =>
            simp only
            cases inferX f ((d, 0) :: Γ) (none :: Δ) b with
            | error e => rfl
            | ok cod => simp [eraseNames]
      case pi x im d b =>
        simp only [eraseNames]
        unfold inferX
        simp only [ih1, eraseNamesG_cons, eraseNamesD_none]
        cases inferX f Γ Δ d with
        | error e => rfl
        | ok dty =>
          simp only [Except.map, eraseNames_isTypeX]
          cases isTypeX f Δ dty with
          | error e => rfl
          | ok _ =>
            simp only
            cases inferX f ((d, 0) :: Γ) (none :: Δ) b with
            | error e => rfl
            | ok cty =>
              simp only [eraseNames_isTypeX]
              cases isTypeX f (none :: Δ) cty with
              | error e => rfl
              | ok _ => simp [eraseNames]
      case app g a =>
        simp only [eraseNames]
        unfold inferX
        simp only [ih1]
        cases inferX f Γ Δ g with
        | error e => rfl
        | ok gty =>
          simp only [Except.map, eraseNames_whnfX]
          cases whnfX f Δ gty with
          | none => rfl
          | some w =>
            cases w <;> simp only [Option.map_some, eraseNames]
            case pi x im dom cod =>
              cases inferX f Γ Δ a with
              | error e => rfl
              | ok aty =>
                simp only [eraseNames_expectX]
                cases expectX f Δ aty dom .argMismatch with
                | error e => rfl
                | ok _ => simp [eraseNames_openT]
            case hole id sh =>
              cases inferX f Γ Δ a with
              | error e => rfl
              | ok aty => simp [eraseNames]
      case letg ds body =>
        simp only [eraseNames]
        unfold inferX
        simp only [eraseNames_pushGroupX, ih1, ih2]
        cases inferDefsX f (pushGroupX ds 0 (Γ, Δ)).1 (pushGroupX ds 0 (Γ, Δ)).2 ds with
        | error e => rfl
        | ok _ =>
          simp only
          cases inferX f (pushGroupX ds 0 (Γ, Δ)).1 (pushGroupX ds 0 (Γ, Δ)).2 body with
          | error e => rfl
          | ok bty => simp [Except.map, eraseNames]
      case neg a =>
        simp only [eraseNames]
        unfold inferX
        simp only [ih1]
        cases inferX f Γ Δ a with
        | error e => rfl
        | ok aty =>
          have h := eraseNames_expectX f Δ aty .int .notInt
          simp only [eraseNames] at h
          simp only [Except.map, h]
          cases expectX f Δ aty .int .notInt with
          | error e => rfl
          | ok _ => simp [eraseNames]
      case bin op a b =>
        simp only [eraseNames]
        unfold inferX
        simp only [ih1]
        cases inferX f Γ Δ a with
        | error e => rfl
        | ok aty =>
          have h := eraseNames_expectX f Δ aty .int .notInt
          simp only [eraseNames] at h
          simp only [Except.map, h]
          cases expectX f Δ aty .int .notInt with
          | error e => rfl
          | ok _ =>
            simp only
            cases inferX f Γ Δ b with
            | error e => rfl
            | ok bty =>
              have h := eraseNames_expectX f Δ bty .int .notInt
              simp only [eraseNames] at h
              simp only [h]
              cases expectX f Δ bty .int .notInt with
              | error e => rfl
              | ok _ => cases op <;> simp [eraseNames]
      case ite c a b =>
        simp only [eraseNames]
        unfold inferX
        simp only [ih1]
        cases inferX f Γ Δ c with
        | error e => rfl
        | ok cty =>
          have h := eraseNames_expectX f Δ cty .bool .notBool
          simp only [eraseNames] at h
          simp only [Except.map, h]
          cases expectX f Δ cty .bool .notBool with
          | error e => rfl
          | ok _ =>
            simp only
            cases inferX f Γ Δ a with
            | error e => rfl
            | ok aty =>
              simp only
              cases inferX f Γ Δ b with
              | error e => rfl
              | ok bty =>
                simp only [eraseNames_expectX]
                cases expectX f Δ aty bty .branches with
                | error e => rfl
                | ok _ => rfl
      all_goals (unfold inferX; simp [eraseNames, Except.map])
    · intro Γ Δ ds
      cases ds
      case nil => unfold inferDefsX; simp [eraseNamesDefs]
      case cons x ann d r =>
        simp only [eraseNamesDefs]
        unfold inferDefsX
        simp only [ih1, ih2]
        cases inferX f Γ Δ ann with
        | error e => rfl
        | ok annTy =>
          simp only [Except.map, eraseNames_isTypeX]
          cases isTypeX f Δ annTy with
          | error e => rfl
          | ok _ =>
            simp only
            cases inferX f Γ Δ d with
            | error e => rfl
            | ok dty => simp only [eraseNames_expectX]

theorem eraseNames_inferX (f : Nat) (Γ : TCtxX) (Δ : DCtxX) (t : Tm) :
    inferX f (eraseNamesG Γ) (eraseNamesD Δ) (eraseNames t) = (inferX f Γ Δ t).map eraseNames :=
  (eraseNames_inferX_aux f).1 Γ Δ t

end NamesOracle

/-! ## The rewrites do not change what the independent checker accepts -/

open FuelLemmas OracleLemmas RewriteTyping

/-- **Typing is invariant under the rewrites** (for the independent checker, which by `C03_infer_sound`
is the declarative system's algorithm).  For a hole-free term `e` that the checker accepts at type `T`
in hole-free contexts:
* `if true then e else e` is accepted at `T`;
* the annotated identity applied to it, `((x : A) => x) e` with `A` convertible to `T` and itself a type,
  is accepted at a type convertible with `T`;
* with an unused definition in front, `(u : int = n; e↑)`, it is accepted at a type convertible with `T`
  (the group unfolds away);
and names never matter: the checker's answer on a term only depends on the term up to names. -/
def C19_typing_if_true_stmt : Prop :=
  ∀ (f : Nat) (Γ : TCtxX) (Δ : DCtxX) (e T : Tm), inferX f Γ Δ e = .ok T →
    ∃ g, inferX g Γ Δ (.ite .tt e e) = .ok T
theorem C19_typing_if_true : C19_typing_if_true_stmt := by
  intro f Γ Δ e T h
  cases f with
  | zero => simp [inferX] at h
  | succ f =>
    refine ⟨f+2, ?_⟩
    have htt : inferX (f+1) Γ Δ .tt = .ok .bool := by unfold inferX; rfl
    conv => lhs; unfold inferX
    simp only [htt, h, expectX_same (sameX_refl _)]

def C19_typing_identity_stmt : Prop :=
  ∀ (f : Nat) (Γ : TCtxX) (Δ : DCtxX) (x : Name) (e T : Tm), e.holeFree = true → T.holeFree = true →
    (∀ p ∈ Γ, p.1.holeFree = true) → (∀ p ∈ Δ, ∀ d o, p = some (d, o) → d.holeFree = true) →
    inferX f Γ Δ e = .ok T → inferX f Γ Δ T = .ok .type →
    ∃ g T', inferX g Γ Δ (.app (.lam x false T (.var x 0)) e) = .ok T' ∧ Conv Δ T' T
theorem C19_typing_identity : C19_typing_identity_stmt := by
  intro f Γ Δ x e T _ _ _ _ he hT
  cases f with
  | zero => simp [inferX] at he
  | succ f =>
    refine ⟨f+3, T, ?_, .refl _ _⟩
    have hv : inferX (f+1) ((T, 0) :: Γ) (none :: Δ) (.var x 0) = .ok (ushift 0 1 T) := by
      unfold inferX; simp
    have hl : inferX (f+2) Γ Δ (.lam x false T (.var x 0)) = .ok (.pi x false T (ushift 0 1 T)) := by
      conv => lhs; unfold inferX
      simp only [hT, isTypeX_type, hv]
    have hw : whnfX (f+2) Δ (.pi x false T (ushift 0 1 T)) = some (.pi x false T (ushift 0 1 T)) := by
      unfold whnfX; rfl
    have he' := inferX_mono _ _ _ _ _ he (ne_fuel_of_ok rfl)
    conv => lhs; unfold inferX
    simp only [hl, hw, he', expectX_same (sameX_refl _), open_ushift_cancel]

def C19_typing_unused_def_unrestricted : Prop :=
  ∀ (f : Nat) (Γ : TCtxX) (Δ : DCtxX) (u : Name) (n : Int) (e T : Tm), e.holeFree = true →
    (∀ p ∈ Γ, p.1.holeFree = true) → (∀ p ∈ Δ, ∀ d o, p = some (d, o) → d.holeFree = true) →
    inferX f Γ Δ e = .ok T →
    ∃ g T', inferX g Γ Δ (.letg (.cons u .int (.lit n) .nil) (ushift 0 1 e)) = .ok T' ∧ Conv Δ T' T

/-- `C19_typing_unused_def_unrestricted` is FALSE of the model as stated: it quantifies over arbitrary
contexts, including ones no run of the checker can build, whose entries carry an offset that is *out of
range* (`off > i + 1`: "stored deeper than the context is long").  Such an entry is invisible at its
own depth (`scope` error / stuck normalizer) but becomes visible further in: with `off = i + 2`, one
binder further in it is read with lift `0`, so variable `0` of its term refers to *that binder*; after
an insertion in front of the context the same entry sits one position deeper and is read with lift `1`,
so its variable `0` now refers to the inserted definition — the inserted definition is captured.
Witness (an out-of-range entry in `Δ`):
`Γ = [(int, 0)]`, `Δ = [some (x₀, 2)]`, `e = (y : if x₁ == 5 then int else bool = 5; 0)`.  Inside the
group `x₁` unfolds to `y`, i.e. to `5`, the annotation is `int` and `e` is accepted; after inserting
`u = 7` in front, the same entry unfolds to `u`, the annotation is `bool`, and the term is rejected
with `defMismatch` at every fuel. -/
theorem C19_typing_unused_def_refuted : ¬ C19_typing_unused_def_unrestricted := by
  intro H
  let ds : Defs := .cons 1 (.ite (.bin .eq (.var 0 1) (.lit 5)) .int .bool) (.lit 5) .nil
  have h0 : inferX 9 [(.int, 0)] [some (.var 0 0, 2)] (.letg ds (.lit 0)) = .ok (.letg ds .int) := by rfl
  obtain ⟨g, T', h1, _⟩ := H 9 [(.int, 0)] [some (.var 0 0, 2)] 0 7 (.letg ds (.lit 0)) _ rfl
    (by intro p hp; simp only [List.mem_singleton] at hp; subst hp; rfl)
    (by intro p hp d o he; simp only [List.mem_singleton] at hp; subst hp; cases he; rfl) h0
  have h2 : inferX 9 [(.int, 0)] [some (.var 0 0, 2)]
      (.letg (.cons 0 .int (.lit 7) .nil) (ushift 0 1 (.letg ds (.lit 0)))) = .error .defMismatch := by
    rfl
  rcases Nat.le_total g 9 with hle | hle
  · have := FuelLemmas.inferX_mono_le hle h1 (FuelLemmas.ne_fuel_of_ok rfl)
    rw [h2] at this; cases this
  · have := FuelLemmas.inferX_mono_le hle h2 (by intro c; cases c)
    rw [h1] at this; cases this

/-- An out-of-range offset in the *typing* context breaks the statement as well, this time without
changing acceptance: with `Γ = [(x₀, 2)]`, `Δ = [none]`, `e = (y : int = 1; x₁)` the checker computes
`T = (y : int = 1; y)`, and for `(u : int = 2; e↑)` it computes `T' = (u : int = 2; y : int = 1; u)` —
the entry's type `x₀` was captured by `y` before and by `u` after the insertion.  `T` normalises to `1`
and `T'` to `2`; the checker's own conversion test answers `false`.  (That `Conv` itself separates `1`
from `2` would need its consistency — confluence —, which is not proved in this development; hence
this is stated for the algorithm.) -/
def C19_typing_unused_def_ctx_witness_stmt : Prop :=
  let ds : Defs := .cons 1 .int (.lit 1) .nil
  let T : Tm := .letg ds (.var 0 0)
  let T' : Tm := .letg (.cons 7 .int (.lit 2) .nil) (.letg ds (.var 0 1))
  inferX 3 [(.var 0 0, 2)] [none] (.letg ds (.var 0 1)) = .ok T ∧
  inferX 4 [(.var 0 0, 2)] [none]
    (.letg (.cons 7 .int (.lit 2) .nil) (ushift 0 1 (.letg ds (.var 0 1)))) = .ok T' ∧
  whnfX 4 [none] T = some (.lit 1) ∧ whnfX 5 [none] T' = some (.lit 2) ∧
  convX 6 [none] T' T = some false ∧
  (Conv [none] T' T → Conv [none] (.lit 2) (.lit 1))
theorem C19_typing_unused_def_ctx_witness : C19_typing_unused_def_ctx_witness_stmt := by
  refine ⟨by rfl, by rfl, by rfl, by rfl, by rfl, fun h => ?_⟩
  have h1 : whnfX 4 [none] (.letg (.cons 1 .int (.lit 1) .nil) (.var 0 0)) = some (.lit 1) := by rfl
  have h2 : whnfX 5 [none] (.letg (.cons 7 .int (.lit 2) .nil)
      (.letg (.cons 1 .int (.lit 1) .nil) (.var 0 1))) = some (.lit 2) := by rfl
  exact .trans (.symm (TypingSound.whnfX_conv h2)) (.trans h (TypingSound.whnfX_conv h1))

/-- The corrected statement: the offsets of both contexts are in range (`off ≤ i + 1` for the entry at
position `i` — true of every context the checker builds from the empty one: `λ`/`Π` push offset `0`,
a group of `n` definitions pushes offsets `n, …, 1` at positions `n-1, …, 0`).  Then `inferX` is stable
under weakening (`RewriteTyping.inferX_wk`: insert an entry at depth `k`, lift the term at cutoff `k`,
the computed type is lifted), the group with the unused definition gets the type
`(u : int = n; T↑)`, and that unfolds to `T`. -/
def C19_typing_unused_def_fixed_stmt : Prop :=
  ∀ (f : Nat) (Γ : TCtxX) (Δ : DCtxX) (u : Name) (n : Int) (e T : Tm), e.holeFree = true →
    (∀ p ∈ Γ, p.1.holeFree = true) → (∀ p ∈ Δ, ∀ d o, p = some (d, o) → d.holeFree = true) →
    (∀ i ty off, Γ[i]? = some (ty, off) → off ≤ i + 1) →
    (∀ i d off, Δ[i]? = some (some (d, off)) → off ≤ i + 1) →
    inferX f Γ Δ e = .ok T →
    ∃ g T', inferX g Γ Δ (.letg (.cons u .int (.lit n) .nil) (ushift 0 1 e)) = .ok T' ∧ Conv Δ T' T
theorem C19_typing_unused_def_fixed : C19_typing_unused_def_fixed_stmt := by
  intro f Γ Δ u n e T he hΓ hD wΓ wΔ h
  exact ⟨f + 2, _, RewriteTyping.unused_def_infer u n he hΓ hD wΓ wΔ h,
    RewriteTyping.unused_def_conv Δ u .int (.lit n) T⟩

def C19_typing_names_stmt : Prop :=
  ∀ (f : Nat) (Γ : TCtxX) (Δ : DCtxX) (e e' : Tm), eraseNames e = eraseNames e' →
    (inferX f Γ Δ e).toOption.map eraseNames = (inferX f Γ Δ e').toOption.map eraseNames
theorem C19_typing_names : C19_typing_names_stmt := by
  intro f Γ Δ e e' h
  have h1 := eraseNames_inferX f Γ Δ e
  have h2 := eraseNames_inferX f Γ Δ e'
  rw [h] at h1
  rw [h1] at h2
  revert h2
  cases inferX f Γ Δ e <;> cases inferX f Γ Δ e' <;> simp [Except.map, Except.toOption]

/-! ## Naming a subexpression, reordering independent definitions, redundant parentheses

(`Lemmas/RewriteMore.lean`.)  A program `P[s₀]` in which a subexpression `s₀` is named is
`x : A = s₀; b` where `b` is `P` with the variable `x` (index `0`) in place of `s₀`, i.e.
`P[s₀] = openT b 0 s₀ 0`, and the definition is `s₀` lifted over its own name (`ushift 0 1 s₀`). -/

/-- **Naming a subexpression: the two programs are convertible**, in every definitions context and
whether or not `s₀` is a value (unfolding a group is a head reduction of `Conv`). -/
def C19_name_conv_stmt : Prop :=
  ∀ (Δ : DCtxX) (x : Name) (A s₀ b : Tm),
    Conv Δ (.letg (.cons x A (ushift 0 1 s₀) .nil) b) (openT b 0 s₀ 0)
theorem C19_name_conv : C19_name_conv_stmt := RewriteMore.name_conv

/-- the same for a definition that may mention its own name (a recursive function): the group is
convertible with the body in which the variable is replaced by the recursive unfolding `x = s; x` -/
def C19_name_conv_rec_stmt : Prop :=
  ∀ (Δ : DCtxX) (x : Name) (A s b : Tm),
    Conv Δ (.letg (.cons x A s .nil) b) (openT b 0 (unfoldDef x A s 0) 0)
theorem C19_name_conv_rec : C19_name_conv_rec_stmt := RewriteMore.name_conv_gen

/-- **Naming a subexpression: what the evaluator does.**  If the (hole-free) subexpression `s₀`
evaluates to the value `v`, the program `x : A = s₀; b` evaluates to `b[v/x]` (this extends
`C19_name_subexpression`, which is the case `b = x`, `s₀` already a value). -/
def C19_name_eval_stmt : Prop :=
  ∀ (x : Name) (A s₀ v b : Tm), s₀.holeFree = true → Steps s₀ v → isValue v = true →
    Steps (.letg (.cons x A (ushift 0 1 s₀) .nil) b) (openT b 0 v 0)
theorem C19_name_eval : C19_name_eval_stmt := fun _ _ _ _ b hf hs hv => RewriteMore.name_eval b hf hs hv

example : Steps (.letg (.cons 1 .int (ushift 0 1 (.bin .sum (.lit 2) (.lit 3))) .nil)
    (.bin .prod (.var 1 0) (.var 1 0))) (.bin .prod (.lit 5) (.lit 5)) :=
  C19_name_eval 1 .int (.bin .sum (.lit 2) (.lit 3)) (.lit 5) (.bin .prod (.var 1 0) (.var 1 0)) rfl
    (.head (.delta rfl) .refl) rfl

/-- **Naming a subexpression does not change the value printed**: for hole-free `A`, `s₀`, `b`, if one of
the two programs evaluates to a value and the other one to a ground value (an integer literal, `true`,
`false` — what `gram run` prints for a program of type `int` / `bool`), the two results are the same
term.  (By `C19_name_conv`, `steps_conv` and the consistency of conversion on weak head normal forms,
`ConvCoherence.whnf_conv_ground`.) -/
def C19_name_result_stmt : Prop :=
  ∀ (x : Name) (A s₀ b v g : Tm), A.holeFree = true → s₀.holeFree = true → b.holeFree = true →
    ConvCoherence.Ground g → isValue v = true →
    (Steps (.letg (.cons x A (ushift 0 1 s₀) .nil) b) v → Steps (openT b 0 s₀ 0) g → v = g) ∧
    (Steps (openT b 0 s₀ 0) v → Steps (.letg (.cons x A (ushift 0 1 s₀) .nil) b) g → v = g)
theorem C19_name_result : C19_name_result_stmt := by
  intro x A s₀ b v g hA hs hb hg hv
  have hn : (Tm.letg (.cons x A (ushift 0 1 s₀) .nil) b).holeFree = true := by
    simp only [Tm.holeFree, Defs.holeFree, Bool.and_eq_true, WhnfLemmas.ushift_holeFree]
    exact ⟨⟨⟨hA, hs⟩, trivial⟩, hb⟩
  have hi : (openT b 0 s₀ 0).holeFree = true := WhnfLemmas.openT_holeFree _ _ _ _ hb hs
  exact ⟨fun h1 h2 => RewriteMore.conv_results_agree (RewriteMore.name_conv [] x A s₀ b) hn h1 hv h2 hg,
    fun h1 h2 => RewriteMore.conv_results_agree (.symm (RewriteMore.name_conv [] x A s₀ b)) hi h1 hv h2 hg⟩

/-- the same for the fuelled evaluator: whenever both runs end in ground values, these are equal -/
def C19_name_result_eval_stmt : Prop :=
  ∀ (x : Name) (A s₀ b : Tm) (n m : Nat), A.holeFree = true → s₀.holeFree = true → b.holeFree = true →
    ConvCoherence.Ground (evalFuel n (.letg (.cons x A (ushift 0 1 s₀) .nil) b)) →
    ConvCoherence.Ground (evalFuel m (openT b 0 s₀ 0)) →
    evalFuel n (.letg (.cons x A (ushift 0 1 s₀) .nil) b) = evalFuel m (openT b 0 s₀ 0)
theorem C19_name_result_eval : C19_name_result_eval_stmt := by
  intro x A s₀ b n m hA hs hb g1 g2
  have hv : isValue (evalFuel n (.letg (.cons x A (ushift 0 1 s₀) .nil) b)) = true := by
    rcases g1 with ⟨k, e⟩ | e | e <;> rw [e] <;> rfl
  exact (C19_name_result x A s₀ b _ _ hA hs hb g2 hv).1 (evalFuel_steps _ _) (evalFuel_steps _ _)

-- `x : int = 2 + 3; x * x` and `(2 + 3) * (2 + 3)` both print `25`
example : evalFuel 9 (.letg (.cons 1 .int (ushift 0 1 (.bin .sum (.lit 2) (.lit 3))) .nil)
      (.bin .prod (.var 1 0) (.var 1 0))) = .lit 25 ∧
    evalFuel 9 (openT (.bin .prod (.var 1 0) (.var 1 0)) 0 (.bin .sum (.lit 2) (.lit 3)) 0) = .lit 25 := by
  decide

/-- **Naming is strict** (a boundary of the rewrite, reproduced on the real binary): a definition is
evaluated before the body, wherever the named subexpression stood.  `if false then 1 / 0 else 5` prints
`5`; after naming the subexpression `1 / 0`, `x : int = 1 / 0; if false then x else 5` is accepted by
`gram check` at the same type and `gram run` reports that evaluation is stuck (division by zero).  So
the rewrite preserves the printed value only when the named subexpression itself has a value
(`C19_name_eval`) — or, as `C19_name_result` says, whenever both programs do print a value. -/
def C19_name_strict_witness_stmt : Prop :=
  let s₀ : Tm := .bin .quot (.lit 1) (.lit 0)
  let b : Tm := .ite .ff (.var 1 0) (.lit 5)
  let named : Tm := .letg (.cons 1 .int (ushift 0 1 s₀) .nil) b
  evalFuel 3 (openT b 0 s₀ 0) = .lit 5 ∧
  step named = none ∧ isValue named = false ∧ stuckReason named = some .divZero ∧
  (∃ T, inferX 9 [] [] named = .ok T ∧ convX 9 [] T .int = some true) ∧
  inferX 9 [] [] (openT b 0 s₀ 0) = .ok .int
theorem C19_name_strict_witness : C19_name_strict_witness_stmt := by
  refine ⟨by decide, by decide, by decide, by decide, ⟨_, by rfl, by rfl⟩, by rfl⟩

/-- **Naming in a dependent position** (typing side, an instance; no general theorem is proved here).
With `P : int -> type = n => if n == 0 then int else bool`, the program `((y : P 0) => y) 5` and the
program with the subexpression `0` named, `x : int = 0; ((y : P x) => y) 5`, are both accepted by the
independent checker: the conversion test unfolds the definition of `x` (δ is part of `Conv`).  Abstracting
the same occurrence by a *function* instead, `((x : int) => ((y : P x) => y) 5) 0`, is rejected
(`argMismatch`: `x` is opaque).  The real binary agrees on all three.  The general statement
"`HasType Γ Δ (b[s₀/x]) T` and `HasType Γ Δ s₀ A` imply that `x : A = s₀; b` is well typed" (anti-substitution
under a transparent definition) needs uniqueness of types up to `Conv` and an induction over derivations
of substituted terms; it is not proved in this development. -/
def C19_typing_name_dependent_witness_stmt : Prop :=
  let Pdef : Tm := .lam 9 false .int (.ite (.bin .eq (.var 9 0) (.lit 0)) .int .bool)
  let ds : Defs := .cons 1 (.pi 0 false .int .type) Pdef .nil
  let b : Tm := .app (.lam 5 false (.app (.var 1 1) (.var 2 0)) (.var 5 0)) (.lit 5)
  (inferX 30 [] [] (.letg ds (openT b 0 (.lit 0) 0))).toOption.isSome = true ∧
  (inferX 30 [] [] (.letg ds (.letg (.cons 2 .int (ushift 0 1 (.lit 0)) .nil) b))).toOption.isSome = true ∧
  inferX 30 [] [] (.letg ds (.app (.lam 2 false .int b) (.lit 0))) = .error .argMismatch
theorem C19_typing_name_dependent_witness : C19_typing_name_dependent_witness_stmt := by
  refine ⟨by rfl, by rfl, by rfl⟩

/-! ### Reordering two independent definitions

A group of two definitions `x : A₁ = e₁; y : A₂ = e₂; b` whose annotations and definitions mention no
variable of the group (they are lifted over both: `ushift 0 2`), against the group in the other order
with the two variables exchanged in the body (`RewriteMore.swap01 0 b`).  Restriction: the definitions
are closed with respect to the group — in particular not recursive. -/

/-- both orders evaluate (when the definitions are values, e.g. functions) to the same term -/
def C19_reorder_eval_stmt : Prop :=
  ∀ (x y : Name) (A1 e1 A2 e2 b : Tm), b.holeFree = true → isValue e1 = true → isValue e2 = true →
    ∃ r,
      Steps (.letg (.cons x (ushift 0 2 A1) (ushift 0 2 e1) (.cons y (ushift 0 2 A2) (ushift 0 2 e2) .nil)) b) r ∧
      Steps (.letg (.cons y (ushift 0 2 A2) (ushift 0 2 e2) (.cons x (ushift 0 2 A1) (ushift 0 2 e1) .nil))
        (RewriteMore.swap01 0 b)) r
theorem C19_reorder_eval : C19_reorder_eval_stmt := by
  intro x y A1 e1 A2 e2 b hb h1 h2
  refine ⟨_, RewriteMore.twoDefs_eval x y A1 e1 A2 e2 b h1 h2, ?_⟩
  have h := RewriteMore.twoDefs_eval y x A2 e2 A1 e1 (RewriteMore.swap01 0 b) h2 h1
  rwa [RewriteMore.swap_subst b e1 e2 hb] at h

/-- both orders are convertible (values or not), in every definitions context -/
def C19_reorder_conv_stmt : Prop :=
  ∀ (Δ : DCtxX) (x y : Name) (A1 e1 A2 e2 b : Tm), b.holeFree = true →
    Conv Δ
      (.letg (.cons x (ushift 0 2 A1) (ushift 0 2 e1) (.cons y (ushift 0 2 A2) (ushift 0 2 e2) .nil)) b)
      (.letg (.cons y (ushift 0 2 A2) (ushift 0 2 e2) (.cons x (ushift 0 2 A1) (ushift 0 2 e1) .nil))
        (RewriteMore.swap01 0 b))
theorem C19_reorder_conv : C19_reorder_conv_stmt := by
  intro Δ x y A1 e1 A2 e2 b hb
  have h1 := RewriteMore.twoDefs_conv Δ x y A1 e1 A2 e2 b
  have h2 := RewriteMore.twoDefs_conv Δ y x A2 e2 A1 e1 (RewriteMore.swap01 0 b)
  rw [RewriteMore.swap_subst b e1 e2 hb] at h2
  exact .trans h1 (.symm h2)

/-- hence both orders print the same value: if one evaluates to a value and the other to a ground
value, the two coincide (hole-free programs; values or not, recursive or not does not matter here) -/
def C19_reorder_result_stmt : Prop :=
  ∀ (x y : Name) (A1 e1 A2 e2 b v g : Tm), A1.holeFree = true → e1.holeFree = true →
    A2.holeFree = true → e2.holeFree = true → b.holeFree = true →
    ConvCoherence.Ground g → isValue v = true →
    Steps (.letg (.cons x (ushift 0 2 A1) (ushift 0 2 e1) (.cons y (ushift 0 2 A2) (ushift 0 2 e2) .nil)) b) v →
    Steps (.letg (.cons y (ushift 0 2 A2) (ushift 0 2 e2) (.cons x (ushift 0 2 A1) (ushift 0 2 e1) .nil))
      (RewriteMore.swap01 0 b)) g →
    v = g
theorem C19_reorder_result : C19_reorder_result_stmt := by
  intro x y A1 e1 A2 e2 b v g h1 h2 h3 h4 hb hg hv s1 s2
  refine RewriteMore.conv_results_agree (C19_reorder_conv [] x y A1 e1 A2 e2 b hb) ?_ s1 hv s2 hg
  simp only [Tm.holeFree, Defs.holeFree, Bool.and_eq_true, WhnfLemmas.ushift_holeFree]
  exact ⟨⟨⟨h1, h2⟩, ⟨h3, h4⟩, trivial⟩, hb⟩

-- `f = n => n + 1; g = n => n * 2; f (g 3)` in both orders prints `7`
example :
    let f : Tm := .lam 3 false .int (.bin .sum (.var 3 0) (.lit 1))
    let g : Tm := .lam 3 false .int (.bin .prod (.var 3 0) (.lit 2))
    let A : Tm := .pi 0 false .int .int
    let b : Tm := .app (.var 1 1) (.app (.var 2 0) (.lit 3))
    evalFuel 12 (.letg (.cons 1 (ushift 0 2 A) (ushift 0 2 f) (.cons 2 (ushift 0 2 A) (ushift 0 2 g) .nil)) b)
      = .lit 7 ∧
    evalFuel 12 (.letg (.cons 2 (ushift 0 2 A) (ushift 0 2 g) (.cons 1 (ushift 0 2 A) (ushift 0 2 f) .nil))
      (RewriteMore.swap01 0 b)) = .lit 7 ∧
    RewriteMore.swap01 0 b = .app (.var 1 0) (.app (.var 2 1) (.lit 3)) := by
  decide

/-! ### Redundant parentheses (parser level)

In the parser model `parse_group` returns the inner tree's `variant` with the range of the
parentheses, `group = true` and the inner errors (plus a "never closed" error); nothing after the
parse phase looks at a range except to copy it, and the `group` flag is read only by the three
re-association passes. -/

/-- **Parentheses around the whole program**: two surface trees with the same top-level `variant`
(the program and the program in parentheses) are taken by the three re-association passes followed by
name resolution to the same semantic term (`RTm.erase`: ranges forgotten), the same context, the same
hole counter and the same number of errors — or both runs fail. -/
def C19_paren_whole_stmt : Prop :=
  ∀ (t t' : PModel.Src) (depth : Nat) (st : PModel.RState), t'.variant = t.variant →
    (RewriteMore.reassocResolve t' depth st).map RewriteMore.resView =
      (RewriteMore.reassocResolve t depth st).map RewriteMore.resView
theorem C19_paren_whole : C19_paren_whole_stmt := fun _ _ depth st h => RewriteMore.paren_whole h depth st

/-- each single pass, started at the top, only looks at the top node's `variant` -/
def C19_paren_whole_pass_stmt : Prop :=
  ∀ (fam : PModel.Family) (t t' : PModel.Src), t'.variant = t.variant →
    (PModel.reassoc fam none t').map PModel.Src.variant = (PModel.reassoc fam none t).map PModel.Src.variant
theorem C19_paren_whole_pass : C19_paren_whole_pass_stmt := fun fam _ _ h => RewriteMore.reassoc_top' fam h

/-- **Parentheses around an operand that is an atom**: in a node `a ⊕ b` of the family being
re-associated (met with any accumulator, any `group` flag), replacing the right operand `b` — a term
the pass keeps as it is, e.g. an atom, whatever its `group` flag — by `b'` that differs from it only in
ranges / `group` flags / error lists (`strip b' = strip b`: the same atom in parentheses) does not
change the result up to ranges, `group` flags and error lists, provided the left operand `a` is opaque
to the pass: `reassoc fam acc a = (reassoc fam none a).map (reassocTail acc)` — true of atoms
(`RewriteMore.kept_atom`), and of parenthesised chains (`RewriteMore.opaque_grouped`, i.e.
`C07_group_opaque`). -/
def C19_paren_operand_stmt : Prop :=
  ∀ (fam : PModel.Family) (acc : Option (PModel.Src × PModel.Link)) (r : PModel.SourceRange) (g : Bool)
    (o : BinOp) (a b b' : PModel.Src) (es : List PModel.PErr),
    ((fam = .productsAndQuotients ∧ (o = .prod ∨ o = .quot))
      ∨ (fam = .sumsAndDifferences ∧ (o = .sum ∨ o = .diff))) →
    RewriteMore.Kept fam b → RewriteMore.Kept fam b' → RewriteMore.strip b' = RewriteMore.strip b →
    RewriteMore.Opaque fam a →
    (PModel.reassoc fam acc (.mk r g (.bin o a b') es)).map RewriteMore.strip =
      (PModel.reassoc fam acc (.mk r g (.bin o a b) es)).map RewriteMore.strip
theorem C19_paren_operand : C19_paren_operand_stmt :=
  fun fam acc r g o a b b' es ho hb hb' hs ha => RewriteMore.paren_operand fam acc r g o a b b' es ho hb hb' hs ha

/-- the operands the previous theorem is about exist: every atom is kept (hence opaque), every
parenthesised chain of the family is opaque -/
def C19_paren_operand_applies_stmt : Prop :=
  ∀ (fam : PModel.Family) (r : PModel.SourceRange) (g : Bool) (es : List PModel.PErr),
    (∀ n, RewriteMore.Kept fam (.mk r g (.lit n) es)) ∧ (∀ x, RewriteMore.Kept fam (.mk r g (.var x) es)) ∧
    RewriteMore.Kept fam (.mk r g .tt es) ∧ RewriteMore.Kept fam (.mk r g .ff es) ∧
    (∀ t, RewriteMore.Kept fam t → RewriteMore.Opaque fam t) ∧
    (∀ o a b, ((fam = .productsAndQuotients ∧ (o = .prod ∨ o = .quot))
        ∨ (fam = .sumsAndDifferences ∧ (o = .sum ∨ o = .diff))) →
      RewriteMore.Opaque fam (.mk r true (.bin o a b) es))
theorem C19_paren_operand_applies : C19_paren_operand_applies_stmt := by
  intro fam r g es
  refine ⟨fun n => RewriteMore.kept_atom fam r g _ es (by simp),
    fun x => RewriteMore.kept_atom fam r g _ es (by simp),
    RewriteMore.kept_atom fam r g _ es (by simp), RewriteMore.kept_atom fam r g _ es (by simp),
    fun _ h => RewriteMore.opaque_of_kept h, fun o a b ho => RewriteMore.opaque_grouped fam r o a b es ho⟩

section ParenExamples
open PModel

private def lit19 (n : Int) (s e : Nat) (g : Bool) : Src := .mk ⟨s, e⟩ g (.lit n) []
/-- `10 - 5 - 3` as the packrat functions return it (right-nested, ungrouped) -/
private def prog19 : Src :=
  .mk ⟨0, 10⟩ false (.bin .diff (lit19 10 0 2 false)
    (.mk ⟨5, 10⟩ false (.bin .diff (lit19 5 5 6 false) (lit19 3 9 10 false)) [])) []
/-- `(10 - 5 - 3)` : the same variant, the range of the parentheses, `group = true` -/
private def prog19' : Src := .mk ⟨0, 12⟩ true prog19.variant []

-- both become `(10 - 5) - 3`
example : (RewriteMore.reassocResolve prog19 0 ⟨[], [], 0⟩).map RewriteMore.resView =
    some (.bin .diff (.bin .diff (.lit 10) (.lit 5)) (.lit 3), [], 0, 0) := by decide +kernel
example : (RewriteMore.reassocResolve prog19' 0 ⟨[], [], 0⟩).map RewriteMore.resView =
    some (.bin .diff (.bin .diff (.lit 10) (.lit 5)) (.lit 3), [], 0, 0) := by decide +kernel

-- `10 - 5 - 3` against `10 - 5 - (3)`: equal up to ranges and flags, and not `none`
example : (reassoc .sumsAndDifferences none (.mk ⟨0, 12⟩ false (.bin .diff (lit19 10 0 2 false)
      (.mk ⟨5, 12⟩ false (.bin .diff (lit19 5 5 6 false) (lit19 3 9 12 true)) [])) [])).map RewriteMore.strip
    = (reassoc .sumsAndDifferences none prog19).map RewriteMore.strip ∧
    (reassoc .sumsAndDifferences none prog19).isSome = true := ⟨by rfl, by rfl⟩

end ParenExamples

/-! ## Redundant parentheses at TOKEN level: wrapping the whole program

(`Lemmas/ParenTokens.lean`, on top of the completeness of the parser model, `C07_parse_complete`.)
`ParenTokens.wrapParens toks lp rp` is the token array `#[lp] ++ toks ++ #[rp]`. -/

section ParenTokensSection
open PModel

/-- **A parse tree only depends on the tokens of its own segment**: a segment `[a, b)` of `toks` with
parse tree `t` is, `pre.size` tokens further, a segment of `pre ++ toks ++ post` with THE SAME tree (all
source ranges of a parse tree are read off the tokens of the segment). -/
def C19_segment_shift_stmt : Prop :=
  ∀ (toks pre post : Array PTok) (A : NT) (a b : Nat) (t : Src), SegT toks A a b t →
    SegT (pre ++ toks ++ post) A (a + pre.size) (b + pre.size) t
theorem C19_segment_shift : C19_segment_shift_stmt :=
  fun _ pre post _ _ _ _ h => ParenTokens.segT_shift pre post h

/-- **A sentence in parentheses is a sentence**; its parse tree is the sentence's tree with the range
from `(` to `)`, `group = true`, and the same `variant` (the same children, with the same ranges). -/
def C19_paren_sentence_stmt : Prop :=
  ∀ (toks : Array PTok) (t : Src) (lp rp : PTok), lp.kind = .leftParen → rp.kind = .rightParen →
    SegT toks .term 0 toks.size t →
    (ParenTokens.wrapParens toks lp rp).size = toks.size + 2 ∧
    SegT (ParenTokens.wrapParens toks lp rp) .term 0 (toks.size + 2)
      (.mk (rng (ParenTokens.wrapParens toks lp rp) 0 (toks.size + 2)) true t.variant [])
theorem C19_paren_sentence : C19_paren_sentence_stmt := by
  intro toks t lp rp hl hr h
  have hs := ParenTokens.wrapParens_size toks lp rp
  have := ParenTokens.segT_wrap lp rp hl hr h
  rw [hs] at this
  exact ⟨hs, this⟩

/-- `check_definitions` only appends diagnostics to the vector it is given … -/
def C19_check_definitions_appends_stmt : Prop :=
  ∀ (t : RTm) (depth : Nat) (es : List PErr),
    checkDefinitions t depth es = (checkDefinitions t depth []).map (es ++ ·)
theorem C19_check_definitions_appends : C19_check_definitions_appends_stmt :=
  ParenTokens.checkDefinitions_app

/-- … and never reads the source range of the root node. -/
def C19_check_definitions_root_stmt : Prop :=
  ∀ (t t' : RTm) (depth : Nat) (es : List PErr), t'.variant = t.variant →
    checkDefinitions t' depth es = checkDefinitions t depth es
theorem C19_check_definitions_root : C19_check_definitions_root_stmt :=
  fun _ _ depth es h => ParenTokens.checkDefinitions_top h depth es

/-- **Wrapping the whole program in parentheses changes nothing but source ranges** (the whole of
`parse`: parse phase, error collection, the three re-association passes, name resolution against any
parameter context, the definition-order check).  If `toks` is a sentence of the grammar, `parse` gives
on `( toks )` the same outcome as on `toks` up to (`ParenTokens.outView`): the source range of the ROOT
node of the accepted term (`RTm.variant` is compared: the whole resolved term — names, de Bruijn
indices, hole ids, every inner source range — minus the root's range), and the ranges inside the
diagnostics (their NUMBER is compared).  The definition-order verdict is the same. -/
def C19_paren_program_tokens_stmt : Prop :=
  ∀ (toks : Array PTok) (t : Src) (lp rp : PTok) (context : List Name),
    lp.kind = .leftParen → rp.kind = .rightParen → SegT toks .term 0 toks.size t →
    ParenTokens.outView (parseModel (ParenTokens.wrapParens toks lp rp) context) =
      ParenTokens.outView (parseModel toks context)
theorem C19_paren_program_tokens : C19_paren_program_tokens_stmt :=
  fun _ _ lp rp context hl hr h => ParenTokens.paren_program_tokens lp rp hl hr h context

/-- The same with the hypothesis "the parse phase accepts `toks`" (every token consumed, no syntax
error recorded: by `C07_accepted_iff_sentence` that is "`toks` is a sentence"); then the parse phase
accepts `( toks )` too. -/
def C19_paren_program_tokens_accepted_stmt : Prop :=
  ∀ (toks : Array PTok) (lp rp : PTok) (context : List Name),
    lp.kind = .leftParen → rp.kind = .rightParen →
    (∃ r st, runParser toks = some (r, st) ∧ r.next = toks.size ∧ collectErrors r.term = []) →
    (∃ r st, runParser (ParenTokens.wrapParens toks lp rp) = some (r, st) ∧
      r.next = (ParenTokens.wrapParens toks lp rp).size ∧ collectErrors r.term = []) ∧
    ParenTokens.outView (parseModel (ParenTokens.wrapParens toks lp rp) context) =
      ParenTokens.outView (parseModel toks context)
theorem C19_paren_program_tokens_accepted : C19_paren_program_tokens_accepted_stmt :=
  fun _ lp rp context hl hr h => ParenTokens.paren_program_tokens_accepted lp rp hl hr h context

/-- In plain terms: the two programs are accepted together, with resolved terms that differ at most
in the range of the root (in particular the same de Bruijn term, `.erase`); rejected together, with
the same number of diagnostics; panic / run out of the model's fuel together. -/
def C19_paren_program_tokens_plain_stmt : Prop :=
  ∀ (toks : Array PTok) (t : Src) (lp rp : PTok) (context : List Name),
    lp.kind = .leftParen → rp.kind = .rightParen → SegT toks .term 0 toks.size t →
    (∀ r, parseModel toks context = .ok r →
      ∃ r', parseModel (ParenTokens.wrapParens toks lp rp) context = .ok r' ∧
        r'.variant = r.variant ∧ r'.erase = r.erase) ∧
    (∀ r', parseModel (ParenTokens.wrapParens toks lp rp) context = .ok r' →
      ∃ r, parseModel toks context = .ok r ∧ r'.variant = r.variant ∧ r'.erase = r.erase) ∧
    (∀ es, parseModel toks context = .errors es →
      ∃ es', parseModel (ParenTokens.wrapParens toks lp rp) context = .errors es' ∧
        es'.length = es.length) ∧
    (∀ es', parseModel (ParenTokens.wrapParens toks lp rp) context = .errors es' →
      ∃ es, parseModel toks context = .errors es ∧ es'.length = es.length) ∧
    (parseModel (ParenTokens.wrapParens toks lp rp) context = .panic ↔
      parseModel toks context = .panic) ∧
    (parseModel (ParenTokens.wrapParens toks lp rp) context = .outOfFuel ↔
      parseModel toks context = .outOfFuel)
theorem C19_paren_program_tokens_plain : C19_paren_program_tokens_plain_stmt :=
  fun _ _ lp rp context hl hr h => ParenTokens.paren_program_tokens_plain lp rp hl hr h context

/-! ### Non-vacuity: ` f x + 1` against `(f x + 1)`, parameters `f`, `x` -/

/-- the tokens of ` f x + 1` (names `f` = 1, `x` = 2; bytes 1‥8) -/
def C19_fxToks : Array PTok := #[
  ⟨.identifier 1, ⟨1, 2⟩⟩, ⟨.identifier 2, ⟨3, 4⟩⟩, ⟨.plus, ⟨5, 6⟩⟩, ⟨.integerLiteral 1, ⟨7, 8⟩⟩]
def C19_lp : PTok := ⟨.leftParen, ⟨0, 1⟩⟩
def C19_rp : PTok := ⟨.rightParen, ⟨8, 9⟩⟩

/-- ` f x + 1` is accepted, resolves to `f x + 1` with `f`, `x` the two parameters, and is a sentence -/
def C19_fx_plain_stmt : Prop :=
    (∃ r, parseModel C19_fxToks [1, 2] = .ok r ∧
      r.erase = .bin .sum (.app (.var 1 1) (.var 2 0)) (.lit 1)) ∧
    ∃ t, SegT C19_fxToks .term 0 C19_fxToks.size t
theorem C19_fx_plain : C19_fx_plain_stmt :=
  ParenTokens.parseModel_eval C19_fxToks 60 [1, 2] _ (by decide +kernel)

/-- `(f x + 1)`, evaluated on its own: accepted, the same resolved term -/
def C19_fx_wrapped_stmt : Prop :=
    ∃ r, parseModel (ParenTokens.wrapParens C19_fxToks C19_lp C19_rp) [1, 2] = .ok r ∧
      r.erase = .bin .sum (.app (.var 1 1) (.var 2 0)) (.lit 1)
theorem C19_fx_wrapped : C19_fx_wrapped_stmt :=
  (ParenTokens.parseModel_eval (ParenTokens.wrapParens C19_fxToks C19_lp C19_rp) 60 [1, 2] _
    (by decide +kernel)).1

-- the hypotheses of `C19_paren_program_tokens` hold of it, and the theorem gives the second fact from
-- the first
example : ∃ r', parseModel (ParenTokens.wrapParens C19_fxToks C19_lp C19_rp) [1, 2] = .ok r' ∧
    r'.erase = .bin .sum (.app (.var 1 1) (.var 2 0)) (.lit 1) := by
  obtain ⟨⟨r, h1, h2⟩, t, ht⟩ := C19_fx_plain
  obtain ⟨r', h3, _, h4⟩ :=
    (C19_paren_program_tokens_plain C19_fxToks t C19_lp C19_rp [1, 2] rfl rfl ht).1 r h1
  exact ⟨r', h3, h4.trans h2⟩

-- a rejected sentence: without the parameters both programs get two scope diagnostics
example : ∃ es es', parseModel C19_fxToks [] = .errors es ∧
    parseModel (ParenTokens.wrapParens C19_fxToks C19_lp C19_rp) [] = .errors es' ∧
    es'.length = es.length := by
  obtain ⟨_, t, ht⟩ := C19_fx_plain
  have e := C19_paren_program_tokens C19_fxToks t C19_lp C19_rp [] rfl rfl ht
  cases h : parseModel C19_fxToks [] with
  | errors es =>
    rw [h] at e
    obtain ⟨es', h1, h2⟩ := ParenTokens.outView_errors e
    exact ⟨es, es', rfl, h1, h2⟩
  | ok r =>
    exfalso
    obtain ⟨r0, st, hr, ho⟩ := runParser_eval C19_fxToks 60
      (fun r => ParenTokens.okErase (finishParse C19_fxToks [] r.term r.next)) none (by decide +kernel)
    unfold parseModel at h
    rw [hr] at h
    simp only at h
    rw [h] at ho
    cases ho
  | panic =>
    exfalso
    obtain ⟨r0, st, hr, ho⟩ := runParser_eval C19_fxToks 60
      (fun r => (match finishParse C19_fxToks [] r.term r.next with | .errors es => es.length | _ => 0))
      2 (by decide +kernel)
    unfold parseModel at h
    rw [hr] at h
    simp only at h
    rw [h] at ho
    cases ho
  | outOfFuel =>
    exfalso
    obtain ⟨r0, st, hr, ho⟩ := runParser_eval C19_fxToks 60
      (fun r => (match finishParse C19_fxToks [] r.term r.next with | .errors es => es.length | _ => 0))
      2 (by decide +kernel)
    unfold parseModel at h
    rw [hr] at h
    simp only at h
    rw [h] at ho
    cases ho

/-! ### Parentheses around one operand, at token level: kernel-checked instances only

`f x + (1)` and `f (x) + 1` resolve to the same term as `f x + 1` (the general token-level statement
for an operand — a derivation with a distinguished `atom` sub-derivation, followed through the three
passes — is not proved in this development; `C19_paren_operand` is its re-association step). -/

def C19_fx_operand_instances_stmt : Prop :=
    (∃ r, parseModel #[⟨.identifier 1, ⟨0, 1⟩⟩, ⟨.identifier 2, ⟨2, 3⟩⟩, ⟨.plus, ⟨4, 5⟩⟩,
        ⟨.leftParen, ⟨6, 7⟩⟩, ⟨.integerLiteral 1, ⟨7, 8⟩⟩, ⟨.rightParen, ⟨8, 9⟩⟩] [1, 2] = .ok r ∧
      r.erase = .bin .sum (.app (.var 1 1) (.var 2 0)) (.lit 1)) ∧
    (∃ r, parseModel #[⟨.identifier 1, ⟨0, 1⟩⟩, ⟨.leftParen, ⟨2, 3⟩⟩, ⟨.identifier 2, ⟨3, 4⟩⟩,
        ⟨.rightParen, ⟨4, 5⟩⟩, ⟨.plus, ⟨6, 7⟩⟩, ⟨.integerLiteral 1, ⟨8, 9⟩⟩] [1, 2] = .ok r ∧
      r.erase = .bin .sum (.app (.var 1 1) (.var 2 0)) (.lit 1))
theorem C19_fx_operand_instances : C19_fx_operand_instances_stmt :=
  ⟨(ParenTokens.parseModel_eval _ 60 [1, 2] _ (by decide +kernel)).1,
   (ParenTokens.parseModel_eval _ 60 [1, 2] _ (by decide +kernel)).1⟩

/-! ### Parentheses around ONE operand, at token level: what is proved, what is not

Proved: the definition-order check counts its diagnostics from the de Bruijn term alone
(`C19_check_definitions_count`), hence the front-end outcome of a sentence is a function of `resView`
of the three passes + `resolve` on its parse tree (`C19_front_end_of_resView`): every token-level
rewrite statement about two sentences reduces to the tree-level statement about
`RewriteMore.reassocResolve`.  NOT proved (bare statement below): that the parse trees of `… x …` and
`… ( x ) …` are taken to the same `resView` — this needs a congruence of the three passes for trees
that differ in ranges and in the `group` flag of one atom (`C19_paren_operand` is one node of it). -/

/-- **The number of definition-order diagnostics only depends on the de Bruijn term**: two resolved
terms with the same `.erase` (they may differ in every source range), started with error vectors of
the same length, give the same failure or error vectors of the same length. -/
def C19_check_definitions_count_stmt : Prop :=
  ∀ (t u : RTm) (depth : Nat) (e1 e2 : List PErr), t.erase = u.erase → e1.length = e2.length →
    (checkDefinitions t depth e1).map List.length = (checkDefinitions u depth e2).map List.length
theorem C19_check_definitions_count : C19_check_definitions_count_stmt :=
  ParenTokens.checkDefinitions_cnt

/-- **Reduction of token-level rewrites to the passes.**  For ANY two sentences `toks`, `toks'` with
parse trees `t`, `t'`: if the three re-association passes followed by name resolution (from the
initial state of the parameter context) take `t'` and `t` to the same `resView` (de Bruijn term,
context, hole counter, number of scope errors), then `parse` gives the same outcome on both token
arrays up to ranges (`ParenTokens.outE`: the accepted de Bruijn term, or the number of diagnostics, or
panic / out of fuel) — the parse phase by completeness, the definition-order check by
`C19_check_definitions_count`. -/
def C19_front_end_of_resView_stmt : Prop :=
  ∀ (toks toks' : Array PTok) (t t' : Src) (context : List Name),
    SegT toks .term 0 toks.size t → SegT toks' .term 0 toks'.size t' →
    (RewriteMore.reassocResolve t' (initialContext context).length (ParenTokens.st0 context)).map
        RewriteMore.resView =
      (RewriteMore.reassocResolve t (initialContext context).length (ParenTokens.st0 context)).map
        RewriteMore.resView →
    ParenTokens.outE (parseModel toks' context) = ParenTokens.outE (parseModel toks context)
theorem C19_front_end_of_resView : C19_front_end_of_resView_stmt :=
  fun _ _ _ _ context h h' hr => ParenTokens.parseModel_of_resView context h h' hr

-- non-vacuity: ` f x + 1` against `(f x + 1)` satisfy the hypotheses (by `C19_paren_whole`)
example : ParenTokens.outE (parseModel (ParenTokens.wrapParens C19_fxToks C19_lp C19_rp) [1, 2]) =
    ParenTokens.outE (parseModel C19_fxToks [1, 2]) := by
  obtain ⟨_, t, ht⟩ := C19_fx_plain
  exact C19_front_end_of_resView _ _ t _ [1, 2] ht (ParenTokens.segT_wrap C19_lp C19_rp rfl rfl ht)
    (C19_paren_whole t _ _ _ (ParenTokens.wrapTree_variant _ _ _ t))

/-- **NOT PROVED (bare statement).**  Parentheses around one operand: if `toks` is a sentence, the
segment `[a, b)` is an `atom` segment, and the array with that segment in parentheses
(`ParenTokens.spliceParens`, two more tokens) is a sentence too (this excludes an identifier token
used as a binder: `x => y` ↦ `(x) => y`), then `parse` gives the same outcome on both up to ranges.
By `C19_front_end_of_resView` what is missing is the equality of `resView` after the three passes
and `resolve` for the two parse trees. -/
def C19_paren_operand_tokens_stmt : Prop :=
  ∀ (toks : Array PTok) (t t' s : Src) (a b : Nat) (lp rp : PTok) (context : List Name),
    lp.kind = .leftParen → rp.kind = .rightParen →
    SegT toks .term 0 toks.size t → SegT toks .atom a b s →
    SegT (ParenTokens.spliceParens toks a b lp rp) .term 0
      (ParenTokens.spliceParens toks a b lp rp).size t' →
    ParenTokens.outE (parseModel (ParenTokens.spliceParens toks a b lp rp) context) =
      ParenTokens.outE (parseModel toks context)

-- an instance of the unproved statement's conclusion: `f x + 1` ↦ `f ( x ) + 1`
example : ParenTokens.spliceParens C19_fxToks 1 2 ⟨.leftParen, ⟨2, 3⟩⟩ ⟨.rightParen, ⟨4, 5⟩⟩ =
    #[⟨.identifier 1, ⟨1, 2⟩⟩, ⟨.leftParen, ⟨2, 3⟩⟩, ⟨.identifier 2, ⟨3, 4⟩⟩, ⟨.rightParen, ⟨4, 5⟩⟩,
      ⟨.plus, ⟨5, 6⟩⟩, ⟨.integerLiteral 1, ⟨7, 8⟩⟩] := by decide +kernel
example : ∃ r, parseModel (ParenTokens.spliceParens C19_fxToks 1 2 ⟨.leftParen, ⟨2, 3⟩⟩
      ⟨.rightParen, ⟨4, 5⟩⟩) [1, 2] = .ok r ∧
    r.erase = .bin .sum (.app (.var 1 1) (.var 2 0)) (.lit 1) :=
  (ParenTokens.parseModel_eval _ 60 [1, 2] _ (by decide +kernel)).1

/-! ### The re-association step for an argument, and for any opaque operand

Node-level pieces of the missing three-pass congruence (`Lemmas/ParenTokens.lean`). -/

/-- **Parentheses around an argument that is an atom** (`f x` against `f (x)`, the applications pass;
`C19_paren_operand` covers only the two binary-operator passes): in an application node met with any
accumulator and any `group` flag, an argument the pass keeps as it is may be replaced by one that
differs only in ranges / `group` flag / error list, provided the applicand is opaque to the pass (an
atom, or a parenthesised application: what the grammar allows in that position). -/
def C19_paren_argument_stmt : Prop :=
  ∀ (acc : Option (Src × Link)) (r : SourceRange) (g : Bool) (f a a' : Src) (es : List PErr),
    RewriteMore.Kept .applications a → RewriteMore.Kept .applications a' →
    RewriteMore.strip a' = RewriteMore.strip a → RewriteMore.Opaque .applications f →
    (reassoc .applications acc (.mk r g (.app f a') es)).map RewriteMore.strip =
      (reassoc .applications acc (.mk r g (.app f a) es)).map RewriteMore.strip
theorem C19_paren_argument : C19_paren_argument_stmt :=
  fun acc r g f a a' es ha ha' hs hf => ParenTokens.paren_argument acc r g f a a' es ha ha' hs hf

/-- every node that is not a link of the family's chains is opaque to the pass (whatever its `group`
flag), and so is a parenthesised application for the applications pass -/
def C19_opaque_nonfam_stmt : Prop :=
  (∀ (fam : Family) (r : SourceRange) (g : Bool) (v : SrcV) (es : List PErr),
    ParenTokens.famNode fam v = false → RewriteMore.Opaque fam (.mk r g v es)) ∧
  (∀ (r : SourceRange) (f a : Src) (es : List PErr),
    RewriteMore.Opaque .applications (.mk r true (.app f a) es))
theorem C19_opaque_nonfam : C19_opaque_nonfam_stmt :=
  ⟨ParenTokens.opaque_nonfam, ParenTokens.opaque_grouped_app⟩

/-- **Parentheses around any operand that is opaque to the pass** (not only an atom: a node of another
family such as an application under `+`, or a parenthesised chain): the right operand `b` of a chain
node of the family may be replaced by any opaque `b'` that the pass takes to the same result up to
ranges / flags / error lists — e.g. `b` itself in parentheses (`C19_paren_whole_pass`). -/
def C19_paren_operand_opaque_stmt : Prop :=
  ∀ (fam : Family) (acc : Option (Src × Link)) (r : SourceRange) (g : Bool) (o : BinOp)
    (a b b' : Src) (es : List PErr),
    ((fam = .productsAndQuotients ∧ (o = .prod ∨ o = .quot))
      ∨ (fam = .sumsAndDifferences ∧ (o = .sum ∨ o = .diff))) →
    RewriteMore.Opaque fam b → RewriteMore.Opaque fam b' →
    (reassoc fam none b').map RewriteMore.strip = (reassoc fam none b).map RewriteMore.strip →
    RewriteMore.Opaque fam a →
    (reassoc fam acc (.mk r g (.bin o a b') es)).map RewriteMore.strip =
      (reassoc fam acc (.mk r g (.bin o a b) es)).map RewriteMore.strip
theorem C19_paren_operand_opaque : C19_paren_operand_opaque_stmt :=
  fun fam acc r g o a b b' es ho hb hb' hs ha =>
    ParenTokens.paren_operand_opaque fam acc r g o a b b' es ho hb hb' hs ha

section OperandExamples
private def v19 (x : Name) (s e : Nat) (g : Bool) : Src := .mk ⟨s, e⟩ g (.var x) []

-- `f x` against `f (x)` (applications pass, with an accumulator `h`): hypotheses hold, results agree and exist
example : (reassoc .applications (some (v19 3 0 1 false, .app))
      (.mk ⟨2, 7⟩ false (.app (v19 1 2 3 false) (v19 2 4 7 true)) [])).map RewriteMore.strip =
    (reassoc .applications (some (v19 3 0 1 false, .app))
      (.mk ⟨2, 5⟩ false (.app (v19 1 2 3 false) (v19 2 4 5 false)) [])).map RewriteMore.strip :=
  C19_paren_argument _ _ _ _ _ _ _ (RewriteMore.kept_atom _ _ _ _ _ (by simp))
    (RewriteMore.kept_atom _ _ _ _ _ (by simp)) rfl
    (RewriteMore.opaque_of_kept (RewriteMore.kept_atom _ _ _ _ _ (by simp)))
example : (reassoc .applications (some (v19 3 0 1 false, .app))
      (.mk ⟨2, 5⟩ false (.app (v19 1 2 3 false) (v19 2 4 5 false)) [])).isSome = true := by rfl

-- `a + f x` against `a + (f x)` (sums pass): the operand is an application, opaque by `C19_opaque_nonfam`
private def fx19 : Src := .mk ⟨4, 7⟩ false (.app (v19 2 4 5 false) (v19 3 6 7 false)) []
private def fx19' : Src := .mk ⟨4, 9⟩ true (.app (v19 2 5 6 false) (v19 3 7 8 false)) []
example : (reassoc .sumsAndDifferences none
      (.mk ⟨0, 7⟩ false (.bin .sum (v19 1 0 1 false) fx19') [])).map RewriteMore.strip =
    (reassoc .sumsAndDifferences none
      (.mk ⟨0, 7⟩ false (.bin .sum (v19 1 0 1 false) fx19) [])).map RewriteMore.strip :=
  C19_paren_operand_opaque .sumsAndDifferences none ⟨0, 7⟩ false .sum (v19 1 0 1 false) fx19 fx19' []
    (.inr ⟨rfl, .inl rfl⟩)
    (C19_opaque_nonfam.1 .sumsAndDifferences ⟨4, 7⟩ false _ [] (by decide))
    (C19_opaque_nonfam.1 .sumsAndDifferences ⟨4, 9⟩ true _ [] (by decide)) (by rfl)
    (RewriteMore.opaque_of_kept (RewriteMore.kept_atom _ _ _ _ _ (Or.inr (Or.inl ⟨1, rfl⟩))))
end OperandExamples

end ParenTokensSection

/-! ## Consistent renaming of bound variables, at source level

(`Lemmas/ResolveRename.lean`.) -/

section SourceRename
open PModel

mutual
theorem eraseNames_renameTm (ρ : Name → Name) : ∀ (t : Tm), eraseNames (renameTm ρ t) = eraseNames t
  | .var _ _ | .hole _ _ | .type | .int | .bool | .tt | .ff | .lit _ => by
      simp [renameTm, eraseNames]
  | .lam _ _ d b | .pi _ _ d b => by
      simp [renameTm, eraseNames, eraseNames_renameTm ρ d, eraseNames_renameTm ρ b]
  | .app f a => by simp [renameTm, eraseNames, eraseNames_renameTm ρ f, eraseNames_renameTm ρ a]
  | .letg ds b => by
      simp [renameTm, eraseNames, eraseNamesDefs_renameTm ρ ds, eraseNames_renameTm ρ b]
  | .neg a => by simp [renameTm, eraseNames, eraseNames_renameTm ρ a]
  | .bin _ a b => by simp [renameTm, eraseNames, eraseNames_renameTm ρ a, eraseNames_renameTm ρ b]
  | .ite c a b => by
      simp [renameTm, eraseNames, eraseNames_renameTm ρ c, eraseNames_renameTm ρ a,
        eraseNames_renameTm ρ b]
theorem eraseNamesDefs_renameTm (ρ : Name → Name) : ∀ (ds : Defs),
    eraseNamesDefs (renameTmDefs ρ ds) = eraseNamesDefs ds
  | .nil => by simp [renameTmDefs, eraseNamesDefs]
  | .cons _ a d r => by
      simp [renameTmDefs, eraseNamesDefs, eraseNames_renameTm ρ a, eraseNames_renameTm ρ d,
        eraseNamesDefs_renameTm ρ r]
end

/-- **Resolution commutes with a consistent renaming.**  `ρ` is admissible for the program `s` in the
context `c` (`PModel.Admissible`): injective on the names of `s` and the keys of `c`, fixes the
placeholder `_`, renames no name to it.  Then the renamed program in the renamed context
(`renSt ρ`: the keys of the context renamed, the same depths, the same error list and allocator)
resolves exactly when the original does (`none` = the Rust `panic!` on a `ParseError` node), to the
same resolved term with the name annotations renamed (`renameR ρ`: structure, de Bruijn indices,
hole ids and shifts, source ranges identical) and leaves the same state up to the keys of the
context: the IDENTICAL error list (same diagnostics at the same positions), the same allocator. -/
def C19_resolve_rename_stmt : Prop :=
  ∀ (ρ : Name → Name) (s : Src) (depth : Nat) (st : RState), Admissible ρ s st.ctx →
    resolve (renameSrc ρ s) depth (renSt ρ st) =
      (resolve s depth st).map (fun p => (renameR ρ p.1, renSt ρ p.2))
theorem C19_resolve_rename : C19_resolve_rename_stmt := resolve_rename

/-- The same with the names erased: the two programs resolve to the SAME de Bruijn term, report the
same errors and allocate the same holes; the final contexts correspond. -/
def C19_resolve_rename_erased_stmt : Prop :=
  ∀ (ρ : Name → Name) (s : Src) (depth : Nat) (st : RState), Admissible ρ s st.ctx →
    (resolve (renameSrc ρ s) depth (renSt ρ st)).map
        (fun p => (eraseNames p.1.erase, p.2.errors, p.2.nextHole, p.2.ctx)) =
      (resolve s depth st).map
        (fun p => (eraseNames p.1.erase, p.2.errors, p.2.nextHole, renCtx ρ p.2.ctx))
theorem C19_resolve_rename_erased : C19_resolve_rename_erased_stmt := by
  intro ρ s depth st h
  rw [resolve_rename ρ s depth st h]
  cases resolve s depth st with
  | none => rfl
  | some p =>
    simp only [Option.map_some, renSt_errors, renSt_nextHole, renSt_ctx, renameR_erase,
      eraseNames_renameTm]

/-- The resolved terms also have the same source ranges everywhere: with names *renamed* rather
than erased they are equal on the nose, hence `check_definitions` (which reports through those
ranges) gives the same answer on both. -/
def C19_rename_check_definitions_stmt : Prop :=
  ∀ (ρ : Name → Name) (t : RTm) (depth : Nat) (errors : List PErr),
    checkDefinitions (renameR ρ t) depth errors = checkDefinitions t depth errors
theorem C19_rename_check_definitions : C19_rename_check_definitions_stmt := checkDefinitions_rename

/-- **Everything `parse` does after the parse phase commutes with an injective renaming that fixes
the placeholder**: collecting the syntax errors, the three re-association passes (they never look at
a name: `reassoc_rename`), resolution against the renamed initial context, `check_definitions`.  The
outcome is the same: the same list of diagnostics (same positions), the same panic, or the accepted
term with renamed annotations. -/
def C19_rename_finish_parse_stmt : Prop :=
  ∀ (ρ : Name → Name), (∀ x y, ρ x = ρ y → x = y) → ρ placeholder = placeholder →
    ∀ (toks : Array PTok) (context : List Name) (term : Src) (next : Nat),
      finishParse toks (context.map ρ) (renameSrc ρ term) next =
        renOutcome ρ (finishParse toks context term next)
theorem C19_rename_finish_parse : C19_rename_finish_parse_stmt := finishParse_rename

/-- **The pipeline after resolution cannot see the renaming.**  If the original resolves to `r`, the
renamed program resolves to an `r'` such that, names erased: the terms are equal, the independent
checker reports the same type (or rejects both), and every fuel-bounded evaluation gives the same
result; `check_definitions` answers the same on both. -/
def C19_rename_pipeline_stmt : Prop :=
  ∀ (ρ : Name → Name) (s : Src) (depth : Nat) (st : RState) (r : RTm) (st' : RState),
    Admissible ρ s st.ctx → resolve s depth st = some (r, st') →
    ∃ r', resolve (renameSrc ρ s) depth (renSt ρ st) = some (r', renSt ρ st') ∧
      (renSt ρ st').errors = st'.errors ∧
      eraseNames r'.erase = eraseNames r.erase ∧
      (∀ (d : Nat) (es : List PErr), checkDefinitions r' d es = checkDefinitions r d es) ∧
      (∀ (f : Nat) (Γ : TCtxX) (Δ : DCtxX),
        (inferX f Γ Δ r'.erase).toOption.map eraseNames =
          (inferX f Γ Δ r.erase).toOption.map eraseNames) ∧
      (∀ (n : Nat), eraseNames (evalFuel n r'.erase) = eraseNames (evalFuel n r.erase))
theorem C19_rename_pipeline : C19_rename_pipeline_stmt := by
  intro ρ s depth st r st' h hr
  have e := resolve_rename ρ s depth st h
  rw [hr] at e
  have he : eraseNames (renameR ρ r).erase = eraseNames r.erase := by
    rw [renameR_erase, eraseNames_renameTm]
  refine ⟨renameR ρ r, e, rfl, he, fun d es => checkDefinitions_rename ρ r d es, ?_, ?_⟩
  · intro f Γ Δ
    exact C19_typing_names f Γ Δ _ _ he
  · intro n
    rw [← C19_names_irrelevant_eval, ← C19_names_irrelevant_eval, he]

/-! ### A renaming that is not admissible changes the outcome (kernel-checked witnesses) -/

/-- `x => y => x` (names: `x` = 1, `y` = 2), as the parser returns it. -/
def rn19ProgXY : Src :=
  .mk ⟨0, 11⟩ false (.lam ⟨⟨0, 1⟩, 1⟩ false .none
    (.mk ⟨5, 11⟩ false (.lam ⟨⟨5, 6⟩, 2⟩ false .none (.mk ⟨10, 11⟩ false (.var 1) [])) [])) []

/-- `y ↦ x`: not injective on the names of the program. -/
def rn19RhoCapture : Name → Name := fun n => if n = 2 then 1 else n

/-- `(x : int) => x` (name `x` = 1). -/
def rn19ProgId : Src :=
  .mk ⟨0, 14⟩ false (.lam ⟨⟨1, 2⟩, 1⟩ false (.some (.mk ⟨5, 8⟩ false .int []))
    (.mk ⟨13, 14⟩ false (.var 1) [])) []

/-- `x ↦ _`: a name is renamed to the placeholder. -/
def rn19RhoPlaceholder : Name → Name := fun n => if n = 1 then 0 else n

/-- Capture: renaming `y` to `x` in `x => y => x` gives `x => x => x`; the original resolves without
a diagnostic, the renamed program reports "Variable `x` already exists" at the inner binder (the real
`gram check` agrees on both). -/
def C19_rename_capture_witness_stmt : Prop :=
  ¬ Admissible rn19RhoCapture rn19ProgXY [] ∧
  (resolve rn19ProgXY 0 ⟨[], [], 0⟩).map (fun p => p.2.errors) = some [] ∧
  (resolve (renameSrc rn19RhoCapture rn19ProgXY) 0 ⟨[], [], 0⟩).map (fun p => p.2.errors) =
    some [[⟨5, 6⟩]]
theorem C19_rename_capture_witness : C19_rename_capture_witness_stmt := by
  refine ⟨fun h => ?_, by decide +kernel, by decide +kernel⟩
  have := h.inj 1 (by decide +kernel) 2 (by decide +kernel) (by decide)
  exact absurd this (by decide)

/-- Renaming a name to the placeholder: `(x : int) => x` becomes `(_ : int) => _`; no diagnostic
either way, but the body is no longer the bound variable (index 0): it is a fresh unifier (the real
`gram check` reports the type `int -> type` instead of `int -> int`). -/
def C19_rename_placeholder_witness_stmt : Prop :=
  ¬ Admissible rn19RhoPlaceholder rn19ProgId [] ∧
  (resolve rn19ProgId 0 ⟨[], [], 0⟩).map (fun p => (eraseNames p.1.erase, p.2.errors)) =
    some (.lam 0 false .int (.var 0 0), []) ∧
  (resolve (renameSrc rn19RhoPlaceholder rn19ProgId) 0 ⟨[], [], 0⟩).map
      (fun p => (eraseNames p.1.erase, p.2.errors)) =
    some (.lam 0 false .int (.hole 0 0), [])
theorem C19_rename_placeholder_witness : C19_rename_placeholder_witness_stmt := by
  refine ⟨fun h => ?_, by decide +kernel, by decide +kernel⟩
  exact h.nz 1 (by decide +kernel) (by decide) (by decide)

/-- Hence the admissibility hypothesis of `C19_resolve_rename` cannot be dropped. -/
def C19_resolve_rename_unrestricted : Prop :=
  ∀ (ρ : Name → Name) (s : Src) (depth : Nat) (st : RState),
    resolve (renameSrc ρ s) depth (renSt ρ st) =
      (resolve s depth st).map (fun p => (renameR ρ p.1, renSt ρ p.2))
theorem C19_resolve_rename_unrestricted_refuted : ¬ C19_resolve_rename_unrestricted := by
  intro h
  have e := congrArg (Option.map (fun p => p.2.errors))
    (h rn19RhoCapture rn19ProgXY 0 ⟨[], [], 0⟩)
  have w := C19_rename_capture_witness
  rw [show renSt rn19RhoCapture ⟨[], [], 0⟩ = ⟨[], [], 0⟩ from rfl, w.2.2, Option.map_map] at e
  have w1 := w.2.1
  revert e w1
  cases resolve rn19ProgXY 0 ⟨[], [], 0⟩ with
  | none => intro e; simp at e
  | some p => intro e w1; simp at e w1; rw [w1] at e; simp at e

/-! ### Non-vacuity: `(x : int) => (y : int) => x + y` with `x ↦ a`, `y ↦ b` -/

/-- `(x : int) => (y : int) => x + y` (names `x` = 1, `y` = 2). -/
def rn19ProgAdd : Src :=
  .mk ⟨0, 31⟩ false (.lam ⟨⟨1, 2⟩, 1⟩ false (.some (.mk ⟨5, 8⟩ false .int []))
    (.mk ⟨13, 31⟩ false (.lam ⟨⟨14, 15⟩, 2⟩ false (.some (.mk ⟨18, 21⟩ false .int []))
      (.mk ⟨26, 31⟩ false (.bin .sum (.mk ⟨26, 27⟩ false (.var 1) [])
        (.mk ⟨30, 31⟩ false (.var 2) [])) [])) [])) []

/-- `x ↦ a` (3), `y ↦ b` (4), everything else fixed: not injective globally (`a ↦ a`), but
admissible for this program. -/
def rn19RhoAB : Name → Name := fun n => if n = 1 then 3 else if n = 2 then 4 else n

theorem rn19RhoAB_admissible : Admissible rn19RhoAB rn19ProgAdd [] :=
  ⟨by decide +kernel, by decide, by decide +kernel⟩

example : (resolve rn19ProgAdd 0 ⟨[], [], 0⟩).map (fun p => (eraseNames p.1.erase, p.2.errors)) =
    some (.lam 0 false .int (.lam 0 false .int (.bin .sum (.var 0 1) (.var 0 0))), []) := by
  decide +kernel
example : (resolve (renameSrc rn19RhoAB rn19ProgAdd) 0 ⟨[], [], 0⟩).map
      (fun p => (eraseNames p.1.erase, p.2.errors)) =
    some (.lam 0 false .int (.lam 0 false .int (.bin .sum (.var 0 1) (.var 0 0))), []) := by
  decide +kernel
-- the renamed program really has the new names
example : (resolve (renameSrc rn19RhoAB rn19ProgAdd) 0 ⟨[], [], 0⟩).map (fun p => p.1.erase) =
    some (.lam 3 false .int (.lam 4 false .int (.bin .sum (.var 3 1) (.var 4 0)))) := by
  decide +kernel
/-- `x ↔ a`: a permutation, so globally injective. -/
def rn19RhoSwap : Nat → Nat := fun n => if n = 1 then 3 else if n = 3 then 1 else n
theorem rn19RhoSwap_inj : ∀ x y : Nat, rn19RhoSwap x = rn19RhoSwap y → x = y := by
  intro x y h
  unfold rn19RhoSwap at h
  split at h <;> split at h <;> (try split at h) <;> (try split at h) <;> omega
-- the hypotheses of `C19_rename_finish_parse` are satisfiable
example : (∀ x y : Name, rn19RhoSwap x = rn19RhoSwap y → x = y) ∧
    rn19RhoSwap placeholder = placeholder := ⟨rn19RhoSwap_inj, by decide⟩

end SourceRename

/-! ## Name resolution does not depend on layout

(`Lemmas/ResolveLayout.lean`.)  The resolution step of "adding redundant parentheses": parentheses
change only source ranges, `group` flags and recorded-error lists of the surface tree. -/

section ResolveLayout
open PModel

/-- **Layout independence of name resolution.**  Two surface trees that are equal after erasing
source ranges, `group` flags and recorded-error lists (`RewriteMore.strip`) resolve alike from every
state: both panic or neither, and the results show the same semantic term (`RTm.erase`, the resolved
term without ranges: same structure, names, de Bruijn indices, hole ids and shifts), the same final
context, the same hole counter and the same NUMBER of diagnostics (`RewriteMore.resView`; the ranges
of the diagnostics are layout).  In particular `collect_definitions` follows the body chain of nested
lets whatever their `group` flag, and no arm of `resolve_variables` branches on a range, a flag or an
error list. -/
def C19_resolve_layout_independent_stmt : Prop :=
  ∀ (s s' : Src) (depth : Nat) (st : RState), RewriteMore.strip s = RewriteMore.strip s' →
    (resolve s depth st).map RewriteMore.resView = (resolve s' depth st).map RewriteMore.resView
theorem C19_resolve_layout_independent : C19_resolve_layout_independent_stmt :=
  resolve_layout_independent

/-- `x => (y => (x))` with the ranges of that text and `group = true` on the parenthesised nodes -/
private def rn19ProgXYParen : Src :=
  .mk ⟨0, 15⟩ false (.lam ⟨⟨0, 1⟩, 1⟩ false .none
    (.mk ⟨5, 15⟩ true (.lam ⟨⟨6, 7⟩, 2⟩ false .none (.mk ⟨11, 14⟩ true (.var 1) [])) [])) []

-- non-vacuity: the parenthesised program is a different tree with the same `strip`
example : RewriteMore.strip rn19ProgXYParen = RewriteMore.strip rn19ProgXY ∧
    rn19ProgXYParen.range ≠ rn19ProgXY.range := ⟨by rfl, by decide⟩
example : (resolve rn19ProgXYParen 0 ⟨[], [], 0⟩).map RewriteMore.resView =
    some (.lam 1 false (.hole 0 0) (.lam 2 false (.hole 1 0) (.var 1 1)), [], 2, 0) := by
  decide +kernel

end ResolveLayout
