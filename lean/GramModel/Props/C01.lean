import GramModel.Lemmas.Eval
import GramModel.Check
import GramModel.Oracle
import GramModel.Lemmas.Progress
import GramModel.Typing
import GramModel.Lemmas.Canonical
import GramModel.Lemmas.SoundRun
import GramModel.Lemmas.FrontEnd

/-!
# C01 — accepted programs never get stuck (progress)

The full statement ("every accepted program, at every step, is a value, can step, or is at a
division by zero") is **false of the code**: the negation is proved below from concrete accepted
programs (replayed on the real binary by the `pipeline` suite, and recorded as known findings
KF-order and KF-barehole).  What holds without exception is the classification of stuck terms,
which turns "stops only because of a division by zero" into a decidable property of the final term.
-/

/-- A term that neither steps nor is a value is stuck for a classified reason … -/
def C01_stuck_classified_stmt : Prop :=
  ∀ (t : Tm), step t = none → isValue t = false → ∃ r, stuckReason t = some r
theorem C01_stuck_classified : C01_stuck_classified_stmt := stuckReason_complete

/-- … and only such terms are classified as stuck. -/
def C01_classified_is_stuck_stmt : Prop :=
  ∀ (t : Tm) (r : StuckReason), stuckReason t = some r → step t = none ∧ isValue t = false
theorem C01_classified_is_stuck : C01_classified_is_stuck_stmt := stuckReason_sound

/-- Values are never stuck and never step (so "produces a value" and "is stuck" exclude each other). -/
def C01_value_not_stuck_stmt : Prop :=
  ∀ (t : Tm), isValue t = true → step t = none ∧ stuckReason t = none
theorem C01_value_not_stuck : C01_value_not_stuck_stmt := value_not_stuck

/-! ## The full statement is false of the code: witnesses (model side; the same programs are
replayed on the implementation on every run) -/

/-- `x = y + 1; y = 2; x` as the parser produces it (both annotations omitted: holes with shifts
2 and 1) -/
def C01_w_forward : Tm :=
  .letg (.cons 1 (.hole 0 2) (.bin .sum (.var 2 0) (.lit 1)) (.cons 2 (.hole 1 1) (.lit 2) .nil)) (.var 1 1)

def acceptedAndStuck (fuel : Nat) (w : Tm) (cells : Nat) (why : StuckReason) : Bool :=
  match inferS fuel w { store := List.replicate cells none } with
  | .ok (e, _) s => s.nerrs == 0 && (stuckReason (evalFuel fuel e) == some why)
  | _ => false

/-- KF-order: the checker accepts the program (no diagnostics) and evaluation is stuck on a variable. -/
def C01_false_forward_stmt : Prop := acceptedAndStuck 40 C01_w_forward 2 .variable = true
theorem C01_false_forward : C01_false_forward_stmt := by unfold C01_false_forward_stmt; decide

/-- KF-barehole: the program `_` is accepted (type `type`) and is stuck on its hole. -/
def C01_false_barehole_stmt : Prop := acceptedAndStuck 10 (.hole 0 0) 1 .hole = true
theorem C01_false_barehole : C01_false_barehole_stmt := by unfold C01_false_barehole_stmt; decide

/-! ## One-step progress for the independent checker's type system -/

/-- **A well-typed term is never stuck for a kind reason.**  If the independent checker accepts a
hole-free term (in any context) and the term neither steps nor is a value, then it is stuck at a
variable in evaluation position (a definition that is not available yet — the only way a
*closed* accepted program can stop, and exactly the recorded finding KF-order) or at a division by
zero: never at a call of a non-function, arithmetic or comparison on a non-literal, a branch on a
non-boolean, or a hole. -/
def C01_typed_stuck_only_var_or_div_stmt : Prop :=
  ∀ (f : Nat) (Γ : TCtxX) (Δ : DCtxX) (t T : Tm) (r : StuckReason), t.holeFree = true →
    inferX f Γ Δ t = .ok T → stuckReason t = some r → r = .variable ∨ r = .divZero
theorem C01_typed_stuck_only_var_or_div : C01_typed_stuck_only_var_or_div_stmt :=
  fun f Γ Δ t T r hf h hs => OracleLemmas.typed_stuck_only_var_or_div t r hs f Γ Δ T hf h

/-- **Progress, in the usual form.**  A hole-free term accepted by the independent checker is a
value, or takes a step of the call-by-value semantics, or is stuck at a variable in evaluation
position, or is stuck at a division by zero — nothing else. -/
def C01_typed_progress_stmt : Prop :=
  ∀ (f : Nat) (Γ : TCtxX) (Δ : DCtxX) (t T : Tm), t.holeFree = true → inferX f Γ Δ t = .ok T →
    isValue t = true ∨ (∃ t', Step t t') ∨ stuckReason t = some .variable ∨
      stuckReason t = some .divZero
theorem C01_typed_progress : C01_typed_progress_stmt := by
  intro f Γ Δ t T hf h
  cases hv : isValue t with
  | true => exact Or.inl rfl
  | false =>
    cases hs : step t with
    | some t' => exact Or.inr (Or.inl ⟨t', step_sound t t' hs⟩)
    | none =>
      obtain ⟨r, hr⟩ := stuckReason_complete t hs hv
      rcases C01_typed_stuck_only_var_or_div f Γ Δ t T r hf h hr with e | e
      · exact Or.inr (Or.inr (Or.inl (e ▸ hr)))
      · exact Or.inr (Or.inr (Or.inr (e ▸ hr)))

/-! ## Progress for the declarative rules, and type soundness of the checker model on hole-free programs -/

/-- **Progress under the declarative rules.**  A closed hole-free term that is well typed under the rules of
`Typing.lean` is a value, or takes a step, or is stuck at a variable of a definition group that is not
available yet (the recorded finding KF-order), or at a division by zero — never for a kind reason. -/
def C01_declarative_progress_stmt : Prop :=
  ∀ (t T : Tm), t.holeFree = true → HasType [] [] t T →
    isValue t = true ∨ (∃ t', Step t t') ∨ stuckReason t = some .variable ∨ stuckReason t = some .divZero
theorem C01_declarative_progress : C01_declarative_progress_stmt :=
  fun _ _ _ h => Canonical.progress Canonical.DWF_nil h

/-- **Type soundness of gram's checker model on fully annotated programs.**  If the model of the checker
accepts a closed hole-free program without error, then however many steps the program is run, the term
reached is never stuck for a kind reason (call of a non-function, arithmetic/comparison/branching on a value
of the wrong kind, a hole): it is a value, or can step, or is stuck at a not-yet-available definition
(KF-order) or a division by zero. -/
def C01_checker_sound_run_stmt : Prop :=
  ∀ (fuel n : Nat) (t e ty : Tm) (s : St), t.holeFree = true → wellScoped 0 t = true →
    inferS fuel t {} = .ok (e, ty) s → s.nerrs = 0 →
    let r := evalFuel n t
    isValue r = true ∨ (∃ r', Step r r') ∨ stuckReason r = some .variable ∨ stuckReason r = some .divZero

/-- **Type soundness on the group-free fragment** (functions, dependent function types, arithmetic,
comparisons, conditionals — no definition groups).  Subject reduction holds there
(`C04_preservation_nolet`); for groups it fails for *intermediate* terms w.r.t. the declarative rules
(`C04_preservation_refuted`: unfolding the first definition re-binds its variable in front of a group whose
other members already mention the unfolding — the program still runs fine, but the intermediate term has no
type), which is why `C01_checker_sound_run_stmt` above stays open. -/
def C01_checker_sound_run_nolet_stmt : Prop :=
  ∀ (fuel n : Nat) (t e ty : Tm) (s : St), t.holeFree = true → wellScoped 0 t = true → CheckSound.noLet t = true →
    inferS fuel t {} = .ok (e, ty) s → s.nerrs = 0 →
    let r := evalFuel n t
    isValue r = true ∨ (∃ r', Step r r') ∨ stuckReason r = some .divZero
theorem C01_checker_sound_run_nolet : C01_checker_sound_run_nolet_stmt :=
  fun fuel n t e ty s ht _ hnl h hn => SoundRun.checker_sound_run_nolet fuel n t e ty s ht hnl h hn

/-- The hypotheses of `C01_checker_sound_run_nolet` are satisfiable on non-trivial programs (checked by the
kernel): the polymorphic identity instantiated and applied, `((a : type) => (x : a) => x) int 3`, is hole-free,
closed, group-free and accepted without diagnostics (checker fuel 40); run for 5 steps it is the value `3`. -/
example : ∃ (fuel n : Nat) (t e ty : Tm) (s : St), t.holeFree = true ∧ wellScoped 0 t = true ∧
    CheckSound.noLet t = true ∧ inferS fuel t {} = .ok (e, ty) s ∧ s.nerrs = 0 ∧
    t = .app (.app (.lam 1 false .type (.lam 2 false (.var 1 0) (.var 2 0))) .int) (.lit 3) ∧
    evalFuel n t = .lit 3 :=
  let ⟨e, ty, s, h1, h2, h3, h4, h5, _, _, h8⟩ := SoundRun.demoOK_spec SoundRun.idProg_ok
  ⟨40, 5, SoundRun.idProg, e, ty, s, h1, h2, h3, h4, h5, rfl, h8⟩

/-- The same for a program with a higher-order function, a conditional, arithmetic and a comparison:
`((f : int -> int) => (b : bool) => if b then f (2 * 3) else 0 - 1) ((y : int) => y + 1) (1 < 2)` is accepted
and runs to `7` in 10 steps, every intermediate term being a value or able to step
(`C01_checker_sound_run_nolet` instantiated). -/
example : ∀ n, isValue (evalFuel n SoundRun.iteProg) = true ∨ (∃ r', Step (evalFuel n SoundRun.iteProg) r') ∨
    stuckReason (evalFuel n SoundRun.iteProg) = some .divZero :=
  fun n =>
    let ⟨e, ty, s, h1, h2, h3, h4, h5, _⟩ := SoundRun.demoOK_spec SoundRun.iteProg_ok
    C01_checker_sound_run_nolet 40 n SoundRun.iteProg e ty s h1 h2 h3 h4 h5

/-! ## End to end: from the program text to the run -/

/-- **Type soundness from the text on** (group-free, fully annotated programs): take any text, any classifier and interner.
If the front end (`frontEnd`, Lemmas/FrontEnd.lean: `tokenize`, token conversion, `parse` — parse phase, re-association, name
resolution, definition-order check — in the empty context) answers with a term that is hole-free (every parameter annotated, no
`_`) and has no definition group, and the model of the type checker accepts that term from the initial state without a
diagnostic, then however many steps the program is run, the term reached is a value, or can take a step, or is stuck at a
division by zero — never at a variable, a call of a non-function, arithmetic / comparison / branching on a value of the wrong
kind, or a hole.  This is `C01_checker_sound_run_nolet` with the front end in front: its well-scopedness hypothesis is
discharged by `frontEnd_term_scoped` (`C14_front_end_scoped`: resolution soundness C08 + "`check_definitions` only appends
diagnostics"), and by `C14_front_end_total` the front end itself never panics.  (Literals: the tokenizer's `Nat` payload
becomes the `Int` literal `Int.ofNat n` in `parse_integer_literal`; negative numbers are negations.) -/
def C01_pipeline_nolet_stmt : Prop :=
  ∀ (cc : CharClass) (I : List Char → Name) (text : List Char) (r : PModel.RTm) (fuel n : Nat) (e ty : Tm) (s : St),
    frontEnd cc I text [] = .ok (.term r) → r.erase.holeFree = true → CheckSound.noLet r.erase = true →
    inferS fuel r.erase {} = .ok (e, ty) s → s.nerrs = 0 →
    let v := evalFuel n r.erase
    isValue v = true ∨ (∃ v', Step v v') ∨ stuckReason v = some .divZero
theorem C01_pipeline_nolet : C01_pipeline_nolet_stmt :=
  fun _ _ _ r fuel n e ty s h hf hnl hi hn =>
    C01_checker_sound_run_nolet fuel n r.erase e ty s hf
      (frontEnd_term_scoped (ctx := []) List.nodup_nil (fun _ hx => nomatch hx) h) hnl hi hn

/-- Non-vacuity, end to end and by kernel evaluation: the text `((x : int) => x + 1) 2` (classifier `C10_cc`, identifiers
interned by their length) satisfies every hypothesis of `C01_pipeline_nolet` — the front end answers with the hole-free,
group-free term `((x : int) => x + 1) 2`, the checker model (fuel 40) accepts it without a diagnostic at type `int` — and run
for 5 steps it is the value `3`. -/
example : ∃ (r : PModel.RTm) (e ty : Tm) (s : St),
    frontEnd C10_cc List.length FrontEndDemo.text [] = .ok (.term r) ∧ r.erase.holeFree = true ∧
    CheckSound.noLet r.erase = true ∧ inferS 40 r.erase {} = .ok (e, ty) s ∧ s.nerrs = 0 ∧
    zonk 40 s.store ty = some .int ∧ isValue (evalFuel 5 r.erase) = true ∧ evalFuel 5 r.erase = .lit 3 := by
  obtain ⟨r, h1, h2⟩ := FrontEndDemo.frontEnd_text
  have hd : SoundRun.demoOK 40 5 FrontEndDemo.tm .int (.lit 3) = true := by decide +kernel
  obtain ⟨e, ty, s, a1, _, a3, a4, a5, a6, a7, a8⟩ := SoundRun.demoOK_spec hd
  rw [← h2] at a1 a3 a4 a7 a8
  exact ⟨r, e, ty, s, h1, a1, a3, a4, a5, a6, a7, a8⟩
