import GramModel.Eval

/-!
# The store layer: unification holes as mutable cells

`Rc<RefCell<Option<Term>>>` cells become an explicit store (`id ↦ contents`); the typing and
definitions contexts, which the Rust passes as `&mut Vec`, are part of the state and are pushed and
popped exactly where the Rust pushes and pops (so that "the caller's contexts are left as they
were", C18, is a theorem with content rather than a triviality of functional style).

Every function here takes fuel; `R.fuel` (out of fuel) and `R.panic` are outcomes of their own, never
defaults.  Fuel is decremented at every recursive call, so definitions are structurally recursive.
-/

/-- typing-context entry `(type, offset)`; definitions-context entry `Option (definition, offset)` -/
structure St where
  store : List (Option Tm) := []
  tctx : List (Tm × Nat) := []          -- innermost first (Rust: last element of the Vec)
  dctx : List (Option (Tm × Nat)) := []
  nerrs : Nat := 0                       -- number of diagnostics pushed so far
deriving Inhabited

inductive R (α : Type)
  | ok (a : α) (s : St)
  | fuel
  | panic (site : String)

abbrev M (α : Type) := St → R α

@[inline] def M.pure {α} (a : α) : M α := fun s => .ok a s
@[inline] def M.bind {α β} (m : M α) (f : α → M β) : M β := fun s =>
  match m s with
  | .ok a s' => f a s'
  | .fuel => .fuel
  | .panic p => .panic p
instance : Monad M := { pure := M.pure, bind := M.bind }

def outOfFuel {α} : M α := fun _ => .fuel
def panicAt {α} (site : String) : M α := fun _ => .panic site
def getSt : M St := fun s => .ok s s
def modifySt (f : St → St) : M Unit := fun s => .ok () (f s)

def cellGet (id : Nat) : M (Option Tm) := fun s =>
  .ok (match s.store[id]? with | some c => c | none => none) s
def cellSet (id : Nat) (t : Tm) : M Unit :=
  modifySt fun s => { s with store := s.store.set id (some t) }
/-- `Rc::new(RefCell::new(None))` -/
def cellFresh : M Nat := fun s => .ok s.store.length { s with store := s.store ++ [none] }

def pushCtx (ty : Tm × Nat) (d : Option (Tm × Nat)) : M Unit :=
  modifySt fun s => { s with tctx := ty :: s.tctx, dctx := d :: s.dctx }
def popCtx : M Unit := modifySt fun s => { s with tctx := s.tctx.tail, dctx := s.dctx.tail }
def pushD (d : Option (Tm × Nat)) : M Unit := modifySt fun s => { s with dctx := d :: s.dctx }
def popD : M Unit := modifySt fun s => { s with dctx := s.dctx.tail }
def reportError : M Unit := modifySt fun s => { s with nerrs := s.nerrs + 1 }

/-! ## `signed_shift`, following resolved cells -/

mutual
def sshiftS : Nat → Nat → Int → Tm → M (Option Tm)
  | 0, _, _, _ => outOfFuel
  | f+1, c, amt, t =>
    match t with
    | .hole id s => do
        match ← cellGet id with
        | some sub =>
            match ← sshiftS f 0 (s : Int) sub with
            | some sub' => sshiftS f c amt sub'
            | none => panicAt "unsigned_shift.unwrap"
        | none =>
            if s ≥ c then
              if (s : Int) + amt ≥ (c : Int) then pure (some (.hole id ((s : Int) + amt).toNat))
              else pure none
            else pure (some (.hole id s))
    | .var x i =>
        if i ≥ c then
          if (i : Int) + amt ≥ (c : Int) then pure (some (.var x ((i : Int) + amt).toNat))
          else pure none
        else pure (some (.var x i))
    | .lam x im d b => do
        match ← sshiftS f c amt d with
        | none => pure none
        | some d' => match ← sshiftS f (c+1) amt b with
          | none => pure none
          | some b' => pure (some (.lam x im d' b'))
    | .pi x im d b => do
        match ← sshiftS f c amt d with
        | none => pure none
        | some d' => match ← sshiftS f (c+1) amt b with
          | none => pure none
          | some b' => pure (some (.pi x im d' b'))
    | .app g a => do
        match ← sshiftS f c amt g with
        | none => pure none
        | some g' => match ← sshiftS f c amt a with
          | none => pure none
          | some a' => pure (some (.app g' a'))
    | .letg ds b => do
        match ← sshiftDefsS f (c + ds.len) amt ds with
        | none => pure none
        | some ds' => match ← sshiftS f (c + ds.len) amt b with
          | none => pure none
          | some b' => pure (some (.letg ds' b'))
    | .neg a => do
        match ← sshiftS f c amt a with
        | none => pure none
        | some a' => pure (some (.neg a'))
    | .bin op a b => do
        match ← sshiftS f c amt a with
        | none => pure none
        | some a' => match ← sshiftS f c amt b with
          | none => pure none
          | some b' => pure (some (.bin op a' b'))
    | .ite a b d => do
        match ← sshiftS f c amt a with
        | none => pure none
        | some a' => match ← sshiftS f c amt b with
          | none => pure none
          | some b' => match ← sshiftS f c amt d with
            | none => pure none
            | some d' => pure (some (.ite a' b' d'))
    | t => pure (some t)
def sshiftDefsS : Nat → Nat → Int → Defs → M (Option Defs)
  | 0, _, _, _ => outOfFuel
  | f+1, c, amt, ds =>
    match ds with
    | .nil => pure (some .nil)
    | .cons x a d r => do
        match ← sshiftS f c amt a with
        | none => pure none
        | some a' => match ← sshiftS f c amt d with
          | none => pure none
          | some d' => match ← sshiftDefsS f c amt r with
            | none => pure none
            | some r' => pure (some (.cons x a' d' r'))
end

/-- `unsigned_shift` -/
def ushiftS (f : Nat) (c a : Nat) (t : Tm) : M Tm := do
  match ← sshiftS f c (a : Int) t with
  | some t' => pure t'
  | none => panicAt "unsigned_shift.unwrap"

/-! ## `open`: an unresolved cell met by `open` becomes a **fresh** cell -/

mutual
def openS : Nat → Tm → Nat → Tm → Nat → M Tm
  | 0, _, _, _, _ => outOfFuel
  | f+1, t, i, u, s =>
    match t with
    | .hole id k => do
        match ← cellGet id with
        | some sub => do
            let sub' ← ushiftS f 0 k sub
            openS f sub' i u s
        | none => do
            let id' ← cellFresh
            pure (.hole id' (if k > i then k - 1 else k))
    | .var x j =>
        if j = i then ushiftS f 0 s u
        else pure (.var x (if j > i then j - 1 else j))
    | .lam x im d b => do
        let d' ← openS f d i u s
        let b' ← openS f b (i+1) u (s+1)
        pure (.lam x im d' b')
    | .pi x im d b => do
        let d' ← openS f d i u s
        let b' ← openS f b (i+1) u (s+1)
        pure (.pi x im d' b')
    | .app g a => do
        let g' ← openS f g i u s
        let a' ← openS f a i u s
        pure (.app g' a')
    | .letg ds b => do
        let ds' ← openDefsS f ds (i + ds.len) u (s + ds.len)
        let b' ← openS f b (i + ds.len) u (s + ds.len)
        pure (.letg ds' b')
    | .neg a => do
        let a' ← openS f a i u s
        pure (.neg a')
    | .bin op a b => do
        let a' ← openS f a i u s
        let b' ← openS f b i u s
        pure (.bin op a' b')
    | .ite a b c => do
        let a' ← openS f a i u s
        let b' ← openS f b i u s
        let c' ← openS f c i u s
        pure (.ite a' b' c')
    | t => pure t
def openDefsS : Nat → Defs → Nat → Tm → Nat → M Defs
  | 0, _, _, _, _ => outOfFuel
  | f+1, ds, i, u, s =>
    match ds with
    | .nil => pure .nil
    | .cons x a d r => do
        let a' ← openS f a i u s
        let d' ← openS f d i u s
        let r' ← openDefsS f r i u s
        pure (.cons x a' d' r')
end

/-- the unfolding wrapper shared by the evaluator and the normalizer, store-aware -/
def unfoldDefS (f : Nat) (x : Name) (ann d : Tm) (index : Nat) : M Tm := do
  let self := Tm.var x 0
  let ann1 ← ushiftS f 0 1 ann
  let ann2 ← openS f ann1 (index + 1) self 0
  let d1 ← ushiftS f 0 1 d
  let d2 ← openS f d1 (index + 1) self 0
  openS f d index (.letg (.cons x ann2 d2 .nil) self) 0

/-! ## `normalize_weak_head` -/

/-- substitute the unfolded i-th definition into definitions `i..` and the body (the loop body of the
normalizer's `Let` arm) -/
def substDefsS (f : Nat) : Defs → Nat → Tm → M Defs
  | .nil, _, _ => pure .nil
  | .cons x a d r, idx, u => do
      let a' ← openS f a idx u 0
      let d' ← openS f d idx u 0
      let r' ← substDefsS f r idx u
      pure (.cons x a' d' r')

/-- `for i in 0..n`: unfold definition `i` (as already substituted by earlier rounds), substitute it
into definitions `i..` and the body.  `todo` = definitions `i..`, in order. -/
def letLoopS : Nat → Defs → Tm → M Tm
  | 0, _, _ => outOfFuel
  | f+1, todo, body =>
    match todo with
    | .nil => pure body
    | .cons x a d r => do
        let idx := r.len
        let u ← unfoldDefS f x a d idx
        -- `skip(i)` includes the i-th definition itself; its result is never used again
        let _ ← openS f a idx u 0
        let _ ← openS f d idx u 0
        let r' ← substDefsS f r idx u
        let body' ← openS f body idx u 0
        letLoopS f r' body'

def whnfS : Nat → Tm → M Tm
  | 0, _ => outOfFuel
  | f+1, t =>
    match t with
    | .hole id s => do
        match ← cellGet id with
        | some sub => do
            let sub' ← ushiftS f 0 s sub
            whnfS f sub'
        | none => pure t
    | .var _ i => do
        let st ← getSt
        match st.dctx[i]? with
        | none => panicAt "normalize_weak_head.definitions_context[index]"
        | some none => pure t
        | some (some (d, off)) =>
            if i + 1 < off then panicAt "normalize_weak_head.index+1-offset"
            else do
              let d' ← ushiftS f 0 (i + 1 - off) d
              whnfS f d'
    | .app g a => do
        let g' ← whnfS f g
        match g' with
        | .lam _ _ _ body => do
            let b ← openS f body 0 a 0
            whnfS f b
        | _ => pure (.app g' a)
    | .letg ds body => do
        let b ← letLoopS f ds body
        whnfS f b
    | .neg a => do
        let a' ← whnfS f a
        match a' with
        | .lit n => pure (.lit (-n))
        | _ => pure (.neg a')
    | .bin op a b => do
        let a' ← whnfS f a
        let b' ← whnfS f b
        match a', b' with
        | .lit x, .lit y =>
            match delta op x y with
            | some r => pure r
            | none => pure (.bin op a' b')
        | _, _ => pure (.bin op a' b')
    | .ite c a b => do
        let c' ← whnfS f c
        match c' with
        | .tt => whnfS f a
        | .ff => whnfS f b
        | _ => pure (.ite c' a b)
    | t => pure t

/-! ## `zonk`: replace every resolved cell by its (shifted) contents — what a reader of the
elaborated term sees, and what the independent checker is given -/

mutual
def zonk : Nat → List (Option Tm) → Tm → Option Tm
  | 0, _, _ => none
  | f+1, σ, t =>
    match t with
    | .hole id s =>
        match σ[id]? with
        | some (some sub) =>
            match zonk f σ sub with
            | some z => some (ushift 0 s z)
            | none => none
        | _ => some t
    | .lam x im d b =>
        match zonk f σ d, zonk f σ b with
        | some d', some b' => some (.lam x im d' b')
        | _, _ => none
    | .pi x im d b =>
        match zonk f σ d, zonk f σ b with
        | some d', some b' => some (.pi x im d' b')
        | _, _ => none
    | .app g a =>
        match zonk f σ g, zonk f σ a with
        | some g', some a' => some (.app g' a')
        | _, _ => none
    | .letg ds b =>
        match zonkDefs f σ ds, zonk f σ b with
        | some ds', some b' => some (.letg ds' b')
        | _, _ => none
    | .neg a =>
        match zonk f σ a with
        | some a' => some (.neg a')
        | none => none
    | .bin op a b =>
        match zonk f σ a, zonk f σ b with
        | some a', some b' => some (.bin op a' b')
        | _, _ => none
    | .ite c a b =>
        match zonk f σ c, zonk f σ a, zonk f σ b with
        | some c', some a', some b' => some (.ite c' a' b')
        | _, _, _ => none
    | t => some t
def zonkDefs : Nat → List (Option Tm) → Defs → Option Defs
  | 0, _, _ => none
  | f+1, σ, ds =>
    match ds with
    | .nil => some .nil
    | .cons x a d r =>
        match zonk f σ a, zonk f σ d, zonkDefs f σ r with
        | some a', some d', some r' => some (.cons x a' d' r')
        | _, _, _ => none
end
