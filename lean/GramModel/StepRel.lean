import GramModel.Eval

/-!
# The call-by-value semantics as a relation (the specification C02 refers to)

Evaluation contexts left to right; `β_v`; δ-rules; conditionals discard the other branch
unevaluated; a group evaluates its first definition, then — once it is a value — substitutes its
recursive unfolding `let x = d; x` into the remaining definitions and the body.
-/

inductive Step : Tm → Tm → Prop
  | appL {f f' a} : Step f f' → Step (.app f a) (.app f' a)
  | appR {f a a'} : isValue f = true → Step a a' → Step (.app f a) (.app f a')
  | beta {x im d b a} : isValue a = true → Step (.app (.lam x im d b) a) (openT b 0 a 0)
  | negC {a a'} : Step a a' → Step (.neg a) (.neg a')
  | negL {n} : Step (.neg (.lit n)) (.lit (-n))
  | binL {op a a' b} : Step a a' → Step (.bin op a b) (.bin op a' b)
  | binR {op a b b'} : isValue a = true → Step b b' → Step (.bin op a b) (.bin op a b')
  | delta {op x y r} : delta op x y = some r → Step (.bin op (.lit x) (.lit y)) r
  | iteC {c c' t e} : Step c c' → Step (.ite c t e) (.ite c' t e)
  | iteT {t e} : Step (.ite .tt t e) t
  | iteF {t e} : Step (.ite .ff t e) e
  | letNil {b} : Step (.letg .nil b) b
  | letD {x ann d d' rest b} : Step d d' →
      Step (.letg (.cons x ann d rest) b) (.letg (.cons x ann d' rest) b)
  | letU {x ann d rest b} : isValue d = true →
      Step (.letg (.cons x ann d rest) b)
        (.letg (openDefs rest rest.len (unfoldDef x ann d rest.len) 0)
               (openT b rest.len (unfoldDef x ann d rest.len) 0))

/-- Reflexive-transitive closure. -/
inductive Steps : Tm → Tm → Prop
  | refl {t} : Steps t t
  | head {t u v} : Step t u → Steps u v → Steps t v
