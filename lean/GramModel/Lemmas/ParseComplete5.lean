import GramModel.Lemmas.ParseComplete4

/-! # General completeness: the `jumbo_term` and `term` levels, the induction, the theorem -/

namespace PModel
open Unamb

section General
variable {toks : Array PTok}

theorem extTerm_close {c : PKind} (h : c = .rightParen ∨ c = .rightCurly) : extTerm c = false := by
  rcases h with rfl | rfl <;> rfl

theorem comp_jumboG {n : Nat} (hT : Comp1 toks .term n) (hJ : Comp1 toks .jumboTerm n)
    (hSm : Comp1 toks .smallTerm (n + 1)) (hGJ : CompGJ toks (n + 1))
    (hNB : NBAtoms toks (n + 1)) : Comp1 toks .jumboTerm (n + 1) := by
  intro a b t hl h hf
  have hf' : NoExt toks b extTerm := hf
  rcases inv_jumbo h with g | o
  · exact hGJ _ _ _ hl g (hf'.mono (fun k hk => by
      simp only [extTerm, Bool.or_eq_true]; exact Or.inl hk))
  · rcases o with ⟨x, body, j1, j2, hb, rfl⟩ | ⟨x, body, j1, j2, j3, j4, hb, rfl⟩ |
      ⟨A, o, c, ar, x, m, dom, body, hm, j1, j2, j3, hd, j4, j5, hb, rfl⟩ |
      ⟨m, dom, cod, s, j1, hc, rfl⟩ | ⟨m, c, x, y, z, j1, h1, j2, h2, j3, h3, rfl⟩
    · -- x => T
      have lb := SegT.lt hb
      have rb := hT _ _ _ (by omega) hb hf'
      have := lambda_ok j1 j2 rb
      have e : (⟨.mk (span (tokenRange toks a) body.range) false
          (.lam ⟨tokenRange toks a, x⟩ false .none body) [], b, true⟩ : PResult)
          = ⟨.mk (rng toks a b) false (.lam ⟨tokenRange toks a, x⟩ false .none body) [], b, true⟩ := by
        rw [hb.range]; rfl
      rw [← e]
      exact jumbo_of [] _ rfl (fun _ hX => by cases hX) this rfl
    · -- {x} => T
      have lb := SegT.lt hb
      have rb := hT _ _ _ (by omega) hb hf'
      have := lambdaImplicit_ok j1 j2 j3 j4 rb
      have e : (⟨.mk (span (tokenRange toks a) body.range) false
          (.lam ⟨tokenRange toks (a + 1), x⟩ true .none body) [], b, true⟩ : PResult)
          = ⟨.mk (rng toks a b) false (.lam ⟨tokenRange toks (a + 1), x⟩ true .none body) [], b,
              true⟩ := by
        rw [hb.range]; rfl
      rw [← e]
      refine jumbo_of [.lambda] _ rfl ?_ this rfl
      intro X hX
      simp only [List.mem_cons, List.mem_nil_iff, or_false] at hX; subst hX
      exact lambda_fail (Or.inl (fun x => j1.ne (by simp)))
    · -- the four binders
      have ld := SegT.lt hd
      have lb := SegT.lt hb
      have hcl : extTerm c = false := by
        simp only [binderProds, List.mem_cons, Prod.mk.injEq, List.mem_nil_iff, or_false] at hm
        rcases hm with ⟨_, _, rfl, _⟩ | ⟨_, _, rfl, _⟩ | ⟨_, _, rfl, _⟩ | ⟨_, _, rfl, _⟩ <;> rfl
      have rd := hJ _ _ _ (by omega) hd (NoExt.of_kat j4 hcl)
      have rb := hT _ _ _ (by omega) hb hf'
      have nd := (segT_facts hd).2
      have hok := binder_ok hm j1 j2 j3 rd nd j4 j5 rb
      have e : (⟨.mk (span (tokenRange toks a) body.range) false
          (binderV A ⟨tokenRange toks (a + 1), x⟩ dom body) [], b, true⟩ : PResult)
          = ⟨.mk (rng toks a b) false (binderV A ⟨tokenRange toks (a + 1), x⟩ dom body) [], b,
              true⟩ := by
        rw [hb.range]; rfl
      rw [← e]
      simp only [binderProds, List.mem_cons, Prod.mk.injEq, List.mem_nil_iff, or_false] at hm
      rcases hm with ⟨rfl, rfl, rfl, rfl⟩ | ⟨rfl, rfl, rfl, rfl⟩ | ⟨rfl, rfl, rfl, rfl⟩ |
        ⟨rfl, rfl, rfl, rfl⟩
      · refine jumbo_of [.lambda, .lambdaImplicit] _ rfl ?_ hok rfl
        intro X hX
        simp only [List.mem_cons, List.mem_nil_iff, or_false] at hX
        rcases hX with rfl | rfl
        · exact lambda_fail (Or.inl (fun x => j1.ne (by simp)))
        · exact lambdaImplicit_fail (Or.inl (j1.ne (by decide)))
      · refine jumbo_of [.lambda, .lambdaImplicit, .annotatedLambda] _ rfl ?_ hok rfl
        intro X hX
        simp only [List.mem_cons, List.mem_nil_iff, or_false] at hX
        rcases hX with rfl | rfl | rfl
        · exact lambda_fail (Or.inl (fun x => j1.ne (by simp)))
        · exact lambdaImplicit_fail (Or.inr (j3.ne (by decide)))
        · exact binder_fail_start bp_al (Or.inl (j1.ne (by decide)))
      · refine jumbo_of [.lambda, .lambdaImplicit, .annotatedLambda, .annotatedLambdaImplicit] _ rfl
          ?_ hok rfl
        intro X hX
        simp only [List.mem_cons, List.mem_nil_iff, or_false] at hX
        rcases hX with rfl | rfl | rfl | rfl
        · exact lambda_fail (Or.inl (fun x => j1.ne (by simp)))
        · exact lambdaImplicit_fail (Or.inl (j1.ne (by decide)))
        · exact binder_fail_close bp_al rd nd (Or.inr (j5.ne (by decide)))
        · exact binder_fail_start bp_ali (Or.inl (j1.ne (by decide)))
      · refine jumbo_of [.lambda, .lambdaImplicit, .annotatedLambda, .annotatedLambdaImplicit, .pi] _
          rfl ?_ hok rfl
        intro X hX
        simp only [List.mem_cons, List.mem_nil_iff, or_false] at hX
        rcases hX with rfl | rfl | rfl | rfl | rfl
        · exact lambda_fail (Or.inl (fun x => j1.ne (by simp)))
        · exact lambdaImplicit_fail (Or.inr (j3.ne (by decide)))
        · exact binder_fail_start bp_al (Or.inl (j1.ne (by decide)))
        · exact binder_fail_close bp_ali rd nd (Or.inr (j5.ne (by decide)))
        · exact binder_fail_start bp_pi (Or.inl (j1.ne (by decide)))
    · -- S -> T
      have ls := SegT.lt s
      have lc := SegT.lt hc
      have rs := hSm _ _ _ (by omega) s (NoExt.of_kat j1 rfl)
      have rc := hT _ _ _ (by omega) hc hf'
      have ns := (segT_facts s).2
      have hok := ndpi_ok rs ns j1 rc
      have e : (⟨.mk (span dom.range cod.range) false
          (.pi ⟨emptyRange toks a, placeholder⟩ false dom cod) [], b, true⟩ : PResult)
          = ⟨.mk (rng toks a b) false (.pi ⟨emptyRange toks a, placeholder⟩ false dom cod) [], b,
              true⟩ := by
        rw [s.range, hc.range]; rfl
      rw [← e]
      obtain ⟨k, k0, hk⟩ := first_small s
      have hnb : NB toks a := by
        rcases inv_small s with hat | ⟨m1, f, x, hat, h5, _⟩
        · exact hNB a m _ (by omega) hat
        · have := SegT.lt h5
          exact hNB a m1 f (by omega) hat
      refine jumbo_of [.lambda, .lambdaImplicit, .annotatedLambda, .annotatedLambdaImplicit, .pi,
        .piImplicit] _ rfl ?_ hok rfl
      intro X hX
      simp only [List.mem_cons, List.mem_nil_iff, or_false] at hX
      rcases hX with rfl | rfl | rfl | rfl | rfl | rfl
      · refine lambda_fail ?_
        by_cases hx : ∃ x, KAt toks a (.identifier x)
        · obtain ⟨x, k1⟩ := hx
          right
          intro k2
          have := small_ident_next (mainLe_tower (A := .smallTerm) (by simp [tower]) (m - a)) s
            (Nat.le_refl _) k1 k2 rfl
          subst this
          exact absurd (KAt.unique j1 k2) (by decide)
        · exact Or.inl (fun x hx' => hx ⟨x, hx'⟩)
      · exact lambdaImplicit_fail (Or.inl (k0.ne (by intro e; subst e; simp [isF] at hk)))
      · exact hnb.1
      · exact binder_fail_start bp_ali (Or.inl (k0.ne (by intro e; subst e; simp [isF] at hk)))
      · exact hnb.2
      · exact binder_fail_start bp_pii (Or.inl (k0.ne (by intro e; subst e; simp [isF] at hk)))
    · -- if
      have l1 := SegT.lt h1
      have l2 := SegT.lt h2
      have l3 := SegT.lt h3
      have r1 := hT _ _ _ (by omega) h1 (NoExt.of_kat j2 rfl)
      have r2 := hT _ _ _ (by omega) h2 (NoExt.of_kat j3 rfl)
      have r3 := hT _ _ _ (by omega) h3 hf'
      have hok := if_ok j1 r1 j2 r2 j3 r3
      have e : (⟨.mk (span (tokenRange toks a) z.range) false (.ite x y z) [], b, true⟩ : PResult)
          = ⟨.mk (rng toks a b) false (.ite x y z) [], b, true⟩ := by
        rw [h3.range]; rfl
      rw [← e]
      refine jumbo_of [.lambda, .lambdaImplicit, .annotatedLambda, .annotatedLambdaImplicit, .pi,
        .piImplicit, .nonDependentPi] _ rfl ?_ hok rfl
      intro X hX
      simp only [List.mem_cons, List.mem_nil_iff, or_false] at hX
      rcases hX with rfl | rfl | rfl | rfl | rfl | rfl | rfl
      · exact lambda_fail (Or.inl (fun x => j1.ne (by simp)))
      · exact lambdaImplicit_fail (Or.inl (j1.ne (by decide)))
      · exact binder_fail_start bp_al (Or.inl (j1.ne (by decide)))
      · exact binder_fail_start bp_ali (Or.inl (j1.ne (by decide)))
      · exact binder_fail_start bp_pi (Or.inl (j1.ne (by decide)))
      · exact binder_fail_start bp_pii (Or.inl (j1.ne (by decide)))
      · exact ndpi_fail_small (small_fails (Follow.of_kat j1 rfl))

theorem comp_termG {n : Nat} (hT : Comp1 toks .term n) (hS : Comp1 toks .smallTerm n)
    (hJ : Comp1 toks .jumboTerm (n + 1)) : Comp1 toks .term (n + 1) := by
  intro a b t hl h hf
  have hf' : NoExt toks b extTerm := hf
  rcases inv_term h with j | l
  · refine up_term (hJ _ _ _ hl j hf) (segT_facts j).2 (let_fail ?_)
    by_cases hx : ∃ x, KAt toks a (.identifier x)
    · obtain ⟨x, k1⟩ := hx
      right
      have key : ∀ k, isDef k = true → ¬KAt toks (a + 1) k := by
        intro k hk k2
        have := jumbo_ident_next (P.all b) (mainLe_tower (by simp [tower]) (b + 1)) j (by omega)
          k1 k2 hk
        subst this
        exact hf'.not (k := k) (by simp [extTerm, hk]) k2
      exact ⟨key _ rfl, key _ rfl⟩
    · exact Or.inl (fun x hx' => hx ⟨x, hx'⟩)
  · rcases inv_let l with ⟨x, tm, m, defn, body, k1, k2, d1, k3, b1, rfl⟩ |
      ⟨x, tm, p, m, ann, defn, body, k1, k2, s1, k3, d1, k4, b1, rfl⟩
    · have l1 := SegT.lt d1
      have l2 := SegT.lt b1
      have rd := hT _ _ _ (by omega) d1 (NoExt.of_kat k3 (by cases tm <;> rfl))
      have rb := hT _ _ _ (by omega) b1 hf'
      have hok := let_plain_ok k1 k2 rd k3 rb
      have e : (⟨.mk (span (tokenRange toks a) body.range) false
          (.let_ ⟨tokenRange toks a, x⟩ .none defn body) [], b, true⟩ : PResult)
          = ⟨.mk (rng toks a b) false (.let_ ⟨tokenRange toks a, x⟩ .none defn body) [], b,
              true⟩ := by
        rw [b1.range]; rfl
      rw [← e]
      exact choice_ok (A := .term) [] [.jumboTerm] rfl (fun _ hX => by cases hX) hok rfl
    · have l0 := SegT.lt s1
      have l1 := SegT.lt d1
      have l2 := SegT.lt b1
      have rs := hS _ _ _ (by omega) s1 (NoExt.of_kat k3 rfl)
      have rd := hT _ _ _ (by omega) d1 (NoExt.of_kat k4 (by cases tm <;> rfl))
      have rb := hT _ _ _ (by omega) b1 hf'
      have hok := let_ok k1 k2 rs (segT_facts s1).2 k3 rd k4 rb
      have e : (⟨.mk (span (tokenRange toks a) body.range) false
          (.let_ ⟨tokenRange toks a, x⟩ (.some ann) defn body) [], b, true⟩ : PResult)
          = ⟨.mk (rng toks a b) false (.let_ ⟨tokenRange toks a, x⟩ (.some ann) defn body) [], b,
              true⟩ := by
        rw [b1.range]; rfl
      rw [← e]
      exact choice_ok (A := .term) [] [.jumboTerm] rfl (fun _ hX => by cases hX) hok rfl

/-- the induction package -/
structure CompG (toks : Array PTok) (n : Nat) : Prop where
  atom : Comp1 toks .atom n
  small : Comp1 toks .smallTerm n
  medium : Comp2 toks .mediumTerm n
  large : Comp2 toks .largeTerm n
  huge : Comp2 toks .hugeTerm n
  giant : Comp2 toks .giantTerm n
  gj : CompGJ toks n
  jumbo : Comp1 toks .jumboTerm n
  term : Comp1 toks .term n

theorem compG : ∀ n, CompG toks n
  | 0 => by
    refine ⟨?_, ?_, ?_, ?_, ?_, ?_, ?_, ?_, ?_⟩ <;>
      (intro a b t hl h _; have := SegT.lt h; omega)
  | n + 1 => by
    have ih := compG n
    have hA := comp_atom ih.term
    have hSm := comp_small hA ih.small
    have hM := comp_medium hSm ih.large
    have hL := comp_large hM ih.large
    have hH := comp_huge hL ih.huge
    have hG := comp_giant hH
    have hNB := nb_atoms ih.gj
    have hGJ := comp_gj hG hNB
    have hJ := comp_jumboG ih.term ih.jumbo hSm hGJ hNB
    exact ⟨hA, hSm, hM, hL, hH, hG, hGJ, hJ, comp_termG ih.term ih.small hJ⟩

end General

/-- **Completeness of the parser model w.r.t. `grammar.y`**: every sentence of `term` is accepted by
the parse phase, with exactly its parse tree, every token consumed, no error recorded, confident. -/
theorem parse_complete {toks : Array PTok} {t : Src} (h : SegT toks .term 0 toks.size t) :
    ∃ r st, runParser toks = some (r, st) ∧ r.term = t ∧ r.next = toks.size ∧
      collectErrors r.term = [] ∧ r.confident = true := by
  have hr := (compG (toks := toks) toks.size).term 0 toks.size t (by omega) h
    (fun k ⟨hlt, _⟩ => absurd hlt (by omega))
  obtain ⟨F, hF⟩ := hr
  obtain ⟨st, hst⟩ := runParser_eq_pure (hF F (Nat.le_refl _) PState.init)
  exact ⟨_, st, hst, rfl, rfl, ce_segT h, rfl⟩

end PModel
