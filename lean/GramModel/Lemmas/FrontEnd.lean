import GramModel.Lexer
import GramModel.Parser
import GramModel.Props.C08
import GramModel.Props.C10
import GramModel.Lemmas.ParsePrinted20

/-!
# The front end `text → tokens → parse` as one function, and what it hands to the type checker

* `frontEnd cc I text ctx`: `tokenize`, conversion of the tokenizer's tokens into parser tokens
  (`C10_toPTok I`: kinds by `PModel.kindP I`, the byte range kept), `PModel.parseModel`.
* `check_definitions` only ever appends diagnostics (`checkDefinitions_errs`), so a front end that
  answers with a term has resolved every name without a diagnostic, and then (`C08_resolve_sound_fixed`)
  the term is the one the binder-stack specification `toDB` prescribes — which is well scoped
  (`toDB_ws`).  Hence `parseModel_ok_scoped` / `frontEnd_term_scoped`.
-/

open PModel

/-! ## `check_definitions` only appends diagnostics -/

namespace PModel

theorem checkVariables_errs (defs : Array (Name × RTm × RTm)) (start : Nat)
    (rec : Nat → CheckSt → Option CheckSt)
    (hrec : ∀ i st st', rec i st = some st' → st.2.length ≤ st'.2.length) :
    ∀ (vars : List Nat) (st st' : CheckSt), checkVariables defs start rec vars st = some st' →
      st.2.length ≤ st'.2.length := by
  intro vars
  induction vars with
  | nil =>
    intro st st' h
    simp only [checkVariables, Option.some.injEq] at h
    subst h; exact Nat.le_refl _
  | cons var rest ih =>
    intro st st' h
    obtain ⟨visited, errors⟩ := st
    unfold checkVariables at h
    simp only at h
    show errors.length ≤ st'.2.length
    split at h
    · split at h
      · exact ih _ _ h
      · split at h
        · split at h
          · cases h
          · rename_i st1 h1
            have a := hrec _ _ _ h1
            have b := ih _ _ h
            dsimp only at a b
            omega
        · split at h
          · have b := ih _ _ h
            simp only [List.length_append, List.length_cons, List.length_nil] at b
            omega
          · exact ih _ _ h
    · exact ih _ _ h

theorem checkDefinition_errs (defs : Array (Name × RTm × RTm)) (start : Nat) :
    ∀ (fuel current : Nat) (st st' : CheckSt), checkDefinition defs start fuel current st = some st' →
      st.2.length ≤ st'.2.length := by
  intro fuel
  induction fuel with
  | zero => intro current st st' h; simp [checkDefinition] at h
  | succ fuel ih =>
    intro current st st' h
    unfold checkDefinition at h
    exact checkVariables_errs defs start _ (fun i a b hab => ih i a b hab) _ _ _ h

theorem checkEachDefinition_errs (defs : Array (Name × RTm × RTm)) :
    ∀ (is : List Nat) (errors es : List PErr), checkEachDefinition defs is errors = .ok es →
      errors.length ≤ es.length := by
  intro is
  induction is with
  | nil =>
    intro errors es h
    simp only [checkEachDefinition, Except.ok.injEq] at h
    subst h; exact Nat.le_refl _
  | cons i rest ih =>
    intro errors es h
    unfold checkEachDefinition at h
    split at h
    · split at h
      · cases h
      · rename_i v es1 h1
        have a := checkDefinition_errs defs i _ _ _ _ h1
        have b := ih _ _ h
        simp only at a
        omega
    · exact ih _ _ h

mutual
theorem checkDefinitions_errs : ∀ (t : RTm) (depth : Nat) (errors es : List PErr),
    checkDefinitions t depth errors = .ok es → errors.length ≤ es.length
  | .mk _ (.hole _ shift), depth, errors, es, h => by
    unfold checkDefinitions at h
    dsimp only at h
    split at h
    · cases h; exact Nat.le_refl _
    · cases h
  | .mk _ .type, _, errors, es, h => by unfold checkDefinitions at h; dsimp only at h; cases h; exact Nat.le_refl _
  | .mk _ .int, _, errors, es, h => by unfold checkDefinitions at h; dsimp only at h; cases h; exact Nat.le_refl _
  | .mk _ .bool, _, errors, es, h => by unfold checkDefinitions at h; dsimp only at h; cases h; exact Nat.le_refl _
  | .mk _ .tt, _, errors, es, h => by unfold checkDefinitions at h; dsimp only at h; cases h; exact Nat.le_refl _
  | .mk _ .ff, _, errors, es, h => by unfold checkDefinitions at h; dsimp only at h; cases h; exact Nat.le_refl _
  | .mk _ (.lit _), _, errors, es, h => by unfold checkDefinitions at h; dsimp only at h; cases h; exact Nat.le_refl _
  | .mk _ (.var _ _), _, errors, es, h => by unfold checkDefinitions at h; dsimp only at h; cases h; exact Nat.le_refl _
  | .mk _ (.lam _ _ d b), depth, errors, es, h => by
    unfold checkDefinitions at h
    dsimp only at h
    split at h
    · rename_i es1 h1
      have a1 := checkDefinitions_errs d depth errors es1 h1
      have a2 := checkDefinitions_errs b (depth + 1) es1 es h
      omega
    · cases h
  | .mk _ (.pi _ _ d b), depth, errors, es, h => by
    unfold checkDefinitions at h
    dsimp only at h
    split at h
    · rename_i es1 h1
      have a1 := checkDefinitions_errs d depth errors es1 h1
      have a2 := checkDefinitions_errs b (depth + 1) es1 es h
      omega
    · cases h
  | .mk _ (.app f a), depth, errors, es, h => by
    unfold checkDefinitions at h
    dsimp only at h
    split at h
    · rename_i es1 h1
      have a1 := checkDefinitions_errs f depth errors es1 h1
      have a2 := checkDefinitions_errs a depth es1 es h
      omega
    · cases h
  | .mk _ (.letg ds b), depth, errors, es, h => by
    unfold checkDefinitions at h
    dsimp only at h
    split at h
    · cases h
    · rename_i es0 h0
      have a0 := checkEachDefinition_errs _ _ _ _ h0
      split at h
      · rename_i es1 h1
        have b1 := checkDefinitionsDefs_errs ds _ es0 es1 h1
        have b2 := checkDefinitions_errs b _ es1 es h
        omega
      · cases h
  | .mk _ (.neg a), depth, errors, es, h => by
    unfold checkDefinitions at h
    dsimp only at h
    exact checkDefinitions_errs a depth errors es h
  | .mk _ (.bin _ a b), depth, errors, es, h => by
    unfold checkDefinitions at h
    dsimp only at h
    split at h
    · rename_i es1 h1
      have a1 := checkDefinitions_errs a depth errors es1 h1
      have a2 := checkDefinitions_errs b depth es1 es h
      omega
    · cases h
  | .mk _ (.ite c a b), depth, errors, es, h => by
    unfold checkDefinitions at h
    dsimp only at h
    split at h
    · rename_i es1 h1
      have a0 := checkDefinitions_errs c depth errors es1 h1
      split at h
      · rename_i es2 h2
        have a1 := checkDefinitions_errs a depth es1 es2 h2
        have a2 := checkDefinitions_errs b depth es2 es h
        omega
      · cases h
    · cases h
theorem checkDefinitionsDefs_errs : ∀ (ds : RDefs) (depth : Nat) (errors es : List PErr),
    checkDefinitionsDefs ds depth errors = .ok es → errors.length ≤ es.length
  | .nil, _, errors, es, h => by unfold checkDefinitionsDefs at h; cases h; exact Nat.le_refl _
  | .cons _ _ defn rest, depth, errors, es, h => by
    unfold checkDefinitionsDefs at h
    split at h
    · rename_i es1 h1
      have a := checkDefinitions_errs defn depth errors es1 h1
      have b := checkDefinitionsDefs_errs rest depth es1 es h
      omega
    · cases h
end

/-- A front end that answers with a term has run the resolver on some (re-associated) surface tree from
the initial context, and neither it nor `check_definitions` has reported anything. -/
theorem finishParse_ok_resolve {toks : Array PTok} {ctx : List Name} {term : Src} {next : Nat} {r : RTm}
    (h : finishParse toks ctx term next = .ok r) :
    ∃ s st, resolve s (initialContext ctx).length
        { ctx := initialContext ctx, errors := [], nextHole := 0 } = some (r, st) ∧ st.errors = [] := by
  obtain ⟨hn, hce⟩ := finishParse_ok h
  unfold finishParse at h
  simp only [hce, hn, List.isEmpty_nil, bne_self_eq_false, Bool.and_false, Bool.false_eq_true, if_false,
    Bool.not_true] at h
  cases h1 : reassociateApplications term with
  | none => simp only [h1] at h; cases h
  | some t1 =>
  simp only [h1] at h
  cases h2 : reassociateProductsAndQuotients t1 with
  | none => simp only [h2] at h; cases h
  | some t2 =>
  simp only [h2] at h
  cases h3 : reassociateSumsAndDifferences t2 with
  | none => simp only [h3] at h; cases h
  | some s3 =>
  simp only [h3] at h
  cases hres : resolve s3 (initialContext ctx).length
      { ctx := initialContext ctx, errors := [], nextHole := 0 } with
  | none => simp only [hres] at h; cases h
  | some p =>
  obtain ⟨resolved, st⟩ := p
  simp only [hres] at h
  cases hcd : checkDefinitions resolved st.ctx.length st.errors with
  | error f => cases f <;> (simp only [hcd] at h; cases h)
  | ok errors =>
  simp only [hcd] at h
  split at h
  · rename_i hemp
    injection h with h
    subst h
    refine ⟨s3, st, hres, ?_⟩
    have a := checkDefinitions_errs _ _ _ _ hcd
    have b : errors = [] := by simpa using hemp
    rw [b] at a
    exact List.eq_nil_of_length_eq_zero (by simpa using a)
  · cases h

end PModel

/-! ## The specification `toDB` only produces well-scoped terms -/

theorem Stack.bind_len {Γ Γ' : Stack} {x : Name} (h : Stack.bind Γ x = some Γ') :
    Γ'.length = Γ.length + 1 := by
  rw [Stack.bind_eq] at h
  split at h
  · cases h
  · cases h; rfl

theorem Stack.bindAll_len : ∀ (xs : List Name) (Γ Γ' : Stack), Stack.bindAll Γ xs = some Γ' →
    Γ'.length = Γ.length + xs.length
  | [], Γ, Γ', h => by simp only [Stack.bindAll, Option.some.injEq] at h; subst h; rfl
  | x :: xs, Γ, Γ', h => by
    simp only [Stack.bindAll] at h
    split at h
    · cases h
    · rename_i Γ1 h1
      have a := Stack.bind_len h1
      have b := Stack.bindAll_len xs Γ1 Γ' h
      simp only [List.length_cons]; omega

/-- what `toDB_ws` proves, for a term (`chain = none`) or the rest of a definition group -/
def WsOK (Γ : Stack) (chain : Option (Nat × Nat)) (t : Src) : Prop :=
  match chain with
  | none => ∀ u, toDB Γ t = some u → wellScoped Γ.length u = true
  | some (n, i) => n ≤ Γ.length → ∀ ds b, toDBChain Γ n i t = some (ds, b) →
      wellScopedDefs Γ.length ds = true ∧ wellScoped Γ.length b = true ∧ ds.len = (letNames t).length

theorem WsOK.of_nonlet {Γ : Stack} {chain : Option (Nat × Nat)} {r : SourceRange} {g : Bool} {v : SrcV}
    {es : List PErr} (hv : ∀ x a d b, v ≠ .let_ x a d b)
    (h : ∀ u, toDBV Γ v = some u → wellScoped Γ.length u = true) : WsOK Γ chain (.mk r g v es) := by
  cases chain with
  | none => intro u hu; exact h u (by simpa only [toDB] using hu)
  | some c =>
    obtain ⟨n, i⟩ := c
    intro _ ds b hc
    simp only [toDBChain] at hc
    rw [C08_chain_body_is_toDB Γ n i v hv] at hc
    cases ht : toDBV Γ v with
    | none => simp [ht] at hc
    | some u =>
      simp only [ht, Option.map_some, Option.some.injEq, Prod.mk.injEq] at hc
      obtain ⟨rfl, rfl⟩ := hc
      refine ⟨by simp [wellScopedDefs], h u ht, ?_⟩
      cases v <;> first | rfl | exact absurd rfl (hv _ _ _ _)

mutual
theorem toDB_ws : ∀ (t : Src) (chain : Option (Nat × Nat)) (Γ : Stack), WsOK Γ chain t
  | .mk r g .parseError es, ch, Γ => WsOK.of_nonlet (by simp) (by simp [toDBV])
  | .mk r g .type es, ch, Γ =>
      WsOK.of_nonlet (by simp) (by intro u h; simp only [toDBV, Option.some.injEq] at h; subst h; rfl)
  | .mk r g .int es, ch, Γ =>
      WsOK.of_nonlet (by simp) (by intro u h; simp only [toDBV, Option.some.injEq] at h; subst h; rfl)
  | .mk r g .bool es, ch, Γ =>
      WsOK.of_nonlet (by simp) (by intro u h; simp only [toDBV, Option.some.injEq] at h; subst h; rfl)
  | .mk r g .tt es, ch, Γ =>
      WsOK.of_nonlet (by simp) (by intro u h; simp only [toDBV, Option.some.injEq] at h; subst h; rfl)
  | .mk r g .ff es, ch, Γ =>
      WsOK.of_nonlet (by simp) (by intro u h; simp only [toDBV, Option.some.injEq] at h; subst h; rfl)
  | .mk r g (.lit k) es, ch, Γ =>
      WsOK.of_nonlet (by simp) (by intro u h; simp only [toDBV, Option.some.injEq] at h; subst h; rfl)
  | .mk r g (.var x) es, ch, Γ =>
      WsOK.of_nonlet (by simp) (by
        intro u h
        simp only [toDBV] at h
        split at h
        · cases h; simp [wellScoped]
        · split at h
          · rename_i i hi
            cases h
            simpa [wellScoped] using Stack.index_lt _ _ _ hi
          · cases h)
  | .mk r g (.lam x im dom body) es, ch, Γ =>
      WsOK.of_nonlet (by simp) (by
        intro u h
        simp only [toDBV] at h
        split at h
        · rename_i d Γ' hd hb
          split at h
          · rename_i b hbody
            cases h
            have hlen := Stack.bind_len hb
            have h1 := toDBOpt_ws dom Γ d hd
            have h2 := toDB_ws body none Γ' b hbody
            rw [hlen] at h2
            simp [wellScoped, h1, h2]
          · cases h
        · cases h)
  | .mk r g (.pi x im dom cod) es, ch, Γ =>
      WsOK.of_nonlet (by simp) (by
        intro u h
        simp only [toDBV] at h
        split at h
        · rename_i d Γ' hd hb
          split at h
          · rename_i b hbody
            cases h
            have hlen := Stack.bind_len hb
            have h1 := toDB_ws dom none Γ d hd
            have h2 := toDB_ws cod none Γ' b hbody
            rw [hlen] at h2
            simp [wellScoped, h1, h2]
          · cases h
        · cases h)
  | .mk r g (.app f a) es, ch, Γ =>
      WsOK.of_nonlet (by simp) (by
        intro u h
        simp only [toDBV] at h
        split at h
        · rename_i f' a' hf ha
          cases h
          simp [wellScoped, toDB_ws f none Γ f' hf, toDB_ws a none Γ a' ha]
        · cases h)
  | .mk r g (.neg a) es, ch, Γ =>
      WsOK.of_nonlet (by simp) (by
        intro u h
        simp only [toDBV] at h
        split at h
        · rename_i a' ha
          cases h
          simp [wellScoped, toDB_ws a none Γ a' ha]
        · cases h)
  | .mk r g (.bin op a b) es, ch, Γ =>
      WsOK.of_nonlet (by simp) (by
        intro u h
        simp only [toDBV] at h
        split at h
        · rename_i a' b' ha hb
          cases h
          simp [wellScoped, toDB_ws a none Γ a' ha, toDB_ws b none Γ b' hb]
        · cases h)
  | .mk r g (.ite c a b) es, ch, Γ =>
      WsOK.of_nonlet (by simp) (by
        intro u h
        simp only [toDBV] at h
        split at h
        · rename_i c' a' b' hc ha hb
          cases h
          simp [wellScoped, toDB_ws c none Γ c' hc, toDB_ws a none Γ a' ha, toDB_ws b none Γ b' hb]
        · cases h)
  | .mk r g (.let_ x ann defn body) es, none, Γ => by
      intro u h
      simp only [toDB, toDBV] at h
      split at h
      · cases h
      · rename_i Γ' hb
        split at h
        · rename_i a d rest b ha hd hc
          cases h
          have hlen := Stack.bindAll_len _ _ _ hb
          have h0 := toDBAnn_ws ann Γ' _ 0 a (by omega) ha
          have h1 := toDB_ws defn none Γ' d hd
          obtain ⟨h2, h3, h4⟩ := toDB_ws body (some (_, 1)) Γ' (by omega) rest b hc
          simp only [List.length_cons] at hlen
          rw [hlen, ← h4] at h0 h1 h2 h3
          simp [wellScoped, wellScopedDefs, h0, h1, h2, h3]
        · cases h
  | .mk r g (.let_ x ann defn body) es, some (n, i), Γ => by
      intro hn ds b h
      simp only [toDBChain, toDBChainV] at h
      split at h
      · rename_i a d rest b' ha hd hc
        simp only [Option.some.injEq, Prod.mk.injEq] at h
        obtain ⟨rfl, rfl⟩ := h
        have h0 := toDBAnn_ws ann Γ n i a hn ha
        have h1 := toDB_ws defn none Γ d hd
        obtain ⟨h2, h3, h4⟩ := toDB_ws body (some (n, i + 1)) Γ hn rest b' hc
        simp [wellScopedDefs, h0, h1, h2, h3, h4, letNames]
      · cases h
theorem toDBOpt_ws : ∀ (o : OptSrc) (Γ : Stack) (u : Tm), toDBOpt Γ o = some u →
    wellScoped Γ.length u = true
  | .none, Γ, u, h => by
      simp only [toDBOpt, Option.some.injEq] at h; subst h; simp [wellScoped]
  | .some t, Γ, u, h => by
      simp only [toDBOpt] at h
      exact toDB_ws t none Γ u h
theorem toDBAnn_ws : ∀ (o : OptSrc) (Γ : Stack) (n i : Nat) (u : Tm), n ≤ Γ.length →
    toDBAnn Γ o n i = some u → wellScoped Γ.length u = true
  | .none, Γ, n, i, u, hn, h => by
      simp only [toDBAnn, Option.some.injEq] at h; subst h
      simp only [wellScoped, decide_eq_true_eq]; omega
  | .some t, Γ, n, i, u, hn, h => by
      simp only [toDBAnn] at h
      exact toDB_ws t none Γ u h
end

/-! ## Hole identities do not matter for scoping -/

theorem eraseHoleIdsDefs_len : ∀ ds : Defs, (eraseHoleIdsDefs ds).len = ds.len
  | .nil => rfl
  | .cons _ _ _ r => by simp [eraseHoleIdsDefs, eraseHoleIdsDefs_len r]

mutual
theorem ws_eraseHoleIds : ∀ (t : Tm) (n : Nat), wellScoped n (eraseHoleIds t) = wellScoped n t
  | .hole _ _, n => by simp [eraseHoleIds, wellScoped]
  | .type, _ | .int, _ | .bool, _ | .tt, _ | .ff, _ | .lit _, _ | .var _ _, _ => by simp [eraseHoleIds]
  | .lam _ _ d b, n => by simp [eraseHoleIds, wellScoped, ws_eraseHoleIds d, ws_eraseHoleIds b]
  | .pi _ _ d b, n => by simp [eraseHoleIds, wellScoped, ws_eraseHoleIds d, ws_eraseHoleIds b]
  | .app f a, n => by simp [eraseHoleIds, wellScoped, ws_eraseHoleIds f, ws_eraseHoleIds a]
  | .letg ds b, n => by
      simp [eraseHoleIds, wellScoped, eraseHoleIdsDefs_len, wsDefs_eraseHoleIds ds, ws_eraseHoleIds b]
  | .neg a, n => by simp [eraseHoleIds, wellScoped, ws_eraseHoleIds a]
  | .bin _ a b, n => by simp [eraseHoleIds, wellScoped, ws_eraseHoleIds a, ws_eraseHoleIds b]
  | .ite c a b, n => by
      simp [eraseHoleIds, wellScoped, ws_eraseHoleIds c, ws_eraseHoleIds a, ws_eraseHoleIds b]
theorem wsDefs_eraseHoleIds : ∀ (ds : Defs) (n : Nat),
    wellScopedDefs n (eraseHoleIdsDefs ds) = wellScopedDefs n ds
  | .nil, _ => by simp [eraseHoleIdsDefs]
  | .cons _ a d r, n => by
      simp [eraseHoleIdsDefs, wellScopedDefs, ws_eraseHoleIds a, ws_eraseHoleIds d, wsDefs_eraseHoleIds r]
end

/-! ## What the parser hands over is well scoped -/

namespace PModel

/-- **The parser's output is well scoped in the context it was parsed in** (`context`: pairwise distinct
names, none of them `_` — for `gram check` / `gram run` the context is empty): every variable carries an
index below the number of enclosing binders plus the context length, and every hole (a `_`, an omitted
annotation) has its home scope. -/
theorem parseModel_ok_scoped {toks : Array PTok} {ctx : List Name} {r : RTm}
    (hnd : ctx.Nodup) (hph : ∀ x ∈ ctx, x ≠ placeholder) (h : parseModel toks ctx = .ok r) :
    wellScoped ctx.length r.erase = true := by
  unfold parseModel at h
  split at h
  · cases h
  · obtain ⟨s, st, hres, herr⟩ := finishParse_ok_resolve h
    obtain ⟨hinv, hlen⟩ := initialContext_inv ctx.reverse (List.pairwise_reverse.2 (List.Pairwise.imp Ne.symm hnd))
      (fun x hx => hph x (List.mem_reverse.1 hx))
    rw [List.reverse_reverse] at hinv hlen
    have hl : (ctx.reverse.map slot).length = (initialContext ctx).length := by
      rw [hlen, List.length_map]
    rw [← hl] at hres
    have hspec := C08_resolve_sound_fixed s (ctx.reverse.map slot) _ st r hinv.1 (hinv.2 trivial) hres herr
    have hws := toDB_ws s none _ _ hspec
    rw [ws_eraseHoleIds] at hws
    simpa using hws

end PModel

/-! ## The front end -/

/-- What the front end answers when nothing abnormal happens. -/
inductive FrontOutcome
  /-- the tokenizer rejected the text: the byte ranges of the unexpected symbols -/
  | lexErrors (es : List (Nat × Nat))
  /-- the parser (parse phase, name resolution or the definition-order check) rejected the tokens -/
  | parseErrors (es : List PModel.PErr)
  /-- the term handed to the type checker -/
  | term (r : PModel.RTm)

/-- The model's abnormal outcomes of the front end: a Rust `panic!` in the tokenizer, a Rust `panic!` /
failed `assert_eq!` in `parse`, the model parser running out of its recursion fuel. -/
inductive FrontAbnormal
  | lexPanic | parsePanic | parseOutOfFuel
deriving DecidableEq, Repr

/-- `tokenize`, then `parse` on the converted tokens (`I` interns identifier spellings; `ctx` is the
`context` slice of `parse`, empty for `gram check` / `gram run`). -/
def frontEnd (cc : CharClass) (I : List Char → Name) (text : List Char) (ctx : List Name) :
    Except FrontAbnormal FrontOutcome :=
  match tokenize cc text with
  | .panic => .error .lexPanic
  | .err es => .ok (.lexErrors es)
  | .ok ts =>
    match PModel.parseModel (ts.map (C10_toPTok I)).toArray ctx with
    | .panic => .error .parsePanic
    | .outOfFuel => .error .parseOutOfFuel
    | .errors es => .ok (.parseErrors es)
    | .ok r => .ok (.term r)

theorem frontEnd_term_iff {cc : CharClass} {I : List Char → Name} {text : List Char} {ctx : List Name}
    {r : PModel.RTm} : frontEnd cc I text ctx = .ok (.term r) ↔
      ∃ ts, tokenize cc text = .ok ts ∧ PModel.parseModel (ts.map (C10_toPTok I)).toArray ctx = .ok r := by
  unfold frontEnd
  constructor
  · intro h
    split at h
    · cases h
    · cases h
    · rename_i ts hts
      refine ⟨ts, hts, ?_⟩
      split at h
      · cases h
      · cases h
      · cases h
      · rename_i r' hr; cases h; exact hr
  · rintro ⟨ts, h1, h2⟩
    simp only [h1, h2]

/-- The term the front end hands to the type checker is well scoped in the context it was parsed in. -/
theorem frontEnd_term_scoped {cc : CharClass} {I : List Char → Name} {text : List Char} {ctx : List Name}
    {r : PModel.RTm} (hnd : ctx.Nodup) (hph : ∀ x ∈ ctx, x ≠ PModel.placeholder)
    (h : frontEnd cc I text ctx = .ok (.term r)) : wellScoped ctx.length r.erase = true := by
  obtain ⟨ts, _, h2⟩ := frontEnd_term_iff.1 h
  exact PModel.parseModel_ok_scoped hnd hph h2

/-! ## A concrete end-to-end run (non-vacuity of the composed theorems) -/

namespace FrontEndDemo

/-- the text `((x : int) => x + 1) 2` -/
def text : List Char :=
  ['(', '(', 'x', ' ', ':', ' ', 'i', 'n', 't', ')', ' ', '=', '>', ' ', 'x', ' ', '+', ' ', '1', ')', ' ', '2']

/-- its tokens, as the tokenizer model (classifier `C10_cc`: ASCII letters, digits, blank/tab/line feed)
produces them -/
def toks : List Tok :=
  [⟨.leftParen, 0, 1⟩, ⟨.leftParen, 1, 2⟩, ⟨.identifier ['x'], 2, 3⟩, ⟨.colon, 4, 5⟩, ⟨.integer, 6, 9⟩,
   ⟨.rightParen, 9, 10⟩, ⟨.thickArrow, 11, 13⟩, ⟨.identifier ['x'], 14, 15⟩, ⟨.plus, 16, 17⟩,
   ⟨.integerLiteral 1, 18, 19⟩, ⟨.rightParen, 19, 20⟩, ⟨.integerLiteral 2, 21, 22⟩]

/-- the term: `x` is interned as `1` (`List.length` of its spelling) -/
def tm : Tm := .app (.lam 1 false .int (.bin .sum (.var 1 0) (.lit 1))) (.lit 2)

theorem tokenize_text : tokenize C10_cc text = .ok toks := by decide +kernel

/-- the front end, run by the kernel on the text (parse phase through its cache-free twin,
`PModel.runParser_eval`), answers with a term whose erasure is `tm` -/
theorem frontEnd_text : ∃ r, frontEnd C10_cc List.length text [] = .ok (.term r) ∧ r.erase = tm := by
  obtain ⟨p, st, hp, ho⟩ := PModel.runParser_eval (toks.map (C10_toPTok List.length)).toArray 100
    (fun p => match PModel.finishParse (toks.map (C10_toPTok List.length)).toArray [] p.term p.next with
      | .ok t => some t.erase
      | _ => none) (some tm) (by decide +kernel)
  split at ho
  · rename_i t ht
    refine ⟨t, frontEnd_term_iff.2 ⟨toks, tokenize_text, ?_⟩, by simpa using ho⟩
    unfold PModel.parseModel
    rw [hp]
    exact ht
  · cases ho

end FrontEndDemo
