import GramModel.Parser

/-!
# `sortDedup` (the model of `HashSet → Vec → sort_unstable` in `check_definition`) depends on its
argument only as a *set*: any iteration order of the hash set, with any multiplicity, gives the same
visiting order.
-/

namespace PModel

theorem mem_insertSorted (x y : Nat) : ∀ (l : List Nat), y ∈ insertSorted x l ↔ y = x ∨ y ∈ l
  | [] => by simp [insertSorted]
  | z :: zs => by
      simp only [insertSorted]
      split
      · simp
      · split
        · rename_i h1 h2; subst h2; simp
        · simp [mem_insertSorted x y zs]; grind

theorem mem_sortDedup (y : Nat) : ∀ (l : List Nat), y ∈ sortDedup l ↔ y ∈ l
  | [] => by simp [sortDedup]
  | x :: xs => by
      have ih := mem_sortDedup y xs
      simp only [sortDedup, List.foldr_cons] at ih ⊢
      rw [mem_insertSorted, ih]; simp

theorem pairwise_insertSorted (x : Nat) : ∀ (l : List Nat), l.Pairwise (· < ·) → (insertSorted x l).Pairwise (· < ·)
  | [], _ => by simp [insertSorted]
  | z :: zs, h => by
      simp only [insertSorted]
      have hz := List.pairwise_cons.mp h
      split
      · rename_i h1
        refine List.pairwise_cons.mpr ⟨?_, h⟩
        intro a ha
        rcases List.mem_cons.mp ha with rfl | ha
        · exact h1
        · exact Nat.lt_trans h1 (hz.1 a ha)
      · split
        · exact h
        · rename_i h1 h2
          refine List.pairwise_cons.mpr ⟨?_, pairwise_insertSorted x zs hz.2⟩
          intro a ha
          rcases (mem_insertSorted x a zs).mp ha with rfl | ha
          · omega
          · exact hz.1 a ha

theorem pairwise_sortDedup : ∀ (l : List Nat), (sortDedup l).Pairwise (· < ·)
  | [] => by simp [sortDedup]
  | x :: xs => by
      have ih := pairwise_sortDedup xs
      simp only [sortDedup, List.foldr_cons] at ih ⊢
      exact pairwise_insertSorted x _ ih

theorem strictSorted_ext : ∀ (a b : List Nat), a.Pairwise (· < ·) → b.Pairwise (· < ·) →
    (∀ x, x ∈ a ↔ x ∈ b) → a = b
  | [], [], _, _, _ => rfl
  | [], y :: ys, _, _, h => by have := (h y).mpr (by simp); simp at this
  | x :: xs, [], _, _, h => by have := (h x).mp (by simp); simp at this
  | x :: xs, y :: ys, ha, hb, h => by
      have hx := List.pairwise_cons.mp ha
      have hy := List.pairwise_cons.mp hb
      have hxy : x = y := by
        have h1 := (h x).mp (by simp)
        have h2 := (h y).mpr (by simp)
        rcases List.mem_cons.mp h1 with e | h1
        · exact e
        · rcases List.mem_cons.mp h2 with e | h2
          · exact e.symm
          · have := hy.1 x h1; have := hx.1 y h2; omega
      subst hxy
      congr 1
      apply strictSorted_ext xs ys hx.2 hy.2
      intro z
      constructor
      · intro hz
        have := (h z).mp (List.mem_cons_of_mem _ hz)
        rcases List.mem_cons.mp this with e | h'
        · subst e; have := hx.1 z hz; omega
        · exact h'
      · intro hz
        have := (h z).mpr (List.mem_cons_of_mem _ hz)
        rcases List.mem_cons.mp this with e | h'
        · subst e; have := hy.1 z hz; omega
        · exact h'

/-- the visiting order of `check_definition` is a function of the SET of free variables -/
theorem sortDedup_set (xs ys : List Nat) (h : ∀ x, x ∈ xs ↔ x ∈ ys) : sortDedup xs = sortDedup ys :=
  strictSorted_ext _ _ (pairwise_sortDedup xs) (pairwise_sortDedup ys)
    (fun x => by rw [mem_sortDedup, mem_sortDedup, h])

end PModel
