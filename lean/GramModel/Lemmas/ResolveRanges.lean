import GramModel.Lemmas.ParserSpan
import GramModel.Lemmas.Names

/-! Scoping diagnostics of `resolve_variables` at range level (properties C15 / C08).

`resolveAux` is a state machine over a name→depth map with `insert` / `remove` where the Rust scope
guards run.  Here its *error behaviour* is factored through a linear sequence of **scope events**
(`events t chain`): a variable occurrence, a binder entry, a scope exit.  `runE` interprets an event
sequence over a set of bound names: a variable event reports its range iff the name is not the
placeholder and not bound; a binder event reports the range of the binder's identifier iff the name
is not the placeholder and already bound (and binds it anyway); nothing else is ever reported.
The simulation theorem `resolveAux_events` says the resolver appends exactly `runE (events t …)`.

The event sequence is a list, so it is insensitive to re-bracketing: the three re-association
passes preserve it verbatim (`reassoc_events`).  Hence everything can be stated for the parse tree
`s` (`SegT`) although the resolver runs on the re-associated tree. -/

namespace PModel

/-! ## Scope events and their interpretation -/

/-- A scope event of `resolve_variables`. -/
inductive Ev
  | var (r : SourceRange) (x : Name)   -- `Variant::Variable(x)` at a node of range `r`
  | bind (v : SrcVar)                   -- entry of a binder (λ, Π, definition of a group)
  | unbind (x : Name)                   -- `context.remove(x)` (a `defer!`)
deriving DecidableEq, Repr

/-- A set of bound names. -/
abbrev Bound := Name → Bool

def Bound.ins (x : Name) (B : Bound) : Bound := fun y => y == x || B y
def Bound.rem (x : Name) (B : Bound) : Bound := fun y => !(y == x) && B y

/-- The set of bound names after an event. -/
def Ev.stepB : Ev → Bound → Bound
  | .var _ _, B => B
  | .bind v, B => if v.name != placeholder then B.ins v.name else B
  | .unbind x, B => B.rem x

/-- The ranges reported by an event: "not in scope" for an unbound non-placeholder variable (range of
the variable node), "already exists" for a non-placeholder binder whose name is bound (range of the
binder's identifier). -/
def Ev.stepE : Ev → Bound → List SourceRange
  | .var r x, B => if x != placeholder && !B x then [r] else []
  | .bind v, B => if v.name != placeholder && B v.name then [v.range] else []
  | .unbind _, _ => []

def runB : List Ev → Bound → Bound
  | [], B => B
  | e :: es, B => runB es (e.stepB B)

def runE : List Ev → Bound → List SourceRange
  | [], _ => []
  | e :: es, B => e.stepE B ++ runE es (e.stepB B)

theorem runB_append : ∀ (e1 e2 : List Ev) (B : Bound), runB (e1 ++ e2) B = runB e2 (runB e1 B)
  | [], _, _ => rfl
  | e :: es, e2, B => by simp [runB, runB_append es]

theorem runE_append : ∀ (e1 e2 : List Ev) (B : Bound),
    runE (e1 ++ e2) B = runE e1 B ++ runE e2 (runB e1 B)
  | [], _, _ => rfl
  | e :: es, e2, B => by simp [runE, runB, runE_append es]

/-- The binders of a chain of nested lets (what `collect_definitions` flattens), in source order. -/
def letBinders : Src → List SrcVar
  | .mk _ _ (.let_ x _ _ body) _ => x :: letBinders body
  | _ => []

theorem collectDefinitions_binders : ∀ (t : Src), (collectDefinitions t).1.map (·.1) = letBinders t
  | .mk _ _ (.let_ v ann defn body) _ => by
      simp only [collectDefinitions, letBinders, List.map_cons]
      rw [collectDefinitions_binders body]
  | .mk _ _ .parseError _ | .mk _ _ .type _ | .mk _ _ (.var _) _ | .mk _ _ (.lam ..) _
  | .mk _ _ (.pi ..) _ | .mk _ _ (.app ..) _ | .mk _ _ .int _ | .mk _ _ (.lit _) _
  | .mk _ _ (.neg _) _ | .mk _ _ (.bin ..) _ | .mk _ _ .bool _ | .mk _ _ .tt _ | .mk _ _ .ff _
  | .mk _ _ (.ite ..) _ => by simp [collectDefinitions, letBinders]

/-- First loop of the `Let` arm. -/
def bindEvs (vs : List SrcVar) : List Ev := vs.map .bind
/-- The `defer!` of the `Let` arm. -/
def unbindEvs : List SrcVar → List Ev
  | [] => []
  | v :: vs => if v.name != placeholder then .unbind v.name :: unbindEvs vs else unbindEvs vs

mutual
/-- The scope events of `resolve_variables` on `t`, in the order in which they happen.
`chain = true`: `t` is the continuation of a group whose names are already registered. -/
def events (t : Src) (chain : Bool) : List Ev :=
  match t with
  | .mk range _ v _ =>
    match v with
    | .parseError => []
    | .type => []
    | .var x => [.var range x]
    | .lam x _ dom body => eventsOpt dom ++ (.bind x :: (events body false ++ [.unbind x.name]))
    | .pi x _ dom cod => events dom false ++ (.bind x :: (events cod false ++ [.unbind x.name]))
    | .app f a => events f false ++ events a false
    | .let_ x ann defn body =>
      (if chain then [] else bindEvs (x :: letBinders body)) ++
        ((eventsOpt ann ++ (events defn false ++ events body true)) ++
          (if chain then [] else unbindEvs (x :: letBinders body)))
    | .int => []
    | .lit _ => []
    | .neg a => events a false
    | .bin _ a b => events a false ++ events b false
    | .bool => []
    | .tt => []
    | .ff => []
    | .ite c a b => events c false ++ (events a false ++ events b false)
termination_by structural t
def eventsOpt (o : OptSrc) : List Ev :=
  match o with
  | .none => []
  | .some t => events t false
termination_by structural o
end

/-! ## The resolver performs exactly these events -/

/-- The name→depth map has exactly the keys `B`. -/
def Agree (c : Ctx) (B : Bound) : Prop := ∀ y, c.containsKey y = B y

theorem Agree.insert {c : Ctx} {B : Bound} (h : Agree c B) (x : Name) (d : Nat) :
    Agree (c.insert x d) (B.ins x) := by
  intro y
  rw [Ctx.containsKey_eq, Ctx.get_insert]
  by_cases hy : y = x
  · simp [hy, Bound.ins]
  · simp [hy, Bound.ins, ← h y, Ctx.containsKey_eq]

theorem Agree.remove {c : Ctx} {B : Bound} (h : Agree c B) (x : Name) :
    Agree (c.remove x) (B.rem x) := by
  intro y
  rw [Ctx.containsKey_eq, Ctx.get_remove]
  by_cases hy : y = x
  · simp [hy, Bound.rem]
  · simp [hy, Bound.rem, ← h y, Ctx.containsKey_eq]

/-- `st'` is `st` after the events `evs` from the bound set `B`: the keys are `runB evs B` and the
reported errors are exactly `runE evs B`, one single-range listing each, appended in order. -/
def Sim (B : Bound) (evs : List Ev) (st st' : RState) : Prop :=
  Agree st'.ctx (runB evs B) ∧ st'.errors = st.errors ++ (runE evs B).map (fun r => [r])

theorem Sim.nil {B : Bound} {st : RState} (h : Agree st.ctx B) : Sim B [] st st :=
  ⟨h, by simp [runE]⟩

theorem Sim.trans {B : Bound} {e1 e2 : List Ev} {s0 s1 s2 : RState}
    (h1 : Sim B e1 s0 s1) (h2 : Sim (runB e1 B) e2 s1 s2) : Sim B (e1 ++ e2) s0 s2 := by
  refine ⟨?_, ?_⟩
  · rw [runB_append]; exact h2.1
  · rw [h2.2, h1.2, runE_append, List.map_append, List.append_assoc]

theorem Sim.congr {B : Bound} {evs : List Ev} {s0 s1 s2 : RState} (h : Sim B evs s0 s1)
    (hc : s2.ctx = s1.ctx) (he : s2.errors = s1.errors) : Sim B evs s0 s2 := by
  unfold Sim; rw [hc, he]; exact h

theorem bindName_sim {v : SrcVar} {d : Nat} {B : Bound} {st st' : RState} {u : Unit}
    (hB : Agree st.ctx B) (h : bindName v d st = some (u, st')) : Sim B [.bind v] st st' := by
  unfold bindName at h
  by_cases hv : v.name = placeholder
  · simp [hv] at h
    subst h
    refine ⟨?_, ?_⟩
    · simpa [runB, Ev.stepB, hv] using hB
    · simp [runE, Ev.stepE, hv]
  · have hv' : (v.name != placeholder) = true := by simp [hv]
    simp only [hv', if_true, Option.some.injEq, Prod.mk.injEq] at h
    obtain ⟨_, rfl⟩ := h
    refine ⟨?_, ?_⟩
    · simp only [runB, Ev.stepB, hv', if_true]
      exact hB.insert _ _
    · simp only [runE, Ev.stepE, hv', Bool.true_and, ← hB v.name, List.append_nil]
      cases st.ctx.containsKey v.name <;> simp

theorem unbindName_sim {x : Name} {B : Bound} {st st' : RState} {u : Unit}
    (hB : Agree st.ctx B) (h : unbindName x st = some (u, st')) : Sim B [.unbind x] st st' := by
  rw [unbindName_inv h]
  exact ⟨by simpa [runB, Ev.stepB] using hB.remove x, by simp [runE, Ev.stepE]⟩

theorem bindDefinitions_sim (depth : Nat) :
    ∀ (ds : List (SrcVar × OptSrc × Src)) (i : Nat) (B : Bound) (st st' : RState) (u : Unit),
    Agree st.ctx B → bindDefinitions depth ds i st = some (u, st') →
    Sim B (bindEvs (ds.map (·.1))) st st'
  | [], i, B, st, st', u, hB, h => by
      simp only [bindDefinitions, StateT_pure_some] at h
      rw [← h.2]
      exact Sim.nil hB
  | (v, a, d) :: rest, i, B, st, st', u, hB, h => by
      simp only [bindDefinitions, StateT_bind_some] at h
      obtain ⟨u1, s1, h1, h2⟩ := h
      have s1' := bindName_sim hB h1
      have s2' := bindDefinitions_sim depth rest (i + 1) _ s1 st' u s1'.1 h2
      exact s1'.trans s2'

theorem unbindDefinitions_sim :
    ∀ (ds : List (SrcVar × OptSrc × Src)) (B : Bound) (st st' : RState) (u : Unit),
    Agree st.ctx B → unbindDefinitions ds st = some (u, st') →
    Sim B (unbindEvs (ds.map (·.1))) st st'
  | [], B, st, st', u, hB, h => by
      simp only [unbindDefinitions, StateT_pure_some] at h
      rw [← h.2]
      exact Sim.nil hB
  | (v, a, d) :: rest, B, st, st', u, hB, h => by
      simp only [unbindDefinitions] at h
      split at h
      · rename_i hv'
        simp only [StateT_bind_some] at h
        obtain ⟨u1, s1, h1, h2⟩ := h
        have s1' := unbindName_sim hB h1
        have s2' := unbindDefinitions_sim rest _ s1 st' u s1'.1 h2
        simpa [unbindEvs, hv'] using s1'.trans s2'
      · rename_i hv'
        simpa [unbindEvs, hv'] using unbindDefinitions_sim rest B st st' u hB h


theorem Sim.var_bound {B : Bound} {st : RState} {r : SourceRange} {x : Name}
    (hB : Agree st.ctx B) (hx : st.ctx.containsKey x = true) : Sim B [.var r x] st st := by
  refine ⟨by simpa [runB, Ev.stepB] using hB, ?_⟩
  rw [hB x] at hx
  simp [runE, Ev.stepE, hx]

mutual
/-- **Simulation.**  Whatever the context, the depth and the chain position, `resolveAux` changes
the key set and the error list exactly as the scope events of the tree prescribe. -/
theorem resolveAux_events : ∀ (t : Src) (chain : Option (Nat × Nat)) (depth : Nat) (B : Bound)
    (st : RState) (res : RDefs × RTm) (st' : RState),
    Agree st.ctx B → resolveAux t chain depth st = some (res, st') →
    Sim B (events t chain.isSome) st st'
  | .mk range g .parseError es, chain, depth, B, st, res, st', hB, h => by
      unfold resolveAux at h; simp at h
  | .mk range g .type es, chain, depth, B, st, res, st', hB, h => by
      unfold resolveAux at h
      obtain ⟨rfl, rfl⟩ := pure_inv h
      simpa [events] using Sim.nil hB
  | .mk range g .int es, chain, depth, B, st, res, st', hB, h => by
      unfold resolveAux at h
      obtain ⟨rfl, rfl⟩ := pure_inv h
      simpa [events] using Sim.nil hB
  | .mk range g .bool es, chain, depth, B, st, res, st', hB, h => by
      unfold resolveAux at h
      obtain ⟨rfl, rfl⟩ := pure_inv h
      simpa [events] using Sim.nil hB
  | .mk range g .tt es, chain, depth, B, st, res, st', hB, h => by
      unfold resolveAux at h
      obtain ⟨rfl, rfl⟩ := pure_inv h
      simpa [events] using Sim.nil hB
  | .mk range g .ff es, chain, depth, B, st, res, st', hB, h => by
      unfold resolveAux at h
      obtain ⟨rfl, rfl⟩ := pure_inv h
      simpa [events] using Sim.nil hB
  | .mk range g (.lit n) es, chain, depth, B, st, res, st', hB, h => by
      unfold resolveAux at h
      obtain ⟨rfl, rfl⟩ := pure_inv h
      simpa [events] using Sim.nil hB
  | .mk range g (.var x) es, chain, depth, B, st, res, st', hB, h => by
      unfold resolveAux at h
      simp only [events]
      cases hg : st.ctx.get x with
      | some vd =>
        simp only [hg, Option.some.injEq, Prod.mk.injEq] at h
        obtain ⟨_, rfl⟩ := h
        exact Sim.var_bound hB (by simp [Ctx.containsKey_eq, hg])
      | none =>
        simp only [hg, Option.some.injEq, Prod.mk.injEq] at h
        obtain ⟨_, rfl⟩ := h
        have hx : B x = false := by rw [← hB x, Ctx.containsKey_eq, hg]; rfl
        refine ⟨by simpa [runB, Ev.stepB] using hB, ?_⟩
        simp only [runE, Ev.stepE, hx, Bool.not_false, Bool.and_true, List.append_nil]
        cases (x != placeholder) <;> simp
  | .mk range g (.lam x imp dom body) es, chain, depth, B, st, res, st', hB, h => by
      unfold resolveAux at h
      simp only [StateT_bind_some] at h
      obtain ⟨a, s1, h1, u, s2, h2, h3⟩ := h
      have k1 := resolveOpt_events dom depth B st a s1 hB h1
      have k2 := bindName_sim k1.1 h2
      have key : ∀ (d' : RTm) (s3 : RState), s3.ctx = s2.ctx → s3.errors = s2.errors →
          (∃ p4 s4, resolveAux body none (depth + 1) s3 = some (p4, s4) ∧
            ∃ u' s5, unbindName x.name s4 = some (u', s5) ∧
              (pure (RDefs.nil, RTm.mk (some range) (RTmV.lam x.name imp d' p4.snd)) : ResolveM _) s5
                = some (res, st')) →
          Sim B (events (.mk range g (.lam x imp dom body) es) chain.isSome) st st' := by
        intro d' s3 hc3 he3 ⟨p4, s4, h4, u', s5, h5, h6⟩
        obtain ⟨_, rfl⟩ := pure_inv h6
        have k12 := (k1.trans k2).congr hc3 he3
        have k3 := resolveAux_events body none (depth + 1) _ s3 p4 s4 k12.1 h4
        have k4 := unbindName_sim (k12.trans k3).1 h5
        have := (k12.trans k3).trans k4
        simpa [events, List.append_assoc] using this
      cases a with
      | some d =>
        simp only [StateT_bind_some] at h3
        obtain ⟨d', s3, h3, rest⟩ := h3
        obtain ⟨rfl, rfl⟩ := pure_inv h3
        exact key d s2 rfl rfl rest
      | none =>
        simp only [StateT_bind_some] at h3
        obtain ⟨d', s3, h3, rest⟩ := h3
        obtain ⟨rfl, rfl⟩ := freshHole_inv h3
        exact key (RTm.mk none (RTmV.hole s2.nextHole 0))
          { ctx := s2.ctx, errors := s2.errors, nextHole := s2.nextHole + 1 } rfl rfl rest
  | .mk range g (.pi x imp dom cod) es, chain, depth, B, st, res, st', hB, h => by
      unfold resolveAux at h
      simp only [StateT_bind_some] at h
      obtain ⟨p1, s1, h1, u, s2, h2, p3, s3, h3, u', s4, h4, h5⟩ := h
      obtain ⟨_, rfl⟩ := pure_inv h5
      have k1 := resolveAux_events dom none depth B st p1 s1 hB h1
      have k2 := bindName_sim k1.1 h2
      have k12 := k1.trans k2
      have k3 := resolveAux_events cod none (depth + 1) _ s2 p3 s3 k12.1 h3
      have k4 := unbindName_sim (k12.trans k3).1 h4
      have := (k12.trans k3).trans k4
      simpa [events, List.append_assoc] using this
  | .mk range g (.app f a) es, chain, depth, B, st, res, st', hB, h => by
      unfold resolveAux at h
      simp only [StateT_bind_some] at h
      obtain ⟨p1, s1, h1, p2, s2, h2, h3⟩ := h
      obtain ⟨_, rfl⟩ := pure_inv h3
      have k1 := resolveAux_events f none depth B st p1 s1 hB h1
      have k2 := resolveAux_events a none depth _ s1 p2 s2 k1.1 h2
      simpa [events] using k1.trans k2
  | .mk range g (.neg a) es, chain, depth, B, st, res, st', hB, h => by
      unfold resolveAux at h
      simp only [StateT_bind_some] at h
      obtain ⟨p1, s1, h1, h3⟩ := h
      obtain ⟨_, rfl⟩ := pure_inv h3
      simpa [events] using resolveAux_events a none depth B st p1 s1 hB h1
  | .mk range g (.bin o a b) es, chain, depth, B, st, res, st', hB, h => by
      unfold resolveAux at h
      simp only [StateT_bind_some] at h
      obtain ⟨p1, s1, h1, p2, s2, h2, h3⟩ := h
      obtain ⟨_, rfl⟩ := pure_inv h3
      have k1 := resolveAux_events a none depth B st p1 s1 hB h1
      have k2 := resolveAux_events b none depth _ s1 p2 s2 k1.1 h2
      simpa [events] using k1.trans k2
  | .mk range g (.ite c a b) es, chain, depth, B, st, res, st', hB, h => by
      unfold resolveAux at h
      simp only [StateT_bind_some] at h
      obtain ⟨p0, s0, h0, p1, s1, h1, p2, s2, h2, h3⟩ := h
      obtain ⟨_, rfl⟩ := pure_inv h3
      have k0 := resolveAux_events c none depth B st p0 s0 hB h0
      have k1 := resolveAux_events a none depth _ s0 p1 s1 k0.1 h1
      have k01 := k0.trans k1
      have k2 := resolveAux_events b none depth _ s1 p2 s2 k01.1 h2
      simpa [events, List.append_assoc] using k01.trans k2
  | .mk range g (.let_ x ann defn body) es, some (n, i), depth, B, st, res, st', hB, h => by
      unfold resolveAux at h
      simp only [StateT_bind_some] at h
      obtain ⟨p0, s0, h0, p1, s1, h1, p2, s2, h2, h3⟩ := h
      obtain ⟨_, rfl⟩ := pure_inv h3
      have k0 := resolveAnnotation_events ann n i depth B st p0 s0 hB h0
      have k1 := resolveAux_events defn none depth _ s0 p1 s1 k0.1 h1
      have k01 := k0.trans k1
      have k2 := resolveAux_events body (some (n, i + 1)) depth _ s1 p2 s2 k01.1 h2
      simpa [events, List.append_assoc] using k01.trans k2
  | .mk range g (.let_ x ann defn body) es, none, depth, B, st, res, st', hB, h => by
      unfold resolveAux at h
      simp only [StateT_bind_some] at h
      obtain ⟨u, sb, hb, p0, s0, h0, p1, s1, h1, p2, s2, h2, u', s3, h3, h4⟩ := h
      obtain ⟨_, rfl⟩ := pure_inv h4
      have kb := bindDefinitions_sim depth _ 0 B st sb u hB hb
      have k0 := resolveAnnotation_events ann _ 0 _ _ sb p0 s0 kb.1 h0
      have kb0 := kb.trans k0
      have k1 := resolveAux_events defn none _ _ s0 p1 s1 kb0.1 h1
      have kb1 := kb0.trans k1
      have k2 := resolveAux_events body (some (_, 1)) _ _ s1 p2 s2 kb1.1 h2
      have kb2 := kb1.trans k2
      have k3 := unbindDefinitions_sim _ _ s2 s3 u' kb2.1 h3
      have := kb2.trans k3
      simpa [events, List.append_assoc, collectDefinitions_binders] using this
theorem resolveOpt_events : ∀ (o : OptSrc) (depth : Nat) (B : Bound) (st : RState)
    (res : Option RTm) (st' : RState),
    Agree st.ctx B → resolveOpt o depth st = some (res, st') → Sim B (eventsOpt o) st st'
  | .none, depth, B, st, res, st', hB, h => by
      unfold resolveOpt at h
      obtain ⟨_, rfl⟩ := pure_inv h
      simpa [eventsOpt] using Sim.nil hB
  | .some t, depth, B, st, res, st', hB, h => by
      unfold resolveOpt at h
      simp only [StateT_bind_some] at h
      obtain ⟨p1, s1, h1, h3⟩ := h
      obtain ⟨_, rfl⟩ := pure_inv h3
      simpa [eventsOpt] using resolveAux_events t none depth B st p1 s1 hB h1
theorem resolveAnnotation_events : ∀ (o : OptSrc) (n i newDepth : Nat) (B : Bound)
    (st : RState) (res : RTm) (st' : RState),
    Agree st.ctx B → resolveAnnotation o n i newDepth st = some (res, st') →
    Sim B (eventsOpt o) st st'
  | .none, n, i, depth, B, st, res, st', hB, h => by
      unfold resolveAnnotation at h
      obtain ⟨_, rfl⟩ := freshHole_inv h
      simp only [eventsOpt]
      exact ⟨hB, by simp [runE]⟩
  | .some t, n, i, depth, B, st, res, st', hB, h => by
      unfold resolveAnnotation at h
      simp only [StateT_bind_some] at h
      obtain ⟨p1, s1, h1, h3⟩ := h
      obtain ⟨_, rfl⟩ := pure_inv h3
      simpa [eventsOpt] using resolveAux_events t none depth B st p1 s1 hB h1
end

theorem resolve_events {t : Src} {depth : Nat} {B : Bound} {st st' : RState} {r : RTm}
    (hB : Agree st.ctx B) (h : resolve t depth st = some (r, st')) :
    Sim B (events t false) st st' := by
  unfold resolve at h
  simp only [StateT_bind_some] at h
  obtain ⟨p1, s1, h1, h3⟩ := h
  obtain ⟨_, rfl⟩ := pure_inv h3
  exact resolveAux_events t none depth B st p1 s1 hB h1


/-! ## What is reported, where, and in which order -/

/-- The range an event can report (none for placeholders and scope exits). -/
def Ev.cand : Ev → List SourceRange
  | .var r x => if x != placeholder then [r] else []
  | .bind v => if v.name != placeholder then [v.range] else []
  | .unbind _ => []

/-- The candidate ranges of an event sequence, in order. -/
def cands : List Ev → List SourceRange
  | [] => []
  | e :: es => e.cand ++ cands es

theorem Ev.stepE_sublist (e : Ev) (B : Bound) : (e.stepE B).Sublist e.cand := by
  cases e with
  | var r x =>
    simp only [Ev.stepE, Ev.cand]
    cases (x != placeholder) <;> cases (B x) <;> simp
  | bind v =>
    simp only [Ev.stepE, Ev.cand]
    cases (v.name != placeholder) <;> cases (B v.name) <;> simp
  | unbind x => simp [Ev.stepE, Ev.cand]

theorem runE_sublist : ∀ (evs : List Ev) (B : Bound), (runE evs B).Sublist (cands evs)
  | [], _ => by simp [runE, cands]
  | e :: es, B => by
      simp only [runE, cands]
      exact (e.stepE_sublist B).append (runE_sublist es _)

/-- **Exactness.**  A range is reported iff it belongs to a variable event whose name is not the
placeholder and not bound at that point, or it is the identifier range of a binder event whose name
is not the placeholder and bound at that point. -/
theorem mem_runE : ∀ (evs : List Ev) (B : Bound) (r : SourceRange),
    r ∈ runE evs B ↔
      (∃ pre post x, evs = pre ++ .var r x :: post ∧ x ≠ placeholder ∧ runB pre B x = false) ∨
      (∃ pre post v, evs = pre ++ .bind v :: post ∧ v.name ≠ placeholder ∧
        runB pre B v.name = true ∧ r = v.range)
  | [], B, r => by simp [runE]
  | e :: es, B, r => by
      simp only [runE, List.mem_append, mem_runE es]
      constructor
      · rintro (h | ⟨pre, post, x, rfl, hx, hb⟩ | ⟨pre, post, v, rfl, hv, hb, rfl⟩)
        · cases e with
          | var r' x =>
            simp only [Ev.stepE] at h
            split at h
            · rename_i hc
              simp only [List.mem_singleton] at h; subst h
              simp only [Bool.and_eq_true, bne_iff_ne, ne_eq, Bool.not_eq_true'] at hc
              exact Or.inl ⟨[], es, x, rfl, hc.1, by simpa [runB] using hc.2⟩
            · simp at h
          | bind v =>
            simp only [Ev.stepE] at h
            split at h
            · rename_i hc
              simp only [List.mem_singleton] at h; subst h
              simp only [Bool.and_eq_true, bne_iff_ne, ne_eq] at hc
              exact Or.inr ⟨[], es, v, rfl, hc.1, by simpa [runB] using hc.2, rfl⟩
            · simp at h
          | unbind x => simp [Ev.stepE] at h
        · exact Or.inl ⟨e :: pre, post, x, rfl, hx, by simpa [runB] using hb⟩
        · exact Or.inr ⟨e :: pre, post, v, rfl, hv, by simpa [runB] using hb, rfl⟩
      · rintro (⟨pre, post, x, he, hx, hb⟩ | ⟨pre, post, v, he, hv, hb, rfl⟩)
        · cases pre with
          | nil =>
            simp only [List.nil_append, List.cons.injEq] at he
            obtain ⟨rfl, rfl⟩ := he
            simp only [runB] at hb
            left; simp [Ev.stepE, hx, hb]
          | cons e' pre' =>
            simp only [List.cons_append, List.cons.injEq] at he
            obtain ⟨rfl, rfl⟩ := he
            right; left; exact ⟨pre', post, x, rfl, hx, by simpa [runB] using hb⟩
        · cases pre with
          | nil =>
            simp only [List.nil_append, List.cons.injEq] at he
            obtain ⟨rfl, rfl⟩ := he
            simp only [runB] at hb
            left; simp [Ev.stepE, hv, hb]
          | cons e' pre' =>
            simp only [List.cons_append, List.cons.injEq] at he
            obtain ⟨rfl, rfl⟩ := he
            right; right; exact ⟨pre', post, v, rfl, hv, by simpa [runB] using hb, rfl⟩

theorem mem_cands : ∀ (evs : List Ev) (r : SourceRange), r ∈ cands evs →
    (∃ x, .var r x ∈ evs ∧ x ≠ placeholder) ∨ (∃ v, .bind v ∈ evs ∧ v.name ≠ placeholder ∧ r = v.range)
  | [], r, h => by simp [cands] at h
  | e :: es, r, h => by
      simp only [cands, List.mem_append] at h
      rcases h with h | h
      · cases e with
        | var r' x =>
          simp only [Ev.cand] at h
          split at h
          · rename_i hc
            simp only [List.mem_singleton] at h; subst h
            exact Or.inl ⟨x, by simp, by simpa using hc⟩
          · simp at h
        | bind v =>
          simp only [Ev.cand] at h
          split at h
          · rename_i hc
            simp only [List.mem_singleton] at h; subst h
            exact Or.inr ⟨v, by simp, by simpa using hc, rfl⟩
          · simp at h
        | unbind x => simp [Ev.cand] at h
      · rcases mem_cands es r h with ⟨x, h1, h2⟩ | ⟨v, h1, h2, h3⟩
        · exact Or.inl ⟨x, List.mem_cons_of_mem _ h1, h2⟩
        · exact Or.inr ⟨v, List.mem_cons_of_mem _ h1, h2, h3⟩

/-! ## Candidate ranges read off the tree -/

/-- The identifier range of a binder that can report (not the placeholder). -/
def bindRange (v : SrcVar) : List SourceRange := if v.name != placeholder then [v.range] else []

mutual
/-- The ranges of the variable nodes of `t` (placeholders excepted), in field order. -/
def varRanges (t : Src) : List SourceRange :=
  match t with
  | .mk range _ v _ =>
    match v with
    | .parseError => []
    | .type => []
    | .var x => if x != placeholder then [range] else []
    | .lam _ _ dom body => varRangesOpt dom ++ varRanges body
    | .pi _ _ dom cod => varRanges dom ++ varRanges cod
    | .app f a => varRanges f ++ varRanges a
    | .let_ _ ann defn body => varRangesOpt ann ++ (varRanges defn ++ varRanges body)
    | .int => []
    | .lit _ => []
    | .neg a => varRanges a
    | .bin _ a b => varRanges a ++ varRanges b
    | .bool => []
    | .tt => []
    | .ff => []
    | .ite c a b => varRanges c ++ (varRanges a ++ varRanges b)
termination_by structural t
def varRangesOpt (o : OptSrc) : List SourceRange :=
  match o with
  | .none => []
  | .some t => varRanges t
termination_by structural o
end

mutual
/-- The identifier ranges (`SrcVar.range`) of the binders of `t` — λ, Π, definitions — placeholders
excepted, in field order. -/
def binderRanges (t : Src) : List SourceRange :=
  match t with
  | .mk _ _ v _ =>
    match v with
    | .parseError => []
    | .type => []
    | .var _ => []
    | .lam x _ dom body => bindRange x ++ (binderRangesOpt dom ++ binderRanges body)
    | .pi x _ dom cod => bindRange x ++ (binderRanges dom ++ binderRanges cod)
    | .app f a => binderRanges f ++ binderRanges a
    | .let_ x ann defn body =>
      bindRange x ++ (binderRangesOpt ann ++ (binderRanges defn ++ binderRanges body))
    | .int => []
    | .lit _ => []
    | .neg a => binderRanges a
    | .bin _ a b => binderRanges a ++ binderRanges b
    | .bool => []
    | .tt => []
    | .ff => []
    | .ite c a b => binderRanges c ++ (binderRanges a ++ binderRanges b)
termination_by structural t
def binderRangesOpt (o : OptSrc) : List SourceRange :=
  match o with
  | .none => []
  | .some t => binderRanges t
termination_by structural o
end

theorem letBinders_sub : ∀ (t : Src) (v : SrcVar), v ∈ letBinders t → v.name ≠ placeholder →
    v.range ∈ binderRanges t
  | .mk _ _ (.let_ x ann defn body) _, v, h, hv => by
      simp only [letBinders, List.mem_cons] at h
      simp only [binderRanges, List.mem_append]
      rcases h with rfl | h
      · left; simp [bindRange, hv]
      · right; right; right; exact letBinders_sub body v h hv
  | .mk _ _ .parseError _, _, h, _ | .mk _ _ .type _, _, h, _ | .mk _ _ (.var _) _, _, h, _
  | .mk _ _ (.lam ..) _, _, h, _ | .mk _ _ (.pi ..) _, _, h, _ | .mk _ _ (.app ..) _, _, h, _
  | .mk _ _ .int _, _, h, _ | .mk _ _ (.lit _) _, _, h, _ | .mk _ _ (.neg _) _, _, h, _
  | .mk _ _ (.bin ..) _, _, h, _ | .mk _ _ .bool _, _, h, _ | .mk _ _ .tt _, _, h, _
  | .mk _ _ .ff _, _, h, _ | .mk _ _ (.ite ..) _, _, h, _ => by simp [letBinders] at h

theorem not_var_mem_bindEvs (r : SourceRange) (x : Name) (vs : List SrcVar) :
    Ev.var r x ∉ bindEvs vs := by simp [bindEvs]

theorem not_var_mem_unbindEvs (r : SourceRange) (x : Name) : ∀ (vs : List SrcVar),
    Ev.var r x ∉ unbindEvs vs
  | [] => by simp [unbindEvs]
  | v :: vs => by
      have := not_var_mem_unbindEvs r x vs
      simp only [unbindEvs]; split <;> simp [this]

theorem not_bind_mem_unbindEvs (w : SrcVar) : ∀ (vs : List SrcVar), Ev.bind w ∉ unbindEvs vs
  | [] => by simp [unbindEvs]
  | v :: vs => by
      have := not_bind_mem_unbindEvs w vs
      simp only [unbindEvs]; split <;> simp [this]

mutual
theorem events_var : ∀ (t : Src) (c : Bool) (r : SourceRange) (x : Name),
    .var r x ∈ events t c → x ≠ placeholder → r ∈ varRanges t
  | .mk range g .parseError es, c, r, x, h, hx => by simp [events] at h
  | .mk range g .type es, c, r, x, h, hx => by simp [events] at h
  | .mk range g .int es, c, r, x, h, hx => by simp [events] at h
  | .mk range g .bool es, c, r, x, h, hx => by simp [events] at h
  | .mk range g .tt es, c, r, x, h, hx => by simp [events] at h
  | .mk range g .ff es, c, r, x, h, hx => by simp [events] at h
  | .mk range g (.lit n) es, c, r, x, h, hx => by simp [events] at h
  | .mk range g (.var y) es, c, r, x, h, hx => by
      simp only [events, List.mem_singleton, Ev.var.injEq] at h
      obtain ⟨rfl, rfl⟩ := h
      simp [varRanges, hx]
  | .mk range g (.lam y imp dom body) es, c, r, x, h, hx => by
      have i1 := fun h => eventsOpt_var dom r x h hx
      have i2 := fun h => events_var body false r x h hx
      simp only [events, List.mem_append, List.mem_cons, List.not_mem_nil, reduceCtorEq,
        false_or, or_false] at h
      simp only [varRanges, List.mem_append]
      rcases h with h | h
      · exact Or.inl (i1 h)
      · exact Or.inr (i2 h)
  | .mk range g (.pi y imp dom cod) es, c, r, x, h, hx => by
      have i1 := fun h => events_var dom false r x h hx
      have i2 := fun h => events_var cod false r x h hx
      simp only [events, List.mem_append, List.mem_cons, List.not_mem_nil, reduceCtorEq,
        false_or, or_false] at h
      simp only [varRanges, List.mem_append]
      rcases h with h | h
      · exact Or.inl (i1 h)
      · exact Or.inr (i2 h)
  | .mk range g (.app f a) es, c, r, x, h, hx => by
      have i1 := fun h => events_var f false r x h hx
      have i2 := fun h => events_var a false r x h hx
      simp only [events, List.mem_append] at h
      simp only [varRanges, List.mem_append]
      rcases h with h | h
      · exact Or.inl (i1 h)
      · exact Or.inr (i2 h)
  | .mk range g (.neg a) es, c, r, x, h, hx => by
      simp only [events] at h
      simp only [varRanges]
      exact events_var a false r x h hx
  | .mk range g (.bin o a b) es, c, r, x, h, hx => by
      have i1 := fun h => events_var a false r x h hx
      have i2 := fun h => events_var b false r x h hx
      simp only [events, List.mem_append] at h
      simp only [varRanges, List.mem_append]
      rcases h with h | h
      · exact Or.inl (i1 h)
      · exact Or.inr (i2 h)
  | .mk range g (.ite k a b) es, c, r, x, h, hx => by
      have i0 := fun h => events_var k false r x h hx
      have i1 := fun h => events_var a false r x h hx
      have i2 := fun h => events_var b false r x h hx
      simp only [events, List.mem_append] at h
      simp only [varRanges, List.mem_append]
      rcases h with h | h | h
      · exact Or.inl (i0 h)
      · exact Or.inr (Or.inl (i1 h))
      · exact Or.inr (Or.inr (i2 h))
  | .mk range g (.let_ y ann defn body) es, c, r, x, h, hx => by
      have i0 := fun h => eventsOpt_var ann r x h hx
      have i1 := fun h => events_var defn false r x h hx
      have i2 := fun h => events_var body true r x h hx
      simp only [events, List.mem_append] at h
      simp only [varRanges, List.mem_append]
      rcases h with h | (h | h | h) | h
      · split at h
        · simp at h
        · exact absurd h (not_var_mem_bindEvs _ _ _)
      · exact Or.inl (i0 h)
      · exact Or.inr (Or.inl (i1 h))
      · exact Or.inr (Or.inr (i2 h))
      · split at h
        · simp at h
        · exact absurd h (not_var_mem_unbindEvs _ _ _)
theorem eventsOpt_var : ∀ (o : OptSrc) (r : SourceRange) (x : Name),
    .var r x ∈ eventsOpt o → x ≠ placeholder → r ∈ varRangesOpt o
  | .none, r, x, h, hx => by simp [eventsOpt] at h
  | .some t, r, x, h, hx => by
      simp only [eventsOpt] at h
      simp only [varRangesOpt]
      exact events_var t false r x h hx
end

mutual
theorem events_bind : ∀ (t : Src) (c : Bool) (v : SrcVar),
    .bind v ∈ events t c → v.name ≠ placeholder → v.range ∈ binderRanges t
  | .mk range g .parseError es, c, v, h, hv => by simp [events] at h
  | .mk range g .type es, c, v, h, hv => by simp [events] at h
  | .mk range g .int es, c, v, h, hv => by simp [events] at h
  | .mk range g .bool es, c, v, h, hv => by simp [events] at h
  | .mk range g .tt es, c, v, h, hv => by simp [events] at h
  | .mk range g .ff es, c, v, h, hv => by simp [events] at h
  | .mk range g (.lit n) es, c, v, h, hv => by simp [events] at h
  | .mk range g (.var y) es, c, v, h, hv => by simp [events] at h
  | .mk range g (.lam y imp dom body) es, c, v, h, hv => by
      have i1 := fun h => eventsOpt_bind dom v h hv
      have i2 := fun h => events_bind body false v h hv
      simp only [events, List.mem_append, List.mem_cons, List.not_mem_nil, reduceCtorEq,
        or_false, Ev.bind.injEq] at h
      simp only [binderRanges, List.mem_append]
      rcases h with h | rfl | h
      · exact Or.inr (Or.inl (i1 h))
      · left; simp [bindRange, hv]
      · exact Or.inr (Or.inr (i2 h))
  | .mk range g (.pi y imp dom cod) es, c, v, h, hv => by
      have i1 := fun h => events_bind dom false v h hv
      have i2 := fun h => events_bind cod false v h hv
      simp only [events, List.mem_append, List.mem_cons, List.not_mem_nil, reduceCtorEq,
        or_false, Ev.bind.injEq] at h
      simp only [binderRanges, List.mem_append]
      rcases h with h | rfl | h
      · exact Or.inr (Or.inl (i1 h))
      · left; simp [bindRange, hv]
      · exact Or.inr (Or.inr (i2 h))
  | .mk range g (.app f a) es, c, v, h, hv => by
      have i1 := fun h => events_bind f false v h hv
      have i2 := fun h => events_bind a false v h hv
      simp only [events, List.mem_append] at h
      simp only [binderRanges, List.mem_append]
      rcases h with h | h
      · exact Or.inl (i1 h)
      · exact Or.inr (i2 h)
  | .mk range g (.neg a) es, c, v, h, hv => by
      simp only [events] at h
      simp only [binderRanges]
      exact events_bind a false v h hv
  | .mk range g (.bin o a b) es, c, v, h, hv => by
      have i1 := fun h => events_bind a false v h hv
      have i2 := fun h => events_bind b false v h hv
      simp only [events, List.mem_append] at h
      simp only [binderRanges, List.mem_append]
      rcases h with h | h
      · exact Or.inl (i1 h)
      · exact Or.inr (i2 h)
  | .mk range g (.ite k a b) es, c, v, h, hv => by
      have i0 := fun h => events_bind k false v h hv
      have i1 := fun h => events_bind a false v h hv
      have i2 := fun h => events_bind b false v h hv
      simp only [events, List.mem_append] at h
      simp only [binderRanges, List.mem_append]
      rcases h with h | h | h
      · exact Or.inl (i0 h)
      · exact Or.inr (Or.inl (i1 h))
      · exact Or.inr (Or.inr (i2 h))
  | .mk range g (.let_ y ann defn body) es, c, v, h, hv => by
      have i0 := fun h => eventsOpt_bind ann v h hv
      have i1 := fun h => events_bind defn false v h hv
      have i2 := fun h => events_bind body true v h hv
      simp only [events, List.mem_append] at h
      simp only [binderRanges, List.mem_append]
      rcases h with h | (h | h | h) | h
      · split at h
        · simp at h
        · simp only [bindEvs, List.map_cons, List.mem_cons, Ev.bind.injEq, List.mem_map] at h
          rcases h with rfl | ⟨w, hw, rfl⟩
          · left; simp [bindRange, hv]
          · right; right; right; exact letBinders_sub body w hw hv
      · exact Or.inr (Or.inl (i0 h))
      · exact Or.inr (Or.inr (Or.inl (i1 h)))
      · exact Or.inr (Or.inr (Or.inr (i2 h)))
      · split at h
        · simp at h
        · exact absurd h (not_bind_mem_unbindEvs _ _)
theorem eventsOpt_bind : ∀ (o : OptSrc) (v : SrcVar),
    .bind v ∈ eventsOpt o → v.name ≠ placeholder → v.range ∈ binderRangesOpt o
  | .none, v, h, hv => by simp [eventsOpt] at h
  | .some t, v, h, hv => by
      simp only [eventsOpt] at h
      simp only [binderRangesOpt]
      exact events_bind t false v h hv
end

/-- The candidate ranges of `resolve_variables` on `t` in the order in which it meets them: for a
λ / Π the domain, then the binder, then the body; for a group *all* the names of the group first
(in source order), then annotation and definition of each member in source order, then the body. -/
def traversalRanges (t : Src) : List SourceRange := cands (events t false)

theorem mem_traversalRanges {t : Src} {r : SourceRange} (h : r ∈ traversalRanges t) :
    r ∈ varRanges t ∨ r ∈ binderRanges t := by
  rcases mem_cands _ r h with ⟨x, h1, h2⟩ | ⟨v, h1, h2, rfl⟩
  · exact Or.inl (events_var t false r x h1 h2)
  · exact Or.inr (events_bind t false v h1 h2)


/-! ## The re-association passes do not change the event sequence -/

def isLet : Src → Bool
  | .mk _ _ (.let_ ..) _ => true
  | _ => false

theorem events_of_notLet : ∀ (t : Src), isLet t = false →
    events t true = events t false ∧ letBinders t = []
  | .mk _ _ (.let_ ..) _, h => by simp [isLet] at h
  | .mk _ _ .parseError _, _ | .mk _ _ .type _, _ | .mk _ _ (.var _) _, _
  | .mk _ _ (.lam ..) _, _ | .mk _ _ (.pi ..) _, _ | .mk _ _ (.app ..) _, _
  | .mk _ _ .int _, _ | .mk _ _ (.lit _) _, _ | .mk _ _ (.neg _) _, _
  | .mk _ _ (.bin ..) _, _ | .mk _ _ .bool _, _ | .mk _ _ .tt _, _
  | .mk _ _ .ff _, _ | .mk _ _ (.ite ..) _, _ => by simp [events, letBinders]

theorem events_build (r : SourceRange) (g : Bool) (es : List PErr) (l : Link) (a b : Src) (c : Bool) :
    events (.mk r g (l.build a b) es) c = events a false ++ events b false := by
  cases l <;> simp [Link.build, events]

theorem isLet_build (r : SourceRange) (g : Bool) (es : List PErr) (l : Link) (a b : Src) :
    isLet (.mk r g (l.build a b) es) = false := by
  cases l <;> simp [Link.build, isLet]

/-- The events of the accumulator of a chain. -/
def accEvents : Option (Src × Link) → List Ev
  | none => []
  | some (ac, _) => events ac false

/-- What a re-association call preserves: the events of accumulator + term, in that order; with
an accumulator the result is never a definition; without, the result continues a group exactly
as the term did. -/
def EvPres (acc : Option (Src × Link)) (t t' : Src) : Prop :=
  events t' false = accEvents acc ++ events t false ∧
  (acc = none → events t' true = events t true ∧ letBinders t' = letBinders t) ∧
  (acc ≠ none → isLet t' = false)

theorem EvPres.of_some {ac : Src} {l : Link} {t t' : Src}
    (h1 : events t' false = events ac false ++ events t false) (h2 : isLet t' = false) :
    EvPres (some (ac, l)) t t' := by
  refine ⟨h1, ?_, fun _ => h2⟩
  intro h; cases h

theorem EvPres.of_none_notLet {t t' : Src} (h1 : events t' false = events t false)
    (h2 : isLet t' = false) (h3 : isLet t = false) : EvPres none t t' := by
  refine ⟨by simpa [accEvents] using h1, fun _ => ?_, fun h => absurd rfl h⟩
  rw [(events_of_notLet t' h2).1, (events_of_notLet t h3).1, (events_of_notLet t' h2).2,
    (events_of_notLet t h3).2]
  exact ⟨h1, rfl⟩

theorem EvPres.tail {acc : Option (Src × Link)} {t reduced : Src}
    (h1 : events reduced false = events t false) (h2 : events reduced true = events t true)
    (h3 : letBinders reduced = letBinders t) : EvPres acc t (reassocTail acc reduced) := by
  cases acc with
  | none => exact ⟨by simpa [accEvents, reassocTail] using h1, fun _ => ⟨h2, h3⟩, fun h => absurd rfl h⟩
  | some p =>
    obtain ⟨ac, l⟩ := p
    simp only [reassocTail]
    exact EvPres.of_some (by rw [events_build, h1]) (isLet_build _ _ _ _ _ _)

theorem EvPres.none_all {t t' : Src} (h : EvPres none t t') :
    (∀ c, events t' c = events t c) ∧ letBinders t' = letBinders t := by
  refine ⟨fun c => ?_, (h.2.1 rfl).2⟩
  cases c
  · simpa [accEvents] using h.1
  · exact (h.2.1 rfl).1

theorem EvPres.some_ev {ac : Src} {l : Link} {t t' : Src} (h : EvPres (some (ac, l)) t t') :
    events t' false = events ac false ++ events t false ∧ isLet t' = false :=
  ⟨h.1, h.2.2 (by simp)⟩

mutual
theorem reassoc_evpres : ∀ (fam : Family) (t : Src) (acc : Option (Src × Link)) (t' : Src),
    reassoc fam acc t = some t' → EvPres acc t t'
  | fam, .mk range g .parseError es, acc, t', h => by
      unfold reassoc at h; simp at h
  | fam, .mk range g .type es, acc, t', h => by
      unfold reassoc at h
      simp only [Option.some.injEq] at h; subst h
      exact EvPres.tail rfl rfl rfl
  | fam, .mk range g (.var x) es, acc, t', h => by
      unfold reassoc at h
      simp only [Option.some.injEq] at h; subst h
      exact EvPres.tail rfl rfl rfl
  | fam, .mk range g .int es, acc, t', h => by
      unfold reassoc at h
      simp only [Option.some.injEq] at h; subst h
      exact EvPres.tail rfl rfl rfl
  | fam, .mk range g (.lit n) es, acc, t', h => by
      unfold reassoc at h
      simp only [Option.some.injEq] at h; subst h
      exact EvPres.tail rfl rfl rfl
  | fam, .mk range g .bool es, acc, t', h => by
      unfold reassoc at h
      simp only [Option.some.injEq] at h; subst h
      exact EvPres.tail rfl rfl rfl
  | fam, .mk range g .tt es, acc, t', h => by
      unfold reassoc at h
      simp only [Option.some.injEq] at h; subst h
      exact EvPres.tail rfl rfl rfl
  | fam, .mk range g .ff es, acc, t', h => by
      unfold reassoc at h
      simp only [Option.some.injEq] at h; subst h
      exact EvPres.tail rfl rfl rfl
  | fam, .mk range g (.lam x imp dom body) es, acc, t', h => by
      unfold reassoc at h
      cases hd : reassocOpt fam dom with
      | none => simp [hd] at h
      | some d' =>
        cases hb : reassoc fam none body with
        | none => simp [hd, hb] at h
        | some b' =>
          simp only [hd, hb, Option.some.injEq] at h; subst h
          have i1 := reassocOpt_evpres fam dom d' hd
          have i2 := (reassoc_evpres fam body none b' hb).none_all
          apply EvPres.tail <;> simp [events, letBinders, i1, i2.1]
  | fam, .mk range g (.pi x imp dom cod) es, acc, t', h => by
      unfold reassoc at h
      cases hd : reassoc fam none dom with
      | none => simp [hd] at h
      | some d' =>
        cases hb : reassoc fam none cod with
        | none => simp [hd, hb] at h
        | some b' =>
          simp only [hd, hb, Option.some.injEq] at h; subst h
          have i1 := (reassoc_evpres fam dom none d' hd).none_all
          have i2 := (reassoc_evpres fam cod none b' hb).none_all
          apply EvPres.tail <;> simp [events, letBinders, i1.1, i2.1]
  | fam, .mk range g (.let_ x ann defn body) es, acc, t', h => by
      unfold reassoc at h
      cases hn : reassocOpt fam ann with
      | none => simp [hn] at h
      | some n' =>
        cases hd : reassoc fam none defn with
        | none => simp [hn, hd] at h
        | some d' =>
          cases hb : reassoc fam none body with
          | none => simp [hn, hd, hb] at h
          | some b' =>
            simp only [hn, hd, hb, Option.some.injEq] at h; subst h
            have i0 := reassocOpt_evpres fam ann n' hn
            have i1 := (reassoc_evpres fam defn none d' hd).none_all
            have i2 := (reassoc_evpres fam body none b' hb).none_all
            apply EvPres.tail <;> simp [events, letBinders, i0, i1.1, i2.1, i2.2]
  | fam, .mk range g (.neg a) es, acc, t', h => by
      unfold reassoc at h
      cases ha : reassoc fam none a with
      | none => simp [ha] at h
      | some a' =>
        simp only [ha, Option.some.injEq] at h; subst h
        have i1 := (reassoc_evpres fam a none a' ha).none_all
        apply EvPres.tail <;> simp [events, letBinders, i1.1]
  | fam, .mk range g (.ite c a b) es, acc, t', h => by
      unfold reassoc at h
      cases hc : reassoc fam none c with
      | none => simp [hc] at h
      | some c' =>
        cases ha : reassoc fam none a with
        | none => simp [hc, ha] at h
        | some a' =>
          cases hb : reassoc fam none b with
          | none => simp [hc, ha, hb] at h
          | some b' =>
            simp only [hc, ha, hb, Option.some.injEq] at h; subst h
            have i0 := (reassoc_evpres fam c none c' hc).none_all
            have i1 := (reassoc_evpres fam a none a' ha).none_all
            have i2 := (reassoc_evpres fam b none b' hb).none_all
            apply EvPres.tail <;> simp [events, letBinders, i0.1, i1.1, i2.1]
  | fam, .mk range g (.app f a) es, acc, t', h => by
      have IHf := reassoc_evpres fam f
      have IHa := reassoc_evpres fam a
      unfold reassoc at h
      dsimp only at h
      have hnl : ∀ r' g' f' a' es', isLet (.mk r' g' (.app f' a') es') = false := by
        intros; rfl
      by_cases hfam : fam = .applications
      · rw [if_pos hfam] at h
        by_cases hg : a.group = true
        · cases acc with
          | none =>
            simp only [hg, Option.isSome_none, Bool.false_and, Bool.false_eq_true, if_false,
              if_true] at h
            cases hf : reassoc fam none f with
            | none => simp [hf] at h
            | some f0 =>
              cases ha : reassoc fam none a with
              | none => simp [hf, ha] at h
              | some a0 =>
                simp only [hf, ha, Option.some.injEq] at h; subst h
                have i1 := (IHf none f0 hf).none_all
                have i2 := (IHa none a0 ha).none_all
                exact EvPres.of_none_notLet (by simp [events, i1.1, i2.1]) rfl rfl
          | some p =>
            obtain ⟨ac, l⟩ := p
            cases g with
            | true =>
              simp only [hg, Option.isSome_some, Bool.and_self, if_true] at h
              cases hf : reassoc fam none f with
              | none => simp [hf] at h
              | some f0 =>
                cases ha : reassoc fam none a with
                | none => simp [hf, ha] at h
                | some a0 =>
                  simp only [hf, ha, Option.some.injEq] at h; subst h
                  have i1 := (IHf none f0 hf).none_all
                  have i2 := (IHa none a0 ha).none_all
                  apply EvPres.tail <;> simp [events, letBinders, i1.1, i2.1]
            | false =>
              simp only [hg, Option.isSome_some, Bool.and_false, Bool.false_eq_true, if_false,
                if_true] at h
              cases hf : reassoc fam (some (ac, l)) f with
              | none => simp [hf] at h
              | some f1 =>
                cases ha : reassoc fam none a with
                | none => simp [hf, ha] at h
                | some a0 =>
                  simp only [hf, ha, Option.some.injEq] at h; subst h
                  have i1 := (IHf _ f1 hf).some_ev
                  have i2 := (IHa none a0 ha).none_all
                  exact EvPres.of_some (by simp [events, i1.1, i2.1]) rfl
        · cases hf : reassoc fam none f with
          | none => cases acc <;> cases g <;> simp [hg, hf] at h
          | some f0 =>
            have i1 := (IHf none f0 hf).none_all
            cases acc with
            | none =>
              simp only [hg, hf, Option.isSome_none, Bool.false_and, Bool.false_eq_true,
                if_false] at h
              have i2 := (IHa _ t' h).some_ev
              exact EvPres.of_none_notLet (by simp [events, i1.1, i2.1]) i2.2 rfl
            | some p =>
              obtain ⟨ac, l⟩ := p
              cases g with
              | true =>
                simp only [hg, hf, Option.isSome_some, Bool.and_self, Bool.false_eq_true,
                  if_false, if_true] at h
                cases ha : reassoc fam (some (f0, Link.app)) a with
                | none => simp [ha] at h
                | some a1 =>
                  simp only [ha, Option.some.injEq] at h; subst h
                  have i2 := (IHa _ a1 ha).some_ev
                  simp only [reassocTail]
                  exact EvPres.of_some (by simp [events_build, events, i1.1, i2.1])
                    (isLet_build _ _ _ _ _ _)
              | false =>
                simp only [hg, hf, Option.isSome_some, Bool.and_false, Bool.false_eq_true,
                  if_false] at h
                have i2 := (IHa _ t' h).some_ev
                exact EvPres.of_some (by simp [events_build, events, i1.1, i2.1]) i2.2
      · rw [if_neg hfam] at h
        cases hf : reassoc fam none f with
        | none => simp [hf] at h
        | some f0 =>
          cases ha : reassoc fam none a with
          | none => simp [hf, ha] at h
          | some a0 =>
            simp only [hf, ha, Option.some.injEq] at h; subst h
            have i1 := (IHf none f0 hf).none_all
            have i2 := (IHa none a0 ha).none_all
            apply EvPres.tail <;> simp [events, letBinders, i1.1, i2.1]
  | fam, .mk range g (.bin o a b) es, acc, t', h => by
      have IHf := reassoc_evpres fam a
      have IHa := reassoc_evpres fam b
      unfold reassoc at h
      dsimp only at h
      by_cases hfam : (fam = .productsAndQuotients ∧ (o = .prod ∨ o = .quot)) ∨
          (fam = .sumsAndDifferences ∧ (o = .sum ∨ o = .diff))
      · rw [if_pos hfam] at h
        by_cases hg : b.group = true
        · cases acc with
          | none =>
            simp only [hg, Option.isSome_none, Bool.false_and, Bool.false_eq_true, if_false,
              if_true] at h
            cases hf : reassoc fam none a with
            | none => simp [hf] at h
            | some f0 =>
              cases ha : reassoc fam none b with
              | none => simp [hf, ha] at h
              | some a0 =>
                simp only [hf, ha, Option.some.injEq] at h; subst h
                have i1 := (IHf none f0 hf).none_all
                have i2 := (IHa none a0 ha).none_all
                exact EvPres.of_none_notLet (by simp [events, i1.1, i2.1]) rfl rfl
          | some p =>
            obtain ⟨ac, l⟩ := p
            cases g with
            | true =>
              simp only [hg, Option.isSome_some, Bool.and_self, if_true] at h
              cases hf : reassoc fam none a with
              | none => simp [hf] at h
              | some f0 =>
                cases ha : reassoc fam none b with
                | none => simp [hf, ha] at h
                | some a0 =>
                  simp only [hf, ha, Option.some.injEq] at h; subst h
                  have i1 := (IHf none f0 hf).none_all
                  have i2 := (IHa none a0 ha).none_all
                  apply EvPres.tail <;> simp [events, letBinders, i1.1, i2.1]
            | false =>
              simp only [hg, Option.isSome_some, Bool.and_false, Bool.false_eq_true, if_false,
                if_true] at h
              cases hf : reassoc fam (some (ac, l)) a with
              | none => simp [hf] at h
              | some f1 =>
                cases ha : reassoc fam none b with
                | none => simp [hf, ha] at h
                | some a0 =>
                  simp only [hf, ha, Option.some.injEq] at h; subst h
                  have i1 := (IHf _ f1 hf).some_ev
                  have i2 := (IHa none a0 ha).none_all
                  exact EvPres.of_some (by simp [events, i1.1, i2.1]) rfl
        · cases hf : reassoc fam none a with
          | none => cases acc <;> cases g <;> simp [hg, hf] at h
          | some f0 =>
            have i1 := (IHf none f0 hf).none_all
            cases acc with
            | none =>
              simp only [hg, hf, Option.isSome_none, Bool.false_and, Bool.false_eq_true,
                if_false] at h
              have i2 := (IHa _ t' h).some_ev
              exact EvPres.of_none_notLet (by simp [events, i1.1, i2.1]) i2.2 rfl
            | some p =>
              obtain ⟨ac, l⟩ := p
              cases g with
              | true =>
                simp only [hg, hf, Option.isSome_some, Bool.and_self, Bool.false_eq_true,
                  if_false, if_true] at h
                cases ha : reassoc fam (some (f0, Link.op o)) b with
                | none => simp [ha] at h
                | some a1 =>
                  simp only [ha, Option.some.injEq] at h; subst h
                  have i2 := (IHa _ a1 ha).some_ev
                  simp only [reassocTail]
                  exact EvPres.of_some (by simp [events_build, events, i1.1, i2.1])
                    (isLet_build _ _ _ _ _ _)
              | false =>
                simp only [hg, hf, Option.isSome_some, Bool.and_false, Bool.false_eq_true,
                  if_false] at h
                have i2 := (IHa _ t' h).some_ev
                exact EvPres.of_some (by simp [events_build, events, i1.1, i2.1]) i2.2
      · rw [if_neg hfam] at h
        cases hf : reassoc fam none a with
        | none => simp [hf] at h
        | some f0 =>
          cases ha : reassoc fam none b with
          | none => simp [hf, ha] at h
          | some a0 =>
            simp only [hf, ha, Option.some.injEq] at h; subst h
            have i1 := (IHf none f0 hf).none_all
            have i2 := (IHa none a0 ha).none_all
            apply EvPres.tail <;> simp [events, letBinders, i1.1, i2.1]
theorem reassocOpt_evpres : ∀ (fam : Family) (o o' : OptSrc),
    reassocOpt fam o = some o' → eventsOpt o' = eventsOpt o
  | fam, .none, o', h => by
      unfold reassocOpt at h
      simp only [Option.some.injEq] at h; subst h; rfl
  | fam, .some t, o', h => by
      unfold reassocOpt at h
      cases ht : reassoc fam none t with
      | none => simp [ht] at h
      | some t1 =>
        simp only [ht, Option.some.injEq] at h; subst h
        simp only [eventsOpt]
        exact (reassoc_evpres fam t none t1 ht).none_all.1 false
end

/-- The three passes of `parse` leave the event sequence unchanged. -/
theorem reassoc_passes_events {t t1 t2 t3 : Src} (h1 : reassociateApplications t = some t1)
    (h2 : reassociateProductsAndQuotients t1 = some t2)
    (h3 : reassociateSumsAndDifferences t2 = some t3) : events t3 false = events t false := by
  rw [(reassoc_evpres _ _ _ _ h3).none_all.1, (reassoc_evpres _ _ _ _ h2).none_all.1,
    (reassoc_evpres _ _ _ _ h1).none_all.1]


/-! ## On a parse tree every event sits on an identifier token -/

/-- The segment `[a, b)` is the identifier `x` wrapped in `k ≥ 0` pairs of parentheses:
`( … ( x ) … )`. -/
def ParenVar (toks : Array PTok) (a b : Nat) (x : Name) : Prop :=
  ∃ k, b = a + 2 * k + 1 ∧ KAt toks (a + k) (.identifier x) ∧
    ∀ j, j < k → KAt toks (a + j) .leftParen ∧ KAt toks (b - 1 - j) .rightParen

/-- What the events of a parse tree of `[lo, hi)` look like: a variable event carries the range of
an identifier token of the segment — extended to the enclosing parentheses if the variable is
parenthesised (`parse_group` returns the inner node with the range of the group); a binder event is
an identifier token of the segment, or the anonymous binder of `a -> b`. -/
def EvOK (toks : Array PTok) (lo hi : Nat) : Ev → Prop
  | .var r x => ∃ a b, lo ≤ a ∧ b ≤ hi ∧ ParenVar toks a b x ∧ r = rng toks a b
  | .bind v => (∃ i, lo ≤ i ∧ i < hi ∧ IdentAt toks i v) ∨ v.name = placeholder
  | .unbind _ => True

theorem EvOK.mono {toks : Array PTok} {lo hi lo' hi' : Nat} {ev : Ev} (h : EvOK toks lo hi ev)
    (h1 : lo' ≤ lo) (h2 : hi ≤ hi') : EvOK toks lo' hi' ev := by
  cases ev with
  | var r x =>
    obtain ⟨a, b, ha, hb, hp, hr⟩ := h
    exact ⟨a, b, by omega, by omega, hp, hr⟩
  | bind v =>
    rcases h with ⟨i, hi1, hi2, hI⟩ | h
    · exact Or.inl ⟨i, by omega, by omega, hI⟩
    · exact Or.inr h
  | unbind x => trivial

theorem events_leafV (r : SourceRange) (g : Bool) (es : List PErr) (A : NT) (c : Bool) :
    events (.mk r g (leafV A) es) c = [] := by
  cases A <;> simp [leafV, events]

theorem events_binderV (r : SourceRange) (g : Bool) (es : List PErr) (A : NT) (v : SrcVar)
    (d b : Src) (c : Bool) :
    events (.mk r g (binderV A v d b) es) c =
      events d false ++ (.bind v :: (events b false ++ [.unbind v.name])) := by
  cases A <;> simp [binderV, events, eventsOpt]

theorem leafV_ne_var (A : NT) (x : Name) : leafV A ≠ .var x := by
  cases A <;> simp [leafV]

theorem binderV_ne_var (A : NT) (v : SrcVar) (d b : Src) (x : Name) : binderV A v d b ≠ .var x := by
  cases A <;> simp [binderV]

theorem events_range_irrel (r r' : SourceRange) (g g' : Bool) (es es' : List PErr) (v : SrcV)
    (c : Bool) (hv : ∀ x, v ≠ .var x) :
    events (.mk r g v es) c = events (.mk r' g' v es') c := by
  cases v <;> simp [events] <;> exact absurd rfl (hv _)

theorem mem_unbindEvs : ∀ (vs : List SrcVar) (ev : Ev), ev ∈ unbindEvs vs → ∃ x, ev = .unbind x
  | [], ev, h => by simp [unbindEvs] at h
  | v :: vs, ev, h => by
      simp only [unbindEvs] at h
      split at h
      · simp only [List.mem_cons] at h
        rcases h with rfl | h
        · exact ⟨_, rfl⟩
        · exact mem_unbindEvs vs ev h
      · exact mem_unbindEvs vs ev h

theorem bindEvs_letBinders_sub : ∀ (t : Src) (ev : Ev), ev ∈ bindEvs (letBinders t) →
    ev ∈ events t false
  | .mk _ _ (.let_ x ann defn body) _, ev, h => by
      simp only [events, letBinders, Bool.false_eq_true, if_false, List.mem_append] at h ⊢
      exact Or.inl h
  | .mk _ _ .parseError _, _, h | .mk _ _ .type _, _, h | .mk _ _ (.var _) _, _, h
  | .mk _ _ (.lam ..) _, _, h | .mk _ _ (.pi ..) _, _, h | .mk _ _ (.app ..) _, _, h
  | .mk _ _ .int _, _, h | .mk _ _ (.lit _) _, _, h | .mk _ _ (.neg _) _, _, h
  | .mk _ _ (.bin ..) _, _, h | .mk _ _ .bool _, _, h | .mk _ _ .tt _, _, h
  | .mk _ _ .ff _, _, h | .mk _ _ (.ite ..) _, _, h => by simp [letBinders, bindEvs] at h

/-- The invariant of the induction over parse trees. -/
def TreeOK (toks : Array PTok) (a b : Nat) (t : Src) : Prop :=
  (∀ c ev, ev ∈ events t c → EvOK toks a b ev) ∧ (∀ x, t.variant = .var x → ParenVar toks a b x)

theorem TreeOK.let_ {toks : Array PTok} {a e : Nat} {x : Name} {r : SourceRange} {g : Bool}
    {es : List PErr} {ann : OptSrc} {defn body : Src}
    (hx : KAt toks a (.identifier x)) (ha : a < e)
    (hann : ∀ ev, ev ∈ eventsOpt ann → EvOK toks a e ev)
    (hdefn : ∀ ev, ev ∈ events defn false → EvOK toks a e ev)
    (hb : ∀ c ev, ev ∈ events body c → EvOK toks a e ev) :
    TreeOK toks a e (.mk r g (.let_ ⟨tokenRange toks a, x⟩ ann defn body) es) := by
  refine ⟨?_, fun y hy => by simp [Src.variant] at hy⟩
  intro c ev hev
  simp only [events, List.mem_append] at hev
  rcases hev with h | (h | h | h) | h
  · split at h
    · simp at h
    · simp only [bindEvs, List.map_cons, List.mem_cons] at h
      rcases h with rfl | h
      · exact Or.inl ⟨a, Nat.le_refl _, ha, hx, rfl⟩
      · exact hb false ev (bindEvs_letBinders_sub body ev (by simpa [bindEvs] using h))
  · exact hann ev h
  · exact hdefn ev h
  · exact hb true ev h
  · split at h
    · simp at h
    · obtain ⟨y, rfl⟩ := mem_unbindEvs _ _ h
      trivial

theorem SegT.treeOK {toks : Array PTok} {A : NT} {a b : Nat} {t : Src} (h : SegT toks A a b t) :
    TreeOK toks a b t := by
  induction h with
  | unit _ _ ih => exact ih
  | leaf hm hk =>
    exact ⟨fun c ev hev => by simp [events_leafV] at hev,
      fun x hx => absurd hx (leafV_ne_var _ _)⟩
  | @var x a hk =>
    refine ⟨fun c ev hev => ?_, fun y hy => ?_⟩
    · simp only [events, List.mem_singleton] at hev
      subst hev
      exact ⟨a, a + 1, Nat.le_refl _, Nat.le_refl _, ⟨0, by omega, by simpa using hk,
        fun j hj => by omega⟩, rfl⟩
    · simp only [Src.variant, SrcV.var.injEq] at hy
      subst hy
      exact ⟨0, by omega, by simpa using hk, fun j hj => by omega⟩
  | lit hk =>
    exact ⟨fun c ev hev => by simp [events] at hev, fun x hx => by simp [Src.variant] at hx⟩
  | @lambda x a b body h1 h2 hb ih =>
    have bb := hb.spanned.bounds
    refine ⟨fun c ev hev => ?_, fun y hy => by simp [Src.variant] at hy⟩
    simp only [events, eventsOpt, List.nil_append, List.mem_cons, List.mem_append,
      List.not_mem_nil, or_false] at hev
    rcases hev with rfl | h | rfl
    · exact Or.inl ⟨a, Nat.le_refl _, by omega, h1, rfl⟩
    · exact (ih.1 false ev h).mono (by omega) (Nat.le_refl _)
    · trivial
  | @lambdaImplicit x a b body h1 h2 h3 h4 hb ih =>
    have bb := hb.spanned.bounds
    refine ⟨fun c ev hev => ?_, fun y hy => by simp [Src.variant] at hy⟩
    simp only [events, eventsOpt, List.nil_append, List.mem_cons, List.mem_append,
      List.not_mem_nil, or_false] at hev
    rcases hev with rfl | h | rfl
    · exact Or.inl ⟨a + 1, by omega, by omega, h2, rfl⟩
    · exact (ih.1 false ev h).mono (by omega) (Nat.le_refl _)
    · trivial
  | @binder A o cl ar x a b d dom body hm h1 h2 h3 hd h4 h5 hb ihd ihb =>
    have bd := hd.spanned.bounds
    have bb := hb.spanned.bounds
    refine ⟨fun c ev hev => ?_, fun y hy => absurd hy (binderV_ne_var _ _ _ _ _)⟩
    simp only [events_binderV, List.mem_cons, List.mem_append, List.not_mem_nil, or_false] at hev
    rcases hev with h | rfl | h | rfl
    · exact (ihd.1 false ev h).mono (by omega) (by omega)
    · exact Or.inl ⟨a + 1, by omega, by omega, h2, rfl⟩
    · exact (ihb.1 false ev h).mono (by omega) (Nat.le_refl _)
    · trivial
  | @nonDependentPi a b c dom cod hd hk hc ihd ihc =>
    have bd := hd.spanned.bounds
    have bc := hc.spanned.bounds
    refine ⟨fun c ev hev => ?_, fun y hy => by simp [Src.variant] at hy⟩
    simp only [events, List.mem_cons, List.mem_append, List.not_mem_nil, or_false] at hev
    rcases hev with h | rfl | h | rfl
    · exact (ihd.1 false ev h).mono (Nat.le_refl _) (by omega)
    · exact Or.inr rfl
    · exact (ihc.1 false ev h).mono (by omega) (Nat.le_refl _)
    · trivial
  | @application a b c f x hf hx ihf ihx =>
    have bf := hf.spanned.bounds
    have bx := hx.spanned.bounds
    refine ⟨fun c ev hev => ?_, fun y hy => by simp [Src.variant] at hy⟩
    simp only [events, List.mem_append] at hev
    rcases hev with h | h
    · exact (ihf.1 false ev h).mono (Nat.le_refl _) (by omega)
    · exact (ihx.1 false ev h).mono (by omega) (Nat.le_refl _)
  | @letPlain x t a b c defn body h1 h2 hd h3 hb ihd ihb =>
    have bd := hd.spanned.bounds
    have bb := hb.spanned.bounds
    exact TreeOK.let_ h1 (by omega) (fun ev h => by simp [eventsOpt] at h)
      (fun ev h => (ihd.1 false ev h).mono (by omega) (by omega))
      (fun c' ev h => (ihb.1 c' ev h).mono (by omega) (Nat.le_refl _))
  | @letAnn x t a b c d ann defn body h1 h2 ha h3 hd h4 hb iha ihd ihb =>
    have ba := ha.spanned.bounds
    have bd := hd.spanned.bounds
    have bb := hb.spanned.bounds
    exact TreeOK.let_ h1 (by omega)
      (fun ev h => (iha.1 false ev (by simpa [eventsOpt] using h)).mono (by omega) (by omega))
      (fun ev h => (ihd.1 false ev h).mono (by omega) (by omega))
      (fun c' ev h => (ihb.1 c' ev h).mono (by omega) (Nat.le_refl _))
  | @negation a b x h1 hx ih =>
    refine ⟨fun c ev hev => ?_, fun y hy => by simp [Src.variant] at hy⟩
    simp only [events] at hev
    exact (ih.1 false ev hev).mono (by omega) (Nat.le_refl _)
  | @bin A L op R a b c x y hm hx hk hy ihx ihy =>
    have bx := hx.spanned.bounds
    have by' := hy.spanned.bounds
    refine ⟨fun c ev hev => ?_, fun y hy => by simp [Src.variant] at hy⟩
    simp only [events, List.mem_append] at hev
    rcases hev with h | h
    · exact (ihx.1 false ev h).mono (Nat.le_refl _) (by omega)
    · exact (ihy.1 false ev h).mono (by omega) (Nat.le_refl _)
  | @ite a b c d x y z h1 hx h2 hy h3 hz ihx ihy ihz =>
    have bx := hx.spanned.bounds
    have by' := hy.spanned.bounds
    have bz := hz.spanned.bounds
    refine ⟨fun c ev hev => ?_, fun y hy => by simp [Src.variant] at hy⟩
    simp only [events, List.mem_append] at hev
    rcases hev with h | h | h
    · exact (ihx.1 false ev h).mono (by omega) (by omega)
    · exact (ihy.1 false ev h).mono (by omega) (by omega)
    · exact (ihz.1 false ev h).mono (by omega) (Nat.le_refl _)
  | @group a b inner h1 hi h2 ih =>
    have bi := hi.spanned.bounds
    obtain ⟨ri, gi, vi, ei⟩ := inner
    simp only [Src.variant] at ih ⊢
    by_cases hv : ∃ x, vi = .var x
    · obtain ⟨x, rfl⟩ := hv
      obtain ⟨k, hk, hid, hpar⟩ := ih.2 x rfl
      have hP : ParenVar toks a (b + 1) x := by
        refine ⟨k + 1, by omega, ?_, ?_⟩
        · have : a + (k + 1) = a + 1 + k := by omega
          rw [this]; exact hid
        · intro j hj
          cases j with
          | zero => exact ⟨by simpa using h1, by simpa using h2⟩
          | succ j' =>
            obtain ⟨p1, p2⟩ := hpar j' (by omega)
            have e1 : a + (j' + 1) = a + 1 + j' := by omega
            have e2 : b + 1 - 1 - (j' + 1) = b - 1 - j' := by omega
            rw [e1, e2]; exact ⟨p1, p2⟩
      refine ⟨fun c ev hev => ?_, fun y hy => ?_⟩
      · simp only [events, List.mem_singleton] at hev
        subst hev
        exact ⟨a, b + 1, Nat.le_refl _, Nat.le_refl _, hP, rfl⟩
      · have hy' : x = y := by injection hy
        subst hy'; exact hP
    · have hv' : ∀ x, vi ≠ .var x := fun x e => hv ⟨x, e⟩
      refine ⟨fun c ev hev => ?_, fun y hy => absurd hy (hv' y)⟩
      rw [events_range_irrel _ ri _ gi _ ei vi c hv'] at hev
      exact (ih.1 c ev hev).mono (by omega) (by omega)


/-! ## The theorems -/

/-- The key set of a name→depth map. -/
def Ctx.keys (c : Ctx) : Bound := fun y => c.containsKey y

/-- **Exactness** (any context, any depth): `resolve` appends exactly the ranges `runE` reports on
the event sequence of the tree, each as a single-range listing, in order. -/
theorem resolve_errors_exact {t : Src} {depth : Nat} {st st' : RState} {r : RTm}
    (h : resolve t depth st = some (r, st')) :
    st'.errors = st.errors ++ (runE (events t false) st.ctx.keys).map (fun r => [r]) :=
  (resolve_events (B := st.ctx.keys) (fun _ => rfl) h).2

theorem resolveAux_errors_exact {t : Src} {chain : Option (Nat × Nat)} {depth : Nat}
    {st st' : RState} {res : RDefs × RTm} (h : resolveAux t chain depth st = some (res, st')) :
    st'.errors = st.errors ++ (runE (events t chain.isSome) st.ctx.keys).map (fun r => [r]) :=
  (resolveAux_events t chain depth st.ctx.keys st res st' (fun _ => rfl) h).2

/-- Every reported range is a candidate of the tree, and the reports come in traversal order. -/
theorem resolve_errors_sublist {t : Src} {depth : Nat} {st st' : RState} {r : RTm}
    (h : resolve t depth st = some (r, st')) :
    ∃ rs : List SourceRange, st'.errors = st.errors ++ rs.map (fun r => [r]) ∧
      rs.Sublist (traversalRanges t) ∧ ∀ r ∈ rs, r ∈ varRanges t ∨ r ∈ binderRanges t := by
  refine ⟨_, resolve_errors_exact h, runE_sublist _ _, fun r hr => ?_⟩
  exact mem_traversalRanges ((runE_sublist _ _).subset hr)

theorem resolveAux_errors_ranges {t : Src} {chain : Option (Nat × Nat)} {depth : Nat}
    {st st' : RState} {res : RDefs × RTm} (h : resolveAux t chain depth st = some (res, st')) :
    ∃ rs : List SourceRange, st'.errors = st.errors ++ rs.map (fun r => [r]) ∧
      ∀ r ∈ rs, r ∈ varRanges t ∨ r ∈ binderRanges t := by
  refine ⟨_, resolveAux_errors_exact h, fun r hr => ?_⟩
  rcases mem_cands _ r ((runE_sublist _ _).subset hr) with ⟨x, h1, h2⟩ | ⟨v, h1, h2, rfl⟩
  · exact Or.inl (events_var t _ r x h1 h2)
  · exact Or.inr (events_bind t _ v h1 h2)

/-- What a scoping diagnostic of a parsed program points at, inside the token segment `[a, b)`:
a variable occurrence — the identifier token, **extended to the enclosing parentheses if the
variable is parenthesised** — or the identifier token of a binder. -/
def ScopeRange (toks : Array PTok) (a b : Nat) (r : SourceRange) : Prop :=
  (∃ lo hi x, a ≤ lo ∧ hi ≤ b ∧ ParenVar toks lo hi x ∧ r = rng toks lo hi) ∨
  (∃ i x, a ≤ i ∧ i < b ∧ KAt toks i (.identifier x) ∧ r = tokenRange toks i)

/-- No identifier token stands alone between parentheses: `( x )` does not occur. -/
def NoParenIdent (toks : Array PTok) : Prop :=
  ∀ i x, KAt toks i .leftParen → KAt toks (i + 1) (.identifier x) → KAt toks (i + 2) .rightParen →
    False

theorem ParenVar.bare {toks : Array PTok} {lo hi : Nat} {x : Name} (h : ParenVar toks lo hi x)
    (hn : NoParenIdent toks) : hi = lo + 1 ∧ KAt toks lo (.identifier x) := by
  obtain ⟨k, hk, hid, hpar⟩ := h
  cases k with
  | zero => exact ⟨by omega, by simpa using hid⟩
  | succ k' =>
    exfalso
    obtain ⟨p1, p2⟩ := hpar k' (by omega)
    have e1 : lo + (k' + 1) = lo + k' + 1 := by omega
    have e2 : hi - 1 - k' = lo + k' + 2 := by omega
    rw [e1] at hid; rw [e2] at p2
    exact hn _ _ p1 hid p2

/-- The scoping diagnostics of a parsed program: the tree `s` is the parse tree of `[a, b)`, the
three passes turn it into `s3`, `resolve` runs on `s3` — every range reported is a `ScopeRange`
of the segment, and the reports form a sublist of the traversal order of `s`. -/
theorem parsed_scope_errors {toks : Array PTok} {nt : NT} {a b : Nat} {s s1 s2 s3 : Src}
    {depth : Nat} {st st' : RState} {r : RTm} (hs : SegT toks nt a b s)
    (h1 : reassociateApplications s = some s1) (h2 : reassociateProductsAndQuotients s1 = some s2)
    (h3 : reassociateSumsAndDifferences s2 = some s3) (h : resolve s3 depth st = some (r, st')) :
    ∃ rs : List SourceRange, st'.errors = st.errors ++ rs.map (fun r => [r]) ∧
      rs.Sublist (traversalRanges s) ∧ ∀ r ∈ rs, ScopeRange toks a b r := by
  have he := reassoc_passes_events h1 h2 h3
  refine ⟨runE (events s false) st.ctx.keys, ?_, runE_sublist _ _, fun r hr => ?_⟩
  · rw [← he]; exact resolve_errors_exact h
  · have ok := hs.treeOK.1 false
    rcases (mem_runE _ _ _).1 hr with ⟨pre, post, x, hev, hx, _⟩ | ⟨pre, post, v, hev, hv, _, rfl⟩
    · obtain ⟨lo, hi, x1, x2, x3, x4⟩ := ok (.var r x) (by rw [hev]; simp)
      exact Or.inl ⟨lo, hi, x, x1, x2, x3, x4⟩
    · rcases ok (.bind v) (by rw [hev]; simp) with ⟨i, i1, i2, i3, i4⟩ | hp
      · exact Or.inr ⟨i, v.name, i1, i2, i3, i4⟩
      · exact absurd hp hv

theorem ScopeRange.ident {toks : Array PTok} {a b : Nat} {r : SourceRange}
    (h : ScopeRange toks a b r) (hn : NoParenIdent toks) :
    ∃ (i : Nat) (hi : i < toks.size) (x : Name), a ≤ i ∧ i < b ∧ toks[i].kind = .identifier x ∧
      r = toks[i].range := by
  rcases h with ⟨lo, hi, x, h1, h2, hp, rfl⟩ | ⟨i, x, h1, h2, ⟨hlt, hk⟩, rfl⟩
  · obtain ⟨e, ⟨hlt, hk⟩⟩ := hp.bare hn
    subst e
    exact ⟨lo, hlt, x, h1, by omega, hk, by rw [← rng_single, tokenRange_lt hlt]⟩
  · exact ⟨i, hlt, x, h1, h2, hk, tokenRange_lt hlt⟩

/-- Everything in `parse` between the parse phase and `check_definitions`, reduced to the error
list `resolve_variables` leaves (for concrete examples). -/
def scopeErrorsOf (t : Src) (context : List Name) : Option (List PErr) :=
  match reassociateApplications t with
  | none => none
  | some t1 =>
  match reassociateProductsAndQuotients t1 with
  | none => none
  | some t2 =>
  match reassociateSumsAndDifferences t2 with
  | none => none
  | some t3 =>
  match resolve t3 (initialContext context).length
      { ctx := initialContext context, errors := [], nextHole := 0 } with
  | none => none
  | some (_, st) => some st.errors

theorem scopeErrorsOf_some {t : Src} {context : List Name} {es : List PErr}
    (h : scopeErrorsOf t context = some es) :
    ∃ t1 t2 t3 r st, reassociateApplications t = some t1 ∧
      reassociateProductsAndQuotients t1 = some t2 ∧ reassociateSumsAndDifferences t2 = some t3 ∧
      resolve t3 (initialContext context).length
        { ctx := initialContext context, errors := [], nextHole := 0 } = some (r, st) ∧
      st.errors = es := by
  unfold scopeErrorsOf at h
  split at h
  · cases h
  · rename_i t1 h1
    split at h
    · cases h
    · rename_i t2 h2
      split at h
      · cases h
      · rename_i t3 h3
        split at h
        · cases h
        · rename_i r st h4
          simp only [Option.some.injEq] at h
          exact ⟨t1, t2, t3, r, st, h1, h2, h3, h4, h⟩

end PModel
