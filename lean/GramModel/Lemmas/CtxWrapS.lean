import GramModel.Check
import GramModel.Lemmas.StoreCtx
import GramModel.Lemmas.StoreMono
import GramModel.Lemmas.CtxWrap

/-!
# Checking under a context of parameters = checking the closed function — for gram's OWN checker `inferS`

`Lemmas/CtxWrap.lean` proves the whole-context form of C18 for the independent checker `inferX`.  This file does the
same for the store-layer model of `type_check_rec` (`inferS`: state-passing, hole cells, contexts pushed and popped in
the state), for contexts of parameters.

* `pi_wrap_S`, `let1_wrap_S`: the one-step equations for `(x : A) -> B` and a one-definition group.
* `pushParamsS f ps`: "for each parameter in turn, outermost first: check its domain, require its type to be `type`
  (else report), push `(A', 0)` / `none`"; the domain of parameter `i` (1-based, of `n`) is checked with fuel
  `f + (n - i)` — exactly the fuel `inferS (f + n)` gives it.
* `params_wrap_S`: `inferS (f + n) (closeParams ps t)` **is** `pushParamsS f ps`, then `inferS f t`, then `n` pops, then
  rebuild with `closeParams` / `closePi` — an equation of computations (all outcomes: values, diagnostics, out of fuel,
  panics, final store).
* `closed_run`: pointwise form with the final state computed.
* `params_verdict_S`: the corollary in the words of the property.
-/

namespace CtxWrapS
open CtxWrap

/-! ## monad laws for `M` (there is no `LawfulMonad` instance in the model) -/

theorem bind_assoc' {α β γ} (m : M α) (f : α → M β) (g : β → M γ) :
    (m >>= f) >>= g = m >>= fun a => f a >>= g := by
  funext s
  show M.bind (M.bind m f) g s = M.bind m (fun a => M.bind (f a) g) s
  simp only [M.bind]
  cases m s <;> rfl

theorem pure_bind' {α β} (a : α) (f : α → M β) : (pure a : M α) >>= f = f a := rfl

theorem bind_congr' {α β} {m : M α} {f g : α → M β} (h : ∀ a, f a = g a) : m >>= f = m >>= g := by
  have : f = g := funext h
  rw [this]

theorem ite_bind' {α β} (c : Prop) [Decidable c] (a b : M α) (k : α → M β) :
    (if c then a else b) >>= k = if c then a >>= k else b >>= k := by
  split <;> rfl

theorem bind_ok' {α β} {m : M α} {f : α → M β} {s s1 : St} {a : α} (h : m s = .ok a s1) :
    (m >>= f) s = f a s1 := by
  show M.bind m f s = _
  simp only [M.bind, h]

theorem bind_fuel' {α β} {m : M α} {f : α → M β} {s : St} (h : m s = .fuel) : (m >>= f) s = .fuel := by
  show M.bind m f s = _
  simp only [M.bind, h]

theorem bind_panic' {α β} {m : M α} {f : α → M β} {s : St} {p : String} (h : m s = .panic p) :
    (m >>= f) s = .panic p := by
  show M.bind m f s = _
  simp only [M.bind, h]

/-! ## `popN` -/

theorem popN_zero : popN 0 = pure () := by unfold popN; rfl
theorem popN_succ (n : Nat) : popN (n+1) = (do popCtx; popN n) := by
  conv => lhs; unfold popN

/-- the state after `n` pops -/
theorem popN_run : ∀ (n : Nat) (s : St),
    popN n s = .ok () { s with tctx := s.tctx.drop n, dctx := s.dctx.drop n }
  | 0, s => by rw [popN_zero]; rfl
  | n+1, s => by
      rw [popN_succ]
      have h : popCtx s = .ok () { s with tctx := s.tctx.tail, dctx := s.dctx.tail } := rfl
      rw [bind_ok' h, popN_run n]
      simp [List.drop_tail]

/-- popping `n + 1` times is popping `n` times and once more -/
theorem popN_succ' (n : Nat) : popN (n+1) = (do popN n; popCtx) := by
  funext s
  rw [popN_run, bind_ok' (popN_run n s)]
  show _ = R.ok () _
  simp [← List.tail_drop]

/-! ## one step: Π and a one-definition group -/

/-- **Pi wrap.**  Checking `(x : A) -> B` is: check `A`, require its type to be `type`, push `(A', 0)` / `none`, check
`B`, require its type to be `type` (under the extended contexts), pop. -/
theorem pi_wrap_S (f : Nat) (x : Name) (im : Bool) (A B : Tm) :
    inferS (f+1) (.pi x im A B) =
      (do
        let (d', dty) ← inferS f A
        if !(← unifyS f dty .type) then reportError
        pushCtx (d', 0) none
        let (c', cty) ← inferS f B
        if !(← unifyS f cty .type) then reportError
        popCtx
        pure (Tm.pi x im d' c', Tm.type)) := rfl

/-- **One-definition group.**  Checking `x : A = d; b` is: push `(A, 1)` / `some (d, 1)` (the annotation and the
definition as written), then — under the pushed entry — check `A` (a type), check `d` (its type must unify with `A`),
check `b`; the type is `letTypeS` of the body's type (the group re-wrapped around it by `open`); pop. -/
theorem let1_wrap_S (f : Nat) (x : Name) (A d b : Tm) :
    inferS (f+3) (.letg (.cons x A d .nil) b) =
      (do
        pushCtx (A, 1) (some (d, 1))
        let (_, annTy) ← inferS (f+1) A
        if !(← unifyS (f+1) annTy .type) then reportError
        let (d', dty) ← inferS (f+1) d
        if !(← unifyS (f+1) dty A) then reportError
        let (b', bty) ← inferS (f+2) b
        let ty ← letTypeS (f+2) (.cons x A d' .nil) 1 0 bty
        popCtx
        pure (Tm.letg (.cons x A d' .nil) b', ty)) := by
  have step : inferS (f+3) (.letg (.cons x A d .nil) b) =
      (do
        pushDefsS (.cons x A d .nil) 1
        let ds' ← inferDefsS (f+2) (.cons x A d .nil)
        let (b', bty) ← inferS (f+2) b
        let ty ← letTypeS (f+2) (Defs.setDefs (.cons x A d .nil) ds') 1 0 bty
        popN 1
        pure (Tm.letg (Defs.setDefs (.cons x A d .nil) ds') b', ty)) := rfl
  have step2 : inferDefsS (f+2) (.cons x A d .nil) =
      (do
        let (_, annTy) ← inferS (f+1) A
        if !(← unifyS (f+1) annTy .type) then reportError
        let (d', dty) ← inferS (f+1) d
        if !(← unifyS (f+1) dty A) then reportError
        pure [d']) := rfl
  have hpush : pushDefsS (.cons x A d .nil) 1 = pushCtx (A, 1) (some (d, 1)) := by
    unfold pushDefsS; unfold pushDefsS; rfl
  have hpop : popN 1 = popCtx := by
    rw [popN_succ, popN_zero]; rfl
  rw [step, step2, hpush, hpop]
  simp only [bind_assoc', pure_bind', ite_bind']
  rfl

/-! ## whole parameter contexts -/

/-- For each parameter in turn, outermost first: check its domain, require its type to be `type` (else report one
diagnostic and go on), push `(A', 0)` / `none`.  Returns the parameters with the elaborated domains.  The `i`-th of `n`
domains is checked with fuel `f + (n - i)`. -/
def pushParamsS (f : Nat) : Params → M Params
  | [] => pure []
  | (x, im, A) :: ps => do
      let (d', dty) ← inferS (f + ps.length) A
      if !(← unifyS (f + ps.length) dty .type) then reportError
      pushCtx (d', 0) none
      let ps' ← pushParamsS f ps
      pure ((x, im, d') :: ps')

/-- **Whole parameter contexts, gram's own checker.**  Checking the closed function is: push the parameters one by
one (checking each domain), check the open body, pop them all, rebuild. -/
theorem params_wrap_S (f : Nat) : ∀ (ps : Params) (t : Tm),
    inferS (f + ps.length) (closeParams ps t) =
      (do
        let ps' ← pushParamsS f ps
        let (t', T) ← inferS f t
        popN ps.length
        pure (closeParams ps' t', closePi ps' T))
  | [], t => by
      funext s
      show inferS f t s = M.bind (inferS f t) _ s
      simp only [M.bind]
      cases inferS f t s <;> rfl
  | (x, im, A) :: ps, t => by
      have step : inferS (f + (ps.length + 1)) (.lam x im A (closeParams ps t)) =
          (do
            let (d', dty) ← inferS (f + ps.length) A
            if !(← unifyS (f + ps.length) dty .type) then reportError
            pushCtx (d', 0) none
            let (b', cod) ← inferS (f + ps.length) (closeParams ps t)
            popCtx
            pure (Tm.lam x im d' b', Tm.pi x im d' cod)) := rfl
      simp only [closeParams_cons, List.length_cons]
      rw [step, params_wrap_S f ps t, popN_succ']
      simp only [pushParamsS, bind_assoc', pure_bind', ite_bind']
      refine bind_congr' ?_
      rintro ⟨d', dty⟩
      refine bind_congr' fun b => ?_
      cases b <;> rfl

/-! ## the state after pushing the parameters -/

/-- `pushParamsS` returns the parameters unchanged (elaboration is the identity) and leaves the contexts of
`pushParams` on top of the caller's. -/
theorem pushParamsS_ok (f : Nat) : ∀ (ps : Params) (s : St) (ps' : Params) (s1 : St),
    pushParamsS f ps s = .ok ps' s1 →
    ps' = ps ∧ (s1.tctx, s1.dctx) = pushParams ps (s.tctx, s.dctx)
  | [], s, ps', s1, h => by
      obtain ⟨rfl, rfl⟩ := M.pure_ok_iff.mp h
      exact ⟨rfl, rfl⟩
  | (x, im, A) :: ps, s, ps', s1, h => by
      unfold pushParamsS at h
      obtain ⟨⟨d', dty⟩, sa, hA, h⟩ := M.bind_ok_inv h
      obtain ⟨b, sb0, hU, h⟩ := M.bind_ok_inv h
      have h' : ∃ sb : St, sb.tctx = sb0.tctx ∧ sb.dctx = sb0.dctx ∧
          (pushCtx (d', 0) none >>= fun _ => pushParamsS f ps >>= fun ps' =>
            (pure ((x, im, d') :: ps') : M Params)) sb = .ok ps' s1 := by
        cases b
        · exact ⟨{ sb0 with nerrs := sb0.nerrs + 1 }, rfl, rfl, h⟩
        · exact ⟨sb0, rfl, rfl, h⟩
      obtain ⟨sb, hb1, hb2, h⟩ := h'
      obtain ⟨u', sc, hP, h⟩ := M.bind_ok_inv h
      obtain ⟨ps'', sd, hR, h⟩ := M.bind_ok_inv h
      obtain ⟨rfl, rfl⟩ := M.pure_ok_iff.mp h
      have e1 : d' = A := inferS_elab_id hA
      subst e1
      have c1 := CtxH.restores (inferS_ctx _ d') hA
      have c2 := CtxH.restores (unifyS_ctx _ dty .type) hU
      have c3 : sc = { sb with tctx := (d', 0) :: sb.tctx, dctx := none :: sb.dctx } := by
        cases hP; rfl
      obtain ⟨rfl, e⟩ := pushParamsS_ok f ps sc ps'' sd hR
      refine ⟨rfl, ?_⟩
      rw [e, pushParams_cons, c3]
      simp only [hb1, hb2, c2.1, c2.2, c1.1, c1.2]

/-- **The closed run, computed from the open run.**  Once the parameters are pushed (state `s1`), the run of the
checker on the closed function is the run on the open body in `s1`, with the result re-wrapped and the caller's two
contexts put back; every other component of the state (store, diagnostics count) is the open run's. -/
theorem closed_run {f : Nat} {ps ps' : Params} {t : Tm} {s s1 : St}
    (h : pushParamsS f ps s = .ok ps' s1) :
    inferS (f + ps.length) (closeParams ps t) s =
      match inferS f t s1 with
      | .ok (t', B) s2 =>
          .ok (closeParams ps t', closePi ps B) { s2 with tctx := s.tctx, dctx := s.dctx }
      | .fuel => .fuel
      | .panic p => .panic p := by
  obtain ⟨rfl, e⟩ := pushParamsS_ok f ps s ps' s1 h
  rw [params_wrap_S, bind_ok' h]
  cases h2 : inferS f t s1 with
  | fuel => rw [bind_fuel' h2]
  | panic p => rw [bind_panic' h2]
  | ok r s2 =>
    obtain ⟨t', B⟩ := r
    rw [bind_ok' h2]
    show (popN ps'.length >>= fun _ => pure (closeParams ps' t', closePi ps' B)) s2 = _
    rw [bind_ok' (popN_run _ s2)]
    have c := CtxH.restores (inferS_ctx f t) h2
    rw [pushParams_eq] at e
    have e1 : s1.tctx = (ps'.reverse.map fun p => (p.2.2, 0)) ++ s.tctx := congrArg Prod.fst e
    have e2 : s1.dctx = List.replicate ps'.length none ++ s.dctx := congrArg Prod.snd e
    have d1 : s2.tctx.drop ps'.length = s.tctx := by
      rw [c.1, e1]; exact List.drop_left' (by simp)
    have d2 : s2.dctx.drop ps'.length = s.dctx := by
      rw [c.2, e2]; exact List.drop_left' (by simp)
    show R.ok _ _ = _
    rw [d1, d2]

/-! ## the corollary in the property's words -/

/-- the statement of `params_verdict_S` (restated as `C18_params_verdict_S_stmt` in `Props/C18.lean`) -/
def ParamsVerdictS : Prop :=
  ∀ (f : Nat) (ps : Params) (t : Tm) (s s1 : St) (ps' : Params),
    pushParamsS f ps s = .ok ps' s1 → s1.nerrs = s.nerrs →
    -- the state with the parameters pushed: the domains as written, innermost first, over the caller's contexts
    (ps' = ps ∧ (s1.tctx, s1.dctx) = pushParams ps (s.tctx, s.dctx)) ∧
    -- same verdict
    ((∃ e T s', inferS (f + ps.length) (closeParams ps t) s = .ok (e, T) s' ∧ s'.nerrs = s.nerrs) ↔
     (∃ t' B s2, inferS f t s1 = .ok (t', B) s2 ∧ s2.nerrs = s1.nerrs)) ∧
    -- the reported types are related by `closePi` (the elaborated terms by `closeParams`); same number of
    -- diagnostics, same final store
    (∀ e T s', inferS (f + ps.length) (closeParams ps t) s = .ok (e, T) s' →
      ∃ t' B s2, inferS f t s1 = .ok (t', B) s2 ∧ e = closeParams ps t' ∧ T = closePi ps B ∧
        s'.nerrs = s2.nerrs ∧ s'.store = s2.store) ∧
    (∀ t' B s2, inferS f t s1 = .ok (t', B) s2 →
      ∃ s', inferS (f + ps.length) (closeParams ps t) s = .ok (closeParams ps t', closePi ps B) s' ∧
        s'.nerrs = s2.nerrs ∧ s'.store = s2.store) ∧
    -- the other outcomes coincide too
    ((inferS (f + ps.length) (closeParams ps t) s = .fuel ↔ inferS f t s1 = .fuel) ∧
     (∀ p, inferS (f + ps.length) (closeParams ps t) s = .panic p ↔ inferS f t s1 = .panic p)) ∧
    -- whatever the outcome, the caller's contexts are left exactly as they were — by either run
    (∀ e T s', inferS (f + ps.length) (closeParams ps t) s = .ok (e, T) s' →
      s'.tctx = s.tctx ∧ s'.dctx = s.dctx) ∧
    (∀ t' B s2, inferS f t s1 = .ok (t', B) s2 → s2.tctx = s1.tctx ∧ s2.dctx = s1.dctx)

theorem params_verdict_S : ParamsVerdictS := by
  intro f ps t s s1 ps' h hn
  have hcr := closed_run (t := t) h
  refine ⟨pushParamsS_ok f ps s ps' s1 h, ?_, ?_, ?_, ?_,
    fun e T s' hc => CtxH.restores (inferS_ctx _ _) hc,
    fun t' B s2 ho => CtxH.restores (inferS_ctx _ _) ho⟩
  · constructor
    · rintro ⟨e, T, s', hc, hs'⟩
      cases h2 : inferS f t s1 with
      | fuel => rw [hcr, h2] at hc; cases hc
      | panic p => rw [hcr, h2] at hc; cases hc
      | ok r s2 =>
        obtain ⟨t', B⟩ := r
        rw [hcr, h2] at hc
        cases hc
        exact ⟨t', B, s2, rfl, hs'.trans hn.symm⟩
    · rintro ⟨t', B, s2, ho, hs2⟩
      rw [ho] at hcr
      exact ⟨_, _, _, hcr, hs2.trans hn⟩
  · intro e T s' hc
    cases h2 : inferS f t s1 with
    | fuel => rw [hcr, h2] at hc; cases hc
    | panic p => rw [hcr, h2] at hc; cases hc
    | ok r s2 =>
      obtain ⟨t', B⟩ := r
      rw [hcr, h2] at hc
      cases hc
      exact ⟨t', B, s2, rfl, rfl, rfl, rfl, rfl⟩
  · intro t' B s2 ho
    rw [ho] at hcr
    exact ⟨_, hcr, rfl, rfl⟩
  · constructor
    · constructor
      · intro hc
        cases h2 : inferS f t s1 with
        | fuel => rfl
        | panic p => rw [hcr, h2] at hc; cases hc
        | ok r s2 => obtain ⟨t', B⟩ := r; rw [hcr, h2] at hc; cases hc
      · intro ho; rw [hcr, ho]
    · intro p
      constructor
      · intro hc
        cases h2 : inferS f t s1 with
        | fuel => rw [hcr, h2] at hc; cases hc
        | panic q => rw [hcr, h2] at hc; exact hc
        | ok r s2 => obtain ⟨t', B⟩ := r; rw [hcr, h2] at hc; cases hc
      · intro ho; rw [hcr, ho]

/-! ## without the hypothesis: acceptance of the closed function, characterised -/

theorem pushParamsS_le (f : Nat) : ∀ ps : Params, StoreMono.Preserves StoreMono.Le (pushParamsS f ps)
  | [] => StoreMono.Preserves.pure _
  | (x, im, A) :: ps => by
      unfold pushParamsS
      refine StoreMono.Preserves.bind (StoreMono.inferS_le _ _) ?_
      rintro ⟨d', dty⟩
      refine StoreMono.Preserves.bind (StoreMono.unifyS_le _ _ _) (fun b => ?_)
      have hk : StoreMono.Preserves StoreMono.Le
          (pushCtx (d', 0) none >>= fun _ => pushParamsS f ps >>= fun ps' =>
            (pure ((x, im, d') :: ps') : M Params)) :=
        StoreMono.Preserves.bind (StoreMono.pushCtx_le _ _) fun _ =>
          StoreMono.Preserves.bind (pushParamsS_le f ps) fun _ => StoreMono.Preserves.pure _
      cases b
      · exact StoreMono.Preserves.bind StoreMono.reportError_le (fun _ => hk)
      · exact hk

/-- the statement of `params_accept_iff_S` -/
def ParamsAcceptIffS : Prop :=
  ∀ (f : Nat) (ps : Params) (t : Tm) (s : St),
    (∃ e T s', inferS (f + ps.length) (closeParams ps t) s = .ok (e, T) s' ∧ s'.nerrs = s.nerrs) ↔
    (∃ s1, pushParamsS f ps s = .ok ps s1 ∧ s1.nerrs = s.nerrs ∧
      ∃ t' B s2, inferS f t s1 = .ok (t', B) s2 ∧ s2.nerrs = s1.nerrs)

/-- **Acceptance of the closed function, characterised** (no hypothesis): the closed function is accepted without
a diagnostic iff every domain check is (the parameters get pushed, nothing reported) and the open body is, in the
state with the parameters pushed. -/
theorem params_accept_iff_S : ParamsAcceptIffS := by
  intro f ps t s
  constructor
  · rintro ⟨e, T, s', hc, hs'⟩
    have hc' := hc
    rw [params_wrap_S] at hc'
    obtain ⟨ps', s1, hp, _⟩ := M.bind_ok_inv hc'
    obtain ⟨rfl, _⟩ := pushParamsS_ok f ps s ps' s1 hp
    have hcr := closed_run (t := t) hp
    cases h2 : inferS f t s1 with
    | fuel => rw [hcr, h2] at hc; cases hc
    | panic p => rw [hcr, h2] at hc; cases hc
    | ok r s2 =>
      obtain ⟨t', B⟩ := r
      rw [hcr, h2] at hc
      cases hc
      have l1 : s.nerrs ≤ s1.nerrs := ((pushParamsS_le f ps').out _ _ _ hp).2
      have l2 : s1.nerrs ≤ s2.nerrs := ((StoreMono.inferS_le f t).out _ _ _ h2).2
      have hs2 : s2.nerrs = s.nerrs := hs'
      exact ⟨s1, hp, by omega, t', B, s2, h2, by omega⟩
  · rintro ⟨s1, hp, hn, t', B, s2, ho, hs2⟩
    have hcr := closed_run (t := t) hp
    rw [ho] at hcr
    exact ⟨_, _, _, hcr, hs2.trans hn⟩

end CtxWrapS
