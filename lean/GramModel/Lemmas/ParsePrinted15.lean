import GramModel.Lemmas.ParsePrinted14

/-! # The applications pass on the parsed tree of a printed term: statement -/

namespace PModel
open RewriteMore PrintDerives

/-- on every tree whose shape is the expected tree of the printed `t`, `reassociate_applications`
succeeds and returns the tree of `t` itself up to ranges, `group` flags and error lists -/
theorem reassoc_apps_shape (I : List Char → Name) (nm : Name → List Char) (t : Tm) (s : Src)
    (h : shape s = srcOf I nm t) :
    ∃ s1, reassociateApplications s = some s1 ∧ strip s1 = lsrc I nm t :=
  (a1 I nm t).1 s h

theorem reassoc_apps_printed (toks : Array PTok) (I : List Char → Name) (nm : Name → List Char)
    (t : Tm) (h1 : noImplicitArrow t = true) (h2 : noNegLit t = true)
    (hk : toks.toList.map (·.kind) = (printKinds nm t).map (kindP I)) :
    ∃ r st s1, runParser toks = some (r, st) ∧ r.next = toks.size ∧ collectErrors r.term = [] ∧
      reassociateApplications r.term = some s1 ∧ strip s1 = lsrc I nm t := by
  obtain ⟨r, st, hr, hn, _, hce, hs, _⟩ := parse_printed toks I nm t h1 h2 hk
  obtain ⟨s1, h3, h4⟩ := reassoc_apps_shape I nm t r.term hs
  exact ⟨r, st, s1, hr, hn, hce, h3, h4⟩

end PModel
