import GramModel.Parser

/-! Helper lemmas about the parser model `PModel` (used by `Props/C07.lean`, `Props/C17.lean`). -/

namespace PModel

/-- `finishParse` answers `.ok` only if nothing was left unparsed and no error was collected. -/
theorem finishParse_ok {toks : Array PTok} {ctx : List Name} {term : Src} {next : Nat} {t : RTm}
    (h : finishParse toks ctx term next = .ok t) : next = toks.size ∧ collectErrors term = [] := by
  unfold finishParse at h
  by_cases h1 : collectErrors term = []
  · by_cases h2 : next = toks.size
    · exact ⟨h2, h1⟩
    · simp [h1, h2] at h
  · have h3 : (collectErrors term).isEmpty = false := by
      cases hc : collectErrors term <;> simp_all
    simp [h3] at h

/-- `finishParse` answers `.errors es` only with a list it has just tested to be non-empty. -/
theorem finishParse_errors_ne {toks : Array PTok} {ctx : List Name} {term : Src} {next : Nat}
    {es : List PErr} (h : finishParse toks ctx term next = .errors es) : es ≠ [] := by
  unfold finishParse at h
  simp only at h
  repeat' split at h
  all_goals first | (exact ParseOutcome.noConfusion h) | skip
  all_goals
    rename_i h1
    injection h with h; subst h
    intro e; rw [e] at h1; simp at h1

/-- The binary operators a re-association pass treats as chain links (the guard of the chain arm
of `reassoc`). -/
def Family.owns (fam : Family) (o : BinOp) : Prop :=
  (fam = .productsAndQuotients ∧ (o = .prod ∨ o = .quot))
    ∨ (fam = .sumsAndDifferences ∧ (o = .sum ∨ o = .diff))

/-! ### The memo table -/


theorem cacheCheck_hit (nt : NT) (start : Nat) (body : ParseM PResult) (st : PState) (r : PResult)
    (h : st.cache[(nt.idx, start)]? = some r) :
    cacheCheck nt start body st = some (r, { st with hits := st.hits.modify nt.idx (· + 1) }) := by
  unfold cacheCheck; rw [h]

theorem cacheCheck_miss (nt : NT) (start : Nat) (body : ParseM PResult) (st : PState)
    (h : st.cache[(nt.idx, start)]? = none) :
    cacheCheck nt start body st =
      match body { st with misses := st.misses.modify nt.idx (· + 1) } with
      | none => none
      | some (r, st') => some (r, { st' with cache := st'.cache.insert (nt.idx, start) r }) := by
  unfold cacheCheck; rw [h]; rfl

/-- No key is ever removed from the memo table. -/
def CacheLe (st st' : PState) : Prop := ∀ k, k ∈ st.cache → k ∈ st'.cache

theorem CacheLe.refl (st : PState) : CacheLe st st := fun _ h => h
theorem CacheLe.trans {a b c : PState} (h1 : CacheLe a b) (h2 : CacheLe b c) : CacheLe a c :=
  fun k h => h2 k (h1 k h)

/-- A parse computation that never removes a key. -/
def Grows {α : Type} (m : ParseM α) : Prop := ∀ st a st', m st = some (a, st') → CacheLe st st'

theorem Grows.pure {α : Type} (a : α) : Grows (pure a : ParseM α) := by
  intro st b st' h
  have : (Pure.pure a : StateT PState Option α) st = some (a, st) := rfl
  rw [this] at h
  simp only [Option.some.injEq, Prod.mk.injEq] at h
  rw [← h.2]; exact CacheLe.refl _

theorem Grows.bind {α β : Type} {m : ParseM α} {f : α → ParseM β} (hm : Grows m)
    (hf : ∀ a, Grows (f a)) : Grows (m >>= f) := by
  intro st b st' h
  have e : (m >>= f) st = (match m st with | none => none | some (a, s1) => f a s1) := by
    show (StateT.bind m f) st = _
    unfold StateT.bind
    cases m st with
    | none => rfl
    | some p => rfl
  rw [e] at h
  cases hm1 : m st with
  | none => simp [hm1] at h
  | some p =>
    obtain ⟨a, s1⟩ := p
    simp only [hm1] at h
    exact (hm st a s1 hm1).trans (hf a s1 b st' h)

theorem Grows.ite {α : Type} {c : Prop} [Decidable c] {m1 m2 : ParseM α} (h1 : Grows m1)
    (h2 : Grows m2) : Grows (if c then m1 else m2) := by
  split <;> assumption

theorem Grows.cacheCheck {nt : NT} {start : Nat} {body : ParseM PResult} (hb : Grows body) :
    Grows (cacheCheck nt start body) := by
  intro st r st' h
  cases hc : st.cache[(nt.idx, start)]? with
  | some r0 =>
    rw [cacheCheck_hit nt start body st r0 hc] at h
    simp only [Option.some.injEq, Prod.mk.injEq] at h
    rw [← h.2]; exact CacheLe.refl _
  | none =>
    rw [cacheCheck_miss nt start body st hc] at h
    cases hb1 : body { st with misses := st.misses.modify nt.idx (· + 1) } with
    | none => simp [hb1] at h
    | some p =>
      obtain ⟨r1, s1⟩ := p
      simp only [hb1, Option.some.injEq, Prod.mk.injEq] at h
      rw [← h.2]
      intro k hk
      have := hb _ _ _ hb1 k hk
      exact Std.HashMap.mem_insert.mpr (Or.inr this)


theorem Grows.consume0 {toks : Array PTok} {next : Nat} {kind : PKind} {k : Nat → ParseM PResult}
    (hk : ∀ n, Grows (k n)) : Grows (consume0 toks next kind k) := by
  unfold PModel.consume0
  split
  · split
    · exact hk _
    · exact Grows.pure _
  · exact Grows.pure _

theorem Grows.consumeIdent {toks : Array PTok} {next : Nat} {k : Name → Nat → ParseM PResult}
    (hk : ∀ x n, Grows (k x n)) : Grows (consumeIdent toks next k) := by
  unfold PModel.consumeIdent
  split
  · split
    · exact hk _ _
    · exact Grows.pure _
  · exact Grows.pure _

theorem Grows.consumeLiteral {toks : Array PTok} {next : Nat} {k : Nat → Nat → ParseM PResult}
    (hk : ∀ x n, Grows (k x n)) : Grows (consumeLiteral toks next k) := by
  unfold PModel.consumeLiteral
  split
  · split
    · exact hk _ _
    · exact Grows.pure _
  · exact Grows.pure _

theorem Grows.tryReturn {p k : ParseM PResult} (hp : Grows p) (hk : Grows k) :
    Grows (tryReturn p k) := by
  unfold PModel.tryReturn
  exact Grows.bind hp (fun r => Grows.ite hk (Grows.pure _))

theorem Grows.tryEval {p : ParseM PResult} {k : Src → Nat → Bool → ParseM PResult} (hp : Grows p)
    (hk : ∀ a b c, Grows (k a b c)) : Grows (tryEval p k) := by
  unfold PModel.tryEval
  exact Grows.bind hp (fun r => Grows.ite (Grows.pure _) (hk _ _ _))

theorem Grows.elim {α : Type} {m : ParseM α} (h : Grows m) {st : PState} {a : α} {st' : PState}
    (e : m st = some (a, st')) : CacheLe st st' := h st a st' e

theorem Grows.fail {α : Type} : Grows (fun _ => none : ParseM α) := by
  intro st a st' h; simp at h

attribute [irreducible] Grows

macro "grows_tac" h:term : tactic => `(tactic|
  repeat (first
    | exact $h _ _
    | apply Grows.pure
    | apply Grows.consume0
    | apply Grows.consumeIdent
    | apply Grows.consumeLiteral
    | apply Grows.tryReturn
    | apply Grows.tryEval
    | apply Grows.bind
    | split
    | intro _))

section
variable {toks : Array PTok} {rec : NT → Nat → ParseM PResult} (hrec : ∀ nt pos, Grows (rec nt pos))
include hrec

theorem Grows.parseBody (nt : NT) (start : Nat) : Grows (parseBody toks rec nt start) := by
  cases nt <;> simp only [PModel.parseBody, parseTerm, parseType, parseVariable, parseLambda,
    parseLambdaImplicit, parseAnnotatedLambda, parseAnnotatedLambdaImplicit, parsePi,
    parsePiImplicit, parseNonDependentPi, parseApplication, parseLet, parseInteger,
    parseIntegerLiteral, parseNegation, parseSum, parseDifference, parseProduct, parseQuotient,
    parseLessThan, parseLessThanOrEqualTo, parseEqualTo, parseGreaterThan,
    parseGreaterThanOrEqualTo, parseBoolean, parseTrue, parseFalse, parseIf, parseGroup,
    parseAtom, parseSmallTerm, parseMediumTerm, parseLargeTerm, parseHugeTerm, parseGiantTerm,
    parseJumboTerm, noParse, parseLeaf, parseBinder, parseBinary] <;> grows_tac hrec
end


/-- Running any memoised parsing function never removes a key from the memo table. -/
theorem Grows.parseNT (toks : Array PTok) : ∀ (fuel : Nat) (nt : NT) (start : Nat),
    Grows (parseNT toks fuel nt start)
  | 0, _, _ => by unfold PModel.parseNT; exact Grows.fail
  | fuel + 1, nt, start => by
      unfold PModel.parseNT
      exact Grows.cacheCheck (Grows.parseBody (fun nt pos => Grows.parseNT toks fuel nt pos) nt start)

end PModel
