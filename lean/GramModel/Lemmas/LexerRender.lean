import GramModel.Lemmas.LexerGaps

/-!
# The global render/tokenize law (unbounded form of C10)

A program text is described as a *rendering*: a leading gap, then lexemes each followed by a gap
(blanks, comment lines, line feeds), then an optional final comment that is ended by the end of the
file.  `render_law` says that `tokenize` of every such text succeeds and that the kinds of the tokens
are `weave` of the lexeme kinds and of the flags "does the gap after lexeme `i` contain a line
break": the layout matters in no other way.
-/

/-! ## Layout -/

/-- one item of inter-token layout -/
inductive GapItem
  | blank (c : Char)            -- a whitespace character other than a line feed
  | comment (body : List Char)  -- `#` body `\n`  (body contains no line feed)
  | newline
deriving DecidableEq, Repr

def GapItem.chars : GapItem → List Char
  | .blank c => [c]
  | .comment b => '#' :: (b ++ ['\n'])
  | .newline => ['\n']

def GapItem.hasNL : GapItem → Bool
  | .blank _ => false
  | _ => true

def GapItem.ok (cc : CharClass) : GapItem → Prop
  | .blank c => cc.isWs c = true ∧ c ∉ symbolChars ∧ identStart cc c = false ∧
      identCont cc c = false ∧ isDigit c = false ∧ c ≠ '#'
  | .comment b => ∀ x ∈ b, x ≠ '\n'
  | .newline => True

instance (cc : CharClass) (gi : GapItem) : Decidable (gi.ok cc) := by
  cases gi <;> unfold GapItem.ok <;> infer_instance

abbrev Gap := List GapItem
def Gap.chars (g : Gap) : List Char := g.flatMap GapItem.chars
def Gap.hasNL (g : Gap) : Bool := g.any GapItem.hasNL
def Gap.ok (cc : CharClass) (g : Gap) : Prop := ∀ gi ∈ g, gi.ok cc

instance (cc : CharClass) (g : Gap) : Decidable (Gap.ok cc g) := by
  unfold Gap.ok; infer_instance

/-! ## Lexemes -/

/-- the 18 symbol lexemes and their kinds -/
def symTable : List (List Char × TokKind) :=
  [(['*'], .asterisk), ([':'], .colon), (['{'], .leftCurly), (['('], .leftParen), (['+'], .plus),
   (['}'], .rightCurly), ([')'], .rightParen), (['/'], .slash), ([';'], .terminatorSemicolon),
   (['-'], .minus), (['<'], .lessThan), (['='], .equals), (['>'], .greaterThan),
   (['-', '>'], .thinArrow), (['<', '='], .lessThanOrEqualTo), (['=', '='], .doubleEquals),
   (['=', '>'], .thickArrow), (['>', '='], .greaterThanOrEqualTo)]

/-- `IsLexeme cc l k`: the character string `l` is the text of exactly one token of kind `k` -/
inductive IsLexeme (cc : CharClass) : List Char → TokKind → Prop
  | sym (l : List Char) (k : TokKind) : (l, k) ∈ symTable → IsLexeme cc l k
  | word (c : Char) (w : List Char) : c ∉ symbolChars → identStart cc c = true →
      (∀ x ∈ w, identCont cc x = true) → IsLexeme cc (c :: w) (wordKind (c :: w))
  | number (c : Char) (w : List Char) : identStart cc c = false → isDigit c = true →
      (∀ x ∈ w, isDigit x = true) → IsLexeme cc (c :: w) (.integerLiteral (digitsValue (c :: w)))

/-- would the lexeme `a` swallow / combine with a following character `next`? -/
def fuses (cc : CharClass) (a : List Char) (next : Char) : Bool :=
  if a = ['-'] then next == '>'
  else if a = ['<'] then next == '='
  else if a = ['='] then (next == '=' || next == '>')
  else if a = ['>'] then next == '='
  else match a with
    | [] => false
    | c :: _ =>
      if c ∈ symbolChars then false
      else if identStart cc c then identCont cc next
      else isDigit next

/-- does `a` fuse with the first character of `b`? -/
def fusesHead (cc : CharClass) (a b : List Char) : Bool :=
  match b with
  | [] => false
  | d :: _ => fuses cc a d

abbrev LexItem := List Char × TokKind × Gap

def eofChars : Option (List Char) → List Char
  | none => []
  | some b => '#' :: b

def renderItems : List LexItem → Option (List Char) → List Char
  | [], eof => eofChars eof
  | (l, _, g) :: r, eof => l ++ (Gap.chars g ++ renderItems r eof)

/-- text = leading gap, then (lexeme, gap after it)*, then an optional final comment without line
feed -/
def renderText (g0 : Gap) (items : List LexItem) (eof : Option (List Char)) : List Char :=
  Gap.chars g0 ++ renderItems items eof

/-- consecutive lexemes are separated by a non-empty gap or cannot fuse -/
def SepOK (cc : CharClass) : List LexItem → Prop
  | [] => True
  | [_] => True
  | (l, _, g) :: (l', k', g') :: r =>
      (g.isEmpty = false ∨ fusesHead cc l l' = false) ∧ SepOK cc ((l', k', g') :: r)

def ItemsOK (cc : CharClass) (items : List LexItem) : Prop :=
  ∀ it ∈ items, IsLexeme cc it.1 it.2.1 ∧ Gap.ok cc it.2.2

def EofOK (eof : Option (List Char)) : Prop := ∀ b, eof = some b → ∀ x ∈ b, x ≠ '\n'

/-- expected kinds: a line-break terminator appears between lexeme i and i+1 iff the gap between
them contains a line break and the first can end / the second can start an expression -/
def weave : List (TokKind × Bool) → List TokKind
  | [] => []
  | [(k, _)] => [k]
  | (k, nl) :: (k', nl') :: r =>
      if nl && Generated.canEnd k == some true && Generated.canStart k' == some true
      then k :: .terminatorLineBreak :: weave ((k', nl') :: r)
      else k :: weave ((k', nl') :: r)

/-- the kinds and line-break flags of a list of items -/
def lexFlags (items : List LexItem) : List (TokKind × Bool) :=
  items.map fun it => (it.2.1, Gap.hasNL it.2.2)

/-- Extended sanity of the classifier: `#` and the line feed are not word characters. -/
structure CharClass.Sane2 (cc : CharClass) : Prop extends cc.Sane where
  hash_cont : identCont cc '#' = false
  nl_cont : identCont cc '\n' = false

/-! ## Character facts -/

theorem not_sym {c : Char} (h : c ∉ symbolChars) :
    c ≠ '*' ∧ c ≠ ':' ∧ c ≠ '{' ∧ c ≠ '(' ∧ c ≠ '+' ∧ c ≠ '}' ∧ c ≠ ')' ∧ c ≠ '/' ∧ c ≠ ';' ∧
    c ≠ '\n' ∧ c ≠ '-' ∧ c ≠ '<' ∧ c ≠ '=' ∧ c ≠ '>' := by
  simpa [symbolChars] using h

theorem digit_not_sym {c : Char} (h : isDigit c = true) : c ∉ symbolChars := by
  intro hm
  simp only [symbolChars, List.mem_cons, List.not_mem_nil, or_false] at hm
  rcases hm with rfl | rfl | rfl | rfl | rfl | rfl | rfl | rfl | rfl | rfl | rfl | rfl | rfl | rfl <;>
    exact absurd h (by decide)

theorem spanChars_split (p : Char → Bool) : ∀ (w rest : List Char), (∀ x ∈ w, p x = true) →
    (∀ d t, rest = d :: t → p d = false) → spanChars p (w ++ rest) = (w, rest)
  | [], [], _, _ => by simp [spanChars]
  | [], d :: t, _, h => by simp [spanChars, h d t rfl]
  | x :: w, rest, hw, h => by
    have hx : p x = true := hw x (by simp)
    have ih := spanChars_split p w rest (fun y hy => hw y (by simp [hy])) h
    simp [spanChars, hx, ih]

/-! ## Single scanner steps -/

/-- kinds of the tokens of a state, newest first -/
def stKinds (s : LexState) : List TokKind := s.toks.map (·.kind)

@[simp] theorem stKinds_push (s : LexState) (k : TokKind) (a b : Nat) : stKinds (s.push k a b) = k :: stKinds s := rfl

def lastCE : List TokKind → Option Bool
  | [] => some false
  | k :: _ => Generated.canEnd k

theorem lastCanEnd_K (s : LexState) : lastCanEnd s = lastCE (stKinds s) := by
  unfold lastCanEnd stKinds
  cases s.toks <;> rfl

theorem scan_nil (cc : CharClass) (fuel pos : Nat) (s : LexState) : scan cc fuel pos [] s = s := by
  cases fuel with
  | zero => rw [scan.eq_1]
  | succ n => rw [scan.eq_2 _ _ _ _ (by simp)]

theorem scan_word_step (cc : CharClass) (fuel pos : Nat) (c : Char) (w rest : List Char)
    (s : LexState) (hc : c ∉ symbolChars) (hs : identStart cc c = true)
    (hw : ∀ x ∈ w, identCont cc x = true) (hr : ∀ d t, rest = d :: t → identCont cc d = false) :
    scan cc (fuel+1) pos (c :: (w ++ rest)) s =
      scan cc fuel (pos + c.utf8Size + bytesOf w) rest
        (s.push (wordKind (c :: w)) pos (pos + c.utf8Size + bytesOf w)) := by
  obtain ⟨h1, h2, h3, h4, h5, h6, h7, h8, h9, h10, h11, h12, h13, h14⟩ := not_sym hc
  conv => lhs; rw [scan.eq_def]
  simp [h1, h2, h3, h4, h5, h6, h7, h8, h9, h10, h11, h12, h13, h14, hs,
    spanChars_split _ _ _ hw hr]

theorem scan_number_step (cc : CharClass) (fuel pos : Nat) (c : Char) (w rest : List Char)
    (s : LexState) (hs : identStart cc c = false) (hd : isDigit c = true)
    (hw : ∀ x ∈ w, isDigit x = true) (hr : ∀ d t, rest = d :: t → isDigit d = false) :
    scan cc (fuel+1) pos (c :: (w ++ rest)) s =
      scan cc fuel (pos + 1 + bytesOf w) rest
        (s.push (.integerLiteral (digitsValue (c :: w))) pos (pos + 1 + bytesOf w)) := by
  obtain ⟨h1, h2, h3, h4, h5, h6, h7, h8, h9, h10, h11, h12, h13, h14⟩ := not_sym (digit_not_sym hd)
  conv => lhs; rw [scan.eq_def]
  simp [h1, h2, h3, h4, h5, h6, h7, h8, h9, h10, h11, h12, h13, h14, hs, hd,
    spanChars_split _ _ _ hw hr]

theorem scan_blank_step (cc : CharClass) (fuel pos : Nat) (c : Char) (rest : List Char)
    (s : LexState) (h : GapItem.ok cc (.blank c)) :
    scan cc (fuel+1) pos (c :: rest) s = scan cc fuel (pos + c.utf8Size) rest s := by
  obtain ⟨hws, hc, hs, _, hd, _⟩ := h
  obtain ⟨h1, h2, h3, h4, h5, h6, h7, h8, h9, h10, h11, h12, h13, h14⟩ := not_sym hc
  conv => lhs; rw [scan.eq_def]
  simp [h1, h2, h3, h4, h5, h6, h7, h8, h9, h10, h11, h12, h13, h14, hs, hd, hws]

theorem scan_comment_step (cc : CharClass) (hs : cc.Sane) (n pos : Nat) (c r : List Char)
    (s : LexState) (hc : ∀ x ∈ c, x ≠ '\n') :
    scan cc (n+1) pos ('#' :: (c ++ '\n' :: r)) s = scan cc n (pos + 1 + bytesOf c) ('\n' :: r) s := by
  have d1 : isDigit '#' = false := by decide
  conv => lhs; rw [scan.eq_def]
  simp [hs.hash_plain.1, hs.hash_plain.2, d1, skipComment_line c r (pos + 1) hc]

theorem scan_eofcomment_step (cc : CharClass) (hs : cc.Sane) (n pos : Nat) (c : List Char)
    (s : LexState) (hc : ∀ x ∈ c, x ≠ '\n') :
    scan cc (n+1) pos ('#' :: c) s = s := by
  have d1 : isDigit '#' = false := by decide
  conv => lhs; rw [scan.eq_def]
  simp [hs.hash_plain.1, hs.hash_plain.2, d1, skipComment_eof c (pos + 1) hc, scan_nil]

theorem scan_nl_push (cc : CharClass) (n pos : Nat) (r : List Char) (s : LexState)
    (h : lastCanEnd s = some true) :
    scan cc (n+1) pos ('\n' :: r) s = scan cc n (pos + 1) r (s.push .terminatorLineBreak pos (pos + 1)) := by
  conv => lhs; rw [scan.eq_def]
  simp [h]

theorem scan_nl_drop (cc : CharClass) (n pos : Nat) (r : List Char) (s : LexState)
    (h : lastCanEnd s = some false) :
    scan cc (n+1) pos ('\n' :: r) s = scan cc n (pos + 1) r s := by
  conv => lhs; rw [scan.eq_def]
  simp [h]

/-! ## One lexeme = one step -/

/-- unfold one iteration of `scan` on the left-hand side -/
macro "scan_unfold" : tactic => `(tactic| (conv => lhs; rw [scan.eq_def]))

/-- the character after the lexeme does not fuse with it -/
def NoFuse (cc : CharClass) (l rest : List Char) : Prop := ∀ d t, rest = d :: t → fuses cc l d = false

theorem fuses_word {cc : CharClass} {c : Char} (w : List Char) (d : Char) (hc : c ∉ symbolChars)
    (hs : identStart cc c = true) : fuses cc (c :: w) d = identCont cc d := by
  obtain ⟨h1, h2, h3, h4, h5, h6, h7, h8, h9, h10, h11, h12, h13, h14⟩ := not_sym hc
  simp [fuses, h11, h12, h13, h14, hc, hs]

theorem fuses_number {cc : CharClass} {c : Char} (w : List Char) (d : Char) (hc : c ∉ symbolChars)
    (hs : identStart cc c = false) : fuses cc (c :: w) d = isDigit d := by
  obtain ⟨h1, h2, h3, h4, h5, h6, h7, h8, h9, h10, h11, h12, h13, h14⟩ := not_sym hc
  simp [fuses, h11, h12, h13, h14, hc, hs]

theorem scan_sym_step (cc : CharClass) (fuel pos : Nat) (l : List Char) (k : TokKind)
    (rest : List Char) (s : LexState) (h : (l, k) ∈ symTable) (hn : NoFuse cc l rest) :
    ∃ a b, scan cc (fuel+1) pos (l ++ rest) s = scan cc fuel b rest (s.push k a b) := by
  simp only [symTable, List.mem_cons, Prod.mk.injEq, List.not_mem_nil, or_false] at h
  rcases h with ⟨rfl, rfl⟩ | ⟨rfl, rfl⟩ | ⟨rfl, rfl⟩ | ⟨rfl, rfl⟩ | ⟨rfl, rfl⟩ | ⟨rfl, rfl⟩ |
    ⟨rfl, rfl⟩ | ⟨rfl, rfl⟩ | ⟨rfl, rfl⟩ | ⟨rfl, rfl⟩ | ⟨rfl, rfl⟩ | ⟨rfl, rfl⟩ | ⟨rfl, rfl⟩ |
    ⟨rfl, rfl⟩ | ⟨rfl, rfl⟩ | ⟨rfl, rfl⟩ | ⟨rfl, rfl⟩ | ⟨rfl, rfl⟩
  iterate 9 exact ⟨pos, pos + 1, by scan_unfold; simp⟩
  iterate 4
    refine ⟨pos, pos + 1, ?_⟩
    cases rest with
    | nil => scan_unfold; simp
    | cons d t =>
      have hd := hn d t rfl
      simp [fuses] at hd
      scan_unfold
      simp [hd]
  iterate 5 exact ⟨pos, pos + 2, by scan_unfold; simp⟩

theorem isLexeme_ne_nil {cc : CharClass} {l : List Char} {k : TokKind} (h : IsLexeme cc l k) :
    l ≠ [] := by
  cases h with
  | sym l k h =>
    simp only [symTable, List.mem_cons, Prod.mk.injEq, List.not_mem_nil, or_false] at h
    intro e; subst e; simp at h
  | word => simp
  | number => simp

theorem isLexeme_ne_lineBreak {cc : CharClass} {l : List Char} {k : TokKind} (h : IsLexeme cc l k) :
    k ≠ .terminatorLineBreak := by
  cases h with
  | sym l k h =>
    simp only [symTable, List.mem_cons, Prod.mk.injEq, List.not_mem_nil, or_false] at h
    intro e; subst e; simp at h
  | word => exact wordKind_ne_lineBreak _
  | number => simp

theorem scan_lexeme_step (cc : CharClass) (fuel pos : Nat) (l : List Char) (k : TokKind)
    (rest : List Char) (s : LexState) (h : IsLexeme cc l k) (hn : NoFuse cc l rest) :
    ∃ a b, scan cc (fuel+1) pos (l ++ rest) s = scan cc fuel b rest (s.push k a b) := by
  cases h with
  | sym l k h => exact scan_sym_step cc fuel pos l k rest s h hn
  | word c w hc hs hw =>
    refine ⟨_, _, scan_word_step cc fuel pos c w rest s hc hs hw ?_⟩
    intro d t e
    rw [← fuses_word w d hc hs]; exact hn d t e
  | number c w hs hd hw =>
    refine ⟨_, _, scan_number_step cc fuel pos c w rest s hs hd hw ?_⟩
    intro d t e
    rw [← fuses_number w d (digit_not_sym hd) hs]; exact hn d t e

/-! ## Gaps -/

theorem Gap.chars_cons (gi : GapItem) (g : Gap) : Gap.chars (gi :: g) = gi.chars ++ Gap.chars g := by
  simp [Gap.chars]

theorem Gap.hasNL_cons (gi : GapItem) (g : Gap) : Gap.hasNL (gi :: g) = (gi.hasNL || Gap.hasNL g) := by
  simp [Gap.hasNL]

/-- the result of scanning a gap: the state is unchanged except for at most one line-break
terminator, pushed iff the gap has a line break and the previous token can end an expression -/
def GapResult (cc : CharClass) (fuel pos : Nat) (text rest : List Char) (s : LexState) (nl : Bool) :
    Prop :=
  ∃ fuel' pos' s', rest.length ≤ fuel' ∧ scan cc fuel pos text s = scan cc fuel' pos' rest s' ∧
    s'.panic = s.panic ∧ s'.errs = s.errs ∧
    stKinds s' = if nl && lastCE (stKinds s) == some true then .terminatorLineBreak :: stKinds s else stKinds s

theorem lastCE_cases (l : List TokKind) : lastCE l = some true ∨ lastCE l = some false := by
  cases l with
  | nil => exact Or.inr rfl
  | cons k _ => cases k <;> simp [lastCE, Generated.canEnd]

theorem scan_gap (cc : CharClass) (hs : cc.Sane) : ∀ (g : Gap), Gap.ok cc g →
    ∀ (rest : List Char) (fuel pos : Nat) (s : LexState), (Gap.chars g ++ rest).length ≤ fuel →
      GapResult cc fuel pos (Gap.chars g ++ rest) rest s (Gap.hasNL g)
  | [], _, rest, fuel, pos, s, hf => by
    refine ⟨fuel, pos, s, by simpa [Gap.chars] using hf, by simp [Gap.chars], rfl, rfl, ?_⟩
    simp [Gap.hasNL]
  | gi :: g, hok, rest, fuel, pos, s, hf => by
    have ih := scan_gap cc hs g (fun x hx => hok x (List.mem_cons_of_mem _ hx)) rest
    have hgi := hok gi List.mem_cons_self
    -- a line feed followed by the rest of the gap
    have hnl : ∀ (fuel pos : Nat) (s : LexState), ('\n' :: (Gap.chars g ++ rest)).length ≤ fuel →
        GapResult cc fuel pos ('\n' :: (Gap.chars g ++ rest)) rest s true := by
      intro fuel pos s hf
      cases fuel with
      | zero => simp at hf
      | succ n =>
        have hn : (Gap.chars g ++ rest).length ≤ n := by simpa using hf
        rcases lastCE_cases (stKinds s) with hl | hl
        · obtain ⟨f', p', s', h1, h2, h3, h4, h5⟩ :=
            ih n (pos + 1) (s.push .terminatorLineBreak pos (pos + 1)) hn
          refine ⟨f', p', s', h1, ?_, h3, h4, ?_⟩
          · rw [scan_nl_push cc n pos _ s (by rw [lastCanEnd_K]; exact hl)]; exact h2
          · have e : lastCE (stKinds (s.push .terminatorLineBreak pos (pos + 1))) = some false := rfl
            rw [h5, e, hl]; simp
        · obtain ⟨f', p', s', h1, h2, h3, h4, h5⟩ := ih n (pos + 1) s hn
          refine ⟨f', p', s', h1, ?_, h3, h4, ?_⟩
          · rw [scan_nl_drop cc n pos _ s (by rw [lastCanEnd_K]; exact hl)]; exact h2
          · rw [h5]; simp [hl]
    rw [Gap.chars_cons, Gap.hasNL_cons, List.append_assoc] at *
    cases gi with
    | blank c =>
      cases fuel with
      | zero => simp [GapItem.chars] at hf
      | succ n =>
        have hn : (Gap.chars g ++ rest).length ≤ n := by simpa [GapItem.chars] using hf
        obtain ⟨f', p', s', h1, h2, h3, h4, h5⟩ := ih n (pos + c.utf8Size) s hn
        refine ⟨f', p', s', h1, ?_, h3, h4, ?_⟩
        · simp only [GapItem.chars, List.cons_append, List.nil_append]
          rw [scan_blank_step cc n pos c _ s hgi]; exact h2
        · rw [h5]; simp [GapItem.hasNL]
    | newline =>
      simpa [GapItem.chars, GapItem.hasNL] using hnl fuel pos s (by simpa [GapItem.chars] using hf)
    | comment b =>
      cases fuel with
      | zero => simp [GapItem.chars] at hf
      | succ n =>
        have hn : ('\n' :: (Gap.chars g ++ rest)).length ≤ n := by
          simp [GapItem.chars] at hf ⊢; omega
        obtain ⟨f', p', s', h1, h2, h3, h4, h5⟩ := hnl n (pos + 1 + bytesOf b) s hn
        refine ⟨f', p', s', h1, ?_, h3, h4, ?_⟩
        · simp only [GapItem.chars, List.cons_append, List.append_assoc, List.nil_append]
          rw [scan_comment_step cc hs n pos b _ s hgi]; exact h2
        · rw [h5]; simp [GapItem.hasNL]

/-! ## What may follow a lexeme -/

/-- the possible first characters of a non-empty gap or of the final comment -/
def GapHead (cc : CharClass) (d : Char) : Prop := d = '#' ∨ d = '\n' ∨ GapItem.ok cc (.blank d)

theorem fuses_gapHead {cc : CharClass} (hs : cc.Sane2) {l : List Char} {k : TokKind} {d : Char}
    (h : IsLexeme cc l k) (hd : GapHead cc d) : fuses cc l d = false := by
  have hne : d ≠ '=' ∧ d ≠ '>' := by
    rcases hd with rfl | rfl | hd
    · decide
    · decide
    · have := not_sym hd.2.1
      exact ⟨this.2.2.2.2.2.2.2.2.2.2.2.2.1, this.2.2.2.2.2.2.2.2.2.2.2.2.2⟩
  have hcont : identCont cc d = false := by
    rcases hd with rfl | rfl | hd
    · exact hs.hash_cont
    · exact hs.nl_cont
    · exact hd.2.2.2.1
  have hdig : isDigit d = false := by
    rcases hd with rfl | rfl | hd
    · decide
    · decide
    · exact hd.2.2.2.2.1
  cases h with
  | sym l k h =>
    simp only [symTable, List.mem_cons, Prod.mk.injEq, List.not_mem_nil, or_false] at h
    rcases h with ⟨rfl, rfl⟩ | ⟨rfl, rfl⟩ | ⟨rfl, rfl⟩ | ⟨rfl, rfl⟩ | ⟨rfl, rfl⟩ | ⟨rfl, rfl⟩ |
      ⟨rfl, rfl⟩ | ⟨rfl, rfl⟩ | ⟨rfl, rfl⟩ | ⟨rfl, rfl⟩ | ⟨rfl, rfl⟩ | ⟨rfl, rfl⟩ | ⟨rfl, rfl⟩ |
      ⟨rfl, rfl⟩ | ⟨rfl, rfl⟩ | ⟨rfl, rfl⟩ | ⟨rfl, rfl⟩ | ⟨rfl, rfl⟩ <;>
      simp [fuses, symbolChars, hne.1, hne.2]
  | word c w hc hst hw => rw [fuses_word w d hc hst]; exact hcont
  | number c w hst hdg hw => rw [fuses_number w d (digit_not_sym hdg) hst]; exact hdig

theorem gap_head {cc : CharClass} {g : Gap} (hok : Gap.ok cc g) (hne : g ≠ []) (rest : List Char) :
    ∃ d t, Gap.chars g ++ rest = d :: t ∧ GapHead cc d := by
  cases g with
  | nil => exact absurd rfl hne
  | cons gi g =>
    have hgi := hok gi List.mem_cons_self
    rw [Gap.chars_cons]
    cases gi with
    | blank c => exact ⟨c, _, rfl, Or.inr (Or.inr hgi)⟩
    | comment b => exact ⟨'#', _, rfl, Or.inl rfl⟩
    | newline => exact ⟨'\n', _, rfl, Or.inr (Or.inl rfl)⟩

theorem after_lexeme_noFuse {cc : CharClass} (hs : cc.Sane2) {l : List Char} {k : TokKind} {g : Gap}
    {r : List LexItem} {eof : Option (List Char)} (hok : ItemsOK cc ((l, k, g) :: r))
    (hsep : SepOK cc ((l, k, g) :: r)) : NoFuse cc l (Gap.chars g ++ renderItems r eof) := by
  have hlex := (hok _ List.mem_cons_self).1
  have hg := (hok _ List.mem_cons_self).2
  intro d t e
  by_cases hne : g = []
  · subst hne
    simp only [Gap.chars, List.flatMap_nil, List.nil_append] at e
    cases r with
    | nil =>
      cases eof with
      | none => simp [renderItems, eofChars] at e
      | some b =>
        simp only [renderItems, eofChars, List.cons.injEq] at e
        exact fuses_gapHead hs hlex (Or.inl e.1.symm)
    | cons it r' =>
      obtain ⟨l', k', g'⟩ := it
      have hl' := (hok (l', k', g') (by simp)).1
      have hsep' := hsep.1
      cases l' with
      | nil => exact absurd rfl (isLexeme_ne_nil hl')
      | cons d' w' =>
        simp only [renderItems, List.cons_append, List.cons.injEq] at e
        rcases hsep' with h | h
        · simp at h
        · rw [← e.1]; exact h
  · obtain ⟨d', t', e', hd'⟩ := gap_head hg hne (renderItems r eof)
    rw [e'] at e
    injection e with e1 e2
    rw [← e1]
    exact fuses_gapHead hs hlex hd'

/-! ## The raw (unfiltered) stream of a sequence of items -/

/-- kinds pushed by `scan`: every lexeme, and a line-break terminator after lexeme `i` iff the gap
after it has a line break and the lexeme can end an expression -/
def rawKinds : List (TokKind × Bool) → List TokKind
  | [] => []
  | (k, nl) :: r =>
      if nl && Generated.canEnd k == some true then k :: .terminatorLineBreak :: rawKinds r
      else k :: rawKinds r

theorem scan_items (cc : CharClass) (hs : cc.Sane2) (eof : Option (List Char)) (he : EofOK eof) :
    ∀ (items : List LexItem), ItemsOK cc items → SepOK cc items →
    ∀ (fuel pos : Nat) (s : LexState), (renderItems items eof).length ≤ fuel →
      (scan cc fuel pos (renderItems items eof) s).panic = s.panic ∧
      (scan cc fuel pos (renderItems items eof) s).errs = s.errs ∧
      stKinds (scan cc fuel pos (renderItems items eof) s) = (rawKinds (lexFlags items)).reverse ++ stKinds s
  | [], _, _, fuel, pos, s, hf => by
    cases eof with
    | none => simp [renderItems, eofChars, scan_nil, lexFlags, rawKinds]
    | some b =>
      cases fuel with
      | zero => simp [renderItems, eofChars] at hf
      | succ n =>
        simp only [renderItems, eofChars]
        rw [scan_eofcomment_step cc hs.toSane n pos b s (he b rfl)]
        simp [lexFlags, rawKinds]
  | (l, k, g) :: r, hok, hsep, fuel, pos, s, hf => by
    have hlex := (hok _ List.mem_cons_self).1
    have hg := (hok _ List.mem_cons_self).2
    have hok' : ItemsOK cc r := fun it hit => hok it (List.mem_cons_of_mem _ hit)
    have hsep' : SepOK cc r := by
      cases r with
      | nil => trivial
      | cons it r' => exact hsep.2
    have hlen : 0 < l.length := List.length_pos_iff.2 (isLexeme_ne_nil hlex)
    simp only [renderItems] at hf ⊢
    cases fuel with
    | zero => rw [List.length_append] at hf; omega
    | succ n =>
      obtain ⟨a, b, h1⟩ := scan_lexeme_step cc n pos l k (Gap.chars g ++ renderItems r eof) s hlex
        (after_lexeme_noFuse hs hok hsep)
      have hn : (Gap.chars g ++ renderItems r eof).length ≤ n := by
        rw [List.length_append] at hf; omega
      obtain ⟨f', p', s', g1, g2, g3, g4, g5⟩ :=
        scan_gap cc hs.toSane g hg (renderItems r eof) n b (s.push k a b) hn
      obtain ⟨i1, i2, i3⟩ := scan_items cc hs eof he r hok' hsep' f' p' s' g1
      rw [h1, g2]
      refine ⟨i1.trans g3, i2.trans g4, ?_⟩
      rw [i3, g5]
      simp only [lexFlags, List.map_cons, rawKinds, stKinds_push, lastCE]
      split <;> simp_all

/-! ## The second pass on kinds -/

/-- `filterToks` only looks at kinds -/
def filterKinds : List TokKind → Option (List TokKind)
  | [] => some []
  | k :: rest =>
    match filterKinds rest with
    | none => none
    | some rest' =>
      if k = .terminatorLineBreak then
        match rest with
        | [] => some rest'
        | n :: _ =>
          match Generated.canStart n with
          | none => none
          | some true => some (k :: rest')
          | some false => some rest'
      else some (k :: rest')

theorem filterToks_kinds : ∀ (l : List Tok),
    (filterToks l).map (List.map (·.kind)) = filterKinds (l.map (·.kind))
  | [] => rfl
  | t :: rest => by
    have ih := filterToks_kinds rest
    rw [filterToks, List.map_cons, filterKinds, ← ih]
    cases filterToks rest with
    | none => rfl
    | some rest' =>
      simp only [Option.map_some]
      by_cases ht : t.kind = .terminatorLineBreak
      · rw [if_pos ht, if_pos ht]
        cases rest with
        | nil => rfl
        | cons n r =>
          simp only [List.map_cons]
          cases Generated.canStart n.kind with
          | none => rfl
          | some b => cases b <;> rfl
      · rw [if_neg ht, if_neg ht]; rfl

theorem rawKinds_head (k : TokKind) (nl : Bool) (r : List (TokKind × Bool)) :
    ∃ z, rawKinds ((k, nl) :: r) = k :: z := by
  unfold rawKinds; split <;> exact ⟨_, rfl⟩

theorem filterKinds_raw : ∀ (its : List (TokKind × Bool)), (∀ p ∈ its, p.1 ≠ .terminatorLineBreak) →
    filterKinds (rawKinds its) = some (weave its)
  | [], _ => rfl
  | [(k, nl)], h => by
    have hk : k ≠ .terminatorLineBreak := h (k, nl) (by simp)
    unfold rawKinds
    split <;> simp [rawKinds, weave, filterKinds, hk]
  | (k, nl) :: (k', nl') :: r, h => by
    have hk : k ≠ .terminatorLineBreak := h (k, nl) (by simp)
    have hk' : k' ≠ .terminatorLineBreak := h (k', nl') (by simp)
    have ih := filterKinds_raw ((k', nl') :: r) (fun p hp => h p (List.mem_cons_of_mem _ hp))
    obtain ⟨z, hz⟩ := rawKinds_head k' nl' r
    have hcs : Generated.canStart k' = some true ∨ Generated.canStart k' = some false := by
      cases hc : Generated.canStart k' with
      | none => exact absurd (canStart_none hc) hk'
      | some b => cases b <;> simp
    rw [rawKinds, weave]
    by_cases hc : (nl && Generated.canEnd k == some true) = true
    · rw [if_pos hc, hc, Bool.true_and]
      rw [filterKinds, filterKinds, ih]
      simp only [if_neg hk, if_true]
      rw [hz]
      rcases hcs with h1 | h1 <;> simp [h1]
    · rw [if_neg hc]
      simp only [Bool.not_eq_true] at hc
      rw [hc, Bool.false_and]
      rw [filterKinds, ih]
      simp [hk]

/-! ## The law -/

theorem lexFlags_ne_lineBreak {cc : CharClass} {items : List LexItem} (h : ItemsOK cc items) :
    ∀ p ∈ lexFlags items, p.1 ≠ .terminatorLineBreak := by
  intro p hp
  simp only [lexFlags, List.mem_map] at hp
  obtain ⟨it, hit, rfl⟩ := hp
  exact isLexeme_ne_lineBreak (h it hit).1

/-- scanner-level law: the text of a rendering is scanned without panic or error into exactly the
raw stream of its items -/
theorem scan_render (cc : CharClass) (hs : cc.Sane2) (g0 : Gap) (items : List LexItem)
    (eof : Option (List Char)) (hg0 : Gap.ok cc g0) (hok : ItemsOK cc items) (he : EofOK eof)
    (hsep : SepOK cc items) :
    (scan0 cc (renderText g0 items eof)).panic = false ∧ (scan0 cc (renderText g0 items eof)).errs = [] ∧
    (scan0 cc (renderText g0 items eof)).toks.reverse.map (·.kind) = rawKinds (lexFlags items) := by
  obtain ⟨f', p', s', g1, g2, g3, g4, g5⟩ := scan_gap cc hs.toSane g0 hg0 (renderItems items eof)
    (renderText g0 items eof).length 0 { toks := [], errs := [] } (Nat.le_refl _)
  obtain ⟨i1, i2, i3⟩ := scan_items cc hs eof he items hok hsep f' p' s' g1
  have e : scan0 cc (renderText g0 items eof) = scan cc f' p' (renderItems items eof) s' := g2
  rw [e]
  refine ⟨i1.trans g3, i2.trans g4, ?_⟩
  have hk : stKinds s' = [] := by rw [g5]; simp [stKinds, lastCE]
  rw [hk, List.append_nil] at i3
  have : (List.map (·.kind) (scan cc f' p' (renderItems items eof) s').toks).reverse =
      (rawKinds (lexFlags items)).reverse.reverse := congrArg List.reverse i3
  rw [List.reverse_reverse] at this
  rw [List.map_reverse]; exact this

/-- **The render/tokenize law.**  Every rendering tokenizes successfully, and its token kinds are the
lexeme kinds woven with line-break terminators according to `weave`. -/
theorem render_law (cc : CharClass) (hs : cc.Sane2) (g0 : Gap) (items : List LexItem)
    (eof : Option (List Char)) (hg0 : Gap.ok cc g0) (hok : ItemsOK cc items) (he : EofOK eof)
    (hsep : SepOK cc items) :
    ∃ ts, tokenize cc (renderText g0 items eof) = .ok ts ∧ ts.map (·.kind) = weave (lexFlags items) := by
  obtain ⟨h1, h2, h3⟩ := scan_render cc hs g0 items eof hg0 hok he hsep
  have hf := filterToks_kinds (scan0 cc (renderText g0 items eof)).toks.reverse
  rw [h3, filterKinds_raw _ (lexFlags_ne_lineBreak hok)] at hf
  cases hft : filterToks (scan0 cc (renderText g0 items eof)).toks.reverse with
  | none => rw [hft] at hf; cases hf
  | some ts =>
    rw [hft] at hf
    refine ⟨ts, ?_, by simpa using hf⟩
    unfold tokenize
    simp only [scan0] at h1 h2 hft
    simp [h1, h2, hft]

/-- all hypotheses of the law about one rendering -/
def Rendering (cc : CharClass) (g0 : Gap) (items : List LexItem) (eof : Option (List Char)) : Prop :=
  Gap.ok cc g0 ∧ ItemsOK cc items ∧ EofOK eof ∧ SepOK cc items

theorem Rendering.law {cc : CharClass} (hs : cc.Sane2) {g0 : Gap} {items : List LexItem}
    {eof : Option (List Char)} (h : Rendering cc g0 items eof) :
    ∃ ts, tokenize cc (renderText g0 items eof) = .ok ts ∧ ts.map (·.kind) = weave (lexFlags items) :=
  render_law cc hs g0 items eof h.1 h.2.1 h.2.2.1 h.2.2.2

/-! ## Algebra of `weave` -/

theorem lexFlags_eq_zip (items : List LexItem) :
    lexFlags items = (items.map (·.2.1)).zip (items.map fun it => Gap.hasNL it.2.2) := by
  induction items with
  | nil => rfl
  | cons it r ih => simp only [lexFlags, List.map_cons, List.zip_cons_cons] at ih ⊢; rw [ih]

theorem lexFlags_append (a b : List LexItem) : lexFlags (a ++ b) = lexFlags a ++ lexFlags b := by
  simp [lexFlags]

/-- the flag of the last lexeme is irrelevant -/
theorem weave_last : ∀ (A : List (TokKind × Bool)) (k : TokKind) (b b' : Bool),
    weave (A ++ [(k, b)]) = weave (A ++ [(k, b')])
  | [], _, _, _ => rfl
  | [(k0, n0)], k, b, b' => by simp [weave]
  | (k0, n0) :: (k1, n1) :: A, k, b, b' => by
    have ih := weave_last ((k1, n1) :: A) k b b'
    simp only [List.cons_append] at ih ⊢
    rw [weave, weave, ih]

/-- the separator inserted between two adjacent lexemes -/
def sepKinds (k : TokKind) (nl : Bool) (k' : TokKind) : List TokKind :=
  if nl && Generated.canEnd k == some true && Generated.canStart k' == some true
  then [.terminatorLineBreak] else []

/-- `weave` is compositional: the stream of a sequence is the stream of a prefix, the separator at
the cut, and the stream of the suffix -/
theorem weave_cons_cons (k : TokKind) (nl : Bool) (k' : TokKind) (nl' : Bool)
    (r : List (TokKind × Bool)) :
    weave ((k, nl) :: (k', nl') :: r) =
      if nl && Generated.canEnd k == some true && Generated.canStart k' == some true
      then k :: .terminatorLineBreak :: weave ((k', nl') :: r)
      else k :: weave ((k', nl') :: r) := by
  rw [weave]

theorem weave_single (k : TokKind) (nl : Bool) : weave [(k, nl)] = [k] := rfl

theorem weave_split : ∀ (A : List (TokKind × Bool)) (k : TokKind) (b : Bool) (k' : TokKind) (b' : Bool)
    (B : List (TokKind × Bool)),
    weave (A ++ (k, b) :: (k', b') :: B) =
      weave (A ++ [(k, b)]) ++ sepKinds k b k' ++ weave ((k', b') :: B)
  | [], k, b, k', b', B => by
    simp only [List.nil_append, sepKinds]
    rw [weave_cons_cons k b, weave_single]
    by_cases hc : (b && Generated.canEnd k == some true && Generated.canStart k' == some true) = true
    · rw [if_pos hc, if_pos hc]; simp
    · rw [if_neg hc, if_neg hc]; simp
  | [(k0, n0)], k, b, k', b', B => by
    have ih := weave_split [] k b k' b' B
    simp only [List.nil_append, List.cons_append] at ih ⊢
    rw [weave_cons_cons k0 n0 k b ((k', b') :: B), ih, weave_cons_cons k0 n0 k b []]
    by_cases hc : (n0 && Generated.canEnd k0 == some true && Generated.canStart k == some true) = true
    · rw [if_pos hc, if_pos hc]; simp
    · rw [if_neg hc, if_neg hc]; simp
  | (k0, n0) :: (k1, n1) :: A, k, b, k', b', B => by
    have ih := weave_split ((k1, n1) :: A) k b k' b' B
    simp only [List.cons_append] at ih ⊢
    rw [weave_cons_cons k0 n0 k1 n1 (A ++ (k, b) :: (k', b') :: B), ih,
      weave_cons_cons k0 n0 k1 n1 (A ++ [(k, b)])]
    by_cases hc : (n0 && Generated.canEnd k0 == some true && Generated.canStart k1 == some true) = true
    · rw [if_pos hc, if_pos hc]; simp
    · rw [if_neg hc, if_neg hc]; simp

theorem sepKinds_cannot_end {k : TokKind} (nl : Bool) (k' : TokKind)
    (h : Generated.canEnd k = some false) : sepKinds k nl k' = [] := by
  simp [sepKinds, h]

theorem sepKinds_cannot_start (k : TokKind) (nl : Bool) {k' : TokKind}
    (h : Generated.canStart k' = some false) : sepKinds k nl k' = [] := by
  simp [sepKinds, h]

/-- a flag after a lexeme that cannot end an expression is irrelevant -/
theorem weave_cannot_end (A : List (TokKind × Bool)) (k : TokKind) (b b' : Bool)
    (B : List (TokKind × Bool)) (h : Generated.canEnd k = some false) :
    weave (A ++ (k, b) :: B) = weave (A ++ (k, b') :: B) := by
  cases B with
  | nil => exact weave_last A k b b'
  | cons p B =>
    obtain ⟨k', n'⟩ := p
    rw [weave_split, weave_split, sepKinds_cannot_end b k' h, sepKinds_cannot_end b' k' h,
      weave_last A k b b']

/-- a flag before a lexeme that cannot start an expression is irrelevant -/
theorem weave_cannot_start (A : List (TokKind × Bool)) (k : TokKind) (b b' : Bool) (k' : TokKind)
    (n' : Bool) (B : List (TokKind × Bool)) (h : Generated.canStart k' = some false) :
    weave (A ++ (k, b) :: (k', n') :: B) = weave (A ++ (k, b') :: (k', n') :: B) := by
  rw [weave_split, weave_split, sepKinds_cannot_start k b h, sepKinds_cannot_start k b' h,
    weave_last A k b b']

/-! ## Executable checks of the hypotheses (for concrete instances) -/

def isLexemeB (cc : CharClass) (l : List Char) (k : TokKind) : Bool :=
  symTable.contains (l, k) ||
  match l with
  | [] => false
  | c :: w =>
    (!symbolChars.contains c && identStart cc c && w.all (identCont cc) &&
        decide (k = wordKind (c :: w))) ||
    (!identStart cc c && isDigit c && w.all isDigit &&
        decide (k = .integerLiteral (digitsValue (c :: w))))

theorem isLexemeB_sound {cc : CharClass} {l : List Char} {k : TokKind}
    (h : isLexemeB cc l k = true) : IsLexeme cc l k := by
  unfold isLexemeB at h
  rw [Bool.or_eq_true] at h
  rcases h with h | h
  · exact .sym l k (by simpa using h)
  · cases l with
    | nil => simp at h
    | cons c w =>
      simp only [Bool.or_eq_true, Bool.and_eq_true, Bool.not_eq_true', List.all_eq_true,
        decide_eq_true_eq] at h
      rcases h with ⟨⟨⟨h1, h2⟩, h3⟩, rfl⟩ | ⟨⟨⟨h1, h2⟩, h3⟩, rfl⟩
      · exact .word c w (by simpa using h1) h2 h3
      · exact .number c w h1 h2 h3

def itemsOKB (cc : CharClass) (items : List LexItem) : Bool :=
  items.all fun it => isLexemeB cc it.1 it.2.1 && decide (Gap.ok cc it.2.2)

theorem itemsOKB_sound {cc : CharClass} {items : List LexItem} (h : itemsOKB cc items = true) :
    ItemsOK cc items := by
  intro it hit
  have := List.all_eq_true.1 h it hit
  simp only [Bool.and_eq_true, decide_eq_true_eq] at this
  exact ⟨isLexemeB_sound this.1, this.2⟩

def sepOKB (cc : CharClass) : List LexItem → Bool
  | [] => true
  | [_] => true
  | (l, _, g) :: (l', k', g') :: r =>
      (!g.isEmpty || !fusesHead cc l l') && sepOKB cc ((l', k', g') :: r)

theorem sepOKB_sound {cc : CharClass} : ∀ {items : List LexItem}, sepOKB cc items = true → SepOK cc items
  | [], _ => trivial
  | [_], _ => trivial
  | (l, _, g) :: (l', k', g') :: r, h => by
    simp only [sepOKB, Bool.and_eq_true, Bool.or_eq_true, Bool.not_eq_true'] at h
    exact ⟨h.1, sepOKB_sound h.2⟩

theorem eofOK_none : EofOK none := by intro b h; cases h

theorem eofOK_some {b : List Char} (h : ∀ x ∈ b, x ≠ '\n') : EofOK (some b) := by
  intro b' e; cases e; exact h

/-- checkable form of `Rendering` -/
theorem Rendering.of_check {cc : CharClass} {g0 : Gap} {items : List LexItem}
    {eof : Option (List Char)} (h0 : Gap.ok cc g0) (h1 : itemsOKB cc items = true)
    (h2 : EofOK eof) (h3 : sepOKB cc items = true) : Rendering cc g0 items eof :=
  ⟨h0, itemsOKB_sound h1, h2, sepOKB_sound h3⟩

/-! ## `fuses` in pattern-matching form -/

/-- the specification of `fuses` written with patterns; `fuses_eq_spec` shows that the `if`-chain
used above (easier to rewrite with) is the same function -/
def fusesSpec (cc : CharClass) (a : List Char) (next : Char) : Bool :=
  match a with
  | ['-'] => next == '>'
  | ['<'] => next == '='
  | ['='] => next == '=' || next == '>'
  | ['>'] => next == '='
  | c :: _ =>
    if c ∈ symbolChars then false else if identStart cc c then identCont cc next else isDigit next
  | [] => false

theorem fuses_eq_spec (cc : CharClass) (a : List Char) (d : Char) :
    fuses cc a d = fusesSpec cc a d := by
  unfold fusesSpec
  split
  · simp [fuses]
  · simp [fuses]
  · simp [fuses]
  · simp [fuses]
  · rename_i c t h1 h2 h3 h4
    unfold fuses
    rw [if_neg (fun e => by injection e with e1 e2; exact h1 e1 e2),
      if_neg (fun e => by injection e with e1 e2; exact h2 e1 e2),
      if_neg (fun e => by injection e with e1 e2; exact h3 e1 e2),
      if_neg (fun e => by injection e with e1 e2; exact h4 e1 e2)]
  · simp [fuses]
