import GramModel.Lemmas.ParsePrinted8

/-! # Completeness of the parser model on printed terms: the whole printable class -/

namespace PModel
open PrintDerives

section
variable (I : List Char → Name) (nm : Name → List Char)

theorem ce_grpS {t : Tm} (h : collectErrors (srcOf I nm t) = []) :
    collectErrors (grpS I nm t) = [] := by
  unfold grpS; split
  · exact h
  · rw [ce_setG]; exact h

theorem ce_annS {t : Tm} (h : collectErrors (srcOf I nm t) = []) :
    collectErrors (annS I nm t) = [] := by
  unfold annS; split
  · rw [ce_setG]; exact h
  · exact h

theorem ce_headAtoms {t : Tm} (h : collectErrors (srcOf I nm t) = [])
    (h' : ∀ e ∈ atomsOf I nm t, collectErrors e = []) :
    ∀ e ∈ headAtoms I nm t, collectErrors e = [] := by
  intro e he
  unfold headAtoms at he
  split at he
  · exact h' e he
  · simp only [List.mem_cons, List.mem_nil_iff, or_false] at he; subst he; exact ce_grpS I nm h

theorem headAtoms_ne_nil (t : Tm) (h : isApp t = true → atomsOf I nm t ≠ []) :
    headAtoms I nm t ≠ [] := by
  unfold headAtoms; split
  · exact h ‹_›
  · simp

mutual
theorem ce_srcOfFull : ∀ t : Tm,
    collectErrors (srcOf I nm t) = [] ∧ (∀ e ∈ atomsOf I nm t, collectErrors e = []) ∧
      (isApp t = true → atomsOf I nm t ≠ [])
  | .hole _ _ => by simp [srcOf, atomsOf, mk0, collectErrors, isApp]
  | .var _ _ => by simp [srcOf, atomsOf, mk0, collectErrors, isApp]
  | .type => by simp [srcOf, atomsOf, mk0, collectErrors, isApp]
  | .int => by simp [srcOf, atomsOf, mk0, collectErrors, isApp]
  | .bool => by simp [srcOf, atomsOf, mk0, collectErrors, isApp]
  | .tt => by simp [srcOf, atomsOf, mk0, collectErrors, isApp]
  | .ff => by simp [srcOf, atomsOf, mk0, collectErrors, isApp]
  | .lit _ => by simp [srcOf, atomsOf, mk0, collectErrors, isApp]
  | .lam x imp d b => by
      have hd := ce_srcOfFull d
      have hb := ce_srcOfFull b
      rw [srcOf_lam]
      simp [mk0, collectErrors, collectErrorsOpt, ce_annS I nm hd.1, hb.1, atomsOf, isApp]
  | .pi x imp d c => by
      have hd := ce_srcOfFull d
      have hc := ce_srcOfFull c
      cases hf : freeAt c 0 with
      | true =>
        rw [srcOf_pi_dep I nm x imp d c hf]
        simp [mk0, collectErrors, ce_annS I nm hd.1, hc.1, atomsOf, isApp]
      | false =>
        rw [srcOf_arrow I nm x imp d c hf]
        have := ce_nestL _ (ce_headAtoms I nm hd.1 hd.2.1) (headAtoms_ne_nil I nm d hd.2.2)
        simp [mk0, collectErrors, this, hc.1, atomsOf, isApp]
  | .letg ds b => by
      have hb := ce_srcOfFull b
      rw [srcOf_letg]
      exact ⟨ce_srcDefs ds _ hb.1, by simp [atomsOf], by simp [isApp]⟩
  | .app f x => by
      have hf := ce_srcOfFull f
      have hx := ce_srcOfFull x
      have hall : ∀ e ∈ headAtoms I nm f ++ [grpS I nm x], collectErrors e = [] := by
        intro e he
        rcases List.mem_append.mp he with he | he
        · exact ce_headAtoms I nm hf.1 hf.2.1 e he
        · simp only [List.mem_cons, List.mem_nil_iff, or_false] at he; subst he
          exact ce_grpS I nm hx.1
      rw [srcOf_app, atomsOf_app]
      exact ⟨ce_nestL _ hall (by simp), hall, fun _ => by simp⟩
  | .neg x => by
      have hx := ce_srcOfFull x
      rw [srcOf_neg]
      simp [mk0, collectErrors, ce_grpS I nm hx.1, atomsOf, isApp]
  | .bin op x y => by
      have hx := ce_srcOfFull x
      have hy := ce_srcOfFull y
      rw [srcOf_bin]
      simp [mk0, collectErrors, ce_grpS I nm hx.1, ce_grpS I nm hy.1, atomsOf, isApp]
  | .ite c x y => by
      have hc := ce_srcOfFull c
      have hx := ce_srcOfFull x
      have hy := ce_srcOfFull y
      rw [srcOf_ite]
      simp [mk0, collectErrors, hc.1, hx.1, hy.1, atomsOf, isApp]
theorem ce_srcDefs : ∀ (ds : Defs) (e : Src), collectErrors e = [] →
    collectErrors (srcDefs I nm ds e) = []
  | .nil, e, h => by rw [srcDefs_nil]; exact h
  | .cons x a d r, e, h => by
      have ha := ce_srcOfFull a
      have hd := ce_srcOfFull d
      have hr := ce_srcDefs r e h
      rw [srcDefs_cons]
      simp [mk0, collectErrors, collectErrorsOpt, ce_grpS I nm ha.1, ce_grpS I nm hd.1, hr]
end

end

/-- **The parse phase reads every printed term back**: on any token array whose kinds are the kinds
the printer model prints for a printable `t`, the parse phase succeeds, consumes every token, records
no error, and returns the tree of `t`. -/
theorem parse_printed (toks : Array PTok) (I : List Char → Name) (nm : Name → List Char)
    (t : Tm) (h1 : noImplicitArrow t = true) (h2 : noNegLit t = true)
    (hk : toks.toList.map (·.kind) = (printKinds nm t).map (kindP I)) :
    ∃ r st, runParser toks = some (r, st) ∧ r.next = toks.size ∧ r.confident = true ∧
      collectErrors r.term = [] ∧ shape r.term = srcOf I nm t ∧
      SegT toks .term 0 toks.size r.term := by
  rw [← pk_eq] at hk
  obtain ⟨hsub, hsz⟩ := Sub_of_kinds hk
  have G := mainFull toks I nm t h1 h2 0 hsub
  have hf : Follow toks (0 + (pk I nm t).length) stopK := by
    intro k ⟨hlt, _⟩; omega
  obtain ⟨tr, ⟨F, hF⟩, hs⟩ := G.term hf
  have hrun := hF F (Nat.le_refl _) PState.init
  obtain ⟨st, hr⟩ := runParser_eq_pure hrun
  have hce : collectErrors tr = [] := by
    rw [← collectErrors_shape, hs]; exact (ce_srcOfFull I nm t).1
  have hnext : 0 + (pk I nm t).length = toks.size := by omega
  refine ⟨_, st, hr, hnext, rfl, hce, hs, ?_⟩
  have := runParser_spans hr hce
  rw [← hnext]
  exact this

end PModel
