import GramModel.Lemmas.CCGroup
import GramModel.Lemmas.Eval
import GramModel.Lemmas.Progress

/-!
# Consistency of conversion, canonical forms and progress for the declarative rules (C01 / C04)

Consistency comes from confluence (`Lemmas/CCPar.lean`, `Lemmas/CCJoin.lean`): convertible terms have
joinable erasures, and joinable weak head normal forms keep their head constructor — in *every*
definitions context whose offsets are in range (δ-unfolding of context definitions is a reduction of
`Par`).  So canonical forms and progress hold under any such context, in particular under the
definitions of a group, where the evaluator works on the first definition.
-/

namespace Canonical
open CCSubst CCPar CheckSound

/-- the four type formers -/
inductive Head | type | int | bool | pi
deriving DecidableEq

/-- head of a type in weak head normal form -/
def headOf : Tm → Option Head
  | .type => some .type
  | .int => some .int
  | .bool => some .bool
  | .pi .. => some .pi
  | _ => none

theorem headOf_er (A : Tm) (h : Head) (e : headOf A = some h) : headOf (er A) = some h := by
  cases A <;> simp [headOf] at e <;> simp [er, headOf, e]

theorem whnf_of_head {Δ : DCtxX} {n : Nat} {A : Tm} {h : Head} (e : headOf A = some h) : Whnf Δ n A := by
  cases A <;> simp [headOf] at e <;> constructor

theorem parsH_head {Δ : DCtxX} {n : Nat} {a c : Tm} (h : ParsH Δ n a c) : headOf a = headOf c := by
  cases h <;> rfl

/-- **Consistency of conversion**: convertible types with type-former heads have the same head. -/
theorem conv_heads {Δ : DCtxX} {A B : Tm} {h1 h2 : Head} (hc : Conv Δ A B) (hW : DWF Δ)
    (e1 : headOf A = some h1) (e2 : headOf B = some h2) : h1 = h2 := by
  have j := Conv.join hc hW
  have e1' := headOf_er A h1 e1
  have e2' := headOf_er B h2 e2
  obtain ⟨c, p1, p2⟩ := Join.heads (whnf_of_head e1') (whnf_of_head e2') j
  have := parsH_head p1
  have := parsH_head p2
  simp_all

/-- what the last non-conversion rule of a typing derivation of `t` says -/
def Gen (Γ : TCtxX) (Δ : DCtxX) (t T0 : Tm) : Prop :=
  match t with
  | .hole .. => False
  | .var .. => True
  | .type | .int | .bool | .pi .. => T0 = .type
  | .lit _ => T0 = .int
  | .tt | .ff => T0 = .bool
  | .lam x im d _ => ∃ cod, T0 = .pi x im d cod
  | .app g a => ∃ x im dom cod, HasType Γ Δ g (.pi x im dom cod) ∧ HasType Γ Δ a dom
  | .neg a => HasType Γ Δ a .int
  | .bin _ a b => HasType Γ Δ a .int ∧ HasType Γ Δ b .int
  | .ite c _ _ => HasType Γ Δ c .bool
  | .letg ds _ => DefsOK (pushGroupX ds 0 (Γ, Δ)).1 (pushGroupX ds 0 (Γ, Δ)).2 ds

/-- generation (inversion up to conversion) -/
theorem gen : ∀ {Γ : TCtxX} {Δ : DCtxX} {t T : Tm}, HasType Γ Δ t T → ∃ T0, Conv Δ T0 T ∧ Gen Γ Δ t T0
  | _, _, _, _, .type _ _ => ⟨_, .refl _ _, rfl⟩
  | _, _, _, _, .int _ _ => ⟨_, .refl _ _, rfl⟩
  | _, _, _, _, .bool _ _ => ⟨_, .refl _ _, rfl⟩
  | _, _, _, _, .lit _ _ _ => ⟨_, .refl _ _, rfl⟩
  | _, _, _, _, .tt _ _ => ⟨_, .refl _ _, rfl⟩
  | _, _, _, _, .ff _ _ => ⟨_, .refl _ _, rfl⟩
  | _, _, _, _, .var _ _ _ _ _ _ _ => ⟨_, .refl _ _, trivial⟩
  | _, _, _, _, .lam _ _ _ _ => ⟨_, .refl _ _, _, rfl⟩
  | _, _, _, _, .pi _ _ _ _ => ⟨_, .refl _ _, rfl⟩
  | _, _, _, _, .app x im hg ha => ⟨_, .refl _ _, x, im, _, _, hg, ha⟩
  | _, _, _, _, .letg hd _ => ⟨_, .refl _ _, hd⟩
  | _, _, _, _, .neg ha => ⟨_, .refl _ _, ha⟩
  | _, _, _, _, .bin _ ha hb => ⟨_, .refl _ _, ha, hb⟩
  | _, _, _, _, .ite hc _ _ => ⟨_, .refl _ _, hc⟩
  | _, _, _, _, .conv h hc => by
      obtain ⟨T0, c0, g⟩ := gen h
      exact ⟨T0, .trans c0 hc, g⟩

/-- head of the type of a value -/
def valHead : Tm → Option Head
  | .lit _ => some .int
  | .tt | .ff => some .bool
  | .type | .int | .bool | .pi .. => some .type
  | .lam .. => some .pi
  | _ => none

theorem value_gen_head {Γ : TCtxX} {Δ : DCtxX} {v T0 : Tm} (hv : isValue v = true) (g : Gen Γ Δ v T0) :
    ∃ h, headOf T0 = some h ∧ valHead v = some h := by
  cases v <;> simp [isValue] at hv <;> simp only [Gen] at g
  case lam => obtain ⟨cod, rfl⟩ := g; exact ⟨_, rfl, rfl⟩
  all_goals (subst g; exact ⟨_, rfl, rfl⟩)

/-- **Canonical forms, generic**: in any context whose offsets are in range, if the type of a value is
convertible with a type whose head is a type former, that type former is the one the value's shape
dictates. -/
theorem canonical {Γ : TCtxX} {Δ : DCtxX} {v T X : Tm} {h : Head} (hW : DWF Δ) (hv : isValue v = true)
    (ht : HasType Γ Δ v T) (hc : Conv Δ T X) (hX : headOf X = some h) : valHead v = some h := by
  obtain ⟨T0, c0, g⟩ := gen ht
  obtain ⟨h0, e0, ev⟩ := value_gen_head hv g
  have := conv_heads (.trans c0 hc) hW e0 hX
  rw [← this]; exact ev

theorem canonical_int {Γ : TCtxX} {Δ : DCtxX} {v T : Tm} (hW : DWF Δ) (hv : isValue v = true)
    (ht : HasType Γ Δ v T) (hc : Conv Δ T .int) : ∃ n, v = .lit n := by
  have := canonical (h := .int) hW hv ht hc rfl
  cases v <;> simp [valHead] at this
  exact ⟨_, rfl⟩

theorem canonical_bool {Γ : TCtxX} {Δ : DCtxX} {v T : Tm} (hW : DWF Δ) (hv : isValue v = true)
    (ht : HasType Γ Δ v T) (hc : Conv Δ T .bool) : v = .tt ∨ v = .ff := by
  have := canonical (h := .bool) hW hv ht hc rfl
  cases v <;> simp [valHead] at this <;> simp

theorem canonical_pi {Γ : TCtxX} {Δ : DCtxX} {v T : Tm} {x : Name} {im : Bool} {d c : Tm} (hW : DWF Δ)
    (hv : isValue v = true) (ht : HasType Γ Δ v T) (hc : Conv Δ T (.pi x im d c)) :
    ∃ y jm e b, v = .lam y jm e b := by
  have := canonical (h := .pi) hW hv ht hc rfl
  cases v <;> simp [valHead] at this
  exact ⟨_, _, _, _, rfl⟩

theorem canonical_type {Γ : TCtxX} {Δ : DCtxX} {v T : Tm} (hW : DWF Δ) (hv : isValue v = true)
    (ht : HasType Γ Δ v T) (hc : Conv Δ T .type) :
    v = .type ∨ v = .int ∨ v = .bool ∨ ∃ x im d c, v = .pi x im d c := by
  have := canonical (h := .type) hW hv ht hc rfl
  cases v <;> simp [valHead] at this <;> simp

theorem DWF_nil : DWF [] := by intro p d off h; simp at h

theorem DWF_pushGroupX {Γ : TCtxX} {Δ : DCtxX} (ds : Defs) (hW : DWF Δ) : DWF (pushGroupX ds 0 (Γ, Δ)).2 := by
  rw [pushGroupX_eq]
  intro p d off h
  rcases pushedD_get ds Δ p d off h with ⟨_, _, e⟩ | ⟨h1, h2⟩
  · omega
  · have := hW _ _ _ h2
    omega

open OracleLemmas in
/-- **One-step progress for the declarative rules**, in any context whose offsets are in range: a well
typed term that is stuck is stuck at a variable in evaluation position or at a division by zero. -/
theorem stuck_only_var_or_div : ∀ (t : Tm) (r : StuckReason), stuckReason t = some r →
    ∀ (Γ : TCtxX) (Δ : DCtxX) (T : Tm), DWF Δ → HasType Γ Δ t T → r = .variable ∨ r = .divZero := by
  intro t
  fun_induction stuckReason t <;> intro r hs Γ Δ T hW h
  all_goals try (cases hs; done)
  all_goals obtain ⟨T0, c0, g⟩ := gen h
  all_goals simp only [Gen] at g
  case case2 => cases hs; exact Or.inl rfl
  case case4 ih =>
    obtain ⟨x, im, dom, cod, hg, ha⟩ := g
    exact ih r hs Γ Δ _ hW hg
  case case6 ih =>
    obtain ⟨x, im, dom, cod, hg, ha⟩ := g
    exact ih r hs Γ Δ _ hW ha
  case case8 hvf _ _ hnl =>
    obtain ⟨x, im, dom, cod, hg, ha⟩ := g
    obtain ⟨y, jm, d, b, e⟩ := canonical_pi hW (not_not_value hvf) hg (.refl _ _)
    exact (hnl y jm d b e).elim
  case case11 ih =>
    cases g with
    | cons _ hann hd hr => exact ih r hs _ _ _ (DWF_pushGroupX _ hW) hd
  case case14 ih => exact ih r hs Γ Δ _ hW g
  case case16 _ hva hnl =>
    obtain ⟨n, e⟩ := canonical_int hW (not_not_value hva) g (.refl _ _)
    exact (hnl n e).elim
  case case18 ih => exact ih r hs Γ Δ _ hW g.1
  case case20 ih => exact ih r hs Γ Δ _ hW g.2
  case case21 => cases hs; exact Or.inr rfl
  case case23 _ hva _ hvb hnl =>
    obtain ⟨n, e1⟩ := canonical_int hW (not_not_value hva) g.1 (.refl _ _)
    obtain ⟨m, e2⟩ := canonical_int hW (not_not_value hvb) g.2 (.refl _ _)
    exact (hnl n m e1 e2).elim
  case case25 ih => exact ih r hs Γ Δ _ hW g
  case case28 _ hvc hnt hnf =>
    rcases canonical_bool hW (not_not_value hvc) g (.refl _ _) with e | e
    · exact (hnt e).elim
    · exact (hnf e).elim

/-- progress in the usual form -/
theorem progress {Γ : TCtxX} {Δ : DCtxX} {t T : Tm} (hW : DWF Δ) (h : HasType Γ Δ t T) :
    isValue t = true ∨ (∃ t', Step t t') ∨ stuckReason t = some .variable ∨ stuckReason t = some .divZero := by
  cases hv : isValue t with
  | true => exact Or.inl rfl
  | false =>
    cases hs : step t with
    | some t' => exact Or.inr (Or.inl ⟨t', step_sound t t' hs⟩)
    | none =>
      obtain ⟨r, hr⟩ := stuckReason_complete t hs hv
      rcases stuck_only_var_or_div t r hr Γ Δ T hW h with e | e
      · exact Or.inr (Or.inr (Or.inl (e ▸ hr)))
      · exact Or.inr (Or.inr (Or.inr (e ▸ hr)))

/-! ## along evaluation -/

open WhnfLemmas in
/-- evaluation keeps terms hole-free -/
theorem Step_holeFree {t t' : Tm} (h : Step t t') : t.holeFree = true → t'.holeFree = true := by
  induction h with
  | appL _ ih => intro hf; simp only [Tm.holeFree, Bool.and_eq_true] at hf ⊢; exact ⟨ih hf.1, hf.2⟩
  | appR _ _ ih => intro hf; simp only [Tm.holeFree, Bool.and_eq_true] at hf ⊢; exact ⟨hf.1, ih hf.2⟩
  | beta _ => intro hf; simp only [Tm.holeFree, Bool.and_eq_true] at hf; exact openT_holeFree _ _ _ _ hf.1.2 hf.2
  | negC _ ih => intro hf; simp only [Tm.holeFree] at hf ⊢; exact ih hf
  | negL => intro _; rfl
  | binL _ ih => intro hf; simp only [Tm.holeFree, Bool.and_eq_true] at hf ⊢; exact ⟨ih hf.1, hf.2⟩
  | binR _ _ ih => intro hf; simp only [Tm.holeFree, Bool.and_eq_true] at hf ⊢; exact ⟨hf.1, ih hf.2⟩
  | delta h => intro _; exact delta_holeFree h
  | iteC _ ih => intro hf; simp only [Tm.holeFree, Bool.and_eq_true] at hf ⊢; exact ⟨⟨ih hf.1.1, hf.1.2⟩, hf.2⟩
  | iteT => intro hf; simp only [Tm.holeFree, Bool.and_eq_true] at hf; exact hf.1.2
  | iteF => intro hf; simp only [Tm.holeFree, Bool.and_eq_true] at hf; exact hf.2
  | letNil => intro hf; simp only [Tm.holeFree, Bool.and_eq_true] at hf; exact hf.2
  | letD _ ih =>
    intro hf
    simp only [Tm.holeFree, Defs.holeFree, Bool.and_eq_true] at hf ⊢
    exact ⟨⟨⟨hf.1.1.1, ih hf.1.1.2⟩, hf.1.2⟩, hf.2⟩
  | @letU x ann d rest b _ =>
    intro hf
    simp only [Tm.holeFree, Defs.holeFree, Bool.and_eq_true] at hf ⊢
    have hu := unfoldDef_holeFree x ann d rest.len hf.1.1.1 hf.1.1.2
    exact ⟨openDefs_holeFree _ _ _ _ hf.1.2 hu, openT_holeFree _ _ _ _ hf.2 hu⟩

/-- a closed well typed hole-free term stays so along evaluation, given subject reduction -/
theorem evalFuel_typed
    (pres : ∀ (t t' T : Tm), t.holeFree = true → HasType [] [] t T → Step t t' → HasType [] [] t' T) :
    ∀ (n : Nat) (t T : Tm), t.holeFree = true → HasType [] [] t T →
      (evalFuel n t).holeFree = true ∧ HasType [] [] (evalFuel n t) T
  | 0, t, T, hf, h => ⟨hf, h⟩
  | n+1, t, T, hf, h => by
      unfold evalFuel
      cases hs : step t with
      | none => exact ⟨hf, h⟩
      | some t' =>
        have st := step_sound t t' hs
        exact evalFuel_typed pres n t' T (Step_holeFree st hf) (pres t t' T hf h st)

/-- type soundness of the checker model on hole-free programs, given subject reduction -/
theorem checker_sound_run
    (pres : ∀ (t t' T : Tm), t.holeFree = true → HasType [] [] t T → Step t t' → HasType [] [] t' T)
    (fuel n : Nat) (t e ty : Tm) (s : St) (ht : t.holeFree = true)
    (h : inferS fuel t {} = .ok (e, ty) s) (hn : s.nerrs = 0) :
    isValue (evalFuel n t) = true ∨ (∃ r', Step (evalFuel n t) r') ∨
      stuckReason (evalFuel n t) = some .variable ∨ stuckReason (evalFuel n t) = some .divZero := by
  obtain ⟨_, _, j⟩ := CheckSound.checker_sound_generic
    (CheckSound.rules_HasType CheckSound.groupRuleAdmissible) ht h hn
  exact progress DWF_nil (evalFuel_typed pres n t ty ht j).2

end Canonical
