import GramModel.Lemmas.ConvCoherence
import GramModel.Lemmas.RewriteTyping
import GramModel.Lemmas.ParserReassoc
import GramModel.Lemmas.ParserResolve

/-!
# More meaning-preserving rewrites (C19): naming a subexpression, reordering independent
definitions, redundant parentheses

* Part A — naming a subexpression `s₀` of a program: `x : A = s₀; b` against `b[s₀/x]`:
  the two programs are convertible in every context, the evaluator reaches `b[v/x]` once `s₀` has
  reached the value `v`, and whenever the two programs end in a value resp. a ground value these
  coincide.  Evaluation of a definition is *strict*, so the rewrite can turn a program with a value
  into a stuck one (`strict_witness`).
* Part C — swapping two definitions of a group that mention no group variable.
* Part D — parentheses around the whole program: the three re-association passes and name resolution
  only see the `variant` of the top node.
-/

namespace RewriteMore

open ConvCoherence WhnfLemmas

/-! ## Part A — naming a subexpression -/

/-- the unfolding of a definition that does not mention its own name is the definition -/
theorem unfoldDef_nonrec (x : Name) (A s₀ : Tm) : unfoldDef x A (ushift 0 1 s₀) 0 = s₀ := by
  unfold unfoldDef
  exact open_ushift_cancel s₀ 0 _ 0

/-- a one-definition group is convertible with its body, the unfolding of the definition in place of
the variable — in every definitions context, whether or not the definition is a value -/
theorem name_conv_gen (Δ : DCtxX) (x : Name) (A s b : Tm) :
    Conv Δ (.letg (.cons x A s .nil) b) (openT b 0 (unfoldDef x A s 0) 0) := by
  have h1 := Red1.letStep (Δ := Δ) x A s .nil b
  simp only [letStepX, Defs.len_nil, openDefs] at h1
  exact .trans (.red h1) (.red (.letNil _))

theorem name_conv (Δ : DCtxX) (x : Name) (A s₀ b : Tm) :
    Conv Δ (.letg (.cons x A (ushift 0 1 s₀) .nil) b) (openT b 0 s₀ 0) := by
  have h := name_conv_gen Δ x A (ushift 0 1 s₀) b
  rwa [unfoldDef_nonrec] at h

theorem Steps_letD {x : Name} {A d d' : Tm} {rest : Defs} {b : Tm} (h : Steps d d') :
    Steps (.letg (.cons x A d rest) b) (.letg (.cons x A d' rest) b) := by
  induction h with
  | refl => exact .refl
  | head h _ ih => exact .head (.letD h) ih

/-- the evaluator on a one-definition group: evaluate the definition to a value `v`, then continue
with the body in which the variable is replaced by the recursive unfolding of `v` -/
theorem name_eval_gen {x : Name} {A s v : Tm} (b : Tm) (hs : Steps s v) (hv : isValue v = true) :
    Steps (.letg (.cons x A s .nil) b) (openT b 0 (unfoldDef x A v 0) 0) := by
  refine Steps_trans (Steps_letD hs) ?_
  have h1 := @Step.letU x A v .nil b hv
  simp only [Defs.len_nil, openDefs] at h1
  exact .head h1 (.head .letNil .refl)

theorem isValue_ushift (t : Tm) (c a : Nat) : isValue (ushift c a t) = isValue t := by
  cases t
  case var x i => simp only [ushift]; by_cases h : i ≥ c <;> simp [h, isValue]
  case hole id s => simp only [ushift]; by_cases h : s ≥ c <;> simp [h, isValue]
  all_goals simp only [ushift, isValue]

/-- evaluation commutes with lifting (hole-free terms) -/
theorem Step_ushift {t t' : Tm} (h : Step t t') :
    ∀ (c a : Nat), t.holeFree = true → Step (ushift c a t) (ushift c a t') := by
  induction h with
  | appL _ ih =>
    intro c a hf; simp only [Tm.holeFree, Bool.and_eq_true] at hf
    exact .appL (ih c a hf.1)
  | appR hv _ ih =>
    intro c a hf; simp only [Tm.holeFree, Bool.and_eq_true] at hf
    exact .appR (by rw [isValue_ushift]; exact hv) (ih c a hf.2)
  | @beta x im d b arg hv =>
    intro c a hf; simp only [Tm.holeFree, Bool.and_eq_true] at hf
    have e := open_ushift_high b arg 0 c a 0 hf.1.2 (Nat.zero_le _)
    rw [Nat.sub_zero] at e
    simp only [ushift]
    rw [e]
    exact .beta (by rw [isValue_ushift]; exact hv)
  | negC _ ih => intro c a hf; simp only [Tm.holeFree] at hf; exact .negC (ih c a hf)
  | negL => intro c a _; exact .negL
  | binL _ ih =>
    intro c a hf; simp only [Tm.holeFree, Bool.and_eq_true] at hf
    exact .binL (ih c a hf.1)
  | binR hv _ ih =>
    intro c a hf; simp only [Tm.holeFree, Bool.and_eq_true] at hf
    exact .binR (by rw [isValue_ushift]; exact hv) (ih c a hf.2)
  | @delta op x y r hd =>
    intro c a _
    rw [RewriteTyping.delta_ushift hd]
    exact .delta hd
  | iteC _ ih =>
    intro c a hf; simp only [Tm.holeFree, Bool.and_eq_true] at hf
    exact .iteC (ih c a hf.1.1)
  | iteT => intro c a _; exact .iteT
  | iteF => intro c a _; exact .iteF
  | letNil =>
    intro c a _
    simp only [ushift, ushiftDefs, Defs.len_nil, Nat.add_zero]
    exact .letNil
  | letD _ ih =>
    intro c a hf
    simp only [Tm.holeFree, Defs.holeFree, Bool.and_eq_true] at hf
    simp only [ushift, ushiftDefs]
    exact .letD (ih _ a hf.1.1.2)
  | @letU x ann d rest b hv =>
    intro c a hf
    simp only [Tm.holeFree, Defs.holeFree, Bool.and_eq_true] at hf
    have e0 : c + (Defs.cons x ann d rest).len = (c + rest.len) + 1 := by
      simp only [Defs.len_cons]; omega
    have eu := RewriteTyping.unfoldDef_ushift x ann d rest.len (c + rest.len) a hf.1.1.1 hf.1.1.2
      (by omega)
    have e1 := open_ushift_high b (unfoldDef x ann d rest.len) rest.len (c + rest.len) a 0 hf.2
      (by omega)
    have e2 := openDefs_ushiftDefs_high rest (unfoldDef x ann d rest.len) rest.len (c + rest.len) a 0
      hf.1.2 (by omega)
    rw [Nat.sub_zero] at e1 e2
    simp only [ushift, ushiftDefs, openDefs_len]
    rw [e0, e1, e2, eu]
    have h1 := @Step.letU x (ushift (c + rest.len + 1) a ann) (ushift (c + rest.len + 1) a d)
      (ushiftDefs (c + rest.len + 1) a rest) (ushift (c + rest.len + 1) a b)
      (by rw [isValue_ushift]; exact hv)
    rw [ushiftDefs_len] at h1
    exact h1

theorem Steps_ushift {t t' : Tm} (h : Steps t t') (c a : Nat) (hf : t.holeFree = true) :
    Steps (ushift c a t) (ushift c a t') := by
  induction h with
  | refl => exact .refl
  | head h _ ih => exact .head (Step_ushift h c a hf) (ih (Canonical.Step_holeFree h hf))

/-- **naming a subexpression, evaluation**: if the subexpression `s₀` evaluates to the value `v`, the
program `x : A = s₀; b` evaluates to `b[v/x]` -/
theorem name_eval {x : Name} {A s₀ v : Tm} (b : Tm) (hf : s₀.holeFree = true) (hs : Steps s₀ v)
    (hv : isValue v = true) :
    Steps (.letg (.cons x A (ushift 0 1 s₀) .nil) b) (openT b 0 v 0) := by
  have h := name_eval_gen (x := x) (A := A) b (Steps_ushift hs 0 1 hf)
    (by rw [isValue_ushift]; exact hv)
  rwa [unfoldDef_nonrec] at h

/-- two closed convertible programs: if one evaluates to a value and the other to a ground value
(literal, `true`, `false`), the two results are the same -/
theorem conv_results_agree {p q v g : Tm} (hc : Conv [] p q) (hf : p.holeFree = true)
    (hp : Steps p v) (hv : isValue v = true) (hq : Steps q g) (hg : Ground g) : v = g :=
  whnf_conv_ground Canonical.DWF_nil (Steps_holeFree hp hf) (value_whnf hv (Steps_holeFree hp hf)) hg
    (.trans (.symm (steps_conv hp [])) (.trans hc (steps_conv hq [])))

/-! ## Part C — swapping two definitions -/

mutual
/-- exchange the variables `k` and `k + 1` -/
def swap01 (k : Nat) : Tm → Tm
  | .var x i => if i = k then .var x (k + 1) else if i = k + 1 then .var x k else .var x i
  | .hole id s => .hole id s
  | .lam x im d b => .lam x im (swap01 k d) (swap01 (k+1) b)
  | .pi x im d b => .pi x im (swap01 k d) (swap01 (k+1) b)
  | .app f a => .app (swap01 k f) (swap01 k a)
  | .letg ds b => .letg (swap01Defs (k + ds.len) ds) (swap01 (k + ds.len) b)
  | .neg a => .neg (swap01 k a)
  | .bin op a b => .bin op (swap01 k a) (swap01 k b)
  | .ite c a b => .ite (swap01 k c) (swap01 k a) (swap01 k b)
  | .type => .type
  | .int => .int
  | .bool => .bool
  | .tt => .tt
  | .ff => .ff
  | .lit n => .lit n
def swap01Defs (k : Nat) : Defs → Defs
  | .nil => .nil
  | .cons x a d r => .cons x (swap01 k a) (swap01 k d) (swap01Defs k r)
end

theorem swap01Defs_len : ∀ (k : Nat) (ds : Defs), (swap01Defs k ds).len = ds.len
  | _, .nil => by simp [swap01Defs]
  | k, .cons _ _ _ r => by simp [swap01Defs, swap01Defs_len k r]

mutual
/-- opening the lower of two exchanged variables is opening the upper one of the original -/
theorem open_swap : ∀ (t : Tm) (k : Nat) (u : Tm) (s : Nat), t.holeFree = true →
    openT (swap01 k t) k u s = openT t (k + 1) u s
  | .var x i, k, u, s, _ => by
      simp only [swap01]
      by_cases h1 : i = k
      · subst h1
        have h2 : i + 1 ≠ i := by omega
        have h3 : i + 1 > i := by omega
        have h4 : i ≠ i + 1 := by omega
        have h5 : ¬ i > i + 1 := by omega
        simp [openT, h3, h5]
      · by_cases h2 : i = k + 1
        · subst h2
          simp [openT]
        · simp only [h1, h2, if_false, openT]
          by_cases h3 : i > k
          · have h4 : i > k + 1 := by omega
            simp [h3, h4]
          · have h4 : ¬ i > k + 1 := by omega
            simp [h3, h4]
  | .hole _ _, _, _, _, hf => by cases hf
  | .lam x im d b, k, u, s, hf => by
      simp only [Tm.holeFree, Bool.and_eq_true] at hf
      simp only [swap01, openT, open_swap d k u s hf.1, open_swap b (k+1) u (s+1) hf.2]
  | .pi x im d b, k, u, s, hf => by
      simp only [Tm.holeFree, Bool.and_eq_true] at hf
      simp only [swap01, openT, open_swap d k u s hf.1, open_swap b (k+1) u (s+1) hf.2]
  | .app f a, k, u, s, hf => by
      simp only [Tm.holeFree, Bool.and_eq_true] at hf
      simp only [swap01, openT, open_swap f k u s hf.1, open_swap a k u s hf.2]
  | .letg ds b, k, u, s, hf => by
      simp only [Tm.holeFree, Bool.and_eq_true] at hf
      have e : k + 1 + ds.len = k + ds.len + 1 := by omega
      simp only [swap01, openT, swap01Defs_len, e,
        openDefs_swap ds (k + ds.len) u (s + ds.len) hf.1, open_swap b (k + ds.len) u (s + ds.len) hf.2]
  | .neg a, k, u, s, hf => by
      simp only [Tm.holeFree] at hf
      simp only [swap01, openT, open_swap a k u s hf]
  | .bin op a b, k, u, s, hf => by
      simp only [Tm.holeFree, Bool.and_eq_true] at hf
      simp only [swap01, openT, open_swap a k u s hf.1, open_swap b k u s hf.2]
  | .ite c a b, k, u, s, hf => by
      simp only [Tm.holeFree, Bool.and_eq_true] at hf
      simp only [swap01, openT, open_swap c k u s hf.1.1, open_swap a k u s hf.1.2,
        open_swap b k u s hf.2]
  | .type, _, _, _, _ | .int, _, _, _, _ | .bool, _, _, _, _ | .tt, _, _, _, _ | .ff, _, _, _, _
  | .lit _, _, _, _, _ => by simp only [swap01, openT]
theorem openDefs_swap : ∀ (ds : Defs) (k : Nat) (u : Tm) (s : Nat), ds.holeFree = true →
    openDefs (swap01Defs k ds) k u s = openDefs ds (k + 1) u s
  | .nil, _, _, _, _ => by simp only [swap01Defs, openDefs]
  | .cons x a d r, k, u, s, hf => by
      simp only [Defs.holeFree, Bool.and_eq_true] at hf
      simp only [swap01Defs, openDefs, open_swap a k u s hf.1.1, open_swap d k u s hf.1.2,
        openDefs_swap r k u s hf.2]
end

/-- a term lifted over both variables of a two-definition group -/
theorem ushift2_split (t : Tm) : ushift 0 2 t = ushift 1 1 (ushift 0 1 t) := by
  rw [ushift_ushift_mid t 1 0 1 1 (by omega) (by omega)]

/-- the unfolding of the first of two definitions that mention no group variable -/
theorem unfoldDef_closed1 (x : Name) (A e : Tm) : unfoldDef x A (ushift 0 2 e) 1 = ushift 0 1 e := by
  unfold unfoldDef
  rw [ushift2_split]
  exact open_ushift_cancel _ 1 _ 0

/-- what a group of two definitions that mention no group variable unfolds to -/
def twoDefs (x y : Name) (A1 e1 A2 e2 : Tm) : Defs :=
  .cons x (ushift 0 2 A1) (ushift 0 2 e1) (.cons y (ushift 0 2 A2) (ushift 0 2 e2) .nil)

theorem open_closed2 (t u : Tm) : openT (ushift 0 2 t) 1 u 0 = ushift 0 1 t := by
  rw [ushift2_split]
  exact open_ushift_cancel _ 1 _ 0

/-- the evaluator on a group of two value definitions that mention no group variable -/
theorem twoDefs_eval (x y : Name) (A1 e1 A2 e2 b : Tm) (h1 : isValue e1 = true)
    (h2 : isValue e2 = true) :
    Steps (.letg (twoDefs x y A1 e1 A2 e2) b) (openT (openT b 1 (ushift 0 1 e1) 0) 0 e2 0) := by
  have s1 := @Step.letU x (ushift 0 2 A1) (ushift 0 2 e1)
    (.cons y (ushift 0 2 A2) (ushift 0 2 e2) .nil) b (by rw [isValue_ushift]; exact h1)
  simp only [Defs.len_cons, Defs.len_nil, Nat.zero_add, unfoldDef_closed1, openDefs, open_closed2] at s1
  have s2 := @Step.letU y (ushift 0 1 A2) (ushift 0 1 e2) .nil (openT b 1 (ushift 0 1 e1) 0)
    (by rw [isValue_ushift]; exact h2)
  simp only [Defs.len_nil, openDefs, unfoldDef_nonrec] at s2
  exact .head s1 (.head s2 (.head .letNil .refl))

/-- … and the same as a conversion, values or not -/
theorem twoDefs_conv (Δ : DCtxX) (x y : Name) (A1 e1 A2 e2 b : Tm) :
    Conv Δ (.letg (twoDefs x y A1 e1 A2 e2) b) (openT (openT b 1 (ushift 0 1 e1) 0) 0 e2 0) := by
  have s1 := Red1.letStep (Δ := Δ) x (ushift 0 2 A1) (ushift 0 2 e1)
    (.cons y (ushift 0 2 A2) (ushift 0 2 e2) .nil) b
  simp only [letStepX, Defs.len_cons, Defs.len_nil, Nat.zero_add, unfoldDef_closed1, openDefs,
    open_closed2] at s1
  have s2 := Red1.letStep (Δ := Δ) y (ushift 0 1 A2) (ushift 0 1 e2) .nil (openT b 1 (ushift 0 1 e1) 0)
  simp only [letStepX, Defs.len_nil, openDefs, unfoldDef_nonrec] at s2
  exact .trans (.red s1) (.trans (.red s2) (.red (.letNil _)))

/-- the two orders substitute the same things -/
theorem swap_subst (b e1 e2 : Tm) (hb : b.holeFree = true) :
    openT (openT (swap01 0 b) 1 (ushift 0 1 e2) 0) 0 e1 0 =
      openT (openT b 1 (ushift 0 1 e1) 0) 0 e2 0 := by
  have h := open_open (swap01 0 b) (ushift 0 1 e1) e2 0 0 (Nat.le_refl _)
  rw [open_ushift_cancel, open_swap b 0 _ 0 hb] at h
  exact h.symm

/-! ## Part D — parentheses around the whole program -/

section Paren
open PModel

/-- One re-association pass started at the top (no accumulator) only looks at the `variant` of the top
node: its range, its `group` flag and its error list influence at most the range and the `group` flag
of the result's top node. -/
theorem reassoc_top (fam : Family) (r r' : SourceRange) (g g' : Bool) (v : SrcV) (es es' : List PErr) :
    (reassoc fam none (.mk r' g' v es')).map Src.variant =
      (reassoc fam none (.mk r g v es)).map Src.variant := by
  cases v
  case app f a =>
    rw [reassoc, reassoc]
    simp only [Option.isSome, Bool.false_and, Bool.false_eq_true, if_false]
    split
    · split
      · cases reassoc fam none f <;> cases reassoc fam none a <;> rfl
      · rfl
    · cases reassoc fam none f <;> cases reassoc fam none a <;> rfl
  case bin o a b =>
    rw [reassoc, reassoc]
    simp only [Option.isSome, Bool.false_and, Bool.false_eq_true, if_false]
    split
    · split
      · cases reassoc fam none a <;> cases reassoc fam none b <;> rfl
      · rfl
    · cases reassoc fam none a <;> cases reassoc fam none b <;> rfl
  case lam x imp dom body =>
    rw [reassoc, reassoc]
    cases reassocOpt fam dom <;> cases reassoc fam none body <;> rfl
  case pi x imp dom cod =>
    rw [reassoc, reassoc]
    cases reassoc fam none dom <;> cases reassoc fam none cod <;> rfl
  case let_ x ann d b =>
    rw [reassoc, reassoc]
    cases reassocOpt fam ann <;> cases reassoc fam none d <;> cases reassoc fam none b <;> rfl
  case neg a =>
    rw [reassoc, reassoc]
    cases reassoc fam none a <;> rfl
  case ite c a b =>
    rw [reassoc, reassoc]
    cases reassoc fam none c <;> cases reassoc fam none a <;> cases reassoc fam none b <;> rfl
  all_goals (rw [reassoc, reassoc]; try rfl)

theorem reassoc_top' (fam : Family) {t t' : Src} (h : t'.variant = t.variant) :
    (reassoc fam none t').map Src.variant = (reassoc fam none t).map Src.variant := by
  obtain ⟨r, g, v, es⟩ := t
  obtain ⟨r', g', v', es'⟩ := t'
  simp only [Src.variant] at h
  subst h
  exact reassoc_top fam r r' g g' _ es es'

/-- the three re-association passes of `parse`, in order -/
def reassocAll (t : Src) : Option Src :=
  match reassociateApplications t with
  | none => none
  | some t1 =>
    match reassociateProductsAndQuotients t1 with
    | none => none
    | some t2 => reassociateSumsAndDifferences t2

theorem reassocAll_top {t t' : Src} (h : t'.variant = t.variant) :
    (reassocAll t').map Src.variant = (reassocAll t).map Src.variant := by
  unfold reassocAll reassociateApplications reassociateProductsAndQuotients
    reassociateSumsAndDifferences
  have h1 := reassoc_top' .applications h
  cases e1 : reassoc .applications none t' with
  | none =>
    rw [e1] at h1
    cases e1' : reassoc .applications none t with
    | none => rfl
    | some _ => rw [e1'] at h1; cases h1
  | some u' =>
    rw [e1] at h1
    cases e1' : reassoc .applications none t with
    | none => rw [e1'] at h1; cases h1
    | some u =>
      rw [e1'] at h1
      simp only [Option.map_some, Option.some.injEq] at h1
      have h2 := reassoc_top' .productsAndQuotients h1
      simp only
      cases e2 : reassoc .productsAndQuotients none u' with
      | none =>
        rw [e2] at h2
        cases e2' : reassoc .productsAndQuotients none u with
        | none => rfl
        | some _ => rw [e2'] at h2; cases h2
      | some w' =>
        rw [e2] at h2
        cases e2' : reassoc .productsAndQuotients none u with
        | none => rw [e2'] at h2; cases h2
        | some w =>
          rw [e2'] at h2
          simp only [Option.map_some, Option.some.injEq] at h2
          exact reassoc_top' .sumsAndDifferences h2

/-- what name resolution of a whole program shows of its result: the semantic term (ranges
forgotten), the context, the hole counter and the number of errors -/
def resView (p : RTm × RState) : Tm × Ctx × Nat × Nat :=
  (p.1.erase, p.2.ctx, p.2.nextHole, p.2.errors.length)

def resViewAux (p : (RDefs × RTm) × RState) : Tm × Ctx × Nat × Nat :=
  (p.1.2.erase, p.2.ctx, p.2.nextHole, p.2.errors.length)

theorem resolveAux_top (r r' : SourceRange) (g g' : Bool) (v : SrcV) (es es' : List PErr)
    (depth : Nat) (st : RState) :
    (resolveAux (.mk r' g' v es') none depth st).map resViewAux =
      (resolveAux (.mk r g v es) none depth st).map resViewAux := by
  cases v
  case var x =>
    rw [resolveAux, resolveAux]
    dsimp only
    cases st.ctx.get x <;> simp [resViewAux, RTm.erase]
    split <;> simp
  case parseError => rw [resolveAux, resolveAux]
  case lam x imp dom body =>
    rw [resolveAux, resolveAux]
    simp only [bind, StateT.bind, Option.map_bind, Function.comp_def]
    congr 1; funext p; congr 1; funext q
    cases p.fst <;>
      simp only [bind, StateT.bind, pure, StateT.pure, Option.map_bind, Function.comp_def, Option.map_some,
        resViewAux, RTm.erase, Option.bind_some]
  all_goals
    rw [resolveAux, resolveAux]
    simp only [bind, StateT.bind, pure, StateT.pure, Option.map_bind, Function.comp_def, Option.map_some,
      resViewAux, RTm.erase]

/-- name resolution of a whole program only looks at the `variant` of the top node -/
theorem resolve_top {t t' : Src} (h : t'.variant = t.variant) (depth : Nat) (st : RState) :
    (resolve t' depth st).map resView = (resolve t depth st).map resView := by
  obtain ⟨r, g, v, es⟩ := t
  obtain ⟨r', g', v', es'⟩ := t'
  simp only [Src.variant] at h
  subst h
  have h := resolveAux_top r r' g g' v' es es' depth st
  unfold resolve
  simp only [bind, StateT.bind, pure, StateT.pure, Option.map_bind, Function.comp_def, Option.map_some,
    resView]
  simpa only [Option.map_eq_bind, Function.comp_def, resViewAux] using h

/-- re-association followed by name resolution -/
def reassocResolve (t : Src) (depth : Nat) (st : RState) : Option (RTm × RState) :=
  match reassocAll t with
  | none => none
  | some t3 => resolve t3 depth st

/-- **Parentheses around the whole program**: two surface trees with the same top `variant` (the
parser's `parse_group` returns the inner tree's variant with a wider range, `group = true` and possibly
more errors) go through the three re-association passes and name resolution to the same semantic
term, the same context, the same hole counter and the same number of errors. -/
theorem paren_whole {t t' : Src} (h : t'.variant = t.variant) (depth : Nat) (st : RState) :
    (reassocResolve t' depth st).map resView = (reassocResolve t depth st).map resView := by
  have h1 := reassocAll_top h
  unfold reassocResolve
  cases e : reassocAll t' with
  | none =>
    rw [e] at h1
    cases e' : reassocAll t with
    | none => rfl
    | some _ => rw [e'] at h1; cases h1
  | some u' =>
    rw [e] at h1
    cases e' : reassocAll t with
    | none => rw [e'] at h1; cases h1
    | some u =>
      rw [e'] at h1
      simp only [Option.map_some, Option.some.injEq] at h1
      exact resolve_top h1 depth st

/-! ### parentheses around an operand -/

mutual
def strip : Src → Src
  | .mk _ _ v _ => .mk ⟨0, 0⟩ false (stripV v) []
def stripV : SrcV → SrcV
  | .parseError => .parseError
  | .type => .type
  | .var x => .var x
  | .lam v imp dom body => .lam ⟨⟨0, 0⟩, v.name⟩ imp (stripO dom) (strip body)
  | .pi v imp dom cod => .pi ⟨⟨0, 0⟩, v.name⟩ imp (strip dom) (strip cod)
  | .app f a => .app (strip f) (strip a)
  | .let_ v ann d b => .let_ ⟨⟨0, 0⟩, v.name⟩ (stripO ann) (strip d) (strip b)
  | .int => .int
  | .lit n => .lit n
  | .neg a => .neg (strip a)
  | .bin o a b => .bin o (strip a) (strip b)
  | .bool => .bool
  | .tt => .tt
  | .ff => .ff
  | .ite c t e => .ite (strip c) (strip t) (strip e)
def stripO : OptSrc → OptSrc
  | .none => .none
  | .some t => .some (strip t)
end

def Kept (fam : Family) (t : Src) : Prop := ∀ acc, reassoc fam acc t = some (reassocTail acc t)
def Opaque (fam : Family) (t : Src) : Prop :=
  ∀ acc, reassoc fam acc t = (reassoc fam none t).map (reassocTail acc)

def binNF (o : BinOp) (acc : Option (Src × Link)) (g : Bool) (a' b : Src) : Src :=
  match acc, g with
  | none, _ => .mk ⟨0, 0⟩ false (.bin o (strip a') (strip b)) []
  | some (ac, l), true =>
      .mk ⟨0, 0⟩ false (l.build (strip ac) (.mk ⟨0, 0⟩ false (.bin o (strip a') (strip b)) [])) []
  | some (ac, l), false =>
      .mk ⟨0, 0⟩ false (.bin o (.mk ⟨0, 0⟩ false (l.build (strip ac) (strip a')) []) (strip b)) []

theorem stripV_build (l : Link) (a b : Src) : stripV (l.build a b) = l.build (strip a) (strip b) := by
  cases l <;> simp [Link.build, stripV]

theorem build_op (o : BinOp) (a b : Src) : (Link.op o).build a b = .bin o a b := rfl

theorem reassoc_bin_norm (fam : Family) (acc : Option (Src × Link)) (r : SourceRange) (g : Bool)
    (o : BinOp) (a b : Src) (es : List PErr)
    (ho : (fam = .productsAndQuotients ∧ (o = .prod ∨ o = .quot))
        ∨ (fam = .sumsAndDifferences ∧ (o = .sum ∨ o = .diff)))
    (hb : Kept fam b) (ha : Opaque fam a) :
    (reassoc fam acc (.mk r g (.bin o a b) es)).map strip =
      (reassoc fam none a).map (fun a' => binNF o acc g a' b) := by
  rw [reassoc]
  simp only [ho, if_true]
  have hb' : ∀ acc, reassoc fam acc b = some (reassocTail acc b) := hb
  simp only [hb']
  cases acc with
  | none =>
    simp only [Option.isSome, Bool.false_and, Bool.false_eq_true, if_false]
    cases reassoc fam none a with
    | none => simp
    | some a' =>
      by_cases hg : b.group = true <;> simp [hg, reassocTail, strip, stripV, binNF, build_op]
  | some p =>
    obtain ⟨ac, l⟩ := p
    have ha' := ha (some (ac, l))
    dsimp only
    cases g with
    | true =>
      simp only [Option.isSome, Bool.and_self, if_true]
      cases reassoc fam none a with
      | none => simp
      | some a' =>
        by_cases hg : b.group = true <;> simp [hg, reassocTail, strip, stripV, binNF, stripV_build, build_op]
    | false =>
      simp only [Bool.and_false, Bool.false_eq_true, if_false, ha']
      cases reassoc fam none a with
      | none => simp
      | some a' =>
        by_cases hg : b.group = true <;> simp [hg, reassocTail, strip, stripV, binNF, stripV_build, build_op]

/-- **Parentheses around an operand**: in a chain node of the family being re-associated, a right
operand that the pass keeps as it is (an atom, whatever its `group` flag) may be replaced by one that
differs only in ranges and `group` flags (the same atom in parentheses) — the result is the same up to
ranges, `group` flags and error lists — provided the left operand is opaque to the pass (an atom, a
node of another family, or a parenthesised chain: `C07_group_opaque`). -/
theorem paren_operand (fam : Family) (acc : Option (Src × Link)) (r : SourceRange) (g : Bool)
    (o : BinOp) (a b b' : Src) (es : List PErr)
    (ho : (fam = .productsAndQuotients ∧ (o = .prod ∨ o = .quot))
        ∨ (fam = .sumsAndDifferences ∧ (o = .sum ∨ o = .diff)))
    (hb : Kept fam b) (hb' : Kept fam b') (hs : strip b' = strip b) (ha : Opaque fam a) :
    (reassoc fam acc (.mk r g (.bin o a b') es)).map strip =
      (reassoc fam acc (.mk r g (.bin o a b) es)).map strip := by
  rw [reassoc_bin_norm fam acc r g o a b' es ho hb' ha, reassoc_bin_norm fam acc r g o a b es ho hb ha]
  congr 1
  funext a'
  cases acc with
  | none => simp only [binNF, hs]
  | some p => obtain ⟨ac, l⟩ := p; cases g <;> simp only [binNF, hs]

theorem kept_atom (fam : Family) (r : SourceRange) (g : Bool) (v : SrcV) (es : List PErr)
    (hv : v = .type ∨ (∃ x, v = .var x) ∨ v = .int ∨ (∃ n, v = .lit n) ∨ v = .bool ∨ v = .tt ∨ v = .ff) :
    Kept fam (.mk r g v es) := by
  intro acc
  rcases hv with rfl | ⟨x, rfl⟩ | rfl | ⟨n, rfl⟩ | rfl | rfl | rfl <;> rw [reassoc]

theorem opaque_of_kept {fam : Family} {t : Src} (h : Kept fam t) : Opaque fam t := by
  intro acc
  rw [h acc, h none]
  rfl

/-- a parenthesised chain of the family is opaque (this is `C07_group_opaque`) -/
theorem opaque_grouped (fam : Family) (r : SourceRange) (o : BinOp) (a b : Src) (es : List PErr)
    (ho : (fam = .productsAndQuotients ∧ (o = .prod ∨ o = .quot))
        ∨ (fam = .sumsAndDifferences ∧ (o = .sum ∨ o = .diff))) :
    Opaque fam (.mk r true (.bin o a b) es) := by
  intro acc
  cases acc with
  | none => cases reassoc fam none (.mk r true (.bin o a b) es) <;> rfl
  | some p =>
    obtain ⟨ac, l⟩ := p
    rw [reassoc, reassoc]
    simp only [ho, if_true, Option.isSome, Bool.and_self]
    simp only [Bool.false_and, Bool.false_eq_true, if_false]
    generalize (if b.group = true then _ else _ : Option Src) = X
    cases X <;> rfl

end Paren

end RewriteMore
