import GramModel.Lemmas.Names

/-!
# Resolution commutes with a consistent renaming of the surface program (C19, first rewrite)

`renameSrc ρ` renames every variable occurrence and every binder of a surface tree.  For a renaming
that is injective on the names that matter (those of the program, those of the initial context, and
the placeholder `_`, which must stay fixed), `resolve_variables` on the renamed tree in the renamed
context does exactly what it does on the original: same success/failure, the same de Bruijn term up to
the name annotations (`renameR ρ`), the same diagnostics (identical ranges, the error list is not
touched by the renaming), the same hole allocator, and the renamed final context.
-/

namespace PModel

/-! ## The renaming -/

def renVar (ρ : Name → Name) (v : SrcVar) : SrcVar := { v with name := ρ v.name }

@[simp] theorem renVar_name (ρ : Name → Name) (v : SrcVar) : (renVar ρ v).name = ρ v.name := rfl
@[simp] theorem renVar_range (ρ : Name → Name) (v : SrcVar) : (renVar ρ v).range = v.range := rfl

mutual
/-- Rename every variable occurrence and every binder; ranges, group flags and errors are kept. -/
def renameSrc (ρ : Name → Name) : Src → Src
  | .mk r g v es => .mk r g (renameSrcV ρ v) es
def renameSrcV (ρ : Name → Name) : SrcV → SrcV
  | .parseError => .parseError
  | .type => .type
  | .var x => .var (ρ x)
  | .lam v imp dom body => .lam (renVar ρ v) imp (renameOpt ρ dom) (renameSrc ρ body)
  | .pi v imp dom cod => .pi (renVar ρ v) imp (renameSrc ρ dom) (renameSrc ρ cod)
  | .app f a => .app (renameSrc ρ f) (renameSrc ρ a)
  | .let_ v ann defn body =>
      .let_ (renVar ρ v) (renameOpt ρ ann) (renameSrc ρ defn) (renameSrc ρ body)
  | .int => .int
  | .lit n => .lit n
  | .neg a => .neg (renameSrc ρ a)
  | .bin op a b => .bin op (renameSrc ρ a) (renameSrc ρ b)
  | .bool => .bool
  | .tt => .tt
  | .ff => .ff
  | .ite c a b => .ite (renameSrc ρ c) (renameSrc ρ a) (renameSrc ρ b)
def renameOpt (ρ : Name → Name) : OptSrc → OptSrc
  | .none => .none
  | .some t => .some (renameSrc ρ t)
end

mutual
/-- Every name of the tree (occurrences and binders), in source order. -/
def srcNames : Src → List Name
  | .mk _ _ v _ => srcNamesV v
def srcNamesV : SrcV → List Name
  | .parseError => []
  | .type => []
  | .var x => [x]
  | .lam v _ dom body => v.name :: (srcNamesOpt dom ++ srcNames body)
  | .pi v _ dom cod => v.name :: (srcNames dom ++ srcNames cod)
  | .app f a => srcNames f ++ srcNames a
  | .let_ v ann defn body => v.name :: (srcNamesOpt ann ++ (srcNames defn ++ srcNames body))
  | .int => []
  | .lit _ => []
  | .neg a => srcNames a
  | .bin _ a b => srcNames a ++ srcNames b
  | .bool => []
  | .tt => []
  | .ff => []
  | .ite c a b => srcNames c ++ (srcNames a ++ srcNames b)
def srcNamesOpt : OptSrc → List Name
  | .none => []
  | .some t => srcNames t
end

mutual
/-- The same renaming on resolved terms: only the name annotations change. -/
def renameR (ρ : Name → Name) : RTm → RTm
  | .mk r v => .mk r (renameRV ρ v)
def renameRV (ρ : Name → Name) : RTmV → RTmV
  | .hole id s => .hole id s
  | .type => .type
  | .int => .int
  | .bool => .bool
  | .tt => .tt
  | .ff => .ff
  | .lit n => .lit n
  | .var x i => .var (ρ x) i
  | .lam x imp d b => .lam (ρ x) imp (renameR ρ d) (renameR ρ b)
  | .pi x imp d b => .pi (ρ x) imp (renameR ρ d) (renameR ρ b)
  | .app f a => .app (renameR ρ f) (renameR ρ a)
  | .letg ds b => .letg (renameRDefs ρ ds) (renameR ρ b)
  | .neg a => .neg (renameR ρ a)
  | .bin o a b => .bin o (renameR ρ a) (renameR ρ b)
  | .ite c a b => .ite (renameR ρ c) (renameR ρ a) (renameR ρ b)
def renameRDefs (ρ : Name → Name) : RDefs → RDefs
  | .nil => .nil
  | .cons x a d r => .cons (ρ x) (renameR ρ a) (renameR ρ d) (renameRDefs ρ r)
end

/-- The renamed context: keys renamed, depths kept, order kept. -/
def renCtx (ρ : Name → Name) (c : Ctx) : Ctx := c.map (fun p => (ρ p.1, p.2))

/-- The renamed resolver state: only the keys of the context change (the error list and the hole
allocator are untouched). -/
def renSt (ρ : Name → Name) (st : RState) : RState := { st with ctx := renCtx ρ st.ctx }

@[simp] theorem renSt_errors (ρ : Name → Name) (st : RState) : (renSt ρ st).errors = st.errors := rfl
@[simp] theorem renSt_nextHole (ρ : Name → Name) (st : RState) :
    (renSt ρ st).nextHole = st.nextHole := rfl
@[simp] theorem renSt_ctx (ρ : Name → Name) (st : RState) : (renSt ρ st).ctx = renCtx ρ st.ctx := rfl

/-- All keys of the context belong to `P`. -/
def KeysIn (P : Name → Prop) (c : Ctx) : Prop := ∀ p ∈ c, P p.1

/-- `ρ` is admissible on the set `P` of names that matter: injective there, and the placeholder
(which belongs to `P`) is fixed — so no name of `P` is renamed to the placeholder. -/
structure Adm (ρ : Name → Name) (P : Name → Prop) : Prop where
  inj : ∀ x y, P x → P y → ρ x = ρ y → x = y
  zero : ρ placeholder = placeholder
  pz : P placeholder

theorem Adm.eq_iff {ρ : Name → Name} {P : Name → Prop} (h : Adm ρ P) {x y : Name}
    (hx : P x) (hy : P y) : ρ x = ρ y ↔ x = y :=
  ⟨h.inj x y hx hy, fun e => by rw [e]⟩

theorem Adm.beq {ρ : Name → Name} {P : Name → Prop} (h : Adm ρ P) {x y : Name}
    (hx : P x) (hy : P y) : (ρ x == ρ y) = (x == y) := by
  by_cases e : x = y
  · subst e; simp
  · have : ρ x ≠ ρ y := fun e' => e (h.inj x y hx hy e')
    rw [beq_eq_false_iff_ne.mpr this, beq_eq_false_iff_ne.mpr e]

theorem Adm.ph {ρ : Name → Name} {P : Name → Prop} (h : Adm ρ P) {x : Name} (hx : P x) :
    (ρ x != placeholder) = (x != placeholder) := by
  have := h.beq hx h.pz
  rw [h.zero] at this
  show (!(ρ x == placeholder)) = (!(x == placeholder))
  rw [this]

/-! ## The context operations commute with an admissible renaming of the keys -/

theorem renCtx_get {ρ : Name → Name} {P : Name → Prop} (h : Adm ρ P) :
    ∀ (c : Ctx) (x : Name), KeysIn P c → P x → (renCtx ρ c).get (ρ x) = c.get x
  | [], x, _, _ => rfl
  | (k, v) :: c, x, hk, hx => by
      have hP : P k := hk (k, v) (by simp)
      have hk' : KeysIn P c := fun p hp => hk p (by simp [hp])
      have ih := renCtx_get h c x hk' hx
      simp only [renCtx, Ctx.get] at ih ⊢
      simp only [List.map_cons, List.lookup_cons, h.beq hx hP, ih]

theorem renCtx_containsKey {ρ : Name → Name} {P : Name → Prop} (h : Adm ρ P)
    (c : Ctx) (x : Name) (hk : KeysIn P c) (hx : P x) :
    (renCtx ρ c).containsKey (ρ x) = c.containsKey x := by
  simp only [Ctx.containsKey_eq, renCtx_get h c x hk hx]

theorem renCtx_remove {ρ : Name → Name} {P : Name → Prop} (h : Adm ρ P)
    (c : Ctx) (x : Name) (hk : KeysIn P c) (hx : P x) :
    (renCtx ρ c).remove (ρ x) = renCtx ρ (c.remove x) := by
  simp only [renCtx, Ctx.remove, List.filter_map]
  congr 1
  apply List.filter_congr
  intro p hp
  simp only [Function.comp, bne, h.beq (hk p hp) hx]

theorem KeysIn.remove {P : Name → Prop} {c : Ctx} (hk : KeysIn P c) (x : Name) :
    KeysIn P (c.remove x) := fun p hp => hk p (List.mem_filter.mp hp).1

theorem KeysIn.insert {P : Name → Prop} {c : Ctx} (hk : KeysIn P c) {x : Name} (hx : P x)
    (d : Nat) : KeysIn P (c.insert x d) := by
  intro p hp
  simp only [Ctx.insert, List.mem_cons] at hp
  rcases hp with rfl | hp
  · exact hx
  · exact hk.remove x p hp

theorem renCtx_insert {ρ : Name → Name} {P : Name → Prop} (h : Adm ρ P)
    (c : Ctx) (x : Name) (d : Nat) (hk : KeysIn P c) (hx : P x) :
    (renCtx ρ c).insert (ρ x) d = renCtx ρ (c.insert x d) := by
  simp only [Ctx.insert, renCtx_remove h c x hk hx]
  simp [renCtx]

theorem renCtx_length (ρ : Name → Name) (c : Ctx) : (renCtx ρ c).length = c.length := by
  simp [renCtx]

/-! ## Simulation of resolver actions -/

/-- `m'` (run in the renamed state) does what `m` does (in the original state), up to `f` on the
result and `renSt ρ` on the final state; failure (`none` = the Rust `panic!`) is preserved, and the
keys of the context stay in `P`. -/
def RnSim (ρ : Name → Name) (P : Name → Prop) {α : Type} (f : α → α) (m m' : ResolveM α) : Prop :=
  ∀ st : RState, KeysIn P st.ctx →
    match m st with
    | none => m' (renSt ρ st) = none
    | some (a, st') => m' (renSt ρ st) = some (f a, renSt ρ st') ∧ KeysIn P st'.ctx

theorem StateT_bind_run {σ α β : Type} (m : StateT σ Option α) (k : α → StateT σ Option β) (s : σ) :
    (m >>= k) s = match m s with
      | none => none
      | some (a, s') => k a s' := by
  show (StateT.bind m k) s = _
  unfold StateT.bind
  cases m s with
  | none => rfl
  | some p => obtain ⟨a, s'⟩ := p; rfl

theorem RnSim.bind {ρ : Name → Name} {P : Name → Prop} {α β : Type} {f : α → α} {g : β → β}
    {m m' : ResolveM α} {k k' : α → ResolveM β}
    (h1 : RnSim ρ P f m m') (h2 : ∀ a, RnSim ρ P g (k a) (k' (f a))) :
    RnSim ρ P g (m >>= k) (m' >>= k') := by
  intro st hk
  have h := h1 st hk
  rw [StateT_bind_run, StateT_bind_run]
  cases hm : m st with
  | none => rw [hm] at h; simp only at h ⊢; rw [h]
  | some p =>
    obtain ⟨a, s'⟩ := p
    rw [hm] at h
    simp only at h ⊢
    rw [h.1]
    exact h2 a s' h.2

theorem RnSim.pure {ρ : Name → Name} {P : Name → Prop} {α : Type} {f : α → α} {a a' : α}
    (h : f a = a') : RnSim ρ P f (pure a) (pure a') := by
  intro st hk
  have e1 : (Pure.pure a : ResolveM α) st = some (a, st) := rfl
  have e2 : (Pure.pure a' : ResolveM α) (renSt ρ st) = some (a', renSt ρ st) := rfl
  rw [e1]
  subst h
  exact ⟨e2, hk⟩

theorem RnSim.fail {ρ : Name → Name} {P : Name → Prop} {α : Type} {f : α → α} :
    RnSim ρ P f (fun _ => (none : Option (α × RState))) (fun _ => none) := by
  intro st _; rfl

theorem freshHole_rnSim {ρ : Name → Name} {P : Name → Prop} (r : Option SourceRange) (s : Nat) :
    RnSim ρ P (renameR ρ) (freshHole r s) (freshHole r s) := by
  intro st hk
  exact ⟨rfl, hk⟩

theorem pushError_rnSim {ρ : Name → Name} {P : Name → Prop} (e : PErr) :
    RnSim ρ P id (pushError e) (pushError e) := by
  intro st hk
  exact ⟨rfl, hk⟩

theorem bindName_rnSim {ρ : Name → Name} {P : Name → Prop} (h : Adm ρ P) (v : SrcVar) (d : Nat)
    (hv : P v.name) : RnSim ρ P id (bindName v d) (bindName (renVar ρ v) d) := by
  intro st hk
  unfold bindName
  simp only [renVar_name, renVar_range, h.ph hv, renSt_ctx, renSt_errors,
    renCtx_containsKey h _ _ hk hv, renCtx_insert h _ _ _ hk hv]
  by_cases hp : (v.name != placeholder) = true
  · simp only [hp, if_true]
    exact ⟨rfl, hk.insert hv d⟩
  · simp only [hp]
    exact ⟨rfl, hk⟩

theorem unbindName_rnSim {ρ : Name → Name} {P : Name → Prop} (h : Adm ρ P) (x : Name)
    (hx : P x) : RnSim ρ P id (unbindName x) (unbindName (ρ x)) := by
  intro st hk
  unfold unbindName
  simp only [renSt_ctx, renCtx_remove h _ _ hk hx]
  exact ⟨rfl, hk.remove x⟩

/-! ## The let-chain helpers -/

def renDef (ρ : Name → Name) (d : SrcVar × OptSrc × Src) : SrcVar × OptSrc × Src :=
  (renVar ρ d.1, renameOpt ρ d.2.1, renameSrc ρ d.2.2)

theorem collectDefinitions_rename (ρ : Name → Name) : ∀ (t : Src),
    collectDefinitions (renameSrc ρ t) =
      ((collectDefinitions t).1.map (renDef ρ), renameSrc ρ (collectDefinitions t).2)
  | .mk _ _ (.let_ v ann defn body) _ => by
      simp only [renameSrc, renameSrcV, collectDefinitions, List.map_cons]
      rw [collectDefinitions_rename ρ body]
      rfl
  | .mk _ _ .parseError _ | .mk _ _ .type _ | .mk _ _ (.var _) _ | .mk _ _ (.lam ..) _
  | .mk _ _ (.pi ..) _ | .mk _ _ (.app ..) _ | .mk _ _ .int _ | .mk _ _ (.lit _) _
  | .mk _ _ (.neg _) _ | .mk _ _ (.bin ..) _ | .mk _ _ .bool _ | .mk _ _ .tt _ | .mk _ _ .ff _
  | .mk _ _ (.ite ..) _ => by simp [renameSrc, renameSrcV, collectDefinitions]

theorem collectDefinitions_srcNames : ∀ (t : Src) (d : SrcVar × OptSrc × Src),
    d ∈ (collectDefinitions t).1 → d.1.name ∈ srcNames t
  | .mk _ _ (.let_ v ann defn body) _, d, hd => by
      simp only [collectDefinitions, List.mem_cons] at hd
      rcases hd with rfl | hd
      · simp [srcNames, srcNamesV]
      · have := collectDefinitions_srcNames body d hd
        simp [srcNames, srcNamesV, this]
  | .mk _ _ .parseError _, _, hd | .mk _ _ .type _, _, hd | .mk _ _ (.var _) _, _, hd
  | .mk _ _ (.lam ..) _, _, hd
  | .mk _ _ (.pi ..) _, _, hd | .mk _ _ (.app ..) _, _, hd | .mk _ _ .int _, _, hd
  | .mk _ _ (.lit _) _, _, hd
  | .mk _ _ (.neg _) _, _, hd | .mk _ _ (.bin ..) _, _, hd | .mk _ _ .bool _, _, hd
  | .mk _ _ .tt _, _, hd | .mk _ _ .ff _, _, hd
  | .mk _ _ (.ite ..) _, _, hd => by simp [collectDefinitions] at hd

theorem bindDefinitions_rename {ρ : Name → Name} {P : Name → Prop} (h : Adm ρ P) (depth : Nat) :
    ∀ (ds : List (SrcVar × OptSrc × Src)) (i : Nat), (∀ d ∈ ds, P d.1.name) →
      RnSim ρ P id (bindDefinitions depth ds i) (bindDefinitions depth (ds.map (renDef ρ)) i)
  | [], i, _ => by
      simp only [bindDefinitions, List.map_nil]
      exact RnSim.pure rfl
  | (v, a, d) :: rest, i, hP => by
      simp only [bindDefinitions, List.map_cons, renDef]
      refine RnSim.bind (bindName_rnSim h v (depth + i) (hP (v, a, d) (by simp))) (fun _ => ?_)
      exact bindDefinitions_rename h depth rest (i + 1) (fun d hd => hP d (by simp [hd]))

theorem unbindDefinitions_rename {ρ : Name → Name} {P : Name → Prop} (h : Adm ρ P) :
    ∀ (ds : List (SrcVar × OptSrc × Src)), (∀ d ∈ ds, P d.1.name) →
      RnSim ρ P id (unbindDefinitions ds) (unbindDefinitions (ds.map (renDef ρ)))
  | [], _ => by
      simp only [unbindDefinitions, List.map_nil]
      exact RnSim.pure rfl
  | (v, a, d) :: rest, hP => by
      have hv : P v.name := hP (v, a, d) (by simp)
      have ih := unbindDefinitions_rename h rest (fun d hd => hP d (by simp [hd]))
      simp only [unbindDefinitions, List.map_cons, renDef, renVar_name, h.ph hv]
      by_cases hp : (v.name != placeholder) = true
      · simp only [hp, if_true]
        exact RnSim.bind (unbindName_rnSim h v.name hv) (fun _ => ih)
      · simp only [hp]
        exact ih

/-! ## The resolver commutes with the renaming -/

def renRes (ρ : Name → Name) (p : RDefs × RTm) : RDefs × RTm := (renameRDefs ρ p.1, renameR ρ p.2)

macro "sim_step " t:term : tactic =>
  `(tactic| (refine RnSim.bind $t (fun p => ?_); obtain ⟨d, r⟩ := p; dsimp only [renRes]))

macro "sim_done" : tactic =>
  `(tactic| exact RnSim.pure (by simp [renRes, renameR, renameRV, renameRDefs]))

mutual
theorem resolveAux_rename (ρ : Name → Name) (P : Name → Prop) (h : Adm ρ P) :
    ∀ (t : Src) (chain : Option (Nat × Nat)) (depth : Nat), (∀ x ∈ srcNames t, P x) →
      RnSim ρ P (renRes ρ) (resolveAux t chain depth) (resolveAux (renameSrc ρ t) chain depth)
  | .mk range g .parseError es, chain, depth, hn => by
      simp only [renameSrc, renameSrcV]; unfold resolveAux; exact RnSim.fail
  | .mk range g .type es, chain, depth, hn => by
      simp only [renameSrc, renameSrcV]; unfold resolveAux; sim_done
  | .mk range g .int es, chain, depth, hn => by
      simp only [renameSrc, renameSrcV]; unfold resolveAux; sim_done
  | .mk range g (.lit n) es, chain, depth, hn => by
      simp only [renameSrc, renameSrcV]; unfold resolveAux; sim_done
  | .mk range g .bool es, chain, depth, hn => by
      simp only [renameSrc, renameSrcV]; unfold resolveAux; sim_done
  | .mk range g .tt es, chain, depth, hn => by
      simp only [renameSrc, renameSrcV]; unfold resolveAux; sim_done
  | .mk range g .ff es, chain, depth, hn => by
      simp only [renameSrc, renameSrcV]; unfold resolveAux; sim_done
  | .mk range g (.var x) es, chain, depth, hn => by
      have hx : P x := hn x (by simp [srcNames, srcNamesV])
      simp only [renameSrc, renameSrcV]; unfold resolveAux
      intro st hk
      simp only [renSt_ctx, renCtx_get h _ _ hk hx, h.ph hx]
      cases hg : st.ctx.get x with
      | some vd => exact ⟨rfl, hk⟩
      | none => exact ⟨rfl, hk⟩
  | .mk range g (.app f a) es, chain, depth, hn => by
      have hf : ∀ x ∈ srcNames f, P x := fun x hx => hn x (by simp [srcNames, srcNamesV, hx])
      have ha : ∀ x ∈ srcNames a, P x := fun x hx => hn x (by simp [srcNames, srcNamesV, hx])
      simp only [renameSrc, renameSrcV]; unfold resolveAux
      sim_step (resolveAux_rename ρ P h f none depth hf)
      sim_step (resolveAux_rename ρ P h a none depth ha)
      sim_done
  | .mk range g (.neg a) es, chain, depth, hn => by
      have ha : ∀ x ∈ srcNames a, P x := fun x hx => hn x (by simp [srcNames, srcNamesV, hx])
      simp only [renameSrc, renameSrcV]; unfold resolveAux
      sim_step (resolveAux_rename ρ P h a none depth ha)
      sim_done
  | .mk range g (.bin o a b) es, chain, depth, hn => by
      have ha : ∀ x ∈ srcNames a, P x := fun x hx => hn x (by simp [srcNames, srcNamesV, hx])
      have hb : ∀ x ∈ srcNames b, P x := fun x hx => hn x (by simp [srcNames, srcNamesV, hx])
      simp only [renameSrc, renameSrcV]; unfold resolveAux
      sim_step (resolveAux_rename ρ P h a none depth ha)
      sim_step (resolveAux_rename ρ P h b none depth hb)
      sim_done
  | .mk range g (.ite c a b) es, chain, depth, hn => by
      have hc : ∀ x ∈ srcNames c, P x := fun x hx => hn x (by simp [srcNames, srcNamesV, hx])
      have ha : ∀ x ∈ srcNames a, P x := fun x hx => hn x (by simp [srcNames, srcNamesV, hx])
      have hb : ∀ x ∈ srcNames b, P x := fun x hx => hn x (by simp [srcNames, srcNamesV, hx])
      simp only [renameSrc, renameSrcV]; unfold resolveAux
      sim_step (resolveAux_rename ρ P h c none depth hc)
      sim_step (resolveAux_rename ρ P h a none depth ha)
      sim_step (resolveAux_rename ρ P h b none depth hb)
      sim_done
  | .mk range g (.pi v imp dom cod) es, chain, depth, hn => by
      have hv : P v.name := hn _ (by simp [srcNames, srcNamesV])
      have hd : ∀ x ∈ srcNames dom, P x := fun x hx => hn x (by simp [srcNames, srcNamesV, hx])
      have hc : ∀ x ∈ srcNames cod, P x := fun x hx => hn x (by simp [srcNames, srcNamesV, hx])
      simp only [renameSrc, renameSrcV]; unfold resolveAux
      sim_step (resolveAux_rename ρ P h dom none depth hd)
      refine RnSim.bind (bindName_rnSim h v depth hv) (fun _ => ?_)
      sim_step (resolveAux_rename ρ P h cod none (depth + 1) hc)
      refine RnSim.bind (unbindName_rnSim h v.name hv) (fun _ => ?_)
      sim_done
  | .mk range g (.lam v imp dom body) es, chain, depth, hn => by
      have hv : P v.name := hn _ (by simp [srcNames, srcNamesV])
      have hd : ∀ x ∈ srcNamesOpt dom, P x := fun x hx => hn x (by simp [srcNames, srcNamesV, hx])
      have hb : ∀ x ∈ srcNames body, P x := fun x hx => hn x (by simp [srcNames, srcNamesV, hx])
      simp only [renameSrc, renameSrcV]; unfold resolveAux
      refine RnSim.bind (resolveOpt_rename ρ P h dom depth hd) (fun od => ?_)
      refine RnSim.bind (bindName_rnSim h v depth hv) (fun _ => ?_)
      have hbody := resolveAux_rename ρ P h body none (depth + 1) hb
      cases od with
      | none =>
        dsimp only [Option.map]
        refine RnSim.bind (freshHole_rnSim none 0) (fun d' => ?_)
        sim_step hbody
        refine RnSim.bind (unbindName_rnSim h v.name hv) (fun _ => ?_)
        sim_done
      | some d0 =>
        dsimp only [Option.map]
        refine RnSim.bind (f := renameR ρ) (RnSim.pure rfl) (fun d' => ?_)
        sim_step hbody
        refine RnSim.bind (unbindName_rnSim h v.name hv) (fun _ => ?_)
        sim_done
  | .mk range g (.let_ v ann defn body) es, some (n, i), depth, hn => by
      have ha : ∀ x ∈ srcNamesOpt ann, P x := fun x hx => hn x (by simp [srcNames, srcNamesV, hx])
      have hd : ∀ x ∈ srcNames defn, P x := fun x hx => hn x (by simp [srcNames, srcNamesV, hx])
      have hb : ∀ x ∈ srcNames body, P x := fun x hx => hn x (by simp [srcNames, srcNamesV, hx])
      simp only [renameSrc, renameSrcV]; unfold resolveAux
      refine RnSim.bind (resolveAnnotation_rename ρ P h ann n i depth ha) (fun a' => ?_)
      sim_step (resolveAux_rename ρ P h defn none depth hd)
      sim_step (resolveAux_rename ρ P h body (some (n, i + 1)) depth hb)
      sim_done
  | .mk range g (.let_ v ann defn body) es, none, depth, hn => by
      have hv : P v.name := hn _ (by simp [srcNames, srcNamesV])
      have ha : ∀ x ∈ srcNamesOpt ann, P x := fun x hx => hn x (by simp [srcNames, srcNamesV, hx])
      have hd : ∀ x ∈ srcNames defn, P x := fun x hx => hn x (by simp [srcNames, srcNamesV, hx])
      have hb : ∀ x ∈ srcNames body, P x := fun x hx => hn x (by simp [srcNames, srcNamesV, hx])
      have hds : ∀ d ∈ (v, ann, defn) :: (collectDefinitions body).1, P d.1.name := by
        intro d hd'
        simp only [List.mem_cons] at hd'
        rcases hd' with rfl | hd'
        · exact hv
        · exact hb _ (collectDefinitions_srcNames body d hd')
      have hmap : (renVar ρ v, renameOpt ρ ann, renameSrc ρ defn) ::
          (collectDefinitions (renameSrc ρ body)).1 =
          ((v, ann, defn) :: (collectDefinitions body).1).map (renDef ρ) := by
        rw [collectDefinitions_rename]; rfl
      simp only [renameSrc, renameSrcV]; unfold resolveAux
      dsimp only
      rw [hmap, List.length_map]
      refine RnSim.bind (bindDefinitions_rename h depth _ 0 hds) (fun _ => ?_)
      refine RnSim.bind (resolveAnnotation_rename ρ P h ann _ 0 _ ha) (fun a' => ?_)
      sim_step (resolveAux_rename ρ P h defn none _ hd)
      sim_step (resolveAux_rename ρ P h body (some (_, 1)) _ hb)
      refine RnSim.bind (unbindDefinitions_rename h _ hds) (fun _ => ?_)
      sim_done
theorem resolveOpt_rename (ρ : Name → Name) (P : Name → Prop) (h : Adm ρ P) :
    ∀ (o : OptSrc) (depth : Nat), (∀ x ∈ srcNamesOpt o, P x) →
      RnSim ρ P (Option.map (renameR ρ)) (resolveOpt o depth) (resolveOpt (renameOpt ρ o) depth)
  | .none, depth, hn => by
      simp only [renameOpt]; unfold resolveOpt; exact RnSim.pure rfl
  | .some t, depth, hn => by
      simp only [renameOpt]; unfold resolveOpt
      sim_step (resolveAux_rename ρ P h t none depth (fun x hx => hn x (by simpa [srcNamesOpt] using hx)))
      exact RnSim.pure rfl
theorem resolveAnnotation_rename (ρ : Name → Name) (P : Name → Prop) (h : Adm ρ P) :
    ∀ (o : OptSrc) (n i newDepth : Nat), (∀ x ∈ srcNamesOpt o, P x) →
      RnSim ρ P (renameR ρ) (resolveAnnotation o n i newDepth)
        (resolveAnnotation (renameOpt ρ o) n i newDepth)
  | .none, n, i, depth, hn => by
      simp only [renameOpt]; unfold resolveAnnotation; exact freshHole_rnSim _ _
  | .some t, n, i, depth, hn => by
      simp only [renameOpt]; unfold resolveAnnotation
      sim_step (resolveAux_rename ρ P h t none depth (fun x hx => hn x (by simpa [srcNamesOpt] using hx)))
      exact RnSim.pure rfl
end


/-! ## Admissible renamings of a program in a context -/

/-- The names that matter: those of the program and the keys of the initial context. -/
def namesOf (s : Src) (c : Ctx) : List Name := srcNames s ++ c.map Prod.fst

/-- `ρ` is an admissible (consistent) renaming of the program `s` in the context `c`: injective on
the names that matter, the placeholder `_` is fixed and no name is renamed to it. -/
structure Admissible (ρ : Name → Name) (s : Src) (c : Ctx) : Prop where
  inj : ∀ x ∈ namesOf s c, ∀ y ∈ namesOf s c, ρ x = ρ y → x = y
  zero : ρ placeholder = placeholder
  nz : ∀ x ∈ namesOf s c, x ≠ placeholder → ρ x ≠ placeholder

theorem Admissible.adm {ρ : Name → Name} {s : Src} {c : Ctx} (h : Admissible ρ s c) :
    Adm ρ (fun x => x = placeholder ∨ x ∈ namesOf s c) := by
  refine ⟨?_, h.zero, Or.inl rfl⟩
  intro x y hx hy e
  rcases hx with rfl | hx
  · rcases hy with rfl | hy
    · rfl
    · rw [h.zero] at e
      exact Classical.byContradiction fun ne => h.nz y hy (fun e' => ne e'.symm) e.symm
  · rcases hy with rfl | hy
    · rw [h.zero] at e
      exact Classical.byContradiction fun ne => h.nz x hx ne e
    · exact h.inj x hx y hy e

/-- **Resolution commutes with an admissible renaming.**  In the renamed state (context keys renamed,
same error list, same hole allocator) the renamed program resolves exactly when the original does, to
the `renameR ρ`-image of the original result (same structure, indices, hole ids and shifts, ranges;
only the name annotations differ), and leaves the `renSt ρ`-image of the original final state: the
identical list of diagnostics, the identical allocator, the renamed final context. -/
theorem resolve_rename_adm {ρ : Name → Name} {P : Name → Prop} (hadm : Adm ρ P) (s : Src)
    (depth : Nat) (st : RState) (hn : ∀ x ∈ srcNames s, P x) (hk : KeysIn P st.ctx) :
    resolve (renameSrc ρ s) depth (renSt ρ st) =
      (resolve s depth st).map (fun p => (renameR ρ p.1, renSt ρ p.2)) := by
  have hsim := resolveAux_rename ρ _ hadm s none depth hn st hk
  unfold resolve
  rw [StateT_bind_run, StateT_bind_run]
  cases hm : resolveAux s none depth st with
  | none => rw [hm] at hsim; simp only at hsim; rw [hsim]; rfl
  | some p =>
    obtain ⟨⟨ds, r⟩, st'⟩ := p
    rw [hm] at hsim
    simp only at hsim
    rw [hsim.1]
    rfl

theorem resolve_rename (ρ : Name → Name) (s : Src) (depth : Nat) (st : RState)
    (h : Admissible ρ s st.ctx) :
    resolve (renameSrc ρ s) depth (renSt ρ st) =
      (resolve s depth st).map (fun p => (renameR ρ p.1, renSt ρ p.2)) := by
  refine resolve_rename_adm h.adm s depth st (fun x hx => Or.inr (by simp [namesOf, hx])) ?_
  intro p hp
  refine Or.inr ?_
  simp only [namesOf, List.mem_append, List.mem_map]
  exact Or.inr ⟨p, hp, rfl⟩

/-! ## Names do not matter after resolution -/

mutual
/-- The renaming on semantic terms (name annotations only). -/
def renameTm (ρ : Name → Name) : Tm → Tm
  | .var x i => .var (ρ x) i
  | .lam x im d b => .lam (ρ x) im (renameTm ρ d) (renameTm ρ b)
  | .pi x im d b => .pi (ρ x) im (renameTm ρ d) (renameTm ρ b)
  | .app f a => .app (renameTm ρ f) (renameTm ρ a)
  | .letg ds b => .letg (renameTmDefs ρ ds) (renameTm ρ b)
  | .neg a => .neg (renameTm ρ a)
  | .bin op a b => .bin op (renameTm ρ a) (renameTm ρ b)
  | .ite c a b => .ite (renameTm ρ c) (renameTm ρ a) (renameTm ρ b)
  | .hole i s => .hole i s
  | .type => .type
  | .int => .int
  | .bool => .bool
  | .tt => .tt
  | .ff => .ff
  | .lit n => .lit n
def renameTmDefs (ρ : Name → Name) : Defs → Defs
  | .nil => .nil
  | .cons x a d r => .cons (ρ x) (renameTm ρ a) (renameTm ρ d) (renameTmDefs ρ r)
end

mutual
theorem renameR_erase (ρ : Name → Name) : ∀ (t : RTm), (renameR ρ t).erase = renameTm ρ t.erase
  | .mk _ (.hole _ _) | .mk _ .type | .mk _ .int | .mk _ .bool | .mk _ .tt | .mk _ .ff
  | .mk _ (.lit _) | .mk _ (.var _ _) => by
      simp [renameR, renameRV, RTm.erase, renameTm]
  | .mk _ (.lam x imp d b) | .mk _ (.pi x imp d b) => by
      simp [renameR, renameRV, RTm.erase, renameTm, renameR_erase ρ d, renameR_erase ρ b]
  | .mk _ (.app f a) => by
      simp [renameR, renameRV, RTm.erase, renameTm, renameR_erase ρ f, renameR_erase ρ a]
  | .mk _ (.letg ds b) => by
      simp [renameR, renameRV, RTm.erase, renameTm, renameRDefs_erase ρ ds, renameR_erase ρ b]
  | .mk _ (.neg a) => by
      simp [renameR, renameRV, RTm.erase, renameTm, renameR_erase ρ a]
  | .mk _ (.bin o a b) => by
      simp [renameR, renameRV, RTm.erase, renameTm, renameR_erase ρ a, renameR_erase ρ b]
  | .mk _ (.ite c a b) => by
      simp [renameR, renameRV, RTm.erase, renameTm, renameR_erase ρ c, renameR_erase ρ a,
        renameR_erase ρ b]
theorem renameRDefs_erase (ρ : Name → Name) : ∀ (ds : RDefs),
    (renameRDefs ρ ds).erase = renameTmDefs ρ ds.erase
  | .nil => by simp [renameRDefs, RDefs.erase, renameTmDefs]
  | .cons x a d r => by
      simp [renameRDefs, RDefs.erase, renameTmDefs, renameR_erase ρ a, renameR_erase ρ d,
        renameRDefs_erase ρ r]
end

theorem renameR_range (ρ : Name → Name) : ∀ (t : RTm), (renameR ρ t).range = t.range
  | .mk _ _ => rfl

theorem renameTm_isValue (ρ : Name → Name) (t : Tm) : isValue (renameTm ρ t) = isValue t := by
  cases t <;> simp [renameTm, isValue]

theorem renameTmDefs_len (ρ : Name → Name) : ∀ (ds : Defs), (renameTmDefs ρ ds).len = ds.len
  | .nil => by simp [renameTmDefs]
  | .cons _ _ _ r => by simp [renameTmDefs, Defs.len, renameTmDefs_len ρ r]

mutual
theorem renameTm_freeVars (ρ : Name → Name) : ∀ (t : Tm) (c : Nat),
    freeVars (renameTm ρ t) c = freeVars t c
  | .var _ _, c | .hole _ _, c | .type, c | .int, c | .bool, c | .tt, c | .ff, c | .lit _, c => by
      simp [renameTm, freeVars]
  | .lam _ _ d b, c | .pi _ _ d b, c => by
      simp [renameTm, freeVars, renameTm_freeVars ρ d, renameTm_freeVars ρ b]
  | .app f a, c => by simp [renameTm, freeVars, renameTm_freeVars ρ f, renameTm_freeVars ρ a]
  | .letg ds b, c => by
      simp [renameTm, freeVars, renameTmDefs_len, renameTmDefs_freeVars ρ ds,
        renameTm_freeVars ρ b]
  | .neg a, c => by simp [renameTm, freeVars, renameTm_freeVars ρ a]
  | .bin _ a b, c => by simp [renameTm, freeVars, renameTm_freeVars ρ a, renameTm_freeVars ρ b]
  | .ite a b d, c => by
      simp [renameTm, freeVars, renameTm_freeVars ρ a, renameTm_freeVars ρ b,
        renameTm_freeVars ρ d]
theorem renameTmDefs_freeVars (ρ : Name → Name) : ∀ (ds : Defs) (c : Nat),
    freeVarsDefs (renameTmDefs ρ ds) c = freeVarsDefs ds c
  | .nil, c => by simp [renameTmDefs, freeVarsDefs]
  | .cons _ a d r, c => by
      simp [renameTmDefs, freeVarsDefs, renameTm_freeVars ρ a, renameTm_freeVars ρ d,
        renameTmDefs_freeVars ρ r]
end


/-! ## `check_definitions` does not look at names -/

/-- Two definition vectors that `check_definition` cannot tell apart. -/
structure ArrEq (A B : Array (Name × RTm × RTm)) : Prop where
  size : A.size = B.size
  val : ∀ i : Nat, isValue (A[i]!).2.2.erase = isValue (B[i]!).2.2.erase
  fv : ∀ i : Nat, freeVars (A[i]!).2.2.erase 0 = freeVars (B[i]!).2.2.erase 0
  rng : ∀ i : Nat, (A[i]!).2.2.range = (B[i]!).2.2.range

theorem checkVariables_arrEq {A B : Array (Name × RTm × RTm)} (h : ArrEq A B) (start : Nat)
    (rec : Nat → CheckSt → Option CheckSt) : ∀ (vars : List Nat) (st : CheckSt),
    checkVariables A start rec vars st = checkVariables B start rec vars st
  | [], st => by simp [checkVariables]
  | var :: rest, (visited, errors) => by
      have ih := checkVariables_arrEq h start rec rest
      simp only [checkVariables, h.size, h.val, h.rng, ih]

theorem checkDefinition_arrEq {A B : Array (Name × RTm × RTm)} (h : ArrEq A B) (start : Nat) :
    ∀ (fuel cur : Nat) (st : CheckSt),
    checkDefinition A start fuel cur st = checkDefinition B start fuel cur st
  | 0, _, _ => by simp [checkDefinition]
  | fuel + 1, cur, st => by
      have ih : checkDefinition A start fuel = checkDefinition B start fuel := by
        funext c s; exact checkDefinition_arrEq h start fuel c s
      simp only [checkDefinition, h.fv, ih, checkVariables_arrEq h]

theorem checkEachDefinition_arrEq {A B : Array (Name × RTm × RTm)} (h : ArrEq A B) :
    ∀ (is : List Nat) (errors : List PErr),
    checkEachDefinition A is errors = checkEachDefinition B is errors
  | [], _ => by simp [checkEachDefinition]
  | i :: rest, errors => by
      have ih := checkEachDefinition_arrEq h rest
      simp only [checkEachDefinition, h.val, h.size, checkDefinition_arrEq h, ih]

def renTriple (ρ : Name → Name) (e : Name × RTm × RTm) : Name × RTm × RTm :=
  (ρ e.1, renameR ρ e.2.1, renameR ρ e.2.2)

theorem renameRDefs_toList (ρ : Name → Name) : ∀ (ds : RDefs),
    (renameRDefs ρ ds).toList = ds.toList.map (renTriple ρ)
  | .nil => by simp [renameRDefs, RDefs.toList]
  | .cons x a d r => by
      simp [renameRDefs, RDefs.toList, renTriple, renameRDefs_toList ρ r]

theorem renameRDefs_len (ρ : Name → Name) : ∀ (ds : RDefs), (renameRDefs ρ ds).len = ds.len
  | .nil => by simp [renameRDefs]
  | .cons _ _ _ r => by simp [renameRDefs, RDefs.len, renameRDefs_len ρ r]

theorem getElem!_map_renTriple (ρ : Name → Name) (l : List (Name × RTm × RTm)) (i : Nat) :
    ((l.map (renTriple ρ)).toArray[i]!).2.2 = renameR ρ (l.toArray[i]!).2.2 := by
  simp only [List.getElem!_toArray, List.getElem!_eq_getElem?_getD, List.getElem?_map]
  cases l[i]? with
  | none => rfl
  | some e => rfl

theorem arrEq_rename (ρ : Name → Name) (ds : RDefs) :
    ArrEq (renameRDefs ρ ds).toList.toArray ds.toList.toArray := by
  rw [renameRDefs_toList]
  refine ⟨by simp, ?_, ?_, ?_⟩
  · intro i; rw [getElem!_map_renTriple, renameR_erase, renameTm_isValue]
  · intro i; rw [getElem!_map_renTriple, renameR_erase, renameTm_freeVars]
  · intro i; rw [getElem!_map_renTriple, renameR_range]

mutual
theorem checkDefinitions_rename (ρ : Name → Name) : ∀ (t : RTm) (depth : Nat) (errors : List PErr),
    checkDefinitions (renameR ρ t) depth errors = checkDefinitions t depth errors
  | .mk _ (.hole _ _), _, _ | .mk _ .type, _, _ | .mk _ .int, _, _ | .mk _ .bool, _, _
  | .mk _ .tt, _, _ | .mk _ .ff, _, _ | .mk _ (.lit _), _, _ | .mk _ (.var _ _), _, _ => by
      simp [renameR, renameRV, checkDefinitions]
  | .mk _ (.lam x imp d b), depth, errors | .mk _ (.pi x imp d b), depth, errors => by
      simp only [renameR, renameRV, checkDefinitions, checkDefinitions_rename ρ d,
        checkDefinitions_rename ρ b]
  | .mk _ (.app f a), depth, errors => by
      simp only [renameR, renameRV, checkDefinitions, checkDefinitions_rename ρ f,
        checkDefinitions_rename ρ a]
  | .mk _ (.letg ds b), depth, errors => by
      simp only [renameR, renameRV, checkDefinitions, checkDefinitionsDefs_rename ρ ds,
        checkDefinitions_rename ρ b, renameRDefs_len,
        checkEachDefinition_arrEq (arrEq_rename ρ ds), (arrEq_rename ρ ds).size]
  | .mk _ (.neg a), depth, errors => by
      simp only [renameR, renameRV, checkDefinitions, checkDefinitions_rename ρ a]
  | .mk _ (.bin o a b), depth, errors => by
      simp only [renameR, renameRV, checkDefinitions, checkDefinitions_rename ρ a,
        checkDefinitions_rename ρ b]
  | .mk _ (.ite c a b), depth, errors => by
      simp only [renameR, renameRV, checkDefinitions, checkDefinitions_rename ρ c,
        checkDefinitions_rename ρ a, checkDefinitions_rename ρ b]
theorem checkDefinitionsDefs_rename (ρ : Name → Name) : ∀ (ds : RDefs) (depth : Nat)
    (errors : List PErr),
    checkDefinitionsDefs (renameRDefs ρ ds) depth errors = checkDefinitionsDefs ds depth errors
  | .nil, _, _ => by simp [renameRDefs, checkDefinitionsDefs]
  | .cons x a d r, depth, errors => by
      simp only [renameRDefs, checkDefinitionsDefs, checkDefinitions_rename ρ d,
        checkDefinitionsDefs_rename ρ r]
end


/-! ## The passes before resolution do not look at names -/

mutual
theorem collectErrors_rename (ρ : Name → Name) : ∀ (t : Src),
    collectErrors (renameSrc ρ t) = collectErrors t
  | .mk _ _ .parseError _ | .mk _ _ .type _ | .mk _ _ (.var _) _ | .mk _ _ .int _
  | .mk _ _ (.lit _) _ | .mk _ _ .bool _ | .mk _ _ .tt _ | .mk _ _ .ff _ => by
      simp [renameSrc, renameSrcV, collectErrors]
  | .mk _ _ (.lam v imp dom body) _ => by
      simp [renameSrc, renameSrcV, collectErrors, collectErrorsOpt_rename ρ dom,
        collectErrors_rename ρ body]
  | .mk _ _ (.pi v imp dom cod) _ => by
      simp [renameSrc, renameSrcV, collectErrors, collectErrors_rename ρ dom,
        collectErrors_rename ρ cod]
  | .mk _ _ (.app f a) _ => by
      simp [renameSrc, renameSrcV, collectErrors, collectErrors_rename ρ f,
        collectErrors_rename ρ a]
  | .mk _ _ (.let_ v ann defn body) _ => by
      simp [renameSrc, renameSrcV, collectErrors, collectErrorsOpt_rename ρ ann,
        collectErrors_rename ρ defn, collectErrors_rename ρ body]
  | .mk _ _ (.neg a) _ => by
      simp [renameSrc, renameSrcV, collectErrors, collectErrors_rename ρ a]
  | .mk _ _ (.bin o a b) _ => by
      simp [renameSrc, renameSrcV, collectErrors, collectErrors_rename ρ a,
        collectErrors_rename ρ b]
  | .mk _ _ (.ite c a b) _ => by
      simp [renameSrc, renameSrcV, collectErrors, collectErrors_rename ρ c,
        collectErrors_rename ρ a, collectErrors_rename ρ b]
theorem collectErrorsOpt_rename (ρ : Name → Name) : ∀ (o : OptSrc),
    collectErrorsOpt (renameOpt ρ o) = collectErrorsOpt o
  | .none => by simp [renameOpt, collectErrorsOpt]
  | .some t => by simp [renameOpt, collectErrorsOpt, collectErrors_rename ρ t]
end

@[simp] theorem renameSrc_range (ρ : Name → Name) : ∀ (t : Src), (renameSrc ρ t).range = t.range
  | .mk _ _ _ _ => by simp [renameSrc, Src.range]
@[simp] theorem renameSrc_group (ρ : Name → Name) : ∀ (t : Src), (renameSrc ρ t).group = t.group
  | .mk _ _ _ _ => by simp [renameSrc, Src.group]

def renAcc (ρ : Name → Name) (acc : Option (Src × Link)) : Option (Src × Link) :=
  acc.map (fun p => (renameSrc ρ p.1, p.2))

@[simp] theorem renAcc_none (ρ : Name → Name) : renAcc ρ none = none := rfl
@[simp] theorem renAcc_some (ρ : Name → Name) (ac : Src) (l : Link) :
    renAcc ρ (some (ac, l)) = some (renameSrc ρ ac, l) := rfl
@[simp] theorem renAcc_isSome (ρ : Name → Name) (acc : Option (Src × Link)) :
    (renAcc ρ acc).isSome = acc.isSome := by cases acc <;> rfl

theorem Link.build_rename (ρ : Name → Name) (l : Link) (a b : Src) :
    l.build (renameSrc ρ a) (renameSrc ρ b) = renameSrcV ρ (l.build a b) := by
  cases l <;> simp [Link.build, renameSrcV]

theorem reassocTail_rename (ρ : Name → Name) (acc : Option (Src × Link)) (t : Src) :
    reassocTail (renAcc ρ acc) (renameSrc ρ t) = renameSrc ρ (reassocTail acc t) := by
  cases acc with
  | none => rfl
  | some p =>
    obtain ⟨ac, l⟩ := p
    simp [reassocTail, renameSrc, Link.build_rename]


theorem reassocTail_rename' (ρ : Name → Name) (acc : Option (Src × Link)) (t t' : Src)
    (h : t' = renameSrc ρ t) :
    reassocTail (renAcc ρ acc) t' = renameSrc ρ (reassocTail acc t) := by
  subst h; exact reassocTail_rename ρ acc t

mutual
theorem reassoc_rename (ρ : Name → Name) (fam : Family) : ∀ (t : Src) (acc : Option (Src × Link)),
    reassoc fam (renAcc ρ acc) (renameSrc ρ t) = (reassoc fam acc t).map (renameSrc ρ)
  | .mk range group .parseError es, acc => by
      simp [renameSrc, renameSrcV, reassoc]
  | .mk range group .type es, acc | .mk range group (.var _) es, acc
  | .mk range group .int es, acc | .mk range group (.lit _) es, acc
  | .mk range group .bool es, acc | .mk range group .tt es, acc
  | .mk range group .ff es, acc => by
      simp only [renameSrc, renameSrcV, reassoc, Option.map_some, Option.some.injEq]
      exact reassocTail_rename' ρ acc _ _ (by simp [renameSrc, renameSrcV])
  | .mk range group (.lam v imp dom body) es, acc => by
      have ihd := reassocOpt_rename ρ fam dom
      have ihb : reassoc fam none (renameSrc ρ body) = _ := reassoc_rename ρ fam body none
      simp only [renameSrc, renameSrcV, reassoc, ihd, ihb]
      cases reassocOpt fam dom <;> cases reassoc fam none body <;>
        simp only [Option.map_some, Option.map_none, Option.some.injEq]
      exact reassocTail_rename' ρ acc _ _ (by simp [renameSrc, renameSrcV])
  | .mk range group (.pi v imp dom cod) es, acc => by
      have ihd : reassoc fam none (renameSrc ρ dom) = _ := reassoc_rename ρ fam dom none
      have ihb : reassoc fam none (renameSrc ρ cod) = _ := reassoc_rename ρ fam cod none
      simp only [renameSrc, renameSrcV, reassoc, ihd, ihb]
      cases reassoc fam none dom <;> cases reassoc fam none cod <;>
        simp only [Option.map_some, Option.map_none, Option.some.injEq]
      exact reassocTail_rename' ρ acc _ _ (by simp [renameSrc, renameSrcV])
  | .mk range group (.let_ v ann defn body) es, acc => by
      have iha := reassocOpt_rename ρ fam ann
      have ihd : reassoc fam none (renameSrc ρ defn) = _ := reassoc_rename ρ fam defn none
      have ihb : reassoc fam none (renameSrc ρ body) = _ := reassoc_rename ρ fam body none
      simp only [renameSrc, renameSrcV, reassoc, iha, ihd, ihb]
      cases reassocOpt fam ann <;> cases reassoc fam none defn <;> cases reassoc fam none body <;>
        simp only [Option.map_some, Option.map_none, Option.some.injEq]
      exact reassocTail_rename' ρ acc _ _ (by simp [renameSrc, renameSrcV])
  | .mk range group (.neg a) es, acc => by
      have iha : reassoc fam none (renameSrc ρ a) = _ := reassoc_rename ρ fam a none
      simp only [renameSrc, renameSrcV, reassoc, iha]
      cases reassoc fam none a <;>
        simp only [Option.map_some, Option.map_none, Option.some.injEq]
      exact reassocTail_rename' ρ acc _ _ (by simp [renameSrc, renameSrcV])
  | .mk range group (.ite c a b) es, acc => by
      have ihc : reassoc fam none (renameSrc ρ c) = _ := reassoc_rename ρ fam c none
      have iha : reassoc fam none (renameSrc ρ a) = _ := reassoc_rename ρ fam a none
      have ihb : reassoc fam none (renameSrc ρ b) = _ := reassoc_rename ρ fam b none
      simp only [renameSrc, renameSrcV, reassoc, ihc, iha, ihb]
      cases reassoc fam none c <;> cases reassoc fam none a <;> cases reassoc fam none b <;>
        simp only [Option.map_some, Option.map_none, Option.some.injEq]
      exact reassocTail_rename' ρ acc _ _ (by simp [renameSrc, renameSrcV])
  | .mk range group (.app f a) es, acc => by
      have ihf0 : reassoc fam none (renameSrc ρ f) = _ := reassoc_rename ρ fam f none
      have iha0 : reassoc fam none (renameSrc ρ a) = _ := reassoc_rename ρ fam a none
      have ihf := reassoc_rename ρ fam f
      have iha := reassoc_rename ρ fam a
      simp only [renameSrc, renameSrcV, reassoc, renameSrc_group, renameSrc_range, renAcc_isSome]
      by_cases hfam : fam = .applications
      · subst hfam
        simp only [if_true]
        by_cases h1 : (acc.isSome && group) = true <;> by_cases h2 : a.group = true <;>
          simp only [h1, h2, if_true, if_false, ihf0, iha0, Bool.false_eq_true]
        · cases reassoc .applications none f <;> cases reassoc .applications none a <;>
            simp only [Option.map_some, Option.map_none, Option.some.injEq]
          exact reassocTail_rename' ρ acc _ _ (by simp [renameSrc, renameSrcV])
        · cases reassoc .applications none f with
          | none => simp only [Option.map_none]
          | some f' =>
            simp only [Option.map_some]
            have e := iha (some (f', .app))
            rw [renAcc_some] at e
            rw [e]
            cases reassoc .applications (some (f', .app)) a <;>
              simp only [Option.map_some, Option.map_none, Option.some.injEq]
            exact reassocTail_rename ρ acc _
        · cases acc with
          | none =>
            simp only [renAcc_none]
            cases reassoc .applications none f <;> cases reassoc .applications none a <;>
              simp [renameSrc, renameSrcV]
          | some p =>
            obtain ⟨ac, l⟩ := p
            have e := ihf (some (ac, l))
            rw [renAcc_some] at e
            simp only [renAcc_some, e, renameSrc_range]
            cases reassoc .applications (some (ac, l)) f <;> cases reassoc .applications none a <;>
              simp [renameSrc, renameSrcV]
        · cases reassoc .applications none f with
          | none => simp only [Option.map_none]
          | some f' =>
            simp only [Option.map_some]
            cases acc with
            | none =>
              have e := iha (some (f', .app))
              rw [renAcc_some] at e
              simp only [renAcc_none, e]
            | some p =>
              obtain ⟨ac, l⟩ := p
              have e := iha (some (Src.mk (span ac.range f.range) true (l.build ac f') [], .app))
              rw [renAcc_some] at e
              simp only [renAcc_some, renameSrc_range]
              rw [← e]
              simp [renameSrc, Link.build_rename]
      · simp only [hfam, if_false, ihf0, iha0]
        cases reassoc fam none f <;> cases reassoc fam none a <;>
          simp only [Option.map_some, Option.map_none, Option.some.injEq]
        exact reassocTail_rename' ρ acc _ _ (by simp [renameSrc, renameSrcV])
  | .mk range group (.bin o a b) es, acc => by
      have ihf0 : reassoc fam none (renameSrc ρ a) = _ := reassoc_rename ρ fam a none
      have iha0 : reassoc fam none (renameSrc ρ b) = _ := reassoc_rename ρ fam b none
      have ihf := reassoc_rename ρ fam a
      have iha := reassoc_rename ρ fam b
      simp only [renameSrc, renameSrcV, reassoc, renameSrc_group, renameSrc_range, renAcc_isSome]
      by_cases hfam : (fam = .productsAndQuotients ∧ (o = .prod ∨ o = .quot))
          ∨ (fam = .sumsAndDifferences ∧ (o = .sum ∨ o = .diff))
      · simp only [hfam, if_true]
        by_cases h1 : (acc.isSome && group) = true <;> by_cases h2 : b.group = true <;>
          simp only [h1, h2, if_true, if_false, ihf0, iha0, Bool.false_eq_true]
        · cases reassoc fam none a <;> cases reassoc fam none b <;>
            simp only [Option.map_some, Option.map_none, Option.some.injEq]
          exact reassocTail_rename' ρ acc _ _ (by simp [renameSrc, renameSrcV])
        · cases reassoc fam none a with
          | none => simp only [Option.map_none]
          | some f' =>
            simp only [Option.map_some]
            have e := iha (some (f', .op o))
            rw [renAcc_some] at e
            rw [e]
            cases reassoc fam (some (f', .op o)) b <;>
              simp only [Option.map_some, Option.map_none, Option.some.injEq]
            exact reassocTail_rename ρ acc _
        · cases acc with
          | none =>
            simp only [renAcc_none]
            cases reassoc fam none a <;> cases reassoc fam none b <;>
              simp [renameSrc, renameSrcV]
          | some p =>
            obtain ⟨ac, l⟩ := p
            have e := ihf (some (ac, l))
            rw [renAcc_some] at e
            simp only [renAcc_some, e, renameSrc_range]
            cases reassoc fam (some (ac, l)) a <;> cases reassoc fam none b <;>
              simp [renameSrc, renameSrcV]
        · cases reassoc fam none a with
          | none => simp only [Option.map_none]
          | some f' =>
            simp only [Option.map_some]
            cases acc with
            | none =>
              have e := iha (some (f', .op o))
              rw [renAcc_some] at e
              simp only [renAcc_none, e]
            | some p =>
              obtain ⟨ac, l⟩ := p
              have e := iha (some (Src.mk (span ac.range a.range) true (l.build ac f') [], .op o))
              rw [renAcc_some] at e
              simp only [renAcc_some, renameSrc_range]
              rw [← e]
              simp [renameSrc, Link.build_rename]
      · simp only [hfam, if_false, ihf0, iha0]
        cases reassoc fam none a <;> cases reassoc fam none b <;>
          simp only [Option.map_some, Option.map_none, Option.some.injEq]
        exact reassocTail_rename' ρ acc _ _ (by simp [renameSrc, renameSrcV])
theorem reassocOpt_rename (ρ : Name → Name) (fam : Family) : ∀ (o : OptSrc),
    reassocOpt fam (renameOpt ρ o) = (reassocOpt fam o).map (renameOpt ρ)
  | .none => by simp [renameOpt, reassocOpt]
  | .some t => by
      have ih : reassoc fam none (renameSrc ρ t) = _ := reassoc_rename ρ fam t none
      simp only [renameOpt, reassocOpt, ih]
      cases reassoc fam none t <;> simp [renameOpt]
end


/-! ## The whole of `parse` after the parse phase -/

theorem foldl_insert_rename {ρ : Name → Name} {P : Name → Prop} (h : Adm ρ P) :
    ∀ (l : List (Name × Nat)) (c : Ctx), KeysIn P c → (∀ p ∈ l, P p.1) →
      renCtx ρ (l.foldl (fun c p => Ctx.insert c p.1 p.2) c) =
        (l.map (fun p => (ρ p.1, p.2))).foldl (fun c p => Ctx.insert c p.1 p.2) (renCtx ρ c)
  | [], c, _, _ => rfl
  | (x, d) :: l, c, hk, hl => by
      have hx : P x := hl (x, d) (by simp)
      simp only [List.foldl_cons, List.map_cons]
      rw [foldl_insert_rename h l (c.insert x d) (hk.insert hx d)
        (fun p hp => hl p (by simp [hp])), renCtx_insert h c x d hk hx]

theorem initialContext_rename {ρ : Name → Name} {P : Name → Prop} (h : Adm ρ P)
    (context : List Name) (hc : ∀ x ∈ context, P x) :
    initialContext (context.map ρ) = renCtx ρ (initialContext context) := by
  unfold initialContext
  rw [foldl_insert_rename h context.zipIdx [] (fun _ hp => by simp at hp)
    (fun p hp => hc p.1 (List.fst_mem_of_mem_zipIdx hp))]
  simp only [List.zipIdx_map]
  rfl

/-- The renaming on the outcome of `parse`: only an accepted term carries names. -/
def renOutcome (ρ : Name → Name) : ParseOutcome → ParseOutcome
  | .ok t => .ok (renameR ρ t)
  | .errors es => .errors es
  | .panic => .panic
  | .outOfFuel => .outOfFuel

theorem injective_adm {ρ : Name → Name} (hinj : ∀ x y, ρ x = ρ y → x = y)
    (h0 : ρ placeholder = placeholder) : Adm ρ (fun _ => True) :=
  ⟨fun x y _ _ e => hinj x y e, h0, trivial⟩

/-- **Everything `parse` does after the parse phase commutes with an injective renaming that fixes
the placeholder**: the syntax errors, the three re-association passes, resolution against the
(renamed) initial context and `check_definitions`.  Same outcome — the same diagnostics at the same
positions, or the same term up to its name annotations. -/
theorem finishParse_rename (ρ : Name → Name) (hinj : ∀ x y, ρ x = ρ y → x = y)
    (h0 : ρ placeholder = placeholder) (toks : Array PTok) (context : List Name) (term : Src)
    (next : Nat) :
    finishParse toks (context.map ρ) (renameSrc ρ term) next =
      renOutcome ρ (finishParse toks context term next) := by
  have hadm := injective_adm hinj h0
  have e1 : reassociateApplications (renameSrc ρ term) =
      (reassociateApplications term).map (renameSrc ρ) := reassoc_rename ρ _ term none
  unfold finishParse
  simp only [collectErrors_rename, e1]
  split <;> split <;> try rfl
  all_goals (
    cases reassociateApplications term with
    | none => rfl
    | some t1 =>
      have e2 : reassociateProductsAndQuotients (renameSrc ρ t1) =
          (reassociateProductsAndQuotients t1).map (renameSrc ρ) := reassoc_rename ρ _ t1 none
      simp only [Option.map_some, e2]
      cases reassociateProductsAndQuotients t1 with
      | none => rfl
      | some t2 =>
        have e3 : reassociateSumsAndDifferences (renameSrc ρ t2) =
            (reassociateSumsAndDifferences t2).map (renameSrc ρ) := reassoc_rename ρ _ t2 none
        simp only [Option.map_some, e3]
        cases reassociateSumsAndDifferences t2 with
        | none => rfl
        | some t3 =>
          simp only [Option.map_some]
          rw [initialContext_rename hadm context (fun _ _ => trivial), renCtx_length]
          have e4 := resolve_rename_adm hadm t3 (initialContext context).length
            { ctx := initialContext context, errors := [], nextHole := 0 }
            (fun _ _ => trivial) (fun _ _ => trivial)
          simp only [renSt] at e4
          rw [e4]
          cases resolve t3 (initialContext context).length
              { ctx := initialContext context, errors := [], nextHole := 0 } with
          | none => rfl
          | some p =>
            obtain ⟨r, st⟩ := p
            simp only [Option.map_some, renCtx_length, checkDefinitions_rename]
            cases checkDefinitions r st.ctx.length st.errors with
            | error f => cases f <;> rfl
            | ok errors =>
              simp only
              split <;> rfl)

end PModel
