import GramModel.Lemmas.PreservationBridge

/-!
# Subject reduction, part 4: structural lemmas for typing (`HT`), inversion, `HasType` versus `HT`
-/

namespace Pres

open WhnfLemmas CCSubst OracleLemmas CCPar TypingSound RewriteTyping

theorem mem_map_triple {f : Tm → Tm} {l : List (Name × Tm × Tm)} {x : Name} {a d : Tm}
    (h : (x, a, d) ∈ l.map (fun p => (p.1, f p.2.1, f p.2.2))) :
    ∃ a0 d0, (x, a0, d0) ∈ l ∧ a = f a0 ∧ d = f d0 := by
  rw [List.mem_map] at h
  obtain ⟨⟨y, a0, d0⟩, hm, e⟩ := h
  simp only [Prod.mk.injEq] at e
  obtain ⟨rfl, rfl, rfl⟩ := e
  exact ⟨a0, d0, hm, rfl, rfl⟩

theorem binResult_ushift (op : BinOp) (c a : Nat) : ushift c a (binResult op) = binResult op := by
  cases op <;> rfl
theorem binResult_openT (op : BinOp) (i : Nat) (u : Tm) (s : Nat) : openT (binResult op) i u s = binResult op := by
  cases op <;> rfl
theorem binResult_dh (op : BinOp) : dh (binResult op) = binResult op := by
  cases op <;> rfl

/-! ## weakening -/

theorem HT.wk {G D : Ctx} {t T : Tm} (h : HT G D t T) : ∀ (k m : Nat) (G' D' : Ctx), WkC k m G G' →
    WkC k m D D' → HT G' D' (ushift k m t) (ushift k m T) := by
  induction h with
  | type | int | bool | lit | tt | ff => intro k m G' D' _ _; constructor
  | var D x i ty hi hty =>
    intro k m G' D' HG _
    have := HG i
    rw [hi] at this
    simp only [ushift]
    by_cases hk : i ≥ k
    · rw [if_pos hk]
      rw [if_neg (by omega)] at this
      exact .var _ x _ _ this (by rw [ushift_holeFree]; exact hty)
    · rw [if_neg hk]
      rw [if_pos (by omega)] at this
      exact .var _ x _ _ this (by rw [ushift_holeFree]; exact hty)
  | @lam G D x im d b cod _ _ ih1 ih2 =>
    intro k m G' D' HG HD
    simp only [ushift]
    refine .lam x im (ih1 k m G' D' HG HD) (ih2 (k + 1) m _ _ ?_ (HD.underN 1))
    refine HG.under 1 _ _ ?_
    intro i _
    simp only [Option.map_some]
    rw [ushift_comm d 0 k 1 m (Nat.zero_le _)]
  | @pi G D x im d c _ _ ih1 ih2 =>
    intro k m G' D' HG HD
    simp only [ushift]
    refine .pi x im (ih1 k m G' D' HG HD) (ih2 (k + 1) m _ _ ?_ (HD.underN 1))
    refine HG.under 1 _ _ ?_
    intro i _
    simp only [Option.map_some]
    rw [ushift_comm d 0 k 1 m (Nat.zero_le _)]
  | @app G D x im g a dom cod hg _ ih1 ih2 =>
    intro k m G' D' HG HD
    have hc := hg.hf.2
    simp only [Tm.holeFree, Bool.and_eq_true] at hc
    rw [open_ushift_high cod a 0 k m 0 hc.2 (Nat.zero_le _), Nat.sub_zero]
    simp only [ushift]
    have i1 := ih1 k m G' D' HG HD
    simp only [ushift] at i1
    exact .app x im i1 (ih2 k m G' D' HG HD)
  | @letg G D ds body bty hds _ _ _ iha ihd ihb =>
    intro k m G' D' HG HD
    simp only [ushift]
    have hl := ushiftDefs_len ds (k + ds.len) m
    have HG' : WkC (k + ds.len) m (ext ds.len (annF ds) G)
        (ext (ushiftDefs (k + ds.len) m ds).len (annF (ushiftDefs (k + ds.len) m ds)) G') := by
      rw [hl]
      exact HG.under ds.len _ _ (fun i _ => by simp only [annF, annAt_ushiftDefs])
    have HD' : WkC (k + ds.len) m (ext ds.len (defF ds) D)
        (ext (ushiftDefs (k + ds.len) m ds).len (defF (ushiftDefs (k + ds.len) m ds)) D') := by
      rw [hl]
      exact HD.under ds.len _ _ (fun i _ => by simp only [defF, defAt_ushiftDefs])
    refine .letg (by rw [ushiftDefs_holeFree]; exact hds) ?_ ?_ (ihb _ m _ _ HG' HD')
    · intro x a d hm
      rw [toList_ushiftDefs] at hm
      obtain ⟨a0, d0, hm0, rfl, rfl⟩ := mem_map_triple (f := ushift (k + ds.len) m) hm
      exact iha x a0 d0 hm0 _ m _ _ HG' HD'
    · intro x a d hm
      rw [toList_ushiftDefs] at hm
      obtain ⟨a0, d0, hm0, rfl, rfl⟩ := mem_map_triple (f := ushift (k + ds.len) m) hm
      exact ihd x a0 d0 hm0 _ m _ _ HG' HD'
  | neg _ ih => intro k m G' D' HG HD; exact .neg (ih k m G' D' HG HD)
  | bin op _ _ ih1 ih2 =>
    intro k m G' D' HG HD
    rw [binResult_ushift]
    exact .bin op (ih1 k m G' D' HG HD) (ih2 k m G' D' HG HD)
  | ite _ _ _ ih0 ih1 ih2 =>
    intro k m G' D' HG HD
    exact .ite (ih0 k m G' D' HG HD) (ih1 k m G' D' HG HD) (ih2 k m G' D' HG HD)
  | conv _ hc ih =>
    intro k m G' D' HG HD
    exact .conv (ih k m G' D' HG HD) (hc.wk k m D' HD)

theorem HT.push {G D : Ctx} {t T : Tm} (h : HT G D t T) (n : Nat) (F F' : Nat → Option Tm) :
    HT (ext n F G) (ext n F' D) (ushift 0 n t) (ushift 0 n T) :=
  h.wk 0 n _ _ (WkC.push n F G) (WkC.push n F' D)

/-! ## substitution -/

/-- the typing side condition of substitution, pushed under `n` binders -/
theorem tyCond_push {k : Nat} {v : Tm} {G G' D' : Ctx}
    (ht : ∀ A, G k = some A → HT G' D' v (openT A k v 0)) (n : Nat) (F F' F'' : Nat → Option Tm) :
    ∀ A, ext n F G (k + n) = some A →
      HT (ext n F' G') (ext n F'' D') (ushift 0 n v) (openT A (k + n) (ushift 0 n v) 0) := by
  intro A e
  rw [ext_ge (by omega), Nat.add_sub_cancel] at e
  cases e0 : G k with
  | none => rw [e0] at e; cases e
  | some A0 =>
    rw [e0] at e
    simp only [Option.map_some, Option.some.injEq] at e
    subst e
    have := (ht A0 e0).push n F' F''
    rw [open_push] at this
    exact this

theorem HT.subst {G D : Ctx} {t T : Tm} (h : HT G D t T) : ∀ (k : Nat) (v : Tm) (G' D' : Ctx),
    v.holeFree = true → SbC k v G G' → SbC k v D D' →
    (∀ A, G k = some A → HT G' D' v (openT A k v 0)) →
    (∀ d, D k = some d → Cv D' v (openT d k v 0)) →
    HT G' D' (openT t k v 0) (openT T k v 0) := by
  induction h with
  | type | int | bool | lit | tt | ff => intro k v G' D' _ _ _ _ _; constructor
  | var D x i ty hi hty =>
    intro k v G' D' hv HG _ ht _
    simp only [openT]
    by_cases hik : i = k
    · subst hik
      rw [if_pos rfl, ushift_zero]
      exact ht ty hi
    · rw [if_neg hik]
      have := HG i hik
      rw [hi] at this
      by_cases hgt : i > k
      · rw [if_pos hgt]
        rw [if_neg (by omega)] at this
        exact .var _ x _ _ this (openT_holeFree _ _ _ _ hty hv)
      · rw [if_neg hgt]
        rw [if_pos (by omega)] at this
        exact .var _ x _ _ this (openT_holeFree _ _ _ _ hty hv)
  | @lam G D x im d b cod _ _ ih1 ih2 =>
    intro k v G' D' hv HG HD ht hd
    simp only [openT, Nat.zero_add]
    rw [open_arg0 b (k + 1) v 1, open_arg0 cod (k + 1) v 1]
    refine .lam x im (ih1 k v G' D' hv HG HD ht hd)
      (ih2 (k + 1) _ _ _ (by rw [ushift_holeFree]; exact hv) ?_ (HD.underN 1)
        (tyCond_push ht 1 _ _ _) (defCond_push hd 1 noneF noneF))
    refine HG.under 1 _ _ ?_
    intro i _
    simp only [Option.map_some]
    rw [open_push]
  | @pi G D x im d c _ _ ih1 ih2 =>
    intro k v G' D' hv HG HD ht hd
    simp only [openT, Nat.zero_add]
    rw [open_arg0 c (k + 1) v 1]
    refine .pi x im (ih1 k v G' D' hv HG HD ht hd) ?_
    have := ih2 (k + 1) _ (ext 1 (fun _ => some (ushift 0 1 (openT d k v 0))) G') _
      (by rw [ushift_holeFree]; exact hv) ?_ (HD.underN 1)
        (tyCond_push ht 1 _ _ _) (defCond_push hd 1 noneF noneF)
    · simpa only [openT] using this
    · refine HG.under 1 _ _ ?_
      intro i _
      simp only [Option.map_some]
      rw [open_push]
  | @app G D x im g a dom cod hg _ ih1 ih2 =>
    intro k v G' D' hv HG HD ht hd
    rw [open_open_sh cod a v 0 k 0 (Nat.zero_le _) (Nat.zero_le _)]
    simp only [openT]
    have i1 := ih1 k v G' D' hv HG HD ht hd
    simp only [openT, Nat.zero_add] at i1
    exact .app x im i1 (ih2 k v G' D' hv HG HD ht hd)
  | @letg G D ds body bty hds _ _ _ iha ihd ihb =>
    intro k v G' D' hv HG HD ht hd
    simp only [openT, Nat.zero_add]
    rw [open_arg0 body, open_arg0 bty, openDefs_arg0]
    have hv' : (ushift 0 ds.len v).holeFree = true := by rw [ushift_holeFree]; exact hv
    generalize hv1 : ushift 0 ds.len v = v1 at hv'
    have hl := openDefs_len ds (k + ds.len) v1 0
    have HG' : SbC (k + ds.len) v1 (ext ds.len (annF ds) G)
        (ext (openDefs ds (k + ds.len) v1 0).len (annF (openDefs ds (k + ds.len) v1 0)) G') := by
      rw [hl, ← hv1]
      exact HG.under ds.len _ _ (fun i _ => by simp only [annF, annAt_openDefs])
    have HD' : SbC (k + ds.len) v1 (ext ds.len (defF ds) D)
        (ext (openDefs ds (k + ds.len) v1 0).len (defF (openDefs ds (k + ds.len) v1 0)) D') := by
      rw [hl, ← hv1]
      exact HD.under ds.len _ _ (fun i _ => by simp only [defF, defAt_openDefs])
    have ht' : ∀ A, ext ds.len (annF ds) G (k + ds.len) = some A →
        HT (ext (openDefs ds (k + ds.len) v1 0).len (annF (openDefs ds (k + ds.len) v1 0)) G')
          (ext (openDefs ds (k + ds.len) v1 0).len (defF (openDefs ds (k + ds.len) v1 0)) D') v1
          (openT A (k + ds.len) v1 0) := by
      rw [hl, ← hv1]; exact tyCond_push ht ds.len _ _ _
    have hd' : ∀ d, ext ds.len (defF ds) D (k + ds.len) = some d →
        Cv (ext (openDefs ds (k + ds.len) v1 0).len (defF (openDefs ds (k + ds.len) v1 0)) D') v1
          (openT d (k + ds.len) v1 0) := by
      rw [hl, ← hv1]; exact defCond_push hd ds.len _ _
    refine .letg (openDefs_holeFree _ _ _ _ hds hv') ?_ ?_ (ihb _ v1 _ _ hv' HG' HD' ht' hd')
    · intro x a d hm
      rw [toList_openDefs] at hm
      obtain ⟨a0, d0, hm0, rfl, rfl⟩ := mem_map_triple (f := fun t => openT t (k + ds.len) v1 0) hm
      exact iha x a0 d0 hm0 _ v1 _ _ hv' HG' HD' ht' hd'
    · intro x a d hm
      rw [toList_openDefs] at hm
      obtain ⟨a0, d0, hm0, rfl, rfl⟩ := mem_map_triple (f := fun t => openT t (k + ds.len) v1 0) hm
      exact ihd x a0 d0 hm0 _ v1 _ _ hv' HG' HD' ht' hd'
  | neg _ ih => intro k v G' D' hv HG HD ht hd; exact .neg (ih k v G' D' hv HG HD ht hd)
  | bin op _ _ ih1 ih2 =>
    intro k v G' D' hv HG HD ht hd
    rw [binResult_openT]
    exact .bin op (ih1 k v G' D' hv HG HD ht hd) (ih2 k v G' D' hv HG HD ht hd)
  | ite _ _ _ ih0 ih1 ih2 =>
    intro k v G' D' hv HG HD ht hd
    exact .ite (ih0 k v G' D' hv HG HD ht hd) (ih1 k v G' D' hv HG HD ht hd) (ih2 k v G' D' hv HG HD ht hd)
  | conv _ hc ih =>
    intro k v G' D' hv HG HD ht hd
    exact .conv (ih k v G' D' hv HG HD ht hd) (hc.subst k v D' hv HD hd)

/-! ## change of context -/

/-- every entry of `G` is, in `G'`, an entry convertible (under `D'`) with it -/
def TyCv (D' G G' : Ctx) : Prop :=
  ∀ i A, G i = some A → ∃ A', G' i = some A' ∧ A'.holeFree = true ∧ Cv D' A' A

theorem CtxCv.underF {D D' : Ctx} (h : CtxCv D D') (n : Nat) (F : Nat → Option Tm)
    (hF : ∀ i d, i < n → F i = some d → d.holeFree = true) : CtxCv (ext n F D) (ext n F D') := by
  intro i d x e
  by_cases hi : i < n
  · rw [ext_lt hi] at e
    exact .delta x i d (by rw [ext_lt hi]; exact e) (hF i d hi e)
  · rw [ext_ge (Nat.not_lt.1 hi)] at e
    cases e0 : D (i - n) with
    | none => rw [e0] at e; cases e
    | some d0 =>
      rw [e0] at e
      simp only [Option.map_some, Option.some.injEq] at e
      subst e
      have := (h (i - n) d0 x e0).push n F (D := D')
      simp only [ushift] at this
      rw [if_pos (Nat.zero_le _), show i - n + n = i by omega] at this
      exact this

theorem TyCv.under {D' G G' : Ctx} (h : TyCv D' G G') (n : Nat) (F F' : Nat → Option Tm)
    (hF : ∀ i d, i < n → F i = some d → d.holeFree = true) : TyCv (ext n F' D') (ext n F G) (ext n F G') := by
  intro i A e
  by_cases hi : i < n
  · rw [ext_lt hi] at e
    exact ⟨A, by rw [ext_lt hi]; exact e, hF i A hi e, .refl (hF i A hi e)⟩
  · rw [ext_ge (Nat.not_lt.1 hi)] at e
    cases e0 : G (i - n) with
    | none => rw [e0] at e; cases e
    | some A0 =>
      rw [e0] at e
      simp only [Option.map_some, Option.some.injEq] at e
      subst e
      obtain ⟨A', g', hA', c⟩ := h _ _ e0
      exact ⟨ushift 0 n A', by rw [ext_ge (Nat.not_lt.1 hi), g']; rfl, by rw [ushift_holeFree]; exact hA',
        c.push n F'⟩

theorem defF_hf {ds : Defs} (hds : ds.holeFree = true) :
    ∀ i d, i < ds.len → defF ds i = some d → d.holeFree = true :=
  fun i d _ e => defAt_holeFree ds i d hds e
theorem annF_hf {ds : Defs} (hds : ds.holeFree = true) :
    ∀ i d, i < ds.len → annF ds i = some d → d.holeFree = true :=
  fun i d _ e => annAt_holeFree ds i d hds e

theorem HT.ctx {G D : Ctx} {t T : Tm} (h : HT G D t T) : ∀ (G' D' : Ctx), CtxCv D D' → TyCv D' G G' →
    HT G' D' t T := by
  induction h with
  | type | int | bool | lit | tt | ff => intro G' D' _ _; constructor
  | var D x i ty hi hty =>
    intro G' D' _ HG
    obtain ⟨A', g', hA', c⟩ := HG i ty hi
    exact .conv (.var _ x i A' g' hA') c
  | @lam G D x im d b cod h1 _ ih1 ih2 =>
    intro G' D' HD HG
    have hd : (ushift 0 1 d).holeFree = true := by rw [ushift_holeFree]; exact h1.hf.1
    exact .lam x im (ih1 G' D' HD HG) (ih2 _ _ (HD.underN 1)
      (HG.under 1 _ _ (fun i t _ e => by cases e; exact hd)))
  | @pi G D x im d c h1 _ ih1 ih2 =>
    intro G' D' HD HG
    have hd : (ushift 0 1 d).holeFree = true := by rw [ushift_holeFree]; exact h1.hf.1
    exact .pi x im (ih1 G' D' HD HG) (ih2 _ _ (HD.underN 1)
      (HG.under 1 _ _ (fun i t _ e => by cases e; exact hd)))
  | app x im _ _ ih1 ih2 => intro G' D' HD HG; exact .app x im (ih1 G' D' HD HG) (ih2 G' D' HD HG)
  | @letg G D ds body bty hds _ _ _ iha ihd ihb =>
    intro G' D' HD HG
    have HD' := HD.underF ds.len (defF ds) (defF_hf hds)
    have HG' := HG.under ds.len (annF ds) (defF ds) (annF_hf hds)
    exact .letg hds (fun x a d hm => iha x a d hm _ _ HD' HG') (fun x a d hm => ihd x a d hm _ _ HD' HG')
      (ihb _ _ HD' HG')
  | neg _ ih => intro G' D' HD HG; exact .neg (ih G' D' HD HG)
  | bin op _ _ ih1 ih2 => intro G' D' HD HG; exact .bin op (ih1 G' D' HD HG) (ih2 G' D' HD HG)
  | ite _ _ _ ih0 ih1 ih2 =>
    intro G' D' HD HG; exact .ite (ih0 G' D' HD HG) (ih1 G' D' HD HG) (ih2 G' D' HD HG)
  | conv _ hc ih => intro G' D' HD HG; exact .conv (ih G' D' HD HG) (hc.ctx D' HD)

theorem CtxCv.rfl' {D : Ctx} (hD : CHF D) : CtxCv D D :=
  fun i d x e => .delta x i d e (hD i d e)

theorem TyCv.rfl' {D G : Ctx} (hG : CHF G) : TyCv D G G :=
  fun i A e => ⟨A, e, hG i A e, .refl (hG i A e)⟩

/-! ## inversion -/

theorem HT.inv_lam {G D : Ctx} {x : Name} {im : Bool} {d b T : Tm} (h : HT G D (.lam x im d b) T) :
    ∃ cod, HT G D d .type ∧ HT (ext 1 (fun _ => some (ushift 0 1 d)) G) (ext 1 noneF D) b cod ∧
      Cv D (.pi x im d cod) T := by
  generalize e : Tm.lam x im d b = t at h
  induction h with
  | lam x' im' h1 h2 =>
    cases e
    have hf1 := h1.hf; have hf2 := h2.hf
    exact ⟨_, h1, h2, .refl (by simp [Tm.holeFree, hf1.1, hf2.2])⟩
  | conv _ hc ih =>
    obtain ⟨cod, h1, h2, c⟩ := ih e
    exact ⟨cod, h1, h2, .trans c hc⟩
  | _ => cases e

theorem HT.inv_pi {G D : Ctx} {x : Name} {im : Bool} {d c T : Tm} (h : HT G D (.pi x im d c) T) :
    HT G D d .type ∧ HT (ext 1 (fun _ => some (ushift 0 1 d)) G) (ext 1 noneF D) c .type ∧
      Cv D .type T := by
  generalize e : Tm.pi x im d c = t at h
  induction h with
  | pi x' im' h1 h2 => cases e; exact ⟨h1, h2, .refl rfl⟩
  | conv _ hc ih =>
    obtain ⟨h1, h2, c⟩ := ih e
    exact ⟨h1, h2, .trans c hc⟩
  | _ => cases e

theorem HT.inv_app {G D : Ctx} {g a T : Tm} (h : HT G D (.app g a) T) :
    ∃ x im dom cod, HT G D g (.pi x im dom cod) ∧ HT G D a dom ∧ Cv D (openT cod 0 a 0) T := by
  generalize e : Tm.app g a = t at h
  induction h with
  | app x im h1 h2 =>
    cases e
    have hc := h1.hf.2
    simp only [Tm.holeFree, Bool.and_eq_true] at hc
    exact ⟨x, im, _, _, h1, h2, .refl (openT_holeFree _ _ _ _ hc.2 h2.hf.1)⟩
  | conv _ hc ih =>
    obtain ⟨x, im, dom, cod, h1, h2, c⟩ := ih e
    exact ⟨x, im, dom, cod, h1, h2, .trans c hc⟩
  | _ => cases e

theorem HT.inv_neg {G D : Ctx} {a T : Tm} (h : HT G D (.neg a) T) : HT G D a .int ∧ Cv D .int T := by
  generalize e : Tm.neg a = t at h
  induction h with
  | neg h1 => cases e; exact ⟨h1, .refl rfl⟩
  | conv _ hc ih => obtain ⟨h1, c⟩ := ih e; exact ⟨h1, .trans c hc⟩
  | _ => cases e

theorem HT.inv_bin {G D : Ctx} {op : BinOp} {a b T : Tm} (h : HT G D (.bin op a b) T) :
    HT G D a .int ∧ HT G D b .int ∧ Cv D (binResult op) T := by
  generalize e : Tm.bin op a b = t at h
  induction h with
  | bin op' h1 h2 => cases e; exact ⟨h1, h2, .refl (binResult_hf _)⟩
  | conv _ hc ih => obtain ⟨h1, h2, c⟩ := ih e; exact ⟨h1, h2, .trans c hc⟩
  | _ => cases e

theorem HT.inv_ite {G D : Ctx} {c a b T : Tm} (h : HT G D (.ite c a b) T) :
    ∃ T0, HT G D c .bool ∧ HT G D a T0 ∧ HT G D b T0 ∧ Cv D T0 T := by
  generalize e : Tm.ite c a b = t at h
  induction h with
  | ite h0 h1 h2 => cases e; exact ⟨_, h0, h1, h2, .refl h1.hf.2⟩
  | conv _ hc ih => obtain ⟨T0, h0, h1, h2, c⟩ := ih e; exact ⟨T0, h0, h1, h2, .trans c hc⟩
  | _ => cases e

theorem HT.inv_letg {G D : Ctx} {ds : Defs} {body T : Tm} (h : HT G D (.letg ds body) T) :
    ∃ bty, ds.holeFree = true ∧
      (∀ x a d, (x, a, d) ∈ ds.toList → HT (ext ds.len (annF ds) G) (ext ds.len (defF ds) D) a .type) ∧
      (∀ x a d, (x, a, d) ∈ ds.toList → HT (ext ds.len (annF ds) G) (ext ds.len (defF ds) D) d a) ∧
      HT (ext ds.len (annF ds) G) (ext ds.len (defF ds) D) body bty ∧ Cv D (.letg ds bty) T := by
  generalize e : Tm.letg ds body = t at h
  induction h with
  | letg hds ha hd hb =>
    cases e
    exact ⟨_, hds, ha, hd, hb, .refl (by simp [Tm.holeFree, hds, hb.hf.2])⟩
  | conv _ hc ih =>
    obtain ⟨bty, hds, ha, hd, hb, c⟩ := ih e
    exact ⟨bty, hds, ha, hd, hb, .trans c hc⟩
  | _ => cases e

theorem HT.inv_var {G D : Ctx} {x : Name} {i : Nat} {T : Tm} (h : HT G D (.var x i) T) :
    ∃ ty, G i = some ty ∧ ty.holeFree = true ∧ Cv D ty T := by
  generalize e : Tm.var x i = t at h
  induction h with
  | var D x' i' ty hi hty => cases e; exact ⟨ty, hi, hty, .refl hty⟩
  | conv _ hc ih => obtain ⟨ty, hi, hty, c⟩ := ih e; exact ⟨ty, hi, hty, .trans c hc⟩
  | _ => cases e

/-! ## `HasType` to `HT` -/

mutual
theorem hasType_ht : ∀ {Γ : TCtxX} {Δ : DCtxX} {t T : Tm}, HasType Γ Δ t T → OffsT Γ → DWF Δ →
    HT (dhC (lkT Γ)) (dhC (lkD Δ)) (dh t) (dh T)
  | _, _, _, _, .type _ _, _, _ => .type _ _
  | _, _, _, _, .int _ _, _, _ => .int _ _
  | _, _, _, _, .bool _ _, _, _ => .bool _ _
  | _, _, _, _, .lit _ _ n, _, _ => .lit _ _ n
  | _, _, _, _, .tt _ _, _, _ => .tt _ _
  | _, _, _, _, .ff _ _, _, _ => .ff _ _
  | _, _, _, _, .var _ x i ty off hΓ ho, _, _ => by
      simp only [dh]
      refine .var _ x i _ ?_ (dh_holeFree _)
      simp only [dhC, lkT_some hΓ ho, Option.map_some]
  | _, _, _, _, @HasType.lam Γ Δ x im d b cod h1 h2, hO, hW => by
      have i2 := hasType_ht h2 (OffsT_cons hO d) (DWF.push hW)
      rw [lkT_cons hO, lkD_none hW, dhC_extN, dhC_ext] at i2
      simp only [Option.map_some, dh_ushift] at i2
      simp only [dh]
      exact .lam x im (hasType_ht h1 hO hW) i2
  | _, _, _, _, @HasType.pi Γ Δ x im d c h1 h2, hO, hW => by
      have i2 := hasType_ht h2 (OffsT_cons hO d) (DWF.push hW)
      rw [lkT_cons hO, lkD_none hW, dhC_extN, dhC_ext] at i2
      simp only [Option.map_some, dh_ushift] at i2
      simp only [dh]
      exact .pi x im (hasType_ht h1 hO hW) i2
  | _, _, _, _, .app x im h1 h2, hO, hW => by
      have i1 := hasType_ht h1 hO hW
      simp only [dh] at i1
      simp only [dh, dh_openT]
      exact .app x im i1 (hasType_ht h2 hO hW)
  | _, _, _, _, @HasType.letg Γ Δ ds body bty h1 h2, hO, hW => by
      have hO' := OffsT_pushed hO ds
      have hW' := DWF_pushed hW ds
      have e := CheckSound.pushGroupX_eq ds Γ Δ
      have e1 : (pushGroupX ds 0 (Γ, Δ)).1 = pushedT ds ds.len Γ := by rw [e]
      have e2 : (pushGroupX ds 0 (Γ, Δ)).2 = pushedD ds ds.len Δ := by rw [e]
      have i1 := defsOK_ht h1 (by rw [e1]; exact hO') (by rw [e2]; exact hW')
      have i2 := hasType_ht h2 (by rw [e1]; exact hO') (by rw [e2]; exact hW')
      rw [e1, e2, lkT_pushed hO, lkD_pushed hW, dhC_ext, dhC_ext, annF_dh, defF_dh, ← dhDefs_len ds] at i1 i2
      simp only [dh]
      exact .letg (dhDefs_holeFree _) (fun x a d hm => (i1 x a d hm).1) (fun x a d hm => (i1 x a d hm).2) i2
  | _, _, _, _, .neg h, hO, hW => by
      have := hasType_ht h hO hW
      simp only [dh] at this ⊢
      exact .neg this
  | _, _, _, _, .bin op h1 h2, hO, hW => by
      have i1 := hasType_ht h1 hO hW
      have i2 := hasType_ht h2 hO hW
      simp only [dh] at i1 i2 ⊢
      rw [binResult_dh]
      exact .bin op i1 i2
  | _, _, _, _, .ite h0 h1 h2, hO, hW => by
      have i0 := hasType_ht h0 hO hW
      simp only [dh] at i0 ⊢
      exact .ite i0 (hasType_ht h1 hO hW) (hasType_ht h2 hO hW)
  | _, _, _, _, .conv h hc, hO, hW => .conv (hasType_ht h hO hW) (conv_cv hc hW)
theorem defsOK_ht : ∀ {Γ : TCtxX} {Δ : DCtxX} {ds : Defs}, DefsOK Γ Δ ds → OffsT Γ → DWF Δ →
    ∀ x a d, (x, a, d) ∈ (dhDefs ds).toList →
      HT (dhC (lkT Γ)) (dhC (lkD Δ)) a .type ∧ HT (dhC (lkT Γ)) (dhC (lkD Δ)) d a
  | _, _, _, .nil _ _, _, _, x, a, d, hm => by simp [dhDefs, Defs.toList] at hm
  | _, _, _, .cons y h1 h2 h3, hO, hW, x, a, d, hm => by
      simp only [dhDefs, Defs.toList, List.mem_cons, Prod.mk.injEq] at hm
      rcases hm with ⟨_, rfl, rfl⟩ | hm
      · exact ⟨hasType_ht h1 hO hW, hasType_ht h2 hO hW⟩
      · exact defsOK_ht h3 hO hW x a d hm
end

/-- a typing of a hole-free term at a hole-free type in hole-free contexts, as `HT` -/
theorem hasType_ht_hf {Γ : TCtxX} {Δ : DCtxX} {t T : Tm} (h : HasType Γ Δ t T) (hO : OffsT Γ)
    (hW : DWF Δ) (hT : THF Γ) (hD : DHF Δ) (ht : t.holeFree = true) (hTy : T.holeFree = true) :
    HT (lkT Γ) (lkD Δ) t T := by
  have := hasType_ht h hO hW
  rwa [dhC_id (CHF_lkT hT), dhC_id (CHF_lkD hD), dh_id t ht, dh_id T hTy] at this

/-! ## `HT` to `HasType` -/

theorem defsOK_of {Γ : TCtxX} {Δ : DCtxX} : ∀ (ds : Defs),
    (∀ x a d, (x, a, d) ∈ ds.toList → HasType Γ Δ a .type ∧ HasType Γ Δ d a) → DefsOK Γ Δ ds
  | .nil, _ => .nil _ _
  | .cons x a d r, h =>
      .cons x (h x a d (by simp [Defs.toList])).1 (h x a d (by simp [Defs.toList])).2
        (defsOK_of r (fun y b e hm => h y b e (by simp [Defs.toList, hm])))

theorem ht_hasType {G D : Ctx} {t T : Tm} (h : HT G D t T) : ∀ (Γ : TCtxX) (Δ : DCtxX), OffsT Γ →
    DWF Δ → G = lkT Γ → D = lkD Δ → HasType Γ Δ t T := by
  induction h with
  | type | int | bool | lit | tt | ff => intro Γ Δ _ _ _ _; constructor
  | var D x i ty hi _ =>
    intro Γ Δ _ _ eG _
    rw [eG] at hi
    obtain ⟨ty0, off, e0, ho, rfl⟩ := lkT_inv hi
    exact .var _ x i ty0 off e0 ho
  | @lam G D x im d b cod _ _ ih1 ih2 =>
    intro Γ Δ hO hW eG eD
    exact .lam x im (ih1 Γ Δ hO hW eG eD)
      (ih2 ((d, 0) :: Γ) (none :: Δ) (OffsT_cons hO d) (DWF.push hW) (by rw [eG, lkT_cons hO])
        (by rw [eD, lkD_none hW]))
  | @pi G D x im d c _ _ ih1 ih2 =>
    intro Γ Δ hO hW eG eD
    exact .pi x im (ih1 Γ Δ hO hW eG eD)
      (ih2 ((d, 0) :: Γ) (none :: Δ) (OffsT_cons hO d) (DWF.push hW) (by rw [eG, lkT_cons hO])
        (by rw [eD, lkD_none hW]))
  | app x im _ _ ih1 ih2 => intro Γ Δ hO hW eG eD; exact .app x im (ih1 Γ Δ hO hW eG eD) (ih2 Γ Δ hO hW eG eD)
  | @letg G D ds body bty hds _ _ _ iha ihd ihb =>
    intro Γ Δ hO hW eG eD
    have hO' := OffsT_pushed hO ds
    have hW' := DWF_pushed hW ds
    have eG' : ext ds.len (annF ds) G = lkT (pushedT ds ds.len Γ) := by rw [eG, lkT_pushed hO]
    have eD' : ext ds.len (defF ds) D = lkD (pushedD ds ds.len Δ) := by rw [eD, lkD_pushed hW]
    have r : DefsOK (pushedT ds ds.len Γ) (pushedD ds ds.len Δ) ds ∧
        HasType (pushedT ds ds.len Γ) (pushedD ds ds.len Δ) body bty :=
      ⟨defsOK_of ds (fun x a d hm => ⟨iha x a d hm _ _ hO' hW' eG' eD', ihd x a d hm _ _ hO' hW' eG' eD'⟩),
        ihb _ _ hO' hW' eG' eD'⟩
    have e := CheckSound.pushGroupX_eq ds Γ Δ
    have e1 : (pushGroupX ds 0 (Γ, Δ)).1 = pushedT ds ds.len Γ := by rw [e]
    have e2 : (pushGroupX ds 0 (Γ, Δ)).2 = pushedD ds ds.len Δ := by rw [e]
    rw [← e1, ← e2] at r
    exact .letg r.1 r.2
  | neg _ ih => intro Γ Δ hO hW eG eD; exact .neg (ih Γ Δ hO hW eG eD)
  | bin op _ _ ih1 ih2 => intro Γ Δ hO hW eG eD; exact .bin op (ih1 Γ Δ hO hW eG eD) (ih2 Γ Δ hO hW eG eD)
  | ite _ _ _ ih0 ih1 ih2 =>
    intro Γ Δ hO hW eG eD; exact .ite (ih0 Γ Δ hO hW eG eD) (ih1 Γ Δ hO hW eG eD) (ih2 Γ Δ hO hW eG eD)
  | conv _ hc ih =>
    intro Γ Δ hO hW eG eD
    exact .conv (ih Γ Δ hO hW eG eD) (cv_conv hc Δ hW eD)

end Pres
