import GramModel.Parser

/-! Helper lemmas about name resolution in the parser model (`PModel.resolveAux`): the state monad,
the name→depth map `Ctx`, and the monotone parts of the resolver state. -/

open PModel

theorem StateT_bind_some {σ α β : Type} (m : StateT σ Option α) (f : α → StateT σ Option β)
    (s : σ) (b : β) (s' : σ) :
    (m >>= f) s = some (b, s') ↔ ∃ a s1, m s = some (a, s1) ∧ f a s1 = some (b, s') := by
  show (StateT.bind m f) s = some (b, s') ↔ _
  unfold StateT.bind
  cases h : m s with
  | none => simp [bind, Option.bind]
  | some p =>
    obtain ⟨a, s1⟩ := p
    simp only [bind, Option.bind, Option.some.injEq, Prod.mk.injEq]
    constructor
    · intro h; exact ⟨a, s1, ⟨rfl, rfl⟩, h⟩
    · rintro ⟨a', s1', ⟨rfl, rfl⟩, h⟩; exact h

theorem StateT_pure_some {σ α : Type} (a : α) (s : σ) (b : α) (s' : σ) :
    (pure a : StateT σ Option α) s = some (b, s') ↔ a = b ∧ s = s' := by
  show (StateT.pure a : StateT σ Option α) s = some (b, s') ↔ _
  simp [StateT.pure, pure]

namespace PModel

structure RMono (st st' : RState) : Prop where
  hole : st.nextHole ≤ st'.nextHole
  errs : ∃ es, st'.errors = st.errors ++ es
  ph : st.ctx.get placeholder = none → st'.ctx.get placeholder = none

theorem RMono.refl (st : RState) : RMono st st := ⟨Nat.le_refl _, ⟨[], by simp⟩, id⟩

theorem RMono.trans {a b c : RState} (h1 : RMono a b) (h2 : RMono b c) : RMono a c := by
  obtain ⟨e1, he1⟩ := h1.errs
  obtain ⟨e2, he2⟩ := h2.errs
  exact ⟨Nat.le_trans h1.hole h2.hole, ⟨e1 ++ e2, by rw [he2, he1, List.append_assoc]⟩,
    fun h => h2.ph (h1.ph h)⟩

theorem Ctx.lookup_cons_ne (y k : Name) (v : Nat) (c : List (Name × Nat)) (h : y ≠ k) :
    List.lookup y ((k, v) :: c) = List.lookup y c := by
  have : (y == k) = false := by simp [h]
  simp [List.lookup_cons, this]

theorem Ctx.lookup_cons_self (y : Name) (v : Nat) (c : List (Name × Nat)) :
    List.lookup y ((y, v) :: c) = some v := by
  simp

theorem Ctx.get_remove (c : Ctx) (x y : Name) :
    (c.remove x).get y = if y = x then none else c.get y := by
  induction c with
  | nil => simp [Ctx.remove, Ctx.get]
  | cons p c ih =>
    obtain ⟨k, v⟩ := p
    simp only [Ctx.remove, Ctx.get] at ih ⊢
    simp only [List.filter_cons]
    by_cases hk : k = x
    · subst hk
      by_cases hy : y = k
      · subst hy; simp [ih]
      · simp [ih, hy, Ctx.lookup_cons_ne _ _ _ _ hy]
    · by_cases hy : y = k
      · subst hy; simp [hk]
      · simp [hk, Ctx.lookup_cons_ne _ _ _ _ hy, ih]

theorem Ctx.get_insert (c : Ctx) (x : Name) (d : Nat) (y : Name) :
    (c.insert x d).get y = if y = x then some d else c.get y := by
  have h := Ctx.get_remove c x y
  simp only [Ctx.insert, Ctx.get] at h ⊢
  by_cases hy : y = x
  · subst hy; simp
  · simp [hy, Ctx.lookup_cons_ne _ _ _ _ hy] at h ⊢; exact h

theorem Ctx.containsKey_eq (c : Ctx) (x : Name) : c.containsKey x = (c.get x).isSome := rfl


/-! ### Monotone parts of the state -/

theorem bindName_mono {v : SrcVar} {d : Nat} {st st' : RState} {u : Unit}
    (h : bindName v d st = some (u, st')) : RMono st st' := by
  unfold bindName at h
  split at h
  · rename_i hv
    simp only [Option.some.injEq, Prod.mk.injEq] at h
    obtain ⟨_, rfl⟩ := h
    refine ⟨Nat.le_refl _, ?_, ?_⟩
    · simp only; split
      · exact ⟨_, rfl⟩
      · exact ⟨[], by simp⟩
    · intro h0
      have : placeholder ≠ v.name := by intro e; simp [e] at hv
      simp [Ctx.get_insert, this, h0]
  · simp only [Option.some.injEq, Prod.mk.injEq] at h
    obtain ⟨_, rfl⟩ := h
    exact RMono.refl _

theorem unbindName_mono {x : Name} {st st' : RState} {u : Unit}
    (h : unbindName x st = some (u, st')) : RMono st st' := by
  unfold unbindName at h
  simp only [Option.some.injEq, Prod.mk.injEq] at h
  obtain ⟨_, rfl⟩ := h
  refine ⟨Nat.le_refl _, ⟨[], by simp⟩, ?_⟩
  intro h0
  simp only [Ctx.get_remove]
  split <;> simp [h0]

theorem freshHole_mono {r : Option SourceRange} {s : Nat} {st st' : RState} {t : RTm}
    (h : freshHole r s st = some (t, st')) : RMono st st' := by
  unfold freshHole at h
  simp only [Option.some.injEq, Prod.mk.injEq] at h
  obtain ⟨_, rfl⟩ := h
  exact ⟨Nat.le_succ _, ⟨[], by simp⟩, id⟩

theorem bindDefinitions_mono (depth : Nat) : ∀ (ds : List (SrcVar × OptSrc × Src)) (i : Nat)
    (st st' : RState) (u : Unit), bindDefinitions depth ds i st = some (u, st') → RMono st st'
  | [], i, st, st', u, h => by
      simp only [bindDefinitions, StateT_pure_some] at h
      rw [h.2]; exact RMono.refl _
  | (v, _, _) :: rest, i, st, st', u, h => by
      simp only [bindDefinitions, StateT_bind_some] at h
      obtain ⟨a, s1, h1, h2⟩ := h
      exact (bindName_mono h1).trans (bindDefinitions_mono depth rest (i + 1) s1 st' u h2)

theorem unbindDefinitions_mono : ∀ (ds : List (SrcVar × OptSrc × Src))
    (st st' : RState) (u : Unit), unbindDefinitions ds st = some (u, st') → RMono st st'
  | [], st, st', u, h => by
      simp only [unbindDefinitions, StateT_pure_some] at h
      rw [h.2]; exact RMono.refl _
  | (v, _, _) :: rest, st, st', u, h => by
      simp only [unbindDefinitions] at h
      split at h
      · simp only [StateT_bind_some] at h
        obtain ⟨a, s1, h1, h2⟩ := h
        exact (unbindName_mono h1).trans (unbindDefinitions_mono rest s1 st' u h2)
      · exact unbindDefinitions_mono rest st st' u h


theorem pure_mono {α : Type} {a b : α} {st st' : RState}
    (h : (pure a : ResolveM α) st = some (b, st')) : RMono st st' := by
  rw [StateT_pure_some] at h; rw [h.2]; exact RMono.refl _

mutual
theorem resolveAux_mono : ∀ (t : Src) (chain : Option (Nat × Nat)) (depth : Nat)
    (st : RState) (res : RDefs × RTm) (st' : RState),
    resolveAux t chain depth st = some (res, st') → RMono st st'
  | .mk range g .parseError es, chain, depth, st, res, st', h => by
      unfold resolveAux at h; simp at h
  | .mk range g .type es, chain, depth, st, res, st', h => by
      unfold resolveAux at h; exact pure_mono h
  | .mk range g .int es, chain, depth, st, res, st', h => by
      unfold resolveAux at h; exact pure_mono h
  | .mk range g (.lit n) es, chain, depth, st, res, st', h => by
      unfold resolveAux at h; exact pure_mono h
  | .mk range g .bool es, chain, depth, st, res, st', h => by
      unfold resolveAux at h; exact pure_mono h
  | .mk range g .tt es, chain, depth, st, res, st', h => by
      unfold resolveAux at h; exact pure_mono h
  | .mk range g .ff es, chain, depth, st, res, st', h => by
      unfold resolveAux at h; exact pure_mono h
  | .mk range g (.var x) es, chain, depth, st, res, st', h => by
      unfold resolveAux at h
      cases hg : st.ctx.get x with
      | some vd =>
        simp only [hg, Option.some.injEq, Prod.mk.injEq] at h
        rw [← h.2]; exact RMono.refl _
      | none =>
        simp only [hg, Option.some.injEq, Prod.mk.injEq] at h
        rw [← h.2]
        refine ⟨Nat.le_succ _, ?_, id⟩
        simp only; split
        · exact ⟨_, rfl⟩
        · exact ⟨[], by simp⟩
  | .mk range g (.lam x imp dom body) es, chain, depth, st, res, st', h => by
      unfold resolveAux at h
      simp only [StateT_bind_some] at h
      obtain ⟨a, s1, h1, u, s2, h2, h3⟩ := h
      have m1 := resolveOpt_mono dom depth st a s1 h1
      have m2 := bindName_mono h2
      cases a with
      | some d =>
        simp only [StateT_bind_some] at h3
        obtain ⟨d', s3, h3, p, s4, h4, u', s5, h5, h6⟩ := h3
        exact m1.trans (m2.trans ((pure_mono h3).trans
          ((resolveAux_mono body none (depth+1) s3 p s4 h4).trans
            ((unbindName_mono h5).trans (pure_mono h6)))))
      | none =>
        simp only [StateT_bind_some] at h3
        obtain ⟨d', s3, h3, p, s4, h4, u', s5, h5, h6⟩ := h3
        exact m1.trans (m2.trans ((freshHole_mono h3).trans
          ((resolveAux_mono body none (depth+1) s3 p s4 h4).trans
            ((unbindName_mono h5).trans (pure_mono h6)))))
  | .mk range g (.pi x imp dom cod) es, chain, depth, st, res, st', h => by
      unfold resolveAux at h
      simp only [StateT_bind_some] at h
      obtain ⟨p1, s1, h1, u, s2, h2, p3, s3, h3, u', s4, h4, h5⟩ := h
      exact (resolveAux_mono dom none depth st p1 s1 h1).trans ((bindName_mono h2).trans
        ((resolveAux_mono cod none (depth+1) s2 p3 s3 h3).trans
          ((unbindName_mono h4).trans (pure_mono h5))))
  | .mk range g (.app f a) es, chain, depth, st, res, st', h => by
      unfold resolveAux at h
      simp only [StateT_bind_some] at h
      obtain ⟨p1, s1, h1, p2, s2, h2, h3⟩ := h
      exact (resolveAux_mono f none depth st p1 s1 h1).trans
        ((resolveAux_mono a none depth s1 p2 s2 h2).trans (pure_mono h3))
  | .mk range g (.neg a) es, chain, depth, st, res, st', h => by
      unfold resolveAux at h
      simp only [StateT_bind_some] at h
      obtain ⟨p1, s1, h1, h3⟩ := h
      exact (resolveAux_mono a none depth st p1 s1 h1).trans (pure_mono h3)
  | .mk range g (.bin o a b) es, chain, depth, st, res, st', h => by
      unfold resolveAux at h
      simp only [StateT_bind_some] at h
      obtain ⟨p1, s1, h1, p2, s2, h2, h3⟩ := h
      exact (resolveAux_mono a none depth st p1 s1 h1).trans
        ((resolveAux_mono b none depth s1 p2 s2 h2).trans (pure_mono h3))
  | .mk range g (.ite c a b) es, chain, depth, st, res, st', h => by
      unfold resolveAux at h
      simp only [StateT_bind_some] at h
      obtain ⟨p0, s0, h0, p1, s1, h1, p2, s2, h2, h3⟩ := h
      exact (resolveAux_mono c none depth st p0 s0 h0).trans
        ((resolveAux_mono a none depth s0 p1 s1 h1).trans
        ((resolveAux_mono b none depth s1 p2 s2 h2).trans (pure_mono h3)))
  | .mk range g (.let_ x ann defn body) es, some (n, i), depth, st, res, st', h => by
      unfold resolveAux at h
      simp only [StateT_bind_some] at h
      obtain ⟨p0, s0, h0, p1, s1, h1, p2, s2, h2, h3⟩ := h
      exact (resolveAnnotation_mono ann n i depth st p0 s0 h0).trans
        ((resolveAux_mono defn none depth s0 p1 s1 h1).trans
        ((resolveAux_mono body (some (n, i+1)) depth s1 p2 s2 h2).trans (pure_mono h3)))
  | .mk range g (.let_ x ann defn body) es, none, depth, st, res, st', h => by
      unfold resolveAux at h
      simp only [StateT_bind_some] at h
      obtain ⟨u, sb, hb, p0, s0, h0, p1, s1, h1, p2, s2, h2, u', s3, h3, h4⟩ := h
      exact (bindDefinitions_mono _ _ _ _ _ _ hb).trans
        ((resolveAnnotation_mono ann _ 0 _ sb p0 s0 h0).trans
        ((resolveAux_mono defn none _ s0 p1 s1 h1).trans
        ((resolveAux_mono body _ _ s1 p2 s2 h2).trans
        ((unbindDefinitions_mono _ _ _ _ h3).trans (pure_mono h4)))))
theorem resolveOpt_mono : ∀ (o : OptSrc) (depth : Nat) (st : RState) (res : Option RTm)
    (st' : RState), resolveOpt o depth st = some (res, st') → RMono st st'
  | .none, depth, st, res, st', h => by
      unfold resolveOpt at h; exact pure_mono h
  | .some t, depth, st, res, st', h => by
      unfold resolveOpt at h
      simp only [StateT_bind_some] at h
      obtain ⟨p1, s1, h1, h3⟩ := h
      exact (resolveAux_mono t none depth st p1 s1 h1).trans (pure_mono h3)
theorem resolveAnnotation_mono : ∀ (o : OptSrc) (n i newDepth : Nat) (st : RState) (res : RTm)
    (st' : RState), resolveAnnotation o n i newDepth st = some (res, st') → RMono st st'
  | .none, n, i, depth, st, res, st', h => by
      unfold resolveAnnotation at h; exact freshHole_mono h
  | .some t, n, i, depth, st, res, st', h => by
      unfold resolveAnnotation at h
      simp only [StateT_bind_some] at h
      obtain ⟨p1, s1, h1, h3⟩ := h
      exact (resolveAux_mono t none depth st p1 s1 h1).trans (pure_mono h3)
end


/-- Errors only accumulate: if a composite run reported nothing, neither did its parts. -/
theorem RMono.split {a b c : RState} (h1 : RMono a b) (h2 : RMono b c)
    (h : c.errors = a.errors) : b.errors = a.errors ∧ c.errors = b.errors := by
  obtain ⟨e1, he1⟩ := h1.errs
  obtain ⟨e2, he2⟩ := h2.errs
  rw [he2, he1, List.append_assoc] at h
  have : e1 ++ e2 = [] := by simpa using h
  have h3 : e1 = [] ∧ e2 = [] := by simpa using this
  rw [he2, he1, h3.1, h3.2]; simp

theorem resolve_mono {t : Src} {depth : Nat} {st st' : RState} {r : RTm}
    (h : resolve t depth st = some (r, st')) : RMono st st' := by
  unfold resolve at h
  simp only [StateT_bind_some] at h
  obtain ⟨p1, s1, h1, h3⟩ := h
  exact (resolveAux_mono t none depth st p1 s1 h1).trans (pure_mono h3)

theorem pure_inv {α : Type} {a b : α} {st st' : RState}
    (h : (pure a : ResolveM α) st = some (b, st')) : a = b ∧ st = st' := by
  rwa [StateT_pure_some] at h

theorem RMono.len {a b : RState} (h : RMono a b) : a.errors.length ≤ b.errors.length := by
  obtain ⟨es, he⟩ := h.errs; rw [he]; simp

theorem RMono.eq_of_len {a b : RState} (h : RMono a b) (hl : b.errors.length ≤ a.errors.length) :
    b.errors = a.errors := by
  obtain ⟨es, he⟩ := h.errs
  rw [he] at hl ⊢
  have : es = [] := by
    cases es with
    | nil => rfl
    | cons x xs => simp at hl; omega
  simp [this]

theorem unbindName_inv {x : Name} {st st' : RState} {u : Unit}
    (h : unbindName x st = some (u, st')) : st' = { st with ctx := st.ctx.remove x } := by
  unfold unbindName at h
  simp only [Option.some.injEq, Prod.mk.injEq] at h
  exact h.2.symm

theorem freshHole_inv {r : Option SourceRange} {s : Nat} {st st' : RState} {t : RTm}
    (h : freshHole r s st = some (t, st')) :
    t = .mk r (.hole st.nextHole s) ∧ st' = { st with nextHole := st.nextHole + 1 } := by
  unfold freshHole at h
  simp only [Option.some.injEq, Prod.mk.injEq] at h
  exact ⟨h.1.symm, h.2.symm⟩


end PModel
