import GramModel.Oracle
import GramModel.Lemmas.DeBruijn

/-!
# Re-basing a context entry does not change the oracle's answers

An entry `(T, o)` at position `i` of a context stands for "`T` lifted by `i + 1 - o`".  The entry
`(ushift 0 k T, o + k)` stands for the same thing whenever `o + k ≤ i + 1`.  The relations `RebT` / `RebD`
say "the second context is the first with entry `i` re-based by `k`" pointwise on lookups, so that they are
stable under `cons` and under `pushGroupX` (the position moves outwards).  `whnfX`, `convX`, `inferX`,
`inferDefsX` give *equal* results (every fuel, every term, errors included).
-/

namespace Rebase

/-- re-base one entry by `k` -/
def rebE (k : Nat) (p : Tm × Nat) : Tm × Nat := (ushift 0 k p.1, p.2 + k)

/-- `Δ'` is `Δ` with entry `i` re-based by `k` (and that entry stays visible from position `i`) -/
structure RebD (i k : Nat) (Δ Δ' : DCtxX) : Prop where
  other : ∀ j, j ≠ i → Δ'[j]? = Δ[j]?
  here : Δ'[i]? = (Δ[i]?).map (Option.map (rebE k))
  ok : ∀ d o, Δ[i]? = some (some (d, o)) → o + k ≤ i + 1

/-- `Γ'` is `Γ` with entry `i` re-based by `k` -/
structure RebT (i k : Nat) (Γ Γ' : TCtxX) : Prop where
  other : ∀ j, j ≠ i → Γ'[j]? = Γ[j]?
  here : Γ'[i]? = (Γ[i]?).map (rebE k)
  ok : ∀ T o, Γ[i]? = some (T, o) → o + k ≤ i + 1

theorem RebD.cons {i k : Nat} {Δ Δ' : DCtxX} (h : RebD i k Δ Δ') (e : Option (Tm × Nat)) :
    RebD (i+1) k (e :: Δ) (e :: Δ') := by
  refine ⟨?_, ?_, ?_⟩
  · intro j hj
    cases j with
    | zero => rfl
    | succ j => simp only [List.getElem?_cons_succ]; exact h.other j (by omega)
  · simp only [List.getElem?_cons_succ]; exact h.here
  · intro d o hg
    simp only [List.getElem?_cons_succ] at hg
    have := h.ok d o hg; omega

theorem RebT.cons {i k : Nat} {Γ Γ' : TCtxX} (h : RebT i k Γ Γ') (e : Tm × Nat) :
    RebT (i+1) k (e :: Γ) (e :: Γ') := by
  refine ⟨?_, ?_, ?_⟩
  · intro j hj
    cases j with
    | zero => rfl
    | succ j => simp only [List.getElem?_cons_succ]; exact h.other j (by omega)
  · simp only [List.getElem?_cons_succ]; exact h.here
  · intro T o hg
    simp only [List.getElem?_cons_succ] at hg
    have := h.ok T o hg; omega

theorem pushGroupX_go_reb : ∀ (ds : Defs) (m i k : Nat) (Γ Γ' : TCtxX) (Δ Δ' : DCtxX),
    RebT i k Γ Γ' → RebD i k Δ Δ' →
    RebT (i + ds.len) k (pushGroupX.go ds m (Γ, Δ)).1 (pushGroupX.go ds m (Γ', Δ')).1 ∧
    RebD (i + ds.len) k (pushGroupX.go ds m (Γ, Δ)).2 (pushGroupX.go ds m (Γ', Δ')).2
  | .nil, m, i, k, Γ, Γ', Δ, Δ', hT, hD => by
      simp only [pushGroupX.go, Defs.len_nil, Nat.add_zero]; exact ⟨hT, hD⟩
  | .cons x a d r, m, i, k, Γ, Γ', Δ, Δ', hT, hD => by
      simp only [pushGroupX.go, Defs.len_cons]
      have ih := pushGroupX_go_reb r (m - 1) (i + 1) k _ _ _ _ (hT.cons (a, m)) (hD.cons (some (d, m)))
      rw [show i + 1 + r.len = i + (r.len + 1) by omega] at ih
      exact ih

theorem pushGroupX_reb (ds : Defs) (n i k : Nat) {Γ Γ' : TCtxX} {Δ Δ' : DCtxX}
    (hT : RebT i k Γ Γ') (hD : RebD i k Δ Δ') :
    RebT (i + ds.len) k (pushGroupX ds n (Γ, Δ)).1 (pushGroupX ds n (Γ', Δ')).1 ∧
    RebD (i + ds.len) k (pushGroupX ds n (Γ, Δ)).2 (pushGroupX ds n (Γ', Δ')).2 := by
  unfold pushGroupX
  exact pushGroupX_go_reb ds ds.len i k Γ Γ' Δ Δ' hT hD

/-! ## the normalizer -/

theorem whnfX_reb : ∀ (f i k : Nat) (Δ Δ' : DCtxX) (t : Tm), RebD i k Δ Δ' →
    whnfX f Δ' t = whnfX f Δ t := by
  intro f
  induction f with
  | zero => intro i k Δ Δ' t _; unfold whnfX; rfl
  | succ f ih =>
    intro i k Δ Δ' t h
    have ih' : ∀ u, whnfX f Δ' u = whnfX f Δ u := fun u => ih i k Δ Δ' u h
    cases t
    case var x j =>
      unfold whnfX
      simp only
      by_cases hj : j = i
      · subst hj
        rw [h.here]
        cases hg : Δ[j]? with
        | none => rfl
        | some e =>
          cases e with
          | none => rfl
          | some p =>
            obtain ⟨d, o⟩ := p
            have hk := h.ok d o hg
            simp only [Option.map_some, rebE, if_neg (show ¬ (j + 1 < o + k) by omega),
              if_neg (show ¬ (j + 1 < o) by omega)]
            rw [ushift_ushift, show j + 1 - (o + k) + k = j + 1 - o by omega]
            exact ih' _
      · rw [h.other j hj]
        simp only [ih']
    all_goals (unfold whnfX; simp only [ih'])

/-! ## the conversion check -/

theorem convX_reb : ∀ (f i k : Nat) (Δ Δ' : DCtxX) (a b : Tm), RebD i k Δ Δ' →
    convX f Δ' a b = convX f Δ a b := by
  intro f
  induction f with
  | zero => intro i k Δ Δ' a b _; unfold convX; rfl
  | succ f ih =>
    intro i k Δ Δ' a b h
    have ih0 : ∀ u v, convX f Δ' u v = convX f Δ u v := fun u v => ih i k Δ Δ' u v h
    have ih1 : ∀ u v, convX f (none :: Δ') u v = convX f (none :: Δ) u v :=
      fun u v => ih (i+1) k _ _ u v (h.cons none)
    have hw : ∀ u, whnfX f Δ' u = whnfX f Δ u := fun u => whnfX_reb f i k Δ Δ' u h
    unfold convX
    simp only [ih0, ih1, hw]

theorem isTypeX_reb {f i k : Nat} {Δ Δ' : DCtxX} (h : RebD i k Δ Δ') (ty : Tm) :
    isTypeX f Δ' ty = isTypeX f Δ ty := by
  unfold isTypeX; rw [convX_reb f i k Δ Δ' _ _ h]

theorem expectX_reb {f i k : Nat} {Δ Δ' : DCtxX} (h : RebD i k Δ Δ') (a b : Tm) (e : XErr) :
    expectX f Δ' a b e = expectX f Δ a b e := by
  unfold expectX; rw [convX_reb f i k Δ Δ' _ _ h]

/-! ## the checker -/

theorem inferX_reb_aux : ∀ (f : Nat),
    (∀ (i k : Nat) (Γ Γ' : TCtxX) (Δ Δ' : DCtxX) (t : Tm), RebT i k Γ Γ' → RebD i k Δ Δ' →
      inferX f Γ' Δ' t = inferX f Γ Δ t) ∧
    (∀ (i k : Nat) (Γ Γ' : TCtxX) (Δ Δ' : DCtxX) (ds : Defs), RebT i k Γ Γ' → RebD i k Δ Δ' →
      inferDefsX f Γ' Δ' ds = inferDefsX f Γ Δ ds) := by
  intro f
  induction f with
  | zero =>
    exact ⟨fun _ _ _ _ _ _ _ _ _ => by unfold inferX; rfl,
      fun _ _ _ _ _ _ _ _ _ => by unfold inferDefsX; rfl⟩
  | succ f ih =>
    obtain ⟨ih1, ih2⟩ := ih
    constructor
    · intro i k Γ Γ' Δ Δ' t hT hD
      have i0 : ∀ u, inferX f Γ' Δ' u = inferX f Γ Δ u := fun u => ih1 i k _ _ _ _ u hT hD
      have i1 : ∀ e u, inferX f (e :: Γ') (none :: Δ') u = inferX f (e :: Γ) (none :: Δ) u :=
        fun e u => ih1 (i+1) k _ _ _ _ u (hT.cons e) (hD.cons none)
      have hw : ∀ u, whnfX f Δ' u = whnfX f Δ u := fun u => whnfX_reb f i k Δ Δ' u hD
      have ht0 : ∀ u, isTypeX f Δ' u = isTypeX f Δ u := fun u => isTypeX_reb hD u
      have ht1 : ∀ u, isTypeX f (none :: Δ') u = isTypeX f (none :: Δ) u :=
        fun u => isTypeX_reb (hD.cons none) u
      have he : ∀ a b e, expectX f Δ' a b e = expectX f Δ a b e := fun a b e => expectX_reb hD a b e
      cases t
      case var x j =>
        unfold inferX
        simp only
        by_cases hj : j = i
        · subst hj
          rw [hT.here]
          cases hg : Γ[j]? with
          | none => rfl
          | some p =>
            obtain ⟨T, o⟩ := p
            have hk := hT.ok T o hg
            simp only [Option.map_some, rebE, if_neg (show ¬ (j + 1 < o + k) by omega),
              if_neg (show ¬ (j + 1 < o) by omega)]
            rw [ushift_ushift, show j + 1 - (o + k) + k = j + 1 - o by omega]
        · rw [hT.other j hj]
      case letg ds body =>
        obtain ⟨hT', hD'⟩ := pushGroupX_reb ds 0 i k hT hD
        unfold inferX
        simp only
        rw [ih2 _ k _ _ _ _ ds hT' hD', ih1 _ k _ _ _ _ body hT' hD']
      all_goals (unfold inferX; simp only [i0, i1, hw, ht0, ht1, he])
    · intro i k Γ Γ' Δ Δ' ds hT hD
      unfold inferDefsX
      simp only [ih1 i k _ _ _ _ _ hT hD, ih2 i k _ _ _ _ _ hT hD, isTypeX_reb hD, expectX_reb hD]

theorem inferX_reb {f i k : Nat} {Γ Γ' : TCtxX} {Δ Δ' : DCtxX} (hT : RebT i k Γ Γ')
    (hD : RebD i k Δ Δ') (t : Tm) : inferX f Γ' Δ' t = inferX f Γ Δ t :=
  (inferX_reb_aux f).1 i k Γ Γ' Δ Δ' t hT hD

theorem inferDefsX_reb {f i k : Nat} {Γ Γ' : TCtxX} {Δ Δ' : DCtxX} (hT : RebT i k Γ Γ')
    (hD : RebD i k Δ Δ') (ds : Defs) : inferDefsX f Γ' Δ' ds = inferDefsX f Γ Δ ds :=
  (inferX_reb_aux f).2 i k Γ Γ' Δ Δ' ds hT hD

/-! ## the `mapIdx` presentation -/

theorem RebT.mapIdx (Γ : TCtxX) (i k : Nat) (h : ∀ T o, Γ[i]? = some (T, o) → o + k ≤ i + 1) :
    RebT i k Γ (List.mapIdx (fun j (e : Tm × Nat) => if j = i then (ushift 0 k e.1, e.2 + k) else e) Γ) := by
  refine ⟨?_, ?_, h⟩
  · intro j hj
    rw [List.getElem?_mapIdx]
    simp only [if_neg hj]
    cases Γ[j]? <;> rfl
  · rw [List.getElem?_mapIdx]
    simp only [if_true]
    rfl

theorem RebD.mapIdx (Δ : DCtxX) (i k : Nat) (h : ∀ d o, Δ[i]? = some (some (d, o)) → o + k ≤ i + 1) :
    RebD i k Δ (List.mapIdx (fun j (e : Option (Tm × Nat)) =>
      if j = i then e.map (fun p => (ushift 0 k p.1, p.2 + k)) else e) Δ) := by
  refine ⟨?_, ?_, h⟩
  · intro j hj
    rw [List.getElem?_mapIdx]
    simp only [if_neg hj]
    cases Δ[j]? <;> rfl
  · rw [List.getElem?_mapIdx]
    simp only [if_true]
    rfl

end Rebase
