import GramModel.Lemmas.ParsePrinted

/-! # Completeness of the parser model on printed terms, part 2: the expected tree, the token layout
of a printed term, and the lifting lemmas through the precedence levels -/

namespace PModel
open PrintDerives

/-! ## Shapes: a surface tree without its ranges -/

mutual
/-- forget every source range (node ranges and binder ranges); keep `group` flags and error lists -/
def shape : Src → Src
  | .mk _ g v es => .mk ⟨0, 0⟩ g (shapeV v) es
def shapeV : SrcV → SrcV
  | .parseError => .parseError
  | .type => .type
  | .var x => .var x
  | .lam v imp dom body => .lam ⟨⟨0, 0⟩, v.name⟩ imp (shapeO dom) (shape body)
  | .pi v imp dom cod => .pi ⟨⟨0, 0⟩, v.name⟩ imp (shape dom) (shape cod)
  | .app f a => .app (shape f) (shape a)
  | .let_ v ann d b => .let_ ⟨⟨0, 0⟩, v.name⟩ (shapeO ann) (shape d) (shape b)
  | .int => .int
  | .lit n => .lit n
  | .neg a => .neg (shape a)
  | .bin o a b => .bin o (shape a) (shape b)
  | .bool => .bool
  | .tt => .tt
  | .ff => .ff
  | .ite c t e => .ite (shape c) (shape t) (shape e)
def shapeO : OptSrc → OptSrc
  | .none => .none
  | .some t => .some (shape t)
end

theorem shape_pe (t : Src) : (shape t).isParseError = t.isParseError := by
  obtain ⟨r, g, v, es⟩ := t
  cases v <;> simp [shape, shapeV, Src.isParseError, Src.variant, SrcV.isParseError]

mutual
theorem collectErrors_shape : ∀ t : Src, collectErrors (shape t) = collectErrors t
  | .mk r g v es => by
    cases v with
    | lam v imp dom body =>
      simp [shape, shapeV, collectErrors, collectErrors_shape body, collectErrorsOpt_shape dom]
    | pi v imp dom cod =>
      simp [shape, shapeV, collectErrors, collectErrors_shape dom, collectErrors_shape cod]
    | app f a => simp [shape, shapeV, collectErrors, collectErrors_shape f, collectErrors_shape a]
    | let_ v ann d b =>
      simp [shape, shapeV, collectErrors, collectErrors_shape d, collectErrors_shape b,
        collectErrorsOpt_shape ann]
    | neg a => simp [shape, shapeV, collectErrors, collectErrors_shape a]
    | bin o a b => simp [shape, shapeV, collectErrors, collectErrors_shape a, collectErrors_shape b]
    | ite c t e =>
      simp [shape, shapeV, collectErrors, collectErrors_shape c, collectErrors_shape t,
        collectErrors_shape e]
    | _ => simp [shape, shapeV, collectErrors]
theorem collectErrorsOpt_shape : ∀ o : OptSrc, collectErrorsOpt (shapeO o) = collectErrorsOpt o
  | .none => by simp [shapeO, collectErrorsOpt]
  | .some t => by simp [shapeO, collectErrorsOpt, collectErrors_shape t]
end

/-- a node without range and without errors -/
def mk0 (g : Bool) (v : SrcV) : Src := .mk ⟨0, 0⟩ g v []

/-- set the `group` flag -/
def setG : Src → Src
  | .mk r _ v es => .mk r true v es

/-- a right-nested application chain -/
def nestL : List Src → Src
  | [] => mk0 false .parseError
  | [e] => e
  | e :: e' :: l => mk0 false (.app e (nestL (e' :: l)))

/-! ## The tree the parser is expected to build for a printed term -/

section Expected
variable (I : List Char → Name) (nm : Name → List Char)

mutual
/-- the tree (as a shape) of the printed term: names are the printed names, λ domains the printed
annotations, parenthesised operands are flagged `group`, application chains are right-nested (as the
packrat functions build them, before re-association) -/
def srcOf : Tm → Src
  | .hole _ _ => mk0 false (.var (I holeText))
  | .type => mk0 false .type
  | .int => mk0 false .int
  | .bool => mk0 false .bool
  | .tt => mk0 false .tt
  | .ff => mk0 false .ff
  | .lit n => mk0 false (.lit n)
  | .var x _ => mk0 false (.var (I (nm x)))
  | .lam x imp d b =>
      mk0 false (.lam ⟨⟨0, 0⟩, I (nm x)⟩ imp
        (.some (if isLet d then setG (srcOf d) else srcOf d)) (srcOf b))
  | .pi x imp d c =>
      if freeAt c 0 then
        mk0 false (.pi ⟨⟨0, 0⟩, I (nm x)⟩ imp (if isLet d then setG (srcOf d) else srcOf d) (srcOf c))
      else
        mk0 false (.pi ⟨⟨0, 0⟩, placeholder⟩ false
          (nestL (if isApp d then atomsOf d else [if atomic d then srcOf d else setG (srcOf d)]))
          (srcOf c))
  | .app f a =>
      nestL ((if isApp f then atomsOf f else [if atomic f then srcOf f else setG (srcOf f)]) ++
        [if atomic a then srcOf a else setG (srcOf a)])
  | .letg ds b => srcDefs ds (srcOf b)
  | .neg a => mk0 false (.neg (if atomic a then srcOf a else setG (srcOf a)))
  | .bin op a b =>
      mk0 false (.bin op (if atomic a then srcOf a else setG (srcOf a))
        (if atomic b then srcOf b else setG (srcOf b)))
  | .ite c a b => mk0 false (.ite (srcOf c) (srcOf a) (srcOf b))
/-- the atoms of a printed application chain -/
def atomsOf : Tm → List Src
  | .app f a =>
      (if isApp f then atomsOf f else [if atomic f then srcOf f else setG (srcOf f)]) ++
        [if atomic a then srcOf a else setG (srcOf a)]
  | _ => []
/-- nested `let`s, one per definition of the group -/
def srcDefs : Defs → Src → Src
  | .nil, body => body
  | .cons x a d r, body =>
      mk0 false (.let_ ⟨⟨0, 0⟩, I (nm x)⟩ (.some (if atomic a then srcOf a else setG (srcOf a)))
        (if atomic d then srcOf d else setG (srcOf d)) (srcDefs r body))
end

/-- the tree of an operand printed by `group` -/
def grpS (t : Tm) : Src := if atomic t then srcOf I nm t else setG (srcOf I nm t)
/-- the atoms of an application head / arrow domain -/
def headAtoms (t : Tm) : List Src := if isApp t then atomsOf I nm t else [grpS I nm t]
/-- the tree of a binder annotation -/
def annS (t : Tm) : Src := if isLet t then setG (srcOf I nm t) else srcOf I nm t

theorem srcOf_app (f a : Tm) :
    srcOf I nm (.app f a) = nestL (headAtoms I nm f ++ [grpS I nm a]) := by
  rw [srcOf]; rfl
theorem atomsOf_app (f a : Tm) :
    atomsOf I nm (.app f a) = headAtoms I nm f ++ [grpS I nm a] := by
  rw [atomsOf]; rfl
theorem srcOf_isApp {t : Tm} (h : isApp t = true) : srcOf I nm t = nestL (atomsOf I nm t) := by
  cases t <;> simp [isApp] at h
  rw [srcOf_app, atomsOf_app]

end Expected

/-! ## Token kinds of the printed term, as parser token kinds -/

/-- a tokenizer kind as a parser kind; `I` interns identifier spellings -/
def kindP (I : List Char → Name) : TokKind → PKind
  | .asterisk => .asterisk | .boolean => .boolean | .colon => .colon | .doubleEquals => .doubleEquals
  | .else_ => .else_ | .equals => .equals | .false_ => .false_ | .greaterThan => .greaterThan
  | .greaterThanOrEqualTo => .greaterThanOrEqualTo | .identifier s => .identifier (I s)
  | .if_ => .if_ | .integer => .integer | .integerLiteral n => .integerLiteral n
  | .leftCurly => .leftCurly | .leftParen => .leftParen | .lessThan => .lessThan
  | .lessThanOrEqualTo => .lessThanOrEqualTo | .minus => .minus | .plus => .plus
  | .rightCurly => .rightCurly | .rightParen => .rightParen | .slash => .slash
  | .terminatorLineBreak => .terminator .lineBreak | .terminatorSemicolon => .terminator .semicolon
  | .then_ => .then_ | .thickArrow => .thickArrow | .thinArrow => .thinArrow | .true_ => .true_
  | .type_ => .type_

section Kinds
variable (I : List Char → Name) (nm : Name → List Char)

def kP (l : List Item) : List PKind := l.map (fun i => kindP I i.2.1)

@[simp] theorem kP_nil : kP I [] = [] := rfl
@[simp] theorem kP_tk (s k r) : kP I (tk s k :: r) = kindP I k :: kP I r := rfl
@[simp] theorem kP_tkS (s k r) : kP I (tkS s k :: r) = kindP I k :: kP I r := rfl
@[simp] theorem kP_append (l r : List Item) : kP I (l ++ r) = kP I l ++ kP I r := by simp [kP]
@[simp] theorem kP_spaced : ∀ l : List Item, kP I (spaced l) = kP I l
  | [] => rfl
  | [(_, _, _)] => rfl
  | x :: y :: r => by
      have ih := kP_spaced (y :: r)
      simp only [spaced, kP, List.map_cons] at ih ⊢
      rw [ih]

/-- the parser token kinds of the printed term -/
def pk (t : Tm) : List PKind := kP I (printItems nm t)
def pkDefs (ds : Defs) : List PKind := kP I (printDefsItems nm ds)
def groupK (t : Tm) : List PKind := kP I (wrapGroupI t (printItems nm t))
def headK (t : Tm) : List PKind := kP I (wrapHeadI t (printItems nm t))
def annotK (t : Tm) : List PKind := kP I (wrapAnnotI t (printItems nm t))

theorem pk_eq (t : Tm) : pk I nm t = (printKinds nm t).map (kindP I) := by
  simp [pk, kP, printKinds, kindsOf]

theorem kP_parenI (l : List Item) : kP I (parenI l) = .leftParen :: (kP I l ++ [.rightParen]) := by
  simp [parenI, kindP]

theorem groupK_eq (t : Tm) :
    groupK I nm t = if atomic t then pk I nm t else .leftParen :: (pk I nm t ++ [.rightParen]) := by
  unfold groupK wrapGroupI pk
  split <;> simp [kP_parenI]

theorem headK_eq (t : Tm) : headK I nm t = if isApp t then pk I nm t else groupK I nm t := by
  cases t <;> simp [headK, wrapHeadI, isApp, pk, groupK]

theorem annotK_eq (t : Tm) :
    annotK I nm t = if isLet t then .leftParen :: (pk I nm t ++ [.rightParen]) else pk I nm t := by
  cases t <;> simp [annotK, wrapAnnotI, isLet, pk, kP_parenI]

def opKindP (op : BinOp) : PKind := kindP I (opKind op)

theorem pk_hole (i s) : pk I nm (.hole i s) = [.identifier (I holeText)] := rfl
theorem pk_type : pk I nm .type = [.type_] := rfl
theorem pk_int : pk I nm .int = [.integer] := rfl
theorem pk_bool : pk I nm .bool = [.boolean] := rfl
theorem pk_tt : pk I nm .tt = [.true_] := rfl
theorem pk_ff : pk I nm .ff = [.false_] := rfl
theorem pk_var (x i) : pk I nm (.var x i) = [.identifier (I (nm x))] := rfl
theorem pk_lit (n : Nat) : pk I nm (.lit (.ofNat n)) = [.integerLiteral n] := rfl

theorem pk_lam (x d b) (imp : Bool) :
    pk I nm (.lam x imp d b) =
      (if imp then .leftCurly else .leftParen) :: .identifier (I (nm x)) :: .colon ::
        (annotK I nm d ++ (if imp then .rightCurly else .rightParen) :: .thickArrow :: pk I nm b) := by
  cases imp <;> simp [pk, printItems, lamItems, annotK, kindP]

theorem pk_pi_dep (x d c) (imp : Bool) (h : freeAt c 0 = true) :
    pk I nm (.pi x imp d c) =
      (if imp then .leftCurly else .leftParen) :: .identifier (I (nm x)) :: .colon ::
        (annotK I nm d ++ (if imp then .rightCurly else .rightParen) :: .thinArrow :: pk I nm c) := by
  cases imp <;> simp [pk, printItems, h, piDepItems, annotK, kindP]

theorem pk_arrow (x d c) (h : freeAt c 0 = false) :
    pk I nm (.pi x false d c) = headK I nm d ++ .thinArrow :: pk I nm c := by
  simp [pk, printItems, h, arrowItems, headK, kindP]

theorem pk_app (f a) : pk I nm (.app f a) = headK I nm f ++ groupK I nm a := by
  simp [pk, printItems, appItems, headK, groupK]

theorem pk_neg (a) : pk I nm (.neg a) = .minus :: groupK I nm a := by
  simp [pk, printItems, negItems, groupK, kindP]

theorem pk_bin (op a b) :
    pk I nm (.bin op a b) = groupK I nm a ++ opKindP I op :: groupK I nm b := by
  simp [pk, printItems, binItems, groupK, opKindP]

theorem pk_ite (c a b) :
    pk I nm (.ite c a b) = .if_ :: (pk I nm c ++ .then_ :: (pk I nm a ++ .else_ :: pk I nm b)) := by
  simp [pk, printItems, iteItems, kindP]

theorem pk_letg (ds b) : pk I nm (.letg ds b) = pkDefs I nm ds ++ pk I nm b := by
  simp [pk, printItems, pkDefs]

theorem pkDefs_nil : pkDefs I nm .nil = [] := rfl

theorem pkDefs_cons (x a d r) :
    pkDefs I nm (.cons x a d r) = .identifier (I (nm x)) :: .colon :: (groupK I nm a ++ .equals ::
      (groupK I nm d ++ .terminator .semicolon :: pkDefs I nm r)) := by
  simp [pkDefs, printDefsItems, defItems, groupK, kindP]

end Kinds

/-! ## Token segments -/

/-- the tokens from position `a` on have the kinds `ks` -/
def Sub (toks : Array PTok) : Nat → List PKind → Prop
  | _, [] => True
  | a, k :: ks => KAt toks a k ∧ Sub toks (a + 1) ks

theorem Sub_append {toks : Array PTok} : ∀ (k1 k2 : List PKind) (a : Nat),
    Sub toks a (k1 ++ k2) ↔ Sub toks a k1 ∧ Sub toks (a + k1.length) k2
  | [], k2, a => by simp [Sub]
  | k :: k1, k2, a => by
    simp only [List.cons_append, Sub, List.length_cons, Sub_append k1 k2 (a + 1)]
    rw [show a + 1 + k1.length = a + (k1.length + 1) by omega]
    exact and_assoc.symm

theorem Sub_of_kinds {toks : Array PTok} {ks : List PKind} (h : toks.toList.map (·.kind) = ks) :
    Sub toks 0 ks ∧ toks.size = ks.length := by
  have hlen : toks.size = ks.length := by rw [← h]; simp
  refine ⟨?_, hlen⟩
  have : ∀ (l : List PKind) (a : Nat), (∀ i (hi : i < l.length), KAt toks (a + i) l[i]) →
      Sub toks a l := by
    intro l
    induction l with
    | nil => intro a _; trivial
    | cons k l ih =>
      intro a hl
      refine ⟨hl 0 (by simp), ih (a + 1) (fun i hi => ?_)⟩
      have := hl (i + 1) (by simp; omega)
      simpa [Nat.add_assoc, Nat.add_comm 1 i] using this
  refine this ks 0 (fun i hi => ?_)
  subst h
  simp only [List.length_map, Array.length_toList] at hi
  exact ⟨by simpa using hi, by simp⟩

end PModel
