import GramModel.Check
import GramModel.Lemmas.StoreMono
import GramModel.Lemmas.Whnf
import GramModel.Lemmas.UnifySound

/-!
# The occurs check keeps the hole store acyclic (C12)

* `holesOf t` : the cell ids written in `t` (not following cells).
* `Edge σ i j` : cell `i` is solved and its solution mentions `j`;  `Reaches σ` : its transitive closure;
  `ReachT σ t j` : `j` is mentioned by `t` or reachable from a cell mentioned by `t`.
* `Acyclic σ := ∀ i, ¬ Reaches σ i i`;  `Terminating σ := ∀ i, Acc (flip (Edge σ)) i` (no infinite chain of
  solved cells; implies `Acyclic`, and is what `zonk` needs);  `acyclicB` : executable checker.
* `Guarded σ σ'` : `σ'` is obtained from `σ` by allocating fresh empty cells and by *guarded assignments*
  `id := sol` (`id` empty, every cell mentioned by `sol` empty and different from `id`).
* `unifyS_guarded` : every run of `unifyS` is `Guarded`; hence it preserves `Acyclic` and `Terminating`.
-/

namespace UnifyAcyclic

open StoreMono

/-! ## Cells mentioned by a term -/

mutual
def holesOf : Tm → List Nat
  | .hole id _ => [id]
  | .lam _ _ d b => holesOf d ++ holesOf b
  | .pi _ _ d b => holesOf d ++ holesOf b
  | .app g a => holesOf g ++ holesOf a
  | .letg ds b => holesOfDefs ds ++ holesOf b
  | .neg a => holesOf a
  | .bin _ a b => holesOf a ++ holesOf b
  | .ite c a b => holesOf c ++ (holesOf a ++ holesOf b)
  | _ => []
def holesOfDefs : Defs → List Nat
  | .nil => []
  | .cons _ a d r => holesOf a ++ (holesOf d ++ holesOfDefs r)
end

/-- cell `i` is solved and its solution mentions cell `j` -/
def Edge (σ : List (Option Tm)) (i j : Nat) : Prop := ∃ t, σ[i]? = some (some t) ∧ j ∈ holesOf t

/-- transitive closure of `Edge` -/
inductive Reaches (σ : List (Option Tm)) : Nat → Nat → Prop
  | edge {i j} : Edge σ i j → Reaches σ i j
  | cons {i k j} : Edge σ i k → Reaches σ k j → Reaches σ i j

/-- `j` is one of the cells of `l` or reachable from one -/
def ReachL (σ : List (Option Tm)) (l : List Nat) (j : Nat) : Prop := j ∈ l ∨ ∃ k ∈ l, Reaches σ k j

/-- `j` is mentioned by `t`, directly or through solved cells -/
def ReachT (σ : List (Option Tm)) (t : Tm) (j : Nat) : Prop := ReachL σ (holesOf t) j
def ReachD (σ : List (Option Tm)) (ds : Defs) (j : Nat) : Prop := ReachL σ (holesOfDefs ds) j

/-- no cell reaches itself -/
def Acyclic (σ : List (Option Tm)) : Prop := ∀ i, ¬ Reaches σ i i

/-- no infinite chain `i₀ → i₁ → …` of solved cells each mentioning the next -/
def Terminating (σ : List (Option Tm)) : Prop := ∀ i, Acc (fun j i => Edge σ i j) i

variable {σ : List (Option Tm)}

theorem Reaches.snoc {i k j} (h : Reaches σ i k) (e : Edge σ k j) : Reaches σ i j := by
  induction h with
  | edge e1 => exact .cons e1 (.edge e)
  | cons e1 _ ih => exact .cons e1 (ih e)

theorem Reaches.trans {i k j} (h : Reaches σ i k) (h2 : Reaches σ k j) : Reaches σ i j := by
  induction h with
  | edge e1 => exact .cons e1 h2
  | cons e1 _ ih => exact .cons e1 (ih h2)

theorem Reaches.solved {i j} (h : Reaches σ i j) : ∃ t, σ[i]? = some (some t) := by
  cases h with
  | edge e => exact ⟨_, e.choose_spec.1⟩
  | cons e _ => exact ⟨_, e.choose_spec.1⟩

theorem empty_no_edge {i j} (he : Empty σ i) : ¬ Edge σ i j := fun ⟨t, h, _⟩ => he t h
theorem empty_no_reach {i j} (he : Empty σ i) : ¬ Reaches σ i j := fun h =>
  let ⟨t, ht⟩ := h.solved; he t ht

theorem ReachL_nil {j} : ReachL σ [] j ↔ False := by simp [ReachL]
theorem ReachL_single {k j} : ReachL σ [k] j ↔ j = k ∨ Reaches σ k j := by simp [ReachL]
theorem ReachL_append {a b : List Nat} {j} : ReachL σ (a ++ b) j ↔ ReachL σ a j ∨ ReachL σ b j := by
  simp only [ReachL, List.mem_append]
  constructor
  · rintro ((h | h) | ⟨k, hk | hk, hr⟩)
    · exact .inl (.inl h)
    · exact .inr (.inl h)
    · exact .inl (.inr ⟨k, hk, hr⟩)
    · exact .inr (.inr ⟨k, hk, hr⟩)
  · rintro ((h | ⟨k, hk, hr⟩) | (h | ⟨k, hk, hr⟩))
    · exact .inl (.inl h)
    · exact .inr ⟨k, .inl hk, hr⟩
    · exact .inl (.inr h)
    · exact .inr ⟨k, .inr hk, hr⟩

theorem ReachL_mono {a b : List Nat} {j} (h : ∀ k ∈ a, k ∈ b) (hr : ReachL σ a j) : ReachL σ b j := by
  rcases hr with hr | ⟨k, hk, hr⟩
  · exact .inl (h _ hr)
  · exact .inr ⟨k, h _ hk, hr⟩

/-- through empty cells nothing more is reached -/
theorem ReachL_empty {l : List Nat} {j} (he : ∀ k ∈ l, Empty σ k) : ReachL σ l j ↔ j ∈ l := by
  constructor
  · rintro (h | ⟨k, hk, hr⟩)
    · exact h
    · exact absurd hr (empty_no_reach (he k hk))
  · exact .inl

/-- one step of reachability: a solved cell reaches what its solution reaches -/
theorem Reaches_iff {k j} : Reaches σ k j ↔ ∃ sub, σ[k]? = some (some sub) ∧ ReachT σ sub j := by
  constructor
  · intro h
    cases h with
    | edge e => obtain ⟨t, h1, h2⟩ := e; exact ⟨t, h1, .inl h2⟩
    | cons e r => obtain ⟨t, h1, h2⟩ := e; exact ⟨t, h1, .inr ⟨_, h2, r⟩⟩
  · rintro ⟨sub, h1, h2 | ⟨m, hm, hr⟩⟩
    · exact .edge ⟨sub, h1, h2⟩
    · exact .cons ⟨sub, h1, hm⟩ hr

theorem ReachT_hole_solved {k s j sub} (h : σ[k]? = some (some sub)) (he : Empty σ j) :
    ReachT σ (.hole k s) j ↔ ReachT σ sub j := by
  unfold ReachT
  rw [holesOf, ReachL_single, Reaches_iff]
  constructor
  · rintro (rfl | ⟨sub', h', hr⟩)
    · exact absurd h (he sub)
    · rw [h] at h'; cases h'; exact hr
  · intro hr; exact .inr ⟨sub, h, hr⟩

/-! ## `Terminating` implies `Acyclic` -/

theorem Acc.not_reaches {i} (h : Acc (fun j i => Edge σ i j) i) : ¬ Reaches σ i i := by
  induction h with
  | intro i _ ih =>
    intro hr
    cases hr with
    | edge e => exact ih _ e (.edge e)
    | cons e r => exact ih _ e (r.snoc e)

theorem Terminating.acyclic (h : Terminating σ) : Acyclic σ := fun i => Acc.not_reaches (h i)

/-! ## Guarded store evolution -/

/-- `σ'` comes from `σ` by allocations of empty cells and guarded assignments -/
inductive Guarded : List (Option Tm) → List (Option Tm) → Prop
  | refl (a) : Guarded a a
  | fresh {a b} : Guarded a b → Guarded a (b ++ [none])
  | assign {a b id sol} : Guarded a b → Empty b id →
      (∀ j ∈ holesOf sol, Empty b j ∧ j ≠ id) → Guarded a (b.set id (some sol))

theorem Guarded.trans {a b c} (h1 : Guarded a b) (h2 : Guarded b c) : Guarded a c := by
  induction h2 with
  | refl => exact h1
  | fresh _ ih => exact .fresh ih
  | assign _ he hs ih => exact .assign ih he hs

theorem Guarded.replicate (σ : List (Option Tm)) : ∀ k, Guarded σ (σ ++ List.replicate k none)
  | 0 => by simpa using Guarded.refl σ
  | k+1 => by
    rw [List.replicate_succ', ← List.append_assoc]
    exact .fresh (Guarded.replicate σ k)

/-! ### edges after one step -/

theorem edge_fresh {i j} : Edge (σ ++ [none]) i j ↔ Edge σ i j := by
  unfold Edge
  constructor
  · rintro ⟨t, h, hj⟩
    refine ⟨t, ?_, hj⟩
    rcases Nat.lt_or_ge i σ.length with hl | hl
    · rwa [List.getElem?_append_left hl] at h
    · rw [List.getElem?_append_right hl] at h
      rcases hi : i - σ.length with _ | n
      · rw [hi] at h; simp at h
      · rw [hi] at h; simp at h
  · rintro ⟨t, h, hj⟩
    refine ⟨t, ?_, hj⟩
    have hl : i < σ.length := by
      rcases Nat.lt_or_ge i σ.length with hl | hl
      · exact hl
      · rw [List.getElem?_eq_none hl] at h; cases h
    rwa [List.getElem?_append_left hl]

theorem edge_set {id sol i j} (h : Edge (σ.set id (some sol)) i j) :
    (i = id ∧ j ∈ holesOf sol) ∨ (i ≠ id ∧ Edge σ i j) := by
  obtain ⟨t, h, hj⟩ := h
  rw [List.getElem?_set] at h
  split at h
  · next e =>
    subst e
    split at h
    · cases h; exact .inl ⟨rfl, hj⟩
    · cases h
  · next e => exact .inr ⟨fun e' => e e'.symm, t, h, hj⟩

theorem empty_set {id sol j} (he : Empty σ j) (hne : j ≠ id) : Empty (σ.set id (some sol)) j := by
  intro t h
  rw [List.getElem?_set, if_neg (fun e => hne e.symm)] at h
  exact he t h

/-! ### `Acyclic` is preserved -/

theorem reaches_fresh {i j} : Reaches (σ ++ [none]) i j ↔ Reaches σ i j := by
  constructor
  · intro h
    induction h with
    | edge e => exact .edge (edge_fresh.1 e)
    | cons e _ ih => exact .cons (edge_fresh.1 e) ih
  · intro h
    induction h with
    | edge e => exact .edge (edge_fresh.2 e)
    | cons e _ ih => exact .cons (edge_fresh.2 e) ih

theorem reaches_set {id sol i k} (hs : ∀ j ∈ holesOf sol, Empty σ j ∧ j ≠ id)
    (h : Reaches (σ.set id (some sol)) i k) :
    Reaches σ i k ∨ ((i = id ∨ Reaches σ i id) ∧ k ∈ holesOf sol) := by
  induction h with
  | edge e =>
    rcases edge_set e with ⟨rfl, hj⟩ | ⟨_, e'⟩
    · exact .inr ⟨.inl rfl, hj⟩
    · exact .inl (.edge e')
  | @cons i m k e r ih =>
    rcases edge_set e with ⟨rfl, hm⟩ | ⟨hne, e'⟩
    · -- `m` is empty and stays so: nothing is reached from it
      exact absurd r (empty_no_reach (empty_set (hs m hm).1 (hs m hm).2))
    · rcases ih with ih | ⟨rfl | ih, hk⟩
      · exact .inl (.cons e' ih)
      · exact .inr ⟨.inr (.edge e'), hk⟩
      · exact .inr ⟨.inr (.cons e' ih), hk⟩

theorem Acyclic.fresh (h : Acyclic σ) : Acyclic (σ ++ [none]) := fun i hr => h i (reaches_fresh.1 hr)

theorem Acyclic.assign {id sol} (h : Acyclic σ) (hs : ∀ j ∈ holesOf sol, Empty σ j ∧ j ≠ id) :
    Acyclic (σ.set id (some sol)) := by
  intro i hr
  rcases reaches_set hs hr with hr | ⟨rfl | hr, hi⟩
  · exact h i hr
  · exact (hs i hi).2 rfl
  · exact empty_no_reach (hs i hi).1 hr

theorem Guarded.acyclic {σ σ'} (h : Guarded σ σ') (ha : Acyclic σ) : Acyclic σ' := by
  induction h with
  | refl => exact ha
  | fresh _ ih => exact ih.fresh
  | assign _ _ hs ih => exact ih.assign hs

/-! ### `Terminating` is preserved -/

theorem Terminating.fresh (h : Terminating σ) : Terminating (σ ++ [none]) := by
  intro i
  induction h i with
  | intro i _ ih => exact ⟨i, fun j e => ih j (edge_fresh.1 e)⟩

theorem Terminating.assign {id sol} (h : Terminating σ) (hs : ∀ j ∈ holesOf sol, Empty σ j ∧ j ≠ id) :
    Terminating (σ.set id (some sol)) := by
  have hE : ∀ j, Empty σ j → j ≠ id → Acc (fun j i => Edge (σ.set id (some sol)) i j) j :=
    fun j he hne => ⟨j, fun k e => absurd e (empty_no_edge (empty_set he hne))⟩
  have hid : Acc (fun j i => Edge (σ.set id (some sol)) i j) id := by
    refine ⟨id, fun k e => ?_⟩
    rcases edge_set e with ⟨_, hk⟩ | ⟨hne, _⟩
    · exact hE k (hs k hk).1 (hs k hk).2
    · exact absurd rfl hne
  intro i
  induction h i with
  | intro i _ ih =>
    refine ⟨i, fun j e => ?_⟩
    rcases edge_set e with ⟨_, hj⟩ | ⟨_, e'⟩
    · exact hE j (hs j hj).1 (hs j hj).2
    · exact ih j e'

theorem Guarded.terminating {σ σ'} (h : Guarded σ σ') (ha : Terminating σ) : Terminating σ' := by
  induction h with
  | refl => exact ha
  | fresh _ ih => exact ih.fresh
  | assign _ _ hs ih => exact ih.assign hs

theorem Guarded.storeLe {σ σ'} (h : Guarded σ σ') : StoreLe σ σ' := by
  induction h with
  | refl => exact ⟨Nat.le_refl _, fun _ _ h => h⟩
  | @fresh σ' _ ih =>
    refine ⟨by have := ih.1; simp; omega, fun id t h => ?_⟩
    have h' := ih.2 id t h
    have hl : id < σ'.length := by
      rcases Nat.lt_or_ge id σ'.length with hl | hl
      · exact hl
      · rw [List.getElem?_eq_none hl] at h'; cases h'
    rwa [List.getElem?_append_left hl]
  | @assign _ _ sol _ he _ ih =>
    have := StoreLe_set sol he
    exact ⟨Nat.le_trans ih.1 this.1, fun id t h => this.2 id t (ih.2 id t h)⟩


/-! ## `signed_shift`, the occurs check: what they read from the store -/

theorem sshiftS_same : ∀ f,
    (∀ c amt t, Preserves (fun s s' => s' = s) (sshiftS f c amt t)) ∧
    (∀ c amt ds, Preserves (fun s s' => s' = s) (sshiftDefsS f c amt ds)) := by
  intro f
  induction f with
  | zero =>
    constructor
    · intros; rw [sshiftS]; exact Preserves.outOfFuel
    · intros; rw [sshiftDefsS]; exact Preserves.outOfFuel
  | succ f ih =>
    obtain ⟨ih1, ih2⟩ := ih
    constructor
    · intro c amt t
      unfold sshiftS
      pres
    · intro c amt ds
      unfold sshiftDefsS
      pres

theorem sshiftS_state {f c amt t s a s'} (h : sshiftS f c amt t s = .ok a s') : s' = s :=
  ((sshiftS_same f).1 c amt t).out _ _ _ h

theorem ushiftS_same (f c a t) : Preserves (fun s s' => s' = s) (ushiftS f c a t) := by
  have := (sshiftS_same f).1 c (a : Int) t
  unfold ushiftS
  pres

theorem derefS_same : ∀ f t, Preserves (fun s s' => s' = s) (derefS f t) := by
  intro f
  induction f with
  | zero => intros; rw [derefS]; exact Preserves.outOfFuel
  | succ f ih =>
    intro t
    have hu := ushiftS_same f
    unfold derefS
    pres

theorem synEqS_same : ∀ f,
    (∀ a b, Preserves (fun s s' => s' = s) (synEqS f a b)) ∧
    (∀ a b, Preserves (fun s s' => s' = s) (synEqDefsS f a b)) := by
  intro f
  induction f with
  | zero =>
    constructor
    · intros; rw [synEqS]; exact Preserves.outOfFuel
    · intros; rw [synEqDefsS]; exact Preserves.outOfFuel
  | succ f ih =>
    obtain ⟨ih1, ih2⟩ := ih
    have hd := derefS_same f
    constructor
    · intro a b
      unfold synEqS
      pres
    · intro a b
      unfold synEqDefsS
      pres

theorem cellGet_ok' {id : Nat} {s s1 : St} {o : Option Tm} (h : cellGet id s = .ok o s1) :
    s1 = s ∧ (∀ sub, o = some sub → s.store[id]? = some (some sub)) ∧ (o = none → Empty s.store id) := by
  refine ⟨(cellGet_ok h).1, ?_, (cellGet_ok h).2⟩
  unfold cellGet at h
  cases h
  intro sub e
  split at e
  · next c hc => rw [hc, e]
  · cases e

/-- peel `m >>= k` when `m` leaves the state alone -/
theorem same_step {α β} {m : M α} {k : α → M β} {s s' : St} {r : β}
    (hm : Preserves (fun s s' => s' = s) m) (h : (m >>= k) s = .ok r s') :
    ∃ o, m s = .ok o s ∧ k o s = .ok r s' := by
  obtain ⟨o, s1, h1, h2⟩ := bind_ok h
  have e := hm.out _ _ _ h1
  subst e
  exact ⟨o, h1, h2⟩

theorem comb2 {A B A' B' : List Nat} (h1 : ∀ j ∈ A', Empty σ j ∧ ReachL σ A j)
    (h2 : ∀ j ∈ B', Empty σ j ∧ ReachL σ B j) : ∀ j ∈ A' ++ B', Empty σ j ∧ ReachL σ (A ++ B) j := by
  intro j hj
  rcases List.mem_append.1 hj with hj | hj
  · exact ⟨(h1 j hj).1, ReachL_append.2 (.inl (h1 j hj).2)⟩
  · exact ⟨(h2 j hj).1, ReachL_append.2 (.inr (h2 j hj).2)⟩

/-- **What lowering returns.**  Every cell mentioned by the result of `signed_shift` is an *empty* cell
reachable from the argument: solved cells are expanded, never copied. -/
theorem sshiftS_holes : ∀ f,
    (∀ c amt t s r s', sshiftS f c amt t s = .ok (some r) s' →
        ∀ j ∈ holesOf r, Empty s.store j ∧ ReachT s.store t j) ∧
    (∀ c amt ds s r s', sshiftDefsS f c amt ds s = .ok (some r) s' →
        ∀ j ∈ holesOfDefs r, Empty s.store j ∧ ReachD s.store ds j) := by
  intro f
  induction f with
  | zero =>
    constructor
    · intro c amt t s r s' h; rw [sshiftS] at h; cases h
    · intro c amt t s r s' h; rw [sshiftDefsS] at h; cases h
  | succ f ih =>
    obtain ⟨ih1, ih2⟩ := ih
    have hs := (sshiftS_same f).1
    have hsd := (sshiftS_same f).2
    constructor
    · intro c amt t s r s' h
      unfold sshiftS at h
      split at h
      · -- hole
        next id sh =>
        obtain ⟨o, s1, h1, h2⟩ := bind_ok h
        obtain ⟨rfl, hsome, hnone⟩ := cellGet_ok' h1
        split at h2
        · next sub =>
          obtain ⟨o2, h3, h4⟩ := same_step (hs _ _ _) h2
          split at h4
          · next sub' =>
            have i1 := ih1 _ _ _ _ _ _ h3
            have i2 := ih1 _ _ _ _ _ _ h4
            intro j hj
            obtain ⟨ej, rj⟩ := i2 j hj
            have : j ∈ holesOf sub' := (ReachL_empty (fun k hk => (i1 k hk).1)).1 rj
            exact ⟨ej, (ReachT_hole_solved (hsome _ rfl) ej).2 (i1 j this).2⟩
          · cases h4
        · have key : ∀ sh', ∀ j ∈ holesOf (.hole id sh'), Empty s1.store j ∧ ReachT s1.store (.hole id sh) j := by
            intro sh' j hj
            simp only [holesOf, List.mem_singleton] at hj
            subst hj
            exact ⟨hnone rfl, .inl (by simp [holesOf])⟩
          split at h2
          · split at h2
            · obtain ⟨e, _⟩ := pure_ok h2; cases e; exact key _
            · obtain ⟨e, _⟩ := pure_ok h2; cases e
          · obtain ⟨e, _⟩ := pure_ok h2; cases e; exact key _
      · -- var
        split at h
        · split at h
          · obtain ⟨e, _⟩ := pure_ok h; cases e; simp [holesOf]
          · obtain ⟨e, _⟩ := pure_ok h; cases e
        · obtain ⟨e, _⟩ := pure_ok h; cases e; simp [holesOf]
      · -- lam
        obtain ⟨o1, h1, h2⟩ := same_step (hs _ _ _) h
        split at h2
        · cases (pure_ok h2).1
        · obtain ⟨o2, h3, h4⟩ := same_step (hs _ _ _) h2
          split at h4
          · cases (pure_ok h4).1
          · obtain ⟨e, _⟩ := pure_ok h4; cases e
            simp only [ReachT, holesOf]
            exact comb2 (ih1 _ _ _ _ _ _ h1) (ih1 _ _ _ _ _ _ h3)
      · -- pi
        obtain ⟨o1, h1, h2⟩ := same_step (hs _ _ _) h
        split at h2
        · cases (pure_ok h2).1
        · obtain ⟨o2, h3, h4⟩ := same_step (hs _ _ _) h2
          split at h4
          · cases (pure_ok h4).1
          · obtain ⟨e, _⟩ := pure_ok h4; cases e
            simp only [ReachT, holesOf]
            exact comb2 (ih1 _ _ _ _ _ _ h1) (ih1 _ _ _ _ _ _ h3)
      · -- app
        obtain ⟨o1, h1, h2⟩ := same_step (hs _ _ _) h
        split at h2
        · cases (pure_ok h2).1
        · obtain ⟨o2, h3, h4⟩ := same_step (hs _ _ _) h2
          split at h4
          · cases (pure_ok h4).1
          · obtain ⟨e, _⟩ := pure_ok h4; cases e
            simp only [ReachT, holesOf]
            exact comb2 (ih1 _ _ _ _ _ _ h1) (ih1 _ _ _ _ _ _ h3)
      · -- letg
        obtain ⟨o1, h1, h2⟩ := same_step (hsd _ _ _) h
        split at h2
        · cases (pure_ok h2).1
        · obtain ⟨o2, h3, h4⟩ := same_step (hs _ _ _) h2
          split at h4
          · cases (pure_ok h4).1
          · obtain ⟨e, _⟩ := pure_ok h4; cases e
            simp only [ReachT, holesOf]
            exact comb2 (ih2 _ _ _ _ _ _ h1) (ih1 _ _ _ _ _ _ h3)
      · -- neg
        obtain ⟨o1, h1, h2⟩ := same_step (hs _ _ _) h
        split at h2
        · cases (pure_ok h2).1
        · obtain ⟨e, _⟩ := pure_ok h2; cases e
          simp only [ReachT, holesOf]
          exact ih1 _ _ _ _ _ _ h1
      · -- bin
        obtain ⟨o1, h1, h2⟩ := same_step (hs _ _ _) h
        split at h2
        · cases (pure_ok h2).1
        · obtain ⟨o2, h3, h4⟩ := same_step (hs _ _ _) h2
          split at h4
          · cases (pure_ok h4).1
          · obtain ⟨e, _⟩ := pure_ok h4; cases e
            simp only [ReachT, holesOf]
            exact comb2 (ih1 _ _ _ _ _ _ h1) (ih1 _ _ _ _ _ _ h3)
      · -- ite
        obtain ⟨o1, h1, h2⟩ := same_step (hs _ _ _) h
        split at h2
        · cases (pure_ok h2).1
        · obtain ⟨o2, h3, h4⟩ := same_step (hs _ _ _) h2
          split at h4
          · cases (pure_ok h4).1
          · obtain ⟨o3, h5, h6⟩ := same_step (hs _ _ _) h4
            split at h6
            · cases (pure_ok h6).1
            · obtain ⟨e, _⟩ := pure_ok h6; cases e
              simp only [ReachT, holesOf]
              exact comb2 (ih1 _ _ _ _ _ _ h1) (comb2 (ih1 _ _ _ _ _ _ h3) (ih1 _ _ _ _ _ _ h5))
      · -- leaves
        obtain ⟨e, _⟩ := pure_ok h; cases e
        cases t <;> first | (exfalso; solve_by_elim) | simp [holesOf]
    · intro c amt ds s r s' h
      unfold sshiftDefsS at h
      split at h
      · obtain ⟨e, _⟩ := pure_ok h; cases e; simp [holesOfDefs]
      · obtain ⟨o1, h1, h2⟩ := same_step (hs _ _ _) h
        split at h2
        · cases (pure_ok h2).1
        · obtain ⟨o2, h3, h4⟩ := same_step (hs _ _ _) h2
          split at h4
          · cases (pure_ok h4).1
          · obtain ⟨o3, h5, h6⟩ := same_step (hsd _ _ _) h4
            split at h6
            · cases (pure_ok h6).1
            · obtain ⟨e, _⟩ := pure_ok h6; cases e
              simp only [ReachD, holesOfDefs]
              exact comb2 (ih1 _ _ _ _ _ _ h1) (comb2 (ih1 _ _ _ _ _ _ h3) (ih2 _ _ _ _ _ _ h5))


/-! ## The occurs check computes reachability of an empty cell -/

theorem ite_step {m n : M Bool} {s s' : St} {b : Bool} (hm : Preserves (fun s s' => s' = s) m)
    (h : (m >>= fun c => if c = true then pure true else n) s = .ok b s') :
    ∃ b1, m s = .ok b1 s ∧ ((b1 = true ∧ b = true) ∨ (b1 = false ∧ n s = .ok b s')) := by
  obtain ⟨b1, h1, h2⟩ := same_step hm h
  refine ⟨b1, h1, ?_⟩
  split at h2
  · next e => exact .inl ⟨e, (pure_ok h2).1.symm⟩
  · next e => exact .inr ⟨by simpa using e, h2⟩

theorem or_spec {b1 b : Bool} {A B E : Prop} (h1 : b1 = true ↔ A ∧ E)
    (h2 : (b1 = true ∧ b = true) ∨ (b1 = false ∧ (b = true ↔ B ∧ E))) : b = true ↔ (A ∨ B) ∧ E := by
  rcases h2 with ⟨e1, e2⟩ | ⟨e1, h2⟩
  · have := h1.1 e1
    exact ⟨fun _ => ⟨.inl this.1, this.2⟩, fun _ => e2⟩
  · have hn : ¬ (A ∧ E) := fun h => by rw [h1.2 h] at e1; cases e1
    rw [h2]
    constructor
    · rintro ⟨hb, he⟩; exact ⟨.inr hb, he⟩
    · rintro ⟨ha | hb, he⟩
      · exact absurd ⟨ha, he⟩ hn
      · exact ⟨hb, he⟩

/-- **The occurs check is exact**: `occursS id t` answers `true` iff `id` is an empty cell mentioned by `t`
directly or through solved cells. -/
theorem occursS_spec : ∀ f,
    (∀ id t s b s', occursS f id t s = .ok b s' →
        (b = true ↔ (ReachT s.store t id ∧ Empty s.store id))) ∧
    (∀ id ds s b s', occursDefsS f id ds s = .ok b s' →
        (b = true ↔ (ReachD s.store ds id ∧ Empty s.store id))) := by
  intro f
  induction f with
  | zero =>
    constructor
    · intro id t s b s' h; rw [occursS] at h; cases h
    · intro id t s b s' h; rw [occursDefsS] at h; cases h
  | succ f ih =>
    obtain ⟨ih1, ih2⟩ := ih
    have ho := (WhnfLemmas.occursS_same f).1
    have hod := (WhnfLemmas.occursS_same f).2
    constructor
    · intro id t s b s' h
      unfold occursS at h
      split at h
      · -- hole
        next j sh =>
        obtain ⟨o, s1, h1, h2⟩ := bind_ok h
        obtain ⟨rfl, hsome, hnone⟩ := cellGet_ok' h1
        split at h2
        · next sub =>
          rw [ih1 _ _ _ _ _ h2]
          exact ⟨fun ⟨a, e⟩ => ⟨(ReachT_hole_solved (hsome _ rfl) e).2 a, e⟩,
            fun ⟨a, e⟩ => ⟨(ReachT_hole_solved (hsome _ rfl) e).1 a, e⟩⟩
        · obtain ⟨e, _⟩ := pure_ok h2
          subst e
          simp only [ReachT, holesOf, ReachL_single, beq_iff_eq]
          constructor
          · rintro rfl; exact ⟨.inl rfl, hnone rfl⟩
          · rintro ⟨e | r, _⟩
            · exact e.symm
            · exact absurd r (empty_no_reach (hnone rfl))
      · -- lam
        obtain ⟨b1, h1, h2⟩ := ite_step (ho _ _) h
        simp only [ReachT, holesOf, ReachL_append]
        exact or_spec (ih1 _ _ _ _ _ h1) (h2.imp (fun x => x) (fun ⟨e, h⟩ => ⟨e, ih1 _ _ _ _ _ h⟩))
      · -- pi
        obtain ⟨b1, h1, h2⟩ := ite_step (ho _ _) h
        simp only [ReachT, holesOf, ReachL_append]
        exact or_spec (ih1 _ _ _ _ _ h1) (h2.imp (fun x => x) (fun ⟨e, h⟩ => ⟨e, ih1 _ _ _ _ _ h⟩))
      · -- app
        obtain ⟨b1, h1, h2⟩ := ite_step (ho _ _) h
        simp only [ReachT, holesOf, ReachL_append]
        exact or_spec (ih1 _ _ _ _ _ h1) (h2.imp (fun x => x) (fun ⟨e, h⟩ => ⟨e, ih1 _ _ _ _ _ h⟩))
      · -- letg
        obtain ⟨b1, h1, h2⟩ := ite_step (hod _ _) h
        simp only [ReachT, holesOf, ReachL_append]
        exact or_spec (ih2 _ _ _ _ _ h1) (h2.imp (fun x => x) (fun ⟨e, h⟩ => ⟨e, ih1 _ _ _ _ _ h⟩))
      · -- neg
        simp only [ReachT, holesOf]
        exact ih1 _ _ _ _ _ h
      · -- bin
        obtain ⟨b1, h1, h2⟩ := ite_step (ho _ _) h
        simp only [ReachT, holesOf, ReachL_append]
        exact or_spec (ih1 _ _ _ _ _ h1) (h2.imp (fun x => x) (fun ⟨e, h⟩ => ⟨e, ih1 _ _ _ _ _ h⟩))
      · -- ite
        obtain ⟨b1, h1, h2⟩ := ite_step (ho _ _) h
        simp only [ReachT, holesOf, ReachL_append]
        refine or_spec (ih1 _ _ _ _ _ h1) (h2.imp (fun x => x) (fun ⟨e, h⟩ => ⟨e, ?_⟩))
        obtain ⟨b2, h3, h4⟩ := ite_step (ho _ _) h
        exact or_spec (ih1 _ _ _ _ _ h3) (h4.imp (fun x => x) (fun ⟨e, h⟩ => ⟨e, ih1 _ _ _ _ _ h⟩))
      · -- leaves
        obtain ⟨e, _⟩ := pure_ok h
        subst e
        have : holesOf t = [] := by
          cases t <;> first | (exfalso; solve_by_elim) | simp [holesOf]
        simp [ReachT, this, ReachL]
    · intro id ds s b s' h
      unfold occursDefsS at h
      split at h
      · obtain ⟨e, _⟩ := pure_ok h
        subst e
        simp [ReachD, holesOfDefs, ReachL]
      · obtain ⟨b1, h1, h2⟩ := ite_step (ho _ _) h
        simp only [ReachD, holesOfDefs, ReachL_append]
        refine or_spec (ih1 _ _ _ _ _ h1) (h2.imp (fun x => x) (fun ⟨e, h⟩ => ⟨e, ?_⟩))
        obtain ⟨b2, h3, h4⟩ := ite_step (ho _ _) h
        exact or_spec (ih1 _ _ _ _ _ h3) (h4.imp (fun x => x) (fun ⟨e, h⟩ => ⟨e, ih2 _ _ _ _ _ h⟩))

/-! ## `solveS`: the assignment is guarded -/

/-- the three outcomes of `solveS`, with the state they leave -/
theorem solveS_cases {f id sh : Nat} {other : Tm} {s s' : St} {r : Option Bool}
    (h : solveS f id sh other s = .ok r s') :
    (r = none ∧ s' = s) ∨ (r = some false ∧ s' = s) ∨
    (r = some true ∧ ∃ sol, sshiftS f 0 (-(sh : Int)) other s = .ok (some sol) s ∧
      occursS f id other s = .ok false s ∧ s' = { s with store := s.store.set id (some sol) }) := by
  unfold solveS at h
  obtain ⟨o, h1, h2⟩ := same_step ((sshiftS_same f).1 _ _ _) h
  split at h2
  · obtain ⟨rfl, rfl⟩ := pure_ok h2
    exact .inl ⟨rfl, rfl⟩
  · next sol =>
    obtain ⟨b, h3, h4⟩ := same_step ((WhnfLemmas.occursS_same f).1 _ _) h2
    split at h4
    · obtain ⟨rfl, rfl⟩ := pure_ok h4
      exact .inr (.inl ⟨rfl, rfl⟩)
    · next hb =>
      have : b = false := by simpa using hb
      subst this
      obtain ⟨o2, h5, h6⟩ := same_step ((sshiftS_same f).1 _ _ _) h4
      rw [h1] at h5
      cases h5
      obtain ⟨u, s4, h7, h8⟩ := bind_ok h6
      obtain ⟨rfl, rfl⟩ := pure_ok h8
      unfold cellSet modifySt at h7
      cases h7
      exact .inr (.inr ⟨rfl, sol, h1, h3, rfl⟩)

/-- **At the moment of an assignment `id := sol`**: every cell mentioned by `sol` is empty, is reachable from
the un-lowered `other` and is not `id`; so `id` is not reachable from `sol`, nor (if `id` is empty, as it
always is in `unifyS`) from `other`. -/
theorem solveS_assign {f id sh : Nat} {other sol : Tm} {s : St}
    (h1 : sshiftS f 0 (-(sh : Int)) other s = .ok (some sol) s)
    (h2 : occursS f id other s = .ok false s) :
    (∀ j ∈ holesOf sol, Empty s.store j ∧ j ≠ id ∧ ReachT s.store other j) ∧
    ¬ ReachT s.store sol id ∧ (Empty s.store id → ¬ ReachT s.store other id) := by
  have hh := (sshiftS_holes f).1 _ _ _ _ _ _ h1
  have ho := (occursS_spec f).1 _ _ _ _ _ h2
  have hno : ¬ (ReachT s.store other id ∧ Empty s.store id) := fun h => by
    have := ho.2 h; cases this
  have key : ∀ j ∈ holesOf sol, Empty s.store j ∧ j ≠ id ∧ ReachT s.store other j := by
    intro j hj
    refine ⟨(hh j hj).1, ?_, (hh j hj).2⟩
    rintro rfl
    exact hno ⟨(hh j hj).2, (hh j hj).1⟩
  refine ⟨key, ?_, fun he hr => hno ⟨hr, he⟩⟩
  intro hr
  have := (ReachL_empty (fun k hk => (key k hk).1)).1 hr
  exact (key id this).2.1 rfl

/-! ## `unifyS` (and `inferS`) evolve the store by guarded steps only -/

/-- `Le` plus: the store evolved by fresh allocations and guarded assignments -/
def GS (s s' : St) : Prop := Le s s' ∧ Guarded s.store s'.store

instance : RT GS where
  refl s := ⟨RT.refl s, .refl _⟩
  trans h1 h2 := ⟨RT.trans h1.1 h2.1, h1.2.trans h2.2⟩

theorem Grow.gs {s s' : St} (h : Grow s s') : GS s s' := by
  refine ⟨h.le, ?_⟩
  obtain ⟨⟨k, hk⟩, _⟩ := h
  rw [hk]
  exact Guarded.replicate _ k

theorem Preserves.gs {α} {m : M α} (hm : Preserves Grow m) : Preserves GS m :=
  hm.mono fun _ _ => Grow.gs

theorem solveS_gs {f id sh : Nat} {other : Tm} {s s' : St} {r : Option Bool}
    (h : solveS f id sh other s = .ok r s') :
    (r = none → Grow s s') ∧ (Empty s.store id → GS s s') := by
  refine ⟨(solveS_spec h).1, fun he => ?_⟩
  rcases solveS_cases h with ⟨_, rfl⟩ | ⟨_, rfl⟩ | ⟨_, sol, h1, h2, rfl⟩
  · exact RT.refl _
  · exact RT.refl _
  · refine ⟨(solveS_spec h).2 he, ?_⟩
    have := (solveS_assign h1 h2).1
    exact .assign (.refl _) he (fun j hj => ⟨(this j hj).1, (this j hj).2.1⟩)

theorem modifySt_gs {f : St → St} (hs : ∀ s, (f s).store = s.store) (hn : ∀ s, s.nerrs ≤ (f s).nerrs) :
    Preserves GS (modifySt f) := by
  refine ⟨fun s a s' h => ?_⟩
  have hl := (modifySt_le hs hn).out _ _ _ h
  unfold modifySt at h
  cases h
  exact ⟨hl, by rw [hs]; exact .refl _⟩

theorem pushD_gs (d) : Preserves GS (pushD d) := modifySt_gs (fun _ => rfl) (fun _ => Nat.le_refl _)
theorem popD_gs : Preserves GS popD := modifySt_gs (fun _ => rfl) (fun _ => Nat.le_refl _)
theorem pushCtx_gs (ty d) : Preserves GS (pushCtx ty d) :=
  modifySt_gs (fun _ => rfl) (fun _ => Nat.le_refl _)
theorem popCtx_gs : Preserves GS popCtx := modifySt_gs (fun _ => rfl) (fun _ => Nat.le_refl _)
theorem reportError_gs : Preserves GS reportError :=
  modifySt_gs (fun _ => rfl) (fun _ => Nat.le_succ _)
theorem cellFresh_gs : Preserves GS cellFresh := Preserves.gs Preserves.cellFresh_grow

theorem unifyS_gs : ∀ f a b, Preserves GS (unifyS f a b) := by
  intro f
  induction f with
  | zero => intros; rw [unifyS]; exact Preserves.outOfFuel
  | succ f ih =>
    intro a b
    unfold unifyS
    refine ⟨fun s r s' h => ?_⟩
    obtain ⟨c, s0, h0, h1⟩ := bind_ok h
    have g0 := (synEqS_pres _ _ _).out _ _ _ h0
    split at h1
    · obtain ⟨_, rfl⟩ := pure_ok h1
      exact Grow.gs g0
    · obtain ⟨w1, s1, hw1, h2⟩ := bind_ok h1
      obtain ⟨w2, s2, hw2, h3⟩ := bind_ok h2
      have g1 := (whnfS_pres _ _).out _ _ _ hw1
      have g2 := (whnfS_pres _ _).out _ _ _ hw2
      have E1 : HoleEmpty w1 s2 := fun i sh e => g2.empty ((whnfS_hole _ _).out _ _ _ hw1 i sh e)
      have E2 : HoleEmpty w2 s2 := (whnfS_hole _ _).out _ _ _ hw2
      refine RT.trans (Grow.gs g0) (RT.trans (Grow.gs g1) (RT.trans (Grow.gs g2) ?_))
      clear h h0 h1 h2 hw1 hw2 g0 g1 g2
      extract_lets structural rightHole at h3
      have hstruct : Preserves GS structural := by
        have hpush := pushD_gs
        have hpop := popD_gs
        unfold structural
        pres
      have hright : ∀ st r s', HoleEmpty w2 st → rightHole st = .ok r s' → GS st s' := by
        intro st r s' he h
        unfold rightHole at h
        split at h
        · obtain ⟨o, st1, hs, h'⟩ := bind_ok h
          have sp := solveS_gs hs
          split at h'
          · obtain ⟨_, rfl⟩ := pure_ok h'
            exact sp.2 (he _ _ rfl)
          · exact RT.trans (Grow.gs (sp.1 rfl)) (hstruct.out _ _ _ h')
        · exact hstruct.out _ _ _ h
      have hleft : ∀ i sh, w1 = .hole i sh →
          (do match ← solveS f i sh w2 with
              | some b => pure b
              | none => rightHole : M Bool) s2 = .ok r s' → GS s2 s' := by
        intro i sh e h
        obtain ⟨o, st1, hs, h'⟩ := bind_ok h
        have sp := solveS_gs hs
        split at h'
        · obtain ⟨_, rfl⟩ := pure_ok h'
          exact sp.2 (E1 _ _ e)
        · have g := sp.1 rfl
          exact RT.trans (Grow.gs g) (hright _ _ _ (fun j sh e => g.empty (E2 j sh e)) h')
      split at h3
      · split at h3
        · obtain ⟨_, rfl⟩ := pure_ok h3
          exact RT.refl _
        · exact hleft _ _ rfl h3
      · exact hleft _ _ rfl h3
      · exact hright _ _ _ E2 h3

theorem pushDefsS_gs (ds k) : Preserves GS (pushDefsS ds k) := by
  have hp := pushCtx_gs
  fun_induction pushDefsS ds k <;> pres

theorem popN_gs : ∀ k, Preserves GS (popN k) := by
  have hp := popCtx_gs
  intro k
  induction k with
  | zero => unfold popN; pres
  | succ k ih => unfold popN; pres

theorem inferS_gs_aux : ∀ f,
    (∀ t, Preserves GS (inferS f t)) ∧ (∀ ds, Preserves GS (inferDefsS f ds)) := by
  intro f
  induction f with
  | zero =>
    constructor
    · intros; rw [inferS]; exact Preserves.outOfFuel
    · intros; rw [inferDefsS]; exact Preserves.outOfFuel
  | succ f ih =>
    obtain ⟨ih1, ih2⟩ := ih
    have hun := unifyS_gs f
    have hus := fun c a t => Preserves.gs (ushiftS_pres f c a t)
    have hop := fun t i u s => Preserves.gs (openS_pres f t i u s)
    have hlt := fun ds k i acc => Preserves.gs (letTypeS_pres f ds k i acc)
    have hfr := cellFresh_gs
    have hpc := pushCtx_gs
    have hpo := popCtx_gs
    have hre := reportError_gs
    have hpd := pushDefsS_gs
    have hpn := popN_gs
    constructor
    · intro t
      unfold inferS
      pres
    · intro ds
      unfold inferDefsS
      pres

theorem unifyS_guarded {f a b s r s'} (h : unifyS f a b s = .ok r s') : Guarded s.store s'.store :=
  ((unifyS_gs f a b).out _ _ _ h).2
theorem inferS_guarded {f t s r s'} (h : inferS f t s = .ok r s') : Guarded s.store s'.store :=
  (((inferS_gs_aux f).1 t).out _ _ _ h).2
theorem whnfS_guarded {f t s r s'} (h : whnfS f t s = .ok r s') : Guarded s.store s'.store :=
  (Grow.gs ((whnfS_pres f t).out _ _ _ h)).2
theorem synEqS_state {f a b s r s'} (h : synEqS f a b s = .ok r s') : s' = s :=
  ((synEqS_same f).1 a b).out _ _ _ h


/-! ## `zonk` terminates on a terminating store -/

open UnifySound (Zk ZkD Zk_hole_none Zk_hole_some Zk_neg Zk_app Zk_lam Zk_pi Zk_bin Zk_letg Zk_ite
  ZkD_nil ZkD_cons Zk_leaf Leaf)

/-- the contents of cell `j`, if any, can be zonked -/
def CellZ (σ : List (Option Tm)) (j : Nat) : Prop := ∀ sub, σ[j]? = some (some sub) → ∃ z, Zk σ sub z

mutual
theorem zk_of_cells : ∀ (t : Tm), (∀ j ∈ holesOf t, CellZ σ j) → ∃ z, Zk σ t z
  | .hole id s, h => by
      rcases hc : σ[id]? with _ | _ | sub
      · exact ⟨_, (Zk_hole_none (by simp [hc])).2 rfl⟩
      · exact ⟨_, (Zk_hole_none (by simp [hc])).2 rfl⟩
      · obtain ⟨z, hz⟩ := h id (by simp [holesOf]) sub hc
        exact ⟨_, (Zk_hole_some hc).2 ⟨z, hz, rfl⟩⟩
  | .type, _ | .int, _ | .bool, _ | .tt, _ | .ff, _ | .lit _, _ | .var _ _, _ =>
      ⟨_, (Zk_leaf (by simp [Leaf])).2 rfl⟩
  | .lam x im d b, h => by
      obtain ⟨zd, hd⟩ := zk_of_cells d (fun j hj => h j (by simp [holesOf, hj]))
      obtain ⟨zb, hb⟩ := zk_of_cells b (fun j hj => h j (by simp [holesOf, hj]))
      exact ⟨_, Zk_lam.2 ⟨zd, zb, hd, hb, rfl⟩⟩
  | .pi x im d b, h => by
      obtain ⟨zd, hd⟩ := zk_of_cells d (fun j hj => h j (by simp [holesOf, hj]))
      obtain ⟨zb, hb⟩ := zk_of_cells b (fun j hj => h j (by simp [holesOf, hj]))
      exact ⟨_, Zk_pi.2 ⟨zd, zb, hd, hb, rfl⟩⟩
  | .app g a, h => by
      obtain ⟨zd, hd⟩ := zk_of_cells g (fun j hj => h j (by simp [holesOf, hj]))
      obtain ⟨zb, hb⟩ := zk_of_cells a (fun j hj => h j (by simp [holesOf, hj]))
      exact ⟨_, Zk_app.2 ⟨zd, zb, hd, hb, rfl⟩⟩
  | .letg ds b, h => by
      obtain ⟨zd, hd⟩ := zkD_of_cells ds (fun j hj => h j (by simp [holesOf, hj]))
      obtain ⟨zb, hb⟩ := zk_of_cells b (fun j hj => h j (by simp [holesOf, hj]))
      exact ⟨_, Zk_letg.2 ⟨zd, zb, hd, hb, rfl⟩⟩
  | .neg a, h => by
      obtain ⟨za, ha⟩ := zk_of_cells a (fun j hj => h j (by simp [holesOf, hj]))
      exact ⟨_, Zk_neg.2 ⟨za, ha, rfl⟩⟩
  | .bin op a b, h => by
      obtain ⟨zd, hd⟩ := zk_of_cells a (fun j hj => h j (by simp [holesOf, hj]))
      obtain ⟨zb, hb⟩ := zk_of_cells b (fun j hj => h j (by simp [holesOf, hj]))
      exact ⟨_, Zk_bin.2 ⟨zd, zb, hd, hb, rfl⟩⟩
  | .ite c a b, h => by
      obtain ⟨zc, hc⟩ := zk_of_cells c (fun j hj => h j (by simp [holesOf, hj]))
      obtain ⟨zd, hd⟩ := zk_of_cells a (fun j hj => h j (by simp [holesOf, hj]))
      obtain ⟨zb, hb⟩ := zk_of_cells b (fun j hj => h j (by simp [holesOf, hj]))
      exact ⟨_, Zk_ite.2 ⟨zc, zd, zb, hc, hd, hb, rfl⟩⟩
theorem zkD_of_cells : ∀ (ds : Defs), (∀ j ∈ holesOfDefs ds, CellZ σ j) → ∃ z, ZkD σ ds z
  | .nil, _ => ⟨_, ZkD_nil.2 rfl⟩
  | .cons x a d r, h => by
      obtain ⟨za, ha⟩ := zk_of_cells a (fun j hj => h j (by simp [holesOfDefs, hj]))
      obtain ⟨zd, hd⟩ := zk_of_cells d (fun j hj => h j (by simp [holesOfDefs, hj]))
      obtain ⟨zr, hr⟩ := zkD_of_cells r (fun j hj => h j (by simp [holesOfDefs, hj]))
      exact ⟨_, ZkD_cons.2 ⟨za, zd, zr, ha, hd, hr, rfl⟩⟩
end

theorem Terminating.cellZ (h : Terminating σ) : ∀ j, CellZ σ j := by
  intro j
  induction h j with
  | intro j _ ih =>
    intro sub hs
    exact zk_of_cells sub (fun k hk => ih k ⟨sub, hs, hk⟩)

/-- on a terminating store every term can be zonked with some fuel -/
theorem zonk_terminates (h : Terminating σ) (t : Tm) : ∃ fuel z, zonk fuel σ t = some z := by
  obtain ⟨z, n, hz⟩ := zk_of_cells t (fun j _ => h.cellZ j)
  exact ⟨n, z, hz⟩

/-! ## On a (finite) store, `Acyclic` and `Terminating` coincide -/

theorem acyclic_acc_aux (ha : Acyclic σ) : ∀ n (V : List Nat) k, V.Nodup → (∀ v ∈ V, v < σ.length) →
    (∀ v ∈ V, Reaches σ v k) → σ.length ≤ V.length + n → Acc (fun j i => Edge σ i j) k := by
  intro n
  induction n with
  | zero =>
    intro V k hnd hlt hr hlen
    refine ⟨k, fun j e => ?_⟩
    exfalso
    have hk : k ∉ V := fun hk => ha k (hr k hk)
    have hkl : k < σ.length := by
      obtain ⟨t, ht, _⟩ := e
      rcases Nat.lt_or_ge k σ.length with hl | hl
      · exact hl
      · rw [List.getElem?_eq_none hl] at ht; cases ht
    have hnd' : (k :: V).Nodup := List.nodup_cons.2 ⟨hk, hnd⟩
    have hsub : (k :: V) ⊆ List.range σ.length := by
      intro v hv
      rcases List.mem_cons.1 hv with rfl | hv
      · exact List.mem_range.2 hkl
      · exact List.mem_range.2 (hlt v hv)
    have := hnd'.length_le_of_subset hsub
    simp at this
    omega
  | succ n ih =>
    intro V k hnd hlt hr hlen
    refine ⟨k, fun j e => ?_⟩
    have hk : k ∉ V := fun hk => ha k (hr k hk)
    have hkl : k < σ.length := by
      obtain ⟨t, ht, _⟩ := e
      rcases Nat.lt_or_ge k σ.length with hl | hl
      · exact hl
      · rw [List.getElem?_eq_none hl] at ht; cases ht
    refine ih (k :: V) j (List.nodup_cons.2 ⟨hk, hnd⟩) ?_ ?_ (by simp; omega)
    · intro v hv
      rcases List.mem_cons.1 hv with rfl | hv
      · exact hkl
      · exact hlt v hv
    · intro v hv
      rcases List.mem_cons.1 hv with rfl | hv
      · exact .edge e
      · exact (hr v hv).snoc e

theorem Acyclic.terminating (ha : Acyclic σ) : Terminating σ := fun k =>
  acyclic_acc_aux ha σ.length [] k List.nodup_nil (by simp) (by simp) (by simp)

theorem acyclic_iff_terminating : Acyclic σ ↔ Terminating σ := ⟨Acyclic.terminating, Terminating.acyclic⟩

/-- on an acyclic store every term can be zonked with some fuel -/
theorem zonk_terminates_of_acyclic (h : Acyclic σ) (t : Tm) : ∃ fuel z, zonk fuel σ t = some z :=
  zonk_terminates h.terminating t

/-! ## An executable checker -/

/-- every chain of solved cells from `k` has length `≤ fuel` -/
def termB (σ : List (Option Tm)) : Nat → Nat → Bool
  | 0, k => match σ[k]? with
    | some (some _) => false
    | _ => true
  | f+1, k => match σ[k]? with
    | some (some t) => (holesOf t).all (termB σ f)
    | _ => true

def acyclicB (σ : List (Option Tm)) : Bool := (List.range σ.length).all (termB σ σ.length)

theorem termB_sound : ∀ f k, termB σ f k = true → Acc (fun j i => Edge σ i j) k := by
  intro f
  induction f with
  | zero =>
    intro k h
    refine ⟨k, fun j ⟨t, ht, _⟩ => ?_⟩
    simp [termB, ht] at h
  | succ f ih =>
    intro k h
    refine ⟨k, fun j ⟨t, ht, hj⟩ => ?_⟩
    simp only [termB, ht] at h
    exact ih j (List.all_eq_true.1 h j hj)

theorem acyclicB_sound (h : acyclicB σ = true) : Terminating σ := by
  intro k
  rcases Nat.lt_or_ge k σ.length with hl | hl
  · exact termB_sound _ k (List.all_eq_true.1 h k (List.mem_range.2 hl))
  · refine ⟨k, fun j ⟨t, ht, _⟩ => ?_⟩
    rw [List.getElem?_eq_none hl] at ht
    cases ht

theorem acyclicB_acyclic (h : acyclicB σ = true) : Acyclic σ := (acyclicB_sound h).acyclic

/-- a store of empty cells only -/
theorem Terminating.replicate (n : Nat) : Terminating (List.replicate n (none : Option Tm)) := by
  intro k
  refine ⟨k, fun j ⟨t, ht, _⟩ => ?_⟩
  rw [List.getElem?_replicate] at ht
  split at ht <;> cases ht

/-! ## The scoping clause at store level -/

/-- **Scope of an assignment, read through the store.**  When `solveS` assigns `id := sol` for a hole written
with shift `k`, then — if no hole lies below a cutoff (`hdeep`, `storeDeep`: finding KF-holedepth) — under any
store `σ'` extending the current one, whatever `other` reads as (`zo`), `sol` reads as `zo` lowered by `k`
binders: raising it back gives `zo`, and (once hole-free) every free variable of the reading of `sol`, raised
by `k`, is a free variable of `zo`, none of the `k` innermost variables being used. -/
theorem solveS_scoped {f id k : Nat} {other : Tm} {s s' : St}
    (h : solveS f id k other s = .ok (some true) s') (hS : storeDeep s.store) (hd : hdeep 0 other = true) :
    ∃ sol, s'.store = s.store.set id (some sol) ∧
      ∀ σ', StoreLe s.store σ' → ∀ zo, Zk σ' other zo →
        ∃ zs, Zk σ' sol zs ∧ sshift 0 (-(k : Int)) zo = some zs ∧ ushift 0 k zs = zo ∧
          (zo.holeFree = true →
            (∀ j, freeAt zs j = true → freeAt zo (j + k) = true) ∧ ∀ j, j < k → freeAt zo j = false) := by
  rcases solveS_cases h with ⟨e, _⟩ | ⟨e, _⟩ | ⟨_, sol, h1, _, rfl⟩
  · cases e
  · cases e
  · refine ⟨sol, rfl, fun σ' hle zo hzo => ?_⟩
    have hq := (UnifySound.sshiftS_zk (σ := σ') f).1 0 (-(k : Int)) other s hS hle hd _ _ h1 (Nat.le_refl _)
    obtain ⟨zs, hsh, hzs⟩ := (hq sol rfl).2 zo hzo
    refine ⟨zs, hzs, hsh, FuelLemmas.ushift_of_sshift_neg _ _ _ _ hsh, fun hf => ?_⟩
    have := FuelLemmas.solution_scoped zo zs k hf hsh
    exact ⟨this.1, this.2.1⟩

/-! ## Witnesses -/

/-- a solved chain `?0 := ?1`, `?1 := ?2 -> int`, and two empty cells -/
def exStore : List (Option Tm) :=
  [some (.hole 1 0), some (.pi 0 false (.hole 2 0) .int), none, none]

example : acyclicB exStore = true := by decide
-- `?3` is solved by `?0 -> bool` with the chain expanded: `(?2 -> int) -> bool`
example :
    (match unifyS 20 (.hole 3 0) (.pi 0 false (.hole 0 0) .bool) { store := exStore } with
     | .ok r s' => r == true && acyclicB s'.store &&
         s'.store == [some (.hole 1 0), some (.pi 0 false (.hole 2 0) .int), none,
           some (.pi 0 false (.pi 0 false (.hole 2 0) .int) .bool)]
     | _ => false) = true := by decide
-- the occurs check through the chain: `?2 = ?0 -> bool` is `X = f X`; answer `false`, store unchanged
example :
    (match unifyS 20 (.hole 2 0) (.pi 0 false (.hole 0 0) .bool) { store := exStore } with
     | .ok r s' => r == false && s'.store == exStore
     | _ => false) = true := by decide
-- the occurs check is what is needed: a store with a cycle is rejected by the checker
example : acyclicB [some (.hole 1 0), some (.pi 0 false (.hole 0 0) .int)] = false := by decide
example : ¬ Acyclic [some (.hole 1 0), some (.pi 0 false (.hole 0 0) .int)] := fun h =>
  h 0 (.cons (k := 1) ⟨.hole 1 0, rfl, by simp [holesOf]⟩
    (.edge ⟨.pi 0 false (.hole 0 0) .int, rfl, by simp [holesOf]⟩))
-- `occursS` on the chain
example : (match occursS 10 2 (.hole 0 0) { store := exStore } with | .ok b _ => b | _ => false) = true := by
  decide
example : (match occursS 10 3 (.hole 0 0) { store := exStore } with | .ok b _ => !b | _ => false) = true := by
  decide

end UnifyAcyclic
