import GramModel.Lemmas.Eval
import GramModel.Oracle

/-!
# One-step progress for the independent checker (`C01_typed_stuck_only_var_or_div`)

Inversion of `inferX` one level deep, canonical forms through `whnfX` / `convX`, and the
classification theorem: a hole-free term accepted by `inferX` is never stuck for a kind reason.
-/

namespace OracleLemmas

/-- the type `inferX` assigns to a value is determined by the value's shape -/
theorem value_type_shape (f : Nat) (Γ : TCtxX) (Δ : DCtxX) (v T : Tm) (hv : isValue v = true)
    (h : inferX f Γ Δ v = .ok T) :
    (match v with
     | .lit _ => T = .int
     | .tt | .ff => T = .bool
     | .type | .int | .bool | .pi .. => T = .type
     | .lam x im d _ => ∃ cod, T = .pi x im d cod
     | _ => False) := by
  cases f with
  | zero => simp [inferX] at h
  | succ f =>
    cases v <;> simp [isValue] at hv <;> unfold inferX at h
    case type => cases h; rfl
    case int => cases h; rfl
    case bool => cases h; rfl
    case tt => cases h; rfl
    case ff => cases h; rfl
    case lit => cases h; rfl
    case lam x im d b =>
      simp only at h
      repeat (split at h <;> try (cases h; done))
      cases h
      exact ⟨_, rfl⟩
    case pi x im d b =>
      simp only at h
      repeat (split at h <;> try (cases h; done))
      cases h
      rfl

/-! ## canonical forms through the checker's own tests -/

theorem convX_int_rigid (f : Nat) (Δ : DCtxX) (T : Tm)
    (hT : T = .bool ∨ T = .type ∨ ∃ x im d c, T = .pi x im d c) : convX f Δ T .int ≠ some true := by
  rcases hT with rfl | rfl | ⟨x, im, d, c, rfl⟩ <;>
    (cases f with
     | zero => simp [convX]
     | succ f => cases f <;> simp [convX, sameX, whnfX])

theorem convX_bool_rigid (f : Nat) (Δ : DCtxX) (T : Tm)
    (hT : T = .int ∨ T = .type ∨ ∃ x im d c, T = .pi x im d c) : convX f Δ T .bool ≠ some true := by
  rcases hT with rfl | rfl | ⟨x, im, d, c, rfl⟩ <;>
    (cases f with
     | zero => simp [convX]
     | succ f => cases f <;> simp [convX, sameX, whnfX])

theorem expectX_ok {f : Nat} {Δ : DCtxX} {a b : Tm} {e : XErr} (h : expectX f Δ a b e = .ok ()) :
    convX f Δ a b = some true := by
  unfold expectX at h
  split at h <;> first | assumption | cases h

/-- a value whose type passes the `int` test is a literal -/
theorem value_expect_int (f f' : Nat) (Γ : TCtxX) (Δ Δ' : DCtxX) (v T : Tm) (e : XErr)
    (hv : isValue v = true) (h : inferX f Γ Δ v = .ok T) (hc : expectX f' Δ' T .int e = .ok ()) :
    ∃ n, v = .lit n := by
  have hs := value_type_shape f Γ Δ v T hv h
  have key := expectX_ok hc
  cases v <;> simp [isValue] at hv <;> simp only at hs
  case lit => exact ⟨_, rfl⟩
  case lam => obtain ⟨cod, rfl⟩ := hs; exact absurd key (convX_int_rigid _ _ _ (by simp))
  all_goals
    subst hs
    exact absurd key (convX_int_rigid _ _ _ (by simp))

/-- a value whose type passes the `bool` test is `true` or `false` -/
theorem value_expect_bool (f f' : Nat) (Γ : TCtxX) (Δ Δ' : DCtxX) (v T : Tm) (e : XErr)
    (hv : isValue v = true) (h : inferX f Γ Δ v = .ok T) (hc : expectX f' Δ' T .bool e = .ok ()) :
    v = .tt ∨ v = .ff := by
  have hs := value_type_shape f Γ Δ v T hv h
  have key := expectX_ok hc
  cases v <;> simp [isValue] at hv <;> simp only at hs
  case tt => exact Or.inl rfl
  case ff => exact Or.inr rfl
  case lam => obtain ⟨cod, rfl⟩ := hs; exact absurd key (convX_bool_rigid _ _ _ (by simp))
  all_goals
    subst hs
    exact absurd key (convX_bool_rigid _ _ _ (by simp))

/-- a value whose type weak-head normalises to a function type or to a hole is a function -/
theorem value_whnf_fun (f f' : Nat) (Γ : TCtxX) (Δ Δ' : DCtxX) (v T W : Tm)
    (hv : isValue v = true) (h : inferX f Γ Δ v = .ok T) (hw : whnfX f' Δ' T = some W)
    (hW : (∃ x im d c, W = .pi x im d c) ∨ (∃ id sh, W = .hole id sh)) :
    ∃ x im d b, v = .lam x im d b := by
  have hs := value_type_shape f Γ Δ v T hv h
  cases v <;> simp [isValue] at hv <;> simp only at hs
  case lam => exact ⟨_, _, _, _, rfl⟩
  all_goals
    subst hs
    cases f' <;> simp [whnfX] at hw
    subst hw
    rcases hW with ⟨_, _, _, _, h⟩ | ⟨_, _, h⟩ <;> cases h


/-! ## inversion of `inferX`, one level -/

theorem inferX_app_inv {f Γ Δ g a T} (h : inferX f Γ Δ (.app g a) = .ok T) :
    ∃ f' gty W aty, f = f' + 1 ∧ inferX f' Γ Δ g = .ok gty ∧ whnfX f' Δ gty = some W ∧
      ((∃ x im d c, W = .pi x im d c) ∨ (∃ id sh, W = .hole id sh)) ∧
      inferX f' Γ Δ a = .ok aty := by
  cases f with
  | zero => simp [inferX] at h
  | succ f =>
    unfold inferX at h
    simp only at h
    split at h
    · cases h
    · rename_i gty hg
      split at h
      · cases h
      · rename_i x im dom cod hw
        split at h
        · cases h
        · rename_i aty ha
          exact ⟨f, gty, _, aty, rfl, hg, hw, Or.inl ⟨_, _, _, _, rfl⟩, ha⟩
      · rename_i id sh hw
        split at h
        · cases h
        · rename_i aty ha
          exact ⟨f, gty, _, aty, rfl, hg, hw, Or.inr ⟨_, _, rfl⟩, ha⟩
      · cases h

theorem inferX_neg_inv {f Γ Δ a T} (h : inferX f Γ Δ (.neg a) = .ok T) :
    ∃ f' aty, f = f' + 1 ∧ inferX f' Γ Δ a = .ok aty ∧ expectX f' Δ aty .int .notInt = .ok () := by
  cases f with
  | zero => simp [inferX] at h
  | succ f =>
    unfold inferX at h
    simp only at h
    split at h
    · cases h
    · rename_i aty ha
      split at h
      · cases h
      · rename_i u he
        exact ⟨f, aty, rfl, ha, he⟩

theorem inferX_bin_inv {f Γ Δ op a b T} (h : inferX f Γ Δ (.bin op a b) = .ok T) :
    ∃ f' aty bty, f = f' + 1 ∧ inferX f' Γ Δ a = .ok aty ∧ expectX f' Δ aty .int .notInt = .ok () ∧
      inferX f' Γ Δ b = .ok bty ∧ expectX f' Δ bty .int .notInt = .ok () := by
  cases f with
  | zero => simp [inferX] at h
  | succ f =>
    unfold inferX at h
    simp only at h
    split at h
    · cases h
    · rename_i aty ha
      split at h
      · cases h
      · rename_i u he
        split at h
        · cases h
        · rename_i bty hb
          split at h
          · cases h
          · rename_i u' he'
            exact ⟨f, aty, bty, rfl, ha, he, hb, he'⟩

theorem inferX_ite_inv {f Γ Δ c a b T} (h : inferX f Γ Δ (.ite c a b) = .ok T) :
    ∃ f' cty, f = f' + 1 ∧ inferX f' Γ Δ c = .ok cty ∧ expectX f' Δ cty .bool .notBool = .ok () := by
  cases f with
  | zero => simp [inferX] at h
  | succ f =>
    unfold inferX at h
    simp only at h
    split at h
    · cases h
    · rename_i cty hc
      split at h
      · cases h
      · rename_i u he
        exact ⟨f, cty, rfl, hc, he⟩

theorem inferX_let_inv {f Γ Δ x ann d rest body T}
    (h : inferX f Γ Δ (.letg (.cons x ann d rest) body) = .ok T) :
    ∃ f' Γ' Δ' dty, inferX f' Γ' Δ' d = .ok dty := by
  cases f with
  | zero => simp [inferX] at h
  | succ f =>
    unfold inferX at h
    simp only at h
    split at h
    · cases h
    · rename_i u hd
      cases f with
      | zero => simp [inferDefsX] at hd
      | succ f =>
        unfold inferDefsX at hd
        simp only at hd
        split at hd
        · cases hd
        · split at hd
          · cases hd
          · split at hd
            · cases hd
            · rename_i dty hdd
              exact ⟨_, _, _, dty, hdd⟩


/-! ## the classification -/

theorem not_not_value {t : Tm} (h : ¬(!isValue t) = true) : isValue t = true := by
  cases hv : isValue t <;> simp [hv] at h ⊢

/-- **One-step progress for the independent checker.**  A hole-free term accepted by `inferX`
(any fuel, any contexts) that is stuck is stuck at a variable in evaluation position or at a
division by zero. -/
theorem typed_stuck_only_var_or_div : ∀ (t : Tm) (r : StuckReason), stuckReason t = some r →
    ∀ (f : Nat) (Γ : TCtxX) (Δ : DCtxX) (T : Tm), t.holeFree = true → inferX f Γ Δ t = .ok T →
      r = .variable ∨ r = .divZero := by
  intro t
  fun_induction stuckReason t <;> intro r hs f Γ Δ T hf h
  -- every `none = some r` case
  all_goals try (cases hs; done)
  case case1 => simp [Tm.holeFree] at hf
  case case2 => cases hs; exact Or.inl rfl
  case case4 ih =>
    simp only [Tm.holeFree, Bool.and_eq_true] at hf
    obtain ⟨f', gty, W, aty, _, hg, _, _, _⟩ := inferX_app_inv h
    exact ih r hs f' Γ Δ gty hf.1 hg
  case case6 ih =>
    simp only [Tm.holeFree, Bool.and_eq_true] at hf
    obtain ⟨f', gty, W, aty, _, _, _, _, ha⟩ := inferX_app_inv h
    exact ih r hs f' Γ Δ aty hf.2 ha
  case case8 hvf _ _ hnl =>
    obtain ⟨f', gty, W, aty, _, hg, hw, hW, _⟩ := inferX_app_inv h
    obtain ⟨x, im, d, b, e⟩ := value_whnf_fun f' f' Γ Δ Δ _ gty W (not_not_value hvf) hg hw hW
    exact (hnl x im d b e).elim
  case case11 ih =>
    simp only [Tm.holeFree, Defs.holeFree, Bool.and_eq_true] at hf
    obtain ⟨f', Γ', Δ', dty, hd⟩ := inferX_let_inv h
    exact ih r hs f' Γ' Δ' dty hf.1.1.2 hd
  case case14 ih =>
    simp only [Tm.holeFree] at hf
    obtain ⟨f', aty, _, ha, _⟩ := inferX_neg_inv h
    exact ih r hs f' Γ Δ aty hf ha
  case case16 _ hva hnl =>
    obtain ⟨f', aty, _, ha, he⟩ := inferX_neg_inv h
    obtain ⟨n, e⟩ := value_expect_int f' f' Γ Δ Δ _ aty _ (not_not_value hva) ha he
    exact (hnl n e).elim
  case case18 ih =>
    simp only [Tm.holeFree, Bool.and_eq_true] at hf
    obtain ⟨f', aty, bty, _, ha, _, _, _⟩ := inferX_bin_inv h
    exact ih r hs f' Γ Δ aty hf.1 ha
  case case20 ih =>
    simp only [Tm.holeFree, Bool.and_eq_true] at hf
    obtain ⟨f', aty, bty, _, _, _, hb, _⟩ := inferX_bin_inv h
    exact ih r hs f' Γ Δ bty hf.2 hb
  case case21 => cases hs; exact Or.inr rfl
  case case23 _ hva _ hvb hnl =>
    obtain ⟨f', aty, bty, _, ha, hea, hb, heb⟩ := inferX_bin_inv h
    obtain ⟨n, e1⟩ := value_expect_int f' f' Γ Δ Δ _ aty _ (not_not_value hva) ha hea
    obtain ⟨m, e2⟩ := value_expect_int f' f' Γ Δ Δ _ bty _ (not_not_value hvb) hb heb
    exact (hnl n m e1 e2).elim
  case case25 ih =>
    simp only [Tm.holeFree, Bool.and_eq_true] at hf
    obtain ⟨f', cty, _, hc, _⟩ := inferX_ite_inv h
    exact ih r hs f' Γ Δ cty hf.1.1 hc
  case case28 _ hvc hnt hnf =>
    obtain ⟨f', cty, _, hc, he⟩ := inferX_ite_inv h
    rcases value_expect_bool f' f' Γ Δ Δ _ cty _ (not_not_value hvc) hc he with e | e
    · exact (hnt e).elim
    · exact (hnf e).elim

end OracleLemmas
